/-
C03 model — thermal expansion of components (core Lean only, no Mathlib).

Transcribes
  armi/materials/material.py      Material.linearExpansionFactor, getThermalExpansionDensityReduction,
                                  Fluid.getThermalExpansionDensityReduction
  armi/reactor/components/component.py
                                  Component.getThermalExpansionFactor, setTemperature, getDimension,
                                  setDimension, _DimensionLink.resolveDimension, changeNDensByFactor
  armi/reactor/components/basicShapes.py, complexShapes.py, __init__.py (UnshapedComponent)
                                  getComponentArea and THERMAL_EXPANSION_DIMS of every 2-D shape class

The material is a PARAMETER: `pct : T → Rat` is `linearExpansionPercent(Tc = ·)` of whatever material the
component has (any function at all); fluids carry `rho : T → Rat` (`pseudoDensity`).
-/
namespace ArmiVerif.Thermal

/-! ## material.py -/

/-- `Material.linearExpansionFactor(Tc, T0)`: `(dLLhot - dLLcold) / (100.0 + dLLcold)` -/
def linExpFactor {T : Type} (pct : T → Rat) (Tc T0 : T) : Rat :=
  (pct Tc - pct T0) / (100 + pct T0)

/-- `Material.getThermalExpansionDensityReduction(prev, new)`: `1.0 / (1 + dLL) ** 2` -/
def densReduction {T : Type} (pct : T → Rat) (prev new : T) : Rat :=
  1 / ((1 + linExpFactor pct new prev) * (1 + linExpFactor pct new prev))

/-- `Fluid.getThermalExpansionDensityReduction`: `rho1 / rho0`, 1 when `rho0` is zero -/
def fluidDensReduction {T : Type} (rho : T → Rat) (prev new : T) : Rat :=
  if rho prev = 0 then 1 else rho new / rho prev

/-- solid / fluid-or-custom (the two classes `getThermalExpansionFactor` distinguishes) -/
inductive Kind where
  | solid | fluid
  deriving DecidableEq, Repr

/-- `Component.getThermalExpansionFactor(Tc, T0)` for a solid, without the error branch: `1.0 + dLL` -/
def expFactor {T : Type} (pct : T → Rat) (Tc T0 : T) : Rat := 1 + linExpFactor pct Tc T0

/-- `Component.getThermalExpansionFactor` with its error behaviour: fluids/custom → 1; a solid whose
correlation gives `dLL = 0` although the temperatures differ raises `RuntimeError` (`none`).
`same` is the code's `abs(Tc - T0) <= _TOLERANCE` test, decided by the caller. -/
def thermalExpansionFactor {T : Type} (k : Kind) (pct : T → Rat) (Tc T0 : T) (same : Bool) : Option Rat :=
  match k with
  | .fluid => some 1
  | .solid =>
    let dLL := linExpFactor pct Tc T0
    if dLL = 0 ∧ same = false then none else some (1 + dLL)

/-! ## number densities along a temperature path (`Component.setTemperature`) -/

/-- one `setTemperature(new)` of a solid: every number density times the density reduction -/
def stepND {T : Type} (pct : T → Rat) (prev new : T) (nd : List Rat) : List Rat :=
  nd.map (fun n => n * densReduction pct prev new)

def stepNDFluid {T : Type} (rho : T → Rat) (prev new : T) (nd : List Rat) : List Rat :=
  nd.map (fun n => n * fluidDensReduction rho prev new)

/-- state of the part of a component `setTemperature` touches -/
structure TState (T : Type) where
  temp : T
  nd : List Rat

def setTemperature {T : Type} (pct : T → Rat) (s : TState T) (new : T) : TState T :=
  { temp := new, nd := stepND pct s.temp new s.nd }

/-- a whole temperature history -/
def runPath {T : Type} (pct : T → Rat) (s : TState T) (path : List T) : TState T :=
  path.foldl (setTemperature pct) s

/-- a single density along a path (what `runPath` does to each entry) -/
def ndAlong {T : Type} (pct : T → Rat) : T → List T → Rat → Rat
  | _, [], n => n
  | t, t' :: rest, n => ndAlong pct t' rest (n * densReduction pct t t')

/-! ## areas: one function per 2-D shape class, generic in the scalar type.
`pi`, `sqrt3` are passed in (the driver uses the exact rational values of Python's `math.pi`,
`math.sqrt(3.0)`; the theorems hold for any values, in any field). -/

section Areas
variable {K : Type} [Add K] [Sub K] [Mul K] [Div K] [OfNat K 2] [OfNat K 4]

/-- `Circle.getComponentArea`: `math.pi * (od**2 - idiam**2) / 4.0 * mult` -/
def areaCircle (pi od id mult : K) : K := pi * (od * od - id * id) / 4 * mult

/-- `Hexagon.getComponentArea`: `math.sqrt(3.0) / 2.0 * (op**2 - ip**2) * mult` -/
def areaHexagon (sqrt3 op ip mult : K) : K := sqrt3 / 2 * (op * op - ip * ip) * mult

/-- `Rectangle.getComponentArea`: `mult * (lengthO * widthO - lengthI * widthI)` -/
def areaRectangle (lengthO widthO lengthI widthI mult : K) : K := mult * (lengthO * widthO - lengthI * widthI)

/-- `SolidRectangle.getComponentArea`: `mult * (lengthO * widthO)` -/
def areaSolidRectangle (lengthO widthO mult : K) : K := mult * (lengthO * widthO)

/-- `Square.getComponentArea`: `mult * (widthO * widthO - widthI * widthI)` -/
def areaSquare (widthO widthI mult : K) : K := mult * (widthO * widthO - widthI * widthI)

/-- `Triangle.getComponentArea`: `mult * base * height / 2.0` -/
def areaTriangle (base height mult : K) : K := mult * base * height / 2

/-- `HoledHexagon.getComponentArea`: `mult * (sqrt(3)/2 * op**2 - nHoles * pi * (holeOD/2)**2)` -/
def areaHoledHexagon (pi sqrt3 op holeOD nHoles mult : K) : K :=
  mult * (sqrt3 / 2 * (op * op) - nHoles * pi * ((holeOD / 2) * (holeOD / 2)))

/-- `HexHoledCircle.getComponentArea`: `mult * (pi * (od/2)**2 - sqrt(3)/2 * holeOP**2)` -/
def areaHexHoledCircle (pi sqrt3 od holeOP mult : K) : K :=
  mult * (pi * ((od / 2) * (od / 2)) - sqrt3 / 2 * (holeOP * holeOP))

/-- `HoledRectangle.getComponentArea`: `mult * (length * width - pi * (holeOD/2)**2)` -/
def areaHoledRectangle (pi lengthO widthO holeOD mult : K) : K :=
  mult * (lengthO * widthO - pi * ((holeOD / 2) * (holeOD / 2)))

/-- `HoledSquare.getComponentArea`: `mult * (width**2 - pi * (holeOD/2)**2)` -/
def areaHoledSquare (pi widthO holeOD mult : K) : K :=
  mult * (widthO * widthO - pi * ((holeOD / 2) * (holeOD / 2)))

/-- `Helix.getComponentArea`: `c = ap/(2 pi)`, `helixFactor = sqrt((hd/2)**2 + c**2)/c`,
`mult * pi * ((od/2)**2 - (id/2)**2) * helixFactor`; the square root is the parameter `root`
(`root = sqrt((hd/2)**2 + c**2)`), specified by `IsHelixRoot`. -/
def helixC (pi ap : K) : K := ap / (2 * pi)
def helixRadicand (pi ap hd : K) : K := (hd / 2) * (hd / 2) + helixC pi ap * helixC pi ap
def areaHelix (pi od id ap mult root : K) : K :=
  mult * pi * ((od / 2) * (od / 2) - (id / 2) * (id / 2)) * (root / helixC pi ap)

/-- `UnshapedComponent.getComponentArea`: `getThermalExpansionFactor(Tc) ** 2 * coldArea` -/
def areaUnshaped (factor coldArea : K) : K := factor * factor * coldArea

end Areas

/-! ## shape table: dimension names, `THERMAL_EXPANSION_DIMS`, area by name -/

inductive Shape where
  | Circle | Hexagon | Rectangle | SolidRectangle | Square | Triangle
  | HoledHexagon | HexHoledCircle | HoledRectangle | HoledSquare | Helix
  deriving DecidableEq, Repr

def Shape.all : List Shape :=
  [.Circle, .Hexagon, .Rectangle, .SolidRectangle, .Square, .Triangle,
   .HoledHexagon, .HexHoledCircle, .HoledRectangle, .HoledSquare, .Helix]

def Shape.name : Shape → String
  | .Circle => "Circle" | .Hexagon => "Hexagon" | .Rectangle => "Rectangle"
  | .SolidRectangle => "SolidRectangle" | .Square => "Square" | .Triangle => "Triangle"
  | .HoledHexagon => "HoledHexagon" | .HexHoledCircle => "HexHoledCircle"
  | .HoledRectangle => "HoledRectangle" | .HoledSquare => "HoledSquare" | .Helix => "Helix"

def Shape.ofName? (s : String) : Option Shape := Shape.all.find? (fun x => x.name = s)

/-- the dimensions each `getComponentArea` reads, in the order the driver receives them -/
def Shape.dims : Shape → List String
  | .Circle => ["od", "id", "mult"]
  | .Hexagon => ["op", "ip", "mult"]
  | .Rectangle => ["lengthOuter", "widthOuter", "lengthInner", "widthInner", "mult"]
  | .SolidRectangle => ["lengthOuter", "widthOuter", "mult"]
  | .Square => ["widthOuter", "widthInner", "mult"]
  | .Triangle => ["base", "height", "mult"]
  | .HoledHexagon => ["op", "holeOD", "nHoles", "mult"]
  | .HexHoledCircle => ["od", "holeOP", "mult"]
  | .HoledRectangle => ["lengthOuter", "widthOuter", "holeOD", "mult"]
  | .HoledSquare => ["widthOuter", "holeOD", "mult"]
  | .Helix => ["od", "id", "axialPitch", "helixDiameter", "mult"]

/-- `THERMAL_EXPANSION_DIMS` of each class as written in the source (sorted; `Square` inherits
`Rectangle`'s set). `Gen/Shapes.lean` holds what the classes say on this run; `Props/C03Gen.lean`
checks the two agree. -/
def Shape.expDims : Shape → List String
  | .Circle => ["id", "od"]
  | .Hexagon => ["ip", "op"]
  | .Rectangle => ["lengthInner", "lengthOuter", "widthInner", "widthOuter"]
  | .SolidRectangle => ["lengthOuter", "widthOuter"]
  | .Square => ["lengthInner", "lengthOuter", "widthInner", "widthOuter"]
  | .Triangle => ["base", "height"]
  | .HoledHexagon => ["holeOD", "op"]
  | .HexHoledCircle => ["holeOP", "od"]
  | .HoledRectangle => ["holeOD", "lengthOuter", "widthOuter"]
  | .HoledSquare => ["holeOD", "widthOuter"]
  | .Helix => ["axialPitch", "helixDiameter", "id", "od"]

/-- area of a shape from a dimension valuation (`root` only matters for `Helix`) -/
def Shape.area (s : Shape) (pi sqrt3 root : Rat) (d : String → Rat) : Rat :=
  match s with
  | .Circle => areaCircle pi (d "od") (d "id") (d "mult")
  | .Hexagon => areaHexagon sqrt3 (d "op") (d "ip") (d "mult")
  | .Rectangle => areaRectangle (d "lengthOuter") (d "widthOuter") (d "lengthInner") (d "widthInner") (d "mult")
  | .SolidRectangle => areaSolidRectangle (d "lengthOuter") (d "widthOuter") (d "mult")
  | .Square => areaSquare (d "widthOuter") (d "widthInner") (d "mult")
  | .Triangle => areaTriangle (d "base") (d "height") (d "mult")
  | .HoledHexagon => areaHoledHexagon pi sqrt3 (d "op") (d "holeOD") (d "nHoles") (d "mult")
  | .HexHoledCircle => areaHexHoledCircle pi sqrt3 (d "od") (d "holeOP") (d "mult")
  | .HoledRectangle => areaHoledRectangle pi (d "lengthOuter") (d "widthOuter") (d "holeOD") (d "mult")
  | .HoledSquare => areaHoledSquare pi (d "widthOuter") (d "holeOD") (d "mult")
  | .Helix => areaHelix pi (d "od") (d "id") (d "axialPitch") (d "mult") root

/-- multiply exactly the dimensions named in `exp` by `f` (what `getDimension` does to the cold values) -/
def scaleDims (exp : List String) (f : Rat) (d : String → Rat) : String → Rat :=
  fun k => if exp.contains k then f * d k else d k

/-! ## components with dimension links (`getDimension`, `setDimension`, `_DimensionLink`) -/

/-- a stored dimension: a number, or a link `(component index, dimension name)` -/
inductive Dim where
  | val (q : Rat)
  | link (comp : Nat) (key : String)
  deriving Repr

structure Comp where
  kind : Kind
  /-- `getThermalExpansionFactor()` of this component at its current temperatures
  (`none` = the call raises); computed by `thermalExpansionFactor` from the measured `pct` values -/
  factor : Option Rat
  expDims : List String
  dims : List (String × Dim)

def Comp.dim? (c : Comp) (key : String) : Option Dim := (c.dims.find? (fun p => p.1 = key)).map (·.2)

/-- `Component.getDimension(key, cold=cold)` (Tc = None). Links are resolved on the linked component with the
same `cold` flag, recursively (`fuel` bounds the chain length; a cycle is `none`, the code recurses for ever).
`not dimension or cold or key not in THERMAL_EXPANSION_DIMS` → stored value; else factor × stored value. -/
def getDimension (sys : List Comp) : Nat → Nat → String → Bool → Option Rat
  | 0, _, _, _ => none
  | fuel + 1, i, key, cold =>
    match sys[i]? with
    | none => none
    | some c =>
      match c.dim? key with
      | none => none
      | some (.link j k) => getDimension sys fuel j k cold
      | some (.val q) =>
        if q = 0 ∨ cold = true ∨ ¬ c.expDims.contains key then some q
        else match c.factor with
          | none => none
          | some f => some (f * q)

/-- `Component.setDimension(key, val, retainLink=False, cold=cold)`: a hot value is divided by the expansion
factor (1 for a non-expanding dimension) and stored, replacing a link if there was one. -/
def setDimension (c : Comp) (key : String) (v : Rat) (cold : Bool) : Option Comp :=
  let stored : Option Rat :=
    if cold then some v
    else if c.expDims.contains key then c.factor.map (fun f => v / f) else some v
  stored.map (fun q => { c with dims := c.dims.map (fun p => if p.1 = key then (p.1, Dim.val q) else p) })

/-- `Component.setDimension(key, val, retainLink, cold)` inside a block: with `retainLink` and a linked
dimension the value is set on the link target (`linkedComp.setDimension(linkedDimName, val, cold=cold)`, which
itself does not retain links); otherwise on the component itself, dropping the link. -/
def setDimensionAt (sys : List Comp) (i : Nat) (key : String) (v : Rat) (cold retain : Bool) :
    Option (List Comp) :=
  match sys[i]? with
  | none => none
  | some c =>
    match retain, c.dim? key with
    | true, some (.link j k) =>
      match sys[j]? with
      | none => none
      | some t => (setDimension t k v cold).map (fun t' => sys.set j t')
    | _, _ => (setDimension c key v cold).map (fun c' => sys.set i c')

/-- `getDimension(key, Tc=T)`: every component met along the link chain is evaluated with ITS material's
expansion factor at the given temperature `T` (the `Tc` argument is passed through `resolveDimension`), not
at its own current temperature.  `factorsAtTc[i]` is `getThermalExpansionFactor(Tc=T)` of component `i`. -/
def atTemperature (factorsAtTc : List (Option Rat)) (sys : List Comp) : List Comp :=
  (sys.zip factorsAtTc).map (fun p => { p.1 with factor := p.2 })

def getDimensionTc (sys : List Comp) (factorsAtTc : List (Option Rat)) (fuel i : Nat) (key : String) : Option Rat :=
  getDimension (atTemperature factorsAtTc sys) fuel i key false

/-! ## the derived (left-over) shape: `DerivedShape.getComponentArea` -/

/-- `parent.getMaxArea() − Σ sibling areas`, at whatever condition (current, cold, or `Tc`) the sibling areas
and the block's max area are taken.  The derived component's own temperature does not enter. -/
def derivedArea (maxArea : Rat) (sibAreas : List Rat) : Rat := maxArea - sibAreas.foldr (· + ·) 0

/-! ## the component as a state machine WITH its caches
(`p.volume`, `parent.derivedMustUpdate`; `Component.setProperties`, `setTemperature`, `setDimension`,
`clearCache`, `clearLinkedCache`, `getVolume`, `computeVolume`, `getMass`, `getArea`, `getDimension`,
`UnshapedComponent.getComponentArea`).  Nothing but the fields below is state: in particular the expansion class
of the material is looked up in `mat` at every call (`isinstance(self.material, (Fluid, Custom))`). -/

/-- what `self.material` contributes -/
structure Mat (T : Type) where
  /-- expansion class: `.fluid` for `Fluid` and `Custom` (no thermal expansion) -/
  kind : Kind
  /-- `isinstance(material, Fluid)`: `getThermalExpansionDensityReduction` is `rho1/rho0` instead of `1/(1+dLL)^2` -/
  liquid : Bool
  pct : T → Rat
  rho : T → Rat

/-- what does not belong to the component: the `_TOLERANCE` test, constants, the parent block -/
structure Env (T : Type) where
  same : T → T → Bool
  pi : Rat
  sqrt3 : Rat
  sqrtF : Rat → Rat
  /-- `self.parent.getHeight()`; `none` = the component has no parent -/
  height : Option Rat
  /-- `self.parent.getSymmetryFactor()` (1 without a parent) -/
  sym : Rat
  /-- `A_i / (N_A 1e-24)` for each entry of the number-density vector (`densityTools.calculateMassDensity`) -/
  w : List Rat

structure CState (T : Type) where
  mat : Mat T
  /-- `inputTemperatureInC` -/
  tin : T
  /-- `temperatureInC` -/
  temp : T
  nd : List Rat
  /-- `none` = `UnshapedComponent` (area-defined, `THERMAL_EXPANSION_DIMS` empty, cold area stored under "area") -/
  shape : Option Shape
  /-- the stored (cold) `p[dim]` values -/
  cold : List (String × Rat)
  /-- `p.volume` (`none` = must be recomputed) -/
  vol : Option Rat
  /-- `parent.derivedMustUpdate` -/
  stale : Bool

def coldOf (l : List (String × Rat)) (k : String) : Option Rat := (l.find? (fun p => p.1 = k)).map (·.2)
def coldFun (l : List (String × Rat)) (k : String) : Rat := (coldOf l k).getD 0

def expDimsOf : Option Shape → List String
  | none => []
  | some sh => sh.expDims

/-- `sum(N_i * A_i) / (N_A 1e-24)` -/
def massDens (nd w : List Rat) : Rat := ((nd.zip w).map (fun p => p.1 * p.2)).foldr (· + ·) 0

section Machine
variable {T : Type}

/-- `getThermalExpansionFactor(Tc)` with `T0 = inputTemperatureInC` -/
def CState.factorAt (e : Env T) (s : CState T) (Tc : T) : Option Rat :=
  thermalExpansionFactor s.mat.kind s.mat.pct Tc s.tin (e.same Tc s.tin)

/-- `getDimension(key, Tc, cold)` of an unlinked dimension -/
def CState.dimAt (e : Env T) (s : CState T) (key : String) (Tc : T) (cold : Bool) : Option Rat :=
  match coldOf s.cold key with
  | none => none
  | some q =>
    if q = 0 ∨ cold = true ∨ ¬ (expDimsOf s.shape).contains key then some q
    else (s.factorAt e Tc).map (fun f => f * q)

/-- `getArea(cold, Tc)`: the shape's `getComponentArea` on the dimensions read through `getDimension`;
`UnshapedComponent`: `factor ** 2 * coldArea`.  The helix root is `sqrtF` of the cold radicand times the factor. -/
def CState.areaAt (e : Env T) (s : CState T) (Tc : T) (cold : Bool) : Option Rat :=
  match s.shape with
  | none =>
    match coldOf s.cold "area" with
    | none => none
    | some a => if cold then some a else (s.factorAt e Tc).map (fun f => areaUnshaped f a)
  | some sh =>
    let d := coldFun s.cold
    let root := e.sqrtF (helixRadicand e.pi (d "axialPitch") (d "helixDiameter"))
    if cold then some (sh.area e.pi e.sqrt3 root d)
    else (s.factorAt e Tc).map (fun f => sh.area e.pi e.sqrt3 (f * root) (scaleDims sh.expDims f d))

/-- `clearLinkedCache()` of a component without dependents: `clearCache()` (`p.volume = None`, and with a parent
`parent.derivedMustUpdate = True`) -/
def CState.clearLinkedCache (e : Env T) (s : CState T) : CState T :=
  { s with vol := none, stale := s.stale || e.height.isSome }

/-- `getVolume()`: the cached `p.volume`, else `computeVolume()` = `getArea() * parent.getHeight()`, stored -/
def CState.getVolume (e : Env T) (s : CState T) : CState T × Option Rat :=
  match s.vol with
  | some v => (s, some v)
  | none =>
    match e.height, s.areaAt e s.temp false with
    | some h, some a => ({ s with vol := some (a * h) }, some (a * h))
    | _, _ => (s, none)

inductive Op (T : Type) where
  /-- `setTemperature(t)` -/
  | setTemp (t : T)
  /-- `setProperties(material)` -/
  | setMat (m : Mat T)
  /-- `setDimension(key, v, cold=cold)` -/
  | setDim (key : String) (v : Rat) (cold : Bool)
  /-- `p.numberDensities = nd` (what `applyMaterialMassFracsToNumberDensities` ends with; no cache is touched) -/
  | setND (nd : List Rat)
  | qFactor
  | qDim (key : String) (cold : Bool)
  | qDimTc (key : String) (Tc : T)
  | qArea (cold : Bool)
  | qAreaTc (Tc : T)
  | qVolume
  | qMass
  | qND

def Op.isQuery : Op T → Bool
  | .setTemp _ => false
  | .setMat _ => false
  | .setDim _ _ _ => false
  | .setND _ => false
  | _ => true

/-- one public call on the component: new state and what the call returns (`none` = it raises) -/
def step (e : Env T) (s : CState T) : Op T → CState T × Option (List Rat)
  | .setTemp t =>
    let f := if s.mat.liquid then fluidDensReduction s.mat.rho s.temp t else densReduction s.mat.pct s.temp t
    (({ s with temp := t, nd := s.nd.map (fun n => n * f) } : CState T).clearLinkedCache e, some [])
  | .setMat m => (({ s with mat := m } : CState T).clearLinkedCache e, some [])
  | .setDim key v cold =>
    let stored : Option Rat :=
      if cold then some v
      else if (expDimsOf s.shape).contains key then (s.factorAt e s.temp).map (fun f => v / f) else some v
    match stored with
    | none => (s, none)
    | some q =>
      (({ s with cold := s.cold.map (fun p => if p.1 = key then (p.1, q) else p) } : CState T).clearLinkedCache e,
        some [])
  | .setND nd => ({ s with nd := nd }, some [])
  | .qFactor => (s, (s.factorAt e s.temp).map (fun x => [x]))
  | .qDim key cold => (s, (s.dimAt e key s.temp cold).map (fun x => [x]))
  | .qDimTc key Tc => (s, (s.dimAt e key Tc false).map (fun x => [x]))
  | .qArea cold => (s, (s.areaAt e s.temp cold).map (fun x => [x]))
  | .qAreaTc Tc => (s, (s.areaAt e Tc false).map (fun x => [x]))
  | .qVolume => ((s.getVolume e).1, (s.getVolume e).2.map (fun x => [x]))
  | .qMass => ((s.getVolume e).1, (s.getVolume e).2.map (fun v => [massDens s.nd e.w * (v / e.sym)]))
  | .qND => (s, some s.nd)

/-- a whole history of public calls: end state and everything the calls returned -/
def run (e : Env T) : CState T → List (Op T) → CState T × List (Option (List Rat))
  | s, [] => (s, [])
  | s, op :: rest => ((run e (step e s op).1 rest).1, (step e s op).2 :: (run e (step e s op).1 rest).2)

/-- the component with every cache dropped -/
def CState.forget (s : CState T) : CState T := { s with vol := none, stale := false }

/-- the same history on a machine that never keeps a cache -/
def runPure (e : Env T) : CState T → List (Op T) → CState T × List (Option (List Rat))
  | s, [] => (s.forget, [])
  | s, op :: rest =>
    ((runPure e (step e s.forget op).1.forget rest).1,
     (step e s.forget op).2 :: (runPure e (step e s.forget op).1.forget rest).2)

/-- the temperatures a history sets, in order -/
def Op.temps : List (Op T) → List T
  | [] => []
  | .setTemp t :: rest => t :: Op.temps rest
  | _ :: rest => Op.temps rest

end Machine

/-! ## a block of linked components as a state machine with caches
(`Component.clearLinkedCache` / `getLinkedComponents` / `clearCache`, `getVolume`, `computeVolume`,
`DerivedShape.getVolume` / `getComponentArea` / `_deriveVolumeAndArea`, `Block.derivedMustUpdate`).
`clearLinkedCache` sweeps the dependents transitively (the code since fix b30c1b1: `e.transitive = true`); the sweep
of the DIRECT dependents only (the code before that fix: `e.transitive = false`) is kept so that the repaired defect
stays stated exactly (`Props/C03.lean` `coded_sweep_misses_chain`). -/

structure BComp (T : Type) where
  mat : Mat T
  tin : T
  temp : T
  nd : List Rat
  /-- mass-density weights of the entries of `nd` -/
  w : List Rat
  /-- `none` = `UnshapedComponent` (cold area stored as the value dimension "area") -/
  shape : Option Shape
  dims : List (String × Dim)
  /-- `p.volume` -/
  vol : Option Rat

structure BEnv (T : Type) where
  same : T → T → Bool
  pi : Rat
  sqrt3 : Rat
  sqrtF : Rat → Rat
  /-- `parent.getHeight()` (non-zero) -/
  h : Rat
  /-- `parent.getMaxArea()` (the pitch-defining component is not part of the history) -/
  maxArea : Rat
  sym : Rat
  /-- `true`: `clearLinkedCache` as coded since fix b30c1b1 (transitive sweep); `false`: before it (direct dependents) -/
  transitive : Bool
  /-- does `setLink` end with `clearLinkedCache()`? (`true`: the code since fix a226651; `false`: before it) -/
  linkClears : Bool

structure BState (T : Type) where
  /-- the block's children other than the derived shape, in order -/
  comps : List (BComp T)
  /-- `parent.derivedMustUpdate` -/
  stale : Bool
  /-- the derived shape's `p.area` and `p.volume` -/
  dArea : Option Rat
  dVol : Option Rat

def valuation (names : List String) (vals : List Rat) : String → Rat :=
  fun k => match (names.zip vals).find? (fun p => p.1 = k) with
    | some p => p.2
    | none => 0

section BlockMachine
variable {T : Type}

/-- the component as `getDimension` sees it: expansion class, current factor, expanding dimensions, stored dims -/
def BComp.toComp (e : BEnv T) (c : BComp T) : Comp :=
  { kind := c.mat.kind,
    factor := thermalExpansionFactor c.mat.kind c.mat.pct c.temp c.tin (e.same c.temp c.tin),
    expDims := expDimsOf c.shape, dims := c.dims }

def sysOf (e : BEnv T) (comps : List (BComp T)) : List Comp := comps.map (fun c => c.toComp e)

def BState.sys (e : BEnv T) (b : BState T) : List Comp := sysOf e b.comps

/-- `comps[i].getDimension(key, cold=cold)`, links resolved recursively -/
def BState.dim (e : BEnv T) (b : BState T) (i : Nat) (key : String) (cold : Bool) : Option Rat :=
  getDimension (b.sys e) ((b.sys e).length + 1) i key cold

/-- `getArea()` of component `i` from what `getDimension` sees (`sys`) and the shape classes -/
def areaOf (e : BEnv T) (sys : List Comp) (shapes : List (Option Shape)) (i : Nat) : Option Rat :=
  match sys[i]?, shapes[i]? with
  | some c, some none =>
    match c.dim? "area", c.factor with
    | some (.val a), some f => some (areaUnshaped f a)
    | _, _ => none
  | some _, some (some sh) =>
    match (sh.dims.map (fun k => getDimension sys (sys.length + 1) i k false)).mapM id with
    | none => none
    | some vals =>
      let d := valuation sh.dims vals
      some (sh.area e.pi e.sqrt3 (e.sqrtF (helixRadicand e.pi (d "axialPitch") (d "helixDiameter"))) d)
  | _, _ => none

/-- `comps[i].getArea()`: the shape's `getComponentArea` over `getDimension` of each of its dimensions
(`UnshapedComponent`: factor² × cold area) -/
def BState.area (e : BEnv T) (b : BState T) (i : Nat) : Option Rat :=
  areaOf e (b.sys e) (b.comps.map (fun c => c.shape)) i

/-- `comps[i].getVolume()` -/
def BState.getVolume (e : BEnv T) (b : BState T) (i : Nat) : BState T × Option Rat :=
  match b.comps[i]? with
  | none => (b, none)
  | some c =>
    match c.vol with
    | some v => (b, some v)
    | none =>
      match b.area e i with
      | none => (b, none)
      | some a => ({ b with comps := b.comps.set i { c with vol := some (a * e.h) } }, some (a * e.h))

/-- does resolving a dimension of component `j` pass through component `i` within `F` levels of links?
`reaches sys 2 j i` is `j = i` or "a dimension of `j` links directly to `i`" (`getLinkedComponents`) -/
def reaches (sys : List Comp) : Nat → Nat → Nat → Bool
  | 0, _, _ => false
  | F + 1, j, i =>
    j == i || (match sys[j]? with
      | none => false
      | some c => c.dims.any (fun p => match p.2 with
          | .link k _ => reaches sys F k i
          | .val _ => false))

/-- `comps[i].clearLinkedCache()`: own `p.volume = None`, `parent.derivedMustUpdate = True`, and `p.volume = None`
for every component whose dimensions resolve through component `i` at any depth (`e.transitive`: the breadth-first
sweep over `getLinkedComponents` of the code since fix b30c1b1), or — `e.transitive = false`, the code before that
fix — only for the components with a dimension linked DIRECTLY to component `i` (depth 2) -/
def BState.clearLinkedCache (e : BEnv T) (b : BState T) (i : Nat) : BState T :=
  { b with stale := true,
           comps := b.comps.mapIdx (fun j c =>
             if reaches (b.sys e) (if e.transitive then b.comps.length + 1 else 2) j i = true
             then { c with vol := none } else c) }

def BState.modify (b : BState T) (i : Nat) (f : BComp T → BComp T) : BState T :=
  match b.comps[i]? with
  | none => b
  | some c => { b with comps := b.comps.set i (f c) }

/-- `sum(sibling.getVolume())` over the non-derived children, in order (fills their caches) -/
def BState.sibVolumes (e : BEnv T) (b : BState T) : BState T × Option Rat :=
  (List.range b.comps.length).foldl (fun (acc : BState T × Option Rat) i =>
      ((acc.1.getVolume e i).1,
       match acc.2, (acc.1.getVolume e i).2 with
       | some s, some v => some (s + v)
       | _, _ => none)) (b, some 0)

/-- `DerivedShape._deriveVolumeAndArea()`: `p.area = remainingVolume / height`; returns the remaining volume
(`none` = raises: a sibling raises or the remainder is negative) -/
def BState.deriveVolumeAndArea (e : BEnv T) (b : BState T) : BState T × Option Rat :=
  match (b.sibVolumes e).2 with
  | none => ((b.sibVolumes e).1, none)
  | some sv =>
    if e.maxArea * e.h - sv < 0 then ((b.sibVolumes e).1, none)
    else ({ (b.sibVolumes e).1 with dArea := some ((e.maxArea * e.h - sv) / e.h) }, some (e.maxArea * e.h - sv))

/-- `DerivedShape.getComponentArea()`: recomputed while `derivedMustUpdate` (which it does not reset), else `p.area` -/
def BState.derivedArea (e : BEnv T) (b : BState T) : BState T × Option Rat :=
  if b.stale then ((b.deriveVolumeAndArea e).1, (b.deriveVolumeAndArea e).2.bind (fun _ => (b.deriveVolumeAndArea e).1.dArea))
  else (b, b.dArea)

/-- `DerivedShape.getVolume()`: with `derivedMustUpdate` drop `p.volume` and reset the flag; then the cached volume,
else `_deriveVolumeAndArea()` stored -/
def BState.derivedVolume (e : BEnv T) (b : BState T) : BState T × Option Rat :=
  let b1 : BState T := if b.stale then { b with dVol := none, stale := false } else b
  match b1.dVol with
  | some v => (b1, some v)
  | none =>
    match (b1.deriveVolumeAndArea e).2 with
    | none => ((b1.deriveVolumeAndArea e).1, none)
    | some rem => ({ (b1.deriveVolumeAndArea e).1 with dVol := some rem }, some rem)

inductive BOp (T : Type) where
  | setTemp (i : Nat) (t : T)
  | setMat (i : Nat) (m : Mat T)
  | setDim (i : Nat) (key : String) (v : Rat) (cold : Bool)
  /-- `comps[i].setDimension(key, v, retainLink=True, cold=cold)` -/
  | setDimRetain (i : Nat) (key : String) (v : Rat) (cold : Bool)
  /-- `comps[i].setLink(key, comps[j], k)` -/
  | setLink (i : Nat) (key : String) (j : Nat) (k : String)
  | qDim (i : Nat) (key : String) (cold : Bool)
  | qArea (i : Nat)
  | qVolume (i : Nat)
  | qMass (i : Nat)
  | qDerivedArea
  | qDerivedVolume

def BOp.isSetLink : BOp T → Bool
  | .setLink _ _ _ _ => true
  | _ => false

def bstep (e : BEnv T) (b : BState T) : BOp T → BState T × Option (List Rat)
  | .setTemp i t =>
    match b.comps[i]? with
    | none => (b, none)
    | some c =>
      let f := if c.mat.liquid then fluidDensReduction c.mat.rho c.temp t else densReduction c.mat.pct c.temp t
      ((b.modify i (fun c => { c with temp := t, nd := c.nd.map (fun n => n * f) })).clearLinkedCache e i, some [])
  | .setMat i m =>
    match b.comps[i]? with
    | none => (b, none)
    | some _ => ((b.modify i (fun c => { c with mat := m })).clearLinkedCache e i, some [])
  | .setDim i key v cold =>
    match b.comps[i]? with
    | none => (b, none)
    | some c =>
      match setDimension (c.toComp e) key v cold with
      | none => (b, none)
      | some c' => ((b.modify i (fun c => { c with dims := c'.dims })).clearLinkedCache e i, some [])
  | .setDimRetain i key v cold =>
    -- `if retainLink and self.dimensionIsLinked(key): linkedComp.setDimension(linkedDimName, val, cold=cold)`
    -- (which ends with the TARGET's clearLinkedCache) `else: ... self.p[key] = val`; then `self.clearLinkedCache()`
    match b.comps[i]? with
    | none => (b, none)
    | some c =>
      match (c.toComp e).dim? key with
      | some (.link j k) =>
        match b.comps[j]? with
        | none => (b, none)
        | some t =>
          match setDimension (t.toComp e) k v cold with
          | none => (b, none)
          | some t' =>
            (((b.modify j (fun c => { c with dims := t'.dims })).clearLinkedCache e j).clearLinkedCache e i, some [])
      | _ =>
        match setDimension (c.toComp e) key v cold with
        | none => (b, none)
        | some c' => ((b.modify i (fun c => { c with dims := c'.dims })).clearLinkedCache e i, some [])
  | .setLink i key j k =>
    -- `self.p[key] = _DimensionLink((otherComp, otherCompKey))`: unconditional, whatever the old value was (a number
    -- or a link, equal to the target's current dimension or not); `e.linkClears` (the code since fix a226651):
    -- followed by `clearLinkedCache()`
    match b.comps[i]? with
    | none => (b, none)
    | some _ =>
      let b1 := b.modify i (fun c => { c with dims := c.dims.map (fun p => if p.1 = key then (p.1, Dim.link j k) else p) })
      (if e.linkClears then b1.clearLinkedCache e i else b1, some [])
  | .qDim i key cold => (b, (b.dim e i key cold).map (fun x => [x]))
  | .qArea i => (b, (b.area e i).map (fun x => [x]))
  | .qVolume i => ((b.getVolume e i).1, (b.getVolume e i).2.map (fun x => [x]))
  | .qMass i =>
    match b.comps[i]? with
    | none => (b, none)
    | some c => ((b.getVolume e i).1, (b.getVolume e i).2.map (fun v => [massDens c.nd c.w * (v / e.sym)]))
  | .qDerivedArea => ((b.derivedArea e).1, (b.derivedArea e).2.map (fun x => [x]))
  | .qDerivedVolume => ((b.derivedVolume e).1, (b.derivedVolume e).2.map (fun x => [x]))

def brun (e : BEnv T) : BState T → List (BOp T) → BState T × List (Option (List Rat))
  | b, [] => (b, [])
  | b, op :: rest => ((brun e (bstep e b op).1 rest).1, (bstep e b op).2 :: (brun e (bstep e b op).1 rest).2)

end BlockMachine

/-! ## rational square root for the driver (Helix); precision 10^-30 relative to the scale of the input -/

def sqrtApprox (q : Rat) : Rat :=
  if q ≤ 0 then 0 else
  let s : Nat := 10 ^ 40
  -- sqrt(n/d) = sqrt(n*d)/d ;  sqrt(n*d) ≈ Nat.sqrt(n*d*s^2)/s
  let n := q.num.toNat
  let d := q.den
  mkRat (Nat.sqrt (n * d * s * s)) (d * s)

end ArmiVerif.Thermal
