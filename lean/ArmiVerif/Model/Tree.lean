/-
C01 model: the composite tree as an ARENA with a *separate* back-pointer (`parent`) and child list
(`kids`) per object -- exactly the two pieces of state armi keeps (`ArmiObject.parent`,
`Composite._children`).  An inductive rose tree would make the property true by construction.

Transcribes armi/reactor/composites.py (Composite.add/insert/remove/removeAll/setChildren/sort/
append/extend, ArmiObject.__getstate__/__setstate__, hasFlags, _iterChildren, iterComponents,
getAncestor*), blocks.py (Block.add/remove = Composite.add/remove + non-structural bookkeeping),
assemblies.py (Assembly.add/insert/reestablishBlockOrder), cores.py (Core.add: Composite.add + moveTo).
Core Lean only.
-/
namespace ArmiVerif.Tree

/-- object kinds (only the structural overrides matter) -/
def kComposite : Nat := 0
def kComponent : Nat := 1
def kBlock : Nat := 2
def kAssembly : Nat := 3
def kCore : Nat := 4
/-- `SpentFuelPool` / `ExcoreStructure` -/
def kSfp : Nat := 5

structure St where
  /-- `ArmiObject.parent` -/
  parent : Nat → Option Nat
  /-- `Composite._children` -/
  kids : Nat → List Nat
  /-- `spatialLocator.grid` as a grid id; `none` = detached locator (grid is None) -/
  loc : Nat → Option Nat
  /-- `spatialGrid` of an object as a grid id -/
  grid : Nat → Option Nat
  /-- `Grid.armiObject` -/
  owner : Nat → Option Nat
  kind : Nat → Nat
  /-- `p.flags` as an integer -/
  flags : Nat → Nat
  /-- `getType()` as a code -/
  typ : Nat → Nat
  next : Nat
  nextGrid : Nat
  /-- `bool(obj)`: `ArmiObject.__bool__` is True, `components.NullComponent.__bool__` is False.  No structural edit
  and no traversal of the code reads it -- except through Python's `filter(None, …)` / `if obj:` idioms, which is
  why it is part of the state: the traversal theorems are stated for trees WITH falsy nodes. -/
  truthy : Nat → Bool := fun _ => true

def St.empty : St :=
  { parent := fun _ => none, kids := fun _ => [], loc := fun _ => none, grid := fun _ => none,
    owner := fun _ => none, kind := fun _ => 0, flags := fun _ => 0, typ := fun _ => 0,
    next := 0, nextGrid := 0, truthy := fun _ => true }

def setParent (s : St) (c : Nat) (v : Option Nat) : St :=
  { s with parent := fun x => if x = c then v else s.parent x }
def setKids (s : St) (p : Nat) (l : List Nat) : St :=
  { s with kids := fun x => if x = p then l else s.kids x }
def setLoc (s : St) (c : Nat) (v : Option Nat) : St :=
  { s with loc := fun x => if x = c then v else s.loc x }

/-- `Composite(name)` / `Component` / `HexBlock` constructor: no parent, no children, detached locator.
`withGrid` : the harness gives assemblies and cores a spatialGrid owned by the object. -/
def newNode (s : St) (kind flags typ : Nat) (withGrid : Bool) (truthy : Bool := true) : St :=
  let n := s.next
  { s with
    truthy := fun x => if x = n then truthy else s.truthy x
    parent := fun x => if x = n then none else s.parent x
    kids := fun x => if x = n then [] else s.kids x
    loc := fun x => if x = n then none else s.loc x
    grid := fun x => if x = n then (if withGrid then some s.nextGrid else none) else s.grid x
    owner := fun g => if g = s.nextGrid ∧ withGrid then some n else s.owner g
    kind := fun x => if x = n then kind else s.kind x
    flags := fun x => if x = n then flags else s.flags x
    typ := fun x => if x = n then typ else s.typ x
    next := n + 1
    nextGrid := if withGrid then s.nextGrid + 1 else s.nextGrid }

/-! ### structural edits (second component: `true` = returned normally, `false` = raised;
the state is whatever the code left behind when it raised) -/

/-- `Composite.add`: `if obj in self: raise`; `obj.parent = self`; `_children.append(obj)` -/
def cAdd (s : St) (p c : Nat) : St × Bool :=
  if c ∈ s.kids p then (s, false)
  else (setKids (setParent s c (some p)) p (s.kids p ++ [c]), true)

/-- index normalisation of `list.insert` -/
def pyInsertIdx (len : Nat) (i : Int) : Nat :=
  if i < 0 then (len + i).toNat else min i.toNat len

def listInsert (l : List Nat) (i : Int) (c : Nat) : List Nat :=
  l.take (pyInsertIdx l.length i) ++ c :: l.drop (pyInsertIdx l.length i)

/-- `Composite.insert` -/
def cInsert (s : St) (p : Nat) (i : Int) (c : Nat) : St × Bool :=
  if c ∈ s.kids p then (s, false)
  else (setKids (setParent s c (some p)) p (listInsert (s.kids p) i c), true)

/-- `Composite.remove`: `obj.parent = None`; locator detached; `_children.remove(obj)` (raises
ValueError for a non-child AFTER the first two statements) -/
def cRemove (s : St) (p c : Nat) : St × Bool :=
  let s1 := setLoc (setParent s c none) c none
  if c ∈ s.kids p then (setKids s1 p ((s.kids p).erase c), true) else (s1, false)

/-- `Composite.append` (never sets parent) -/
def cAppend (s : St) (p c : Nat) : St := setKids s p (s.kids p ++ [c])
/-- `Composite.extend` -/
def cExtend (s : St) (p : Nat) (cs : List Nat) : St := setKids s p (s.kids p ++ cs)

/-- `Assembly.reestablishBlockOrder`: a new AxialGrid owned by the assembly; every block gets a
locator in it (names change too; not structural) -/
def reestablish (s : St) (a : Nat) : St :=
  let g := s.nextGrid
  { s with
    grid := fun x => if x = a then some g else s.grid x
    owner := fun h => if h = g then some a else s.owner h
    loc := fun x => if x ∈ s.kids a then some g else s.loc x
    nextGrid := g + 1 }

/-- `Composite.moveTo(locator)` with `locator = h.spatialGrid[...]`: refused unless the grid's owner
is the object's parent -/
def moveTo (s : St) (c h : Nat) : St × Bool :=
  match s.grid h with
  | none => (s, false)
  | some g => if s.owner g = s.parent c then (setLoc s c (some g), true) else (s, false)

/-- `add` as dispatched on the parent's class -/
def add (s : St) (p c : Nat) : St × Bool :=
  if s.kind p = kAssembly then
    -- Assembly.add: _checkPotentialChild; Composite.add; locator in own grid; reestablishBlockOrder
    if s.kind c ≠ kBlock then (s, false) else
    let r := cAdd s p c
    if r.2 then (reestablish (setLoc r.1 c (r.1.grid p)) p, true) else r
  else if s.kind p = kCore then
    -- Core.add(a, loc): Composite.add; a.moveTo(core.spatialGrid[loc])
    let r := cAdd s p c
    if r.2 then (setLoc r.1 c (r.1.grid p), true) else r
  else cAdd s p c   -- Composite.add; Block.add adds only non-structural bookkeeping

def insert (s : St) (p : Nat) (i : Int) (c : Nat) : St × Bool :=
  if s.kind p = kAssembly then
    if s.kind c ≠ kBlock then (s, false) else
    let r := cInsert s p i c
    if r.2 then (setLoc r.1 c (r.1.grid p), true) else r
  else cInsert s p i c

/-- `remove` (Block.remove = Composite.remove + cache/pitch bookkeeping) -/
def remove (s : St) (p c : Nat) : St × Bool := cRemove s p c

/-- `ExcoreStructure.add(obj, loc)` (`SpentFuelPool.add(assem)` picks `loc`, a cell of the pool's own grid, and
calls it): `obj.spatialLocator = loc`, THEN `Composite.add` -- so a refused add has already moved the locator -/
def excoreAdd (s : St) (p c : Nat) : St × Bool := cAdd (setLoc s c (s.grid p)) p c

/-- `Core.removeAssembly(a, discharge)`: `self.remove(a)` (parent cleared, locator detached, taken off the list), then
`if discharge and trackAssems and r.excore.get("sfp") is not None: sfp.add(a)`; `sfp = none` stands for any of the
three conditions being false (purge / no tracking / no pool) -/
def removeAssembly (s : St) (core a : Nat) (sfp : Option Nat) : St × Bool :=
  let r := remove s core a
  if r.2 then (match sfp with | none => r | some p => excoreAdd r.1 p a) else r

/-- `obj.setType(typ, flags)` / `obj.p.flags = …`: the type name and flags of one object change; nothing structural
(the traversal queries are functions of the CURRENT state: there is no per-object cache in the model to go stale) -/
def setMeta (s : St) (c flags typ : Nat) : St :=
  { s with flags := fun x => if x = c then flags else s.flags x
           typ := fun x => if x = c then typ else s.typ x }

/-- loop body shared by removeAll/setChildren: stop at the first exception -/
def seqOps (f : St → Nat → St × Bool) (s : St) (l : List Nat) : St × Bool :=
  l.foldl (fun acc c => if acc.2 then f acc.1 c else acc) (s, true)

/-- `Composite.removeAll`: `for c in self.getChildren()[:]: self.remove(c)` -/
def removeAll (s : St) (p : Nat) : St × Bool := seqOps (fun t c => remove t p c) s (s.kids p)

/-- `Composite.setChildren`: `removeAll(); for c in items: self.add(c)` -/
def setChildren (s : St) (p : Nat) (items : List Nat) : St × Bool :=
  let r := removeAll s p
  if r.2 then seqOps (fun t c => add t p c) r.1 items else r

/-- stable insertion sort by a rank (`list.sort()` is stable; `rank c` = position of `c` in the
strict weak order `__lt__` defines, supplied by the caller: the comparator is locator/geometry
content, outside C01) -/
def insSorted (rank : Nat → Nat) (x : Nat) : List Nat → List Nat
  | [] => [x]
  | y :: ys => if rank y < rank x then y :: insSorted rank x ys else x :: y :: ys

def stableSort (rank : Nat → Nat) (l : List Nat) : List Nat :=
  l.foldr (fun x acc => insSorted rank x acc) []

/-- `Composite.sort`: sort own children, then recursively every child -/
def sortRec (rank : Nat → Nat) : Nat → St → Nat → St
  | 0, s, _ => s
  | f + 1, s, p =>
    let s1 := setKids s p (stableSort rank (s.kids p))
    (s1.kids p).foldl (fun t c => sortRec rank f t c) s1

/-! ### traversals -/

/-- `_iterChildren(deep, generationNum, checker)` -/
def iterC (s : St) : Nat → Bool → Int → (Nat → Bool) → Nat → List Nat
  | 0, _, _, _, _ => []
  | f + 1, deep, g, chk, n =>
    (if deep || g == 1 then (s.kids n).filter chk else []) ++
    (if deep || decide (g > 1) then (s.kids n).flatMap (fun c => iterC s f deep (g - 1) chk c) else [])

/-- `iterChildren`: `deep and generationNum > 1` raises -/
def iterChildren (s : St) (fuel : Nat) (deep : Bool) (g : Int) (chk : Nat → Bool) (n : Nat) :
    Option (List Nat) :=
  if deep && decide (g > 1) then none else some (iterC s fuel deep g chk n)

/-! ### traversals as the code spells them: Python `filter`, `predicate=None`, truthiness of nodes -/

/-- Python's built-in `filter(function, iterable)`: with `function = None` the TRUTHY items are kept
(`bool(item)`), otherwise the items for which `function(item)` is true. -/
def pyFilter (truthy : Nat → Bool) : Option (Nat → Bool) → List Nat → List Nat
  | none, l => l.filter truthy
  | some f, l => l.filter f

/-- `Composite._iterChildren(deep, generationNum, checker)` with its `yield from filter(checker, self)` spelled
with Python's `filter`; `checker = none` is what the code would do if it handed `None` through (it never does,
see `iterChildrenP`; `filterNone_drops_falsy` in Props shows that reading is wrong on trees with falsy nodes). -/
def iterCpy (s : St) : Nat → Bool → Int → Option (Nat → Bool) → Nat → List Nat
  | 0, _, _, _, _ => []
  | f + 1, deep, g, chk, n =>
    (if deep || g == 1 then pyFilter s.truthy chk (s.kids n) else []) ++
    (if deep || decide (g > 1) then (s.kids n).flatMap (fun c => iterCpy s f deep (g - 1) chk c) else [])

/-- `Composite.iterChildren(deep, generationNum, predicate)`: raises for `deep and generationNum > 1`;
`if predicate is None: checker = lambda _: True else: checker = predicate`; then `_iterChildren`. -/
def iterChildrenP (s : St) (fuel : Nat) (deep : Bool) (g : Int) (pred : Option (Nat → Bool)) (n : Nat) :
    Option (List Nat) :=
  if deep && decide (g > 1) then none
  else some (iterCpy s fuel deep g (some (match pred with | none => fun _ => true | some p => p)) n)

/-- `Composite.getChildren(deep, generationNum, includeMaterials=False, predicate)` = `list(iterChildren(…))` -/
def getChildren (s : St) (fuel : Nat) (deep : Bool) (g : Int) (pred : Option (Nat → Bool)) (n : Nat) :
    Option (List Nat) := iterChildrenP s fuel deep g pred n

/-- one entry of `iterChildrenWithMaterials`: the child, or the child's material -/
inductive Item where
  | obj (n : Nat)
  | mat (n : Nat)
  deriving DecidableEq, Repr

/-- `Composite.iterChildrenWithMaterials(*args)` / `getChildren(includeMaterials=True)`: every child of the
traversal followed by its material if it has one (`getattr(c, "material", None) is not None`: exactly the
Components) -/
def getChildrenWithMaterials (s : St) (fuel : Nat) (deep : Bool) (g : Int) (pred : Option (Nat → Bool)) (n : Nat) :
    Option (List Item) :=
  (iterChildrenP s fuel deep g pred n).map
    (fun l => l.flatMap (fun c => if s.kind c = kComponent then [Item.obj c, Item.mat c] else [Item.obj c]))

/-- TypeSpec: None | one Flags value | a list of Flags values -/
inductive Spec where
  | none
  | one (f : Nat)
  | many (fs : List Nat)

/-- `hasFlags` for a single Flags value -/
def hasFlags1 (nf : Nat) (spec : Nat) (exact : Bool) : Bool :=
  if spec = 0 then !exact            -- `if not typeID: return not exact`
  else if nf = 0 then false          -- `if not self.p.flags: return False`
  else if exact then nf == spec
  else (nf &&& spec) == spec

/-- `ArmiObject.hasFlags(typeID, exact)` -/
def hasFlags (nf : Nat) (spec : Spec) (exact : Bool) : Bool :=
  match spec with
  | .none => !exact
  | .one f => hasFlags1 nf f exact
  | .many [] => !exact               -- an empty list is falsy
  | .many fs => fs.any (fun f => hasFlags1 nf f exact)

/-- `iterComponents(typeSpec, exact)`: a Component yields itself if it has the flags; a Composite
chains its children's results -/
def iterComps (s : St) : Nat → Spec → Bool → Nat → List Nat
  | 0, _, _, _ => []
  | f + 1, spec, exact, n =>
    if s.kind n = kComponent then (if hasFlags (s.flags n) spec exact then [n] else [])
    else (s.kids n).flatMap (fun c => iterComps s f spec exact c)

/-- `getAncestorAndDistance(fn)` (`getAncestor`, `getAncestorWithFlags` are its first component) -/
def getAncestor (s : St) : Nat → (Nat → Bool) → Nat → Nat → Option (Nat × Nat)
  | 0, _, _, _ => none
  | f + 1, fn, n, d =>
    if fn n then some (n, d) else
    match s.parent n with
    | none => none
    | some p => getAncestor s f fn p (d + 1)

/-- `ArmiObject.getAncestorWithFlags(typeSpec, exactMatch)`: its own recursion up the parent chain (it does not go
through `getAncestor`) -/
def getAncestorWithFlags (s : St) : Nat → Spec → Bool → Nat → Option Nat
  | 0, _, _, _ => none
  | f + 1, spec, exact, n =>
    if hasFlags (s.flags n) spec exact then some n else
    match s.parent n with
    | none => none
    | some p => getAncestorWithFlags s f spec exact p

/-- `ArmiObject.getChildrenWithFlags(typeSpec, exactMatch)` =
`list(self.iterChildren(predicate=lambda o: o.hasFlags(typeSpec, exactMatch)))` -/
def getChildrenWithFlags (s : St) (fuel : Nat) (spec : Spec) (exact : Bool) (n : Nat) : List Nat :=
  (iterChildrenP s fuel false 1 (some (fun o => hasFlags (s.flags o) spec exact)) n).getD []

/-- `ArmiObject.getChildrenOfType(typeName)` = `list(self.iterChildren(predicate=lambda o: o.getType() == typeName))` -/
def getChildrenOfType (s : St) (fuel : Nat) (t : Nat) (n : Nat) : List Nat :=
  (iterChildrenP s fuel false 1 (some (fun o => s.typ o == t)) n).getD []

/-- `Assembly.getFirstBlock(typeSpec, exact)`: `iter(self)` if `typeSpec is None` else
`iterChildrenWithFlags(typeSpec, exact)`; the first item or None -/
def getFirstBlock (s : St) (fuel : Nat) (spec : Spec) (exact : Bool) (n : Nat) : Option Nat :=
  match spec with
  | .none => (s.kids n).head?
  | sp => (getChildrenWithFlags s fuel sp exact n).head?

/-- `Assembly.getFirstBlockByType(typeName)`: `next(filter(lambda b: b.getType() == typeName, self))` or None -/
def getFirstBlockByType (s : St) (t : Nat) (n : Nat) : Option Nat :=
  (pyFilter s.truthy (some (fun o => s.typ o == t)) (s.kids n)).head?

/-- `Composite.removeAll` as written: `for c in self.getChildren()[:]: self.remove(c)` -- the list walked is
the answer of the (predicate-less) traversal query, not the raw child list -/
def removeAllCode (s : St) (p : Nat) : St × Bool :=
  seqOps (fun t c => remove t p c) s ((getChildren s (s.next + 1) false 1 none p).getD [])

/-- `Composite.setChildren` as written: `self.removeAll(); for c in items: self.add(c)` -/
def setChildrenCode (s : St) (p : Nat) (items : List Nat) : St × Bool :=
  let r := removeAllCode s p
  if r.2 then seqOps (fun t c => add t p c) r.1 items else r

/-! ### pickle / deepcopy
`__getstate__` strips the root's parent (and `Grid.__getstate__` the grid's armiObject, a locator's
`__getstate__` its grid); `__setstate__` re-parents the children, makes the object the owner of its
grid and associates every child's locator with that grid.  `copy.deepcopy` goes through the same
two methods (`Block/Core/Reactor.__deepcopy__` call them explicitly).  The copy's objects get the
fresh ids `next, next+1, …` in the order root, then `iterChildren(deep=True)`; its grids the fresh
grid ids `nextGrid + same index`. -/

def subtreeList (s : St) (n : Nat) : List Nat := n :: iterC s (s.next + 1) true 1 (fun _ => true) n

/-- the copy of the objects listed in `L` (root first) -/
def copyWith (s : St) (L : List Nat) : St :=
  let base := s.next
  let gb := s.nextGrid
  let isNew := fun x => decide (base ≤ x) && decide (x < base + L.length)
  let orig := fun x => L.getD (x - base) 0
  let ren := fun o => base + L.idxOf o
  -- `__setstate__`: `for c in self: c.parent = self` -- the new parent is the copy of the object
  -- that LISTS the child (not of the object the child's back-pointer named)
  let lister := fun o => L.find? (fun q => decide (o ∈ s.kids q))
  { s with
    parent := fun x => if isNew x then (if x = base then none else (lister (orig x)).map ren) else s.parent x
    kids := fun x => if isNew x then (s.kids (orig x)).map ren else s.kids x
    grid := fun x => if isNew x then (s.grid (orig x)).map (fun _ => gb + (x - base)) else s.grid x
    owner := fun g =>
      if decide (gb ≤ g) && decide (g < gb + L.length) then
        (if (s.grid (L.getD (g - gb) 0)).isSome then some (base + (g - gb)) else none)
      else s.owner g
    loc := fun x =>
      if isNew x then
        (if x = base then none else
          match lister (orig x) with
          | none => none
          | some q => (s.grid q).map (fun _ => gb + L.idxOf q))
      else s.loc x
    kind := fun x => if isNew x then s.kind (orig x) else s.kind x
    flags := fun x => if isNew x then s.flags (orig x) else s.flags x
    typ := fun x => if isNew x then s.typ (orig x) else s.typ x
    truthy := fun x => if isNew x then s.truthy (orig x) else s.truthy x
    next := base + L.length
    nextGrid := gb + L.length }

def copyTree (s : St) (n : Nat) : St := copyWith s (subtreeList s n)

/-- the temporary deep copy made inside `replaceBlockWithBlock` goes out of reach: the model forgets it (no
children, no grid) and its former children become parentless -- `Composite.add` overwrites their back-pointer
anyway; their locators stay in the forgotten block's grid, as in the code -/
def dropKids (s : St) (t : Nat) : St :=
  { s with
    parent := fun x => if x ∈ s.kids t then none else s.parent x
    kids := fun x => if x = t then [] else s.kids x
    grid := fun x => if x = t then none else s.grid x }

/-- `Block.replaceBlockWithBlock(bReplacement)`: `tempBlock = copy.deepcopy(bReplacement)` (ids `next…`),
then `self.setChildren(tempBlock.getChildren())` (parameters: C16) -/
def replaceBlock (s : St) (b r : Nat) : St × Bool :=
  let s1 := copyTree s r
  let t := s.next
  -- `self.p = tempBlock.p` (all but a few skipped parameters): the block takes the replacement's type name and flags
  setChildren (setMeta (dropKids s1 t) b (s.flags r) (s.typ r)) b (s1.kids t)

/-! ### the op alphabet of `inv_run` -/

inductive Op where
  | new (kind flags typ : Nat) (withGrid : Bool)
  | add (p c : Nat)
  | insert (p : Nat) (i : Int) (c : Nat)
  | remove (p c : Nat)
  | removeAll (p : Nat)
  | setChildren (p : Nat) (items : List Nat)
  | sort (p : Nat) (rank : List Nat)
  | reestablish (a : Nat)
  | moveTo (c h : Nat)
  | copy (n : Nat)          -- pickle round trip / deepcopy: adds a detached copy of the subtree

def rankOf (rank : List Nat) (x : Nat) : Nat := rank.getD x 0

def step (s : St) : Op → St
  | .new k f t g => newNode s k f t g
  | .add p c => (add s p c).1
  | .insert p i c => (insert s p i c).1
  | .remove p c => (remove s p c).1
  | .removeAll p => (removeAll s p).1
  | .setChildren p items => (setChildren s p items).1
  | .sort p rank => sortRec (rankOf rank) (s.next + 1) s p
  | .reestablish a => reestablish s a
  | .moveTo c h => (moveTo s c h).1
  | .copy n => copyTree s n

/-! ### canonical printing helpers (used by the driver) -/

/-- the object holding grid `g` as its `spatialGrid` -/
def holderOf (s : St) (g : Nat) : Option Nat :=
  (List.range s.next).find? (fun n => s.grid n == some g)

end ArmiVerif.Tree
