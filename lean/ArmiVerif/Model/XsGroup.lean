/-
C20 — cross-section groups and representative blocks (core Lean only, exact `Rat`).

Transcribes armi/physics/neutronics/crossSectionGroupManager.py (as fixed by commit 7674416):
  getXSTypeNumberFromLabel / getXSTypeLabelFromNumber, BlockCollection.getWeight / getCandidateBlocks /
  _checkValidWeightingFactors / _calcWeightedBurnup, AverageBlockCollection._getAverageNumberDensities /
  _getAverageComponentNumberDensities / _getAverageComponentTemperature / _getNucTempHelper (all are the
  weight-normalised mean `wmean`), MedianBlockCollection._getMedianBlock,
  CrossSectionGroupManager._addXsGroupsFromBlocks / makeCrossSectionGroups / _updateEnvironmentGroups,
armi/reactor/blocks.py Block.getMicroSuffix and the envGroup / envGroupNum setters of blockParameters.py.
Characters are their code points (Nat); strings are lists of code points.
-/
namespace ArmiVerif.XsGroup

/-! ### label ↔ number -/

/-- len(str(n)) -/
def numDigits (n : Nat) : Nat :=
  if n < 10 then 1 else if n < 100 then 2 else if n < 1000 then 3 else if n < 10000 then 4
  else if n < 100000 then 5 else if n < 1000000 then 6 else (Nat.toDigits 10 n).length

/-- `int("".join("{:02d}".format(ord(c)) for c in label))`; the empty label raises (int("")) -/
def labelToNumber (l : List Nat) : Option Nat :=
  if l.isEmpty then none else
  some (l.foldl (fun acc c => acc * 10 ^ (max 2 (numDigits c)) + c) 0)

/-- Python `chr` accepts 0 ≤ c < 0x110000 -/
def chrOk (c : Nat) : Bool := decide (c < 1114112)

/-- `getXSTypeLabelFromNumber` (after the F3 fix): none = ValueError -/
def numberToLabel (n : Nat) : Option (List Nat) :=
  let len := numDigits n
  let d0 := n / 10 ^ (len - 1)
  if len > 3 ∨ (len = 3 ∧ d0 ≠ 1) then
    let split := if d0 = 1 then 3 else 2
    let hi := n / 10 ^ (len - split)
    let lo := n % 10 ^ (len - split)
    if chrOk hi && chrOk lo then some [hi, lo] else none
  else if n < 65 then none
  else some [n]

/-- `_ALLOWABLE_XS_TYPE_LIST`: A–Z a–z -/
def admissibleChar (c : Nat) : Bool := (decide (65 ≤ c) && decide (c ≤ 90)) || (decide (97 ≤ c) && decide (c ≤ 122))

/-- admissible labels: one or two admissible characters -/
def admissible (l : List Nat) : Bool := (l.length == 1 || l.length == 2) && l.all admissibleChar

/-! ### environment group letter ↔ number (blockParameters.py setters) -/

/-- `envGroup` setter: islower → ord − 97 + 26, else ord − 65 (Python ints: may be negative) -/
def envCharToNum (c : Nat) : Int :=
  if 97 ≤ c ∧ c ≤ 122 then (c : Int) - 97 + 26 else (c : Int) - 65

/-- `envGroupNum` setter: none = RuntimeError (> 52); note 52 itself maps to '{' (code 123) as coded -/
def envNumToChar (n : Nat) : Option Nat :=
  if n > 52 then none
  else if n > 25 then some (n - 26 + 97) else some (n + 65)

/-- `Block.getMicroSuffix`: none = RuntimeError (no env group) / ValueError (2-char type with non-default env) -/
def microSuffix (xsType : List Nat) (env : List Nat) : Option (List Nat) :=
  match env with
  | [] => none
  | e :: _ =>
    if xsType.length = 1 then some (xsType ++ env)
    else if xsType.length = 2 ∧ e ≠ 65 then none
    else some xsType

/-- `_updateEnvironmentGroups` for one block: first burnup bound with bu ≤ bound (∞ appended), first
temperature bound with T ≤ bound when a temperature isotope is set and there is more than one temperature
group; group number = tempGroup · numBuGroups + buGroup. `none` = groups left untouched (single group). -/
def firstLE (x : Rat) (bounds : List Rat) : Nat :=
  match bounds with
  | [] => 0
  | b :: bs => if x ≤ b then 0 else 1 + firstLE x bs

def envGroupNum (bu : Rat) (buBounds : List Rat) (useTemp : Bool) (tempC : Rat) (tBounds : List Rat) : Option Nat :=
  let numBu := buBounds.length + 1
  let numT := tBounds.length + 1
  if numBu = 1 ∧ numT = 1 then none else
  let buIdx := firstLE bu buBounds
  let tIdx := if useTemp ∧ numT > 1 then firstLE tempC tBounds else 0
  some (tIdx * numBu + buIdx)

/-! ### grouping by micro suffix -/

/-- keys in order of first occurrence (dict insertion order) -/
def firstOccurrences : List (List Nat) → List (List Nat)
  | [] => []
  | k :: ks => k :: (firstOccurrences ks).filter (fun x => x != k)

/-- Python `sorted` on strings = lexicographic on code points; insertion sort -/
def insertKey (k : List Nat) : List (List Nat) → List (List Nat)
  | [] => [k]
  | x :: xs => if k ≤ x then k :: x :: xs else x :: insertKey k xs

def sortKeys : List (List Nat) → List (List Nat)
  | [] => []
  | k :: ks => insertKey k (sortKeys ks)

/-- `makeCrossSectionGroups`: OrderedDict(sorted(groups.items())), each group listing its blocks in core order.
Blocks are given with their key; the result lists (key, members). -/
def groups {β} (key : β → List Nat) (bs : List β) : List (List Nat × List β) :=
  (sortKeys (firstOccurrences (bs.map key))).map (fun k => (k, bs.filter (fun b => key b == k)))

/-! ### weights and weighted means -/

structure Blk where
  /-- `b.hasFlags(validRepresentativeBlockTypes)` -/
  valid : Bool
  /-- `b.getVolume()` -/
  vol : Rat
  /-- `b.p[weightingParam]` (ignored when no weighting parameter is set) -/
  wparam : Rat
  /-- the values being averaged (one per nuclide / quantity) -/
  vals : List Rat
deriving Repr

/-- `getWeight`: (param or 1) · (volume or 1) -/
def getWeight (useParam : Bool) (b : Blk) : Rat :=
  let vol := if b.vol = 0 then 1 else b.vol
  let w := if useParam then (if b.wparam = 0 then 1 else b.wparam) else 1
  w * vol

/-- `getCandidateBlocks` -/
def candidates (bs : List Blk) : List Blk := bs.filter (·.valid)

/-- `_checkValidWeightingFactors`: false = ValueError (mixture of zero and non-zero weighting factors) -/
def weightsValid (useParam : Bool) (bs : List Blk) : Bool :=
  let ws : List Rat := if useParam then (candidates bs).map (·.wparam) else (candidates bs).map (fun _ => 0)
  !(ws.any (· != 0) && !(ws.all (· != 0)))

def rsum (l : List Rat) : Rat := l.foldr (· + ·) 0

def dot : List Rat → List Rat → Rat
  | w :: ws, x :: xs => w * x + dot ws xs
  | _, _ => 0

/-- weights /= weights.sum(); weights.dot(values) — over ℚ: Σ wᵢxᵢ / Σ wᵢ -/
def wmean (ws xs : List Rat) : Rat := dot ws xs / rsum ws

def column (j : Nat) (bs : List Blk) : List Rat := bs.map (fun b => b.vals.getD j 0)

/-- `_getAverageNumberDensities` / `_getAverageComponentNumberDensities`: none = the call raises or
divides by zero (invalid weighting factors, no candidate block, zero total weight) -/
def average (useParam : Bool) (nvals : Nat) (bs : List Blk) : Option (List Rat) :=
  let cs := candidates bs
  if !weightsValid useParam bs then none
  else if cs.isEmpty then none
  else
    let ws := cs.map (getWeight useParam)
    if rsum ws = 0 then none
    else some ((List.range nvals).map (fun j => wmean ws (column j cs)))

/-- `_calcWeightedBurnup` (after fix 5b02166): loops over the CANDIDATE blocks of the collection;
weight = massHmBOL · getWeight / volume; 0 when the total weight is 0. `vals = [massHmBOL, percentBu]`.
none = ZeroDivisionError (a candidate block of zero volume). -/
def weightedBurnup (useParam : Bool) (bs : List Blk) : Option Rat :=
  let cs := candidates bs
  if cs.any (fun b => b.vol == 0) then none else
  let ws := cs.map (fun b => b.vals.getD 0 0 * getWeight useParam b / b.vol)
  let xs := cs.map (fun b => b.vals.getD 1 0)
  if rsum ws = 0 then some 0 else some (dot ws xs / rsum ws)

/-! ### median block -/

/-- sort key of `_getMedianBlock`: (percentBu · weight, name) with `vals = [percentBu]` -/
structure MKey where
  v : Rat
  name : List Nat
  idx : Nat
deriving Repr

def MKey.le (a b : MKey) : Bool := decide (a.v < b.v) || (a.v == b.v && decide (a.name ≤ b.name))

def insertM (k : MKey) : List MKey → List MKey
  | [] => [k]
  | x :: xs => if k.le x then k :: x :: xs else x :: insertM k xs

def sortM : List MKey → List MKey
  | [] => []
  | k :: ks => insertM k (sortM ks)

def medianKeys (useParam : Bool) (bs : List (Blk × List Nat)) : List MKey :=
  (bs.zipIdx.filter (fun p => p.1.1.valid)).map
    (fun p => ⟨p.1.1.vals.getD 0 0 * getWeight useParam p.1.1, p.1.2, p.2⟩)

/-- index (into the collection) of the median block: info.sort(); info[len(info) // 2]; none = IndexError -/
def medianIndex (useParam : Bool) (bs : List (Blk × List Nat)) : Option Nat :=
  let s := sortM (medianKeys useParam bs)
  (s[s.length / 2]?).map (·.idx)


/-! ### continuation round: more of crossSectionGroupManager.py

Group-bound validation, the whole-list environment-group update, eligibility by flags, the two-pass grouping
(core blocks, then blueprint-only blocks), the manager-level bookkeeping of `createRepresentativeBlocks`
(represented / unrepresented groups, `_modifyUnrepresentedXSIDs`), `getNextAvailableXsTypes`, the component
temperature average with its zero-mass fall-back, nuclide temperatures from the raw per-component terms
(trace densities), and the area-weighted component average of the 1-D cylinder / slab collections. -/

/-- `_setBuGroupBounds` validation loop (`last` = lastBu, initially 0): false = ValueError -/
def buBoundsOk : Rat → List Rat → Bool
  | _, [] => true
  | last, u :: us => if u ≤ 0 ∨ u > 100 then false else if u < last then false else buBoundsOk u us

/-- `_setTempGroupBounds` validation loop (`last` initially −273.15): false = ValueError -/
def tempBoundsOk : Rat → List Rat → Bool
  | _, [] => true
  | last, u :: us => if u < -27315 / 100 then false else if u < last then false else tempBoundsOk u us

def setBuGroupBounds (bs : List Rat) : Option (List Rat) := if buBoundsOk 0 bs then some bs else none
def setTempGroupBounds (bs : List Rat) : Option (List Rat) := if tempBoundsOk (-27315 / 100) bs then some bs else none

/-- one block as `_updateEnvironmentGroups` sees it -/
structure EBlk where
  bu : Rat
  /-- the XS settings of the block's CURRENT micro suffix name a temperature isotope -/
  useTemp : Bool
  /-- `getBlockNuclideTemperature(block, isotope)` -/
  tempC : Rat
  /-- current `envGroupNum` -/
  env : Nat
deriving Repr

/-- the assignment inside the loop for one block: none = the `envGroupNum` setter raises RuntimeError (> 52) -/
def updateOne (bb tb : List Rat) (b : EBlk) : Option Nat :=
  match envGroupNum b.bu bb b.useTemp b.tempC tb with
  | none => some b.env
  | some n => if n > 52 then none else some n

def updateAll (bb tb : List Rat) : List EBlk → Option (List Nat)
  | [] => some []
  | b :: bs => match updateOne bb tb b with
    | none => none
    | some n => (updateAll bb tb bs).map (n :: ·)

/-- `_updateEnvironmentGroups(blockList)`: the new `envGroupNum` of every block, in order.
`none` = the `envGroupNum` setter raised RuntimeError (> 52) on some block (blocks before it are already updated
in the real code; the run is aborted). Disabled updates / a single group leave every block as it is. -/
def updateEnvironmentGroups (enabled : Bool) (bb tb : List Rat) (bs : List EBlk) : Option (List Nat) :=
  if !enabled then some (bs.map (·.env)) else updateAll bb tb bs

/-- `ArmiObject.hasFlags(typeSpec)` (non-exact) as used by `getCandidateBlocks`: `none`/empty spec matches every
block; otherwise a block without flags matches nothing, and a candidate spec matches when ALL its bits are present. -/
def hasFlagsAny (flags : Nat) (spec : List Nat) : Bool :=
  if spec.isEmpty then true else spec.any (fun t => if t = 0 then true else if flags = 0 then false else flags &&& t == t)

/-- `BlockCollection.__init__`: `validBlockTypes` None or empty → `_validRepresentativeBlockTypes = None` -/
def eligible (flags : Nat) (validTypes : List Nat) : Bool := hasFlagsAny flags validTypes

/-- `_getMissingBlueprintBlocks`: blueprint blocks whose suffix is not yet a group (all of them, duplicates included) -/
def missingBlueprint {β} (key : β → List Nat) (core bp : List β) : List β :=
  bp.filter (fun b => !((core.map key).contains (key b)))

/-- `makeCrossSectionGroups`: core blocks, then copies of the missing blueprint blocks, sorted by key -/
def makeGroups {β} (key : β → List Nat) (core bp : List β) : List (List Nat × List β) :=
  groups key (core ++ missingBlueprint key core bp)

/-- a block as the manager-level bookkeeping sees it: one-letter XS type, environment letter, candidate or not -/
structure MBlk where
  xs : Nat
  env : Nat
  valid : Bool
deriving Repr, DecidableEq

def MBlk.key (b : MBlk) : List Nat := [b.xs, b.env]

/-- `createRepresentativeBlocks`: the keys that get a representative block (not pre-generated, ≥ 1 candidate), sorted -/
def representedKeys (pregen : List Nat → Bool) (bs : List MBlk) : List (List Nat) :=
  ((groups MBlk.key bs).filter (fun g => !pregen g.1 && g.2.any (·.valid))).map (·.1)

/-- `_unrepresentedXSIDs`: not pre-generated and no candidate block -/
def unrepresentedKeys (pregen : List Nat → Bool) (bs : List MBlk) : List (List Nat) :=
  ((groups MBlk.key bs).filter (fun g => !pregen g.1 && !g.2.any (·.valid))).map (·.1)

/-- `_getAlternateEnvGroup`: environment letter of the first represented group with the same XS type -/
def alternateEnv (reps : List (List Nat)) (t : Nat) : Option Nat :=
  match reps.find? (fun k => k.head? == some t) with
  | some [_, e] => some e
  | _ => none

/-- `_modifyUnrepresentedXSIDs`: blocks of unrepresented groups are moved to a represented environment group of
their XS type when there is one; every other block keeps its environment group. -/
def modifyUnrepresented (pregen : List Nat → Bool) (bs : List MBlk) : List MBlk :=
  let reps := representedKeys pregen bs
  let unrep := unrepresentedKeys pregen bs
  bs.map (fun b => if unrep.contains b.key then
      (match alternateEnv reps b.xs with | some e => { b with env := e } | none => b) else b)

/-- `getNextAvailableXsTypes(howMany, excluded)`: sorted(A–Z a–z minus allocated minus excluded)[:howMany];
none = ValueError (not enough left). `allocated` = XS types of all blocks (any strings). -/
def allowableTypes : List Nat := (List.range 26).map (· + 65) ++ (List.range 26).map (· + 97)

def nextAvailableXsTypes (howMany : Nat) (allocated : List (List Nat)) : Option (List Nat) :=
  let avail := allowableTypes.filter (fun c => !(allocated.contains [c]))
  if avail.length < howMany then none else some (avail.take howMany)

/-- `getWeight` on the two numbers it reads -/
def weightOf (useParam : Bool) (vol wparam : Rat) : Rat :=
  (if useParam then (if wparam = 0 then 1 else wparam) else 1) * (if vol = 0 then 1 else vol)

def zipMul : List Rat → List Rat → List Rat
  | x :: xs, y :: ys => x * y :: zipMul xs ys
  | _, _ => []

/-- `_getAverageComponentTemperature`: `ws` = getWeight/height of each candidate (before normalisation),
`ms` = masses and `ts` = temperatures of the matching components. none = 0/0 (weights sum to zero).
Zero weighted mass (e.g. a gap): plain arithmetic mean of the temperatures. -/
def componentTemperature (ws ms ts : List Rat) : Option Rat :=
  if rsum ws = 0 then none else
  let wn := ws.map (· / rsum ws)
  let m := dot wn ms
  if m = 0 then (if ts.isEmpty then none else some (rsum ts / ts.length))
  else some (dot wn (zipMul ts ms) / m)

/-- one component's data for one nuclide -/
structure CompT where
  /-- `nucName in component.p.numberDensities` -/
  declared : Bool
  n : Rat
  /-- volume fraction of the component in its block -/
  vf : Rat
  temp : Rat
deriving Repr

/-- `TRACE_NUMBER_DENSITY` = 1e-50 -/
def traceDensity : Rat := 1 / 100000000000000000000000000000000000000000000000000

/-- `getNumberDensitiesWithTrace` for one nuclide: trace only where the nuclide is DECLARED with density 0 -/
def densWithTrace (c : CompT) : Rat := if c.declared then (if c.n = 0 then traceDensity else c.n) else 0

/-- `getBlockNuclideTemperatureAvgTerms` for one nuclide: (Σ n·vf·vol·T, Σ n·vf·vol) -/
def blockTempTerms (vol : Rat) (cs : List CompT) : Rat × Rat :=
  (rsum (cs.map (fun c => densWithTrace c * c.vf * vol * c.temp)), rsum (cs.map (fun c => densWithTrace c * c.vf * vol)))

/-- `getBlockNuclideTemperature` -/
def blockNuclideTemperature (vol : Rat) (cs : List CompT) : Rat :=
  let t := blockTempTerms vol cs
  if t.2 > 0 then t.1 / t.2 else 0

structure TBlk where
  valid : Bool
  vol : Rat
  wparam : Rat
  comps : List CompT
deriving Repr

def tcandidates (bs : List TBlk) : List TBlk := bs.filter (·.valid)

/-- `AverageBlockCollection._getNucTempHelper` + `calcAvgNuclideTemperatures` for one nuclide -/
def avgNuclideTemperature (useParam : Bool) (bs : List TBlk) : Rat :=
  let cs := tcandidates bs
  let nvt := rsum (cs.map (fun b => (blockTempTerms b.vol b.comps).1 * weightOf useParam b.vol b.wparam))
  let nv := rsum (cs.map (fun b => (blockTempTerms b.vol b.comps).2 * weightOf useParam b.vol b.wparam))
  if nv = 0 then 0 else nvt / nv

/-- `MedianBlockCollection._getNucTempHelper` + `calcAvgNuclideTemperatures`: the median block's own terms -/
def medianNuclideTemperature (b : TBlk) : Rat :=
  let t := blockTempTerms b.vol b.comps
  if t.2 = 0 then 0 else t.1 / t.2

/-- the flattened (member, component) weights and temperatures the average is a mean of -/
def tempWeights (useParam : Bool) (cs : List TBlk) : List Rat :=
  cs.flatMap (fun b => b.comps.map (fun c => weightOf useParam b.vol b.wparam * (densWithTrace c * c.vf * b.vol)))

def tempValues (cs : List TBlk) : List Rat := cs.flatMap (fun b => b.comps.map (·.temp))

/-- `_getAverageComponentNucs` of the 1-D cylinder / slab collections for one nuclide: weight = block weight ×
component area; zero (not an error) when the total weight is not positive. -/
def areaAverage (bWeights areas xs : List Rat) : Rat :=
  let ws := zipMul bWeights areas
  if rsum ws > 0 then dot ws xs / rsum ws else 0


/-! ### `_getModifiedReprBlocks`: new XS ids for modified copies of representative blocks -/

/-- `dict[k] = v` on an insertion-ordered dict -/
def dictSet {α β} [BEq α] (d : List (α × β)) (k : α) (v : β) : List (α × β) :=
  if d.any (fun p => p.1 == k) then d.map (fun p => if p.1 == k then (k, v) else p) else d ++ [(k, v)]

def dictGet {α β} [BEq α] (d : List (α × β)) (k : α) : Option β := (d.find? (fun p => p.1 == k)).map (·.2)

/-- first loop of `_getModifiedReprBlocks`: `tm` = modifiedBlockXSTypes (orig type → new type), `acc` = origXSIDsFromNew
(new id → orig id), both insertion-ordered. none = ValueError from `getNextAvailableXsTypes`. -/
def modifiedIdsLoop (allocated : List (List Nat)) (reps : List (List Nat)) :
    List MBlk → List (Nat × Nat) → List (List Nat × List Nat) → Option (List (Nat × Nat) × List (List Nat × List Nat))
  | [], tm, acc => some (tm, acc)
  | b :: bs, tm, acc =>
    if !reps.contains b.key then modifiedIdsLoop allocated reps bs tm acc else
    match dictGet tm b.xs with
    | some t => modifiedIdsLoop allocated reps bs tm (dictSet acc [t, b.env] b.key)
    | none =>
      match nextAvailableXsTypes 1 (allocated ++ tm.map (fun p => [p.2])) with
      | some (t :: _) => modifiedIdsLoop allocated reps bs (tm ++ [(b.xs, t)]) (dictSet acc [t, b.env] b.key)
      | _ => none

def modifiedIds (allocated reps : List (List Nat)) (bs : List MBlk) :=
  modifiedIdsLoop allocated reps bs [] []



/-! ### `_checkBlockSimilarity` / `_performAverageByComponent` -/

/-- `for c, refC in zip(compFlags, refFlags): if c != refC: return False` — a `zip`: the longer list's tail is never looked at -/
def zipAllEq : List Nat → List Nat → Bool
  | x :: xs, y :: ys => x == y && zipAllEq xs ys
  | _, _ => true

/-- `AverageBlockCollection._checkBlockSimilarity`: component flags (in sorted component order) of every candidate against
those of the LAST candidate; none = no candidate (the loop variable is unbound) -/
def blockSimilarity (flagLists : List (List Nat)) : Option Bool :=
  match flagLists.getLast? with
  | none => none
  | some ref => some (flagLists.all (fun fl => zipAllEq fl ref))

/-- `_performAverageByComponent` -/
def performAverageByComponent (averageByComponent : Bool) (flagLists : List (List Nat)) : Option Bool :=
  if !averageByComponent then some false else blockSimilarity flagLists

end ArmiVerif.XsGroup
