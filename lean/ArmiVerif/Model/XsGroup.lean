/-
C20 — cross-section groups and representative blocks (core Lean only, exact `Rat`).

Transcribes armi/physics/neutronics/crossSectionGroupManager.py (as fixed by commit 7674416):
  getXSTypeNumberFromLabel / getXSTypeLabelFromNumber, BlockCollection.getWeight / getCandidateBlocks /
  _checkValidWeightingFactors / _calcWeightedBurnup, AverageBlockCollection._getAverageNumberDensities /
  _getAverageComponentNumberDensities / _getAverageComponentTemperature / _getNucTempHelper (all are the
  weight-normalised mean `wmean`), MedianBlockCollection._getMedianBlock,
  CrossSectionGroupManager._addXsGroupsFromBlocks / makeCrossSectionGroups / _updateEnvironmentGroups,
armi/reactor/blocks.py Block.getMicroSuffix and the envGroup / envGroupNum setters of blockParameters.py.
Characters are their code points (Nat); strings are lists of code points.
-/
namespace ArmiVerif.XsGroup

/-! ### label ↔ number -/

/-- len(str(n)) -/
def numDigits (n : Nat) : Nat :=
  if n < 10 then 1 else if n < 100 then 2 else if n < 1000 then 3 else if n < 10000 then 4
  else if n < 100000 then 5 else if n < 1000000 then 6 else (Nat.toDigits 10 n).length

/-- `int("".join("{:02d}".format(ord(c)) for c in label))`; the empty label raises (int("")) -/
def labelToNumber (l : List Nat) : Option Nat :=
  if l.isEmpty then none else
  some (l.foldl (fun acc c => acc * 10 ^ (max 2 (numDigits c)) + c) 0)

/-- Python `chr` accepts 0 ≤ c < 0x110000 -/
def chrOk (c : Nat) : Bool := decide (c < 1114112)

/-- `getXSTypeLabelFromNumber` (after the F3 fix): none = ValueError -/
def numberToLabel (n : Nat) : Option (List Nat) :=
  let len := numDigits n
  let d0 := n / 10 ^ (len - 1)
  if len > 3 ∨ (len = 3 ∧ d0 ≠ 1) then
    let split := if d0 = 1 then 3 else 2
    let hi := n / 10 ^ (len - split)
    let lo := n % 10 ^ (len - split)
    if chrOk hi && chrOk lo then some [hi, lo] else none
  else if n < 65 then none
  else some [n]

/-- `_ALLOWABLE_XS_TYPE_LIST`: A–Z a–z -/
def admissibleChar (c : Nat) : Bool := (decide (65 ≤ c) && decide (c ≤ 90)) || (decide (97 ≤ c) && decide (c ≤ 122))

/-- admissible labels: one or two admissible characters -/
def admissible (l : List Nat) : Bool := (l.length == 1 || l.length == 2) && l.all admissibleChar

/-! ### environment group letter ↔ number (blockParameters.py setters) -/

/-- `envGroup` setter: islower → ord − 97 + 26, else ord − 65 (Python ints: may be negative) -/
def envCharToNum (c : Nat) : Int :=
  if 97 ≤ c ∧ c ≤ 122 then (c : Int) - 97 + 26 else (c : Int) - 65

/-- `envGroupNum` setter: none = RuntimeError (> 52); note 52 itself maps to '{' (code 123) as coded -/
def envNumToChar (n : Nat) : Option Nat :=
  if n > 52 then none
  else if n > 25 then some (n - 26 + 97) else some (n + 65)

/-- `Block.getMicroSuffix`: none = RuntimeError (no env group) / ValueError (2-char type with non-default env) -/
def microSuffix (xsType : List Nat) (env : List Nat) : Option (List Nat) :=
  match env with
  | [] => none
  | e :: _ =>
    if xsType.length = 1 then some (xsType ++ env)
    else if xsType.length = 2 ∧ e ≠ 65 then none
    else some xsType

/-- `_updateEnvironmentGroups` for one block: first burnup bound with bu ≤ bound (∞ appended), first
temperature bound with T ≤ bound when a temperature isotope is set and there is more than one temperature
group; group number = tempGroup · numBuGroups + buGroup. `none` = groups left untouched (single group). -/
def firstLE (x : Rat) (bounds : List Rat) : Nat :=
  match bounds with
  | [] => 0
  | b :: bs => if x ≤ b then 0 else 1 + firstLE x bs

def envGroupNum (bu : Rat) (buBounds : List Rat) (useTemp : Bool) (tempC : Rat) (tBounds : List Rat) : Option Nat :=
  let numBu := buBounds.length + 1
  let numT := tBounds.length + 1
  if numBu = 1 ∧ numT = 1 then none else
  let buIdx := firstLE bu buBounds
  let tIdx := if useTemp ∧ numT > 1 then firstLE tempC tBounds else 0
  some (tIdx * numBu + buIdx)

/-! ### grouping by micro suffix -/

/-- keys in order of first occurrence (dict insertion order) -/
def firstOccurrences : List (List Nat) → List (List Nat)
  | [] => []
  | k :: ks => k :: (firstOccurrences ks).filter (fun x => x != k)

/-- Python `sorted` on strings = lexicographic on code points; insertion sort -/
def insertKey (k : List Nat) : List (List Nat) → List (List Nat)
  | [] => [k]
  | x :: xs => if k ≤ x then k :: x :: xs else x :: insertKey k xs

def sortKeys : List (List Nat) → List (List Nat)
  | [] => []
  | k :: ks => insertKey k (sortKeys ks)

/-- `makeCrossSectionGroups`: OrderedDict(sorted(groups.items())), each group listing its blocks in core order.
Blocks are given with their key; the result lists (key, members). -/
def groups {β} (key : β → List Nat) (bs : List β) : List (List Nat × List β) :=
  (sortKeys (firstOccurrences (bs.map key))).map (fun k => (k, bs.filter (fun b => key b == k)))

/-! ### weights and weighted means -/

structure Blk where
  /-- `b.hasFlags(validRepresentativeBlockTypes)` -/
  valid : Bool
  /-- `b.getVolume()` -/
  vol : Rat
  /-- `b.p[weightingParam]` (ignored when no weighting parameter is set) -/
  wparam : Rat
  /-- the values being averaged (one per nuclide / quantity) -/
  vals : List Rat
deriving Repr

/-- `getWeight`: (param or 1) · (volume or 1) -/
def getWeight (useParam : Bool) (b : Blk) : Rat :=
  let vol := if b.vol = 0 then 1 else b.vol
  let w := if useParam then (if b.wparam = 0 then 1 else b.wparam) else 1
  w * vol

/-- `getCandidateBlocks` -/
def candidates (bs : List Blk) : List Blk := bs.filter (·.valid)

/-- `_checkValidWeightingFactors`: false = ValueError (mixture of zero and non-zero weighting factors) -/
def weightsValid (useParam : Bool) (bs : List Blk) : Bool :=
  let ws : List Rat := if useParam then (candidates bs).map (·.wparam) else (candidates bs).map (fun _ => 0)
  !(ws.any (· != 0) && !(ws.all (· != 0)))

def rsum (l : List Rat) : Rat := l.foldr (· + ·) 0

def dot : List Rat → List Rat → Rat
  | w :: ws, x :: xs => w * x + dot ws xs
  | _, _ => 0

/-- weights /= weights.sum(); weights.dot(values) — over ℚ: Σ wᵢxᵢ / Σ wᵢ -/
def wmean (ws xs : List Rat) : Rat := dot ws xs / rsum ws

def column (j : Nat) (bs : List Blk) : List Rat := bs.map (fun b => b.vals.getD j 0)

/-- `_getAverageNumberDensities` / `_getAverageComponentNumberDensities`: none = the call raises or
divides by zero (invalid weighting factors, no candidate block, zero total weight) -/
def average (useParam : Bool) (nvals : Nat) (bs : List Blk) : Option (List Rat) :=
  let cs := candidates bs
  if !weightsValid useParam bs then none
  else if cs.isEmpty then none
  else
    let ws := cs.map (getWeight useParam)
    if rsum ws = 0 then none
    else some ((List.range nvals).map (fun j => wmean ws (column j cs)))

/-- `_calcWeightedBurnup` (after fix 5b02166): loops over the CANDIDATE blocks of the collection;
weight = massHmBOL · getWeight / volume; 0 when the total weight is 0. `vals = [massHmBOL, percentBu]`.
none = ZeroDivisionError (a candidate block of zero volume). -/
def weightedBurnup (useParam : Bool) (bs : List Blk) : Option Rat :=
  let cs := candidates bs
  if cs.any (fun b => b.vol == 0) then none else
  let ws := cs.map (fun b => b.vals.getD 0 0 * getWeight useParam b / b.vol)
  let xs := cs.map (fun b => b.vals.getD 1 0)
  if rsum ws = 0 then some 0 else some (dot ws xs / rsum ws)

/-! ### median block -/

/-- sort key of `_getMedianBlock`: (percentBu · weight, name) with `vals = [percentBu]` -/
structure MKey where
  v : Rat
  name : List Nat
  idx : Nat
deriving Repr

def MKey.le (a b : MKey) : Bool := decide (a.v < b.v) || (a.v == b.v && decide (a.name ≤ b.name))

def insertM (k : MKey) : List MKey → List MKey
  | [] => [k]
  | x :: xs => if k.le x then k :: x :: xs else x :: insertM k xs

def sortM : List MKey → List MKey
  | [] => []
  | k :: ks => insertM k (sortM ks)

def medianKeys (useParam : Bool) (bs : List (Blk × List Nat)) : List MKey :=
  (bs.zipIdx.filter (fun p => p.1.1.valid)).map
    (fun p => ⟨p.1.1.vals.getD 0 0 * getWeight useParam p.1.1, p.1.2, p.2⟩)

/-- index (into the collection) of the median block: info.sort(); info[len(info) // 2]; none = IndexError -/
def medianIndex (useParam : Bool) (bs : List (Blk × List Nat)) : Option Nat :=
  let s := sortM (medianKeys useParam bs)
  (s[s.length / 2]?).map (·.idx)

end ArmiVerif.XsGroup
