/-
Model of the cross-section library merge (armi/nuclearDataIO/xsLibraries.py, xsNuclides.py,
xsCollections.py, nuclearFileMetadata.py, armi/utils/properties.py) and of the macroscopic
group-constant layer (xsCollections.py).  Core Lean only.

Values (numpy arrays, strings, numbers, dicts held in metadata) are represented by identities
`Val : Nat`: the harness interns every payload so that equal ids <=> `numpyHackForEqual` says equal
(that equality is a parameter of the model).  `Val 0` is reserved for the falsy string `''`.
Every merge function returns the status AND the post-state of the target, because the code mutates
the target step by step and keeps the mutations made before the step that raised.
-/
namespace ArmiVerif.XsLib

abbrev Key := Nat
abbrev Val := Nat
abbrev Label := Nat

/-! ### `_Metadata` (a dict wrapper returning None for absent keys) -/

/-- a metadata dict as an association list (keys unique on the modelled domain, no None values) -/
abbrev Meta := List (Key × Val)

/-- `_Metadata.__getitem__` : `self._data.get(key, None)` -/
def Meta.get : Meta → Key → Option Val
  | [], _ => none
  | (k', v) :: m, k => if k' = k then some v else Meta.get m k

/-- `_Metadata.update` (dict.update: entries of `b` win, other entries of `a` stay) -/
def Meta.update (a b : Meta) : Meta :=
  b ++ a.filter (fun p => (Meta.get b p.1).isNone)

/-- the `for key in set(self.keys() + other.keys()) - skippedKeys` loop of `_Metadata.merge`:
true iff no key raises (`numpyHackForEqual(self[key], other[key])` for every one of them) -/
def Meta.agree (skip : List Key) (a b : Meta) : Bool :=
  ((a.map Prod.fst ++ b.map Prod.fst).filter (fun k => !skip.contains k)).all
    (fun k => Meta.get a k == Meta.get b k)

/-- `_Metadata.merge` for `NuclideMetadata` (no skipped keys, no library specific data).
`none` = the exception class passed in is raised; nothing has been mutated.
If either side is empty (`not (any(self.keys()) and any(other.keys()))`) the result is the
union; otherwise every key must agree and `mergedData[key] = selfVal`. -/
def Meta.merge (skip : List Key) (a b : Meta) : Option Meta :=
  if a.isEmpty || b.isEmpty then some (Meta.update a b)
  else if Meta.agree skip a b then some (a.filter (fun p => !skip.contains p.1))
  else none

/-- reserved key ids (the harness interns these three strings to these ids) -/
def keyChi : Key := 0
def keyLibraryLabel : Key := 1
/-- `''` -/
def valFalsy : Val := 0

/-- `FileMetadata` / `NuclideXSMetadata`: the dict plus the `fileNames` list -/
structure FileMeta where
  data : Meta
  files : List Nat
deriving DecidableEq, Repr

/-- Python `x or y` on (possibly absent) string values -/
def orVal (x y : Option Val) : Option Val :=
  match x with
  | some v => if v = valFalsy then y else some v
  | none => y

/-- `NuclideXSMetadata._getSkippedKeys` on the modelled domain (file-wide chi absent on both sides) -/
def libSkip : List Key := [keyChi, keyLibraryLabel]

/-- modelled domain of the library-level metadata merge: no file-wide chi
(with one, `_getSkippedKeys` rewrites `chiFlag` of every nuclide of both libraries) -/
def FileMeta.chiFree (a : FileMeta) : Bool := (Meta.get a.data keyChi).isNone

/-- `_Metadata.merge` as specialised by `NuclideXSMetadata`
(`_mergeLibrarySpecificData`: fileNames concatenated, `libraryLabel = self or other`). -/
def FileMeta.merge (a b : FileMeta) : Option FileMeta :=
  if a.data.isEmpty || b.data.isEmpty then
    some ⟨Meta.update a.data b.data, a.files ++ b.files⟩
  else if Meta.agree libSkip a.data b.data then
    let ll := orVal (Meta.get a.data keyLibraryLabel) (Meta.get b.data keyLibraryLabel)
    some ⟨(match ll with | some v => [(keyLibraryLabel, v)] | none => [])
            ++ a.data.filter (fun p => !libSkip.contains p.1), a.files ++ b.files⟩
  else none

/-! ### write-once properties (`utils/properties.py createImmutableProperty`) -/

/-- state of one immutable property on an object: `none` = the private attribute does not exist,
`some none` = it exists and holds None, `some (some v)` = it holds `v` -/
abbrev Prop' := Option (Option Val)

/-- `_getter` on an unlocked object: the value or None -/
def Prop'.read (p : Prop') : Option Val := p.join

/-- `_setter`; `none` = ImmutablePropertyError -/
def Prop'.set (cur : Prop') (value : Option Val) : Option Prop' :=
  match cur with
  | none => some (some value)
  | some none => some (some value)
  | some (some c) =>
    match value with
    | none => some (some (some c))
    | some v => if c = v then some (some (some c)) else none

/-! ### `XSCollection` and `XSNuclide` -/

/-- An `XSCollection` seen by `merge`: `none` = every attribute except `source` and
`higherOrderScatter` is None; `some slots` = the attribute values in a fixed attribute order. -/
abbrev Coll := Option (List (Option Val))

/-- the `all(v is None for k, v in self.__dict__.items() if k not in attributesToIgnore)` test -/
def Coll.ofSlots (slots : List (Option Val)) : Coll :=
  if slots.all Option.isNone then none else some slots

/-- `XSCollection.merge`; `none` = AttributeError ("Cross sections overlap"), raised whenever
both sides hold anything at all; nothing mutated in that case. -/
def Coll.merge (a b : Coll) : Option Coll :=
  match a, b with
  | none, _ => some b          -- self.__dict__.update(other.__dict__)
  | some x, none => some (some x)
  | some _, some _ => none

/-- `attr1 if attr1 is not None else attr2` -/
def oor {β : Type} : Option β → Option β → Option β
  | some a, _ => some a
  | none, b => b

/-- the five `_mergeAttributes` assignments of `XSNuclide.merge`, executed left to right;
on failure the attributes already reassigned keep their new value -/
def mergeAttrs : List (Option Val) → List (Option Val) → Bool × List (Option Val)
  | a :: as, b :: bs =>
    match a, b with
    | some _, some _ => (false, a :: as)
    | _, _ => let r := mergeAttrs as bs; (r.1, oor a b :: r.2)
  | as, _ => (true, as)

structure Nuc where
  iso : Meta
  gam : Meta
  pm : Meta
  micros : Coll
  gamma : Coll
  /-- neutronHeating, neutronDamage, gammaHeating, isotropicProduction, linearAnisotropicProduction -/
  attrs : List (Option Val)
deriving DecidableEq, Repr

/-- `XSNuclide.merge` in statement order. Returns (succeeded, post-state of `self`). -/
def Nuc.merge (t o : Nuc) : Bool × Nuc :=
  match Meta.merge [] t.iso o.iso with
  | none => (false, t)
  | some m1 =>
    let t1 := { t with iso := m1 }
    match Meta.merge [] t1.gam o.gam with
    | none => (false, t1)
    | some m2 =>
      let t2 := { t1 with gam := m2 }
      match Meta.merge [] t2.pm o.pm with
      | none => (false, t2)
      | some m3 =>
        let t3 := { t2 with pm := m3 }
        match Coll.merge t3.micros o.micros with
        | none => (false, t3)
        | some c1 =>
          let t4 := { t3 with micros := c1 }
          match Coll.merge t4.gamma o.gamma with
          | none => (false, t4)
          | some c2 =>
            let t5 := { t4 with gamma := c2 }
            let r := mergeAttrs t5.attrs o.attrs
            (r.1, { t5 with attrs := r.2 })

/-! ### `IsotxsLibrary` -/

abbrev Nucs := List (Label × Nuc)

/-- `IsotxsLibrary.__getitem__` / `__contains__` -/
def Nucs.find : Nucs → Label → Option Nuc
  | [], _ => none
  | (l', n) :: ns, l => if l' = l then some n else Nucs.find ns l

/-- in-place mutation of the nuclide object stored under `l` -/
def Nucs.replace : Nucs → Label → Nuc → Nucs
  | [], _, _ => []
  | (l', n) :: ns, l, x => if l' = l then (l', x) :: ns else (l', n) :: Nucs.replace ns l x

/-- `IsotxsLibrary._mergeNuclides`: other's nuclides in other's order; the first failing nuclide
merge raises and leaves everything done so far in place. -/
def mergeNucs (t : Nucs) : Nucs → Bool × Nucs
  | [] => (true, t)
  | (l, n) :: rest =>
    match Nucs.find t l with
    | some tn =>
      let r := Nuc.merge tn n
      if r.1 then mergeNucs (Nucs.replace t l r.2) rest
      else (false, Nucs.replace t l r.2)
    | none => mergeNucs (t ++ [(l, n)]) rest

structure Lib where
  /-- neutronDoseConversionFactors -/
  ndcf : Prop'
  /-- neutronEnergyUpperBounds -/
  nEnergy : Prop'
  /-- neutronVelocity -/
  nVel : Prop'
  /-- gammaEnergyUpperBounds -/
  gEnergy : Prop'
  /-- gammaDoseConversionFactors -/
  gdcf : Prop'
  isoMeta : FileMeta
  pmMeta : FileMeta
  gamMeta : FileMeta
  nucs : Nucs
deriving DecidableEq, Repr

/-- `IsotxsLibrary()` -/
def Lib.empty : Lib :=
  ⟨none, none, none, none, none, ⟨[], []⟩, ⟨[], []⟩, ⟨[], []⟩, []⟩

/-- `IsotxsLibrary._mergeProperties` (+ `_XSLibrary._mergeNeutronEnergies`), statement order:
neutronDoseConversionFactors, neutronEnergyUpperBounds, neutronVelocity (only `if not
hasattr(self, "_neutronVelocity")`), gammaEnergyUpperBounds, gammaDoseConversionFactors.
Returns (succeeded, post-state): assignments made before the raising one are kept. -/
def Lib.mergeProperties (t o : Lib) : Bool × Lib :=
  match t.ndcf.set o.ndcf.read with
  | none => (false, t)
  | some p1 =>
    let t1 := { t with ndcf := p1 }
    match t1.nEnergy.set o.nEnergy.read with
    | none => (false, t1)
    | some p2 =>
      let t2 := { t1 with nEnergy := p2 }
      let t3 := { t2 with nVel := if t2.nVel.isNone then some o.nVel.read else t2.nVel }
      match t3.gEnergy.set o.gEnergy.read with
      | none => (false, t3)
      | some p4 =>
        let t4 := { t3 with gEnergy := p4 }
        match t4.gdcf.set o.gdcf.read with
        | none => (false, t4)
        | some p5 => (true, { t4 with gdcf := p5 })

/-- `IsotxsLibrary.merge`: properties, then the three metadata merges (computed, not yet
assigned), then the nuclides, then (only on success) the metadata assignment. -/
def Lib.merge (t o : Lib) : Bool × Lib :=
  let r := Lib.mergeProperties t o
  if !r.1 then (false, r.2) else
  let t1 := r.2
  match FileMeta.merge t1.isoMeta o.isoMeta with
  | none => (false, t1)
  | some mi =>
    match FileMeta.merge t1.pmMeta o.pmMeta with
    | none => (false, t1)
    | some mp =>
      match FileMeta.merge t1.gamMeta o.gamMeta with
      | none => (false, t1)
      | some mg =>
        let rn := mergeNucs t1.nucs o.nucs
        if rn.1 then (true, { t1 with nucs := rn.2, isoMeta := mi, pmMeta := mp, gamMeta := mg })
        else (false, { t1 with nucs := rn.2 })

/-- `lib = IsotxsLibrary(); for o in libs: lib.merge(o)`, stopping at the first exception:
(number of merges that succeeded, all succeeded, final state of the target) -/
def mergeSeq (t : Lib) : List Lib → Nat × Bool × Lib
  | [] => (0, true, t)
  | o :: os =>
    let r := Lib.merge t o
    if r.1 then let s := mergeSeq r.2 os; (s.1 + 1, s.2) else (0, false, r.2)

/-- modelled domain of `Lib.merge` (see `FileMeta.chiFree`) -/
def Lib.inDomain (l : Lib) : Bool :=
  l.isoMeta.chiFree && l.pmMeta.chiFree && l.gamMeta.chiFree

/-! ### macroscopic group constants (`xsCollections.py`) over exact rationals -/

abbrev Vec := List Rat
abbrev Mat := List (List Rat)

def vadd (a b : Vec) : Vec := List.zipWith (· + ·) a b
def vmul (a b : Vec) : Vec := List.zipWith (· * ·) a b
def vscale (c : Rat) (a : Vec) : Vec := a.map (c * ·)
def vzero (n : Nat) : Vec := List.replicate n 0
def vany (a : Vec) : Bool := a.any (· ≠ 0)

/-- `_getXsMultiplier` result: no multiplier (1.0), a scalar (metadata value such as `efiss`),
a per-group array (`neutronsPerFission`), or Python None (metadata key absent) -/
inductive Mult where
  | one
  | scalar (c : Rat)
  | vec (v : Vec)
  | none
deriving Repr

/-- one `(nuclideName, numberDensity)` item of the sorted loop of
`computeMacroscopicGroupConstants`, with what the library lookups returned -/
inductive Entry where
  /-- `lib.getNuclide` raised KeyError -/
  | missing (dens : Rat)
  /-- found; `micro = none` when the attribute is None -/
  | present (dens : Rat) (micro : Option Vec) (mult : Mult)
deriving Repr

/-- `numberDensity * microGroupConstants * multiplierVal`; `none` = numpy raises -/
def term (dens : Rat) (micro : Vec) : Mult → Option Vec
  | .one => some (vscale dens micro)
  | .scalar c => some (vscale c (vscale dens micro))
  | .vec v => if v.length = micro.length then some (vmul (vscale dens micro) v) else Option.none
  | .none => Option.none

/-- loop state of `computeMacroscopicGroupConstants`: (macroGroupConstants, skippedNuclides ≠ []) -/
abbrev MacroState := Option Vec × Bool

/-- the array actually added when `macroGroupConstants` already has `n` groups: a None attribute
(`np.asarray(None)`, shape `()`) or an all-zero array of another shape is replaced by `np.zeros(n)` -/
def effMicro (n : Nat) : Option Vec → Vec
  | Option.none => vzero n
  | some m => if m.length ≠ n ∧ !vany m then vzero n else m

/-- one iteration; `none` = an exception inside the loop (TypeError on a None array that is the
first contribution, numpy broadcast error on a non-zero array of another length). -/
def macroStep (s : MacroState) : Entry → Option MacroState
  | .missing d => if d = 0 then some s else some (s.1, true)
  | .present d micro mult =>
    if d = 0 then some s else
    match s.1 with
    | Option.none =>
      -- macroGroupConstants = np.zeros(microGroupConstants.shape)
      match micro with
      | Option.none => Option.none      -- float * array(None) : TypeError
      | some m => (term d m mult).map (fun t => (some (vadd (vzero m.length) t), s.2))
    | some acc =>
      let m := effMicro acc.length micro
      if m.length ≠ acc.length then Option.none
      else (term d m mult).map (fun t => (some (vadd acc t), s.2))

def macroLoop : MacroState → List Entry → Option MacroState
  | s, [] => some s
  | s, e :: es => match macroStep s e with
    | Option.none => Option.none
    | some s' => macroLoop s' es

/-- `computeMacroscopicGroupConstants`: outer `none` = an exception (including the ValueError for
nuclides with non-zero density that the library lacks); `some none` = Python None is returned
(no nuclide contributed); `some (some v)` = the array. -/
def macroXS (es : List Entry) : Option (Option Vec) :=
  match macroLoop (Option.none, false) es with
  | Option.none => Option.none
  | some (acc, skipped) => if skipped then Option.none else some acc

/-- `compute{Neutron,Gamma}EnergyDepositionConstants`: `macro * JOULES_PER_eV`
(None * float raises) -/
def energyDeposition (joulesPerEv : Rat) (es : List Entry) : Option Vec :=
  match macroXS es with
  | some (some v) => some (vscale joulesPerEv v)
  | _ => Option.none

/-- `computeCaptureEnergyGenerationConstants`: zeros of the shape of the first capture macro,
plus the five capture macros each multiplied by `ecapt`. Input: the entry list of the first capture
reaction without multiplier, and per capture reaction the entry list with the multiplier.
`captureStep` = one `captureEnergyFactor += ...`. -/
def captureStep (acc : Option Vec) (es : List Entry) : Option Vec :=
  match acc, macroXS es with
  | some a, some (some v) => if v.length = a.length then some (vadd a v) else Option.none
  | _, _ => Option.none

def captureEnergy (plain : List Entry) (withMult : List (List Entry)) : Option Vec :=
  match macroXS plain with
  | some (some v0) => withMult.foldl captureStep (some (vzero v0.length))
  | _ => Option.none

def madd (a b : Mat) : Mat := List.zipWith vadd a b
def mscale (c : Rat) (a : Mat) : Mat := a.map (vscale c)
def mzero (n : Nat) : Mat := List.replicate n (vzero n)

/-- `if microCollection.X is not None: self.macros.X += microCollection.X * nDens` -/
def scatterStep (acc : Mat) (it : Rat × Option Mat) : Mat :=
  match it.2 with
  | Option.none => acc
  | some m => madd acc (mscale it.1 m)

/-- `MacroscopicCrossSectionCreator._convertScatterMatrices` for one matrix kind:
`macros.X += micro.X * nDens` over the library nuclides of the suffix (None skipped);
`dens` already holds `densities.get(nuclide.name, 0.0)`. -/
def scatterMacro (ng : Nat) (items : List (Rat × Option Mat)) : Mat :=
  items.foldl scatterStep (mzero ng)

/-- `XSCollection.getTotalScatterMatrix` on macros (all three present):
elastic + inelastic + 2 * n2n -/
def totalScatter (el inel n2n : Mat) : Mat := madd (madd el inel) (mscale 2 n2n)

/-- `_computeAbsorptionXS`: zeros(ng) += nGamma, fission, nalph, np, nd, nt, n2n -/
def absorption (ng : Nat) (parts : List Vec) : Vec := parts.foldl vadd (vzero ng)

def colSum (ng : Nat) (m : Mat) : Vec := m.foldl vadd (vzero ng)
def diag (m : Mat) : Vec := (List.range m.length).map (fun i => (m.getD i []).getD i 0)
def vsub (a b : Vec) : Vec := List.zipWith (· - ·) a b

/-- `_computeRemovalXS`: absorption - n2n + (column sums - diagonal) of the total scatter -/
def removal (ng : Nat) (absorp n2n : Vec) (tot : Mat) : Vec :=
  vadd (vsub absorp n2n) (vsub (colSum ng tot) (diag tot))

/-- `computeBlockAverageChi`: Σ χ_n N_n F_n / Σ N_n F_n with F_n = Σ_g ν_g σ_f,g ; zeros when the
denominator is 0. items: (N_n, χ_n, ν_n, σ_f,n). -/
def blockChi (ng : Nat) (items : List (Rat × Vec × Vec × Vec)) : Vec :=
  let f := fun (it : Rat × Vec × Vec × Vec) => (vmul it.2.2.1 it.2.2.2).foldl (· + ·) 0
  let num := items.foldl (fun acc it => vadd acc (vscale (it.1 * f it) it.2.1)) (vzero ng)
  let den := items.foldl (fun acc it => acc + it.1 * f it) 0
  if den ≠ 0 then num.map (· / den) else vzero ng

/-! ### merge sequences that go on after a rejected merge -/

/-- `for o in libs: try: t.merge(o) except Exception: pass` — the outcome of every single merge and
the final state of the target (a rejected merge leaves whatever it had already mutated). -/
def mergeAll (t : Lib) : List Lib → List Bool × Lib
  | [] => ([], t)
  | o :: os =>
    let r := Lib.merge t o
    let s := mergeAll r.2 os
    (r.1 :: s.1, s.2)

/-! ### `computeMacroscopicGroupConstants(..., multLib=...)` -/

def Entry.isMissing : Entry → Bool
  | .missing _ => true
  | .present _ _ _ => false

/-- with a `multLib`: an item found in `lib` but not in `multLib` is left out (`skippedMultNuclides`,
`continue`, debug message only); the `lib` lookup comes first, so an item absent from `lib` still counts
as missing.  The flag says whether `multLib.getNuclide` found the nuclide. -/
def dropMultMissing (es : List (Entry × Bool)) : List Entry :=
  (es.filter (fun p => p.2 || p.1.isMissing)).map Prod.fst

def macroXSMult (es : List (Entry × Bool)) : Option (Option Vec) := macroXS (dropMultMissing es)

/-! ### `MacroscopicCrossSectionCreator.createMacrosFromMicros` as a whole -/

/-- a Python dict with insertion order: `d[k] = v` -/
def dictSet : List (Nat × Rat) → Nat → Rat → List (Nat × Rat)
  | [], k, v => [(k, v)]
  | (k', v') :: r, k, v => if k' = k then (k', v) :: r else (k', v') :: dictSet r k v

/-- `d.get(k, dflt)` -/
def dictGet : List (Nat × Rat) → Nat → Rat → Rat
  | [], _, dflt => dflt
  | (k', v') :: r, k, dflt => if k' = k then v' else dictGet r k dflt

/-- `dict(filter(lambda x: x[1] > self.minimumNuclideDensity, zip(nucNames, densities)))` -/
def mkDensities (minD : Rat) (items : List (Nat × Rat)) : List (Nat × Rat) :=
  (items.filter (fun p => decide (p.2 > minD))).foldl (fun d p => dictSet d p.1 p.2) []

/-- `sorted(numberDensities.items())`; nuclide names are interned by rank, so `≤` on ids is `str` order -/
def insertItem (p : Nat × Rat) : List (Nat × Rat) → List (Nat × Rat)
  | [] => [p]
  | q :: qs => if p.1 ≤ q.1 then p :: q :: qs else q :: insertItem p qs

def sortedItems (d : List (Nat × Rat)) : List (Nat × Rat) := d.foldr insertItem []

/-- the microscopic data of one library nuclide of the block's XS ID as the creator reads it -/
structure MNuc where
  /-- nGamma, nalph, np, nd, nt, fission, n2n (`ABSORPTION_XS`), then total, transport; `none` = attribute None -/
  vecs : List (Option Vec)
  /-- neutronsPerFission -/
  nu : Option Vec
  el : Option Mat
  inel : Option Mat
  n2nS : Option Mat
deriving Repr

/-- `lib.getNuclide(name, suffix)` on the nuclides of the suffix (`none` = KeyError) -/
def lookupNuc : List (Nat × MNuc) → Nat → Option MNuc
  | [], _ => none
  | (k', n) :: r, k => if k' = k then some n else lookupNuc r k

def MNuc.vec (n : MNuc) (i : Nat) : Option Vec := (n.vecs.getD i none)

/-- the items one `computeMacroscopicGroupConstants(reaction i, self.densities, lib, suffix)` call loops over -/
def entriesOf (lib : List (Nat × MNuc)) (i : Nat) (withNu : Bool) (dens : List (Nat × Rat)) : List Entry :=
  dens.map fun p =>
    match lookupNuc lib p.1 with
    | none => .missing p.2
    | some n => .present p.2 (n.vec i)
        (if withNu then (match n.nu with | some v => Mult.vec v | none => Mult.none) else Mult.one)

/-- an array of `ng` entries, or the creator raises later (`zeros(ng) += None`, broadcast error) -/
def needVec (ng : Nat) : Option (Option Vec) → Option Vec
  | some (some v) => if v.length = ng then some v else none
  | _ => none

structure COut where
  /-- nGamma, nalph, np, nd, nt, fission, n2n -/
  basics : List Vec
  nuSigF : Vec
  total : Vec
  transport : Vec
  absorption : Vec
  el : Mat
  inel : Mat
  n2nS : Mat
  totalScatter : Mat
  removal : Vec
deriving Repr

def allSome {β : Type} : List (Option β) → Option (List β)
  | [] => some []
  | none :: _ => none
  | some x :: r => (allSome r).map (x :: ·)

/-- `createMacrosFromMicros(lib, block, nucNames)` up to the removal cross section (diffusion constants and chi
aside): `items` = `zip(nucNames, block.getNuclideNumberDensities(nucNames))`, `lib` = the library's nuclides of
the block's XS ID in library order.  `none` = an exception. The order of `getAbsorptionXS` (nGamma, fission,
nalph, np, nd, nt, n2n) only matters for rounding. -/
def creator (ng : Nat) (minD : Rat) (buildScatter : Bool) (items : List (Nat × Rat)) (lib : List (Nat × MNuc)) :
    Option COut :=
  let densD := mkDensities minD items
  let dens := sortedItems densD
  match needVec ng (macroXS (entriesOf lib 5 true dens)),
        allSome ((List.range 7).map (fun i => needVec ng (macroXS (entriesOf lib i false dens)))),
        macroXS (entriesOf lib 7 false dens), macroXS (entriesOf lib 8 false dens) with
  | some nuSigF, some basics, some (some total), some (some transport) =>
    let absorp := absorption ng basics
    let scat := fun (sel : MNuc → Option Mat) =>
      if buildScatter then scatterMacro ng (lib.map (fun p => (dictGet densD p.1 0, sel p.2))) else mzero ng
    let el := scat MNuc.el
    let inel := scat MNuc.inel
    let n2nS := scat MNuc.n2nS
    let tot := totalScatter el inel n2nS
    some ⟨basics, nuSigF, total, transport, absorp, el, inel, n2nS, tot, removal ng absorp (basics.getD 6 []) tot⟩
  | _, _, _, _ => none

/-! ### file-wide chi (`NuclideXSMetadata._getSkippedKeys`) -/

/-- further reserved ids (the harness interns these strings / numbers to these ids) -/
def keyFwChiFlag : Key := 2
def keyFisFlag : Key := 3
def keyChiFlag : Key := 4
/-- the number 0 -/
def valZero : Val := 1
/-- the number 1 -/
def valOne : Val := 2

/-- `d[k] = v` on a metadata dict -/
def Meta.set : Meta → Key → Val → Meta
  | [], k, v => [(k, v)]
  | (k', v') :: m, k, v => if k' = k then (k', v) :: m else (k', v') :: Meta.set m k v

/-- `if (nuc.isotxsMetadata["fisFlag"] or 0) > 0: nuc.isotxsMetadata["chiFlag"] = 1`
(modelled domain: fisFlag is absent, 0 or 1) -/
def Nuc.chiRewrite (n : Nuc) : Nuc :=
  if Meta.get n.iso keyFisFlag = some valOne then { n with iso := Meta.set n.iso keyChiFlag valOne } else n

/-- `for nuc in selfContainer.nuclides + otherContainer.nuclides: ...` on one of the two libraries -/
def Nucs.chiRewrite (ns : Nucs) : Nucs := ns.map (fun p => (p.1, p.2.chiRewrite))

/-- the metadata merge gets as far as `_getSkippedKeys` (both sides non-empty) with a file-wide chi on a side -/
def FileMeta.dropsChi (a b : FileMeta) : Bool :=
  !(a.data.isEmpty || b.data.isEmpty) && ((Meta.get a.data keyChi).isSome || (Meta.get b.data keyChi).isSome)

/-- `_Metadata.merge` as specialised by `NuclideXSMetadata`, file-wide chi included: when either side has one,
`mergedData["fileWideChiFlag"] = 0`, `mergedData["chi"] = None` and `fileWideChiFlag` joins the skipped keys. -/
def FileMeta.mergeChi (a b : FileMeta) : Option FileMeta :=
  if a.data.isEmpty || b.data.isEmpty then
    some ⟨Meta.update a.data b.data, a.files ++ b.files⟩
  else
    let drop := (Meta.get a.data keyChi).isSome || (Meta.get b.data keyChi).isSome
    let skip := if drop then keyFwChiFlag :: libSkip else libSkip
    if Meta.agree skip a.data b.data then
      let ll := orVal (Meta.get a.data keyLibraryLabel) (Meta.get b.data keyLibraryLabel)
      some ⟨(match ll with | some v => [(keyLibraryLabel, v)] | none => [])
              ++ (if drop then [(keyFwChiFlag, valZero)] else [])
              ++ a.data.filter (fun p => !skip.contains p.1), a.files ++ b.files⟩
    else none

/-- the chiFlag rewrite of one of the two libraries, performed iff this metadata merge drops a chi -/
def condRewrite (c : Bool) (ns : Nucs) : Nucs := if c then ns.chiRewrite else ns

/-- `_mergeNuclides`, then (only on success) the metadata assignment -/
def Lib.finishMerge (t1 : Lib) (mi mp mg : FileMeta) (tn on : Nucs) : Bool × Lib :=
  let rn := mergeNucs tn on
  if rn.1 then (true, { t1 with nucs := rn.2, isoMeta := mi, pmMeta := mp, gamMeta := mg })
  else (false, { t1 with nucs := rn.2 })

/-- third metadata merge (GAMISO) -/
def Lib.mergeChi3 (t1 o : Lib) (mi mp : FileMeta) (tn on : Nucs) : Bool × Lib :=
  let d := FileMeta.dropsChi t1.gamMeta o.gamMeta
  match FileMeta.mergeChi t1.gamMeta o.gamMeta with
  | none => (false, { t1 with nucs := condRewrite d tn })
  | some mg => Lib.finishMerge t1 mi mp mg (condRewrite d tn) (condRewrite d on)

/-- second metadata merge (PMATRX) -/
def Lib.mergeChi2 (t1 o : Lib) (mi : FileMeta) (tn on : Nucs) : Bool × Lib :=
  let d := FileMeta.dropsChi t1.pmMeta o.pmMeta
  match FileMeta.mergeChi t1.pmMeta o.pmMeta with
  | none => (false, { t1 with nucs := condRewrite d tn })
  | some mp => Lib.mergeChi3 t1 o mi mp (condRewrite d tn) (condRewrite d on)

/-- first metadata merge (ISOTXS); `t1` = the target after `_mergeProperties` -/
def Lib.mergeChi1 (t1 o : Lib) : Bool × Lib :=
  let d := FileMeta.dropsChi t1.isoMeta o.isoMeta
  match FileMeta.mergeChi t1.isoMeta o.isoMeta with
  | none => (false, { t1 with nucs := condRewrite d t1.nucs })
  | some mi => Lib.mergeChi2 t1 o mi (condRewrite d t1.nucs) (condRewrite d o.nucs)

/-- `IsotxsLibrary.merge` with the file-wide-chi side effect: each of the three metadata merges that drops a chi first
rewrites the chiFlag of every fissile nuclide of BOTH libraries (`_getSkippedKeys`), then compares (and may raise);
the nuclides are merged afterwards. -/
def Lib.mergeChi (t o : Lib) : Bool × Lib :=
  let r := Lib.mergeProperties t o
  if !r.1 then (false, r.2) else Lib.mergeChi1 r.2 o

/-- `mergeAll` with file-wide chi -/
def mergeAllChi (t : Lib) : List Lib → List Bool × Lib
  | [] => ([], t)
  | o :: os =>
    let r := Lib.mergeChi t o
    let s := mergeAllChi r.2 os
    (r.1 :: s.1, s.2)

/-- domain of the chi rewrite: every fisFlag is absent, 0 or 1 -/
def Lib.fisDomain (l : Lib) : Bool :=
  l.nucs.all (fun p => match Meta.get p.2.iso keyFisFlag with
    | none => true
    | some v => v = valZero || v = valOne)

/-! ### the domain of the merge theorems as an executable check -/

/-- non-empty library metadata hold at least one ordinary key (not only chi / libraryLabel) -/
def FileMeta.goodB (a : FileMeta) : Bool := a.data.isEmpty || a.data.any (fun p => !libSkip.contains p.1)

/-- `Lib.WF` of Props/C10.lean, decidable: metadata good, labels unique, five production attributes per nuclide -/
def Lib.WFB (l : Lib) : Bool :=
  l.isoMeta.goodB && l.pmMeta.goodB && l.gamMeta.goodB && decide ((l.nucs.map Prod.fst).Nodup) &&
    l.nucs.all (fun p => p.2.attrs.length == 5)

/-! ### the merge with rollback (notes/candidate-fixes-C10/atomic-merge-rollback.diff) -/

/-- `IsotxsLibrary.merge` with `_rememberStateForRollback`: on any exception the target is restored before the
exception is passed on -/
def Lib.mergeAtomic (t o : Lib) : Bool × Lib :=
  let r := Lib.mergeChi t o
  if r.1 then r else (false, t)

def mergeAllAtomic (t : Lib) : List Lib → List Bool × Lib
  | [] => ([], t)
  | o :: os =>
    let r := Lib.mergeAtomic t o
    let s := mergeAllAtomic r.2 os
    (r.1 :: s.1, s.2)

def mergeSeqAtomic (t : Lib) : List Lib → Nat × Bool × Lib
  | [] => (0, true, t)
  | o :: os =>
    let r := Lib.mergeAtomic t o
    if r.1 then let s := mergeSeqAtomic r.2 os; (s.1 + 1, s.2) else (0, false, r.2)

end ArmiVerif.XsLib
