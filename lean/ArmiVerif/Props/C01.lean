/-
C01 — the composite model tree stays a well-formed tree under any edit history.
Model: ArmiVerif/Model/Tree.lean (arena with SEPARATE back-pointer and child list).
-/
import ArmiVerif.Model.Tree

namespace ArmiVerif.Tree

/-- Well-formedness: (a) a listed child's parent is the lister, (b) an object's parent lists it,
(c) no child is listed twice.  ((a) gives "at most one lister".) -/
structure Inv (s : St) : Prop where
  listed_parent : ∀ p c, c ∈ s.kids p → s.parent c = some p
  parent_lists : ∀ c p, s.parent c = some p → c ∈ s.kids p
  nodup : ∀ p, (s.kids p).Nodup

/-- `a` is `x` or an ancestor of `x` (parent chain) -/
inductive Anc (s : St) (a : Nat) : Nat → Prop where
  | refl : Anc s a a
  | step {x q : Nat} : s.parent x = some q → Anc s a q → Anc s a x

/-- The parent relation is well-founded: a depth function strictly increases from parent to child. -/
def Acyclic (s : St) : Prop := ∃ d : Nat → Nat, ∀ c p, s.parent c = some p → d p < d c

/-! ### generic lemmas -/

private theorem inv_congr {s t : St} (hp : t.parent = s.parent) (hk : t.kids = s.kids) (h : Inv s) : Inv t :=
  ⟨by rw [hp, hk]; exact h.1, by rw [hp, hk]; exact h.2, by rw [hk]; exact h.3⟩

private theorem acyclic_congr {s t : St} (hp : t.parent = s.parent) (h : Acyclic s) : Acyclic t := by
  obtain ⟨d, hd⟩ := h; exact ⟨d, by rw [hp]; exact hd⟩

/-- permuting child lists keeps the invariant -/
private theorem inv_perm {s t : St} (hp : t.parent = s.parent) (hk : ∀ p, (t.kids p).Perm (s.kids p))
    (h : Inv s) : Inv t := by
  refine ⟨?_, ?_, ?_⟩
  · intro p c hc; rw [hp]; exact h.1 p c ((hk p).mem_iff.mp hc)
  · intro c p hc; rw [hp] at hc; exact (hk p).mem_iff.mpr (h.2 c p hc)
  · intro p; exact (hk p).nodup_iff.mpr (h.3 p)

/-! ### Composite.add / insert -/

/-- attaching a parentless object with any list that is the old list plus the new child -/
private theorem inv_attach (s : St) (p c : Nat) (l : List Nat) (h : Inv s) (hc : s.parent c = none)
    (hl : ∀ x, x ∈ l ↔ (x ∈ s.kids p ∨ x = c)) (hn : l.Nodup) :
    Inv (setKids (setParent s c (some p)) p l) := by
  obtain ⟨h1, h2, h3⟩ := h
  have hnot : ∀ q, c ∉ s.kids q := by
    intro q hq; have := h1 q c hq; simp [hc] at this
  refine ⟨?_, ?_, ?_⟩
  · intro q x hx
    simp only [setKids, setParent] at hx ⊢
    by_cases hq : q = p
    · subst hq; simp at hx
      rcases (hl x).mp hx with hx | hx
      · by_cases hxc : x = c
        · subst hxc; simp
        · simp [hxc, h1 q x hx]
      · subst hx; simp
    · simp [hq] at hx
      by_cases hxc : x = c
      · subst hxc; exact absurd hx (hnot q)
      · simp [hxc, h1 q x hx]
  · intro x q hx
    simp only [setKids, setParent] at hx ⊢
    by_cases hxc : x = c
    · subst hxc; simp at hx; subst hx; simp; exact (hl x).mpr (Or.inr rfl)
    · simp [hxc] at hx
      have := h2 x q hx
      by_cases hq : q = p
      · subst hq; simp; exact (hl x).mpr (Or.inl this)
      · simp [hq, this]
  · intro q
    simp only [setKids, setParent]
    by_cases hq : q = p
    · subst hq; simpa using hn
    · simp [hq, h3 q]

private theorem acyclic_attach (s : St) (p c : Nat) (l : List Nat) (_h : Inv s) (ha : Acyclic s)
    (hc : s.parent c = none) (hcyc : ¬ Anc s c p) :
    Acyclic (setKids (setParent s c (some p)) p l) := by
  obtain ⟨d, hd⟩ := ha
  classical
  refine ⟨fun x => if Anc s c x then d x + d p + 1 else d x, ?_⟩
  intro x q hx
  simp only [setKids, setParent] at hx
  by_cases hxc : x = c
  · subst hxc
    simp at hx; subst hx
    simp [hcyc, Anc.refl]; omega
  · simp [hxc] at hx
    have hdx := hd x q hx
    by_cases hq : Anc s c q
    · have hxa : Anc s c x := Anc.step hx hq
      simp [hq, hxa]; omega
    · by_cases hxa : Anc s c x
      · -- x below c but its parent is not: only x = c
        cases hxa with
        | refl => exact absurd rfl hxc
        | step hp' hq' => rw [hx] at hp'; cases hp'; exact absurd hq' hq
      · simp [hq, hxa]; omega

theorem cAdd_inv (s : St) (p c : Nat) (h : Inv s) (hc : s.parent c = none) : Inv (cAdd s p c).1 := by
  unfold cAdd
  have hnot : c ∉ s.kids p := by
    intro hq; have := h.1 p c hq; simp [hc] at this
  simp only [hnot, if_false]
  apply inv_attach s p c _ h hc
  · intro x; simp
  · rw [List.nodup_append]
    refine ⟨h.3 p, by simp, ?_⟩
    intro a ha b hb; simp at hb; subst hb; intro hab; subst hab; exact hnot ha

private theorem listInsert_mem (l : List Nat) (i : Int) (c x : Nat) :
    x ∈ listInsert l i c ↔ (x ∈ l ∨ x = c) := by
  unfold listInsert
  generalize pyInsertIdx l.length i = k
  constructor
  · intro hx
    simp only [List.mem_append, List.mem_cons] at hx
    rcases hx with hx | hx | hx
    · exact Or.inl (List.mem_of_mem_take hx)
    · exact Or.inr hx
    · exact Or.inl (List.mem_of_mem_drop hx)
  · intro hx
    rcases hx with hx | hx
    · have : x ∈ l.take k ++ l.drop k := by rw [List.take_append_drop]; exact hx
      simp only [List.mem_append, List.mem_cons] at this ⊢
      rcases this with h | h
      · exact Or.inl h
      · exact Or.inr (Or.inr h)
    · simp [hx]

private theorem listInsert_nodup (l : List Nat) (i : Int) (c : Nat) (hl : l.Nodup) (hc : c ∉ l) :
    (listInsert l i c).Nodup := by
  unfold listInsert
  generalize pyInsertIdx l.length i = k
  have hperm : (l.take k ++ c :: l.drop k).Perm (c :: (l.take k ++ l.drop k)) := List.perm_middle
  rw [hperm.nodup_iff, List.take_append_drop]
  exact List.nodup_cons.mpr ⟨hc, hl⟩

theorem cInsert_inv (s : St) (p : Nat) (i : Int) (c : Nat) (h : Inv s) (hc : s.parent c = none) :
    Inv (cInsert s p i c).1 := by
  unfold cInsert
  have hnot : c ∉ s.kids p := by
    intro hq; have := h.1 p c hq; simp [hc] at this
  simp only [hnot, if_false]
  exact inv_attach s p c _ h hc (listInsert_mem _ i c) (listInsert_nodup _ i c (h.3 p) hnot)

/-! ### Composite.remove -/

theorem cRemove_inv (s : St) (p c : Nat) (h : Inv s) (hc : c ∈ s.kids p) : Inv (cRemove s p c).1 := by
  obtain ⟨h1, h2, h3⟩ := h
  have hpc := h1 p c hc
  unfold cRemove
  simp only [hc, if_true]
  refine ⟨?_, ?_, ?_⟩
  · intro q x hx
    simp only [setKids, setLoc, setParent] at hx ⊢
    by_cases hq : q = p
    · subst hq; simp at hx
      have hx' : x ∈ s.kids q := List.mem_of_mem_erase hx
      have hne : x ≠ c := by
        intro e; subst e; exact (List.Nodup.not_mem_erase (h3 q)) hx
      simp [hne, h1 q x hx']
    · simp [hq] at hx
      have := h1 q x hx
      have hne : x ≠ c := by
        intro e; subst e; rw [hpc] at this; simp at this; exact hq this.symm
      simp [hne, this]
  · intro x q hx
    simp only [setKids, setLoc, setParent] at hx ⊢
    by_cases hxc : x = c
    · subst hxc; simp at hx
    · simp [hxc] at hx
      have := h2 x q hx
      by_cases hq : q = p
      · subst hq; simp; exact (List.mem_erase_of_ne hxc).mpr this
      · simp [hq, this]
  · intro q
    simp only [setKids, setLoc, setParent]
    by_cases hq : q = p
    · subst hq; simp; exact List.Nodup.erase _ (h3 q)
    · simp [hq, h3 q]

/-- **An object taken out of the model has no parent, a detached location and is not listed.** -/
theorem remove_detaches (s : St) (p c : Nat) (h : Inv s) (hc : c ∈ s.kids p) :
    (remove s p c).2 = true ∧ (remove s p c).1.parent c = none ∧ (remove s p c).1.loc c = none ∧
      c ∉ (remove s p c).1.kids p ∧ ∀ q, c ∉ (remove s p c).1.kids q := by
  have hi := cRemove_inv s p c h hc
  have hpar : (cRemove s p c).1.parent c = none := by
    unfold cRemove; simp [hc, setKids, setLoc, setParent]
  have hall : ∀ q, c ∉ (cRemove s p c).1.kids q := by
    intro q hq; have := hi.1 q c hq; rw [hpar] at this; cases this
  refine ⟨?_, hpar, ?_, hall p, hall⟩
  · unfold remove cRemove; simp [hc]
  · unfold remove cRemove; simp [hc, setKids, setLoc, setParent]



private theorem inv_of_eq {s t : St} (hp : t.parent = s.parent) (hk : t.kids = s.kids) (h : Inv s) : Inv t :=
  ⟨by rw [hp, hk]; exact h.1, by rw [hp, hk]; exact h.2, by rw [hk]; exact h.3⟩

private theorem acyclic_of_eq {s t : St} (hp : t.parent = s.parent) (h : Acyclic s) : Acyclic t := by
  obtain ⟨d, hd⟩ := h; exact ⟨d, by rw [hp]; exact hd⟩

/-! ### class-dispatched add / insert -/
theorem add_inv (s : St) (p c : Nat) (h : Inv s) (hc : s.parent c = none) : Inv (add s p c).1 := by
  have hi := cAdd_inv s p c h hc
  have hnot : c ∉ s.kids p := by intro hq; have := h.1 p c hq; simp [hc] at this
  unfold add
  by_cases h1 : s.kind p = kAssembly
  · simp only [h1, if_true]
    by_cases h2 : s.kind c ≠ kBlock
    · rw [if_pos h2]; exact h
    · rw [if_neg h2]
      have hok : (cAdd s p c).2 = true := by simp [cAdd, hnot]
      simp only [hok, if_true]
      exact inv_of_eq (s := (cAdd s p c).1) rfl rfl hi
  · simp only [h1, if_false]
    by_cases h3 : s.kind p = kCore
    · simp only [h3, if_true]
      have hok : (cAdd s p c).2 = true := by simp [cAdd, hnot]
      simp only [hok, if_true]
      exact inv_of_eq (s := (cAdd s p c).1) rfl rfl hi
    · simp only [h3, if_false]; exact hi

theorem insert_inv (s : St) (p : Nat) (i : Int) (c : Nat) (h : Inv s) (hc : s.parent c = none) :
    Inv (insert s p i c).1 := by
  have hi := cInsert_inv s p i c h hc
  have hnot : c ∉ s.kids p := by intro hq; have := h.1 p c hq; simp [hc] at this
  unfold insert
  by_cases h1 : s.kind p = kAssembly
  · simp only [h1, if_true]
    by_cases h2 : s.kind c ≠ kBlock
    · rw [if_pos h2]; exact h
    · rw [if_neg h2]
      have hok : (cInsert s p i c).2 = true := by simp [cInsert, hnot]
      simp only [hok, if_true]
      exact inv_of_eq (s := (cInsert s p i c).1) rfl rfl hi
  · simp only [h1, if_false]; exact hi

/-! ### removeAll / setChildren -/
private theorem cRemove_parent_other (s : St) (p c x : Nat) (hx : x ≠ c) : (cRemove s p c).1.parent x = s.parent x := by
  unfold cRemove; split <;> simp [setKids, setLoc, setParent, hx]

private theorem cRemove_kids (s : St) (p c : Nat) (hc : c ∈ s.kids p) (q : Nat) :
    (cRemove s p c).1.kids q = if q = p then (s.kids p).erase c else s.kids q := by
  unfold cRemove; simp [hc, setKids, setLoc, setParent]

/-- removing the listed children one by one (any duplicate-free sub-list of the child list) -/
private theorem seqRemove_inv (p : Nat) : ∀ (l : List Nat) (s : St), Inv s → l.Nodup → (∀ c ∈ l, c ∈ s.kids p) →
    Inv (seqOps (fun t c => remove t p c) s l).1 ∧ (seqOps (fun t c => remove t p c) s l).2 = true ∧
    (∀ q, q ≠ p → (seqOps (fun t c => remove t p c) s l).1.kids q = s.kids q) ∧
    (∀ x, x ∈ (seqOps (fun t c => remove t p c) s l).1.kids p ↔ (x ∈ s.kids p ∧ x ∉ l)) ∧
    (∀ x, x ∉ l → (seqOps (fun t c => remove t p c) s l).1.parent x = s.parent x) ∧
    (∀ x, x ∈ l → (seqOps (fun t c => remove t p c) s l).1.parent x = none) := by
  intro l
  induction l with
  | nil => intro s h _ _; simp [seqOps]; exact h
  | cons c rest ih =>
    intro s h hnd hall
    have hc : c ∈ s.kids p := hall c (by simp)
    have hnd' := List.nodup_cons.mp hnd
    have hi := cRemove_inv s p c h hc
    have hk := cRemove_kids s p c hc
    have hrest : ∀ x ∈ rest, x ∈ (cRemove s p c).1.kids p := by
      intro x hx
      rw [hk p]; simp
      have hne : x ≠ c := by intro e; subst e; exact hnd'.1 hx
      exact (List.mem_erase_of_ne hne).mpr (hall x (by simp [hx]))
    have hok : (cRemove s p c).2 = true := by unfold cRemove; simp [hc]
    have step : seqOps (fun t c => remove t p c) s (c :: rest) =
        seqOps (fun t c => remove t p c) (cRemove s p c).1 rest := by
      have e : cRemove s p c = ((cRemove s p c).1, true) := Prod.ext rfl hok
      simp only [seqOps, List.foldl_cons, remove, if_true]
      rw [← e]
    rw [step]
    obtain ⟨i1, i2, i3, i4, i5, i6⟩ := ih (cRemove s p c).1 hi hnd'.2 hrest
    refine ⟨i1, i2, ?_, ?_, ?_, ?_⟩
    · intro q hq; rw [i3 q hq, hk q]; simp [hq]
    · intro x; rw [i4 x, hk p]; simp
      constructor
      · rintro ⟨hx, hxr⟩
        have hne : x ≠ c := by
          intro e; subst e; exact (List.Nodup.not_mem_erase (h.3 p)) hx
        exact ⟨List.mem_of_mem_erase hx, hne, hxr⟩
      · rintro ⟨hx, hne, hxr⟩
        exact ⟨(List.mem_erase_of_ne hne).mpr hx, hxr⟩
    · intro x hx
      simp at hx
      rw [i5 x hx.2, cRemove_parent_other s p c x hx.1]
    · intro x hx
      simp at hx
      rcases hx with hx | hx
      · subst hx
        by_cases hxr : x ∈ rest
        · exact i6 x hxr
        · rw [i5 x hxr]; unfold cRemove; simp [hc, setKids, setLoc, setParent]
      · exact i6 x hx

/-- **`removeAll` keeps the tree well formed and leaves the former children parentless** (no precondition) -/
theorem removeAll_inv (s : St) (p : Nat) (h : Inv s) :
    Inv (removeAll s p).1 ∧ (removeAll s p).2 = true ∧ (removeAll s p).1.kids p = [] ∧
    (∀ x ∈ s.kids p, (removeAll s p).1.parent x = none) ∧
    (∀ x, x ∉ s.kids p → (removeAll s p).1.parent x = s.parent x) := by
  obtain ⟨i1, i2, _, i4, i5, i6⟩ := seqRemove_inv p (s.kids p) s h (h.3 p) (fun c hc => hc)
  refine ⟨i1, i2, ?_, fun x hx => i6 x hx, i5⟩
  apply List.eq_nil_iff_forall_not_mem.mpr
  intro x hx
  have := (i4 x).mp hx
  exact this.2 this.1

theorem add_ok (s : St) (p c : Nat) (h : Inv s) (hc : s.parent c = none) (hk : s.kind p = kAssembly → s.kind c = kBlock) :
    (add s p c).2 = true := by
  have hnot : c ∉ s.kids p := by intro hq; have := h.1 p c hq; simp [hc] at this
  have hok : (cAdd s p c).2 = true := by simp [cAdd, hnot]
  unfold add
  by_cases h1 : s.kind p = kAssembly
  · simp [h1, hk h1, hok]
  · by_cases h3 : s.kind p = kCore
    · rw [if_neg h1, if_pos h3]; simp [hok]
    · rw [if_neg h1, if_neg h3]; exact hok

private theorem add_parent_other (s : St) (p c x : Nat) (hx : x ≠ c) : (add s p c).1.parent x = s.parent x := by
  unfold add cAdd reestablish
  repeat' split
  all_goals simp_all [setKids, setLoc, setParent]

private theorem add_kind (s : St) (p c x : Nat) : (add s p c).1.kind x = s.kind x := by
  unfold add cAdd reestablish
  repeat' split
  all_goals simp_all [setKids, setLoc, setParent]

/-- adding a duplicate-free list of parentless objects one by one -/
private theorem seqAdd_inv (p : Nat) : ∀ (l : List Nat) (s : St), Inv s → l.Nodup → (∀ c ∈ l, s.parent c = none) →
    Inv (seqOps (fun t c => add t p c) s l).1 := by
  intro l
  induction l with
  | nil => intro s h _ _; simpa [seqOps] using h
  | cons c rest ih =>
    intro s h hnd hall
    have hnd' := List.nodup_cons.mp hnd
    have hi := add_inv s p c h (hall c (by simp))
    simp only [seqOps, List.foldl_cons, if_true]
    by_cases hok : (add s p c).2 = true
    · have e : add s p c = ((add s p c).1, true) := Prod.ext rfl hok
      rw [e]
      apply ih _ hi hnd'.2
      intro x hx
      have hne : x ≠ c := by intro e; subst e; exact hnd'.1 hx
      rw [add_parent_other s p c x hne]; exact hall x (by simp [hx])
    · -- the loop stops at the first refusal; nothing more changes
      have hfalse : (add s p c).2 = false := by simpa using hok
      have e : add s p c = ((add s p c).1, false) := Prod.ext rfl hfalse
      rw [e]
      have stop : ∀ (l : List Nat) (t : St), (l.foldl (fun acc c => if acc.2 = true then add acc.1 p c else acc) (t, false)) = (t, false) := by
        intro l; induction l with
        | nil => intro t; rfl
        | cons a l ih2 => intro t; simp [List.foldl_cons, ih2]
      rw [stop]; exact hi

/-- **`setChildren` keeps the tree well formed** when the new children are distinct and each is
parentless or already a child of the same parent. -/
theorem setChildren_inv (s : St) (p : Nat) (items : List Nat) (h : Inv s) (hnd : items.Nodup)
    (hit : ∀ c ∈ items, s.parent c = none ∨ s.parent c = some p) : Inv (setChildren s p items).1 := by
  obtain ⟨i1, i2, _, i4, i5⟩ := removeAll_inv s p h
  unfold setChildren
  simp only [i2, if_true]
  apply seqAdd_inv p items _ i1 hnd
  intro c hc
  by_cases hk : c ∈ s.kids p
  · exact i4 c hk
  · rw [i5 c hk]
    rcases hit c hc with h0 | h1
    · exact h0
    · exact absurd (h.2 c p h1) hk



/-! ### sort / reestablishBlockOrder / moveTo: child lists are permuted, parents untouched -/

private theorem insSorted_perm (rank : Nat → Nat) (x : Nat) : ∀ l, (insSorted rank x l).Perm (x :: l)
  | [] => List.Perm.refl _
  | y :: ys => by
    unfold insSorted
    split
    · exact ((insSorted_perm rank x ys).cons y).trans (List.Perm.swap x y ys)
    · exact List.Perm.refl _

private theorem stableSort_perm (rank : Nat → Nat) : ∀ l, (stableSort rank l).Perm l
  | [] => List.Perm.refl _
  | x :: xs => by
    show (insSorted rank x (stableSort rank xs)).Perm (x :: xs)
    exact (insSorted_perm rank x _).trans ((stableSort_perm rank xs).cons x)

/-- what `Composite.sort` may do: parents untouched, every child list permuted -/
def SamePerm (s t : St) : Prop := t.parent = s.parent ∧ ∀ q, (t.kids q).Perm (s.kids q)

private theorem SamePerm.refl (s : St) : SamePerm s s := ⟨rfl, fun _ => List.Perm.refl _⟩
private theorem SamePerm.trans {a b c : St} (h1 : SamePerm a b) (h2 : SamePerm b c) : SamePerm a c :=
  ⟨h2.1.trans h1.1, fun q => (h2.2 q).trans (h1.2 q)⟩

private theorem foldl_samePerm (f : St → Nat → St) (hf : ∀ t c, SamePerm t (f t c)) :
    ∀ (l : List Nat) (s : St), SamePerm s (l.foldl f s)
  | [], s => SamePerm.refl s
  | c :: rest, s => (hf s c).trans (foldl_samePerm f hf rest (f s c))

theorem sortRec_samePerm (rank : Nat → Nat) : ∀ (fuel : Nat) (s : St) (p : Nat), SamePerm s (sortRec rank fuel s p)
  | 0, s, _ => SamePerm.refl s
  | f + 1, s, p => by
    unfold sortRec
    have h1 : SamePerm s (setKids s p (stableSort rank (s.kids p))) := by
      refine ⟨rfl, fun q => ?_⟩
      simp only [setKids]
      by_cases hq : q = p
      · subst hq; simpa using stableSort_perm rank _
      · simp [hq]
    exact h1.trans (foldl_samePerm _ (fun t c => sortRec_samePerm rank f t c) _ _)

theorem inv_samePerm {s t : St} (hp : SamePerm s t) (h : Inv s) : Inv t := by
  refine ⟨?_, ?_, ?_⟩
  · intro p c hc; rw [hp.1]; exact h.1 p c ((hp.2 p).mem_iff.mp hc)
  · intro c p hc; rw [hp.1] at hc; exact (hp.2 p).mem_iff.mpr (h.2 c p hc)
  · intro p; exact (hp.2 p).nodup_iff.mpr (h.3 p)

/-- **`sort` (recursive, any comparator ranks) keeps the tree well formed.** -/
theorem sort_inv (rank : Nat → Nat) (fuel : Nat) (s : St) (p : Nat) (h : Inv s) : Inv (sortRec rank fuel s p) :=
  inv_samePerm (sortRec_samePerm rank fuel s p) h

/-! ### traversals -/

/-- **predicate filter spec**: `_iterChildren` with a predicate = the unfiltered traversal, filtered -/
theorem iterC_pred_spec (s : St) (chk : Nat → Bool) :
    ∀ (fuel : Nat) (deep : Bool) (g : Int) (n : Nat),
      iterC s fuel deep g chk n = (iterC s fuel deep g (fun _ => true) n).filter chk
  | 0, _, _, _ => by simp [iterC]
  | f + 1, deep, g, n => by
    unfold iterC
    have ih := fun c => iterC_pred_spec s chk f deep (g - 1) c
    simp only [List.filter_append]
    congr 1
    · split <;> simp
    · split
      · rw [List.filter_flatMap]
        congr 1; funext c; exact ih c
      · simp

/-- the naive walk: objects at depth exactly `k` below `n`, left to right -/
def level (s : St) : Nat → Nat → List Nat
  | 0, n => [n]
  | k + 1, n => (s.kids n).flatMap (level s k)

/-- **generation spec**: `getChildren(generationNum = k)` (k ≥ 1, enough fuel) returns exactly the
depth-`k` objects in left-to-right order; for `k ≤ 0` nothing. -/
theorem iterC_gen_spec (s : St) : ∀ (k fuel : Nat) (n : Nat), k < fuel →
    iterC s fuel false ((k : Int) + 1) (fun _ => true) n = level s (k + 1) n
  | 0, f + 1, n, _ => by
    unfold iterC level
    simp [level]
  | k + 1, f + 1, n, hk => by
    unfold iterC
    have h1 : ((↑(k + 1) : Int) + 1 == 1) = false := by
      apply beq_false_of_ne; omega
    have h2 : decide ((↑(k + 1) : Int) + 1 > 1) = true := by
      apply decide_eq_true; omega
    simp only [Bool.false_or, h1, h2, if_true]
    show (s.kids n).flatMap _ = (s.kids n).flatMap (level s (k + 1))
    congr 1; funext c
    have : ((↑(k + 1) : Int) + 1 - 1) = (k : Int) + 1 := by omega
    rw [this]
    exact iterC_gen_spec s k f c (by omega)

theorem iterC_gen_nonpos (s : St) (fuel : Nat) (g : Int) (hg : g ≤ 0) (chk : Nat → Bool) (n : Nat) :
    iterC s fuel false g chk n = [] := by
  cases fuel with
  | zero => rfl
  | succ f =>
    unfold iterC
    have h1 : (g == 1) = false := by apply beq_false_of_ne; omega
    have h2 : decide (g > 1) = false := by apply decide_eq_false; omega
    simp [h1, h2]

/-- **deep traversal = the naive walk**: children first, then each child's walk, in child order;
and it is the concatenation of the generations 1, 2, … restricted to each child's subtree. -/
private theorem iterC_deep_unfold (s : St) (f : Nat) (g : Int) (chk : Nat → Bool) (n : Nat) :
    iterC s (f + 1) true g chk n =
      (s.kids n).filter chk ++ (s.kids n).flatMap (fun c => iterC s f true (g - 1) chk c) := by
  simp [iterC]

/-- strict descendants -/
inductive Desc (s : St) : Nat → Nat → Prop where
  | child {n c : Nat} : c ∈ s.kids n → Desc s n c
  | step {n c m : Nat} : c ∈ s.kids n → Desc s c m → Desc s n m

/-- **membership (soundness)**: everything a deep traversal returns is a strict descendant -/
theorem iterC_deep_sound (s : St) : ∀ (fuel : Nat) (g : Int) (n m : Nat),
    m ∈ iterC s fuel true g (fun _ => true) n → Desc s n m
  | 0, _, _, _, h => by simp [iterC] at h
  | f + 1, g, n, m, h => by
    rw [iterC_deep_unfold] at h
    simp only [List.mem_append, List.mem_filter, List.mem_flatMap] at h
    rcases h with ⟨h, _⟩ | ⟨c, hc, hm⟩
    · exact Desc.child h
    · exact Desc.step hc (iterC_deep_sound s f (g - 1) c m hm)

/-- depth-bounded descendants -/
inductive DescN (s : St) : Nat → Nat → Nat → Prop where
  | child {n c : Nat} : c ∈ s.kids n → DescN s 1 n c
  | step {k n c m : Nat} : c ∈ s.kids n → DescN s k c m → DescN s (k + 1) n m

/-- **membership (completeness)**: a descendant at depth `k` is returned as soon as the fuel exceeds `k`
(the driver uses fuel = number of objects + 1, an upper bound for any depth in an acyclic tree). -/
theorem iterC_deep_complete (s : St) : ∀ (k fuel : Nat) (g : Int) (n m : Nat), DescN s k n m → k ≤ fuel →
    m ∈ iterC s fuel true g (fun _ => true) n := by
  intro k
  induction k with
  | zero => intro fuel g n m h; cases h
  | succ k ih =>
    intro fuel g n m h hk
    cases fuel with
    | zero => omega
    | succ f =>
      rw [iterC_deep_unfold]
      simp only [List.mem_append, List.mem_filter, List.mem_flatMap]
      cases h with
      | child hc => exact Or.inl ⟨hc, trivial⟩
      | step hc hd => exact Or.inr ⟨_, hc, ih f (g - 1) _ m hd (by omega)⟩

/-- **ancestor spec**: the answer of `getAncestorAndDistance` satisfies the predicate, lies on the
parent chain at the reported distance, and nothing nearer on the chain satisfies it. -/
def parentIter (s : St) : Nat → Nat → Option Nat
  | 0, n => some n
  | k + 1, n => match s.parent n with
    | none => none
    | some p => parentIter s k p

theorem getAncestor_spec (s : St) (fn : Nat → Bool) : ∀ (fuel n d : Nat) (a e : Nat),
    getAncestor s fuel fn n d = some (a, e) →
      d ≤ e ∧ fn a = true ∧ parentIter s (e - d) n = some a ∧
      ∀ j, j < e - d → ∀ x, parentIter s j n = some x → fn x = false
  | 0, _, _, _, _, h => by simp [getAncestor] at h
  | f + 1, n, d, a, e, h => by
    unfold getAncestor at h
    by_cases hf : fn n = true
    · simp [hf] at h
      obtain ⟨rfl, rfl⟩ := h
      refine ⟨Nat.le_refl _, hf, by simp [parentIter], ?_⟩
      intro j hj; omega
    · simp [hf] at h
      cases hp : s.parent n with
      | none => simp [hp] at h
      | some p =>
        simp [hp] at h
        obtain ⟨h1, h2, h3, h4⟩ := getAncestor_spec s fn f p (d + 1) a e h
        have he : e - d = (e - (d + 1)) + 1 := by omega
        refine ⟨by omega, h2, ?_, ?_⟩
        · rw [he]; simp [parentIter, hp, h3]
        · intro j hj x hx
          cases j with
          | zero => simp [parentIter] at hx; subst hx; simpa using hf
          | succ j =>
            simp [parentIter, hp] at hx
            exact h4 j (by omega) x hx

/-- `none` only if nothing on the chain (within the fuel) satisfies the predicate -/
theorem getAncestor_none (s : St) (fn : Nat → Bool) : ∀ (fuel n d : Nat),
    getAncestor s fuel fn n d = none → ∀ j, j < fuel → ∀ x, parentIter s j n = some x → fn x = false
  | 0, _, _, _, j, hj, _, _ => by omega
  | f + 1, n, d, h, j, hj, x, hx => by
    unfold getAncestor at h
    by_cases hf : fn n = true
    · simp [hf] at h
    · simp [hf] at h
      cases j with
      | zero => simp [parentIter] at hx; subst hx; simpa using hf
      | succ j =>
        cases hp : s.parent n with
        | none => simp [parentIter, hp] at hx
        | some p =>
          simp [parentIter, hp] at hx
          simp [hp] at h
          exact getAncestor_none s fn f p (d + 1) h j (by omega) x hx


/-! ### every reachable state: `inv_step`, `inv_run` -/

/-- the explicit, decidable-in-the-model preconditions ("valid use").  `copy` (pickle/deepcopy) is not in
the alphabet of `inv_run`: its clauses are carried by the correspondence check. -/
def Pre (s : St) : Op → Prop
  | .new _ _ _ _ => s.parent s.next = none ∧ s.kids s.next = []
  | .add _ c => s.parent c = none
  | .insert _ _ c => s.parent c = none
  | .remove p c => c ∈ s.kids p
  | .removeAll _ => True
  | .setChildren p items => items.Nodup ∧ ∀ c ∈ items, s.parent c = none ∨ s.parent c = some p
  | .sort _ _ => True
  | .reestablish _ => True
  | .moveTo _ _ => True
  | .copy _ => False

/-- **One step**: every operation of the alphabet keeps parent/child agreement and duplicate-freeness,
under its stated precondition. -/
theorem inv_step (s : St) (op : Op) (h : Inv s) (hp : Pre s op) : Inv (step s op) := by
  cases op with
  | new k f t g =>
    obtain ⟨h1, h2⟩ := hp
    apply inv_of_eq (s := s) _ _ h
    · funext x; simp only [step, newNode]; by_cases hx : x = s.next <;> simp [hx, h1]
    · funext x; simp only [step, newNode]; by_cases hx : x = s.next <;> simp [hx, h2]
  | add p c => exact add_inv s p c h hp
  | insert p i c => exact insert_inv s p i c h hp
  | remove p c => exact cRemove_inv s p c h hp
  | removeAll p => exact (removeAll_inv s p h).1
  | setChildren p items => exact setChildren_inv s p items h hp.1 hp.2
  | sort p rank => exact sort_inv _ _ s p h
  | reestablish a => exact inv_of_eq (s := s) rfl rfl h
  | moveTo c hh =>
    simp only [step, moveTo]
    split
    · exact h
    · split
      · exact inv_of_eq (s := s) rfl rfl h
      · exact h
  | copy n => exact absurd hp id

/-- preconditions along a run -/
def PreAll : St → List Op → Prop
  | _, [] => True
  | s, op :: rest => Pre s op ∧ PreAll (step s op) rest

/-- **Every reachable state is well formed**: any finite sequence of edits (unbounded length), each
used validly, from a well-formed state. -/
theorem inv_run : ∀ (ops : List Op) (s : St), Inv s → PreAll s ops → Inv (ops.foldl step s)
  | [], _, h, _ => h
  | op :: rest, s, h, hp => inv_run rest (step s op) (inv_step s op h hp.1) hp.2

theorem inv_empty : Inv St.empty := by
  refine ⟨?_, ?_, ?_⟩
  · intro p c hc; simp [St.empty] at hc
  · intro c p hc; simp [St.empty] at hc
  · intro p; simp [St.empty]

/-- non-vacuity: a concrete 3-level history (core / assembly / block / component) satisfies every precondition -/
example : PreAll St.empty
    [.new kCore 0 0 true, .new kAssembly 0 0 true, .new kBlock 0 0 false, .new kComponent 1 1 false,
     .add 2 3, .add 1 2, .add 0 1, .remove 2 3, .insert 2 (-5) 3, .removeAll 7] := by
  simp [PreAll, Pre, step, newNode, St.empty, add, cAdd, kCore, kAssembly, kBlock, kComponent, setKids, setParent,
    setLoc, reestablish, removeAll, seqOps, remove, cRemove, insert, cInsert]

/-- acyclicity is kept by a valid add (the new child is not an ancestor of the parent) and by remove -/
theorem cAdd_acyclic (s : St) (p c : Nat) (h : Inv s) (ha : Acyclic s) (hc : s.parent c = none)
    (hcyc : ¬ Anc s c p) : Acyclic (cAdd s p c).1 := by
  have hnot : c ∉ s.kids p := by intro hq; have := h.1 p c hq; simp [hc] at this
  unfold cAdd; simp only [hnot, if_false]
  exact acyclic_attach s p c _ h ha hc hcyc

theorem cInsert_acyclic (s : St) (p : Nat) (i : Int) (c : Nat) (h : Inv s) (ha : Acyclic s)
    (hc : s.parent c = none) (hcyc : ¬ Anc s c p) : Acyclic (cInsert s p i c).1 := by
  have hnot : c ∉ s.kids p := by intro hq; have := h.1 p c hq; simp [hc] at this
  unfold cInsert; simp only [hnot, if_false]
  exact acyclic_attach s p c _ h ha hc hcyc

theorem cRemove_acyclic (s : St) (p c : Nat) (ha : Acyclic s) : Acyclic (cRemove s p c).1 := by
  obtain ⟨d, hd⟩ := ha
  refine ⟨d, ?_⟩
  intro x q hx
  by_cases hxc : x = c
  · subst hxc; unfold cRemove at hx; split at hx <;> simp [setKids, setLoc, setParent] at hx
  · rw [cRemove_parent_other s p c x hxc] at hx; exact hd x q hx

/-! ### the excluded points really break the invariant (F4): concrete witnesses -/

private def w3 : St := newNode (newNode (newNode St.empty 0 0 0 false) 0 0 0 false) 0 0 0 false

/-- `append` lists a child without setting its parent -/
theorem append_breaks_inv : ¬ Inv (cAppend w3 0 2) := by
  intro h
  have := h.1 0 2 (by decide)
  revert this; decide

/-- `extend` likewise -/
theorem extend_breaks_inv : ¬ Inv (cExtend w3 0 [1, 2]) := by
  intro h
  have := h.1 0 2 (by decide)
  revert this; decide

/-- `A.add(x); B.add(x)`: x stays in A's list while its parent is B -/
theorem add_parented_breaks_inv : ¬ Inv (cAdd (cAdd w3 0 2).1 1 2).1 := by
  intro h
  have := h.1 0 2 (by decide)
  revert this; decide

/-- `B.remove(y)` for a child y of A: refused, but y's parent is already cleared -/
theorem remove_nonchild_breaks_inv :
    (cRemove (cAdd w3 0 2).1 1 2).2 = false ∧ ¬ Inv (cRemove (cAdd w3 0 2).1 1 2).1 := by
  refine ⟨by decide, ?_⟩
  intro h
  have := h.1 0 2 (by decide)
  revert this; decide

/-- `A.add(B); B.add(A)` is accepted and produces a cycle -/
theorem add_cycle_breaks_acyclic : (cAdd (cAdd w3 0 1).1 1 0).2 = true ∧ ¬ Acyclic (cAdd (cAdd w3 0 1).1 1 0).1 := by
  refine ⟨by decide, ?_⟩
  rintro ⟨d, hd⟩
  have h1 := hd 1 0 (by decide)
  have h2 := hd 0 1 (by decide)
  omega

end ArmiVerif.Tree
