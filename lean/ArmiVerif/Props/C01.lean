/-
C01 — the composite model tree stays a well-formed tree under any edit history.
Model: ArmiVerif/Model/Tree.lean (arena with SEPARATE back-pointer and child list).
-/
import ArmiVerif.Model.Tree

namespace ArmiVerif.Tree

/-- Well-formedness: (a) a listed child's parent is the lister, (b) an object's parent lists it,
(c) no child is listed twice.  ((a) gives "at most one lister".) -/
structure Inv (s : St) : Prop where
  listed_parent : ∀ p c, c ∈ s.kids p → s.parent c = some p
  parent_lists : ∀ c p, s.parent c = some p → c ∈ s.kids p
  nodup : ∀ p, (s.kids p).Nodup

/-- `a` is `x` or an ancestor of `x` (parent chain) -/
inductive Anc (s : St) (a : Nat) : Nat → Prop where
  | refl : Anc s a a
  | step {x q : Nat} : s.parent x = some q → Anc s a q → Anc s a x

/-- The parent relation is well-founded: a depth function strictly increases from parent to child. -/
def Acyclic (s : St) : Prop := ∃ d : Nat → Nat, ∀ c p, s.parent c = some p → d p < d c

/-! ### generic lemmas -/

private theorem inv_congr {s t : St} (hp : t.parent = s.parent) (hk : t.kids = s.kids) (h : Inv s) : Inv t :=
  ⟨by rw [hp, hk]; exact h.1, by rw [hp, hk]; exact h.2, by rw [hk]; exact h.3⟩

private theorem acyclic_congr {s t : St} (hp : t.parent = s.parent) (h : Acyclic s) : Acyclic t := by
  obtain ⟨d, hd⟩ := h; exact ⟨d, by rw [hp]; exact hd⟩

/-- permuting child lists keeps the invariant -/
private theorem inv_perm {s t : St} (hp : t.parent = s.parent) (hk : ∀ p, (t.kids p).Perm (s.kids p))
    (h : Inv s) : Inv t := by
  refine ⟨?_, ?_, ?_⟩
  · intro p c hc; rw [hp]; exact h.1 p c ((hk p).mem_iff.mp hc)
  · intro c p hc; rw [hp] at hc; exact (hk p).mem_iff.mpr (h.2 c p hc)
  · intro p; exact (hk p).nodup_iff.mpr (h.3 p)

/-! ### Composite.add / insert -/

/-- attaching a parentless object with any list that is the old list plus the new child -/
private theorem inv_attach (s : St) (p c : Nat) (l : List Nat) (h : Inv s) (hc : s.parent c = none)
    (hl : ∀ x, x ∈ l ↔ (x ∈ s.kids p ∨ x = c)) (hn : l.Nodup) :
    Inv (setKids (setParent s c (some p)) p l) := by
  obtain ⟨h1, h2, h3⟩ := h
  have hnot : ∀ q, c ∉ s.kids q := by
    intro q hq; have := h1 q c hq; simp [hc] at this
  refine ⟨?_, ?_, ?_⟩
  · intro q x hx
    simp only [setKids, setParent] at hx ⊢
    by_cases hq : q = p
    · subst hq; simp at hx
      rcases (hl x).mp hx with hx | hx
      · by_cases hxc : x = c
        · subst hxc; simp
        · simp [hxc, h1 q x hx]
      · subst hx; simp
    · simp [hq] at hx
      by_cases hxc : x = c
      · subst hxc; exact absurd hx (hnot q)
      · simp [hxc, h1 q x hx]
  · intro x q hx
    simp only [setKids, setParent] at hx ⊢
    by_cases hxc : x = c
    · subst hxc; simp at hx; subst hx; simp; exact (hl x).mpr (Or.inr rfl)
    · simp [hxc] at hx
      have := h2 x q hx
      by_cases hq : q = p
      · subst hq; simp; exact (hl x).mpr (Or.inl this)
      · simp [hq, this]
  · intro q
    simp only [setKids, setParent]
    by_cases hq : q = p
    · subst hq; simpa using hn
    · simp [hq, h3 q]

private theorem acyclic_attach (s : St) (p c : Nat) (l : List Nat) (h : Inv s) (ha : Acyclic s)
    (hc : s.parent c = none) (hcyc : ¬ Anc s c p) :
    Acyclic (setKids (setParent s c (some p)) p l) := by
  obtain ⟨d, hd⟩ := ha
  classical
  refine ⟨fun x => if Anc s c x then d x + d p + 1 else d x, ?_⟩
  intro x q hx
  simp only [setKids, setParent] at hx
  by_cases hxc : x = c
  · subst hxc
    simp at hx; subst hx
    simp [hcyc, Anc.refl]; omega
  · simp [hxc] at hx
    have hdx := hd x q hx
    by_cases hq : Anc s c q
    · have hxa : Anc s c x := Anc.step hx hq
      simp [hq, hxa]; omega
    · by_cases hxa : Anc s c x
      · -- x below c but its parent is not: only x = c
        cases hxa with
        | refl => exact absurd rfl hxc
        | step hp' hq' => rw [hx] at hp'; cases hp'; exact absurd hq' hq
      · simp [hq, hxa]; omega

theorem cAdd_inv (s : St) (p c : Nat) (h : Inv s) (hc : s.parent c = none) : Inv (cAdd s p c).1 := by
  unfold cAdd
  have hnot : c ∉ s.kids p := by
    intro hq; have := h.1 p c hq; simp [hc] at this
  simp only [hnot, if_false]
  apply inv_attach s p c _ h hc
  · intro x; simp
  · rw [List.nodup_append]
    refine ⟨h.3 p, by simp, ?_⟩
    intro a ha b hb; simp at hb; subst hb; intro hab; subst hab; exact hnot ha

private theorem listInsert_mem (l : List Nat) (i : Int) (c x : Nat) :
    x ∈ listInsert l i c ↔ (x ∈ l ∨ x = c) := by
  unfold listInsert
  generalize pyInsertIdx l.length i = k
  constructor
  · intro hx
    simp only [List.mem_append, List.mem_cons] at hx
    rcases hx with hx | hx | hx
    · exact Or.inl (List.mem_of_mem_take hx)
    · exact Or.inr hx
    · exact Or.inl (List.mem_of_mem_drop hx)
  · intro hx
    rcases hx with hx | hx
    · have : x ∈ l.take k ++ l.drop k := by rw [List.take_append_drop]; exact hx
      simp only [List.mem_append, List.mem_cons] at this ⊢
      rcases this with h | h
      · exact Or.inl h
      · exact Or.inr (Or.inr h)
    · simp [hx]

private theorem listInsert_nodup (l : List Nat) (i : Int) (c : Nat) (hl : l.Nodup) (hc : c ∉ l) :
    (listInsert l i c).Nodup := by
  unfold listInsert
  generalize pyInsertIdx l.length i = k
  have hperm : (l.take k ++ c :: l.drop k).Perm (c :: (l.take k ++ l.drop k)) := List.perm_middle
  rw [hperm.nodup_iff, List.take_append_drop]
  exact List.nodup_cons.mpr ⟨hc, hl⟩

theorem cInsert_inv (s : St) (p : Nat) (i : Int) (c : Nat) (h : Inv s) (hc : s.parent c = none) :
    Inv (cInsert s p i c).1 := by
  unfold cInsert
  have hnot : c ∉ s.kids p := by
    intro hq; have := h.1 p c hq; simp [hc] at this
  simp only [hnot, if_false]
  exact inv_attach s p c _ h hc (listInsert_mem _ i c) (listInsert_nodup _ i c (h.3 p) hnot)

/-! ### Composite.remove -/

theorem cRemove_inv (s : St) (p c : Nat) (h : Inv s) (hc : c ∈ s.kids p) : Inv (cRemove s p c).1 := by
  obtain ⟨h1, h2, h3⟩ := h
  have hpc := h1 p c hc
  unfold cRemove
  simp only [hc, if_true]
  refine ⟨?_, ?_, ?_⟩
  · intro q x hx
    simp only [setKids, setLoc, setParent] at hx ⊢
    by_cases hq : q = p
    · subst hq; simp at hx
      have hx' : x ∈ s.kids q := List.mem_of_mem_erase hx
      have hne : x ≠ c := by
        intro e; subst e; exact (List.Nodup.not_mem_erase (h3 q)) hx
      simp [hne, h1 q x hx']
    · simp [hq] at hx
      have := h1 q x hx
      have hne : x ≠ c := by
        intro e; subst e; rw [hpc] at this; simp at this; exact hq this.symm
      simp [hne, this]
  · intro x q hx
    simp only [setKids, setLoc, setParent] at hx ⊢
    by_cases hxc : x = c
    · subst hxc; simp at hx
    · simp [hxc] at hx
      have := h2 x q hx
      by_cases hq : q = p
      · subst hq; simp; exact (List.mem_erase_of_ne hxc).mpr this
      · simp [hq, this]
  · intro q
    simp only [setKids, setLoc, setParent]
    by_cases hq : q = p
    · subst hq; simp; exact List.Nodup.erase _ (h3 q)
    · simp [hq, h3 q]

/-- **An object taken out of the model has no parent, a detached location and is not listed.** -/
theorem remove_detaches (s : St) (p c : Nat) (h : Inv s) (hc : c ∈ s.kids p) :
    (remove s p c).2 = true ∧ (remove s p c).1.parent c = none ∧ (remove s p c).1.loc c = none ∧
      c ∉ (remove s p c).1.kids p ∧ ∀ q, c ∉ (remove s p c).1.kids q := by
  have hi := cRemove_inv s p c h hc
  have hpar : (cRemove s p c).1.parent c = none := by
    unfold cRemove; simp [hc, setKids, setLoc, setParent]
  have hall : ∀ q, c ∉ (cRemove s p c).1.kids q := by
    intro q hq; have := hi.1 q c hq; rw [hpar] at this; cases this
  refine ⟨?_, hpar, ?_, hall p, hall⟩
  · unfold remove cRemove; simp [hc]
  · unfold remove cRemove; simp [hc, setKids, setLoc, setParent]

end ArmiVerif.Tree
