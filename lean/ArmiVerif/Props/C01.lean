/-
C01 — the composite model tree stays a well-formed tree under any edit history.
Model: ArmiVerif/Model/Tree.lean (arena with SEPARATE back-pointer and child list).
-/
import ArmiVerif.Model.Tree

namespace ArmiVerif.Tree

/-- Well-formedness: (a) a listed child's parent is the lister, (b) an object's parent lists it,
(c) no child is listed twice.  ((a) gives "at most one lister".) -/
structure Inv (s : St) : Prop where
  listed_parent : ∀ p c, c ∈ s.kids p → s.parent c = some p
  parent_lists : ∀ c p, s.parent c = some p → c ∈ s.kids p
  nodup : ∀ p, (s.kids p).Nodup

/-- `a` is `x` or an ancestor of `x` (parent chain) -/
inductive Anc (s : St) (a : Nat) : Nat → Prop where
  | refl : Anc s a a
  | step {x q : Nat} : s.parent x = some q → Anc s a q → Anc s a x

/-- The parent relation is well-founded: a depth function strictly increases from parent to child. -/
def Acyclic (s : St) : Prop := ∃ d : Nat → Nat, ∀ c p, s.parent c = some p → d p < d c

/-! ### generic lemmas -/

private theorem inv_congr {s t : St} (hp : t.parent = s.parent) (hk : t.kids = s.kids) (h : Inv s) : Inv t :=
  ⟨by rw [hp, hk]; exact h.1, by rw [hp, hk]; exact h.2, by rw [hk]; exact h.3⟩

private theorem acyclic_congr {s t : St} (hp : t.parent = s.parent) (h : Acyclic s) : Acyclic t := by
  obtain ⟨d, hd⟩ := h; exact ⟨d, by rw [hp]; exact hd⟩

/-- permuting child lists keeps the invariant -/
private theorem inv_perm {s t : St} (hp : t.parent = s.parent) (hk : ∀ p, (t.kids p).Perm (s.kids p))
    (h : Inv s) : Inv t := by
  refine ⟨?_, ?_, ?_⟩
  · intro p c hc; rw [hp]; exact h.1 p c ((hk p).mem_iff.mp hc)
  · intro c p hc; rw [hp] at hc; exact (hk p).mem_iff.mpr (h.2 c p hc)
  · intro p; exact (hk p).nodup_iff.mpr (h.3 p)

/-! ### Composite.add / insert -/

/-- attaching a parentless object with any list that is the old list plus the new child -/
private theorem inv_attach (s : St) (p c : Nat) (l : List Nat) (h : Inv s) (hc : s.parent c = none)
    (hl : ∀ x, x ∈ l ↔ (x ∈ s.kids p ∨ x = c)) (hn : l.Nodup) :
    Inv (setKids (setParent s c (some p)) p l) := by
  obtain ⟨h1, h2, h3⟩ := h
  have hnot : ∀ q, c ∉ s.kids q := by
    intro q hq; have := h1 q c hq; simp [hc] at this
  refine ⟨?_, ?_, ?_⟩
  · intro q x hx
    simp only [setKids, setParent] at hx ⊢
    by_cases hq : q = p
    · subst hq; simp at hx
      rcases (hl x).mp hx with hx | hx
      · by_cases hxc : x = c
        · subst hxc; simp
        · simp [hxc, h1 q x hx]
      · subst hx; simp
    · simp [hq] at hx
      by_cases hxc : x = c
      · subst hxc; exact absurd hx (hnot q)
      · simp [hxc, h1 q x hx]
  · intro x q hx
    simp only [setKids, setParent] at hx ⊢
    by_cases hxc : x = c
    · subst hxc; simp at hx; subst hx; simp; exact (hl x).mpr (Or.inr rfl)
    · simp [hxc] at hx
      have := h2 x q hx
      by_cases hq : q = p
      · subst hq; simp; exact (hl x).mpr (Or.inl this)
      · simp [hq, this]
  · intro q
    simp only [setKids, setParent]
    by_cases hq : q = p
    · subst hq; simpa using hn
    · simp [hq, h3 q]

private theorem acyclic_attach (s : St) (p c : Nat) (l : List Nat) (_h : Inv s) (ha : Acyclic s)
    (hc : s.parent c = none) (hcyc : ¬ Anc s c p) :
    Acyclic (setKids (setParent s c (some p)) p l) := by
  obtain ⟨d, hd⟩ := ha
  classical
  refine ⟨fun x => if Anc s c x then d x + d p + 1 else d x, ?_⟩
  intro x q hx
  simp only [setKids, setParent] at hx
  by_cases hxc : x = c
  · subst hxc
    simp at hx; subst hx
    simp [hcyc, Anc.refl]; omega
  · simp [hxc] at hx
    have hdx := hd x q hx
    by_cases hq : Anc s c q
    · have hxa : Anc s c x := Anc.step hx hq
      simp [hq, hxa]; omega
    · by_cases hxa : Anc s c x
      · -- x below c but its parent is not: only x = c
        cases hxa with
        | refl => exact absurd rfl hxc
        | step hp' hq' => rw [hx] at hp'; cases hp'; exact absurd hq' hq
      · simp [hq, hxa]; omega

theorem cAdd_inv (s : St) (p c : Nat) (h : Inv s) (hc : s.parent c = none) : Inv (cAdd s p c).1 := by
  unfold cAdd
  have hnot : c ∉ s.kids p := by
    intro hq; have := h.1 p c hq; simp [hc] at this
  simp only [hnot, if_false]
  apply inv_attach s p c _ h hc
  · intro x; simp
  · rw [List.nodup_append]
    refine ⟨h.3 p, by simp, ?_⟩
    intro a ha b hb; simp at hb; subst hb; intro hab; subst hab; exact hnot ha

private theorem listInsert_mem (l : List Nat) (i : Int) (c x : Nat) :
    x ∈ listInsert l i c ↔ (x ∈ l ∨ x = c) := by
  unfold listInsert
  generalize pyInsertIdx l.length i = k
  constructor
  · intro hx
    simp only [List.mem_append, List.mem_cons] at hx
    rcases hx with hx | hx | hx
    · exact Or.inl (List.mem_of_mem_take hx)
    · exact Or.inr hx
    · exact Or.inl (List.mem_of_mem_drop hx)
  · intro hx
    rcases hx with hx | hx
    · have : x ∈ l.take k ++ l.drop k := by rw [List.take_append_drop]; exact hx
      simp only [List.mem_append, List.mem_cons] at this ⊢
      rcases this with h | h
      · exact Or.inl h
      · exact Or.inr (Or.inr h)
    · simp [hx]

private theorem listInsert_nodup (l : List Nat) (i : Int) (c : Nat) (hl : l.Nodup) (hc : c ∉ l) :
    (listInsert l i c).Nodup := by
  unfold listInsert
  generalize pyInsertIdx l.length i = k
  have hperm : (l.take k ++ c :: l.drop k).Perm (c :: (l.take k ++ l.drop k)) := List.perm_middle
  rw [hperm.nodup_iff, List.take_append_drop]
  exact List.nodup_cons.mpr ⟨hc, hl⟩

theorem cInsert_inv (s : St) (p : Nat) (i : Int) (c : Nat) (h : Inv s) (hc : s.parent c = none) :
    Inv (cInsert s p i c).1 := by
  unfold cInsert
  have hnot : c ∉ s.kids p := by
    intro hq; have := h.1 p c hq; simp [hc] at this
  simp only [hnot, if_false]
  exact inv_attach s p c _ h hc (listInsert_mem _ i c) (listInsert_nodup _ i c (h.3 p) hnot)

/-! ### Composite.remove -/

theorem cRemove_inv (s : St) (p c : Nat) (h : Inv s) (hc : c ∈ s.kids p) : Inv (cRemove s p c).1 := by
  obtain ⟨h1, h2, h3⟩ := h
  have hpc := h1 p c hc
  unfold cRemove
  simp only [hc, if_true]
  refine ⟨?_, ?_, ?_⟩
  · intro q x hx
    simp only [setKids, setLoc, setParent] at hx ⊢
    by_cases hq : q = p
    · subst hq; simp at hx
      have hx' : x ∈ s.kids q := List.mem_of_mem_erase hx
      have hne : x ≠ c := by
        intro e; subst e; exact (List.Nodup.not_mem_erase (h3 q)) hx
      simp [hne, h1 q x hx']
    · simp [hq] at hx
      have := h1 q x hx
      have hne : x ≠ c := by
        intro e; subst e; rw [hpc] at this; simp at this; exact hq this.symm
      simp [hne, this]
  · intro x q hx
    simp only [setKids, setLoc, setParent] at hx ⊢
    by_cases hxc : x = c
    · subst hxc; simp at hx
    · simp [hxc] at hx
      have := h2 x q hx
      by_cases hq : q = p
      · subst hq; simp; exact (List.mem_erase_of_ne hxc).mpr this
      · simp [hq, this]
  · intro q
    simp only [setKids, setLoc, setParent]
    by_cases hq : q = p
    · subst hq; simp; exact List.Nodup.erase _ (h3 q)
    · simp [hq, h3 q]

/-- **An object taken out of the model has no parent, a detached location and is not listed.** -/
theorem remove_detaches (s : St) (p c : Nat) (h : Inv s) (hc : c ∈ s.kids p) :
    (remove s p c).2 = true ∧ (remove s p c).1.parent c = none ∧ (remove s p c).1.loc c = none ∧
      c ∉ (remove s p c).1.kids p ∧ ∀ q, c ∉ (remove s p c).1.kids q := by
  have hi := cRemove_inv s p c h hc
  have hpar : (cRemove s p c).1.parent c = none := by
    unfold cRemove; simp [hc, setKids, setLoc, setParent]
  have hall : ∀ q, c ∉ (cRemove s p c).1.kids q := by
    intro q hq; have := hi.1 q c hq; rw [hpar] at this; cases this
  refine ⟨?_, hpar, ?_, hall p, hall⟩
  · unfold remove cRemove; simp [hc]
  · unfold remove cRemove; simp [hc, setKids, setLoc, setParent]



private theorem inv_of_eq {s t : St} (hp : t.parent = s.parent) (hk : t.kids = s.kids) (h : Inv s) : Inv t :=
  ⟨by rw [hp, hk]; exact h.1, by rw [hp, hk]; exact h.2, by rw [hk]; exact h.3⟩

private theorem acyclic_of_eq {s t : St} (hp : t.parent = s.parent) (h : Acyclic s) : Acyclic t := by
  obtain ⟨d, hd⟩ := h; exact ⟨d, by rw [hp]; exact hd⟩

/-! ### class-dispatched add / insert -/
theorem add_inv (s : St) (p c : Nat) (h : Inv s) (hc : s.parent c = none) : Inv (add s p c).1 := by
  have hi := cAdd_inv s p c h hc
  have hnot : c ∉ s.kids p := by intro hq; have := h.1 p c hq; simp [hc] at this
  unfold add
  by_cases h1 : s.kind p = kAssembly
  · simp only [h1, if_true]
    by_cases h2 : s.kind c ≠ kBlock
    · rw [if_pos h2]; exact h
    · rw [if_neg h2]
      have hok : (cAdd s p c).2 = true := by simp [cAdd, hnot]
      simp only [hok, if_true]
      exact inv_of_eq (s := (cAdd s p c).1) rfl rfl hi
  · simp only [h1, if_false]
    by_cases h3 : s.kind p = kCore
    · simp only [h3, if_true]
      have hok : (cAdd s p c).2 = true := by simp [cAdd, hnot]
      simp only [hok, if_true]
      exact inv_of_eq (s := (cAdd s p c).1) rfl rfl hi
    · simp only [h3, if_false]; exact hi

theorem insert_inv (s : St) (p : Nat) (i : Int) (c : Nat) (h : Inv s) (hc : s.parent c = none) :
    Inv (insert s p i c).1 := by
  have hi := cInsert_inv s p i c h hc
  have hnot : c ∉ s.kids p := by intro hq; have := h.1 p c hq; simp [hc] at this
  unfold insert
  by_cases h1 : s.kind p = kAssembly
  · simp only [h1, if_true]
    by_cases h2 : s.kind c ≠ kBlock
    · rw [if_pos h2]; exact h
    · rw [if_neg h2]
      have hok : (cInsert s p i c).2 = true := by simp [cInsert, hnot]
      simp only [hok, if_true]
      exact inv_of_eq (s := (cInsert s p i c).1) rfl rfl hi
  · simp only [h1, if_false]; exact hi

/-! ### removeAll / setChildren -/
private theorem cRemove_parent_other (s : St) (p c x : Nat) (hx : x ≠ c) : (cRemove s p c).1.parent x = s.parent x := by
  unfold cRemove; split <;> simp [setKids, setLoc, setParent, hx]

private theorem cRemove_kids (s : St) (p c : Nat) (hc : c ∈ s.kids p) (q : Nat) :
    (cRemove s p c).1.kids q = if q = p then (s.kids p).erase c else s.kids q := by
  unfold cRemove; simp [hc, setKids, setLoc, setParent]

/-- removing the listed children one by one (any duplicate-free sub-list of the child list) -/
private theorem seqRemove_inv (p : Nat) : ∀ (l : List Nat) (s : St), Inv s → l.Nodup → (∀ c ∈ l, c ∈ s.kids p) →
    Inv (seqOps (fun t c => remove t p c) s l).1 ∧ (seqOps (fun t c => remove t p c) s l).2 = true ∧
    (∀ q, q ≠ p → (seqOps (fun t c => remove t p c) s l).1.kids q = s.kids q) ∧
    (∀ x, x ∈ (seqOps (fun t c => remove t p c) s l).1.kids p ↔ (x ∈ s.kids p ∧ x ∉ l)) ∧
    (∀ x, x ∉ l → (seqOps (fun t c => remove t p c) s l).1.parent x = s.parent x) ∧
    (∀ x, x ∈ l → (seqOps (fun t c => remove t p c) s l).1.parent x = none) := by
  intro l
  induction l with
  | nil => intro s h _ _; simp [seqOps]; exact h
  | cons c rest ih =>
    intro s h hnd hall
    have hc : c ∈ s.kids p := hall c (by simp)
    have hnd' := List.nodup_cons.mp hnd
    have hi := cRemove_inv s p c h hc
    have hk := cRemove_kids s p c hc
    have hrest : ∀ x ∈ rest, x ∈ (cRemove s p c).1.kids p := by
      intro x hx
      rw [hk p]; simp
      have hne : x ≠ c := by intro e; subst e; exact hnd'.1 hx
      exact (List.mem_erase_of_ne hne).mpr (hall x (by simp [hx]))
    have hok : (cRemove s p c).2 = true := by unfold cRemove; simp [hc]
    have step : seqOps (fun t c => remove t p c) s (c :: rest) =
        seqOps (fun t c => remove t p c) (cRemove s p c).1 rest := by
      have e : cRemove s p c = ((cRemove s p c).1, true) := Prod.ext rfl hok
      simp only [seqOps, List.foldl_cons, remove, if_true]
      rw [← e]
    rw [step]
    obtain ⟨i1, i2, i3, i4, i5, i6⟩ := ih (cRemove s p c).1 hi hnd'.2 hrest
    refine ⟨i1, i2, ?_, ?_, ?_, ?_⟩
    · intro q hq; rw [i3 q hq, hk q]; simp [hq]
    · intro x; rw [i4 x, hk p]; simp
      constructor
      · rintro ⟨hx, hxr⟩
        have hne : x ≠ c := by
          intro e; subst e; exact (List.Nodup.not_mem_erase (h.3 p)) hx
        exact ⟨List.mem_of_mem_erase hx, hne, hxr⟩
      · rintro ⟨hx, hne, hxr⟩
        exact ⟨(List.mem_erase_of_ne hne).mpr hx, hxr⟩
    · intro x hx
      simp at hx
      rw [i5 x hx.2, cRemove_parent_other s p c x hx.1]
    · intro x hx
      simp at hx
      rcases hx with hx | hx
      · subst hx
        by_cases hxr : x ∈ rest
        · exact i6 x hxr
        · rw [i5 x hxr]; unfold cRemove; simp [hc, setKids, setLoc, setParent]
      · exact i6 x hx

/-- **`removeAll` keeps the tree well formed and leaves the former children parentless** (no precondition) -/
theorem removeAll_inv (s : St) (p : Nat) (h : Inv s) :
    Inv (removeAll s p).1 ∧ (removeAll s p).2 = true ∧ (removeAll s p).1.kids p = [] ∧
    (∀ x ∈ s.kids p, (removeAll s p).1.parent x = none) ∧
    (∀ x, x ∉ s.kids p → (removeAll s p).1.parent x = s.parent x) := by
  obtain ⟨i1, i2, _, i4, i5, i6⟩ := seqRemove_inv p (s.kids p) s h (h.3 p) (fun c hc => hc)
  refine ⟨i1, i2, ?_, fun x hx => i6 x hx, i5⟩
  apply List.eq_nil_iff_forall_not_mem.mpr
  intro x hx
  have := (i4 x).mp hx
  exact this.2 this.1

theorem add_ok (s : St) (p c : Nat) (h : Inv s) (hc : s.parent c = none) (hk : s.kind p = kAssembly → s.kind c = kBlock) :
    (add s p c).2 = true := by
  have hnot : c ∉ s.kids p := by intro hq; have := h.1 p c hq; simp [hc] at this
  have hok : (cAdd s p c).2 = true := by simp [cAdd, hnot]
  unfold add
  by_cases h1 : s.kind p = kAssembly
  · simp [h1, hk h1, hok]
  · by_cases h3 : s.kind p = kCore
    · rw [if_neg h1, if_pos h3]; simp [hok]
    · rw [if_neg h1, if_neg h3]; exact hok

private theorem add_parent_other (s : St) (p c x : Nat) (hx : x ≠ c) : (add s p c).1.parent x = s.parent x := by
  unfold add cAdd reestablish
  repeat' split
  all_goals simp_all [setKids, setLoc, setParent]

private theorem add_kind (s : St) (p c x : Nat) : (add s p c).1.kind x = s.kind x := by
  unfold add cAdd reestablish
  repeat' split
  all_goals simp_all [setKids, setLoc, setParent]

/-- adding a duplicate-free list of parentless objects one by one -/
private theorem seqAdd_inv (p : Nat) : ∀ (l : List Nat) (s : St), Inv s → l.Nodup → (∀ c ∈ l, s.parent c = none) →
    Inv (seqOps (fun t c => add t p c) s l).1 := by
  intro l
  induction l with
  | nil => intro s h _ _; simpa [seqOps] using h
  | cons c rest ih =>
    intro s h hnd hall
    have hnd' := List.nodup_cons.mp hnd
    have hi := add_inv s p c h (hall c (by simp))
    simp only [seqOps, List.foldl_cons, if_true]
    by_cases hok : (add s p c).2 = true
    · have e : add s p c = ((add s p c).1, true) := Prod.ext rfl hok
      rw [e]
      apply ih _ hi hnd'.2
      intro x hx
      have hne : x ≠ c := by intro e; subst e; exact hnd'.1 hx
      rw [add_parent_other s p c x hne]; exact hall x (by simp [hx])
    · -- the loop stops at the first refusal; nothing more changes
      have hfalse : (add s p c).2 = false := by simpa using hok
      have e : add s p c = ((add s p c).1, false) := Prod.ext rfl hfalse
      rw [e]
      have stop : ∀ (l : List Nat) (t : St), (l.foldl (fun acc c => if acc.2 = true then add acc.1 p c else acc) (t, false)) = (t, false) := by
        intro l; induction l with
        | nil => intro t; rfl
        | cons a l ih2 => intro t; simp [List.foldl_cons, ih2]
      rw [stop]; exact hi

/-- **`setChildren` keeps the tree well formed** when the new children are distinct and each is
parentless or already a child of the same parent. -/
theorem setChildren_inv (s : St) (p : Nat) (items : List Nat) (h : Inv s) (hnd : items.Nodup)
    (hit : ∀ c ∈ items, s.parent c = none ∨ s.parent c = some p) : Inv (setChildren s p items).1 := by
  obtain ⟨i1, i2, _, i4, i5⟩ := removeAll_inv s p h
  unfold setChildren
  simp only [i2, if_true]
  apply seqAdd_inv p items _ i1 hnd
  intro c hc
  by_cases hk : c ∈ s.kids p
  · exact i4 c hk
  · rw [i5 c hk]
    rcases hit c hc with h0 | h1
    · exact h0
    · exact absurd (h.2 c p h1) hk



/-! ### sort / reestablishBlockOrder / moveTo: child lists are permuted, parents untouched -/

private theorem insSorted_perm (rank : Nat → Nat) (x : Nat) : ∀ l, (insSorted rank x l).Perm (x :: l)
  | [] => List.Perm.refl _
  | y :: ys => by
    unfold insSorted
    split
    · exact ((insSorted_perm rank x ys).cons y).trans (List.Perm.swap x y ys)
    · exact List.Perm.refl _

private theorem stableSort_perm (rank : Nat → Nat) : ∀ l, (stableSort rank l).Perm l
  | [] => List.Perm.refl _
  | x :: xs => by
    show (insSorted rank x (stableSort rank xs)).Perm (x :: xs)
    exact (insSorted_perm rank x _).trans ((stableSort_perm rank xs).cons x)

/-- what `Composite.sort` may do: parents untouched, every child list permuted -/
def SamePerm (s t : St) : Prop := t.parent = s.parent ∧ ∀ q, (t.kids q).Perm (s.kids q)

private theorem SamePerm.refl (s : St) : SamePerm s s := ⟨rfl, fun _ => List.Perm.refl _⟩
private theorem SamePerm.trans {a b c : St} (h1 : SamePerm a b) (h2 : SamePerm b c) : SamePerm a c :=
  ⟨h2.1.trans h1.1, fun q => (h2.2 q).trans (h1.2 q)⟩

private theorem foldl_samePerm (f : St → Nat → St) (hf : ∀ t c, SamePerm t (f t c)) :
    ∀ (l : List Nat) (s : St), SamePerm s (l.foldl f s)
  | [], s => SamePerm.refl s
  | c :: rest, s => (hf s c).trans (foldl_samePerm f hf rest (f s c))

theorem sortRec_samePerm (rank : Nat → Nat) : ∀ (fuel : Nat) (s : St) (p : Nat), SamePerm s (sortRec rank fuel s p)
  | 0, s, _ => SamePerm.refl s
  | f + 1, s, p => by
    unfold sortRec
    have h1 : SamePerm s (setKids s p (stableSort rank (s.kids p))) := by
      refine ⟨rfl, fun q => ?_⟩
      simp only [setKids]
      by_cases hq : q = p
      · subst hq; simpa using stableSort_perm rank _
      · simp [hq]
    exact h1.trans (foldl_samePerm _ (fun t c => sortRec_samePerm rank f t c) _ _)

theorem inv_samePerm {s t : St} (hp : SamePerm s t) (h : Inv s) : Inv t := by
  refine ⟨?_, ?_, ?_⟩
  · intro p c hc; rw [hp.1]; exact h.1 p c ((hp.2 p).mem_iff.mp hc)
  · intro c p hc; rw [hp.1] at hc; exact (hp.2 p).mem_iff.mpr (h.2 c p hc)
  · intro p; exact (hp.2 p).nodup_iff.mpr (h.3 p)

/-- **`sort` (recursive, any comparator ranks) keeps the tree well formed.** -/
theorem sort_inv (rank : Nat → Nat) (fuel : Nat) (s : St) (p : Nat) (h : Inv s) : Inv (sortRec rank fuel s p) :=
  inv_samePerm (sortRec_samePerm rank fuel s p) h

/-! ### traversals -/

/-- **predicate filter spec**: `_iterChildren` with a predicate = the unfiltered traversal, filtered -/
theorem iterC_pred_spec (s : St) (chk : Nat → Bool) :
    ∀ (fuel : Nat) (deep : Bool) (g : Int) (n : Nat),
      iterC s fuel deep g chk n = (iterC s fuel deep g (fun _ => true) n).filter chk
  | 0, _, _, _ => by simp [iterC]
  | f + 1, deep, g, n => by
    unfold iterC
    have ih := fun c => iterC_pred_spec s chk f deep (g - 1) c
    simp only [List.filter_append]
    congr 1
    · split <;> simp
    · split
      · rw [List.filter_flatMap]
        congr 1; funext c; exact ih c
      · simp

/-- the naive walk: objects at depth exactly `k` below `n`, left to right -/
def level (s : St) : Nat → Nat → List Nat
  | 0, n => [n]
  | k + 1, n => (s.kids n).flatMap (level s k)

/-- **generation spec**: `getChildren(generationNum = k)` (k ≥ 1, enough fuel) returns exactly the
depth-`k` objects in left-to-right order; for `k ≤ 0` nothing. -/
theorem iterC_gen_spec (s : St) : ∀ (k fuel : Nat) (n : Nat), k < fuel →
    iterC s fuel false ((k : Int) + 1) (fun _ => true) n = level s (k + 1) n
  | 0, f + 1, n, _ => by
    unfold iterC level
    simp [level]
  | k + 1, f + 1, n, hk => by
    unfold iterC
    have h1 : ((↑(k + 1) : Int) + 1 == 1) = false := by
      apply beq_false_of_ne; omega
    have h2 : decide ((↑(k + 1) : Int) + 1 > 1) = true := by
      apply decide_eq_true; omega
    simp only [Bool.false_or, h1, h2, if_true]
    show (s.kids n).flatMap _ = (s.kids n).flatMap (level s (k + 1))
    congr 1; funext c
    have : ((↑(k + 1) : Int) + 1 - 1) = (k : Int) + 1 := by omega
    rw [this]
    exact iterC_gen_spec s k f c (by omega)

theorem iterC_gen_nonpos (s : St) (fuel : Nat) (g : Int) (hg : g ≤ 0) (chk : Nat → Bool) (n : Nat) :
    iterC s fuel false g chk n = [] := by
  cases fuel with
  | zero => rfl
  | succ f =>
    unfold iterC
    have h1 : (g == 1) = false := by apply beq_false_of_ne; omega
    have h2 : decide (g > 1) = false := by apply decide_eq_false; omega
    simp [h1, h2]

/-- **deep traversal = the naive walk**: children first, then each child's walk, in child order;
and it is the concatenation of the generations 1, 2, … restricted to each child's subtree. -/
private theorem iterC_deep_unfold (s : St) (f : Nat) (g : Int) (chk : Nat → Bool) (n : Nat) :
    iterC s (f + 1) true g chk n =
      (s.kids n).filter chk ++ (s.kids n).flatMap (fun c => iterC s f true (g - 1) chk c) := by
  simp [iterC]

/-- strict descendants -/
inductive Desc (s : St) : Nat → Nat → Prop where
  | child {n c : Nat} : c ∈ s.kids n → Desc s n c
  | step {n c m : Nat} : c ∈ s.kids n → Desc s c m → Desc s n m

/-- **membership (soundness)**: everything a deep traversal returns is a strict descendant -/
theorem iterC_deep_sound (s : St) : ∀ (fuel : Nat) (g : Int) (n m : Nat),
    m ∈ iterC s fuel true g (fun _ => true) n → Desc s n m
  | 0, _, _, _, h => by simp [iterC] at h
  | f + 1, g, n, m, h => by
    rw [iterC_deep_unfold] at h
    simp only [List.mem_append, List.mem_filter, List.mem_flatMap] at h
    rcases h with ⟨h, _⟩ | ⟨c, hc, hm⟩
    · exact Desc.child h
    · exact Desc.step hc (iterC_deep_sound s f (g - 1) c m hm)

/-- depth-bounded descendants -/
inductive DescN (s : St) : Nat → Nat → Nat → Prop where
  | child {n c : Nat} : c ∈ s.kids n → DescN s 1 n c
  | step {k n c m : Nat} : c ∈ s.kids n → DescN s k c m → DescN s (k + 1) n m

/-- **membership (completeness)**: a descendant at depth `k` is returned as soon as the fuel exceeds `k`
(the driver uses fuel = number of objects + 1, an upper bound for any depth in an acyclic tree). -/
theorem iterC_deep_complete (s : St) : ∀ (k fuel : Nat) (g : Int) (n m : Nat), DescN s k n m → k ≤ fuel →
    m ∈ iterC s fuel true g (fun _ => true) n := by
  intro k
  induction k with
  | zero => intro fuel g n m h; cases h
  | succ k ih =>
    intro fuel g n m h hk
    cases fuel with
    | zero => omega
    | succ f =>
      rw [iterC_deep_unfold]
      simp only [List.mem_append, List.mem_filter, List.mem_flatMap]
      cases h with
      | child hc => exact Or.inl ⟨hc, trivial⟩
      | step hc hd => exact Or.inr ⟨_, hc, ih f (g - 1) _ m hd (by omega)⟩

/-- **ancestor spec**: the answer of `getAncestorAndDistance` satisfies the predicate, lies on the
parent chain at the reported distance, and nothing nearer on the chain satisfies it. -/
def parentIter (s : St) : Nat → Nat → Option Nat
  | 0, n => some n
  | k + 1, n => match s.parent n with
    | none => none
    | some p => parentIter s k p

theorem getAncestor_spec (s : St) (fn : Nat → Bool) : ∀ (fuel n d : Nat) (a e : Nat),
    getAncestor s fuel fn n d = some (a, e) →
      d ≤ e ∧ fn a = true ∧ parentIter s (e - d) n = some a ∧
      ∀ j, j < e - d → ∀ x, parentIter s j n = some x → fn x = false
  | 0, _, _, _, _, h => by simp [getAncestor] at h
  | f + 1, n, d, a, e, h => by
    unfold getAncestor at h
    by_cases hf : fn n = true
    · simp [hf] at h
      obtain ⟨rfl, rfl⟩ := h
      refine ⟨Nat.le_refl _, hf, by simp [parentIter], ?_⟩
      intro j hj; omega
    · simp [hf] at h
      cases hp : s.parent n with
      | none => simp [hp] at h
      | some p =>
        simp [hp] at h
        obtain ⟨h1, h2, h3, h4⟩ := getAncestor_spec s fn f p (d + 1) a e h
        have he : e - d = (e - (d + 1)) + 1 := by omega
        refine ⟨by omega, h2, ?_, ?_⟩
        · rw [he]; simp [parentIter, hp, h3]
        · intro j hj x hx
          cases j with
          | zero => simp [parentIter] at hx; subst hx; simpa using hf
          | succ j =>
            simp [parentIter, hp] at hx
            exact h4 j (by omega) x hx

/-- `none` only if nothing on the chain (within the fuel) satisfies the predicate -/
theorem getAncestor_none (s : St) (fn : Nat → Bool) : ∀ (fuel n d : Nat),
    getAncestor s fuel fn n d = none → ∀ j, j < fuel → ∀ x, parentIter s j n = some x → fn x = false
  | 0, _, _, _, j, hj, _, _ => by omega
  | f + 1, n, d, h, j, hj, x, hx => by
    unfold getAncestor at h
    by_cases hf : fn n = true
    · simp [hf] at h
    · simp [hf] at h
      cases j with
      | zero => simp [parentIter] at hx; subst hx; simpa using hf
      | succ j =>
        cases hp : s.parent n with
        | none => simp [parentIter, hp] at hx
        | some p =>
          simp [parentIter, hp] at hx
          simp [hp] at h
          exact getAncestor_none s fn f p (d + 1) h j (by omega) x hx


/-! ### every reachable state: `inv_step`, `inv_run` -/

/-- the explicit, decidable-in-the-model preconditions ("valid use").  `copy` (pickle/deepcopy) is not in
the alphabet of `inv_run`: its clauses are carried by the correspondence check. -/
def Pre (s : St) : Op → Prop
  | .new _ _ _ _ => s.parent s.next = none ∧ s.kids s.next = []
  | .add _ c => s.parent c = none
  | .insert _ _ c => s.parent c = none
  | .remove p c => c ∈ s.kids p
  | .removeAll _ => True
  | .setChildren p items => items.Nodup ∧ ∀ c ∈ items, s.parent c = none ∨ s.parent c = some p
  | .sort _ _ => True
  | .reestablish _ => True
  | .moveTo _ _ => True
  | .copy _ => False

/-- **One step**: every operation of the alphabet keeps parent/child agreement and duplicate-freeness,
under its stated precondition. -/
theorem inv_step (s : St) (op : Op) (h : Inv s) (hp : Pre s op) : Inv (step s op) := by
  cases op with
  | new k f t g =>
    obtain ⟨h1, h2⟩ := hp
    apply inv_of_eq (s := s) _ _ h
    · funext x; simp only [step, newNode]; by_cases hx : x = s.next <;> simp [hx, h1]
    · funext x; simp only [step, newNode]; by_cases hx : x = s.next <;> simp [hx, h2]
  | add p c => exact add_inv s p c h hp
  | insert p i c => exact insert_inv s p i c h hp
  | remove p c => exact cRemove_inv s p c h hp
  | removeAll p => exact (removeAll_inv s p h).1
  | setChildren p items => exact setChildren_inv s p items h hp.1 hp.2
  | sort p rank => exact sort_inv _ _ s p h
  | reestablish a => exact inv_of_eq (s := s) rfl rfl h
  | moveTo c hh =>
    simp only [step, moveTo]
    split
    · exact h
    · split
      · exact inv_of_eq (s := s) rfl rfl h
      · exact h
  | copy n => exact absurd hp id

/-- preconditions along a run -/
def PreAll : St → List Op → Prop
  | _, [] => True
  | s, op :: rest => Pre s op ∧ PreAll (step s op) rest

/-- **Every reachable state is well formed**: any finite sequence of edits (unbounded length), each
used validly, from a well-formed state. -/
theorem inv_run : ∀ (ops : List Op) (s : St), Inv s → PreAll s ops → Inv (ops.foldl step s)
  | [], _, h, _ => h
  | op :: rest, s, h, hp => inv_run rest (step s op) (inv_step s op h hp.1) hp.2

theorem inv_empty : Inv St.empty := by
  refine ⟨?_, ?_, ?_⟩
  · intro p c hc; simp [St.empty] at hc
  · intro c p hc; simp [St.empty] at hc
  · intro p; simp [St.empty]

/-- non-vacuity: a concrete 3-level history (core / assembly / block / component) satisfies every precondition -/
example : PreAll St.empty
    [.new kCore 0 0 true, .new kAssembly 0 0 true, .new kBlock 0 0 false, .new kComponent 1 1 false,
     .add 2 3, .add 1 2, .add 0 1, .remove 2 3, .insert 2 (-5) 3, .removeAll 7] := by
  simp [PreAll, Pre, step, newNode, St.empty, add, cAdd, kCore, kAssembly, kBlock, kComponent, setKids, setParent,
    setLoc, reestablish, removeAll, seqOps, remove, cRemove, insert, cInsert]

/-- acyclicity is kept by a valid add (the new child is not an ancestor of the parent) and by remove -/
theorem cAdd_acyclic (s : St) (p c : Nat) (h : Inv s) (ha : Acyclic s) (hc : s.parent c = none)
    (hcyc : ¬ Anc s c p) : Acyclic (cAdd s p c).1 := by
  have hnot : c ∉ s.kids p := by intro hq; have := h.1 p c hq; simp [hc] at this
  unfold cAdd; simp only [hnot, if_false]
  exact acyclic_attach s p c _ h ha hc hcyc

theorem cInsert_acyclic (s : St) (p : Nat) (i : Int) (c : Nat) (h : Inv s) (ha : Acyclic s)
    (hc : s.parent c = none) (hcyc : ¬ Anc s c p) : Acyclic (cInsert s p i c).1 := by
  have hnot : c ∉ s.kids p := by intro hq; have := h.1 p c hq; simp [hc] at this
  unfold cInsert; simp only [hnot, if_false]
  exact acyclic_attach s p c _ h ha hc hcyc

theorem cRemove_acyclic (s : St) (p c : Nat) (ha : Acyclic s) : Acyclic (cRemove s p c).1 := by
  obtain ⟨d, hd⟩ := ha
  refine ⟨d, ?_⟩
  intro x q hx
  by_cases hxc : x = c
  · subst hxc; unfold cRemove at hx; split at hx <;> simp [setKids, setLoc, setParent] at hx
  · rw [cRemove_parent_other s p c x hxc] at hx; exact hd x q hx

/-! ### the excluded points really break the invariant (F4): concrete witnesses -/

private def w3 : St := newNode (newNode (newNode St.empty 0 0 0 false) 0 0 0 false) 0 0 0 false

/-- `append` lists a child without setting its parent -/
theorem append_breaks_inv : ¬ Inv (cAppend w3 0 2) := by
  intro h
  have := h.1 0 2 (by decide)
  revert this; decide

/-- `extend` likewise -/
theorem extend_breaks_inv : ¬ Inv (cExtend w3 0 [1, 2]) := by
  intro h
  have := h.1 0 2 (by decide)
  revert this; decide

/-- `A.add(x); B.add(x)`: x stays in A's list while its parent is B -/
theorem add_parented_breaks_inv : ¬ Inv (cAdd (cAdd w3 0 2).1 1 2).1 := by
  intro h
  have := h.1 0 2 (by decide)
  revert this; decide

/-- `B.remove(y)` for a child y of A: refused, but y's parent is already cleared -/
theorem remove_nonchild_breaks_inv :
    (cRemove (cAdd w3 0 2).1 1 2).2 = false ∧ ¬ Inv (cRemove (cAdd w3 0 2).1 1 2).1 := by
  refine ⟨by decide, ?_⟩
  intro h
  have := h.1 0 2 (by decide)
  revert this; decide

/-- `A.add(B); B.add(A)` is accepted and produces a cycle -/
theorem add_cycle_breaks_acyclic : (cAdd (cAdd w3 0 1).1 1 0).2 = true ∧ ¬ Acyclic (cAdd (cAdd w3 0 1).1 1 0).1 := by
  refine ⟨by decide, ?_⟩
  rintro ⟨d, hd⟩
  have h1 := hd 1 0 (by decide)
  have h2 := hd 0 1 (by decide)
  omega




private theorem nodup_map_on {f : Nat → Nat} : ∀ (l : List Nat), l.Nodup →
    (∀ a ∈ l, ∀ b ∈ l, f a = f b → a = b) → (l.map f).Nodup
  | [], _, _ => List.nodup_nil
  | a :: rest, hnd, hinj => by
    have hnd' := List.nodup_cons.mp hnd
    rw [List.map_cons, List.nodup_cons]
    refine ⟨?_, nodup_map_on rest hnd'.2 (fun x hx y hy => hinj x (by simp [hx]) y (by simp [hy]))⟩
    intro hm
    obtain ⟨b, hb, hfb⟩ := List.mem_map.mp hm
    have := hinj b (by simp [hb]) a (by simp) hfb
    subst this; exact hnd'.1 hb

/-- renaming of an original object to its copy -/
def ren (s : St) (L : List Nat) (o : Nat) : Nat := s.next + L.idxOf o

private theorem getD_idx (L : List Nat) (o : Nat) (h : o ∈ L) : L.getD (L.idxOf o) 0 = o := by
  have hl := List.idxOf_lt_length_of_mem h
  simp [List.getD, List.getElem?_eq_getElem hl, List.getElem_idxOf hl]

private theorem idx_getD (L : List Nat) (hnd : L.Nodup) (i : Nat) (h : i < L.length) :
    L.getD i 0 ∈ L ∧ L.idxOf (L.getD i 0) = i := by
  have e : L.getD i 0 = L[i] := by simp [List.getD, List.getElem?_eq_getElem h]
  rw [e]; exact ⟨List.getElem_mem h, hnd.idxOf_getElem i h⟩

private theorem idx_inj (L : List Nat) (a b : Nat) (ha : a ∈ L) (hb : b ∈ L) (h : L.idxOf a = L.idxOf b) : a = b := by
  rw [← getD_idx L a ha, ← getD_idx L b hb, h]

/-- hypotheses of `copy_spec` on the list of copied objects: root first, no repeats, closed under child
lists, every non-root member listed by a member, the root listed by no member; all ids live -/
structure CopyOK (s : St) (n : Nat) (L : List Nat) : Prop where
  head : ∃ L', L = n :: L'
  nodup : L.Nodup
  closed : ∀ q ∈ L, ∀ c ∈ s.kids q, c ∈ L
  root : ∀ q ∈ L, n ∉ s.kids q
  live : ∀ x ∈ L, x < s.next
  bounded : ∀ p c, c ∈ s.kids p → c < s.next ∧ p < s.next

section
variable (s : St) (n : Nat) (L : List Nat) (hc : CopyOK s n L) (hinv : Inv s)
include hc hinv

private theorem isNew_ren (o : Nat) (ho : o ∈ L) :
    (decide (s.next ≤ ren s L o) && decide (ren s L o < s.next + L.length)) = true := by
  have := List.idxOf_lt_length_of_mem ho
  simp [ren]; omega

private theorem idx_root : L.idxOf n = 0 := by
  obtain ⟨L', e⟩ := hc.head; subst e; simp

private theorem ren_eq_base (o : Nat) (ho : o ∈ L) : ren s L o = s.next ↔ o = n := by
  have hn : n ∈ L := by obtain ⟨L', e⟩ := hc.head; subst e; simp
  constructor
  · intro h
    have : L.idxOf o = L.idxOf n := by rw [idx_root s n L hc hinv]; simp [ren] at h; exact h
    exact idx_inj L o n ho hn this
  · intro h; rw [h]; simp [ren, idx_root s n L hc hinv]

private theorem lister_eq (o c : Nat) (ho : o ∈ L) (hcn : c ∈ s.kids o) :
    L.find? (fun q => decide (c ∈ s.kids q)) = some o := by
  cases hf : L.find? (fun q => decide (c ∈ s.kids q)) with
  | none =>
    have := (List.find?_eq_none.mp hf) o ho
    simp [hcn] at this
  | some q =>
    have hq := List.find?_some hf
    simp at hq
    have h1 := hinv.1 q c hq
    have h2 := hinv.1 o c hcn
    rw [h1] at h2; cases h2; rfl

/-- kids of a copy -/
theorem copy_kids_new (o : Nat) (ho : o ∈ L) :
    (copyWith s L).kids (ren s L o) = (s.kids o).map (ren s L) := by
  have h1 := isNew_ren s n L hc hinv o ho
  simp only [copyWith, h1, if_true]
  have : ren s L o - s.next = L.idxOf o := by simp [ren]
  rw [this, getD_idx L o ho]; rfl

theorem copy_parent_new (o c : Nat) (ho : o ∈ L) (hcn : c ∈ s.kids o) :
    (copyWith s L).parent (ren s L c) = some (ren s L o) := by
  have hcL := hc.closed o ho c hcn
  have h1 := isNew_ren s n L hc hinv c hcL
  have hne : ren s L c ≠ s.next := by
    intro e; have := (ren_eq_base s n L hc hinv c hcL).mp e; subst this; exact hc.root o ho hcn
  have e : L.getD (ren s L c - s.next) 0 = c := by
    have : ren s L c - s.next = L.idxOf c := by simp [ren]
    rw [this]; exact getD_idx L c hcL
  simp only [copyWith, h1, if_true, hne, if_false, e, lister_eq s n L hc hinv o c ho hcn]; rfl

theorem copy_old (x : Nat) (hx : x < s.next) :
    (copyWith s L).parent x = s.parent x ∧ (copyWith s L).kids x = s.kids x ∧
    (copyWith s L).loc x = s.loc x ∧ (copyWith s L).grid x = s.grid x ∧
    (copyWith s L).kind x = s.kind x ∧ (copyWith s L).flags x = s.flags x ∧ (copyWith s L).typ x = s.typ x := by
  have h1 : ¬ s.next ≤ x := by omega
  simp [copyWith, h1]

private theorem new_is_ren (x : Nat) (hx : (decide (s.next ≤ x) && decide (x < s.next + L.length)) = true) :
    L.getD (x - s.next) 0 ∈ L ∧ x = ren s L (L.getD (x - s.next) 0) := by
  simp at hx
  obtain ⟨hx1, hx2⟩ := hx
  have := idx_getD L hc.nodup (x - s.next) (by omega)
  refine ⟨this.1, ?_⟩
  rw [ren, this.2]; omega

/-- **copy_spec, part 1: the state with the copy added is well formed** -/
theorem copy_inv : Inv (copyWith s L) := by
  refine ⟨?_, ?_, ?_⟩
  · intro p' c' hk
    by_cases hp : (decide (s.next ≤ p') && decide (p' < s.next + L.length)) = true
    · obtain ⟨hoL, he⟩ := new_is_ren s n L hc hinv p' hp
      generalize L.getD (p' - s.next) 0 = o at hoL he
      subst he
      rw [copy_kids_new s n L hc hinv o hoL] at hk
      obtain ⟨c, hcn, rfl⟩ := List.mem_map.mp hk
      exact copy_parent_new s n L hc hinv o c hoL hcn
    · have hp' : (decide (s.next ≤ p') && decide (p' < s.next + L.length)) = false := by simpa using hp
      have hk' : c' ∈ s.kids p' := by
        have := hk; simp only [copyWith, hp', Bool.false_eq_true, if_false] at this; exact this
      have hb := hc.bounded p' c' hk'
      rw [(copy_old s n L hc hinv c' hb.1).1]
      exact hinv.1 p' c' hk'
  · intro c' p' hpar
    by_cases hcnew : (decide (s.next ≤ c') && decide (c' < s.next + L.length)) = true
    · obtain ⟨hoL, he⟩ := new_is_ren s n L hc hinv c' hcnew
      simp only [copyWith, hcnew, if_true] at hpar
      by_cases hb : c' = s.next
      · simp [hb] at hpar
      · simp only [hb, if_false] at hpar
        cases hf : L.find? (fun q => decide (L.getD (c' - s.next) 0 ∈ s.kids q)) with
        | none => rw [hf] at hpar; simp at hpar
        | some q =>
          rw [hf] at hpar
          simp at hpar
          have hqL := List.mem_of_find?_eq_some hf
          have hq := List.find?_some hf
          simp at hq
          have : p' = ren s L q := by simp [ren]; omega
          subst this
          rw [copy_kids_new s n L hc hinv q hqL]
          exact List.mem_map.mpr ⟨_, hq, he.symm⟩
    · have hc' : (decide (s.next ≤ c') && decide (c' < s.next + L.length)) = false := by simpa using hcnew
      have hpar' : s.parent c' = some p' := by
        have := hpar; simp only [copyWith, hc', Bool.false_eq_true, if_false] at this; exact this
      have hk := hinv.2 c' p' hpar'
      have hb := hc.bounded p' c' hk
      rw [(copy_old s n L hc hinv p' hb.2).2.1]; exact hk
  · intro p'
    by_cases hp : (decide (s.next ≤ p') && decide (p' < s.next + L.length)) = true
    · obtain ⟨hoL, he⟩ := new_is_ren s n L hc hinv p' hp
      generalize L.getD (p' - s.next) 0 = o at hoL he
      subst he
      rw [copy_kids_new s n L hc hinv o hoL]
      apply nodup_map_on _ (hinv.3 o)
      intro a ha b hb hab
      have : L.idxOf a = L.idxOf b := by simp [ren] at hab; exact hab
      exact idx_inj L a b (hc.closed o hoL a ha) (hc.closed o hoL b hb) this
    · have hp' : (decide (s.next ≤ p') && decide (p' < s.next + L.length)) = false := by simpa using hp
      simp only [copyWith, hp', Bool.false_eq_true, if_false]; exact hinv.3 p'

/-- **copy_spec, part 2** -- the copy is a fresh, equal-shaped, internally re-linked tree and the original
is untouched:
* fresh ids: every copy id is `≥ s.next` (no live object has it) and the renaming is injective;
* root: the copy's root has no parent and a detached locator;
* shape: the child list of the copy of `o` is the renamed child list of `o`, kind/flags/type equal;
* re-linked: each child of a copied object points at the copied parent;
* grids: if `o` has a grid, its copy has a FRESH grid whose owner is the copy, and the copied children's
  locators live in it; the original's grid and its owner are unchanged (`copy_old`, owner frame). -/
theorem copy_spec :
    (∀ o ∈ L, s.next ≤ ren s L o ∧ ren s L o < (copyWith s L).next) ∧
    (∀ a ∈ L, ∀ b ∈ L, ren s L a = ren s L b → a = b) ∧
    (copyWith s L).parent (ren s L n) = none ∧ (copyWith s L).loc (ren s L n) = none ∧
    (∀ o ∈ L, (copyWith s L).kids (ren s L o) = (s.kids o).map (ren s L) ∧
        (copyWith s L).kind (ren s L o) = s.kind o ∧ (copyWith s L).flags (ren s L o) = s.flags o ∧
        (copyWith s L).typ (ren s L o) = s.typ o) ∧
    (∀ o ∈ L, ∀ c ∈ s.kids o, (copyWith s L).parent (ren s L c) = some (ren s L o)) ∧
    (∀ o ∈ L, (s.grid o).isSome = true →
        (copyWith s L).grid (ren s L o) = some (s.nextGrid + L.idxOf o) ∧
        (copyWith s L).owner (s.nextGrid + L.idxOf o) = some (ren s L o) ∧
        ∀ c ∈ s.kids o, (copyWith s L).loc (ren s L c) = some (s.nextGrid + L.idxOf o)) ∧
    (∀ g, g < s.nextGrid → (copyWith s L).owner g = s.owner g) := by
  have hn : n ∈ L := by obtain ⟨L', e⟩ := hc.head; subst e; simp
  have hsub : ∀ o, o ∈ L → ren s L o - s.next = L.idxOf o := by intro o _; simp [ren]
  refine ⟨?_, ?_, ?_, ?_, ?_, ?_, ?_, ?_⟩
  · intro o ho
    have := List.idxOf_lt_length_of_mem ho
    simp [ren, copyWith]; omega
  · intro a ha b hb hab
    exact idx_inj L a b ha hb (by simp [ren] at hab; exact hab)
  · have h1 := isNew_ren s n L hc hinv n hn
    have hb := (ren_eq_base s n L hc hinv n hn).mpr rfl
    rw [hb] at h1 ⊢
    simp only [copyWith, h1, if_true]
  · have h1 := isNew_ren s n L hc hinv n hn
    have hb := (ren_eq_base s n L hc hinv n hn).mpr rfl
    rw [hb] at h1 ⊢
    simp only [copyWith, h1, if_true]
  · intro o ho
    have h1 := isNew_ren s n L hc hinv o ho
    refine ⟨copy_kids_new s n L hc hinv o ho, ?_, ?_, ?_⟩ <;>
      simp only [copyWith, h1, if_true, hsub o ho, getD_idx L o ho]
  · intro o ho c hcn; exact copy_parent_new s n L hc hinv o c ho hcn
  · intro o ho hg
    have h1 := isNew_ren s n L hc hinv o ho
    have hl := List.idxOf_lt_length_of_mem ho
    obtain ⟨g0, hg0⟩ := Option.isSome_iff_exists.mp hg
    refine ⟨?_, ?_, ?_⟩
    · simp only [copyWith, h1, if_true, hsub o ho, getD_idx L o ho, hg0, Option.map_some]
    · have h2 : (decide (s.nextGrid ≤ s.nextGrid + L.idxOf o) && decide (s.nextGrid + L.idxOf o < s.nextGrid + L.length)) = true := by
        simp; omega
      have h3 : s.nextGrid + L.idxOf o - s.nextGrid = L.idxOf o := by omega
      simp only [copyWith, h2, if_true, h3, getD_idx L o ho, hg]
      simp [ren]
    · intro c hcn
      have hcL := hc.closed o ho c hcn
      have h1c := isNew_ren s n L hc hinv c hcL
      have hne : ren s L c ≠ s.next := by
        intro e; have := (ren_eq_base s n L hc hinv c hcL).mp e; subst this; exact hc.root o ho hcn
      simp only [copyWith, h1c, if_true, hne, if_false, hsub c hcL, getD_idx L c hcL,
        lister_eq s n L hc hinv o c ho hcn, hg0, Option.map_some]
  · intro g hg
    have h2 : ¬ s.nextGrid ≤ g := by omega
    simp [copyWith, h2]
end



private theorem nodup_flatMap_of {f : Nat → List Nat} : ∀ (l : List Nat), l.Nodup → (∀ a ∈ l, (f a).Nodup) →
    (∀ a ∈ l, ∀ b ∈ l, a ≠ b → ∀ m, m ∈ f a → m ∉ f b) → (l.flatMap f).Nodup
  | [], _, _, _ => by simp
  | a :: rest, hnd, hf, hd => by
    have hnd' := List.nodup_cons.mp hnd
    rw [List.flatMap_cons, List.nodup_append]
    refine ⟨hf a (by simp), nodup_flatMap_of rest hnd'.2 (fun x hx => hf x (by simp [hx]))
      (fun x hx y hy => hd x (by simp [hx]) y (by simp [hy])), ?_⟩
    intro x hx y hy hxy
    subst hxy
    obtain ⟨b, hb, hyb⟩ := List.mem_flatMap.mp hy
    have hab : a ≠ b := by intro e; subst e; exact hnd'.1 hb
    exact hd a (by simp) b (by simp [hb]) hab x hx hyb

private theorem descN_snoc (s : St) {k a q c : Nat} (h : DescN s k a q) : c ∈ s.kids q → DescN s (k + 1) a c := by
  induction h with
  | child hca => intro hc; exact DescN.step hca (DescN.child hc)
  | step hca _ ih => intro hc; exact DescN.step hca (ih hc)

/-- depth function witnessing acyclicity -/
def DepthFn (s : St) (d : Nat → Nat) : Prop := ∀ c p, s.parent c = some p → d p < d c

section
variable (s : St) (d : Nat → Nat) (hinv : Inv s) (hd : DepthFn s d)
include hinv hd

theorem desc_depth {n m : Nat} (h : Desc s n m) : d n < d m := by
  induction h with
  | child hc => exact hd _ _ (hinv.1 _ _ hc)
  | step hc _ ih => exact Nat.lt_trans (hd _ _ (hinv.1 _ _ hc)) ih

theorem desc_parent {c m : Nat} (h : Desc s c m) : ∃ q, s.parent m = some q ∧ (q = c ∨ Desc s c q) := by
  induction h with
  | child hc => exact ⟨_, hinv.1 _ _ hc, Or.inl rfl⟩
  | step hc _ ih =>
    obtain ⟨q, hq, hor⟩ := ih
    refine ⟨q, hq, Or.inr ?_⟩
    rcases hor with e | hdq
    · subst e; exact Desc.child hc
    · exact Desc.step hc hdq

/-- two different children of the same object have no common descendant -/
theorem desc_unique_child (n : Nat) : ∀ (N m c1 c2 : Nat), d m ≤ N → s.parent c1 = some n → s.parent c2 = some n →
    Desc s c1 m → Desc s c2 m → c1 = c2 := by
  intro N
  induction N with
  | zero =>
    intro m c1 c2 hN _ _ h1 _
    have := desc_depth s d hinv hd h1; omega
  | succ N ih =>
    intro m c1 c2 hN hp1 hp2 h1 h2
    obtain ⟨q1, hq1, ho1⟩ := desc_parent s d hinv hd h1
    obtain ⟨q2, hq2, ho2⟩ := desc_parent s d hinv hd h2
    rw [hq1] at hq2; cases hq2
    have hdq : d q1 < d m := hd _ _ hq1
    -- a child of n cannot have n (or itself) below it
    have no_loop : ∀ a b, s.parent a = some n → s.parent b = some n → Desc s a b → False := by
      intro a b ha hb hab
      obtain ⟨q, hq, hor⟩ := desc_parent s d hinv hd hab
      rw [hb] at hq; cases hq
      rcases hor with e | hdn
      · subst e; have := hd _ _ ha; omega
      · have := desc_depth s d hinv hd hdn; have := hd _ _ ha; omega
    rcases ho1 with e1 | hd1 <;> rcases ho2 with e2 | hd2
    · rw [← e1, ← e2]
    · subst e1; exact absurd hd2 (fun h => no_loop c2 q1 hp2 hp1 h)
    · subst e2; exact absurd hd1 (fun h => no_loop c1 q1 hp1 hp2 h)
    · exact ih q1 c1 c2 (by omega) hp1 hp2 hd1 hd2

/-- **each descendant exactly once**: the deep traversal has no repeats (any fuel) -/
theorem iterC_deep_nodup : ∀ (fuel : Nat) (g : Int) (n : Nat), (iterC s fuel true g (fun _ => true) n).Nodup
  | 0, _, _ => by simp [iterC]
  | f + 1, g, n => by
    have hun : iterC s (f + 1) true g (fun _ => true) n =
        s.kids n ++ (s.kids n).flatMap (fun c => iterC s f true (g - 1) (fun _ => true) c) := by
      simp [iterC]
    rw [hun, List.nodup_append]
    refine ⟨hinv.3 n, ?_, ?_⟩
    · apply nodup_flatMap_of _ (hinv.3 n) (fun c _ => iterC_deep_nodup f (g - 1) c)
      intro a ha b hb hab m hma hmb
      have h1 := iterC_deep_sound s f (g - 1) a m hma
      have h2 := iterC_deep_sound s f (g - 1) b m hmb
      exact hab (desc_unique_child s d hinv hd n (d m) m a b (Nat.le_refl _) (hinv.1 n a ha) (hinv.1 n b hb) h1 h2)
    · intro k hk y hy hky
      subst hky
      obtain ⟨c, hc, hkc⟩ := List.mem_flatMap.mp hy
      have hdk := iterC_deep_sound s f (g - 1) c k hkc
      obtain ⟨q, hq, hor⟩ := desc_parent s d hinv hd hdk
      rw [hinv.1 n k hk] at hq; cases hq
      have hpc := hd _ _ (hinv.1 n c hc)
      rcases hor with e | hdn
      · subst e; omega
      · have := desc_depth s d hinv hd hdn; omega

theorem desc_descN {n m : Nat} (h : Desc s n m) : ∃ k, DescN s k n m := by
  induction h with
  | child hc => exact ⟨1, DescN.child hc⟩
  | step hc _ ih => obtain ⟨k, hk⟩ := ih; exact ⟨k + 1, DescN.step hc hk⟩

/-- the list the copy works on (root, then the deep traversal) meets every hypothesis of `copy_spec`,
for a well-formed acyclic state whose ids are live, provided the driver's fuel (number of objects + 1)
is enough, i.e. no descendant of `n` lies deeper than the number of objects (true by pigeonhole for
live acyclic trees; kept as an explicit hypothesis) -/
theorem copyOK_subtree (n : Nat) (hn : n < s.next)
    (hb : ∀ p c, c ∈ s.kids p → c < s.next ∧ p < s.next)
    (hdepth : ∀ k m, DescN s k n m → k ≤ s.next + 1) :
    CopyOK s n (subtreeList s n) := by
  have sound : ∀ m, m ∈ iterC s (s.next + 1) true 1 (fun _ => true) n → Desc s n m :=
    fun m hm => iterC_deep_sound s _ _ n m hm
  refine ⟨⟨_, rfl⟩, ?_, ?_, ?_, ?_, hb⟩
  · unfold subtreeList
    rw [List.nodup_cons]
    refine ⟨?_, iterC_deep_nodup s d hinv hd _ _ _⟩
    intro hm; have := desc_depth s d hinv hd (sound n hm); omega
  · intro q hq c hc
    unfold subtreeList at hq ⊢
    have hdc : ∃ k, DescN s k n c := by
      rcases List.mem_cons.mp hq with e | hq'
      · subst e; exact ⟨1, DescN.child hc⟩
      · obtain ⟨k, hk⟩ := desc_descN s d hinv hd (sound q hq')
        -- append the last edge q → c at the bottom
        exact ⟨k + 1, descN_snoc s hk hc⟩
    obtain ⟨k, hk⟩ := hdc
    exact List.mem_cons_of_mem _ (iterC_deep_complete s k _ 1 n c hk (hdepth k c hk))
  · intro q hq hnq
    unfold subtreeList at hq
    have hpn := hd _ _ (hinv.1 q n hnq)
    rcases List.mem_cons.mp hq with e | hq'
    · subst e; omega
    · have := desc_depth s d hinv hd (sound q hq'); omega
  · intro x hx
    unfold subtreeList at hx
    rcases List.mem_cons.mp hx with e | hx'
    · subst e; exact hn
    · obtain ⟨q, hq, _⟩ := desc_parent s d hinv hd (sound x hx')
      exact (hb q x (hinv.2 x q hq)).1
end



/-! ### acyclicity threaded through every run -/

theorem anc_depth {s : St} {d : Nat → Nat} (hd : DepthFn s d) {a x : Nat} (h : Anc s a x) : d a ≤ d x := by
  induction h with
  | refl => exact Nat.le_refl _
  | step hp _ ih => exact Nat.le_trans ih (Nat.le_of_lt (hd _ _ hp))

private theorem anc_ext {s : St} {x p q : Nat} (h : Anc s x p) : s.parent x = some q → Anc s q p := by
  induction h with
  | refl => intro hq; exact Anc.step hq Anc.refl
  | step hp _ ih => intro hq; exact Anc.step hp (ih hq)

/-- if `t` agrees with `s` on the parent pointers of all `s`-ancestors of `p`, ancestors of `p` in `t`
are ancestors in `s` -/
private theorem anc_agree {s t : St} {p : Nat} (hag : ∀ x, Anc s x p → t.parent x = s.parent x) {a : Nat}
    (h : Anc t a p) : Anc s a p := by
  have gen : ∀ x, Anc t a x → Anc s x p → Anc s a x := by
    intro x hx
    induction hx with
    | refl => intro _; exact Anc.refl
    | step hp _ ih =>
      intro hxp
      rw [hag _ hxp] at hp
      exact Anc.step hp (ih (anc_ext hxp hp))
  exact gen p h Anc.refl

theorem add_acyclic (s : St) (p c : Nat) (h : Inv s) (ha : Acyclic s) (hc : s.parent c = none)
    (hcyc : ¬ Anc s c p) : Acyclic (add s p c).1 := by
  have hi := cAdd_acyclic s p c h ha hc hcyc
  unfold add
  by_cases h1 : s.kind p = kAssembly
  · simp only [h1, if_true]
    by_cases h2 : s.kind c ≠ kBlock
    · rw [if_pos h2]; exact ha
    · rw [if_neg h2]
      split
      · exact acyclic_of_eq (s := (cAdd s p c).1) rfl hi
      · exact hi
  · simp only [h1, if_false]
    by_cases h3 : s.kind p = kCore
    · simp only [h3, if_true]
      split
      · exact acyclic_of_eq (s := (cAdd s p c).1) rfl hi
      · exact hi
    · simp only [h3, if_false]; exact hi

theorem insert_acyclic (s : St) (p : Nat) (i : Int) (c : Nat) (h : Inv s) (ha : Acyclic s)
    (hc : s.parent c = none) (hcyc : ¬ Anc s c p) : Acyclic (insert s p i c).1 := by
  have hi := cInsert_acyclic s p i c h ha hc hcyc
  unfold insert
  by_cases h1 : s.kind p = kAssembly
  · simp only [h1, if_true]
    by_cases h2 : s.kind c ≠ kBlock
    · rw [if_pos h2]; exact ha
    · rw [if_neg h2]
      split
      · exact acyclic_of_eq (s := (cInsert s p i c).1) rfl hi
      · exact hi
  · simp only [h1, if_false]; exact hi

private theorem seqOps_keeps (P : St → Prop) (f : St → Nat → St × Bool) (hf : ∀ t c, P t → P (f t c).1) :
    ∀ (l : List Nat) (s : St) (b : Bool), P s → P (l.foldl (fun acc c => if acc.2 then f acc.1 c else acc) (s, b)).1
  | [], _, _, h => h
  | c :: rest, s, b, h => by
    rw [List.foldl_cons]
    cases b with
    | true => simp only [if_true]; exact seqOps_keeps P f hf rest _ _ (hf s c h)
    | false => exact seqOps_keeps P f hf rest s false h

private theorem seqOps_stop (f : St → Nat → St × Bool) : ∀ (l : List Nat) (t : St),
    (l.foldl (fun acc c => if acc.2 = true then f acc.1 c else acc) (t, false)) = (t, false)
  | [], _ => rfl
  | _ :: l, t => by simp [List.foldl_cons, seqOps_stop f l t]

theorem removeAll_acyclic (s : St) (p : Nat) (ha : Acyclic s) : Acyclic (removeAll s p).1 :=
  seqOps_keeps Acyclic (fun t c => remove t p c) (fun t c h => cRemove_acyclic t p c h) _ s true ha

private theorem seqAdd_wf (p : Nat) : ∀ (l : List Nat) (s : St), Inv s → Acyclic s → l.Nodup →
    (∀ c ∈ l, s.parent c = none) → (∀ c ∈ l, ¬ Anc s c p) → Acyclic (seqOps (fun t c => add t p c) s l).1 := by
  intro l
  induction l with
  | nil => intro s _ ha _ _ _; simpa [seqOps] using ha
  | cons c rest ih =>
    intro s h ha hnd hall hanc
    have hnd' := List.nodup_cons.mp hnd
    have hi := add_inv s p c h (hall c (by simp))
    have hai := add_acyclic s p c h ha (hall c (by simp)) (hanc c (by simp))
    simp only [seqOps, List.foldl_cons, if_true]
    by_cases hok : (add s p c).2 = true
    · have e : add s p c = ((add s p c).1, true) := Prod.ext rfl hok
      rw [e]
      apply ih _ hi hai hnd'.2
      · intro x hx
        have hne : x ≠ c := by intro e; subst e; exact hnd'.1 hx
        rw [add_parent_other s p c x hne]; exact hall x (by simp [hx])
      · intro x hx hA
        apply hanc x (by simp [hx])
        apply anc_agree (s := s) (t := (add s p c).1) _ hA
        intro y hy
        have hne : y ≠ c := by intro e; rw [e] at hy; exact hanc c (by simp) hy
        exact add_parent_other s p c y hne
    · have hfalse : (add s p c).2 = false := by simpa using hok
      have e : add s p c = ((add s p c).1, false) := Prod.ext rfl hfalse
      rw [e, seqOps_stop (fun t c => add t p c) rest]; exact hai

theorem setChildren_acyclic (s : St) (p : Nat) (items : List Nat) (h : Inv s) (ha : Acyclic s) (hnd : items.Nodup)
    (hit : ∀ c ∈ items, (s.parent c = none ∨ s.parent c = some p) ∧ ¬ Anc s c p) :
    Acyclic (setChildren s p items).1 := by
  obtain ⟨i1, i2, _, i4, i5⟩ := removeAll_inv s p h
  have a1 := removeAll_acyclic s p ha
  obtain ⟨d, hd⟩ := ha
  unfold setChildren
  simp only [i2, if_true]
  apply seqAdd_wf p items _ i1 a1 hnd
  · intro c hc
    by_cases hk : c ∈ s.kids p
    · exact i4 c hk
    · rw [i5 c hk]
      rcases (hit c hc).1 with h0 | h1
      · exact h0
      · exact absurd (h.2 c p h1) hk
  · intro c hc hA
    apply (hit c hc).2
    apply anc_agree (s := s) (t := (removeAll s p).1) _ hA
    intro y hy
    by_cases hk : y ∈ s.kids p
    · have h1 := anc_depth (s := s) hd hy
      have h2 := hd _ _ (h.1 p y hk)
      omega
    · exact i5 y hk

/-- well formed AND acyclic -/
def WFT (s : St) : Prop := Inv s ∧ Acyclic s

/-- preconditions of "valid use", now with the no-cycle side condition on every attachment -/
def PreA (s : St) : Op → Prop
  | .add p c => s.parent c = none ∧ ¬ Anc s c p
  | .insert p _ c => s.parent c = none ∧ ¬ Anc s c p
  | .setChildren p items => items.Nodup ∧ ∀ c ∈ items, (s.parent c = none ∨ s.parent c = some p) ∧ ¬ Anc s c p
  | op => Pre s op

private theorem samePerm_acyclic {s t : St} (hp : SamePerm s t) (h : Acyclic s) : Acyclic t :=
  acyclic_of_eq hp.1 h

/-- **One step keeps the tree well formed and acyclic.** -/
theorem wft_step (s : St) (op : Op) (h : WFT s) (hp : PreA s op) : WFT (step s op) := by
  obtain ⟨hi, ha⟩ := h
  cases op with
  | new k f t g =>
    refine ⟨inv_step s _ hi hp, ?_⟩
    apply acyclic_of_eq (s := s) _ ha
    funext x; simp only [step, newNode]; by_cases hx : x = s.next <;> simp [hx, hp.1]
  | add p c => exact ⟨add_inv s p c hi hp.1, add_acyclic s p c hi ha hp.1 hp.2⟩
  | insert p i c => exact ⟨insert_inv s p i c hi hp.1, insert_acyclic s p i c hi ha hp.1 hp.2⟩
  | remove p c => exact ⟨cRemove_inv s p c hi hp, cRemove_acyclic s p c ha⟩
  | removeAll p => exact ⟨(removeAll_inv s p hi).1, removeAll_acyclic s p ha⟩
  | setChildren p items =>
    exact ⟨setChildren_inv s p items hi hp.1 (fun c hc => (hp.2 c hc).1),
      setChildren_acyclic s p items hi ha hp.1 hp.2⟩
  | sort p rank => exact ⟨sort_inv _ _ s p hi, samePerm_acyclic (sortRec_samePerm _ _ s p) ha⟩
  | reestablish a => exact ⟨inv_step s _ hi hp, acyclic_of_eq (s := s) rfl ha⟩
  | moveTo c hh =>
    refine ⟨inv_step s _ hi hp, ?_⟩
    simp only [step, moveTo]
    split
    · exact ha
    · split
      · exact acyclic_of_eq (s := s) rfl ha
      · exact ha
  | copy n => exact absurd hp id

def PreAllA : St → List Op → Prop
  | _, [] => True
  | s, op :: rest => PreA s op ∧ PreAllA (step s op) rest

/-- **Every reachable state is a well-formed, acyclic forest** (any finite valid-use edit history). -/
theorem wft_run : ∀ (ops : List Op) (s : St), WFT s → PreAllA s ops → WFT (ops.foldl step s)
  | [], _, h, _ => h
  | op :: rest, s, h, hp => wft_run rest (step s op) (wft_step s op h hp.1) hp.2

theorem wft_empty : WFT St.empty := ⟨inv_empty, ⟨fun _ => 0, by intro c p h; simp [St.empty] at h⟩⟩

/-! ### order of the deep traversal; components -/

/-- **the order the code produces**: the direct children in child order, then, child by child in child
order, that child's own deep traversal as one contiguous block -/
theorem iterC_deep_order (s : St) (f : Nat) (g : Int) (n : Nat) :
    iterC s (f + 1) true g (fun _ => true) n =
      s.kids n ++ (s.kids n).flatMap (fun c => iterC s f true (g - 1) (fun _ => true) c) := by
  simp [iterC]

/-- the usual naive pre-order walk: each child immediately followed by its own walk -/
def preWalk (s : St) : Nat → Nat → List Nat
  | 0, _ => []
  | f + 1, n => (s.kids n).flatMap (fun c => c :: preWalk s f c)

private theorem perm_flatMap_cons (g : Nat → List Nat) : ∀ (l : List Nat),
    (l.flatMap (fun c => c :: g c)).Perm (l ++ l.flatMap g)
  | [] => List.Perm.refl _
  | a :: rest => by
    simp only [List.flatMap_cons, List.cons_append]
    refine List.Perm.cons a ?_
    have ih := perm_flatMap_cons g rest
    calc g a ++ rest.flatMap (fun c => c :: g c)
        _ |>.Perm (g a ++ (rest ++ rest.flatMap g)) := List.Perm.append_left _ ih
        _ |>.Perm (rest ++ (g a ++ rest.flatMap g)) := by
          rw [← List.append_assoc, ← List.append_assoc]
          exact List.Perm.append_right _ List.perm_append_comm

private theorem perm_flatMap_congr {f g : Nat → List Nat} : ∀ (l : List Nat), (∀ c ∈ l, (f c).Perm (g c)) →
    (l.flatMap f).Perm (l.flatMap g)
  | [], _ => List.Perm.refl _
  | a :: rest, h => by
    simp only [List.flatMap_cons]
    exact List.Perm.append (h a (by simp)) (perm_flatMap_congr rest (fun c hc => h c (by simp [hc])))

/-- **the deep traversal returns exactly the objects of the naive pre-order walk, with the same
multiplicities** (it differs from pre-order only by listing the direct children first) -/
theorem iterC_deep_perm_preWalk (s : St) : ∀ (f : Nat) (g : Int) (n : Nat),
    (iterC s f true g (fun _ => true) n).Perm (preWalk s f n)
  | 0, _, _ => by simp [iterC, preWalk]
  | f + 1, g, n => by
    rw [iterC_deep_order]
    unfold preWalk
    refine List.Perm.trans ?_ (perm_flatMap_cons (preWalk s f) (s.kids n)).symm
    exact List.Perm.append_left _ (perm_flatMap_congr _ (fun c _ => iterC_deep_perm_preWalk s f (g - 1) c))

/-- the naive depth-first walk down to the Components (a Component is a leaf of this walk) -/
def compWalk (s : St) : Nat → Nat → List Nat
  | 0, _ => []
  | f + 1, n => if s.kind n = kComponent then [n] else (s.kids n).flatMap (compWalk s f)

/-- **iterComponents_spec**: `iterComponents(typeSpec, exact)` = the Components met by the naive
depth-first walk in child order, filtered by `hasFlags(typeSpec, exact)` -/
theorem iterComps_spec (s : St) (spec : Spec) (exact : Bool) : ∀ (fuel n : Nat),
    iterComps s fuel spec exact n = (compWalk s fuel n).filter (fun m => hasFlags (s.flags m) spec exact)
  | 0, _ => by simp [iterComps, compWalk]
  | f + 1, n => by
    unfold iterComps compWalk
    by_cases hk : s.kind n = kComponent
    · simp only [hk, if_true]
      by_cases hf : hasFlags (s.flags n) spec exact = true <;> simp [hf]
    · simp only [hk, if_false]
      rw [List.filter_flatMap]
      congr 1; funext c; exact iterComps_spec s spec exact f c


/-- **copy_spec for `copy.deepcopy` / pickle of the subtree below `n`** (the list the model copies is
root + deep traversal): the resulting state is well formed; with `copy_spec` (fresh ids, shape,
re-linking, grids) and `copy_old` (the original is untouched) instantiated at `subtreeList s n`. -/
theorem copyTree_inv (s : St) (d : Nat → Nat) (hinv : Inv s) (hd : DepthFn s d) (n : Nat) (hn : n < s.next)
    (hb : ∀ p c, c ∈ s.kids p → c < s.next ∧ p < s.next)
    (hdepth : ∀ k m, DescN s k n m → k ≤ s.next + 1) : Inv (copyTree s n) :=
  copy_inv s n _ (copyOK_subtree s d hinv hd n hn hb hdepth) hinv

/-- non-vacuity of `CopyOK`: a single live object -/
example : CopyOK (newNode St.empty 0 0 0 true) 0 [0] := by
  refine ⟨⟨[], rfl⟩, by simp, ?_, ?_, ?_, ?_⟩
  · intro q _ c hc; rw [show (newNode St.empty 0 0 0 true).kids _ = [] from by (show (if _ = (0:Nat) then ([] : List Nat) else []) = []); exact ite_self _] at hc; cases hc
  · intro q _ hc; rw [show (newNode St.empty 0 0 0 true).kids _ = [] from by (show (if _ = (0:Nat) then ([] : List Nat) else []) = []); exact ite_self _] at hc; cases hc
  · intro x hx; simp at hx; subst hx; simp [newNode, St.empty]
  · intro p c hc; rw [show (newNode St.empty 0 0 0 true).kids _ = [] from by (show (if _ = (0:Nat) then ([] : List Nat) else []) = []); exact ite_self _] at hc; cases hc


/-! ### the pigeonhole depth bound, acyclicity of the copy -/

private theorem nodup_bounded_length : ∀ (N : Nat) (l : List Nat), l.Nodup → (∀ x ∈ l, x < N) → l.length ≤ N
  | 0, l, _, hb => by
    cases l with
    | nil => simp
    | cons a _ => have := hb a (by simp); omega
  | N + 1, l, hnd, hb => by
    have h1 : (l.erase N).Nodup := hnd.erase N
    have h2 : ∀ x ∈ l.erase N, x < N := by
      intro x hx
      have hxl := List.mem_of_mem_erase hx
      have hne : x ≠ N := by intro e; subst e; exact (List.Nodup.not_mem_erase hnd) hx
      have := hb x hxl; omega
    have ih := nodup_bounded_length N (l.erase N) h1 h2
    have hl : l.length ≤ (l.erase N).length + 1 := by
      rw [List.length_erase]; split <;> omega
    omega

/-- the objects on a downward path of length `k`: `k + 1` pairwise different live ids -/
private theorem descN_chain (s : St) (d : Nat → Nat) (hinv : Inv s) (hd : DepthFn s d)
    (hb : ∀ p c, c ∈ s.kids p → c < s.next ∧ p < s.next) {k n m : Nat} (h : DescN s k n m) :
    ∃ l : List Nat, l.length = k + 1 ∧ l.Pairwise (fun a b => d a < d b) ∧
      (∀ x ∈ l, d n ≤ d x) ∧ (∀ x ∈ l, x < s.next) := by
  induction h with
  | @child n c hc =>
    have hlt := hd _ _ (hinv.1 _ _ hc)
    refine ⟨[n, c], rfl, ?_, ?_, ?_⟩
    · simp [hlt]
    · intro x hx; simp at hx; rcases hx with e | e <;> subst e <;> omega
    · intro x hx; simp at hx; have := hb n c hc; rcases hx with e | e <;> subst e <;> omega
  | @step k n c m hc _ ih =>
    obtain ⟨l, hl, hp, hmin, hlive⟩ := ih
    have hlt := hd _ _ (hinv.1 _ _ hc)
    refine ⟨n :: l, by simp [hl], ?_, ?_, ?_⟩
    · rw [List.pairwise_cons]; exact ⟨fun x hx => by have := hmin x hx; omega, hp⟩
    · intro x hx; rcases List.mem_cons.mp hx with e | hx'
      · subst e; omega
      · have := hmin x hx'; omega
    · intro x hx; rcases List.mem_cons.mp hx with e | hx'
      · subst e; exact (hb _ _ hc).2
      · exact hlive x hx'

/-- **pigeonhole depth bound**: in a well-formed acyclic state whose ids are live no object lies deeper
below another than the number of objects -/
theorem depth_bound (s : St) (d : Nat → Nat) (hinv : Inv s) (hd : DepthFn s d)
    (hb : ∀ p c, c ∈ s.kids p → c < s.next ∧ p < s.next) {k n m : Nat} (h : DescN s k n m) : k + 1 ≤ s.next := by
  obtain ⟨l, hl, hp, _, hlive⟩ := descN_chain s d hinv hd hb h
  have hnd : l.Nodup := hp.imp (by intro a b hab e; subst e; omega)
  have := nodup_bounded_length s.next l hnd hlive
  omega

/-- the list the copy works on meets every hypothesis of `copy_spec` -- no extra assumption -/
theorem copyOK_subtree' (s : St) (d : Nat → Nat) (hinv : Inv s) (hd : DepthFn s d) (n : Nat) (hn : n < s.next)
    (hb : ∀ p c, c ∈ s.kids p → c < s.next ∧ p < s.next) : CopyOK s n (subtreeList s n) :=
  copyOK_subtree s d hinv hd n hn hb (fun k m h => by have := depth_bound s d hinv hd hb h; omega)

/-- **copy_acyclic**: the state with the copy added is still acyclic (depth of a copy = depth of its original) -/
theorem copy_acyclic (s : St) (n : Nat) (L : List Nat) (hc : CopyOK s n L) (hinv : Inv s) (d : Nat → Nat)
    (hd : DepthFn s d) : Acyclic (copyWith s L) := by
  refine ⟨fun x => if (decide (s.next ≤ x) && decide (x < s.next + L.length)) = true
      then d (L.getD (x - s.next) 0) else d x, ?_⟩
  intro c' p' hpar
  by_cases hcnew : (decide (s.next ≤ c') && decide (c' < s.next + L.length)) = true
  · have hp0 := hpar
    simp only [copyWith, hcnew, if_true] at hpar
    by_cases hbase : c' = s.next
    · simp [hbase] at hpar
    · simp only [hbase, if_false] at hpar
      cases hf : L.find? (fun q => decide (L.getD (c' - s.next) 0 ∈ s.kids q)) with
      | none => rw [hf] at hpar; simp at hpar
      | some q =>
        rw [hf] at hpar
        simp at hpar
        have hqL := List.mem_of_find?_eq_some hf
        have hq := List.find?_some hf
        simp at hq
        have hl := List.idxOf_lt_length_of_mem hqL
        have hpnew : (decide (s.next ≤ p') && decide (p' < s.next + L.length)) = true := by
          simp; omega
        have horig : L.getD (p' - s.next) 0 = q := by
          have : p' - s.next = L.idxOf q := by omega
          rw [this]; exact getD_idx L q hqL
        simp only [hcnew, hpnew, if_true, horig]
        exact hd _ _ (hinv.1 q _ hq)
  · have hc' : (decide (s.next ≤ c') && decide (c' < s.next + L.length)) = false := by simpa using hcnew
    have hpar' : s.parent c' = some p' := by
      have := hpar; simp only [copyWith, hc', Bool.false_eq_true, if_false] at this; exact this
    have hk := hinv.2 c' p' hpar'
    have hbd := hc.bounded p' c' hk
    have hp' : (decide (s.next ≤ p') && decide (p' < s.next + L.length)) = false := by simp; omega
    simp only [hc', hp', Bool.false_eq_true, if_false]
    exact hd _ _ hpar'

/-- the ids stay live after a copy -/
theorem copy_bounded (s : St) (n : Nat) (L : List Nat) (hc : CopyOK s n L) (hinv : Inv s) :
    ∀ p c, c ∈ (copyWith s L).kids p → c < (copyWith s L).next ∧ p < (copyWith s L).next := by
  intro p' c' hk
  have hnext : (copyWith s L).next = s.next + L.length := rfl
  by_cases hp : (decide (s.next ≤ p') && decide (p' < s.next + L.length)) = true
  · have hk' : c' ∈ (s.kids (L.getD (p' - s.next) 0)).map (fun o => s.next + L.idxOf o) := by
      have := hk; simp only [copyWith, hp, if_true] at this; exact this
    obtain ⟨c, hcn, rfl⟩ := List.mem_map.mp hk'
    simp at hp
    have ho := (idx_getD L hc.nodup (p' - s.next) (by omega)).1
    have := List.idxOf_lt_length_of_mem (hc.closed _ ho c hcn)
    rw [hnext]; omega
  · have hp' : (decide (s.next ≤ p') && decide (p' < s.next + L.length)) = false := by simpa using hp
    have hk' : c' ∈ s.kids p' := by
      have := hk; simp only [copyWith, hp', Bool.false_eq_true, if_false] at this; exact this
    have := hc.bounded p' c' hk'
    rw [hnext]; omega

/-! ### copy / pickle inside the op alphabet: `Inv ∧ Acyclic ∧ Live` along every run -/

/-- every id that occurs in a child list (as lister or as child) is a live object -/
def Live (s : St) : Prop := ∀ p c, c ∈ s.kids p → c < s.next ∧ p < s.next

private def PLive (s : St) : Prop := ∀ c q, s.parent c = some q → c < s.next ∧ q < s.next

private theorem plive_of_live {s : St} (hi : Inv s) (h : Live s) : PLive s :=
  fun c q hp => h q c (hi.2 c q hp)
private theorem live_of_plive {s : St} (hi : Inv s) (h : PLive s) : Live s :=
  fun p c hk => h c p (hi.1 p c hk)

/-- transfer: new parent pointers are old ones or connect live objects -/
private theorem plive_transfer {s t : St} (hn : s.next ≤ t.next)
    (h : ∀ x q, t.parent x = some q → s.parent x = some q ∨ (x < t.next ∧ q < t.next)) (hs : PLive s) : PLive t := by
  intro c q hp
  rcases h c q hp with h1 | h2
  · have := hs c q h1; omega
  · exact h2

private theorem add_parent_self (s : St) (p c : Nat) :
    (add s p c).1.parent c = some p ∨ (add s p c).1.parent c = s.parent c := by
  unfold add cAdd reestablish
  repeat' split
  all_goals simp_all [setKids, setLoc, setParent]

private theorem insert_parent_other (s : St) (p : Nat) (i : Int) (c x : Nat) (hx : x ≠ c) :
    (insert s p i c).1.parent x = s.parent x := by
  unfold insert cInsert
  repeat' split
  all_goals simp_all [setKids, setLoc, setParent]

private theorem insert_parent_self (s : St) (p : Nat) (i : Int) (c : Nat) :
    (insert s p i c).1.parent c = some p ∨ (insert s p i c).1.parent c = s.parent c := by
  unfold insert cInsert
  repeat' split
  all_goals simp_all [setKids, setLoc, setParent]

private theorem add_next (s : St) (p c : Nat) : (add s p c).1.next = s.next := by
  unfold add cAdd reestablish
  repeat' split
  all_goals simp_all [setKids, setLoc, setParent]

private theorem insert_next (s : St) (p : Nat) (i : Int) (c : Nat) : (insert s p i c).1.next = s.next := by
  unfold insert cInsert
  repeat' split
  all_goals simp_all [setKids, setLoc, setParent]

private theorem cRemove_next (s : St) (p c : Nat) : (cRemove s p c).1.next = s.next := by
  unfold cRemove; split <;> rfl

private theorem removeAll_next (s : St) (p : Nat) : (removeAll s p).1.next = s.next :=
  seqOps_keeps (fun t => t.next = s.next) (fun t c => remove t p c)
    (fun t c h => by show (cRemove t p c).1.next = s.next; rw [cRemove_next]; exact h) _ s true rfl

private theorem seqAdd_next (p : Nat) (l : List Nat) (s : St) : (seqOps (fun t c => add t p c) s l).1.next = s.next :=
  seqOps_keeps (fun t => t.next = s.next) (fun t c => add t p c)
    (fun t c h => by rw [add_next]; exact h) l s true rfl

private theorem seqAdd_parent (p : Nat) : ∀ (l : List Nat) (s : St) (b : Bool) (x q : Nat),
    (l.foldl (fun acc c => if acc.2 then add acc.1 p c else acc) (s, b)).1.parent x = some q →
      s.parent x = some q ∨ (x ∈ l ∧ q = p)
  | [], _, _, _, _, h => Or.inl h
  | c :: rest, s, b, x, q, h => by
    rw [List.foldl_cons] at h
    cases b with
    | false =>
      rcases seqAdd_parent p rest s false x q h with h1 | h2
      · exact Or.inl h1
      · exact Or.inr ⟨List.mem_cons_of_mem _ h2.1, h2.2⟩
    | true =>
      simp only [if_true] at h
      rcases seqAdd_parent p rest (add s p c).1 (add s p c).2 x q h with h1 | h2
      · by_cases hx : x = c
        · subst hx
          rcases add_parent_self s p x with e | e
          · rw [e] at h1; cases h1; exact Or.inr ⟨by simp, rfl⟩
          · rw [e] at h1; exact Or.inl h1
        · rw [add_parent_other s p c x hx] at h1; exact Or.inl h1
      · exact Or.inr ⟨List.mem_cons_of_mem _ h2.1, h2.2⟩

private theorem sortRec_next (rank : Nat → Nat) : ∀ (f : Nat) (s : St) (p : Nat), (sortRec rank f s p).next = s.next
  | 0, _, _ => rfl
  | f + 1, s, p => by
    unfold sortRec
    have : ∀ (l : List Nat) (t : St), (l.foldl (fun t c => sortRec rank f t c) t).next = t.next := by
      intro l; induction l with
      | nil => intro t; rfl
      | cons a l ih => intro t; rw [List.foldl_cons, ih, sortRec_next rank f t a]
    rw [this]; rfl

/-- well formed, acyclic, all ids live -/
def WFL (s : St) : Prop := Inv s ∧ Acyclic s ∧ Live s

/-- valid use, with liveness of the ids named by the operation; `copy n` (deepcopy or a pickle round trip of the
subtree below a live object) needs nothing else -/
def PreL (s : St) : Op → Prop
  | .add p c => p < s.next ∧ c < s.next ∧ s.parent c = none ∧ ¬ Anc s c p
  | .insert p i c => p < s.next ∧ c < s.next ∧ s.parent c = none ∧ ¬ Anc s c p
  | .setChildren p items => p < s.next ∧ (∀ c ∈ items, c < s.next) ∧ items.Nodup ∧
      ∀ c ∈ items, (s.parent c = none ∨ s.parent c = some p) ∧ ¬ Anc s c p
  | .copy n => n < s.next
  | op => PreA s op

/-- **One step, copy and pickle included, keeps the forest well formed, acyclic and live.** -/
theorem wfl_step (s : St) (op : Op) (h : WFL s) (hp : PreL s op) : WFL (step s op) := by
  obtain ⟨hi, ha, hl⟩ := h
  have hpl := plive_of_live hi hl
  cases op with
  | new k f t g =>
    have hw := wft_step s (.new k f t g) ⟨hi, ha⟩ hp
    refine ⟨hw.1, hw.2, live_of_plive hw.1 ?_⟩
    apply plive_transfer (s := s) (by simp [step, newNode]) _ hpl
    intro x q hx
    left
    simp only [step, newNode] at hx
    by_cases e : x = s.next
    · simp [e] at hx
    · simpa [e] using hx
  | add p c =>
    have hw := wft_step s (.add p c) ⟨hi, ha⟩ ⟨hp.2.2.1, hp.2.2.2⟩
    refine ⟨hw.1, hw.2, live_of_plive hw.1 ?_⟩
    apply plive_transfer (s := s) (by simp [step, add_next]) _ hpl
    intro x q hx
    simp only [step] at hx ⊢
    rw [add_next]
    by_cases e : x = c
    · subst e
      rcases add_parent_self s p x with e1 | e1
      · rw [e1] at hx; cases hx; exact Or.inr ⟨hp.2.1, hp.1⟩
      · rw [e1] at hx; exact Or.inl hx
    · rw [add_parent_other s p c x e] at hx; exact Or.inl hx
  | insert p i c =>
    have hw := wft_step s (.insert p i c) ⟨hi, ha⟩ ⟨hp.2.2.1, hp.2.2.2⟩
    refine ⟨hw.1, hw.2, live_of_plive hw.1 ?_⟩
    apply plive_transfer (s := s) (by simp [step, insert_next]) _ hpl
    intro x q hx
    simp only [step] at hx ⊢
    rw [insert_next]
    by_cases e : x = c
    · subst e
      rcases insert_parent_self s p i x with e1 | e1
      · rw [e1] at hx; cases hx; exact Or.inr ⟨hp.2.1, hp.1⟩
      · rw [e1] at hx; exact Or.inl hx
    · rw [insert_parent_other s p i c x e] at hx; exact Or.inl hx
  | remove p c =>
    have hw := wft_step s (.remove p c) ⟨hi, ha⟩ hp
    refine ⟨hw.1, hw.2, live_of_plive hw.1 ?_⟩
    apply plive_transfer (s := s) (by simp [step, remove, cRemove_next]) _ hpl
    intro x q hx
    left
    simp only [step, remove] at hx
    by_cases e : x = c
    · subst e; unfold cRemove at hx; split at hx <;> simp [setKids, setLoc, setParent] at hx
    · rw [cRemove_parent_other s p c x e] at hx; exact hx
  | removeAll p =>
    have hw := wft_step s (.removeAll p) ⟨hi, ha⟩ hp
    refine ⟨hw.1, hw.2, live_of_plive hw.1 ?_⟩
    apply plive_transfer (s := s) (by simp [step, removeAll_next]) _ hpl
    intro x q hx
    left
    simp only [step] at hx
    obtain ⟨_, _, _, i4, i5⟩ := removeAll_inv s p hi
    by_cases e : x ∈ s.kids p
    · rw [i4 x e] at hx; cases hx
    · rw [i5 x e] at hx; exact hx
  | setChildren p items =>
    have hw := wft_step s (.setChildren p items) ⟨hi, ha⟩ ⟨hp.2.2.1, hp.2.2.2⟩
    refine ⟨hw.1, hw.2, live_of_plive hw.1 ?_⟩
    obtain ⟨_, i2, _, i4, i5⟩ := removeAll_inv s p hi
    have hnext : (setChildren s p items).1.next = s.next := by
      unfold setChildren; simp only [i2, if_true]; rw [seqAdd_next, removeAll_next]
    apply plive_transfer (s := s) (by simp [step, hnext]) _ hpl
    intro x q hx
    simp only [step] at hx ⊢
    rw [hnext]
    unfold setChildren at hx
    simp only [i2, if_true, seqOps] at hx
    rcases seqAdd_parent p items _ true x q hx with h1 | h2
    · left
      by_cases e : x ∈ s.kids p
      · rw [i4 x e] at h1; cases h1
      · rw [i5 x e] at h1; exact h1
    · right; rw [h2.2]; exact ⟨hp.2.1 x h2.1, hp.1⟩
  | sort p rank =>
    have hw := wft_step s (.sort p rank) ⟨hi, ha⟩ hp
    refine ⟨hw.1, hw.2, live_of_plive hw.1 ?_⟩
    apply plive_transfer (s := s) (by simp [step, sortRec_next]) _ hpl
    intro x q hx
    left
    simp only [step] at hx
    rw [(sortRec_samePerm _ _ s p).1] at hx; exact hx
  | reestablish a =>
    have hw := wft_step s (.reestablish a) ⟨hi, ha⟩ hp
    exact ⟨hw.1, hw.2, live_of_plive hw.1 (plive_transfer (s := s) (Nat.le_refl _) (fun x q hx => Or.inl hx) hpl)⟩
  | moveTo c hh =>
    have hw := wft_step s (.moveTo c hh) ⟨hi, ha⟩ hp
    refine ⟨hw.1, hw.2, live_of_plive hw.1 ?_⟩
    have e : (step s (.moveTo c hh)).parent = s.parent ∧ (step s (.moveTo c hh)).next = s.next := by
      simp only [step, moveTo]; split
      · exact ⟨rfl, rfl⟩
      · split <;> exact ⟨rfl, rfl⟩
    apply plive_transfer (s := s) (by rw [e.2]; exact Nat.le_refl _) _ hpl
    intro x q hx; left; rw [e.1] at hx; exact hx
  | copy n =>
    obtain ⟨d, hd⟩ := ha
    have hc := copyOK_subtree' s d hi hd n hp hl
    exact ⟨copy_inv s n _ hc hi, copy_acyclic s n _ hc hi d hd, copy_bounded s n _ hc hi⟩

def PreAllL : St → List Op → Prop
  | _, [] => True
  | s, op :: rest => PreL s op ∧ PreAllL (step s op) rest

/-- **Every reachable state -- edits, deep copies and pickle round trips in any order and number -- is a
well-formed, acyclic forest of live objects.** -/
theorem wfl_run : ∀ (ops : List Op) (s : St), WFL s → PreAllL s ops → WFL (ops.foldl step s)
  | [], _, h, _ => h
  | op :: rest, s, h, hp => wfl_run rest (step s op) (wfl_step s op h hp.1) hp.2

theorem wfl_empty : WFL St.empty :=
  ⟨inv_empty, wft_empty.2, by intro p c h; simp [St.empty] at h⟩

/-- **copy_spec / pickle_spec at the copy the model makes** (`copy.deepcopy` and `pickle.loads(dumps())` both go
through `__getstate__`/`__setstate__`: parent stripped, children re-parented, grid re-owned; the payload --
parameters, serial numbers -- is C16's `pickle_equal` / `copy_equal_independent`): in every reachable state,
for every live `n`, all clauses of `copy_spec` and the frame `copy_old` hold for `subtreeList s n`. -/
theorem pickle_spec (s : St) (h : WFL s) (n : Nat) (hn : n < s.next) :
    CopyOK s n (subtreeList s n) ∧ WFL (copyTree s n) ∧
    (copyTree s n).parent (ren s (subtreeList s n) n) = none ∧
    (∀ o ∈ subtreeList s n, s.next ≤ ren s (subtreeList s n) o) ∧
    (∀ o ∈ subtreeList s n, (copyTree s n).kids (ren s (subtreeList s n) o) = (s.kids o).map (ren s (subtreeList s n))) ∧
    (∀ o ∈ subtreeList s n, ∀ c ∈ s.kids o,
        (copyTree s n).parent (ren s (subtreeList s n) c) = some (ren s (subtreeList s n) o)) ∧
    (∀ x, x < s.next → (copyTree s n).parent x = s.parent x ∧ (copyTree s n).kids x = s.kids x) := by
  obtain ⟨hi, ⟨d, hd⟩, hl⟩ := h
  have hc := copyOK_subtree' s d hi hd n hn hl
  obtain ⟨c1, _, c3, _, c5, c6, _, _⟩ := copy_spec s n _ hc hi
  refine ⟨hc, wfl_step s (.copy n) ⟨hi, ⟨d, hd⟩, hl⟩ hn, c3, fun o ho => (c1 o ho).1, fun o ho => (c5 o ho).1, c6, ?_⟩
  intro x hx
  have := copy_old s n _ hc hi x hx
  exact ⟨this.1, this.2.1⟩


/-! ### the replacing edit: `Block.replaceBlockWithBlock` -/

theorem dropKids_inv (s : St) (t : Nat) (h : Inv s) : Inv (dropKids s t) := by
  refine ⟨?_, ?_, ?_⟩
  · intro q c hc
    simp only [dropKids] at hc ⊢
    by_cases hq : q = t
    · simp [hq] at hc
    · simp only [hq, if_false] at hc
      have hp := h.1 q c hc
      have : c ∉ s.kids t := by
        intro hct; have := h.1 t c hct; rw [hp] at this; cases this; exact hq rfl
      simp [this, hp]
  · intro c q hp
    simp only [dropKids] at hp ⊢
    by_cases hct : c ∈ s.kids t
    · simp [hct] at hp
    · simp only [hct, if_false] at hp
      have hk := h.2 c q hp
      have hq : q ≠ t := by intro e; subst e; exact hct hk
      simp [hq, hk]
  · intro q
    simp only [dropKids]
    by_cases hq : q = t
    · simp [hq]
    · simp [hq, h.3 q]

/-- **the replacing edit keeps the tree well formed**: `b.replaceBlockWithBlock(r)` in any reachable state, for a
live block `b` and a live replacement `r` (attached or a free-standing template -- it is deep-copied either
way): afterwards every object has one parent which lists it exactly once; the replacement itself is untouched
(`copy_old`), so it can be used again. -/
theorem replaceBlock_inv (s : St) (h : WFL s) (b r : Nat) (hr : r < s.next) : Inv (replaceBlock s b r).1 := by
  have h1 := (wfl_step s (.copy r) h hr).1
  have h1' : Inv (copyTree s r) := h1
  unfold replaceBlock
  have hm : Inv (setMeta (dropKids (copyTree s r) s.next) b (s.flags r) (s.typ r)) :=
    inv_of_eq (s := dropKids (copyTree s r) s.next) rfl rfl (dropKids_inv _ _ h1')
  apply setChildren_inv _ b _ hm (h1'.3 s.next)
  intro c hc
  left
  simp [setMeta, dropKids, hc]

/-- the replaced block's new children are exactly the (copied) children of the replacement's copy, all adds
being accepted is part of the tie; the former children are parentless (detached by `removeAll`) -/
theorem replaceBlock_old_children_detached (s : St) (h : WFL s) (b r : Nat) (hr : r < s.next) (hb : b < s.next)
    (c : Nat) (hc : c ∈ s.kids b) (hne : ∀ x ∈ (copyTree s r).kids s.next, x ≠ c) :
    (replaceBlock s b r).1.parent c = none ∨ ∃ q, (replaceBlock s b r).1.parent c = some q ∧ q = b := by
  have hi := replaceBlock_inv s h b r hr
  cases hp : (replaceBlock s b r).1.parent c with
  | none => exact Or.inl rfl
  | some q =>
    right
    refine ⟨q, rfl, ?_⟩
    -- a parent pointer after setChildren is an old one of the intermediate state or `b`
    unfold replaceBlock setChildren at hp
    obtain ⟨i1, i2, _, i4, i5⟩ := removeAll_inv (setMeta (dropKids (copyTree s r) s.next) b (s.flags r) (s.typ r)) b
      (inv_of_eq (s := dropKids (copyTree s r) s.next) rfl rfl (dropKids_inv _ _ (wfl_step s (.copy r) h hr).1))
    simp only [i2, if_true, seqOps] at hp
    rcases seqAdd_parent b _ _ true c q hp with h1 | h2
    · have hkb : c ∈ (setMeta (dropKids (copyTree s r) s.next) b (s.flags r) (s.typ r)).kids b := by
        have hold := (copy_old s r _ (by
          obtain ⟨hi0, ⟨d, hd⟩, hl⟩ := h
          exact copyOK_subtree' s d hi0 hd r hr hl) h.1 b hb).2.1
        have hbt : b ≠ s.next := Nat.ne_of_lt hb
        simp only [setMeta, dropKids, hbt, if_false]
        show c ∈ (copyTree s r).kids b
        rw [show (copyTree s r).kids b = s.kids b from hold]; exact hc
      rw [i4 c hkb] at h1; cases h1
    · exact h2.2


/-! ### trees with FALSY nodes (`NullComponent.__bool__` is False); predicate-less and typed queries -/

/-- with a checker handed in, Python's `filter` never looks at the truthiness of an item -/
theorem pyFilter_some (t : Nat → Bool) (f : Nat → Bool) (l : List Nat) : pyFilter t (some f) l = l.filter f := rfl

/-- `_iterChildren` as the code spells it (Python `filter(checker, self)`) with a checker = the `iterC` of the
specs, whatever the truthiness of the nodes -/
theorem iterCpy_some (s : St) (chk : Nat → Bool) : ∀ (fuel : Nat) (deep : Bool) (g : Int) (n : Nat),
    iterCpy s fuel deep g (some chk) n = iterC s fuel deep g chk n
  | 0, _, _, _ => rfl
  | f + 1, deep, g, n => by
    have ih := fun c => iterCpy_some s chk f deep (g - 1) c
    unfold iterCpy iterC
    simp only [pyFilter, ih]

/-- **a query WITHOUT a predicate** (`getChildren()`, `getChildren(deep=True)`, `generationNum=k`, `iterChildren()`)
is the traversal with the always-true checker: every theorem about `iterC … (fun _ => true)` (generation spec,
deep membership / once / order) applies to it on trees with falsy nodes -/
theorem iterChildrenP_nopred (s : St) (fuel : Nat) (deep : Bool) (g : Int) (n : Nat) :
    iterChildrenP s fuel deep g none n = iterChildren s fuel deep g (fun _ => true) n := by
  unfold iterChildrenP iterChildren
  simp only [iterCpy_some]

theorem iterChildrenP_pred (s : St) (fuel : Nat) (deep : Bool) (g : Int) (p : Nat → Bool) (n : Nat) :
    iterChildrenP s fuel deep g (some p) n = iterChildren s fuel deep g p n := by
  unfold iterChildrenP iterChildren
  simp only [iterCpy_some]

private theorem iterC_truthy (s : St) (t : Nat → Bool) (chk : Nat → Bool) : ∀ (fuel : Nat) (deep : Bool) (g : Int) (n : Nat),
    iterC { s with truthy := t } fuel deep g chk n = iterC s fuel deep g chk n
  | 0, _, _, _ => rfl
  | f + 1, deep, g, n => by
    have ih := fun c => iterC_truthy s t chk f deep (g - 1) c
    unfold iterC
    simp only [ih]

/-- **no traversal query depends on the truthiness of any node**: changing `bool(·)` of arbitrary nodes changes
no answer (predicate or not, any depth arguments) -/
theorem iterChildrenP_ignores_truthiness (s : St) (t : Nat → Bool) (fuel : Nat) (deep : Bool) (g : Int)
    (pred : Option (Nat → Bool)) (n : Nat) :
    iterChildrenP { s with truthy := t } fuel deep g pred n = iterChildrenP s fuel deep g pred n := by
  cases pred with
  | none => rw [iterChildrenP_nopred, iterChildrenP_nopred]; unfold iterChildren; rw [iterC_truthy]
  | some p => rw [iterChildrenP_pred, iterChildrenP_pred]; unfold iterChildren; rw [iterC_truthy]

/-- **`getChildren()` is the raw child list** (falsy children included), any positive fuel -/
theorem getChildren_direct (s : St) (f : Nat) (n : Nat) : getChildren s (f + 1) false 1 none n = some (s.kids n) := by
  unfold getChildren
  rw [iterChildrenP_nopred]
  simp [iterChildren, iterC]

/-- **`getChildren(generationNum = k+1)` without predicate = the depth-(k+1) level of the naive walk** -/
theorem getChildren_gen_spec (s : St) (k fuel n : Nat) (hk : k < fuel) :
    getChildren s fuel false ((k : Int) + 1) none n = some (level s (k + 1) n) := by
  unfold getChildren
  rw [iterChildrenP_nopred]
  simp [iterChildren, iterC_gen_spec s k fuel n hk]

/-- **`getChildren(deep=True)` without predicate returns exactly the objects of the naive pre-order walk**, each
with the same multiplicity (once, by `iterC_deep_nodup`, in a well-formed acyclic tree) -/
theorem getChildren_deep_spec (s : St) (fuel n : Nat) :
    ∃ l, getChildren s fuel true 1 none n = some l ∧ l.Perm (preWalk s fuel n) := by
  refine ⟨iterC s fuel true 1 (fun _ => true) n, ?_, iterC_deep_perm_preWalk s fuel 1 n⟩
  unfold getChildren
  rw [iterChildrenP_nopred]
  simp [iterChildren]


/-- **the deep query in every reachable state, no fuel hypothesis**: in a well-formed acyclic live forest (`WFL`, what
`wfl_run` gives for every history) `getChildren(deep=True)` called without a predicate on ANY object, with the fuel the
driver uses, returns a duplicate-free list whose members are exactly the strict descendants (falsy ones included) -/
theorem getChildren_deep_iff (s : St) (h : WFL s) (n : Nat) :
    ∃ l, getChildren s (s.next + 1) true 1 none n = some l ∧ l.Nodup ∧ ∀ m, m ∈ l ↔ Desc s n m := by
  obtain ⟨hi, ⟨d, hd⟩, hl⟩ := h
  refine ⟨iterC s (s.next + 1) true 1 (fun _ => true) n, ?_, iterC_deep_nodup s d hi hd _ _ _, ?_⟩
  · unfold getChildren
    rw [iterChildrenP_nopred]
    simp [iterChildren]
  · intro m
    constructor
    · exact iterC_deep_sound s _ _ n m
    · intro hm
      obtain ⟨k, hk⟩ := desc_descN s d hi hd hm
      have := depth_bound s d hi hd hl hk
      exact iterC_deep_complete s k _ 1 n m hk (by omega)

/-- the same for a generation query: in a reachable state the fuel the driver uses is enough for EVERY generation that
has any member (deeper generations are empty on both sides) -/
theorem getChildren_gen_reachable (s : St) (k n : Nat) (hk : k < s.next + 1) :
    getChildren s (s.next + 1) false ((k : Int) + 1) none n = some (level s (k + 1) n) :=
  getChildren_gen_spec s k (s.next + 1) n hk

/-- the two-node tree `0 ── 1` whose child is FALSY (a NullComponent) -/
private def wFalsy : St := (cAdd (newNode (newNode St.empty 0 0 0 false) kComponent 0 0 false false) 0 1).1

/-- **why the checker matters**: handing `None` through to `filter` (`filter(None, self)`) drops the falsy child, so
the answer is no longer the child list; the code as written (`checker = lambda _: True`) returns it -/
theorem filterNone_drops_falsy :
    iterCpy wFalsy 2 false 1 none 0 = [] ∧ wFalsy.kids 0 = [1] ∧ getChildren wFalsy 2 false 1 none 0 = some [1] := by
  decide

/-- **`removeAll` as written walks `getChildren()`; that is the raw child list**, so `removeAll_inv` (all children
detached, list empty) holds for the code's loop on trees with falsy nodes -/
theorem removeAllCode_eq (s : St) (p : Nat) : removeAllCode s p = removeAll s p := by
  unfold removeAllCode removeAll
  rw [getChildren_direct]
  rfl

theorem setChildrenCode_eq (s : St) (p : Nat) (items : List Nat) : setChildrenCode s p items = setChildren s p items := by
  unfold setChildrenCode setChildren
  rw [removeAllCode_eq]

/-- **`getChildrenWithFlags`** = the child list filtered by `hasFlags`, in child order -/
theorem getChildrenWithFlags_spec (s : St) (f : Nat) (spec : Spec) (exact : Bool) (n : Nat) :
    getChildrenWithFlags s (f + 1) spec exact n = (s.kids n).filter (fun o => hasFlags (s.flags o) spec exact) := by
  unfold getChildrenWithFlags
  rw [iterChildrenP_pred]
  simp [iterChildren, iterC]

/-- **`getChildrenOfType`** = the child list filtered by type name -/
theorem getChildrenOfType_spec (s : St) (f : Nat) (t : Nat) (n : Nat) :
    getChildrenOfType s (f + 1) t n = (s.kids n).filter (fun o => s.typ o == t) := by
  unfold getChildrenOfType
  rw [iterChildrenP_pred]
  simp [iterChildren, iterC]

/-- **`Assembly.getFirstBlock()`** (no type spec) = the first child, falsy or not -/
theorem getFirstBlock_none (s : St) (fuel : Nat) (exact : Bool) (n : Nat) :
    getFirstBlock s fuel Spec.none exact n = (s.kids n).head? := rfl

/-- **`Assembly.getFirstBlock(spec, exact)`** = the first child with the flags -/
theorem getFirstBlock_spec (s : St) (f : Nat) (spec : Spec) (exact : Bool) (n : Nat) (h : spec ≠ Spec.none) :
    getFirstBlock s (f + 1) spec exact n = (s.kids n).find? (fun o => hasFlags (s.flags o) spec exact) := by
  unfold getFirstBlock
  cases spec with
  | none => exact absurd rfl h
  | one v => simp only; rw [getChildrenWithFlags_spec, List.head?_filter]
  | many vs => simp only; rw [getChildrenWithFlags_spec, List.head?_filter]

/-- **`Assembly.getFirstBlockByType`** = the first child of that type -/
theorem getFirstBlockByType_spec (s : St) (t : Nat) (n : Nat) :
    getFirstBlockByType s t n = (s.kids n).find? (fun o => s.typ o == t) := by
  unfold getFirstBlockByType
  rw [pyFilter_some, List.head?_filter]

/-- **`getAncestorWithFlags`** (its own recursion) = the object `getAncestorAndDistance(hasFlags …)` finds: with
`getAncestor_spec` the nearest object on the parent chain having the flags -/
theorem getAncestorWithFlags_eq (s : St) (spec : Spec) (exact : Bool) : ∀ (fuel n d : Nat),
    getAncestorWithFlags s fuel spec exact n =
      (getAncestor s fuel (fun o => hasFlags (s.flags o) spec exact) n d).map Prod.fst
  | 0, _, _ => rfl
  | f + 1, n, d => by
    unfold getAncestorWithFlags getAncestor
    by_cases hf : hasFlags (s.flags n) spec exact = true
    · simp [hf]
    · simp only [hf, if_false]
      cases hp : s.parent n with
      | none => simp
      | some p => simp only; exact getAncestorWithFlags_eq s spec exact f p (d + 1)

/-- a copy carries the truthiness of its originals (a copied NullComponent is a NullComponent) -/
theorem copy_truthy (s : St) (L : List Nat) (o : Nat) (ho : o ∈ L) :
    (copyWith s L).truthy (ren s L o) = s.truthy o := by
  have hl := List.idxOf_lt_length_of_mem ho
  have h1 : (decide (s.next ≤ ren s L o) && decide (ren s L o < s.next + L.length)) = true := by
    simp [ren]; omega
  simp only [copyWith, h1, if_true]
  have : ren s L o - s.next = L.idxOf o := by simp [ren]
  rw [this, getD_idx L o ho]


/-! ### ex-core systems: `ExcoreStructure.add` / `SpentFuelPool.add`, discharge from the core into the pool -/

private theorem anc_setLoc (s : St) (c : Nat) (v : Option Nat) (a x : Nat) : Anc (setLoc s c v) a x ↔ Anc s a x := by
  constructor
  · intro h; induction h with
    | refl => exact Anc.refl
    | step hp _ ih => exact Anc.step (s := s) hp ih
  · intro h; induction h with
    | refl => exact Anc.refl
    | step hp _ ih => exact Anc.step (s := setLoc s c v) hp ih

private theorem wfl_setLoc (s : St) (c : Nat) (v : Option Nat) (h : WFL s) : WFL (setLoc s c v) :=
  ⟨inv_of_eq (s := s) rfl rfl h.1, acyclic_of_eq (s := s) rfl h.2.1, h.2.2⟩

/-- an ex-core add is the class-dispatched `add` (plain `Composite.add` for a pool) after the locator moved -/
theorem excoreAdd_eq_add (s : St) (p c : Nat) (hk : s.kind p = kSfp) :
    excoreAdd s p c = add (setLoc s c (s.grid p)) p c := by
  unfold excoreAdd add
  have h1 : (setLoc s c (s.grid p)).kind p = kSfp := hk
  simp [h1, kSfp, kAssembly, kCore]

/-- removing a child only shrinks the ancestor relation -/
private theorem anc_cRemove (s : St) (p c a x : Nat) (h : Anc (cRemove s p c).1 a x) : Anc s a x := by
  induction h with
  | refl => exact Anc.refl
  | @step y q hp _ ih =>
    by_cases e : y = c
    · subst e
      have : (cRemove s p y).1.parent y = none := by unfold cRemove; split <;> simp [setKids, setLoc, setParent]
      rw [this] at hp; cases hp
    · rw [cRemove_parent_other s p c y e] at hp; exact Anc.step hp ih

/-- the edit alphabet with the ex-core edits -/
inductive Op2 where
  | base (op : Op)
  | excoreAdd (p c : Nat)
  | discharge (core a : Nat) (sfp : Option Nat)

def step2 (s : St) : Op2 → St
  | .base op => step s op
  | .excoreAdd p c => (excoreAdd s p c).1
  | .discharge core a sfp => (removeAssembly s core a sfp).1

/-- valid use: an object put into a pool is live, parentless and not above the pool; a discharged assembly is a child
of the core it leaves and not above the pool it goes to -/
def PreL2 (s : St) : Op2 → Prop
  | .base op => PreL s op
  | .excoreAdd p c => s.kind p = kSfp ∧ p < s.next ∧ c < s.next ∧ s.parent c = none ∧ ¬ Anc s c p
  | .discharge core a sfp => a ∈ s.kids core ∧ ∀ p, sfp = some p → s.kind p = kSfp ∧ p < s.next ∧ ¬ Anc s a p

theorem wfl_excoreAdd (s : St) (p c : Nat) (h : WFL s) (hk : s.kind p = kSfp) (hp : p < s.next) (hc : c < s.next)
    (hpar : s.parent c = none) (hcyc : ¬ Anc s c p) : WFL (excoreAdd s p c).1 := by
  rw [excoreAdd_eq_add s p c hk]
  exact wfl_step (setLoc s c (s.grid p)) (.add p c) (wfl_setLoc s c _ h)
    ⟨hp, hc, hpar, fun ha => hcyc ((anc_setLoc s c _ c p).mp ha)⟩

/-- **what a discharge does to the tree**: the assembly leaves the core's list; without a pool it ends parentless
with a detached locator (`remove_detaches`); with a pool it is listed by the pool (and by nobody else), its parent is
the pool and its locator sits on the pool's grid -/
theorem discharge_spec (s : St) (core a : Nat) (h : Inv s) (ha : a ∈ s.kids core) :
    (removeAssembly s core a none).2 = true ∧ (removeAssembly s core a none).1.parent a = none ∧
      (removeAssembly s core a none).1.loc a = none ∧ (∀ q, a ∉ (removeAssembly s core a none).1.kids q) ∧
    ∀ p, (removeAssembly s core a (some p)).2 = true ∧ (removeAssembly s core a (some p)).1.parent a = some p ∧
      (removeAssembly s core a (some p)).1.loc a = s.grid p ∧ a ∈ (removeAssembly s core a (some p)).1.kids p ∧
      (p ≠ core → a ∉ (removeAssembly s core a (some p)).1.kids core) := by
  obtain ⟨r1, r2, r3, _, r5⟩ := remove_detaches s core a h ha
  refine ⟨?_, ?_, ?_, ?_, ?_⟩
  · simp [removeAssembly, r1]
  · simp [removeAssembly, r1, r2]
  · simp [removeAssembly, r1, r3]
  · intro q; simp only [removeAssembly, r1, if_true]; exact r5 q
  · intro p
    have hnot : a ∉ (remove s core a).1.kids p := r5 p
    have hg : (remove s core a).1.grid p = s.grid p := by unfold remove cRemove; simp [ha, setKids, setLoc, setParent]
    have hnot' : a ∉ (setLoc (remove s core a).1 a ((remove s core a).1.grid p)).kids p := hnot
    simp only [removeAssembly, r1, if_true, excoreAdd, cAdd, hnot', if_false]
    refine ⟨trivial, by simp [setKids, setParent, setLoc], by simp [setKids, setParent, setLoc, hg], by simp [setKids, setParent, setLoc], ?_⟩
    intro hne
    have : a ∉ (remove s core a).1.kids core := r5 core
    simpa [setKids, setParent, setLoc, hne.symm] using this

theorem wfl_step2 (s : St) (op : Op2) (h : WFL s) (hp : PreL2 s op) : WFL (step2 s op) := by
  cases op with
  | base op => exact wfl_step s op h hp
  | excoreAdd p c => exact wfl_excoreAdd s p c h hp.1 hp.2.1 hp.2.2.1 hp.2.2.2.1 hp.2.2.2.2
  | discharge core a sfp =>
    obtain ⟨ha, hs⟩ := hp
    have hlive := h.2.2 core a ha
    have h1 : WFL (remove s core a).1 := wfl_step s (.remove core a) h ha
    obtain ⟨r1, r2, _, _, _⟩ := remove_detaches s core a h.1 ha
    cases sfp with
    | none => simpa [step2, removeAssembly, r1] using h1
    | some p =>
      obtain ⟨hk, hpn, hcyc⟩ := hs p rfl
      have hk' : (remove s core a).1.kind p = kSfp := by
        unfold remove cRemove; simp [ha, setKids, setLoc, setParent]; exact hk
      have hn : (remove s core a).1.next = s.next := by unfold remove cRemove; simp [ha, setKids, setLoc, setParent]
      simp only [step2, removeAssembly, r1, if_true]
      exact wfl_excoreAdd _ p a h1 hk' (by omega) (by omega) r2 (fun hA => hcyc (anc_cRemove s core a a p hA))

def PreAllL2 : St → List Op2 → Prop
  | _, [] => True
  | s, op :: rest => PreL2 s op ∧ PreAllL2 (step2 s op) rest

/-- **every reachable state, ex-core edits included** (putting objects into a spent fuel pool / ex-core structure,
discharging assemblies from the core into the pool, in any order with all the other edits, copies and pickles): a
well-formed, acyclic forest of live objects -/
theorem wfl_run2 : ∀ (ops : List Op2) (s : St), WFL s → PreAllL2 s ops → WFL (ops.foldl step2 s)
  | [], _, h, _ => h
  | op :: rest, s, h, hp => wfl_run2 rest (step2 s op) (wfl_step2 s op h hp.1) hp.2

/-- non-vacuity: reactor-less miniature -- core 0, pool 1, assembly 2 in the core, discharged into the pool -/
example : PreAllL2 St.empty
    [.base (.new kCore 0 0 true), .base (.new kSfp 0 0 true), .base (.new kAssembly 0 0 true), .base (.add 0 2),
     .discharge 0 2 (some 1), .base (.remove 1 2), .excoreAdd 1 2] := by
  refine ⟨?_, ?_, ?_, ?_, ?_, ?_, ?_, trivial⟩ <;>
    simp [PreL2, PreL, PreA, Pre, step2, step, newNode, St.empty, add, cAdd, kCore, kAssembly, kBlock, kSfp, setKids,
      setParent, setLoc, removeAssembly, remove, cRemove, excoreAdd]
  all_goals (try (intro h; cases h <;> simp_all))


/-! ### caller-side idioms on query results (fresh lists), query - edit - query -/

private theorem cRemove_kind (s : St) (p c : Nat) : (cRemove s p c).1.kind = s.kind := by
  unfold cRemove; split <;> rfl

private theorem seqRemove_kind (p : Nat) : ∀ (l : List Nat) (s : St) (b : Bool),
    (l.foldl (fun acc c => if acc.2 then remove acc.1 p c else acc) (s, b)).1.kind = s.kind
  | [], _, _ => rfl
  | c :: rest, s, b => by
    rw [List.foldl_cons]
    cases b with
    | false => simpa using seqRemove_kind p rest s false
    | true =>
      simp only [if_true]
      have e : remove s p c = ((remove s p c).1, (remove s p c).2) := rfl
      rw [e, seqRemove_kind p rest _ _]
      exact cRemove_kind s p c

theorem removeAll_kind (s : St) (p : Nat) : (removeAll s p).1.kind = s.kind :=
  seqRemove_kind p (s.kids p) s true

private theorem add_kids_ok (s : St) (p c : Nat) (hok : (add s p c).2 = true) :
    (add s p c).1.kids p = s.kids p ++ [c] := by
  unfold add cAdd reestablish at *
  repeat' split at hok
  all_goals simp_all [setKids, setLoc, setParent]

/-- adding a duplicate-free list of parentless, admissible objects: every add is accepted and the child list grows by
exactly that list, in that order -/
private theorem seqAdd_exact (p : Nat) : ∀ (l : List Nat) (s : St), Inv s → l.Nodup → (∀ c ∈ l, s.parent c = none) →
    (s.kind p = kAssembly → ∀ c ∈ l, s.kind c = kBlock) →
    (seqOps (fun t c => add t p c) s l).2 = true ∧ (seqOps (fun t c => add t p c) s l).1.kids p = s.kids p ++ l := by
  intro l
  induction l with
  | nil => intro s _ _ _ _; simp [seqOps]
  | cons c rest ih =>
    intro s h hnd hall hk
    have hnd' := List.nodup_cons.mp hnd
    have hok := add_ok s p c h (hall c (by simp)) (fun hp => hk hp c (by simp))
    have hi := add_inv s p c h (hall c (by simp))
    have e : add s p c = ((add s p c).1, true) := Prod.ext rfl hok
    have step : seqOps (fun t c => add t p c) s (c :: rest) = seqOps (fun t c => add t p c) (add s p c).1 rest := by
      simp only [seqOps, List.foldl_cons, if_true]; rw [← e]
    rw [step]
    have := ih (add s p c).1 hi hnd'.2
      (fun x hx => by
        have hne : x ≠ c := by intro e'; subst e'; exact hnd'.1 hx
        rw [add_parent_other s p c x hne]; exact hall x (by simp [hx]))
      (fun hp x hx => by
        rw [add_kind] at hp ⊢; exact hk hp x (by simp [hx]))
    refine ⟨this.1, ?_⟩
    rw [this.2, add_kids_ok s p c hok]; simp

/-- **the re-ordering idiom** `order = x.getChildren(); <permute order>; x.setChildren(order)` (and any `setChildren`
with distinct items that are parentless or current children, blocks if `x` is an assembly): every step is accepted,
afterwards `x` lists EXACTLY `order`, in that order, every member's parent is `x`, and the tree is well formed.
(`order` is a value of the caller: a fresh list.  If the query handed back the live child list instead, `removeAll`
would empty `order` as well -- `aliased_drain_skips` below shows what iteration over a live list does.) -/
theorem setChildren_exact (s : St) (p : Nat) (items : List Nat) (h : Inv s) (hnd : items.Nodup)
    (hit : ∀ c ∈ items, s.parent c = none ∨ s.parent c = some p)
    (hk : s.kind p = kAssembly → ∀ c ∈ items, s.kind c = kBlock) :
    (setChildren s p items).2 = true ∧ (setChildren s p items).1.kids p = items ∧
    (∀ c ∈ items, (setChildren s p items).1.parent c = some p) ∧ Inv (setChildren s p items).1 := by
  have hinv := setChildren_inv s p items h hnd hit
  obtain ⟨i1, i2, i3, i4, i5⟩ := removeAll_inv s p h
  have hpar : ∀ c ∈ items, (removeAll s p).1.parent c = none := by
    intro c hc
    by_cases hkid : c ∈ s.kids p
    · exact i4 c hkid
    · rw [i5 c hkid]
      rcases hit c hc with h0 | h1
      · exact h0
      · exact absurd (h.2 c p h1) hkid
  have hkind : (removeAll s p).1.kind p = kAssembly → ∀ c ∈ items, (removeAll s p).1.kind c = kBlock := by
    rw [removeAll_kind]; exact hk
  obtain ⟨a1, a2⟩ := seqAdd_exact p items (removeAll s p).1 i1 hnd hpar hkind
  have e : setChildren s p items = seqOps (fun t c => add t p c) (removeAll s p).1 items := by
    unfold setChildren; simp [i2]
  refine ⟨by rw [e]; exact a1, by rw [e, a2, i3]; simp, ?_, hinv⟩
  intro c hc
  have hk2 : c ∈ (setChildren s p items).1.kids p := by rw [e, a2, i3]; simpa using hc
  exact hinv.1 p c hk2

/-- the permutation instance: `order` any permutation of the current children -/
theorem reorder_idiom (s : St) (p : Nat) (order : List Nat) (h : Inv s) (hperm : order.Perm (s.kids p))
    (hk : s.kind p = kAssembly → ∀ c ∈ s.kids p, s.kind c = kBlock) :
    (setChildrenCode s p order).2 = true ∧ (setChildrenCode s p order).1.kids p = order ∧
    ∀ c ∈ order, (setChildrenCode s p order).1.parent c = some p := by
  rw [setChildrenCode_eq]
  have hnd : order.Nodup := hperm.nodup_iff.mpr (h.3 p)
  obtain ⟨a, b, c, _⟩ := setChildren_exact s p order h hnd
    (fun x hx => Or.inr (h.1 p x (hperm.mem_iff.mp hx))) (fun hp x hx => hk hp x (hperm.mem_iff.mp hx))
  exact ⟨a, b, c⟩

/-- **`for c in x.getChildren(): x.remove(c)`** over a fresh result is `removeAll`'s own loop: every child is
removed, the list ends empty (`removeAll_inv`) -/
theorem drain_idiom (s : St) (p : Nat) (h : Inv s) :
    (removeAllCode s p).2 = true ∧ (removeAllCode s p).1.kids p = [] ∧ ∀ x ∈ s.kids p, (removeAllCode s p).1.parent x = none := by
  rw [removeAllCode_eq]
  obtain ⟨_, i2, i3, i4, _⟩ := removeAll_inv s p h
  exact ⟨i2, i3, i4⟩

/-- Python's `for c in L: L.remove(c)` on ONE live list (what the loop becomes if the query result IS the child
list): position `i` advances while the list shrinks under it -/
def aliasedDrain : Nat → Nat → List Nat → List Nat
  | 0, _, l => l
  | f + 1, i, l => match l[i]? with
    | none => l
    | some c => aliasedDrain f (i + 1) (l.erase c)

/-- **why the result must be a fresh list**: iterating the live child list while removing from it skips every other
child -- `[a, b, c, d]` ends as `[b, d]` -/
theorem aliased_drain_skips : aliasedDrain 10 0 [1, 2, 3, 4] = [2, 4] := by decide

/-- **query - edit - query**: the typed queries are functions of the current state; after ANY edit of the alphabet
(ex-core edits included) or a change of a child's type name / flags they answer from the child list and the meta data
of that moment -- there is nothing in the model that could go stale -/
theorem typed_queries_follow_edits (s : St) (op : Op2) (f : Nat) (n t : Nat) (spec : Spec) (exact : Bool) :
    getChildrenOfType (step2 s op) (f + 1) t n = ((step2 s op).kids n).filter (fun o => (step2 s op).typ o == t) ∧
    getChildrenWithFlags (step2 s op) (f + 1) spec exact n =
      ((step2 s op).kids n).filter (fun o => hasFlags ((step2 s op).flags o) spec exact) ∧
    getFirstBlockByType (step2 s op) t n = ((step2 s op).kids n).find? (fun o => (step2 s op).typ o == t) :=
  ⟨getChildrenOfType_spec _ f t n, getChildrenWithFlags_spec _ f spec exact n, getFirstBlockByType_spec _ t n⟩

/-- a child's new type name is what the parent's type query sees (and the old name no longer matches it) -/
theorem setMeta_query (s : St) (c fl t n f : Nat) (hc : c ∈ s.kids n) :
    c ∈ getChildrenOfType (setMeta s c fl t) (f + 1) t n ∧
    ∀ t', t' ≠ t → c ∉ getChildrenOfType (setMeta s c fl t) (f + 1) t' n := by
  rw [getChildrenOfType_spec]
  refine ⟨?_, ?_⟩
  · simp [setMeta, List.mem_filter, hc]
  · intro t' ht
    rw [getChildrenOfType_spec]
    simp [setMeta, List.mem_filter, hc]
    exact fun e => ht e.symm

/-- `setType` / a flag change is not structural -/
theorem setMeta_inv (s : St) (c fl t : Nat) (h : Inv s) : Inv (setMeta s c fl t) :=
  inv_of_eq (s := s) rfl rfl h

end ArmiVerif.Tree
