/-
C02 — mass, volume and number densities are accounted consistently at every level.
One generic composite level (`Node α` over children with operations `Ops α`); every theorem below is proved
for that generic level and therefore holds for blocks of components, assemblies of blocks, the core of
assemblies (and any deeper nesting).
-/
import ArmiVerif.Model.Compo
import Mathlib.Tactic.Ring
import Mathlib.Tactic.Linarith
import Mathlib.Tactic.FieldSimp
import Mathlib.Algebra.Order.Field.Rat
import Mathlib.Data.Rat.Defs

namespace ArmiVerif.Compo

/-! ### list sums -/

private theorem sumBy_congr {α : Type} (f g : α → Rat) (l : List α) (h : ∀ a ∈ l, f a = g a) :
    sumBy f l = sumBy g l := by
  induction l with
  | nil => rfl
  | cons a l ih =>
    simp only [sumBy]
    rw [h a (by simp), ih (fun b hb => h b (List.mem_cons_of_mem _ hb))]

private theorem sumBy_mul_const {α : Type} (f : α → Rat) (k : Rat) (l : List α) :
    sumBy (fun a => f a * k) l = sumBy f l * k := by
  induction l with
  | nil => simp [sumBy]
  | cons a l ih => simp only [sumBy, ih]; ring

private theorem sumBy_div_const {α : Type} (f : α → Rat) (k : Rat) (l : List α) :
    sumBy (fun a => f a / k) l = sumBy f l / k := by
  simp only [div_eq_mul_inv]; exact sumBy_mul_const f k⁻¹ l

private theorem sumBy_add {α : Type} (f g : α → Rat) (l : List α) :
    sumBy (fun a => f a + g a) l = sumBy f l + sumBy g l := by
  induction l with
  | nil => simp [sumBy]
  | cons a l ih => simp only [sumBy, ih]; ring

private theorem sumBy_zero {α : Type} (l : List α) : sumBy (fun _ : α => (0 : Rat)) l = 0 := by
  induction l with
  | nil => rfl
  | cons a l ih => simp [sumBy, ih]

private theorem sumBy_map {α β : Type} (f : β → Rat) (g : α → β) (l : List α) :
    sumBy f (l.map g) = sumBy (fun a => f (g a)) l := by
  induction l with
  | nil => rfl
  | cons a l ih => simp [sumBy, ih]

/-! ### additivity -/

/-- the homogenised density is the volume-weighted mean: `N_parent · Σ V_c = Σ V_c · N_c`, at every level,
for any non-zero symmetry factor (the factor cancels) -/
theorem atoms_additive {α : Type} (o : Ops α) (p : Node α) (n : Nuc)
    (hs : p.sym ≠ 0) (hv : sumBy o.vol p.kids ≠ 0) :
    p.nd o n * sumBy o.vol p.kids = sumBy (fun c => o.vol c * o.nd c n) p.kids := by
  unfold Node.nd Node.weight
  have h1 : sumBy (fun c => o.vol c / p.sym) p.kids = sumBy o.vol p.kids / p.sym := sumBy_div_const _ _ _
  have h2 : sumBy (fun c => o.vol c / p.sym * o.nd c n) p.kids
      = sumBy (fun c => o.vol c * o.nd c n) p.kids / p.sym := by
    rw [← sumBy_div_const]; apply sumBy_congr; intro a _; ring
  simp only [h1, h2]
  have h3 : sumBy o.vol p.kids / p.sym ≠ 0 := div_ne_zero hv hs
  rw [if_neg h3]
  field_simp

/-- block form: atoms of the block = Σ atoms of the components / symmetry factor
(`getNumberOfAtoms = N·V/barn`, `Block.getVolume = Σ V_c / sym`) -/
theorem atoms_additive_block {α : Type} (o : Ops α) (ph : Phys) (p : Node α) (n : Nuc)
    (hcoded : p.volCoded = none) (hs : p.sym ≠ 0) (hv : sumBy o.vol p.kids ≠ 0) :
    numberOfAtoms (nodeOps o) ph p n = sumBy (fun c => numberOfAtoms o ph c n) p.kids / p.sym := by
  unfold numberOfAtoms
  simp only [nodeOps, Node.vol, hcoded]
  have h := atoms_additive o p n hs hv
  have h2 : sumBy (fun c => o.nd c n * o.vol c / ph.barn) p.kids
      = sumBy (fun c => o.vol c * o.nd c n) p.kids / ph.barn := by
    rw [← sumBy_div_const]; apply sumBy_congr; intro a _; ring
  rw [h2, ← h]; ring

example := atoms_additive (compOps ⟨1, 1, fun _ => 1⟩) ⟨3, none, [⟨6, 3, [(1, 2)]⟩, ⟨24, 3, [(1, 4)]⟩]⟩ 1
    (by norm_num) (by norm_num [sumBy, compOps])

/-! ### what one level guarantees to the level above -/

/-- The contract of a level (for objects satisfying `WF`): densities of absent nuclides are 0, per-nuclide
mass is density × A / K × (mass-carrying volume), `setNumberDensity` reads back, leaves the other nuclides,
the volumes and the nuclide sets alone and keeps `WF`. -/
structure Lawful {α : Type} (o : Ops α) (ph : Phys) (WF : α → Prop) : Prop where
  nd_absent : ∀ a n, o.has a n = false → o.nd a n = 0
  mass_eq : ∀ a n, WF a → o.mass a n = o.nd a n * ph.aw n / ph.K * o.evol a
  set_wf : ∀ a n v, WF a → WF (o.setND a n v)
  set_vol : ∀ a n v, o.vol (o.setND a n v) = o.vol a
  set_evol : ∀ a n v, o.evol (o.setND a n v) = o.evol a
  set_nucs : ∀ a n v, o.has a n = true → o.nucs (o.setND a n v) = o.nucs a
  set_read : ∀ a n v, WF a → o.has a n = true → o.canSet a n v = true → o.nd (o.setND a n v) n = v
  set_frame : ∀ a n v m, WF a → m ≠ n → o.nd (o.setND a n v) m = o.nd a m

/-! ### components satisfy the contract -/

private theorem get_set_self (d : NDens) (n : Nuc) (v : Rat) : (d.set n v).get n = v := by
  induction d with
  | nil => simp [NDens.set, NDens.get]
  | cons p d ih =>
    obtain ⟨m, w⟩ := p
    by_cases h : m = n
    · simp [NDens.set, NDens.get, h]
    · simp [NDens.set, NDens.get, h, ih]

private theorem get_set_other (d : NDens) (n m : Nuc) (v : Rat) (h : m ≠ n) : (d.set n v).get m = d.get m := by
  induction d with
  | nil => simp [NDens.set, NDens.get, Ne.symm h]
  | cons p d ih =>
    obtain ⟨k, w⟩ := p
    by_cases hk : k = n
    · subst hk; simp [NDens.set, NDens.get, Ne.symm h]
    · by_cases hkm : k = m
      · subst hkm; simp [NDens.set, NDens.get, hk]
      · simp [NDens.set, NDens.get, hk, hkm, ih]

private theorem keys_set_present (d : NDens) (n : Nuc) (v : Rat) (h : (NDens.keys d).contains n = true) :
    NDens.keys (NDens.set d n v) = NDens.keys d := by
  induction d with
  | nil => simp [NDens.keys] at h
  | cons p d ih =>
    obtain ⟨k, w⟩ := p
    by_cases hk : k = n
    · simp [NDens.set, NDens.keys, hk]
    · have h' : (NDens.keys d).contains n = true := by
        simp only [NDens.keys, List.map_cons, List.contains_cons, Bool.or_eq_true] at h ⊢
        rcases h with h1 | h1
        · exact absurd (by simpa using h1 : n = k).symm hk
        · exact h1
      have e := ih h'
      simp only [NDens.keys] at e
      simp [NDens.set, hk, NDens.keys, e]

private theorem get_absent (d : NDens) (n : Nuc) (h : (NDens.keys d).contains n = false) : NDens.get d n = 0 := by
  induction d with
  | nil => rfl
  | cons p d ih =>
    obtain ⟨k, w⟩ := p
    simp only [NDens.keys, List.map_cons, List.contains_cons, Bool.or_eq_false_iff] at h
    have hk : ¬ k = n := by intro e; subst e; simp at h
    simp only [NDens.get, hk, if_false]
    exact ih (by simpa [NDens.keys] using h.2)

/-- **a component keeps the contract** (no hypothesis on the component) -/
theorem compLawful (ph : Phys) : Lawful (compOps ph) ph (fun _ => True) where
  nd_absent a n h := get_absent a.nd n h
  mass_eq a n _ := by simp only [compOps, Comp.mass]; ring
  set_wf _ _ _ _ := trivial
  set_vol _ _ _ := rfl
  set_evol _ _ _ := rfl
  set_nucs a n v h := by
    simp only [compOps, Ops.has, NDens.update, List.foldl] at h ⊢
    exact keys_set_present a.nd n v h
  set_read a n v _ _ _ := by
    simp only [compOps, NDens.update, List.foldl]; exact get_set_self a.nd n v
  set_frame a n v m _ hm := by
    simp only [compOps, NDens.update, List.foldl]; exact get_set_other a.nd n m v hm

/-! ### a composite level satisfies the contract whenever its children do -/

/-- well-formedness of a composite level: non-zero symmetry factor and total child volume, well-formed
children, and child volumes proportional to the children's mass-carrying volumes (blocks: factor = the
symmetry factor; assemblies: 1; core: needs every assembly's coded volume to equal the sum of its blocks'
volumes — the hypothesis that excludes finding F5) -/
def NodeWF {α : Type} (o : Ops α) (WFc : α → Prop) (p : Node α) : Prop :=
  p.sym ≠ 0 ∧ sumBy o.vol p.kids ≠ 0 ∧ (∀ c ∈ p.kids, WFc c) ∧
  ∃ k : Rat, k ≠ 0 ∧ ∀ c ∈ p.kids, o.vol c = k * o.evol c

private theorem mem_dedup (l : List Nuc) : ∀ n : Nuc, n ∈ dedup l ↔ n ∈ l := by
  induction l with
  | nil => intro n; simp [dedup]
  | cons m l ih =>
    intro n
    simp only [dedup]
    by_cases h : (dedup l).contains m = true
    · simp only [h, if_true, List.mem_cons]
      have hm : m ∈ l := (ih m).mp (by simpa using h)
      constructor
      · intro hn; exact Or.inr ((ih n).mp hn)
      · rintro (rfl | hn)
        · exact (ih _).mpr hm
        · exact (ih n).mpr hn
    · have h' : (dedup l).contains m = false := by simpa using h
      simp only [h', Bool.false_eq_true, if_false, List.mem_cons]
      rw [ih n]

private theorem contains_dedup (l : List Nuc) (n : Nuc) : (dedup l).contains n = l.contains n := by
  have := mem_dedup l n
  by_cases h : n ∈ l
  · simp [h, this.mpr h]
  · have h' : ¬ n ∈ dedup l := fun x => h (this.mp x)
    simp [h, h']

private theorem has_node {α : Type} (o : Ops α) (p : Node α) (n : Nuc) :
    (nodeOps o).has p n = p.anyActive o n := by
  simp only [Ops.has, nodeOps, Node.nucs, Node.anyActive, contains_dedup]
  induction p.kids with
  | nil => rfl
  | cons c l ih =>
    simp only [List.flatMap_cons, List.any_cons, ← ih]
    simp [List.contains_eq_mem, List.mem_append]

private theorem anyActive_false {α : Type} (o : Ops α) (p : Node α) (n : Nuc)
    (h : p.anyActive o n = false) : ∀ c ∈ p.kids, o.has c n = false := by
  intro c hc
  simp only [Node.anyActive, List.any_eq_false] at h
  simpa using h c hc

/-- the children after `setNumberDensity(n, ·)` at this level -/
private def setKid {α : Type} (o : Ops α) (n : Nuc) (deh : Rat) (c : α) : α :=
  if o.has c n then o.setND c n deh else c

private theorem sumBy_setKid {α : Type} (o : Ops α) (n : Nuc) (deh : Rat) (F : α → Rat) (l : List α)
    (hF : ∀ c v, F (o.setND c n v) = F c) :
    sumBy F (l.map (setKid o n deh)) = sumBy F l := by
  rw [sumBy_map]; apply sumBy_congr; intro c _
  unfold setKid; split
  · exact hF c deh
  · rfl

private theorem setND_eq {α : Type} (o : Ops α) (p : Node α) (n : Nuc) (v : Rat) :
    p.setND o n v = if p.anyActive o n then
      { p with kids := p.kids.map (setKid o n (v / p.activeFrac o n)) } else p := by
  unfold Node.setND setKid; rfl

private theorem activeFrac_eq {α : Type} (o : Ops α) (p : Node α) (n : Nuc) :
    p.activeFrac o n = sumBy (fun c => if o.has c n then o.vol c else 0) p.kids / sumBy o.vol p.kids := by
  unfold Node.activeFrac Node.volFrac
  rw [← sumBy_div_const]; apply sumBy_congr; intro c _
  split <;> simp

private theorem nd_eq {α : Type} (o : Ops α) (p : Node α) (n : Nuc) :
    p.nd o n = if sumBy (fun c => o.vol c / p.sym) p.kids = 0 then 0
      else sumBy (fun c => o.vol c / p.sym * o.nd c n) p.kids / sumBy (fun c => o.vol c / p.sym) p.kids := rfl

/-- **lifting**: if the children keep the contract, so does the level built from them -/
theorem nodeLawful {α : Type} (o : Ops α) (ph : Phys) (WFc : α → Prop) (hc : Lawful o ph WFc) :
    Lawful (nodeOps o) ph (NodeWF o WFc) where
  nd_absent p n h := by
    rw [has_node] at h
    have hk := anyActive_false o p n h
    simp only [nodeOps]
    rw [nd_eq]
    split
    · rfl
    · have : sumBy (fun c => o.vol c / p.sym * o.nd c n) p.kids = 0 := by
        rw [← sumBy_zero p.kids]; apply sumBy_congr; intro c hcm
        rw [hc.nd_absent c n (hk c hcm)]; ring
      rw [this]; simp
  mass_eq p n hwf := by
    obtain ⟨hs, hv, hkids, k, hk0, hk⟩ := hwf
    simp only [nodeOps, Node.mass]
    rw [nd_eq]
    have hE : sumBy o.vol p.kids = k * sumBy o.evol p.kids := by
      rw [mul_comm, ← sumBy_mul_const]; apply sumBy_congr; intro c hcm; rw [hk c hcm]; ring
    have hE0 : sumBy o.evol p.kids ≠ 0 := by
      intro h0; rw [h0, mul_zero] at hE; exact hv hE
    have h1 : sumBy (fun c => o.vol c / p.sym) p.kids = k * sumBy o.evol p.kids / p.sym := by
      rw [sumBy_div_const, hE]
    have h2 : sumBy (fun c => o.vol c / p.sym * o.nd c n) p.kids
        = k * sumBy (fun c => o.evol c * o.nd c n) p.kids / p.sym := by
      rw [mul_comm k, ← sumBy_mul_const, ← sumBy_div_const]; apply sumBy_congr; intro c hcm
      rw [hk c hcm]; ring
    have h3 : sumBy (fun c => o.mass c n) p.kids
        = sumBy (fun c => o.evol c * o.nd c n) p.kids * (ph.aw n / ph.K) := by
      rw [← sumBy_mul_const]; apply sumBy_congr; intro c hcm
      rw [hc.mass_eq c n (hkids c hcm)]; ring
    simp only [h1, h2, h3]
    have h4 : k * sumBy o.evol p.kids / p.sym ≠ 0 := div_ne_zero (mul_ne_zero hk0 hE0) hs
    rw [if_neg h4]
    field_simp
  set_wf p n v hwf := by
    obtain ⟨hs, hv, hkids, k, hk0, hk⟩ := hwf
    simp only [nodeOps]
    rw [setND_eq]
    split
    · refine ⟨hs, ?_, ?_, k, hk0, ?_⟩
      · simp only []
        rw [sumBy_setKid o n _ o.vol p.kids (fun c v => hc.set_vol c n v)]; exact hv
      · intro c' hc'
        simp only [List.mem_map] at hc'
        obtain ⟨c, hcm, rfl⟩ := hc'
        unfold setKid; split
        · exact hc.set_wf c n _ (hkids c hcm)
        · exact hkids c hcm
      · intro c' hc'
        simp only [List.mem_map] at hc'
        obtain ⟨c, hcm, rfl⟩ := hc'
        unfold setKid; split
        · rw [hc.set_vol, hc.set_evol]; exact hk c hcm
        · exact hk c hcm
    · exact ⟨hs, hv, hkids, k, hk0, hk⟩
  set_vol p n v := by
    simp only [nodeOps]
    rw [setND_eq]
    split
    · simp only [Node.vol]
      rw [sumBy_setKid o n _ o.vol p.kids (fun c v => hc.set_vol c n v)]
    · rfl
  set_evol p n v := by
    simp only [nodeOps]
    rw [setND_eq]
    split
    · simp only []
      rw [sumBy_setKid o n _ o.evol p.kids (fun c v => hc.set_evol c n v)]
    · rfl
  set_nucs p n v _ := by
    simp only [nodeOps]
    rw [setND_eq]
    split
    · simp only [Node.nucs]
      congr 1
      rw [List.flatMap_map]
      apply List.flatMap_congr
      intro c _
      unfold setKid; split
      · rename_i hcn; exact hc.set_nucs c n _ hcn
      · rfl
    · rfl
  set_read p n v hwf hhas hcan := by
    obtain ⟨hs, hv, hkids, _⟩ := hwf
    rw [has_node] at hhas
    simp only [nodeOps, Node.canSet, hhas, if_true, Bool.and_eq_true, decide_eq_true_eq,
      List.all_eq_true, Bool.or_eq_true, Bool.not_eq_true'] at hcan
    obtain ⟨⟨_, haf⟩, hall⟩ := hcan
    simp only [nodeOps]
    rw [setND_eq, if_pos hhas]
    generalize hdeh : v / p.activeFrac o n = deh at hall
    rw [nd_eq]
    simp only [sumBy_map]
    have hvol : ∀ c, o.vol (setKid o n deh c) = o.vol c := by
      intro c; unfold setKid; split
      · exact hc.set_vol c n deh
      · rfl
    have hnd : ∀ c ∈ p.kids, o.nd (setKid o n deh c) n = if o.has c n then deh else 0 := by
      intro c hcm
      unfold setKid
      by_cases hcn : o.has c n = true
      · simp only [hcn, if_true]
        rcases hall c hcm with h | h
        · rw [h] at hcn; cases hcn
        · exact hc.set_read c n deh (hkids c hcm) hcn h
      · have hcn' : o.has c n = false := by simpa using hcn
        simp only [hcn', Bool.false_eq_true, if_false]
        exact hc.nd_absent c n hcn'
    have htot : sumBy (fun c => o.vol (setKid o n deh c) / p.sym) p.kids = sumBy o.vol p.kids / p.sym := by
      rw [← sumBy_div_const]; apply sumBy_congr; intro c _; rw [hvol]
    have hnum : sumBy (fun c => o.vol (setKid o n deh c) / p.sym * o.nd (setKid o n deh c) n) p.kids
        = sumBy (fun c => if o.has c n then o.vol c else 0) p.kids * (deh / p.sym) := by
      rw [← sumBy_mul_const]; apply sumBy_congr; intro c hcm
      rw [hvol, hnd c hcm]; split <;> ring
    simp only [htot, hnum]
    have h3 : sumBy o.vol p.kids / p.sym ≠ 0 := div_ne_zero hv hs
    rw [if_neg h3]
    rw [activeFrac_eq] at haf hdeh
    have hS : sumBy (fun c => if o.has c n then o.vol c else 0) p.kids ≠ 0 := by
      intro h0; rw [h0, zero_div] at haf; exact haf rfl
    rw [← hdeh]
    field_simp
  set_frame p n v m hwf hm := by
    obtain ⟨_, _, hkids, _⟩ := hwf
    simp only [nodeOps]
    rw [setND_eq]
    split
    · rw [nd_eq, nd_eq]
      simp only [sumBy_map]
      have hvol : ∀ c, o.vol (setKid o n (v / p.activeFrac o n) c) = o.vol c := by
        intro c; unfold setKid; split
        · exact hc.set_vol c n _
        · rfl
      have hnd : ∀ c ∈ p.kids, o.nd (setKid o n (v / p.activeFrac o n) c) m = o.nd c m := by
        intro c hcm; unfold setKid; split
        · exact hc.set_frame c n _ m (hkids c hcm) hm
        · rfl
      have e1 : sumBy (fun c => o.vol (setKid o n (v / p.activeFrac o n) c) / p.sym) p.kids
          = sumBy (fun c => o.vol c / p.sym) p.kids := by
        apply sumBy_congr; intro c _; rw [hvol]
      have e2 : sumBy (fun c => o.vol (setKid o n (v / p.activeFrac o n) c) / p.sym
            * o.nd (setKid o n (v / p.activeFrac o n) c) m) p.kids
          = sumBy (fun c => o.vol c / p.sym * o.nd c m) p.kids := by
        apply sumBy_congr; intro c hcm; rw [hvol, hnd c hcm]
      simp only [e1, e2]
    · rfl

/-! ### the three concrete levels -/

/-- block of components / assembly of blocks / core of assemblies: well-formedness predicates -/
def BlockWF (ph : Phys) : Block → Prop := NodeWF (compOps ph) (fun _ => True)
def AssemWF (ph : Phys) : Assem → Prop := NodeWF (blockOps ph) (BlockWF ph)
def CoreWF (ph : Phys) : Core → Prop := NodeWF (assemOps ph) (AssemWF ph)

theorem blockLawful (ph : Phys) : Lawful (blockOps ph) ph (BlockWF ph) := nodeLawful _ ph _ (compLawful ph)
theorem assemLawful (ph : Phys) : Lawful (assemOps ph) ph (AssemWF ph) := nodeLawful _ ph _ (blockLawful ph)
theorem coreLawful (ph : Phys) : Lawful (coreOps ph) ph (CoreWF ph) := nodeLawful _ ph _ (assemLawful ph)

/-- a block is well-formed as soon as its symmetry factor and total component volume are non-zero and every
component sees the block's symmetry factor as its parent's (what the harness loads) -/
theorem blockWF_of (ph : Phys) (b : Block) (hs : b.sym ≠ 0) (hv : sumBy (compOps ph).vol b.kids ≠ 0)
    (hp : ∀ c ∈ b.kids, c.psym = b.sym) : BlockWF ph b := by
  refine ⟨hs, hv, fun _ _ => trivial, b.sym, hs, ?_⟩
  intro c hc
  simp only [compOps, hp c hc]
  field_simp

/-- for such a block the mass-carrying volume IS `Block.getVolume()` = Σ component volumes / symmetry factor -/
theorem block_evol_eq_vol (ph : Phys) (b : Block) (hcoded : b.volCoded = none)
    (hp : ∀ c ∈ b.kids, c.psym = b.sym) : (blockOps ph).evol b = (blockOps ph).vol b := by
  simp only [blockOps, nodeOps, Node.vol, hcoded]
  rw [← sumBy_div_const]; apply sumBy_congr; intro c hc
  simp only [compOps, hp c hc]

/-- an assembly whose blocks are such blocks: volumes of blocks are their mass-carrying volumes (k = 1) -/
theorem assemWF_of (ph : Phys) (a : Assem) (hs : a.sym ≠ 0) (hv : sumBy (blockOps ph).vol a.kids ≠ 0)
    (hb : ∀ b ∈ a.kids, BlockWF ph b ∧ b.volCoded = none ∧ ∀ c ∈ b.kids, c.psym = b.sym) : AssemWF ph a := by
  refine ⟨hs, hv, fun b hbm => (hb b hbm).1, 1, one_ne_zero, ?_⟩
  intro b hbm
  rw [one_mul, block_evol_eq_vol ph b (hb b hbm).2.1 (hb b hbm).2.2]

/-- **assembly volume = Σ block volumes, under the hypothesis that excludes finding F5**: every block's
volume is area × height and all blocks have the first block's area -/
theorem assemblyVolume_eq_sum (areas heights vols : List Rat) (a0 : Rat)
    (h : List.Forall₂ (fun ah v => ah.1 = a0 ∧ v = ah.1 * ah.2) (areas.zip heights) vols)
    (hl : areas.length = heights.length) (hne : areas ≠ []) :
    assemblyVolume areas heights = sumBy id vols := by
  have key : ∀ (as hs vs : List Rat), as.length = hs.length →
      List.Forall₂ (fun ah v => ah.1 = a0 ∧ v = ah.1 * ah.2) (as.zip hs) vs → sumBy id vs = a0 * sumBy id hs := by
    intro as
    induction as with
    | nil =>
      intro hs vs hl h
      cases hs with
      | nil => cases h; simp [sumBy]
      | cons _ _ => simp at hl
    | cons a as ih =>
      intro hs vs hl h
      cases hs with
      | nil => simp at hl
      | cons hh hs =>
        simp only [List.zip_cons_cons] at h
        cases h with
        | cons hhead htail =>
          simp only [sumBy, id]
          rw [ih hs _ (by simpa using hl) htail, hhead.2, hhead.1]; ring
  cases areas with
  | nil => exact absurd rfl hne
  | cons a as =>
    cases heights with
    | nil => simp at hl
    | cons hh hs =>
      have h0 : a = a0 := by
        simp only [List.zip_cons_cons] at h
        cases h with
        | cons hhead _ => exact hhead.1
      rw [key (a :: as) (hh :: hs) vols hl h]
      simp [assemblyVolume, h0]

/-! ### consequences, for every level that keeps the contract -/

section Derived
variable {α : Type} {o : Ops α} {ph : Phys} {WF : α → Prop}

/-- **mass = density × volume** (total over the nuclides present), at every level -/
theorem mass_eq_density_volume (hl : Lawful o ph WF) (a : α) (hwf : WF a) (hev : o.evol a = o.vol a) :
    massTotal o a = density o ph a * o.vol a := by
  unfold massTotal density
  rw [← sumBy_mul_const]; apply sumBy_congr; intro n _
  rw [hl.mass_eq a n hwf, hev]

/-- per nuclide: `getMass(n) = N_n · A_n / K · V` -/
theorem mass_eq_nd_volume (hl : Lawful o ph WF) (a : α) (n : Nuc) (hwf : WF a) (hev : o.evol a = o.vol a) :
    o.mass a n = getMassInGrams ph n (o.vol a) (o.nd a n) := by
  rw [hl.mass_eq a n hwf, hev]; unfold getMassInGrams; ring

/-- **`setNumberDensity` reads back at the same level** -/
theorem setND_readback (hl : Lawful o ph WF) (a : α) (n : Nuc) (v : Rat) (hwf : WF a)
    (hn : o.has a n = true) (hcan : o.canSet a n v = true) : o.nd (o.setND a n v) n = v :=
  hl.set_read a n v hwf hn hcan

/-- **… and leaves every other nuclide's density unchanged** -/
theorem setND_frame (hl : Lawful o ph WF) (a : α) (n m : Nuc) (v : Rat) (hwf : WF a) (hm : m ≠ n) :
    o.nd (o.setND a n v) m = o.nd a m :=
  hl.set_frame a n v m hwf hm

/-- **`setMass(n, m)` reads back `m`** at every composite level (the mass-carrying volume is the object's own
volume: `block_evol_eq_vol`; assemblies: equal block areas). Components: `comp_setMass_readback`. -/
theorem setMass_readback (hl : Lawful o ph WF) (a : α) (n : Nuc) (m : Rat) (hwf : WF a)
    (hn : o.has a n = true) (hcan : canSetMass o ph a n m = true) (hev : o.evol a = o.vol a)
    (hK : ph.K ≠ 0) (hA : ph.aw n ≠ 0) (hV : o.vol a ≠ 0) :
    o.mass (setMass o ph a n m) n = m := by
  unfold setMass
  simp only [canSetMass, Bool.and_eq_true] at hcan
  rw [hl.mass_eq _ n (hl.set_wf a n _ hwf), hl.set_read a n _ hwf hn hcan.2, hl.set_evol, hev]
  unfold calculateNumberDensity
  field_simp

/-- **`addMass(n, m)` adds exactly `m` to the nuclide's mass at the same level** -/
theorem addMass_readback (hl : Lawful o ph WF) (a : α) (n : Nuc) (m : Rat) (hwf : WF a)
    (hn : o.has a n = true) (hcan : canAddMass o ph a n m = true) (hev : o.evol a = o.vol a)
    (hK : ph.K ≠ 0) (hA : ph.aw n ≠ 0) (hV : o.vol a ≠ 0) :
    o.mass (addMass o ph a n m) n = o.mass a n + m := by
  unfold addMass
  simp only [canAddMass, Bool.and_eq_true] at hcan
  rw [hl.mass_eq _ n (hl.set_wf a n _ hwf), hl.set_read a n _ hwf hn hcan.2, hl.set_evol,
    hl.mass_eq a n hwf, hev]
  unfold calculateNumberDensity
  field_simp

/-- `removeMass(n, m)` removes exactly `m` -/
theorem removeMass_readback (hl : Lawful o ph WF) (a : α) (n : Nuc) (m : Rat) (hwf : WF a)
    (hn : o.has a n = true) (hcan : canAddMass o ph a n (-m) = true) (hev : o.evol a = o.vol a)
    (hK : ph.K ≠ 0) (hA : ph.aw n ≠ 0) (hV : o.vol a ≠ 0) :
    o.mass (removeMass o ph a n m) n = o.mass a n - m := by
  unfold removeMass
  rw [addMass_readback hl a n (-m) hwf hn hcan hev hK hA hV]; ring

/-- adding / setting mass leaves the other nuclides' densities alone -/
theorem addMass_frame (hl : Lawful o ph WF) (a : α) (n k : Nuc) (m : Rat) (hwf : WF a) (hk : k ≠ n) :
    o.nd (addMass o ph a n m) k = o.nd a k ∧ o.nd (setMass o ph a n m) k = o.nd a k :=
  ⟨hl.set_frame a n _ k hwf hk, hl.set_frame a n _ k hwf hk⟩

/-- composition edits never change volumes -/
theorem setND_volume (hl : Lawful o ph WF) (a : α) (n : Nuc) (v : Rat) :
    o.vol (o.setND a n v) = o.vol a := hl.set_vol a n v

end Derived

/-- **component level: `setMass(n, m)` reads back `m`** whatever the parent block's symmetry factor
(`Component.setMass` scales the request by it, `Component.getMass` divides by it) -/
theorem comp_setMass_readback (ph : Phys) (c : Comp) (n : Nuc) (m : Rat)
    (hK : ph.K ≠ 0) (hA : ph.aw n ≠ 0) (hV : c.vol ≠ 0) (hs : c.psym ≠ 0) :
    (compOps ph).mass (c.setMass ph n m) n = m := by
  simp only [Comp.setMass, setMass, compOps, Comp.mass, NDens.update, List.foldl, calculateNumberDensity]
  rw [get_set_self]
  field_simp
  ring

/-- **component level: `addMass(n, m)` adds exactly `m`** (and `removeMass` removes it) -/
theorem comp_addMass_readback (ph : Phys) (c : Comp) (n : Nuc) (m : Rat)
    (hK : ph.K ≠ 0) (hA : ph.aw n ≠ 0) (hV : c.vol ≠ 0) (hs : c.psym ≠ 0) :
    (compOps ph).mass (c.addMass ph n m) n = (compOps ph).mass c n + m := by
  simp only [Comp.addMass, addMass, compOps, Comp.mass, NDens.update, List.foldl, calculateNumberDensity]
  rw [get_set_self]
  field_simp
  ring

/-- component level: mass = `Component.density()` × volume / parent symmetry factor, for every component that
has at least one nuclide entry (all-zero compositions included) -/
theorem comp_mass_eq_density_volume (ph : Phys) (md : Rat) (void : Bool) (c : Comp) (h : c.nd ≠ []) :
    massTotal (compOps ph) c = Comp.density ph md void c * (c.vol / c.psym) := by
  have he : c.nd.isEmpty = false := by cases hc : c.nd with
    | nil => exact absurd hc h
    | cons _ _ => rfl
  unfold Comp.density
  simp only [he, Bool.false_and, Bool.false_eq_true, if_false]
  unfold massTotal density
  rw [← sumBy_mul_const]; apply sumBy_congr; intro n _
  simp only [compOps, Comp.mass]; ring

/-- the excluded point (finding component-density-empty-composition-reports-material-density): a component with
no nuclides and a non-void material has mass 0 but reports the material's density -/
theorem comp_empty_density_is_material (ph : Phys) (md : Rat) (c : Comp) (h : c.nd = []) :
    massTotal (compOps ph) c = 0 ∧ Comp.density ph md false c = md := by
  unfold Comp.density massTotal
  simp [h, compOps, NDens.keys, sumBy]

example : (compOps ⟨2, 1, fun _ => 10⟩).mass ((⟨6, 3, [(1, 2)]⟩ : Comp).setMass ⟨2, 1, fun _ => 10⟩ 1 100) 1 = 100 :=
  comp_setMass_readback _ _ _ _ (by norm_num) (by norm_num) (by norm_num) (by norm_num)

/-! ### densityTools: mass fractions and the conversions -/

private theorem sumBy_snd_map (f : Nuc × Rat → Rat) (d : NDens) :
    sumBy (fun q => q.2) (d.map (fun p => (p.1, f p))) = sumBy f d := by
  rw [sumBy_map]

/-- **mass fractions sum to one** (whenever there is any mass) -/
theorem massFracs_sum_one (ph : Phys) (d : NDens) (h : sumBy (fun p => p.2 * ph.aw p.1) d ≠ 0) :
    sumBy (fun q => q.2) (getMassFractions ph d) = 1 := by
  unfold getMassFractions
  simp only [h, ne_eq, not_false_eq_true, if_true]
  rw [sumBy_snd_map, sumBy_div_const]
  exact div_self h

example : sumBy (fun q => q.2) (getMassFractions ⟨1, 1, fun _ => 2⟩ [(1, 3), (2, 5)]) = 1 :=
  massFracs_sum_one _ _ (by norm_num [sumBy])

/-- `calculateMassDensity` is `Σ N A / K` -/
theorem massDensity_eq (ph : Phys) (d : NDens) :
    calculateMassDensity ph d = sumBy (fun p => p.2 * ph.aw p.1) d / ph.K := by
  unfold calculateMassDensity; rw [← sumBy_div_const]

/-- **number densities → mass fractions → number densities is the identity**
(`getNDensFromMasses(calculateMassDensity(N), getMassFractions(N)) = N`) -/
theorem ndens_massfrac_inverse (ph : Phys) (d : NDens) (hK : ph.K ≠ 0)
    (hT : sumBy (fun p => p.2 * ph.aw p.1) d ≠ 0) (hA : ∀ p ∈ d, ph.aw p.1 ≠ 0) :
    getNDensFromMasses ph (calculateMassDensity ph d) (getMassFractions ph d) = d := by
  rw [massDensity_eq]
  unfold getNDensFromMasses getMassFractions
  simp only [hT, ne_eq, not_false_eq_true, if_true, List.map_map]
  have : ∀ p ∈ d, ((fun p : Nuc × Rat => (p.1, p.2 * (sumBy (fun p => p.2 * ph.aw p.1) d / ph.K * ph.K) / ph.aw p.1)) ∘
      (fun p : Nuc × Rat => (p.1, p.2 * ph.aw p.1 / sumBy (fun p => p.2 * ph.aw p.1) d))) p = p := by
    intro p hp
    have hAp := hA p hp
    simp only [Function.comp]
    ext
    · rfl
    · simp only []; field_simp
  calc _ = d.map id := List.map_congr_left this
    _ = d := List.map_id d

/-- **mass fractions → number densities → mass fractions is the identity** for fractions that sum to one -/
theorem massfrac_ndens_inverse (ph : Phys) (mf : NDens) (rho : Rat) (hK : ph.K ≠ 0) (hr : rho ≠ 0)
    (hsum : sumBy (fun q => q.2) mf = 1) (hA : ∀ p ∈ mf, ph.aw p.1 ≠ 0) :
    getMassFractions ph (getNDensFromMasses ph rho mf) = mf := by
  have htot : sumBy (fun p => p.2 * ph.aw p.1) (getNDensFromMasses ph rho mf) = rho * ph.K := by
    unfold getNDensFromMasses
    rw [sumBy_map]
    have : sumBy (fun a : Nuc × Rat => a.2 * (rho * ph.K) / ph.aw a.1 * ph.aw a.1) mf
        = sumBy (fun a => a.2 * (rho * ph.K)) mf := by
      apply sumBy_congr; intro p hp; have := hA p hp; field_simp
    simp only [] at this ⊢
    rw [this, sumBy_mul_const, hsum, one_mul]
  unfold getMassFractions
  rw [htot]
  simp only [mul_ne_zero hr hK, ne_eq, not_false_eq_true, if_true]
  unfold getNDensFromMasses
  rw [List.map_map]
  calc _ = mf.map id := by
        apply List.map_congr_left
        intro p hp
        have := hA p hp
        simp only [Function.comp, id]
        ext
        · rfl
        · simp only []; field_simp
    _ = mf := List.map_id mf

/-- **mass ↔ number density**: `getMassInGrams(n, V, calculateNumberDensity(n, m, V)) = m` and back -/
theorem masses_ndens_inverse (ph : Phys) (n : Nuc) (m vol nd : Rat) (hK : ph.K ≠ 0) (hA : ph.aw n ≠ 0)
    (hV : vol ≠ 0) :
    getMassInGrams ph n vol (calculateNumberDensity ph n m vol) = m ∧
    calculateNumberDensity ph n (getMassInGrams ph n vol nd) vol = nd := by
  unfold getMassInGrams calculateNumberDensity
  constructor <;> field_simp

/-! ### `updateNumberDensities` / `setNumberDensities` / `changeNDensByFactor` -/

/-- the keys of a request dict are distinct (a Python dict) -/
def NodupKeys (d : NDens) : Prop := (NDens.keys d).Nodup

private theorem has_eq_contains (d : NDens) (n : Nuc) : NDens.has d n = (NDens.keys d).contains n := by
  induction d with
  | nil => rfl
  | cons p d ih =>
    obtain ⟨k, w⟩ := p
    by_cases h : k = n
    · simp [NDens.has, NDens.keys, h]
    · have h' : ¬ n = k := fun e => h e.symm
      simp only [NDens.has, h, if_false, ih, NDens.keys, List.map_cons, List.contains_cons]
      simp [h']

private theorem get_update (nd d : NDens) (n : Nuc) (hd : NodupKeys d) :
    NDens.get (NDens.update nd d) n = if NDens.has d n then NDens.get d n else NDens.get nd n := by
  induction d generalizing nd with
  | nil => simp [NDens.update, NDens.has]
  | cons p d ih =>
    obtain ⟨k, w⟩ := p
    have hd' : NodupKeys d := by
      unfold NodupKeys NDens.keys at hd ⊢; exact (List.nodup_cons.mp hd).2
    have hk : NDens.has d k = false := by
      rw [has_eq_contains]
      unfold NodupKeys NDens.keys at hd
      have := (List.nodup_cons.mp hd).1
      simpa [NDens.keys] using this
    have hstep : NDens.update nd ((k, w) :: d) = NDens.update (NDens.set nd k w) d := by
      simp [NDens.update]
    rw [hstep, ih _ hd']
    by_cases h : k = n
    · subst h
      simp [NDens.has, NDens.get, hk, get_set_self]
    · simp only [NDens.has, NDens.get, h, if_false]
      rw [get_set_other nd k n w (fun e => h e.symm)]

/-- the part of the contract about `updateNumberDensities` -/
structure LawfulUpd {α : Type} (o : Ops α) (WF : α → Prop) : Prop where
  upd_wf : ∀ a d, WF a → WF (o.upd a d)
  upd_vol : ∀ a d, o.vol (o.upd a d) = o.vol a
  upd_evol : ∀ a d, o.evol (o.upd a d) = o.evol a
  upd_read : ∀ a d n, WF a → o.canUpd a d = true → NodupKeys d → NDens.has d n = true →
    o.nd (o.upd a d) n = NDens.get d n
  upd_frame : ∀ a d n, WF a → NodupKeys d → NDens.has d n = false → o.nd (o.upd a d) n = o.nd a n

theorem compLawfulUpd (ph : Phys) : LawfulUpd (compOps ph) (fun _ => True) where
  upd_wf _ _ _ := trivial
  upd_vol _ _ := rfl
  upd_evol _ _ := rfl
  upd_read a d n _ _ hd hn := by
    simp only [compOps]; rw [get_update _ _ _ hd, hn]; simp
  upd_frame a d n _ hd hn := by
    simp only [compOps]; rw [get_update _ _ _ hd, hn]; simp

/-- per-child request built by a composite level: which nuclides it contains, with which values -/
private theorem childUpdate_spec {α : Type} (o : Ops α) (p : Node α) (d : NDens) (c : α) (n : Nuc)
    (hd : NodupKeys d) :
    (NDens.has (p.childUpdate o d c) n =
      (NDens.has d n && (if p.anyActive o n then o.has c n else decide (NDens.get d n ≠ 0)))) ∧
    (NDens.has (p.childUpdate o d c) n = true →
      NDens.get (p.childUpdate o d c) n =
        NDens.get d n / (if p.anyActive o n then p.activeFrac o n else sumBy (p.volFrac o) p.kids)) := by
  induction d with
  | nil => simp [Node.childUpdate, NDens.has]
  | cons q d ih =>
    obtain ⟨k, w⟩ := q
    have hd' : NodupKeys d := by
      unfold NodupKeys NDens.keys at hd ⊢; exact (List.nodup_cons.mp hd).2
    have hk : NDens.has d k = false := by
      rw [has_eq_contains]
      unfold NodupKeys NDens.keys at hd
      have := (List.nodup_cons.mp hd).1
      simpa [NDens.keys] using this
    obtain ⟨ih1, ih2⟩ := ih hd'
    have hcu : p.childUpdate o ((k, w) :: d) c =
        (match (if p.anyActive o k then (if o.has c k then some (k, w / p.activeFrac o k) else none)
            else if w = 0 then none else some (k, w / sumBy (p.volFrac o) p.kids)) with
          | some e => e :: p.childUpdate o d c
          | none => p.childUpdate o d c) := by
      simp only [Node.childUpdate, List.filterMap_cons]
      split <;> simp_all
    by_cases hkn : k = n
    · subst hkn
      have hrest : NDens.has (p.childUpdate o d c) k = false := by rw [ih1, hk]; simp
      rw [hcu]
      by_cases hact : p.anyActive o k = true
      · by_cases hck : o.has c k = true
        · simp [hact, hck, NDens.has, NDens.get]
        · have hck' : o.has c k = false := by simpa using hck
          simp [hact, hck', NDens.has, NDens.get, hrest]
      · have hact' : p.anyActive o k = false := by simpa using hact
        by_cases hw : w = 0
        · simp [hact', hw, NDens.has, NDens.get, hrest]
        · simp [hact', hw, NDens.has, NDens.get]
    · have hnk : ¬ n = k := fun e => hkn e.symm
      have hhas : NDens.has ((k, w) :: d) n = NDens.has d n := by simp [NDens.has, hkn]
      have hget : NDens.get ((k, w) :: d) n = NDens.get d n := by simp [NDens.get, hkn]
      rw [hcu, hhas, hget]
      split
      · rename_i e he
        have hek : e.1 = k := by
          split at he
          · split at he
            · cases he; rfl
            · cases he
          · split at he
            · cases he
            · cases he; rfl
        obtain ⟨e1, e2⟩ := e
        simp only [] at hek
        subst hek
        simp only [NDens.has, NDens.get, hkn, if_false]
        exact ⟨ih1, ih2⟩
      · exact ⟨ih1, ih2⟩

private theorem childUpdate_nodup {α : Type} (o : Ops α) (p : Node α) (d : NDens) (c : α)
    (hd : NodupKeys d) : NodupKeys (p.childUpdate o d c) := by
  unfold NodupKeys NDens.keys Node.childUpdate at *
  induction d with
  | nil => simp
  | cons q d ih =>
    obtain ⟨k, w⟩ := q
    have hd' := (List.nodup_cons.mp hd)
    have ih' := ih hd'.2
    have hsub : ∀ x ∈ (List.filterMap (fun q : Nuc × Rat =>
        if p.anyActive o q.1 then (if o.has c q.1 then some (q.1, q.2 / p.activeFrac o q.1) else none)
        else if q.2 = 0 then none else some (q.1, q.2 / sumBy (p.volFrac o) p.kids)) d).map (·.1),
        x ∈ d.map (·.1) := by
      intro x hx
      simp only [List.mem_map, List.mem_filterMap] at hx ⊢
      obtain ⟨e, ⟨q, hq, hqe⟩, rfl⟩ := hx
      refine ⟨q, hq, ?_⟩
      split at hqe
      · split at hqe
        · cases hqe; rfl
        · cases hqe
      · split at hqe
        · cases hqe
        · cases hqe; rfl
    simp only [List.filterMap_cons]
    split
    · exact ih'
    · rename_i e he
      have hek : e.1 = k := by
        split at he
        · split at he
          · cases he; rfl
          · cases he
        · split at he
          · cases he
          · cases he; rfl
      simp only [List.map_cons, List.nodup_cons]
      refine ⟨?_, ih'⟩
      rw [hek]
      intro hmem
      exact hd'.1 (by simpa using hsub k hmem)

/-- the children after `updateNumberDensities(d)` at this level -/
private def updKid {α : Type} (o : Ops α) (p : Node α) (d : NDens) (c : α) : α :=
  if (p.childUpdate o d c).isEmpty then c else o.upd c (p.childUpdate o d c)

private theorem upd_eq {α : Type} (o : Ops α) (p : Node α) (d : NDens) :
    p.upd o d = { p with kids := p.kids.map (updKid o p d) } := rfl

private theorem has_nil_of_isEmpty (u : NDens) (n : Nuc) (h : u.isEmpty = true) : NDens.has u n = false := by
  cases u with
  | nil => rfl
  | cons _ _ => simp at h

private theorem volFrac_sum {α : Type} (o : Ops α) (p : Node α) (hv : sumBy o.vol p.kids ≠ 0) :
    sumBy (p.volFrac o) p.kids = 1 := by
  have : sumBy (p.volFrac o) p.kids = sumBy o.vol p.kids / sumBy o.vol p.kids := by
    rw [← sumBy_div_const]; rfl
  rw [this, div_self hv]

private theorem has_mem (d : NDens) (n : Nuc) (h : NDens.has d n = true) : ∃ w, (n, w) ∈ d := by
  induction d with
  | nil => simp [NDens.has] at h
  | cons q d ih =>
    obtain ⟨k, w⟩ := q
    by_cases hk : k = n
    · subst hk; exact ⟨w, by simp⟩
    · have : NDens.has d n = true := by simpa [NDens.has, hk] using h
      obtain ⟨w', hw'⟩ := ih this
      exact ⟨w', List.mem_cons_of_mem _ hw'⟩

/-- **lifting of the `updateNumberDensities` contract** -/
theorem nodeLawfulUpd {α : Type} (o : Ops α) (ph : Phys) (WFc : α → Prop) (hc : Lawful o ph WFc)
    (hu : LawfulUpd o WFc) : LawfulUpd (nodeOps o) (NodeWF o WFc) where
  upd_wf p d hwf := by
    obtain ⟨hs, hv, hkids, k, hk0, hk⟩ := hwf
    simp only [nodeOps]; rw [upd_eq]
    have hvol : ∀ c, o.vol (updKid o p d c) = o.vol c := by
      intro c; unfold updKid; split
      · rfl
      · exact hu.upd_vol c _
    have hevol : ∀ c, o.evol (updKid o p d c) = o.evol c := by
      intro c; unfold updKid; split
      · rfl
      · exact hu.upd_evol c _
    refine ⟨hs, ?_, ?_, k, hk0, ?_⟩
    · simp only []; rw [sumBy_map]
      have : sumBy (fun a => o.vol (updKid o p d a)) p.kids = sumBy o.vol p.kids := by
        apply sumBy_congr; intro c _; exact hvol c
      rw [this]; exact hv
    · intro c' hc'
      simp only [List.mem_map] at hc'
      obtain ⟨c, hcm, rfl⟩ := hc'
      unfold updKid; split
      · exact hkids c hcm
      · exact hu.upd_wf c _ (hkids c hcm)
    · intro c' hc'
      simp only [List.mem_map] at hc'
      obtain ⟨c, hcm, rfl⟩ := hc'
      rw [hvol, hevol]; exact hk c hcm
  upd_vol p d := by
    simp only [nodeOps]; rw [upd_eq]
    simp only [Node.vol]
    rw [sumBy_map]
    have : sumBy (fun a => o.vol (updKid o p d a)) p.kids = sumBy o.vol p.kids := by
      apply sumBy_congr; intro c _; unfold updKid; split
      · rfl
      · exact hu.upd_vol c _
    rw [this]
  upd_evol p d := by
    simp only [nodeOps]; rw [upd_eq]
    simp only []
    rw [sumBy_map]
    apply sumBy_congr; intro c _; unfold updKid; split
    · rfl
    · exact hu.upd_evol c _
  upd_frame p d n hwf hd hn := by
    obtain ⟨_, _, hkids, _⟩ := hwf
    simp only [nodeOps]; rw [upd_eq, nd_eq, nd_eq]
    simp only [sumBy_map]
    have hvol : ∀ c, o.vol (updKid o p d c) = o.vol c := by
      intro c; unfold updKid; split
      · rfl
      · exact hu.upd_vol c _
    have hnd : ∀ c ∈ p.kids, o.nd (updKid o p d c) n = o.nd c n := by
      intro c hcm; unfold updKid; split
      · rfl
      · apply hu.upd_frame c _ n (hkids c hcm) (childUpdate_nodup o p d c hd)
        rw [(childUpdate_spec o p d c n hd).1, hn]; rfl
    have e1 : sumBy (fun c => o.vol (updKid o p d c) / p.sym) p.kids
        = sumBy (fun c => o.vol c / p.sym) p.kids := by
      apply sumBy_congr; intro c _; rw [hvol]
    have e2 : sumBy (fun c => o.vol (updKid o p d c) / p.sym * o.nd (updKid o p d c) n) p.kids
        = sumBy (fun c => o.vol c / p.sym * o.nd c n) p.kids := by
      apply sumBy_congr; intro c hcm; rw [hvol, hnd c hcm]
    simp only [e1, e2]
  upd_read p d n hwf hcan hd hn := by
    obtain ⟨hs, hv, hkids, _⟩ := hwf
    simp only [nodeOps, Node.canUpd, Bool.and_eq_true, decide_eq_true_eq, List.all_eq_true,
      Bool.or_eq_true, Bool.not_eq_true'] at hcan
    obtain ⟨⟨⟨_, _⟩, hafall⟩, hkidscan⟩ := hcan
    obtain ⟨w, hw⟩ := has_mem d n hn
    simp only [nodeOps]; rw [upd_eq, nd_eq]
    simp only [sumBy_map]
    have hvol : ∀ c, o.vol (updKid o p d c) = o.vol c := by
      intro c; unfold updKid; split
      · rfl
      · exact hu.upd_vol c _
    have htot : sumBy (fun c => o.vol (updKid o p d c) / p.sym) p.kids = sumBy o.vol p.kids / p.sym := by
      rw [← sumBy_div_const]; apply sumBy_congr; intro c _; rw [hvol]
    have h3 : sumBy o.vol p.kids / p.sym ≠ 0 := div_ne_zero hv hs
    -- value each child reads back for `n`
    have hkid : ∀ c ∈ p.kids, NDens.has (p.childUpdate o d c) n = true →
        o.nd (updKid o p d c) n = NDens.get (p.childUpdate o d c) n := by
      intro c hcm hh
      unfold updKid
      have hne : (p.childUpdate o d c).isEmpty = false := by
        cases hu' : (p.childUpdate o d c).isEmpty with
        | false => rfl
        | true => rw [has_nil_of_isEmpty _ n hu'] at hh; cases hh
      simp only [hne, Bool.false_eq_true, if_false]
      have hcanc : o.canUpd c (p.childUpdate o d c) = true := by
        rcases hkidscan c hcm with h | h
        · rw [h] at hne; cases hne
        · exact h
      exact hu.upd_read c _ n (hkids c hcm) hcanc (childUpdate_nodup o p d c hd) hh
    have hkid0 : ∀ c ∈ p.kids, NDens.has (p.childUpdate o d c) n = false →
        o.nd (updKid o p d c) n = o.nd c n := by
      intro c hcm hh
      unfold updKid; split
      · rfl
      · exact hu.upd_frame c _ n (hkids c hcm) (childUpdate_nodup o p d c hd) hh
    by_cases hact : p.anyActive o n = true
    · -- children holding `n` share the value
      have haf : p.activeFrac o n ≠ 0 := by
        rcases hafall (n, w) hw with h | h
        · simp only [] at h; rw [hact] at h; cases h
        · exact h
      have hnd : ∀ c ∈ p.kids, o.nd (updKid o p d c) n =
          if o.has c n then NDens.get d n / p.activeFrac o n else 0 := by
        intro c hcm
        obtain ⟨s1, s2⟩ := childUpdate_spec o p d c n hd
        rw [hn, hact] at s1
        simp only [Bool.true_and, if_true] at s1
        by_cases hcn : o.has c n = true
        · rw [hcn] at s1
          rw [hkid c hcm s1, s2 s1, hact]; simp [hcn]
        · have hcn' : o.has c n = false := by simpa using hcn
          rw [hcn'] at s1
          rw [hkid0 c hcm s1, hc.nd_absent c n hcn']; simp [hcn']
      have hnum : sumBy (fun c => o.vol (updKid o p d c) / p.sym * o.nd (updKid o p d c) n) p.kids
          = sumBy (fun c => if o.has c n then o.vol c else 0) p.kids
            * (NDens.get d n / p.activeFrac o n / p.sym) := by
        rw [← sumBy_mul_const]; apply sumBy_congr; intro c hcm
        rw [hvol, hnd c hcm]; split <;> ring
      simp only [htot, hnum]
      rw [if_neg h3]
      rw [activeFrac_eq] at haf ⊢
      have hS : sumBy (fun c => if o.has c n then o.vol c else 0) p.kids ≠ 0 := by
        intro h0; rw [h0, zero_div] at haf; exact haf rfl
      field_simp
    · have hact' : p.anyActive o n = false := by simpa using hact
      have habs : ∀ c ∈ p.kids, o.has c n = false := anyActive_false o p n hact'
      by_cases hv0 : NDens.get d n = 0
      · -- skipped: stays 0
        have hnd : ∀ c ∈ p.kids, o.nd (updKid o p d c) n = 0 := by
          intro c hcm
          obtain ⟨s1, _⟩ := childUpdate_spec o p d c n hd
          rw [hn, hact'] at s1
          simp only [Bool.true_and, Bool.false_eq_true, if_false, hv0, ne_eq, not_true_eq_false,
            decide_false] at s1
          rw [hkid0 c hcm s1, hc.nd_absent c n (habs c hcm)]
        have hnum : sumBy (fun c => o.vol (updKid o p d c) / p.sym * o.nd (updKid o p d c) n) p.kids = 0 := by
          rw [← sumBy_zero p.kids]; apply sumBy_congr; intro c hcm; rw [hnd c hcm]; ring
        simp only [htot, hnum]
        rw [if_neg h3, hv0]; simp
      · -- set everywhere
        have hnd : ∀ c ∈ p.kids, o.nd (updKid o p d c) n = NDens.get d n := by
          intro c hcm
          obtain ⟨s1, s2⟩ := childUpdate_spec o p d c n hd
          rw [hn, hact'] at s1
          simp only [Bool.true_and, Bool.false_eq_true, if_false, ne_eq, hv0, not_false_eq_true,
            decide_true] at s1
          rw [hkid c hcm s1, s2 s1, hact']
          simp only [Bool.false_eq_true, if_false]
          rw [volFrac_sum o p hv, div_one]
        have hnum : sumBy (fun c => o.vol (updKid o p d c) / p.sym * o.nd (updKid o p d c) n) p.kids
            = sumBy o.vol p.kids / p.sym * NDens.get d n := by
          rw [← sumBy_div_const, ← sumBy_mul_const]; apply sumBy_congr; intro c hcm
          rw [hvol, hnd c hcm]
        simp only [htot, hnum]
        rw [if_neg h3]
        field_simp

/-! ### consequences of the `updateNumberDensities` contract -/

private theorem keys_mapPair (l : List Nuc) (g : Nuc → Rat) :
    NDens.keys (l.map (fun n => (n, g n))) = l := by
  unfold NDens.keys; rw [List.map_map]; exact List.map_id l

private theorem get_mapPair (l : List Nuc) (g : Nuc → Rat) (n : Nuc) (h : n ∈ l) :
    NDens.get (l.map (fun n => (n, g n))) n = g n := by
  induction l with
  | nil => cases h
  | cons m l ih =>
    by_cases hm : m = n
    · subst hm; simp [NDens.get]
    · have : n ∈ l := by
        rcases List.mem_cons.mp h with e | e
        · exact absurd e.symm hm
        · exact e
      simp [NDens.get, hm, ih this]

section DerivedUpd
variable {α : Type} {o : Ops α} {ph : Phys} {WF : α → Prop}

/-- **`updateNumberDensities` reads back every listed value** -/
theorem updND_readback (hu : LawfulUpd o WF) (a : α) (d : NDens) (n : Nuc) (hwf : WF a)
    (hcan : o.canUpd a d = true) (hd : NodupKeys d) (hn : NDens.has d n = true) :
    o.nd (o.upd a d) n = NDens.get d n := hu.upd_read a d n hwf hcan hd hn

/-- **… and leaves unlisted nuclides alone** -/
theorem updND_frame (hu : LawfulUpd o WF) (a : α) (d : NDens) (n : Nuc) (hwf : WF a)
    (hd : NodupKeys d) (hn : NDens.has d n = false) : o.nd (o.upd a d) n = o.nd a n :=
  hu.upd_frame a d n hwf hd hn

/-- **`changeNDensByFactor(f)` at a composite level multiplies every nuclide's density by `f`** -/
theorem scale_linear (hl : Lawful o ph WF) (hu : LawfulUpd o WF) (a : α) (f : Rat) (hwf : WF a)
    (hnod : (o.nucs a).Nodup) (hcan : canScale o a f = true) (m : Nuc) :
    o.nd (scale o a f) m = o.nd a m * f := by
  unfold scale setNDs
  unfold canScale canSetNDs at hcan
  set L : NDens := (o.nucs a).map (fun n => (n, o.nd a n * f)) with hL
  have hkeys : NDens.keys L = o.nucs a := keys_mapPair _ _
  have hhas : ∀ n, NDens.has L n = (o.nucs a).contains n := by
    intro n; rw [has_eq_contains, hkeys]
  have hZ : ((o.nucs a).filter (fun n => !NDens.has L n)).map (fun n => ((n, 0) : Nuc × Rat)) = [] := by
    have : (o.nucs a).filter (fun n => !NDens.has L n) = [] := by
      apply List.filter_eq_nil_iff.mpr
      intro n hn
      rw [hhas n]; simp [hn]
    rw [this]; rfl
  rw [hZ, List.append_nil] at hcan ⊢
  have hnodup : NodupKeys L := by unfold NodupKeys; rw [hkeys]; exact hnod
  by_cases hm : m ∈ o.nucs a
  · have : NDens.has L m = true := by rw [hhas]; simpa using hm
    rw [hu.upd_read a L m hwf hcan hnodup this, get_mapPair _ _ _ hm]
  · have hf : NDens.has L m = false := by rw [hhas]; simpa using hm
    have habs : o.has a m = false := by unfold Ops.has; simpa using hm
    rw [hu.upd_frame a L m hwf hnodup hf, hl.nd_absent a m habs]; ring

end DerivedUpd

/-- the nuclide list of a composite level has no repetitions -/
theorem nodeNucs_nodup {α : Type} (o : Ops α) (p : Node α) : ((nodeOps o).nucs p).Nodup := by
  simp only [nodeOps, Node.nucs]
  generalize p.kids.flatMap o.nucs = l
  induction l with
  | nil => simp [dedup]
  | cons m l ih =>
    simp only [dedup]
    split
    · exact ih
    · rename_i h
      refine List.nodup_cons.mpr ⟨?_, ih⟩
      intro hm; apply h; simpa using hm

theorem blockLawfulUpd (ph : Phys) : LawfulUpd (blockOps ph) (BlockWF ph) :=
  nodeLawfulUpd _ ph _ (compLawful ph) (compLawfulUpd ph)
theorem assemLawfulUpd (ph : Phys) : LawfulUpd (assemOps ph) (AssemWF ph) :=
  nodeLawfulUpd _ ph _ (blockLawful ph) (blockLawfulUpd ph)
theorem coreLawfulUpd (ph : Phys) : LawfulUpd (coreOps ph) (CoreWF ph) :=
  nodeLawfulUpd _ ph _ (assemLawful ph) (assemLawfulUpd ph)

/-! ### `setMassFracs` -/

/-- a sequence of `setNumberDensity` calls (`[(n₁, v₁), …]`, applied left to right) -/
def setMany {α : Type} (o : Ops α) (a : α) (as : NDens) : α :=
  as.foldl (fun acc q => o.setND acc q.1 q.2) a

/-- none of the calls raises -/
def CanSetMany {α : Type} (o : Ops α) : α → NDens → Prop
  | _, [] => True
  | a, q :: rest => o.canSet a q.1 q.2 = true ∧ CanSetMany o (o.setND a q.1 q.2) rest

section Many
variable {α : Type} {o : Ops α} {ph : Phys} {WF : α → Prop}

/-- after a sequence of sets of distinct, present nuclides: each listed nuclide reads back its value, every
other nuclide is unchanged; volume, nuclide list and well-formedness are kept -/
theorem setMany_spec (hl : Lawful o ph WF) (as : NDens) : ∀ (a : α), WF a → NodupKeys as →
    (∀ q ∈ as, o.has a q.1 = true) → CanSetMany o a as →
    WF (setMany o a as) ∧ o.vol (setMany o a as) = o.vol a ∧ o.nucs (setMany o a as) = o.nucs a ∧
    ∀ n, o.nd (setMany o a as) n = if NDens.has as n then NDens.get as n else o.nd a n := by
  induction as with
  | nil => intro a hwf _ _ _; exact ⟨hwf, rfl, rfl, fun n => by simp [NDens.has, setMany]⟩
  | cons q as ih =>
    intro a hwf hd hpres hcan
    obtain ⟨k, w⟩ := q
    have hd' : NodupKeys as := by
      unfold NodupKeys NDens.keys at hd ⊢; exact (List.nodup_cons.mp hd).2
    have hk : NDens.has as k = false := by
      rw [has_eq_contains]
      unfold NodupKeys NDens.keys at hd
      have := (List.nodup_cons.mp hd).1
      simpa [NDens.keys] using this
    have hka : o.has a k = true := hpres (k, w) (by simp)
    obtain ⟨hc1, hc2⟩ := hcan
    have hpres' : ∀ q ∈ as, o.has (o.setND a k w) q.1 = true := by
      intro q hq
      unfold Ops.has
      rw [hl.set_nucs a k w hka]
      exact hpres q (List.mem_cons_of_mem _ hq)
    obtain ⟨i1, i2, i3, i4⟩ := ih (o.setND a k w) (hl.set_wf a k w hwf) hd' hpres' hc2
    have hstep : setMany o a ((k, w) :: as) = setMany o (o.setND a k w) as := rfl
    rw [hstep]
    refine ⟨i1, by rw [i2, hl.set_vol], by rw [i3, hl.set_nucs a k w hka], ?_⟩
    intro n
    rw [i4 n]
    by_cases hn : k = n
    · subst hn
      simp only [hk, Bool.false_eq_true, if_false, NDens.has, NDens.get, if_true]
      exact hl.set_read a k w hwf hka hc1
    · simp only [NDens.has, NDens.get, hn, if_false]
      split
      · rfl
      · exact hl.set_frame a k w n hwf (fun e => hn e.symm)


/-! helpers on request dicts -/

private theorem has_append (d1 d2 : NDens) (n : Nuc) :
    NDens.has (d1 ++ d2) n = (NDens.has d1 n || NDens.has d2 n) := by
  induction d1 with
  | nil => simp [NDens.has]
  | cons q d ih => obtain ⟨k, w⟩ := q; by_cases h : k = n <;> simp [NDens.has, h, ih]

private theorem get_append (d1 d2 : NDens) (n : Nuc) :
    NDens.get (d1 ++ d2) n = if NDens.has d1 n then NDens.get d1 n else NDens.get d2 n := by
  induction d1 with
  | nil => simp [NDens.has]
  | cons q d ih => obtain ⟨k, w⟩ := q; by_cases h : k = n <;> simp [NDens.has, NDens.get, h, ih]

private theorem has_mapVal (d : NDens) (g : Nuc × Rat → Rat) (n : Nuc) :
    NDens.has (d.map (fun q => (q.1, g q))) n = NDens.has d n := by
  induction d with
  | nil => rfl
  | cons q d ih => obtain ⟨k, w⟩ := q; by_cases h : k = n <;> simp [NDens.has, h, ih]

private theorem get_mapVal (d : NDens) (g : Nuc × Rat → Rat) (n : Nuc) (h : NDens.has d n = true) :
    NDens.get (d.map (fun q => (q.1, g q))) n = g (n, NDens.get d n) := by
  induction d with
  | nil => simp [NDens.has] at h
  | cons q d ih =>
    obtain ⟨k, w⟩ := q
    by_cases hk : k = n
    · subst hk; simp [NDens.get]
    · have : NDens.has d n = true := by simpa [NDens.has, hk] using h
      simp [NDens.get, hk, ih this]

private theorem has_filterKey (d : NDens) (P : Nuc → Bool) (n : Nuc) :
    NDens.has (d.filter (fun q => P q.1)) n = (NDens.has d n && P n) := by
  induction d with
  | nil => rfl
  | cons q d ih =>
    obtain ⟨k, w⟩ := q
    by_cases hP : P k = true
    · by_cases hk : k = n
      · subst hk; simp [List.filter, hP, NDens.has]
      · simp [List.filter, hP, NDens.has, hk, ih]
    · have hP' : P k = false := by simpa using hP
      by_cases hk : k = n
      · subst hk; simp [List.filter, hP', NDens.has, ih]
      · simp [List.filter, hP', NDens.has, hk, ih]

private theorem get_filterKey (d : NDens) (P : Nuc → Bool) (n : Nuc) (h : P n = true) :
    NDens.get (d.filter (fun q => P q.1)) n = NDens.get d n := by
  induction d with
  | nil => rfl
  | cons q d ih =>
    obtain ⟨k, w⟩ := q
    by_cases hP : P k = true
    · by_cases hk : k = n
      · subst hk; simp [List.filter, hP, NDens.get]
      · simp [List.filter, hP, NDens.get, hk, ih]
    · have hP' : P k = false := by simpa using hP
      have hk : ¬ k = n := by intro e; subst e; rw [h] at hP'; cases hP'
      simp [List.filter, hP', NDens.get, hk, ih]

private theorem keys_filterKey_sub (d : NDens) (P : Nuc → Bool) :
    NDens.keys (List.filter (fun q => P q.1) d) = List.filter P (NDens.keys d) := by
  unfold NDens.keys
  induction d with
  | nil => rfl
  | cons q d ih =>
    by_cases hP : P q.1 = true
    · simp [List.filter, hP, ih]
    · have hP' : P q.1 = false := by simpa using hP
      simp [List.filter, hP', ih]

private theorem sumBy_filter {β : Type} (f : β → Rat) (P : β → Bool) (l : List β) :
    sumBy f (l.filter P) = sumBy (fun x => if P x then f x else 0) l := by
  induction l with
  | nil => rfl
  | cons x l ih => by_cases h : P x = true <;> simp [List.filter, h, sumBy, ih]

private theorem sumBy_single (l : List Nuc) (k : Nuc) (w : Rat) (hl : l.Nodup) (hk : k ∈ l) :
    sumBy (fun n => if n = k then w else 0) l = w := by
  induction l with
  | nil => cases hk
  | cons m l ih =>
    have hn := List.nodup_cons.mp hl
    by_cases hm : m = k
    · subst hm
      have : sumBy (fun n => if n = m then w else 0) l = 0 := by
        have e : sumBy (fun n => if n = m then w else 0) l = sumBy (fun _ => (0 : Rat)) l := by
          apply sumBy_congr; intro n hnl
          have : ¬ n = m := by intro e; subst e; exact hn.1 hnl
          simp [this]
        rw [e, sumBy_zero]
      simp only [sumBy, if_true, this, add_zero]
    · have hkl : k ∈ l := by
        rcases List.mem_cons.mp hk with e | e
        · exact absurd e.symm hm
        · exact e
      simp [sumBy, hm, ih hn.2 hkl]

/-- reindexing: the values of a request dict summed over the nuclide list that contains its (distinct) keys -/
private theorem sumBy_reindex (l : List Nuc) (d : NDens) (hl : l.Nodup) (hd : NodupKeys d)
    (hsub : ∀ q ∈ d, q.1 ∈ l) :
    sumBy (fun n => if NDens.has d n then NDens.get d n else 0) l = sumBy (fun q => q.2) d := by
  induction d with
  | nil =>
    simp only [NDens.has, Bool.false_eq_true, if_false, sumBy]; exact sumBy_zero l
  | cons q d ih =>
    obtain ⟨k, w⟩ := q
    have hd' : NodupKeys d := by
      unfold NodupKeys NDens.keys at hd ⊢; exact (List.nodup_cons.mp hd).2
    have hk : NDens.has d k = false := by
      rw [has_eq_contains]
      unfold NodupKeys NDens.keys at hd
      have := (List.nodup_cons.mp hd).1
      simpa [NDens.keys] using this
    have e : sumBy (fun n => if NDens.has ((k, w) :: d) n then NDens.get ((k, w) :: d) n else 0) l
        = sumBy (fun n => (if n = k then w else 0) + (if NDens.has d n then NDens.get d n else 0)) l := by
      apply sumBy_congr; intro n _
      by_cases hn : k = n
      · subst hn; simp [NDens.has, NDens.get, hk]
      · have hn' : ¬ n = k := fun e => hn e.symm
        simp [NDens.has, NDens.get, hn, hn']
    rw [e, sumBy_add, sumBy_single l k w hl (hsub (k, w) (by simp)),
      ih hd' (fun q hq => hsub q (List.mem_cons_of_mem _ hq))]
    simp [sumBy]

/-- the `setNumberDensity` calls `setMassFracs` makes, in order -/
def smfAssignments {α : Type} (o : Ops α) (ph : Phys) (a : α) (mf : NDens) : NDens :=
  let rho := density o ph a
  let others := (massFracs o ph a).filter (fun q => !NDens.has mf q.1)
  let totalSet := sumBy (fun q => q.2) mf
  let totalOther := sumBy (fun q => q.2) others
  mf.map (fun q => (q.1, q.2 * rho * ph.K / ph.aw q.1)) ++
    (if totalOther ≠ 0 then
      others.map (fun q => (q.1, (1 - totalSet) * (q.2 / totalOther) * rho * ph.K / ph.aw q.1))
    else [])

theorem setMassFracs_eq_setMany (a : α) (mf : NDens) :
    setMassFracs o ph a mf = setMany o a (smfAssignments o ph a mf) := by
  unfold setMassFracs smfAssignments setMany
  simp only []
  split
  · rw [List.foldl_append, List.foldl_map, List.foldl_map]
  · rw [List.append_nil, List.foldl_map]

/-- hypotheses of the `setMassFracs` theorems: the object has mass, the constants are non-zero, the
assigned nuclides are distinct and present, the remaining nuclides have mass, no call raises -/
structure SmfOK (o : Ops α) (ph : Phys) (WF : α → Prop) (a : α) (mf : NDens) : Prop where
  wf : WF a
  nodupNucs : (o.nucs a).Nodup
  K0 : ph.K ≠ 0
  A0 : ∀ n ∈ o.nucs a, ph.aw n ≠ 0
  tot0 : sumBy (fun p => p.2 * ph.aw p.1) (ndDict o a) ≠ 0
  nodupMf : NodupKeys mf
  present : ∀ q ∈ mf, q.1 ∈ o.nucs a
  other0 : sumBy (fun q => q.2) ((massFracs o ph a).filter (fun q => !NDens.has mf q.1)) ≠ 0
  can : CanSetMany o a (smfAssignments o ph a mf)

/-- the old mass fraction of a nuclide -/
def oldFrac (o : Ops α) (ph : Phys) (a : α) (n : Nuc) : Rat :=
  o.nd a n * ph.aw n / sumBy (fun p => p.2 * ph.aw p.1) (ndDict o a)

private theorem massFracs_eq (a : α) (h : sumBy (fun p => p.2 * ph.aw p.1) (ndDict o a) ≠ 0) :
    massFracs o ph a = (o.nucs a).map (fun n => (n, oldFrac o ph a n)) := by
  unfold massFracs getMassFractions oldFrac
  simp only [h, ne_eq, not_false_eq_true, if_true]
  unfold ndDict
  rw [List.map_map]; rfl

private theorem density_eq (a : α) :
    density o ph a = sumBy (fun p => p.2 * ph.aw p.1) (ndDict o a) / ph.K := by
  unfold density ndDict
  rw [sumBy_map, ← sumBy_div_const]

/-- number densities after `setMassFracs`: assigned nuclides get `f·ρ·K/A`, the remaining ones share
`1 − Σf` in their old proportions -/
theorem setMassFracs_nd (hl : Lawful o ph WF) (a : α) (mf : NDens) (h : SmfOK o ph WF a mf) :
    WF (setMassFracs o ph a mf) ∧ o.vol (setMassFracs o ph a mf) = o.vol a ∧
    o.nucs (setMassFracs o ph a mf) = o.nucs a ∧
    ∀ n ∈ o.nucs a, o.nd (setMassFracs o ph a mf) n =
      (if NDens.has mf n then NDens.get mf n
       else (1 - sumBy (fun q => q.2) mf) * (oldFrac o ph a n /
          sumBy (fun q => q.2) ((massFracs o ph a).filter (fun q => !NDens.has mf q.1))))
        * density o ph a * ph.K / ph.aw n := by
  rw [setMassFracs_eq_setMany]
  have hmf := massFracs_eq (o := o) (ph := ph) a h.tot0
  set others := (massFracs o ph a).filter (fun q => !NDens.has mf q.1) with hoth
  have hothers_has : ∀ n, NDens.has others n = ((o.nucs a).contains n && !NDens.has mf n) := by
    intro n
    rw [hoth, has_filterKey (massFracs o ph a) (fun k => !NDens.has mf k) n, hmf, has_eq_contains,
      keys_mapPair]
  have hothers_get : ∀ n, n ∈ o.nucs a → NDens.has mf n = false → NDens.get others n = oldFrac o ph a n := by
    intro n hn hm
    rw [hoth, get_filterKey (massFracs o ph a) (fun k => !NDens.has mf k) n (by simp [hm]), hmf,
      get_mapPair _ _ _ hn]
  have hothers_keys : NDens.keys others = (o.nucs a).filter (fun k => !NDens.has mf k) := by
    rw [hoth, keys_filterKey_sub (massFracs o ph a) (fun k => !NDens.has mf k), hmf, keys_mapPair]
  -- the assignment list
  have hass : smfAssignments o ph a mf =
      mf.map (fun q => (q.1, q.2 * density o ph a * ph.K / ph.aw q.1)) ++
        others.map (fun q => (q.1, (1 - sumBy (fun q => q.2) mf) * (q.2 / sumBy (fun q => q.2) others)
          * density o ph a * ph.K / ph.aw q.1)) := by
    unfold smfAssignments
    simp only [← hoth]
    rw [if_pos h.other0]
  have hcan := h.can
  rw [hass] at hcan ⊢
  set as1 := mf.map (fun q => (q.1, q.2 * density o ph a * ph.K / ph.aw q.1)) with has1
  set as2 := others.map (fun q => (q.1, (1 - sumBy (fun q => q.2) mf) * (q.2 / sumBy (fun q => q.2) others)
          * density o ph a * ph.K / ph.aw q.1)) with has2
  have hk1 : NDens.keys as1 = NDens.keys mf := by
    unfold NDens.keys; rw [has1, List.map_map]; rfl
  have hk2 : NDens.keys as2 = NDens.keys others := by
    unfold NDens.keys; rw [has2, List.map_map]; rfl
  have hnodup : NodupKeys (as1 ++ as2) := by
    unfold NodupKeys
    have : NDens.keys (as1 ++ as2) = NDens.keys as1 ++ NDens.keys as2 := by
      unfold NDens.keys; rw [List.map_append]
    rw [this, hk1, hk2, hothers_keys]
    refine List.nodup_append.mpr ⟨h.nodupMf, h.nodupNucs.filter _, ?_⟩
    intro x hx1 y hy2 hxy
    subst hxy
    have : NDens.has mf x = true := by rw [has_eq_contains]; simpa using hx1
    simp [List.mem_filter, this] at hy2
  have hpres : ∀ q ∈ as1 ++ as2, o.has a q.1 = true := by
    intro q hq
    have : q.1 ∈ NDens.keys (as1 ++ as2) := by unfold NDens.keys; exact List.mem_map_of_mem hq
    have hsplit : NDens.keys (as1 ++ as2) = NDens.keys as1 ++ NDens.keys as2 := by
      unfold NDens.keys; rw [List.map_append]
    rw [hsplit, hk1, hk2, hothers_keys, List.mem_append] at this
    unfold Ops.has
    rcases this with h1 | h1
    · unfold NDens.keys at h1
      obtain ⟨q', hq', he⟩ := List.mem_map.mp h1
      have := h.present q' hq'
      rw [he] at this; simpa using this
    · have := (List.mem_filter.mp h1).1; simpa using this
  obtain ⟨r1, r2, r3, r4⟩ := setMany_spec hl (as1 ++ as2) a h.wf hnodup hpres hcan
  refine ⟨r1, r2, r3, ?_⟩
  intro n hn
  rw [r4 n, has_append, get_append]
  have h1has : NDens.has as1 n = NDens.has mf n := by rw [has1]; exact has_mapVal mf _ n
  have h2has : NDens.has as2 n = NDens.has others n := by rw [has2]; exact has_mapVal others _ n
  by_cases hm : NDens.has mf n = true
  · rw [h1has, hm]
    simp only [Bool.true_or, if_true]
    rw [has1, get_mapVal mf _ n hm]
  · have hm' : NDens.has mf n = false := by simpa using hm
    have ho : NDens.has others n = true := by rw [hothers_has, hm']; simpa using hn
    rw [h1has, h2has, hm', ho]
    simp only [Bool.false_or, if_true, Bool.false_eq_true, if_false]
    rw [has2, get_mapVal others _ n ho, hothers_get n hn hm']

/-- **`setMassFracs` keeps the total density** -/
theorem setMassFracs_total_density (hl : Lawful o ph WF) (a : α) (mf : NDens) (h : SmfOK o ph WF a mf) :
    density o ph (setMassFracs o ph a mf) = density o ph a := by
  obtain ⟨_, _, hn, hnd⟩ := setMassFracs_nd hl a mf h
  have hmf := massFracs_eq (o := o) (ph := ph) a h.tot0
  set T := sumBy (fun q => q.2) ((massFracs o ph a).filter (fun q => !NDens.has mf q.1)) with hT
  have hT0 : T ≠ 0 := h.other0
  unfold density
  rw [hn]
  have e1 : sumBy (fun n => o.nd (setMassFracs o ph a mf) n * ph.aw n / ph.K) (o.nucs a)
      = sumBy (fun n => ((if NDens.has mf n then NDens.get mf n else 0)
          + (1 - sumBy (fun q => q.2) mf) / T * (if !NDens.has mf n then oldFrac o ph a n else 0))
          * density o ph a) (o.nucs a) := by
    apply sumBy_congr; intro n hnm
    rw [hnd n hnm]
    have hA := h.A0 n hnm
    have hK := h.K0
    by_cases hm : NDens.has mf n = true
    · simp only [hm, if_true, Bool.not_true, Bool.false_eq_true, if_false]; field_simp; ring
    · have hm' : NDens.has mf n = false := by simpa using hm
      simp only [hm', Bool.false_eq_true, if_false, Bool.not_false, if_true]; field_simp; ring
  have hTsum : sumBy (fun n => if !NDens.has mf n then oldFrac o ph a n else 0) (o.nucs a) = T := by
    rw [hT, hmf, sumBy_filter, sumBy_map]
  unfold density at e1
  rw [e1, sumBy_mul_const, sumBy_add, sumBy_reindex (o.nucs a) mf h.nodupNucs h.nodupMf h.present]
  have : sumBy (fun n => (1 - sumBy (fun q => q.2) mf) / T *
      (if !NDens.has mf n then oldFrac o ph a n else 0)) (o.nucs a)
      = (1 - sumBy (fun q => q.2) mf) / T * T := by
    rw [← hTsum, mul_comm, ← sumBy_mul_const]; apply sumBy_congr; intro n _; ring
  rw [this]
  field_simp
  ring

/-- **`setMassFracs` reads back the assigned fractions** -/
theorem setMassFracs_readback (hl : Lawful o ph WF) (a : α) (mf : NDens) (h : SmfOK o ph WF a mf)
    (n : Nuc) (hn : NDens.has mf n = true) :
    NDens.get (massFracs o ph (setMassFracs o ph a mf)) n = NDens.get mf n := by
  obtain ⟨_, _, hnucs, hnd⟩ := setMassFracs_nd hl a mf h
  have hrho := setMassFracs_total_density hl a mf h
  have hn' : n ∈ o.nucs a := by
    obtain ⟨w, hw⟩ := has_mem mf n hn
    exact h.present (n, w) hw
  have hrho0 : density o ph a ≠ 0 := by
    rw [density_eq]; exact div_ne_zero h.tot0 h.K0
  have htot' : sumBy (fun p => p.2 * ph.aw p.1) (ndDict o (setMassFracs o ph a mf))
      = density o ph a * ph.K := by
    have := density_eq (o := o) (ph := ph) (setMassFracs o ph a mf)
    rw [hrho] at this
    rw [this]; field_simp [h.K0]
  have htot0 : sumBy (fun p => p.2 * ph.aw p.1) (ndDict o (setMassFracs o ph a mf)) ≠ 0 := by
    rw [htot']; exact mul_ne_zero hrho0 h.K0
  rw [massFracs_eq _ htot0, hnucs, get_mapPair _ _ _ hn']
  unfold oldFrac
  rw [htot', hnd n hn', hn]
  simp only [if_true]
  have hA := h.A0 n hn'
  have hK := h.K0
  field_simp

/-- **the remaining nuclides keep their proportions**: each new fraction is the old one times the common
factor `(1 − Σf) / (old total of the remaining nuclides)` -/
theorem setMassFracs_others_proportional (hl : Lawful o ph WF) (a : α) (mf : NDens)
    (h : SmfOK o ph WF a mf) (m : Nuc) (hm : m ∈ o.nucs a) (hmf : NDens.has mf m = false) :
    NDens.get (massFracs o ph (setMassFracs o ph a mf)) m =
      oldFrac o ph a m * ((1 - sumBy (fun q => q.2) mf) /
        sumBy (fun q => q.2) ((massFracs o ph a).filter (fun q => !NDens.has mf q.1))) := by
  obtain ⟨_, _, hnucs, hnd⟩ := setMassFracs_nd hl a mf h
  have hrho := setMassFracs_total_density hl a mf h
  have hrho0 : density o ph a ≠ 0 := by
    rw [density_eq]; exact div_ne_zero h.tot0 h.K0
  have htot' : sumBy (fun p => p.2 * ph.aw p.1) (ndDict o (setMassFracs o ph a mf))
      = density o ph a * ph.K := by
    have := density_eq (o := o) (ph := ph) (setMassFracs o ph a mf)
    rw [hrho] at this
    rw [this]; field_simp [h.K0]
  have htot0 : sumBy (fun p => p.2 * ph.aw p.1) (ndDict o (setMassFracs o ph a mf)) ≠ 0 := by
    rw [htot']; exact mul_ne_zero hrho0 h.K0
  rw [massFracs_eq _ htot0, hnucs, get_mapPair _ _ _ hm]
  unfold oldFrac
  rw [htot', hnd m hm, hmf]
  simp only [Bool.false_eq_true, if_false]
  have hA := h.A0 m hm
  have hK := h.K0
  have hT := h.other0
  unfold oldFrac
  field_simp

end Many

/-! ### the derived (left-over) shape closes the block -/

private theorem sumBy_append {β : Type} (f : β → Rat) (l1 l2 : List β) :
    sumBy f (l1 ++ l2) = sumBy f l1 + sumBy f l2 := by
  induction l1 with
  | nil => simp [sumBy]
  | cons a l ih => simp only [List.cons_append, sumBy, ih]; ring

/-- **the derived shape's volume is exactly what the siblings leave of `maxArea × height`, and it is not
negative** (whenever `_deriveVolumeAndArea` does not raise) -/
theorem derived_closes_volume (A h v ar : Rat) (vs as : List Rat)
    (hd : deriveVolumeAndArea A h vs as = some (v, ar)) : v + sumBy id vs = A * h ∧ 0 ≤ v := by
  unfold deriveVolumeAndArea at hd
  simp only [] at hd
  split at hd
  · cases hd
  · rename_i hneg
    have hv : v = A * h - sumBy id vs := by
      split at hd
      · split at hd
        · cases hd
        · cases hd; rfl
      · cases hd; rfl
    constructor
    · rw [hv]; ring
    · rw [hv]; exact not_lt.mp hneg

/-- **component areas of a block with a derived shape sum to the block's (pitch-hex / bounding) area**:
two-dimensional siblings (`volume = area × height`), non-zero height -/
theorem derived_closes_area (A h v ar : Rat) (vs as : List Rat) (hh : h ≠ 0)
    (h2d : vs = as.map (fun a => a * h))
    (hd : deriveVolumeAndArea A h vs as = some (v, ar)) : ar + sumBy id as = A := by
  have hv := (derived_closes_volume A h v ar vs as hd).1
  unfold deriveVolumeAndArea at hd
  simp only [hh, if_false] at hd
  split at hd
  · cases hd
  · cases hd
    have e : sumBy id vs = sumBy id as * h := by
      rw [h2d, sumBy_map]; exact sumBy_mul_const id h as
    rw [e]; field_simp; ring

/-- the zero-height case: the area is derived from the sibling areas directly -/
theorem derived_closes_area_zero_height (A v ar : Rat) (vs as : List Rat)
    (hd : deriveVolumeAndArea A 0 vs as = some (v, ar)) : ar + sumBy id as = A := by
  unfold deriveVolumeAndArea at hd
  simp only [if_true] at hd
  split at hd
  · cases hd
  · split at hd
    · cases hd
    · cases hd; ring

/-- `getComponentArea(cold=True)` / `(Tc=T)` of the derived shape closes the block at those conditions too -/
theorem derivedAreaAt_closes (A : Rat) (as : List Rat) : derivedAreaAt A as + sumBy id as = A := by
  unfold derivedAreaAt; ring

/-- **block volume = `maxArea × height / symmetry factor`** for a block with exactly one derived shape
(anywhere in the child list) whose volume is the derived one: `Block.getVolume` = Σ component volumes / sym -/
theorem block_volume_with_derived (ph : Phys) (b : Block) (pre post : List Comp) (d : Comp)
    (A h ar : Rat) (as : List Rat) (hk : b.kids = pre ++ d :: post) (hcoded : b.volCoded = none)
    (hd : deriveVolumeAndArea A h ((pre ++ post).map (·.vol)) as = some (d.vol, ar)) :
    (blockOps ph).vol b = A * h / b.sym := by
  have hv := (derived_closes_volume A h d.vol ar _ as hd).1
  simp only [blockOps, nodeOps, Node.vol, hcoded, hk]
  have e : sumBy (compOps ph).vol (pre ++ d :: post)
      = d.vol + sumBy id ((pre ++ post).map (·.vol)) := by
    rw [sumBy_map, sumBy_append, sumBy_append]
    simp only [sumBy, compOps, id]; ring
  rw [e, hv]

/-- when a sibling's area grows by `δ` (thermal expansion of a neighbour) the derived area shrinks by `δ` -/
theorem derived_area_follows (A δ : Rat) (pre post : List Rat) (a : Rat) :
    derivedAreaAt A (pre ++ (a + δ) :: post) = derivedAreaAt A (pre ++ a :: post) - δ := by
  unfold derivedAreaAt
  rw [sumBy_append, sumBy_append]; simp only [sumBy, id]; ring

example : deriveVolumeAndArea 10 2 [3, 4] [3 / 2, 2] = some (13, 13 / 2) := by decide +kernel
example : (13 / 2 : Rat) + sumBy id [3 / 2, 2] = 10 :=
  derived_closes_area 10 2 13 (13 / 2) [3, 4] [3 / 2, 2] (by norm_num) (by norm_num) (by decide +kernel)

/-! ### mass fractions of nuclides that are NEW to a component -/

private theorem comp_setMany_ndens (ph : Phys) (as : NDens) :
    ∀ c : Comp, (setMany (compOps ph) c as).nd = NDens.update c.nd as := by
  induction as with
  | nil => intro c; rfl
  | cons q as ih =>
    intro c
    have h1 : setMany (compOps ph) c (q :: as) = setMany (compOps ph) ((compOps ph).setND c q.1 q.2) as := rfl
    rw [h1, ih]
    simp [compOps, NDens.update]

/-- component level, no presence hypothesis: after `setMassFracs(mf)` every listed nuclide — held before or not —
has `f·ρ·K/A`, every other nuclide held before shares `1 − Σf` in the old proportions, nothing else appears -/
theorem comp_setMassFracs_nd (ph : Phys) (c : Comp) (mf : NDens)
    (hnodC : NodupKeys c.nd) (hnodM : NodupKeys mf)
    (htot : sumBy (fun p => p.2 * ph.aw p.1) (ndDict (compOps ph) c) ≠ 0)
    (hother : sumBy (fun q => q.2) ((massFracs (compOps ph) ph c).filter (fun q => !NDens.has mf q.1)) ≠ 0)
    (k : Nuc) :
    (compOps ph).nd (setMassFracs (compOps ph) ph c mf) k =
      if NDens.has mf k then NDens.get mf k * density (compOps ph) ph c * ph.K / ph.aw k
      else if NDens.has c.nd k then
        (1 - sumBy (fun q => q.2) mf) * (oldFrac (compOps ph) ph c k /
          sumBy (fun q => q.2) ((massFracs (compOps ph) ph c).filter (fun q => !NDens.has mf q.1)))
          * density (compOps ph) ph c * ph.K / ph.aw k
      else 0 := by
  rw [setMassFracs_eq_setMany]
  have hmf := massFracs_eq (o := compOps ph) (ph := ph) c htot
  have hnucs : (compOps ph).nucs c = NDens.keys c.nd := rfl
  set others := (massFracs (compOps ph) ph c).filter (fun q => !NDens.has mf q.1) with hoth
  have hothers_has : ∀ n, NDens.has others n = (NDens.has c.nd n && !NDens.has mf n) := by
    intro n
    rw [hoth, has_filterKey (massFracs (compOps ph) ph c) (fun k => !NDens.has mf k) n, hmf, has_eq_contains,
      keys_mapPair, hnucs, ← has_eq_contains]
  have hothers_get : ∀ n, NDens.has c.nd n = true → NDens.has mf n = false →
      NDens.get others n = oldFrac (compOps ph) ph c n := by
    intro n hn hm
    have hn' : n ∈ (compOps ph).nucs c := by
      rw [hnucs]; rw [has_eq_contains] at hn; simpa using hn
    rw [hoth, get_filterKey (massFracs (compOps ph) ph c) (fun k => !NDens.has mf k) n (by simp [hm]), hmf,
      get_mapPair _ _ _ hn']
  have hothers_keys : NDens.keys others = (NDens.keys c.nd).filter (fun k => !NDens.has mf k) := by
    rw [hoth, keys_filterKey_sub (massFracs (compOps ph) ph c) (fun k => !NDens.has mf k), hmf, keys_mapPair, hnucs]
  have hass : smfAssignments (compOps ph) ph c mf =
      mf.map (fun q => (q.1, q.2 * density (compOps ph) ph c * ph.K / ph.aw q.1)) ++
        others.map (fun q => (q.1, (1 - sumBy (fun q => q.2) mf) * (q.2 / sumBy (fun q => q.2) others)
          * density (compOps ph) ph c * ph.K / ph.aw q.1)) := by
    unfold smfAssignments
    simp only [← hoth]
    rw [if_pos hother]
  rw [hass]
  set as1 := mf.map (fun q => (q.1, q.2 * density (compOps ph) ph c * ph.K / ph.aw q.1)) with has1
  set as2 := others.map (fun q => (q.1, (1 - sumBy (fun q => q.2) mf) * (q.2 / sumBy (fun q => q.2) others)
          * density (compOps ph) ph c * ph.K / ph.aw q.1)) with has2
  have hk1 : NDens.keys as1 = NDens.keys mf := by
    unfold NDens.keys; rw [has1, List.map_map]; rfl
  have hk2 : NDens.keys as2 = NDens.keys others := by
    unfold NDens.keys; rw [has2, List.map_map]; rfl
  have hnodup : NodupKeys (as1 ++ as2) := by
    unfold NodupKeys
    have : NDens.keys (as1 ++ as2) = NDens.keys as1 ++ NDens.keys as2 := by
      unfold NDens.keys; rw [List.map_append]
    rw [this, hk1, hk2, hothers_keys]
    refine List.nodup_append.mpr ⟨hnodM, hnodC.filter _, ?_⟩
    intro x hx1 y hy2 hxy
    subst hxy
    have : NDens.has mf x = true := by rw [has_eq_contains]; simpa using hx1
    simp [List.mem_filter, this] at hy2
  show NDens.get (setMany (compOps ph) c (as1 ++ as2)).nd k = _
  rw [comp_setMany_ndens, get_update _ _ _ hnodup, has_append, get_append]
  have h1has : NDens.has as1 k = NDens.has mf k := by rw [has1]; exact has_mapVal mf _ k
  have h2has : NDens.has as2 k = NDens.has others k := by rw [has2]; exact has_mapVal others _ k
  by_cases hm : NDens.has mf k = true
  · rw [h1has, hm]
    simp only [Bool.true_or, if_true]
    rw [has1, get_mapVal mf _ k hm]
  · have hm' : NDens.has mf k = false := by simpa using hm
    rw [h1has, h2has, hm', hothers_has, hm']
    by_cases hc : NDens.has c.nd k = true
    · have ho : NDens.has others k = true := by rw [hothers_has, hc, hm']; rfl
      simp only [hc, Bool.not_false, Bool.and_self, Bool.false_or, if_true, Bool.false_eq_true, if_false]
      rw [has2, get_mapVal others _ k ho, hothers_get k hc hm']
    · have hc' : NDens.has c.nd k = false := by simpa using hc
      simp only [hc', Bool.false_and, Bool.false_or, Bool.false_eq_true, if_false]
      exact get_absent c.nd k (by rw [← has_eq_contains]; exact hc')

/-! ### nuclide selections: nuclide, element symbol, list -/

private theorem sumBy_comm {β γ : Type} (f : β → γ → Rat) (l1 : List β) (l2 : List γ) :
    sumBy (fun b => sumBy (fun c => f b c) l2) l1 = sumBy (fun c => sumBy (fun b => f b c) l1) l2 := by
  induction l1 with
  | nil => simp only [sumBy]; exact (sumBy_zero l2).symm
  | cons b l ih => simp only [sumBy, ih]; rw [← sumBy_add]

private theorem resolveOne_plain (elem : ElemTable) (here : List Nuc) (s : Nuc) (h : elem s = none) :
    resolveOne elem here s = [s] := by
  unfold resolveOne; rw [h]; split <;> rfl

private theorem resolveOne_present (elem : ElemTable) (here : List Nuc) (s : Nuc) (h : here.contains s = true) :
    resolveOne elem here s = [s] := by
  unfold resolveOne; rw [if_pos h]

private theorem flatMap_self (here spec : List Nuc) (elem : ElemTable)
    (h : ∀ s ∈ spec, here.contains s = true ∨ elem s = none) :
    spec.flatMap (resolveOne elem here) = spec := by
  induction spec with
  | nil => rfl
  | cons a l ih =>
    have ih' := ih (fun s hs => h s (List.mem_cons_of_mem _ hs))
    simp only [List.flatMap_cons, ih']
    rcases h a (by simp) with h1 | h1
    · rw [resolveOne_present _ _ _ h1]; rfl
    · rw [resolveOne_plain _ _ _ h1]; rfl

/-- a list of plain nuclide names (no element symbol among them) selects its distinct members, whatever is present -/
theorem resolveSpec_plain (elem : ElemTable) (here spec : List Nuc) (h : ∀ s ∈ spec, elem s = none) :
    resolveSpec elem here spec = dedup spec := by
  unfold resolveSpec; rw [flatMap_self here spec elem (fun s hs => Or.inr (h s hs))]

private theorem dedup_append_sub (l1 l2 : List Nuc) (h : ∀ x ∈ l1, x ∈ l2) : dedup (l1 ++ l2) = dedup l2 := by
  induction l1 with
  | nil => rfl
  | cons a l ih =>
    have ih' := ih (fun x hx => h x (List.mem_cons_of_mem _ hx))
    simp only [List.cons_append, dedup]
    have : (dedup (l ++ l2)).contains a = true := by
      rw [contains_dedup]; simp [h a (by simp)]
    rw [this, if_pos rfl, ih']

/-- **duplicates in a selection count once** (the code builds a set) -/
theorem resolveSpec_duplicates (elem : ElemTable) (here spec : List Nuc) :
    resolveSpec elem here (spec ++ spec) = resolveSpec elem here spec := by
  unfold resolveSpec
  rw [List.flatMap_append]
  exact dedup_append_sub _ _ (fun x hx => hx)

/-- **the mass of a selection is the sum of the masses of its distinct resolved members** (component level) -/
theorem comp_massSel_eq_sum (ph : Phys) (elem : ElemTable) (c : Comp) (spec : List Nuc) :
    c.massSel ph elem spec = sumBy (fun n => c.mass ph n) (resolveSpec elem c.nd.keys spec) := by
  unfold Comp.massSel Comp.mass
  rw [← sumBy_mul_const]; apply sumBy_congr; intro n _; ring

theorem comp_massSel_duplicates (ph : Phys) (elem : ElemTable) (c : Comp) (spec : List Nuc) :
    c.massSel ph elem (spec ++ spec) = c.massSel ph elem spec := by
  unfold Comp.massSel; rw [resolveSpec_duplicates]

/-- a single nuclide that is present selects itself -/
theorem comp_massSel_single (ph : Phys) (elem : ElemTable) (c : Comp) (n : Nuc)
    (h : c.nd.keys.contains n = true) : c.massSel ph elem [n] = c.mass ph n := by
  rw [comp_massSel_eq_sum]
  have : resolveSpec elem c.nd.keys [n] = [n] := by
    unfold resolveSpec
    rw [flatMap_self c.nd.keys [n] elem (by intro s hs; simp at hs; subst hs; exact Or.inl h)]
    simp [dedup]
  rw [this]; simp [sumBy]

/-- **an element symbol that is not itself present is the list of its isotopes** -/
theorem comp_massSel_element (ph : Phys) (elem : ElemTable) (c : Comp) (e : Nuc) (isos : List Nuc)
    (habs : c.nd.keys.contains e = false) (he : elem e = some isos)
    (hiso : ∀ i ∈ isos, c.nd.keys.contains i = true ∨ elem i = none) :
    c.massSel ph elem [e] = c.massSel ph elem isos := by
  unfold Comp.massSel
  have h1 : resolveSpec elem c.nd.keys [e] = dedup isos := by
    unfold resolveSpec
    simp only [List.flatMap_cons, List.flatMap_nil, List.append_nil]
    unfold resolveOne; rw [habs, he]; rfl
  have h2 : resolveSpec elem c.nd.keys isos = dedup isos := by
    unfold resolveSpec; rw [flatMap_self c.nd.keys isos elem hiso]
  rw [h1, h2]

/-- composite levels: the mass of a list of plain nuclide names is the sum over its distinct members of the
per-nuclide masses at that level -/
theorem node_massSel_plain {α : Type} (f : α → List Nuc → Rat) (g : α → Nuc → Rat) (p : Node α) (spec : List Nuc)
    (hf : ∀ c ∈ p.kids, f c spec = sumBy (fun n => g c n) (dedup spec)) :
    Node.massSel f p spec = sumBy (fun n => sumBy (fun c => g c n) p.kids) (dedup spec) := by
  unfold Node.massSel
  rw [← sumBy_comm]
  apply sumBy_congr; intro c hc; exact hf c hc

theorem mass_of_selection_additive (ph : Phys) (elem : ElemTable) (spec : List Nuc)
    (hplain : ∀ s ∈ spec, elem s = none) :
    (∀ c : Comp, c.massSel ph elem spec = sumBy (fun n => (compOps ph).mass c n) (dedup spec)) ∧
    (∀ b : Block, blockMassSel ph elem b spec = sumBy (fun n => (blockOps ph).mass b n) (dedup spec)) ∧
    (∀ a : Assem, assemMassSel ph elem a spec = sumBy (fun n => (assemOps ph).mass a n) (dedup spec)) ∧
    (∀ r : Core, coreMassSel ph elem r spec = sumBy (fun n => (coreOps ph).mass r n) (dedup spec)) := by
  have hc : ∀ c : Comp, c.massSel ph elem spec = sumBy (fun n => (compOps ph).mass c n) (dedup spec) := by
    intro c; rw [comp_massSel_eq_sum, resolveSpec_plain elem _ spec hplain]; rfl
  have hb : ∀ b : Block, blockMassSel ph elem b spec = sumBy (fun n => (blockOps ph).mass b n) (dedup spec) :=
    fun b => node_massSel_plain _ (fun c n => (compOps ph).mass c n) b spec (fun c _ => hc c)
  have ha : ∀ a : Assem, assemMassSel ph elem a spec = sumBy (fun n => (assemOps ph).mass a n) (dedup spec) :=
    fun a => node_massSel_plain _ (fun b n => (blockOps ph).mass b n) a spec (fun b _ => hb b)
  exact ⟨hc, hb, ha, fun r => node_massSel_plain _ (fun a n => (assemOps ph).mass a n) r spec (fun a _ => ha a)⟩

/-- an element symbol at a composite level: every component resolves it for itself, so the block's element mass
is the sum of the components' element masses (`comp_massSel_element` then gives each as a sum over isotopes) -/
theorem block_massSel_is_sum_of_components (ph : Phys) (elem : ElemTable) (b : Block) (spec : List Nuc) :
    blockMassSel ph elem b spec = sumBy (fun c => c.massSel ph elem spec) b.kids := rfl

/-! ### the empty selection selects nothing; a selection and its complement make up the total -/

theorem resolveSpec_nil (elem : ElemTable) (here : List Nuc) : resolveSpec elem here [] = [] := rfl

/-- **`getMass([])` is 0 at every level** (`None` selects everything, the empty list nothing) -/
theorem massSel_nil (ph : Phys) (elem : ElemTable) :
    (∀ c : Comp, c.massSel ph elem [] = 0) ∧ (∀ b : Block, blockMassSel ph elem b [] = 0) ∧
    (∀ a : Assem, assemMassSel ph elem a [] = 0) ∧ (∀ r : Core, coreMassSel ph elem r [] = 0) := by
  have hc : ∀ c : Comp, c.massSel ph elem [] = 0 := by
    intro c; unfold Comp.massSel; rw [resolveSpec_nil]; simp [sumBy]
  have lift : ∀ {β : Type} (f : β → List Nuc → Rat), (∀ x, f x [] = 0) → ∀ p : Node β, Node.massSel f p [] = 0 := by
    intro β f hf p
    unfold Node.massSel
    rw [← sumBy_zero p.kids]; apply sumBy_congr; intro x _; exact hf x
  have hb := lift (Comp.massSel ph elem) hc
  have ha := lift (blockMassSel ph elem) hb
  exact ⟨hc, hb, ha, lift (assemMassSel ph elem) ha⟩

/-- an element symbol none of whose isotopes is present (and which is not itself present) selects nothing -/
theorem comp_massSel_absent_element (ph : Phys) (elem : ElemTable) (c : Comp) (e : Nuc) (isos : List Nuc)
    (habs : c.nd.keys.contains e = false) (he : elem e = some isos)
    (hiso : ∀ i ∈ isos, c.nd.keys.contains i = false) : c.massSel ph elem [e] = 0 := by
  rw [comp_massSel_eq_sum]
  have h1 : resolveSpec elem c.nd.keys [e] = dedup isos := by
    unfold resolveSpec
    simp only [List.flatMap_cons, List.flatMap_nil, List.append_nil]
    unfold resolveOne; rw [habs, he]; rfl
  rw [h1, ← sumBy_zero (dedup isos)]
  apply sumBy_congr; intro n hn
  have hn' : n ∈ isos := (mem_dedup isos n).mp hn
  simp only [Comp.mass, get_absent c.nd n (hiso n hn')]; ring

private theorem dedup_nodup (l : List Nuc) (h : l.Nodup) : dedup l = l := by
  induction l with
  | nil => rfl
  | cons a l ih =>
    have hn := List.nodup_cons.mp h
    simp only [dedup, ih hn.2]
    have : l.contains a = false := by simpa using hn.1
    rw [this]; rfl

/-- list lemma: a sub-list of the nuclide list and its complement split any per-nuclide sum -/
private theorem sum_complement (m : Nuc → Rat) (N l : List Nuc) (hN : N.Nodup) (hl : l.Nodup)
    (hsub : ∀ n ∈ l, n ∈ N) :
    sumBy m l + sumBy m (N.filter (fun k => !l.contains k)) = sumBy m N := by
  have h1 : sumBy m l = sumBy (fun k => if l.contains k then m k else 0) N := by
    have hd : NodupKeys (l.map (fun n => (n, m n))) := by
      unfold NodupKeys; rw [keys_mapPair]; exact hl
    have := sumBy_reindex N (l.map (fun n => (n, m n))) hN hd (by
      intro q hq
      obtain ⟨n, hn, rfl⟩ := List.mem_map.mp hq
      exact hsub n hn)
    rw [sumBy_map] at this
    simp only [] at this
    rw [← this]
    apply sumBy_congr; intro k _
    rw [has_eq_contains, keys_mapPair]
    by_cases hk : k ∈ l
    · simp [hk, get_mapPair l m k hk]
    · simp [hk]
  rw [h1, sumBy_filter, ← sumBy_add]
  apply sumBy_congr; intro k _
  by_cases hk : k ∈ l <;> simp [hk]

/-- **a selection and its complement sum to the total mass** — component, block, assembly and core level
(plain nuclide names; `l` a duplicate-free part of the nuclides present) -/
theorem massSel_complement (ph : Phys) (elem : ElemTable) (l : List Nuc) (hl : l.Nodup) :
    (∀ c : Comp, (∀ n ∈ c.nd.keys, elem n = none) → c.nd.keys.Nodup → (∀ n ∈ l, n ∈ c.nd.keys) →
      c.massSel ph elem l + c.massSel ph elem (c.nd.keys.filter (fun k => !l.contains k))
        = massTotal (compOps ph) c) ∧
    (∀ b : Block, (∀ n ∈ (blockOps ph).nucs b, elem n = none) → (∀ n ∈ l, n ∈ (blockOps ph).nucs b) →
      blockMassSel ph elem b l + blockMassSel ph elem b (((blockOps ph).nucs b).filter (fun k => !l.contains k))
        = massTotal (blockOps ph) b) ∧
    (∀ a : Assem, (∀ n ∈ (assemOps ph).nucs a, elem n = none) → (∀ n ∈ l, n ∈ (assemOps ph).nucs a) →
      assemMassSel ph elem a l + assemMassSel ph elem a (((assemOps ph).nucs a).filter (fun k => !l.contains k))
        = massTotal (assemOps ph) a) ∧
    (∀ r : Core, (∀ n ∈ (coreOps ph).nucs r, elem n = none) → (∀ n ∈ l, n ∈ (coreOps ph).nucs r) →
      coreMassSel ph elem r l + coreMassSel ph elem r (((coreOps ph).nucs r).filter (fun k => !l.contains k))
        = massTotal (coreOps ph) r) := by
  have key : ∀ (N : List Nuc) (m : Nuc → Rat) (sel : List Nuc → Rat), N.Nodup → (∀ n ∈ N, elem n = none) →
      (∀ n ∈ l, n ∈ N) → (∀ spec, (∀ s ∈ spec, elem s = none) → sel spec = sumBy m (dedup spec)) →
      sel l + sel (N.filter (fun k => !l.contains k)) = sumBy m N := by
    intro N m sel hN hplain hsub hsel
    have hf : (N.filter (fun k => !l.contains k)).Nodup := hN.filter _
    rw [hsel l (fun s hs => hplain s (hsub s hs)),
      hsel _ (fun s hs => hplain s (List.mem_filter.mp hs).1), dedup_nodup l hl, dedup_nodup _ hf]
    exact sum_complement m N l hN hl hsub
  refine ⟨?_, ?_, ?_, ?_⟩
  · intro c hplain hnod hsub
    exact key c.nd.keys (fun n => (compOps ph).mass c n) (fun spec => c.massSel ph elem spec) hnod hplain hsub
      (fun spec hs => (mass_of_selection_additive ph elem spec hs).1 c)
  · intro b hplain hsub
    exact key _ (fun n => (blockOps ph).mass b n) (fun spec => blockMassSel ph elem b spec) (nodeNucs_nodup _ b) hplain hsub
      (fun spec hs => (mass_of_selection_additive ph elem spec hs).2.1 b)
  · intro a hplain hsub
    exact key _ (fun n => (assemOps ph).mass a n) (fun spec => assemMassSel ph elem a spec) (nodeNucs_nodup _ a) hplain hsub
      (fun spec hs => (mass_of_selection_additive ph elem spec hs).2.2.1 a)
  · intro r hplain hsub
    exact key _ (fun n => (coreOps ph).mass r n) (fun spec => coreMassSel ph elem r spec) (nodeNucs_nodup _ r) hplain hsub
      (fun spec hs => (mass_of_selection_additive ph elem spec hs).2.2.2 r)

/-! ### one statement for all four levels: atoms counted at core level are the components' atoms -/

def BlockOK (ph : Phys) (b : Block) : Prop :=
  b.volCoded = none ∧ b.sym ≠ 0 ∧ sumBy (compOps ph).vol b.kids ≠ 0

def AssemOK (ph : Phys) (a : Assem) : Prop :=
  a.sym ≠ 0 ∧ sumBy (blockOps ph).vol a.kids ≠ 0 ∧ (assemOps ph).vol a = sumBy (blockOps ph).vol a.kids ∧
  ∀ b ∈ a.kids, BlockOK ph b

def CoreOK (ph : Phys) (r : Core) : Prop :=
  r.volCoded = none ∧ r.sym = 1 ∧ sumBy (assemOps ph).vol r.kids ≠ 0 ∧ ∀ a ∈ r.kids, AssemOK ph a

/-- block: `N_b · V_b = Σ_c N_c · V_c / sym_b` -/
theorem block_atoms_eq_sum_components (ph : Phys) (b : Block) (n : Nuc) (h : BlockOK ph b) :
    (blockOps ph).nd b n * (blockOps ph).vol b = sumBy (fun c => c.vol * c.nd.get n / b.sym) b.kids := by
  obtain ⟨hcoded, hs, hv⟩ := h
  have ha : Node.nd (compOps ph) b n * sumBy (compOps ph).vol b.kids
      = sumBy (fun c => c.vol * c.nd.get n) b.kids := atoms_additive (compOps ph) b n hs hv
  have e1 : (blockOps ph).nd b n = Node.nd (compOps ph) b n := rfl
  have e2 : (blockOps ph).vol b = sumBy (compOps ph).vol b.kids / b.sym := by
    simp only [blockOps, nodeOps, Node.vol, hcoded]
  rw [e1, e2, sumBy_div_const, ← ha]; ring

/-- assembly (own volume = Σ block volumes, the hypothesis that excludes finding F5):
`N_a · V_a = Σ_b Σ_c N_c · V_c / sym_b` -/
theorem assem_atoms_eq_sum_components (ph : Phys) (a : Assem) (n : Nuc) (h : AssemOK ph a) :
    (assemOps ph).nd a n * (assemOps ph).vol a =
      sumBy (fun b => sumBy (fun c => c.vol * c.nd.get n / b.sym) b.kids) a.kids := by
  obtain ⟨hs, hv, hvol, hb⟩ := h
  have ha : Node.nd (blockOps ph) a n * sumBy (blockOps ph).vol a.kids
      = sumBy (fun b => (blockOps ph).nd b n * (blockOps ph).vol b) a.kids := by
    rw [atoms_additive (blockOps ph) a n hs hv]; apply sumBy_congr; intro b _; ring
  have e1 : (assemOps ph).nd a n = Node.nd (blockOps ph) a n := rfl
  rw [hvol, e1, ha]
  apply sumBy_congr; intro b hbm
  exact block_atoms_eq_sum_components ph b n (hb b hbm)

/-- **core: `N_core · V_core = Σ_a N_a V_a = Σ_b N_b V_b = Σ_c N_c V_c / sym(block of c)`** — atoms counted as
density × volume agree at component, block, assembly and core level -/
theorem core_atoms_eq_sum_components (ph : Phys) (r : Core) (n : Nuc) (h : CoreOK ph r) :
    (coreOps ph).nd r n * (coreOps ph).vol r =
      sumBy (fun a => sumBy (fun b => sumBy (fun c => c.vol * c.nd.get n / b.sym) b.kids) a.kids) r.kids ∧
    (coreOps ph).nd r n * (coreOps ph).vol r =
      sumBy (fun a => (assemOps ph).nd a n * (assemOps ph).vol a) r.kids ∧
    (coreOps ph).nd r n * (coreOps ph).vol r =
      sumBy (fun a => sumBy (fun b => (blockOps ph).nd b n * (blockOps ph).vol b) a.kids) r.kids := by
  obtain ⟨hcoded, hs, hv, ha⟩ := h
  have hs0 : r.sym ≠ 0 := by rw [hs]; exact one_ne_zero
  have hat : Node.nd (assemOps ph) r n * sumBy (assemOps ph).vol r.kids
      = sumBy (fun a => (assemOps ph).nd a n * (assemOps ph).vol a) r.kids := by
    rw [atoms_additive (assemOps ph) r n hs0 hv]; apply sumBy_congr; intro a _; ring
  have hcore : (coreOps ph).nd r n * (coreOps ph).vol r
      = sumBy (fun a => (assemOps ph).nd a n * (assemOps ph).vol a) r.kids := by
    have e1 : (coreOps ph).nd r n = Node.nd (assemOps ph) r n := rfl
    have e2 : (coreOps ph).vol r = sumBy (assemOps ph).vol r.kids := by
      simp only [coreOps, nodeOps, Node.vol, hcoded, hs, div_one]
    rw [e1, e2, hat]
  refine ⟨?_, hcore, ?_⟩
  · rw [hcore]; apply sumBy_congr; intro a ham
    exact assem_atoms_eq_sum_components ph a n (ha a ham)
  · rw [hcore]; apply sumBy_congr; intro a ham
    rw [assem_atoms_eq_sum_components ph a n (ha a ham)]
    apply sumBy_congr; intro b hbm
    exact (block_atoms_eq_sum_components ph b n ((ha a ham).2.2.2 b hbm)).symm

/-! ### every depth at once: the contract of one level, by induction on the nesting depth -/

def LvlWF (ph : Phys) : (d : Nat) → Lvl d → Prop
  | 0 => fun _ => True
  | d + 1 => NodeWF (lvlOps ph d) (LvlWF ph d)

/-- **the setter/getter contract holds at every nesting depth** (induction on the depth; `nodeLawful` is the step) -/
theorem lvlLawful (ph : Phys) : ∀ d, Lawful (lvlOps ph d) ph (LvlWF ph d)
  | 0 => compLawful ph
  | d + 1 => nodeLawful _ ph _ (lvlLawful ph d)

theorem lvlLawfulUpd (ph : Phys) : ∀ d, LawfulUpd (lvlOps ph d) (LvlWF ph d)
  | 0 => compLawfulUpd ph
  | d + 1 => nodeLawfulUpd _ ph _ (lvlLawful ph d) (lvlLawfulUpd ph d)

/-- **`setNumberDensity` reads back and frames at any depth** -/
theorem lvl_setND (ph : Phys) (d : Nat) (a : Lvl d) (n m : Nuc) (v : Rat) (hwf : LvlWF ph d a)
    (hn : (lvlOps ph d).has a n = true) (hcan : (lvlOps ph d).canSet a n v = true) :
    (lvlOps ph d).nd ((lvlOps ph d).setND a n v) n = v ∧
    (m ≠ n → (lvlOps ph d).nd ((lvlOps ph d).setND a n v) m = (lvlOps ph d).nd a m) ∧
    (lvlOps ph d).vol ((lvlOps ph d).setND a n v) = (lvlOps ph d).vol a :=
  ⟨setND_readback (lvlLawful ph d) a n v hwf hn hcan,
   fun hm => setND_frame (lvlLawful ph d) a n m v hwf hm,
   (lvlLawful ph d).set_vol a n v⟩

/-- **`updateNumberDensities` reads back and frames at any depth** -/
theorem lvl_updND (ph : Phys) (d : Nat) (a : Lvl d) (u : NDens) (n : Nuc) (hwf : LvlWF ph d a)
    (hcan : (lvlOps ph d).canUpd a u = true) (hd : NodupKeys u) :
    (NDens.has u n = true → (lvlOps ph d).nd ((lvlOps ph d).upd a u) n = NDens.get u n) ∧
    (NDens.has u n = false → (lvlOps ph d).nd ((lvlOps ph d).upd a u) n = (lvlOps ph d).nd a n) :=
  ⟨fun hn => updND_readback (lvlLawfulUpd ph d) a u n hwf hcan hd hn,
   fun hn => updND_frame (lvlLawfulUpd ph d) a u n hwf hd hn⟩

/-- **mass of one nuclide = density × A / K × (mass-carrying volume) at any depth** -/
theorem lvl_mass (ph : Phys) (d : Nat) (a : Lvl d) (n : Nuc) (hwf : LvlWF ph d a) :
    (lvlOps ph d).mass a n = (lvlOps ph d).nd a n * ph.aw n / ph.K * (lvlOps ph d).evol a :=
  (lvlLawful ph d).mass_eq a n hwf

/-- **`setMassFracs` at any depth**: listed fractions read back, total density unchanged -/
theorem lvl_setMassFracs (ph : Phys) (d : Nat) (a : Lvl d) (mf : NDens)
    (h : SmfOK (lvlOps ph d) ph (LvlWF ph d) a mf) (n : Nuc) (hn : NDens.has mf n = true) :
    NDens.get (massFracs (lvlOps ph d) ph (setMassFracs (lvlOps ph d) ph a mf)) n = NDens.get mf n ∧
    density (lvlOps ph d) ph (setMassFracs (lvlOps ph d) ph a mf) = density (lvlOps ph d) ph a :=
  ⟨setMassFracs_readback (lvlLawful ph d) a mf h n hn, setMassFracs_total_density (lvlLawful ph d) a mf h⟩

/-- the three named levels are depths 1, 2, 3 -/
example (ph : Phys) : lvlOps ph 1 = blockOps ph ∧ lvlOps ph 2 = assemOps ph ∧ lvlOps ph 3 = coreOps ph :=
  ⟨rfl, rfl, rfl⟩

/-! ### volume fractions with NEGATIVE children (overlapping components: a gap whose inner boundary has passed its
outer one). No theorem of this file assumes a child volume positive — only the sums that are divided by are non-zero. -/

/-- **`getVolumeFractions()` sums to one for signed volumes** (each fraction is `V_child / Σ V`, negative for a
negative child) -/
theorem volFrac_sum_one {α : Type} (o : Ops α) (p : Node α) (hv : sumBy o.vol p.kids ≠ 0) :
    sumBy (p.volFrac o) p.kids = 1 := volFrac_sum o p hv

/-- a block with a negative gap: fractions 6/5, −1/5 (sum 1), and the homogenised density weights by the signed
volumes: `N·ΣV = Σ V_c N_c` -/
example : sumBy (Node.volFrac (compOps ⟨1, 1, fun _ => 1⟩) ⟨1, none, [⟨6, 1, [(1, 2)]⟩, ⟨-1, 1, []⟩]⟩)
    [⟨6, 1, [(1, 2)]⟩, ⟨-1, 1, []⟩] = 1 :=
  volFrac_sum_one _ _ (by norm_num [sumBy, compOps])

example : Node.nd (compOps ⟨1, 1, fun _ => 1⟩) ⟨1, none, [⟨6, 1, [(1, 2)]⟩, ⟨-1, 1, []⟩]⟩ 1 *
    sumBy (compOps ⟨1, 1, fun _ => 1⟩).vol [⟨6, 1, [(1, 2)]⟩, ⟨-1, 1, []⟩] = 12 := by
  rw [atoms_additive _ _ _ (by norm_num) (by norm_num [sumBy, compOps])]
  norm_num [sumBy, compOps, NDens.get]

/-! ### the symmetry factor the volume weights divide by is never zero -/

/-- **`HexBlock.getSymmetryFactor()` is 1, 2 or 3** — so the hypothesis `sym ≠ 0` of the additivity theorems is
established by the code for every block (and, through `self[0]`, every non-empty assembly) -/
theorem hexBlockSymmetryFactor_mem (g t : Bool) (i j : Int) (u : Bool) :
    hexBlockSymmetryFactor g t i j u = 1 ∨ hexBlockSymmetryFactor g t i j u = 2 ∨
    hexBlockSymmetryFactor g t i j u = 3 := by
  unfold hexBlockSymmetryFactor
  split
  · exact Or.inl rfl
  · split
    · split
      · exact Or.inr (Or.inr rfl)
      · split
        · split
          · exact Or.inr (Or.inl rfl)
          · exact Or.inl rfl
        · split
          · exact Or.inr (Or.inl rfl)
          · exact Or.inl rfl
        · exact Or.inl rfl
    · exact Or.inl rfl

theorem hexBlockSymmetryFactor_ne_zero (g t : Bool) (i j : Int) (u : Bool) :
    hexBlockSymmetryFactor g t i j u ≠ 0 := by
  rcases hexBlockSymmetryFactor_mem g t i j u with h | h | h <;> rw [h] <;> norm_num

/-- the factor 3 is the centre of a third-core periodic grid and nothing else -/
theorem hexBlockSymmetryFactor_three (g t : Bool) (i j : Int) (u : Bool)
    (h3 : hexBlockSymmetryFactor g t i j u = 3) : g = true ∧ t = true ∧ i = 0 ∧ j = 0 := by
  unfold hexBlockSymmetryFactor at h3
  split at h3
  · norm_num at h3
  · split at h3
    · split at h3
      · rename_i hg ht hij
        exact ⟨by simpa using hg, ht, hij.1, hij.2⟩
      · split at h3 <;> (try split at h3) <;> norm_num at h3
    · norm_num at h3

example (u : Bool) : hexBlockSymmetryFactor true true 0 0 u = 3 := by simp [hexBlockSymmetryFactor]

/-! ### `adjustMassFrac`: the dict it hands to `setMassFracs` -/

private theorem sumBy_const {β : Type} (k : Rat) (l : List β) : sumBy (fun _ : β => k) l = (l.length : Rat) * k := by
  induction l with
  | nil => simp [sumBy]
  | cons a l ih => simp only [sumBy, ih, List.length_cons]; push_cast; ring

private theorem sumBy_split {β : Type} (f : β → Rat) (P : β → Bool) (l : List β) :
    sumBy f l = sumBy f (l.filter P) + sumBy f (l.filter (fun x => !P x)) := by
  rw [sumBy_filter, sumBy_filter, ← sumBy_add]
  apply sumBy_congr
  intro a _
  cases P a <;> simp

/-- **the adjusted nuclides' new fractions sum to the requested value** (there is something to adjust) -/
theorem adjPart_sum (nucs : List Nuc) (f : Nuc → Rat) (adjN : List Nuc) (val : Rat)
    (hadj : adjSet nucs adjN ≠ []) : sumBy (fun q => q.2) (adjPart nucs f adjN val) = val := by
  unfold adjPart
  rw [sumBy_map]
  simp only []
  by_cases hA : sumBy f (adjSet nucs adjN) = 0
  · simp only [hA, if_true]
    rw [sumBy_const]
    have : ((adjSet nucs adjN).length : Rat) ≠ 0 := by
      have : (adjSet nucs adjN).length ≠ 0 := by
        intro h0; exact hadj (List.eq_nil_of_length_eq_zero h0)
      exact_mod_cast this
    field_simp
  · simp only [hA, if_false]
    rw [sumBy_mul_const]
    field_simp

/-- **`adjustMassFrac` does not raise for a fraction in [0, 1] when a nuclide to adjust is present**, and the dict
it hands to `setMassFracs` is the adjusted part followed by the rescaled remaining nuclides -/
theorem adjustDictOf_eq (nucs : List Nuc) (f : Nuc → Rat) (adjN holdN : List Nuc) (val : Rat)
    (hv0 : 0 ≤ val) (hv1 : val ≤ 1) (hadj : adjSet nucs adjN ≠ []) :
    adjustDictOf nucs f adjN holdN val = some (adjPart nucs f adjN val ++ othersPart nucs f adjN holdN val) := by
  unfold adjustDictOf
  have h1 : ¬ (val > 1 ∨ val < 0) := by
    intro h; rcases h with h | h <;> linarith
  rw [if_neg h1, adjPart_sum nucs f adjN val hadj]
  have h2 : ¬ (val - val > 1 / 10000000000 ∨ val - val > 1 / 10000000000) := by
    intro h; rcases h with h | h <;> norm_num at h
  rw [if_neg h2]

/-- it raises (`ValueError`) outside [0, 1] -/
theorem adjustDictOf_invalid (nucs : List Nuc) (f : Nuc → Rat) (adjN holdN : List Nuc) (val : Rat)
    (h : val > 1 ∨ val < 0) : adjustDictOf nucs f adjN holdN val = none := by
  unfold adjustDictOf; rw [if_pos h]

/-- the remaining nuclides are those neither adjusted nor held: with disjoint name lists the three groups
partition the object's nuclides -/
private theorem others_sum (nucs : List Nuc) (f : Nuc → Rat) (adjN holdN : List Nuc)
    (hdis : ∀ n ∈ nucs, ¬ (adjN.contains n = true ∧ holdN.contains n = true)) :
    sumBy f nucs = sumBy f (adjSet nucs adjN) + sumBy f (constSet nucs holdN) + sumBy f (othersSet nucs adjN holdN) := by
  unfold adjSet constSet othersSet
  rw [sumBy_split f (fun n => adjN.contains n) nucs, sumBy_filter f (fun n => holdN.contains n) nucs,
    sumBy_filter f (fun n => !adjN.contains n && !holdN.contains n) nucs,
    sumBy_filter f (fun x => !(fun n => adjN.contains n) x) nucs, add_assoc, ← sumBy_add]
  congr 1
  apply sumBy_congr
  intro n hn
  have := hdis n hn
  cases ha : adjN.contains n <;> cases hh : holdN.contains n <;> simp_all

/-- **the fractions handed to `setMassFracs` sum to one minus the held nuclides' share**, so that its
re-normalisation of the nuclides it was not given (exactly the held ones) leaves them what they were -/
theorem adjustDict_total (nucs : List Nuc) (f : Nuc → Rat) (adjN holdN : List Nuc) (val : Rat)
    (hadj : adjSet nucs adjN ≠ []) (hone : sumBy f nucs = 1)
    (hdis : ∀ n ∈ nucs, ¬ (adjN.contains n = true ∧ holdN.contains n = true))
    (hoth : 1 - sumBy f (adjSet nucs adjN) - sumBy f (constSet nucs holdN) ≠ 0) :
    sumBy (fun q => q.2) (adjPart nucs f adjN val ++ othersPart nucs f adjN holdN val)
      = 1 - sumBy f (constSet nucs holdN) := by
  rw [sumBy_append, adjPart_sum nucs f adjN val hadj]
  unfold othersPart
  rw [sumBy_map]
  simp only []
  rw [sumBy_mul_const]
  have hO : sumBy f (othersSet nucs adjN holdN)
      = 1 - sumBy f (adjSet nucs adjN) - sumBy f (constSet nucs holdN) := by
    have := others_sum nucs f adjN holdN hdis
    rw [hone] at this; linarith
  unfold adjustFactor2
  rw [if_neg hoth, adjPart_sum nucs f adjN val hadj, hO]
  field_simp
  ring

/-- hence what `setMassFracs` assigns to a held nuclide `q` — `(1 − Σ given) · (f q / Σ not given)` with the not-given
nuclides being the held ones — is its old fraction -/
theorem adjust_held_constant (nucs : List Nuc) (f : Nuc → Rat) (adjN holdN : List Nuc) (val : Rat) (q : Nuc)
    (hadj : adjSet nucs adjN ≠ []) (hone : sumBy f nucs = 1)
    (hdis : ∀ n ∈ nucs, ¬ (adjN.contains n = true ∧ holdN.contains n = true))
    (hoth : 1 - sumBy f (adjSet nucs adjN) - sumBy f (constSet nucs holdN) ≠ 0)
    (hC : sumBy f (constSet nucs holdN) ≠ 0) :
    (1 - sumBy (fun q => q.2) (adjPart nucs f adjN val ++ othersPart nucs f adjN holdN val))
      * (f q / sumBy f (constSet nucs holdN)) = f q := by
  rw [adjustDict_total nucs f adjN holdN val hadj hone hdis hoth]
  field_simp
  ring

example : adjustDictOf [1, 2, 3] (fun n => if n = 1 then 1/2 else 1/4) [1] [2] (1/4)
    = some (adjPart [1, 2, 3] (fun n => if n = 1 then 1/2 else 1/4) [1] (1/4)
        ++ othersPart [1, 2, 3] (fun n => if n = 1 then 1/2 else 1/4) [1] [2] (1/4)) :=
  adjustDictOf_eq _ _ _ _ _ (by norm_num) (by norm_num) (by decide)

example := adjustDict_total [1, 2, 3] (fun n => if n = 1 then 1/2 else 1/4) [1] [2] (1/4) (by decide)
  (by norm_num [sumBy]) (by decide) (by norm_num [sumBy, adjSet, constSet])

/-! ### composites of arbitrary depth: additivity by structural induction on the tree -/

theorem wvolList_eq (sym : Rat) (kids : List Tree) : Tree.wvolList sym kids = Tree.volList kids / sym := by
  induction kids with
  | nil => simp [Tree.wvolList, Tree.volList]
  | cons t ts ih => simp only [Tree.wvolList, Tree.volList, ih]; ring

mutual
/-- **any depth**: the homogenised density of a composite times its volume is the sum over its LEAF components
of `N_c · V_c`, each divided by the symmetry factors of the composites above it — by structural induction over a
tree of any shape (`getNuclideNumberDensities` applied recursively) -/
theorem tree_atoms_additive (n : Nuc) : ∀ t : Tree, t.WF → t.nd n * t.vol = t.leafAtoms n
  | .leaf c, _ => by simp only [Tree.nd, Tree.vol, Tree.leafAtoms]; ring
  | .node sym kids, h => by
    simp only [Tree.WF] at h
    obtain ⟨hs, hv, hk⟩ := h
    have hl := tree_atoms_additive_list n sym kids hs hk
    have hw := wvolList_eq sym kids
    simp only [Tree.nd, Tree.vol, Tree.leafAtoms, hw, hl]
    have : Tree.volList kids / sym ≠ 0 := div_ne_zero hv hs
    rw [if_neg this]
    field_simp
theorem tree_atoms_additive_list (n : Nuc) (sym : Rat) : ∀ kids : List Tree, sym ≠ 0 → Tree.WFList kids →
    Tree.wndList n sym kids = Tree.leafAtomsList n kids / sym
  | [], _, _ => by simp [Tree.wndList, Tree.leafAtomsList]
  | t :: ts, hs, h => by
    simp only [Tree.WFList] at h
    have h1 := tree_atoms_additive n t h.1
    have h2 := tree_atoms_additive_list n sym ts hs h.2
    simp only [Tree.wndList, Tree.leafAtomsList, h2, ← h1]
    field_simp
end

mutual
/-- **any depth**: mass = density × volume × A/K at every node of a tree of any shape, when each component
carries the symmetry factor of the composite holding it and only the composites that hold components are cut -/
theorem tree_mass_eq_density_volume (ph : Phys) (n : Nuc) : ∀ (t : Tree) (psym : Rat), psym ≠ 0 → t.WF →
    t.SymOK psym → t.mass ph n = t.nd n * t.vol / psym * ph.aw n / ph.K
  | .leaf c, psym, _, _, hsym => by
    simp only [Tree.SymOK] at hsym
    simp only [Tree.mass, Comp.mass, Tree.nd, Tree.vol, hsym]; ring
  | .node sym kids, psym, _, h, hsym => by
    simp only [Tree.SymOK] at hsym
    obtain ⟨hp, hk⟩ := hsym
    have hwf := h
    simp only [Tree.WF] at h
    obtain ⟨hs, _, hkw⟩ := h
    rw [tree_atoms_additive n _ hwf, hp]
    simp only [Tree.mass, Tree.leafAtoms]
    rw [tree_mass_list ph n sym kids hs hkw hk]; ring
theorem tree_mass_list (ph : Phys) (n : Nuc) (sym : Rat) : ∀ kids : List Tree, sym ≠ 0 → Tree.WFList kids →
    Tree.SymOKList sym kids → Tree.massList ph n kids = Tree.leafAtomsList n kids / sym * ph.aw n / ph.K
  | [], _, _, _ => by simp [Tree.massList, Tree.leafAtomsList]
  | t :: ts, hs, h, hk => by
    simp only [Tree.WFList] at h
    simp only [Tree.SymOKList] at hk
    have h1 := tree_mass_eq_density_volume ph n t sym hs h.1 hk.1
    have h2 := tree_mass_list ph n sym ts hs h.2 hk.2
    simp only [Tree.massList, Tree.leafAtomsList, h1, h2, ← tree_atoms_additive n t h.1]
    ring
end

/-- a 4-level tree (composite ⊃ composite ⊃ cut block ⊃ components): the hypotheses are satisfiable -/
example : (Tree.node 1 [Tree.node 1 [Tree.node 3 [.leaf ⟨6, 3, [(1, 2)]⟩, .leaf ⟨24, 3, [(1, 4), (2, 8)]⟩]],
    Tree.node 1 [.leaf ⟨5, 1, [(2, 1)]⟩]]).WF := by
  simp [Tree.WF, Tree.WFList, Tree.volList, Tree.vol]; norm_num

/-! ### non-vacuity: concrete objects satisfying the hypotheses -/

private def exPh : Phys := ⟨2, 1, fun _ => 10⟩
private def exBlock : Block := ⟨3, none, [⟨6, 3, [(1, 2), (2, 1)]⟩, ⟨24, 3, [(2, 4), (3, 8)]⟩]⟩

private theorem exBlock_wf : BlockWF exPh exBlock :=
  blockWF_of exPh exBlock (by norm_num [exBlock]) (by norm_num [exBlock, sumBy, compOps])
    (by intro c hc; simp [exBlock] at hc; rcases hc with rfl | rfl <;> rfl)

example : (blockOps exPh).nd ((blockOps exPh).setND exBlock 2 5) 2 = 5 :=
  setND_readback (blockLawful exPh) exBlock 2 5 exBlock_wf (by decide +kernel) (by decide +kernel)

example : (blockOps exPh).mass (setMass (blockOps exPh) exPh exBlock 2 7) 2 = 7 :=
  setMass_readback (blockLawful exPh) exBlock 2 7 exBlock_wf (by decide +kernel) (by decide +kernel)
    (block_evol_eq_vol exPh exBlock rfl (by intro c hc; simp [exBlock] at hc; rcases hc with rfl | rfl <;> rfl))
    (by norm_num [exPh]) (by norm_num [exPh]) (by norm_num [exBlock, blockOps, nodeOps, Node.vol, sumBy, compOps])

example (m : Nuc) : (blockOps exPh).nd (scale (blockOps exPh) exBlock 3) m = (blockOps exPh).nd exBlock m * 3 :=
  scale_linear (blockLawful exPh) (blockLawfulUpd exPh) exBlock 3 exBlock_wf (nodeNucs_nodup _ _) (by decide +kernel) m

private theorem compCanSetMany (ph : Phys) (as : NDens) : ∀ c : Comp, CanSetMany (compOps ph) c as := by
  induction as with
  | nil => intro c; trivial
  | cons q as ih => intro c; exact ⟨rfl, ih _⟩

private def exComp : Comp := ⟨6, 1, [(1, 2), (2, 3), (3, 5)]⟩

private theorem exComp_smf : SmfOK (compOps exPh) exPh (fun _ => True) exComp [(1, 1 / 2)] where
  wf := trivial
  nodupNucs := by decide
  K0 := by norm_num [exPh]
  A0 := by intro n _; norm_num [exPh]
  tot0 := by norm_num [sumBy, ndDict, compOps, NDens.keys, NDens.get, exComp, exPh]
  nodupMf := by unfold NodupKeys NDens.keys; decide
  present := by intro q hq; simp at hq; subst hq; decide
  other0 := by
    norm_num [massFracs, getMassFractions, sumBy, ndDict, compOps, NDens.keys, NDens.get, NDens.has, exComp, exPh,
      List.filter]
  can := compCanSetMany _ _ _

example : density (compOps exPh) exPh (setMassFracs (compOps exPh) exPh exComp [(1, 1 / 2)])
    = density (compOps exPh) exPh exComp :=
  setMassFracs_total_density (compLawful exPh) exComp _ exComp_smf

end ArmiVerif.Compo
