/-
C03 — thermal expansion conserves mass per unit height and scales dimensions, for every material
(any expansion curve `pct : T → ℚ` with `100 + pct T > 0`, i.e. `p T = 1 + pct T / 100 > 0`) and every
two-dimensional shape class.
-/
import ArmiVerif.Model.Thermal
import Mathlib.Tactic.Ring
import Mathlib.Tactic.Linarith
import Mathlib.Tactic.FieldSimp
import Mathlib.Tactic.Positivity
import Mathlib.Algebra.Order.Field.Rat
import Mathlib.Data.Rat.Defs

namespace ArmiVerif.Thermal

/-- end temperature of a history that starts at `t` -/
def endOf {T : Type} (t : T) : List T → T
  | [] => t
  | t' :: rest => endOf t' rest

/-- "the material's curve is positive on these temperatures": `p T = (100 + pct T)/100 > 0` -/
def PosOn {T : Type} (pct : T → Rat) (ts : List T) : Prop := ∀ x ∈ ts, 0 < 100 + pct x

/-! ### expansion factor -/

/-- the code's `(dLLhot - dLLcold)/(100 + dLLcold) + 1` is the ratio `p Tc / p T0` -/
theorem expFactor_eq_ratio {T : Type} (pct : T → Rat) (Tc T0 : T) (h0 : 100 + pct T0 ≠ 0) :
    expFactor pct Tc T0 = (100 + pct Tc) / (100 + pct T0) := by
  unfold expFactor linExpFactor
  field_simp
  ring

example : expFactor (fun t : Rat => t / 100) 200 100 = 102 / 101 := by
  rw [expFactor_eq_ratio _ _ _ (by norm_num)]; norm_num

/-- **telescoping**: expanding `T0 → T1` and then `T1 → T2` is expanding `T0 → T2` -/
theorem expFactor_mul {T : Type} (pct : T → Rat) (T0 T1 T2 : T)
    (h0 : 100 + pct T0 ≠ 0) (h1 : 100 + pct T1 ≠ 0) :
    expFactor pct T2 T1 * expFactor pct T1 T0 = expFactor pct T2 T0 := by
  rw [expFactor_eq_ratio _ _ _ h0, expFactor_eq_ratio _ _ _ h1, expFactor_eq_ratio _ _ _ h0]
  field_simp

example : expFactor (fun t : Rat => t) 3 2 * expFactor (fun t : Rat => t) 2 1 = expFactor (fun t : Rat => t) 3 1 :=
  expFactor_mul _ _ _ _ (by norm_num) (by norm_num)

/-- the number-density factor of one temperature change is the inverse square of the expansion factor
between the two temperatures -/
theorem densReduction_eq {T : Type} (pct : T → Rat) (prev new : T)
    (hp : 100 + pct prev ≠ 0) (hn : 100 + pct new ≠ 0) :
    densReduction pct prev new = ((100 + pct prev) / (100 + pct new)) ^ 2 := by
  unfold densReduction linExpFactor
  have h : 1 + (pct new - pct prev) / (100 + pct prev) = (100 + pct new) / (100 + pct prev) := by
    field_simp; ring
  rw [h]
  field_simp

theorem densReduction_mul_expFactor_sq {T : Type} (pct : T → Rat) (prev new : T)
    (hp : 100 + pct prev ≠ 0) (hn : 100 + pct new ≠ 0) :
    densReduction pct prev new * expFactor pct new prev ^ 2 = 1 := by
  rw [densReduction_eq _ _ _ hp hn, expFactor_eq_ratio _ _ _ hp]
  field_simp

/-! ### path independence -/

/-- **path independence**: after ANY temperature history `t → t₁ → … → tₙ` the number density is
`N₀ · (p t / p tₙ)²` — it depends on the end temperature only. -/
theorem path_independent {T : Type} (pct : T → Rat) (t : T) (path : List T) (n : Rat)
    (hpos : PosOn pct (t :: path)) :
    ndAlong pct t path n = n * ((100 + pct t) / (100 + pct (endOf t path))) ^ 2 := by
  induction path generalizing t n with
  | nil =>
    have h : 100 + pct t ≠ 0 := ne_of_gt (hpos t (by simp))
    simp only [ndAlong, endOf]
    field_simp
  | cons t' rest ih =>
    have ht : 100 + pct t ≠ 0 := ne_of_gt (hpos t (by simp))
    have ht' : 100 + pct t' ≠ 0 := ne_of_gt (hpos t' (by simp))
    have hrest : PosOn pct (t' :: rest) := fun x hx => hpos x (List.mem_cons_of_mem _ hx)
    have he : 100 + pct (endOf t' rest) ≠ 0 := by
      have : ∀ (u : T) (l : List T), PosOn pct (u :: l) → 0 < 100 + pct (endOf u l) := by
        intro u l
        induction l generalizing u with
        | nil => intro h; exact h u (by simp)
        | cons a l ihl => intro h; exact ihl a (fun x hx => h x (List.mem_cons_of_mem _ hx))
      exact ne_of_gt (this t' rest hrest)
    simp only [ndAlong, endOf]
    rw [ih t' _ hrest, densReduction_eq _ _ _ ht ht']
    field_simp

/-- two histories from the same start that end at the same temperature give the same number density -/
theorem path_independent_pair {T : Type} (pct : T → Rat) (t : T) (p1 p2 : List T) (n : Rat)
    (h1 : PosOn pct (t :: p1)) (h2 : PosOn pct (t :: p2)) (hend : endOf t p1 = endOf t p2) :
    ndAlong pct t p1 n = ndAlong pct t p2 n := by
  rw [path_independent _ _ _ _ h1, path_independent _ _ _ _ h2, hend]

example : ndAlong (fun t : Rat => t) 0 [50, 20] 3 = ndAlong (fun t : Rat => t) 0 [7, 90, 20] 3 :=
  path_independent_pair _ _ _ _ _ (by intro x hx; simp at hx; rcases hx with rfl | rfl | rfl <;> norm_num)
    (by intro x hx; simp at hx; rcases hx with rfl | rfl | rfl | rfl <;> norm_num) rfl

/-- `runPath` (the `setTemperature` fold on the component state) applies `ndAlong` to every density and ends
at the end temperature -/
theorem runPath_spec {T : Type} (pct : T → Rat) (s : TState T) (path : List T) :
    (runPath pct s path).temp = endOf s.temp path ∧
    (runPath pct s path).nd = s.nd.map (ndAlong pct s.temp path) := by
  induction path generalizing s with
  | nil => simp [runPath, endOf, ndAlong]
  | cons t' rest ih =>
    have := ih (setTemperature pct s t')
    simp only [runPath, List.foldl_cons] at this ⊢
    constructor
    · simpa [setTemperature, endOf] using this.1
    · rw [this.2]
      simp [setTemperature, stepND, ndAlong, List.map_map, Function.comp_def]

/-! ### area homogeneity: one lemma per shape class, in any field, for any values of π and √3.
Scaling exactly the class's `THERMAL_EXPANSION_DIMS` by `f` scales the area by `f²`. -/

section Homog
variable {K : Type} [Field K]

theorem area_homogeneous_Circle (pi od id mult f : K) :
    areaCircle pi (f * od) (f * id) mult = f ^ 2 * areaCircle pi od id mult := by
  unfold areaCircle; ring

theorem area_homogeneous_Hexagon (sqrt3 op ip mult f : K) :
    areaHexagon sqrt3 (f * op) (f * ip) mult = f ^ 2 * areaHexagon sqrt3 op ip mult := by
  unfold areaHexagon; ring

theorem area_homogeneous_Rectangle (lo wo li wi mult f : K) :
    areaRectangle (f * lo) (f * wo) (f * li) (f * wi) mult = f ^ 2 * areaRectangle lo wo li wi mult := by
  unfold areaRectangle; ring

theorem area_homogeneous_SolidRectangle (lo wo mult f : K) :
    areaSolidRectangle (f * lo) (f * wo) mult = f ^ 2 * areaSolidRectangle lo wo mult := by
  unfold areaSolidRectangle; ring

theorem area_homogeneous_Square (wo wi mult f : K) :
    areaSquare (f * wo) (f * wi) mult = f ^ 2 * areaSquare wo wi mult := by
  unfold areaSquare; ring

theorem area_homogeneous_Triangle (base height mult f : K) :
    areaTriangle (f * base) (f * height) mult = f ^ 2 * areaTriangle base height mult := by
  unfold areaTriangle; ring

theorem area_homogeneous_HoledHexagon (pi sqrt3 op holeOD nHoles mult f : K) :
    areaHoledHexagon pi sqrt3 (f * op) (f * holeOD) nHoles mult
      = f ^ 2 * areaHoledHexagon pi sqrt3 op holeOD nHoles mult := by
  unfold areaHoledHexagon; ring

theorem area_homogeneous_HexHoledCircle (pi sqrt3 od holeOP mult f : K) :
    areaHexHoledCircle pi sqrt3 (f * od) (f * holeOP) mult
      = f ^ 2 * areaHexHoledCircle pi sqrt3 od holeOP mult := by
  unfold areaHexHoledCircle; ring

theorem area_homogeneous_HoledRectangle (pi lo wo holeOD mult f : K) :
    areaHoledRectangle pi (f * lo) (f * wo) (f * holeOD) mult
      = f ^ 2 * areaHoledRectangle pi lo wo holeOD mult := by
  unfold areaHoledRectangle; ring

theorem area_homogeneous_HoledSquare (pi wo holeOD mult f : K) :
    areaHoledSquare pi (f * wo) (f * holeOD) mult = f ^ 2 * areaHoledSquare pi wo holeOD mult := by
  unfold areaHoledSquare; ring

/-- Helix: `od, id, axialPitch, helixDiameter` all scale; the square root scales with them
(`helixRoot_scales` below), so the helix factor `root / c` is unchanged (needs `f ≠ 0`). -/
theorem area_homogeneous_Helix (pi od id ap mult root f : K) (hf : f ≠ 0) :
    areaHelix pi (f * od) (f * id) (f * ap) mult (f * root) = f ^ 2 * areaHelix pi od id ap mult root := by
  unfold areaHelix helixC
  by_cases hpi : pi = 0
  · subst hpi; simp
  by_cases hap : ap = 0
  · subst hap; simp
  field_simp

theorem area_homogeneous_Unshaped (factor coldArea f : K) :
    areaUnshaped (f * factor) coldArea = f ^ 2 * areaUnshaped factor coldArea := by
  unfold areaUnshaped; ring

/-- the radicand of the helix factor is homogeneous of degree 2 in `(axialPitch, helixDiameter)` -/
theorem helixRadicand_scales (pi ap hd f : K) :
    helixRadicand pi (f * ap) (f * hd) = f ^ 2 * helixRadicand pi ap hd := by
  unfold helixRadicand helixC
  by_cases hpi : pi = 0
  · subst hpi; simp; ring
  field_simp

end Homog

/-- the square root in the helix factor scales with the dimensions: if `root` is the non-negative root for
`(ap, hd)` then `f * root` is THE non-negative root for `(f ap, f hd)` (f > 0). -/
theorem helixRoot_scales (pi ap hd f root r' : Rat) (hf : 0 < f) (hr0 : 0 ≤ root)
    (hroot : root * root = helixRadicand pi ap hd)
    (hr'0 : 0 ≤ r') (hr' : r' * r' = helixRadicand pi (f * ap) (f * hd)) : r' = f * root := by
  rw [helixRadicand_scales, ← hroot] at hr'
  have h1 : (r' - f * root) * (r' + f * root) = 0 := by ring_nf; ring_nf at hr'; linarith
  rcases mul_eq_zero.mp h1 with h | h
  · linarith
  · have hfr : 0 ≤ f * root := mul_nonneg hf.le hr0
    have : r' = 0 ∧ f * root = 0 := by constructor <;> linarith
    linarith [this.1, this.2]

/-- **every shape class**: reading the dimensions hot (each of the class's expanding dimensions times `f`,
all other dimensions — `mult`, `nHoles` — unchanged) multiplies the area by `f²`.
This is where a wrong `THERMAL_EXPANSION_DIMS` entry makes the proof fail. -/
theorem area_homogeneous (s : Shape) (pi sqrt3 root f : Rat) (hf : f ≠ 0) (d : String → Rat) :
    s.area pi sqrt3 (f * root) (scaleDims s.expDims f d) = f ^ 2 * s.area pi sqrt3 root d := by
  cases s
  case Helix =>
    simp only [Shape.area, Shape.expDims, scaleDims]
    simpa using area_homogeneous_Helix pi (d "od") (d "id") (d "axialPitch") (d "mult") root f hf
  all_goals
    simp only [Shape.area, Shape.expDims, scaleDims]
    first
      | simpa using area_homogeneous_Circle pi (d "od") (d "id") (d "mult") f
      | simpa using area_homogeneous_Hexagon sqrt3 (d "op") (d "ip") (d "mult") f
      | simpa using area_homogeneous_Rectangle (d "lengthOuter") (d "widthOuter") (d "lengthInner") (d "widthInner") (d "mult") f
      | simpa using area_homogeneous_SolidRectangle (d "lengthOuter") (d "widthOuter") (d "mult") f
      | simpa using area_homogeneous_Square (d "widthOuter") (d "widthInner") (d "mult") f
      | simpa using area_homogeneous_Triangle (d "base") (d "height") (d "mult") f
      | simpa using area_homogeneous_HoledHexagon pi sqrt3 (d "op") (d "holeOD") (d "nHoles") (d "mult") f
      | simpa using area_homogeneous_HexHoledCircle pi sqrt3 (d "od") (d "holeOP") (d "mult") f
      | simpa using area_homogeneous_HoledRectangle pi (d "lengthOuter") (d "widthOuter") (d "holeOD") (d "mult") f
      | simpa using area_homogeneous_HoledSquare pi (d "widthOuter") (d "holeOD") (d "mult") f

example : Shape.Circle.area 3 2 0 (scaleDims Shape.Circle.expDims 2 (fun k => if k = "od" then 2 else if k = "id" then 1 else 5))
    = 2 ^ 2 * Shape.Circle.area 3 2 0 (fun k => if k = "od" then 2 else if k = "id" then 1 else 5) :=
  by simpa using area_homogeneous Shape.Circle 3 2 0 2 (by norm_num) _

/-! ### mass per unit height -/

/-- **mass per unit height is conserved**: for every shape class, every material curve positive on the
temperatures visited, every history `t → … → tₙ` of a component whose dimensions were input at `tin`:
(number density) × (area with hot dimensions) is the same at the end as at the start.
`root` is the cold helix root (irrelevant for the other shapes). -/
theorem mass_per_height_conserved {T : Type} (s : Shape) (pct : T → Rat) (tin t : T) (path : List T)
    (pi sqrt3 root : Rat) (d : String → Rat) (n : Rat)
    (hpos : PosOn pct (tin :: t :: path)) :
    ndAlong pct t path n *
        s.area pi sqrt3 (expFactor pct (endOf t path) tin * root)
          (scaleDims s.expDims (expFactor pct (endOf t path) tin) d)
      = n * s.area pi sqrt3 (expFactor pct t tin * root) (scaleDims s.expDims (expFactor pct t tin) d) := by
  have hin : 0 < 100 + pct tin := hpos tin (by simp)
  have ht : 0 < 100 + pct t := hpos t (by simp)
  have hpath : PosOn pct (t :: path) := fun x hx => hpos x (List.mem_cons_of_mem _ hx)
  have hend : 0 < 100 + pct (endOf t path) := by
    have : ∀ (u : T) (l : List T), PosOn pct (u :: l) → 0 < 100 + pct (endOf u l) := by
      intro u l
      induction l generalizing u with
      | nil => intro h; exact h u (by simp)
      | cons a l ihl => intro h; exact ihl a (fun x hx => h x (List.mem_cons_of_mem _ hx))
    exact this t path hpath
  have hfe : expFactor pct (endOf t path) tin ≠ 0 := by
    rw [expFactor_eq_ratio _ _ _ (ne_of_gt hin)]; exact ne_of_gt (div_pos hend hin)
  have hft : expFactor pct t tin ≠ 0 := by
    rw [expFactor_eq_ratio _ _ _ (ne_of_gt hin)]; exact ne_of_gt (div_pos ht hin)
  rw [area_homogeneous s pi sqrt3 root _ hfe d, area_homogeneous s pi sqrt3 root _ hft d,
    path_independent _ _ _ _ hpath, expFactor_eq_ratio _ _ _ (ne_of_gt hin),
    expFactor_eq_ratio _ _ _ (ne_of_gt hin)]
  have h1 := ne_of_gt hin
  have h2 := ne_of_gt ht
  have h3 := ne_of_gt hend
  field_simp

/-- the same for an unshaped component (`area = factor² · coldArea`) -/
theorem mass_per_height_conserved_Unshaped {T : Type} (pct : T → Rat) (tin t : T) (path : List T)
    (coldArea n : Rat) (hpos : PosOn pct (tin :: t :: path)) :
    ndAlong pct t path n * areaUnshaped (expFactor pct (endOf t path) tin) coldArea
      = n * areaUnshaped (expFactor pct t tin) coldArea := by
  have hin : 0 < 100 + pct tin := hpos tin (by simp)
  have ht : 0 < 100 + pct t := hpos t (by simp)
  have hpath : PosOn pct (t :: path) := fun x hx => hpos x (List.mem_cons_of_mem _ hx)
  have hend : 0 < 100 + pct (endOf t path) := by
    have : ∀ (u : T) (l : List T), PosOn pct (u :: l) → 0 < 100 + pct (endOf u l) := by
      intro u l
      induction l generalizing u with
      | nil => intro h; exact h u (by simp)
      | cons a l ihl => intro h; exact ihl a (fun x hx => h x (List.mem_cons_of_mem _ hx))
    exact this t path hpath
  rw [path_independent _ _ _ _ hpath, expFactor_eq_ratio _ _ _ (ne_of_gt hin),
    expFactor_eq_ratio _ _ _ (ne_of_gt hin)]
  unfold areaUnshaped
  have h1 := ne_of_gt hin
  have h2 := ne_of_gt ht
  have h3 := ne_of_gt hend
  field_simp

/-! ### dimensions -/

/-- **an expanding dimension reads cold value × expansion factor; any other dimension reads its stored value** -/
theorem dim_eq_cold_times_factor (sys : List Comp) (fuel i : Nat) (key : String) (c : Comp) (q f : Rat)
    (hc : sys[i]? = some c) (hd : c.dim? key = some (.val q)) (hf : c.factor = some f) :
    getDimension sys (fuel + 1) i key false =
      some (if c.expDims.contains key then f * q else q) ∧
    getDimension sys (fuel + 1) i key true = some q := by
  constructor
  · simp only [getDimension, hc, hd, hf]
    by_cases hq : q = 0
    · subst hq; simp
    · by_cases he : key ∈ c.expDims <;> simp [hq, he]
  · simp [getDimension, hc, hd]

/-- **setting a hot dimension reads back that value** (factor ≠ 0) -/
theorem setDimension_hot_readback (sys : List Comp) (fuel i : Nat) (key : String) (c c' : Comp) (v f : Rat)
    (hf : c.factor = some f) (hf0 : f ≠ 0) (hk : (c.dim? key).isSome)
    (hset : setDimension c key v false = some c') (hc : sys[i]? = some c') :
    getDimension sys (fuel + 1) i key false = some v := by
  have hstored : c' = { c with dims := c.dims.map (fun p =>
      if p.1 = key then (p.1, Dim.val (if c.expDims.contains key then v / f else v)) else p) } := by
    unfold setDimension at hset
    by_cases he : key ∈ c.expDims
    · simp [he, hf] at hset; rw [← hset]; simp [he, hf]
    · simp [he] at hset; rw [← hset]; simp [he]
  have hdim : c'.dim? key = some (.val (if c.expDims.contains key then v / f else v)) := by
    subst hstored
    unfold Comp.dim? at hk ⊢
    simp only []
    generalize c.dims = l at hk ⊢
    induction l with
    | nil => simp at hk
    | cons p l ih =>
      by_cases hp : p.1 = key
      · simp [hp]
      · have : (List.find? (fun p => decide (p.1 = key)) l).isSome := by
          simpa [List.find?, hp] using hk
        simpa [List.find?, hp] using ih (by simpa using this)
  have hfac : c'.factor = some f := by subst hstored; exact hf
  have hexp : c'.expDims = c.expDims := by subst hstored; rfl
  have h := (dim_eq_cold_times_factor sys fuel i key c' _ f hc hdim hfac).1
  rw [h, hexp]
  by_cases he : key ∈ c.expDims
  · simp [he]; field_simp
  · simp [he]

/-- **a linked dimension always equals the linked component's current dimension** — whatever the state
(temperature, stored values, further links) of either component -/
theorem linked_dim_follows (sys : List Comp) (fuel i j : Nat) (key k : String) (c : Comp) (cold : Bool)
    (hc : sys[i]? = some c) (hd : c.dim? key = some (.link j k)) :
    getDimension sys (fuel + 1) i key cold = getDimension sys fuel j k cold := by
  simp [getDimension, hc, hd]

/-- **a hot value set through a retained link reads back on the linking component**, whatever the two
components' materials and temperatures (the value lands on the link target, divided by the TARGET's factor) -/
theorem setDimension_retainLink_readback (sys sys' : List Comp) (fuel i j : Nat) (key k : String)
    (c t : Comp) (v f : Rat) (hij : i ≠ j)
    (hc : sys[i]? = some c) (hd : c.dim? key = some (.link j k))
    (ht : sys[j]? = some t) (hf : t.factor = some f) (hf0 : f ≠ 0) (hk : (t.dim? k).isSome)
    (hset : setDimensionAt sys i key v false true = some sys') :
    getDimension sys' (fuel + 2) i key false = some v := by
  unfold setDimensionAt at hset
  simp only [hc, hd, ht] at hset
  cases hst : setDimension t k v false with
  | none => simp [hst] at hset
  | some t' =>
    simp only [hst, Option.map_some, Option.some.injEq] at hset
    subst hset
    have hjlt : j < sys.length := by
      rcases List.getElem?_eq_some_iff.mp ht with ⟨h, _⟩; exact h
    have hci : (sys.set j t')[i]? = some c := by
      rw [List.getElem?_set_ne (Ne.symm hij)]; exact hc
    have hcj : (sys.set j t')[j]? = some t' := by
      rw [List.getElem?_set_self hjlt]
    rw [linked_dim_follows (sys.set j t') (fuel + 1) i j key k c false hci hd]
    exact setDimension_hot_readback (sys.set j t') fuel j k t t' v f hf hf0 hk hst hcj

/-- **fluids and custom materials keep their dimensions**: their expansion factor is 1 at every pair of
temperatures, and a dimension read hot equals the cold value -/
theorem fluid_dims_fixed {T : Type} (pct : T → Rat) (Tc T0 : T) (same : Bool)
    (sys : List Comp) (fuel i : Nat) (key : String) (c : Comp) (q : Rat)
    (hc : sys[i]? = some c) (hd : c.dim? key = some (.val q))
    (hfac : c.factor = thermalExpansionFactor .fluid pct Tc T0 same) :
    thermalExpansionFactor .fluid pct Tc T0 same = some 1 ∧
    getDimension sys (fuel + 1) i key false = getDimension sys (fuel + 1) i key true := by
  refine ⟨rfl, ?_⟩
  have hf : c.factor = some 1 := hfac
  obtain ⟨h1, h2⟩ := dim_eq_cold_times_factor sys fuel i key c q 1 hc hd hf
  rw [h1, h2]; simp

/-- for a solid the factor the component reports is the telescoping `expFactor` (when it does not raise) -/
theorem solid_factor_eq {T : Type} (pct : T → Rat) (Tc T0 : T) (same : Bool) (f : Rat)
    (h : thermalExpansionFactor .solid pct Tc T0 same = some f) : f = expFactor pct Tc T0 := by
  unfold thermalExpansionFactor at h
  simp only [] at h
  split at h
  · cases h
  · exact (Option.some.inj h).symm

/-! ### `getDimension(key, Tc=T)` and the derived (left-over) shape -/

private theorem dim_atTemperature (fs : List (Option Rat)) (sys : List Comp) (i : Nat) (c : Comp)
    (h : (atTemperature fs sys)[i]? = some c) : ∃ c0, sys[i]? = some c0 ∧ c.dims = c0.dims := by
  unfold atTemperature at h
  rw [List.getElem?_map] at h
  cases hz : (sys.zip fs)[i]? with
  | none => rw [hz] at h; cases h
  | some p =>
    rw [hz] at h
    simp only [Option.map_some, Option.some.injEq] at h
    rw [List.getElem?_zip_eq_some] at hz
    exact ⟨p.1, hz.1, by rw [← h]⟩

/-- **a linked dimension read at a temperature `T` equals the link target's dimension read at the same `T`**
(`Tc` is handed down the link chain) -/
theorem linked_dim_follows_Tc (sys : List Comp) (fs : List (Option Rat)) (fuel i j : Nat) (key k : String)
    (c : Comp) (hc : (atTemperature fs sys)[i]? = some c) (hd : c.dim? key = some (.link j k)) :
    getDimensionTc sys fs (fuel + 1) i key = getDimensionTc sys fs fuel j k :=
  linked_dim_follows (atTemperature fs sys) fuel i j key k c false hc hd

private theorem foldr_add_append (l1 l2 : List Rat) :
    (l1 ++ l2).foldr (· + ·) 0 = l1.foldr (· + ·) 0 + l2.foldr (· + ·) 0 := by
  induction l1 with
  | nil => simp
  | cons a l ih => simp only [List.cons_append, List.foldr_cons, ih]; ring

/-- **the component areas of a block with a derived shape sum to the block's area** — at every condition -/
theorem derived_closes (A : Rat) (as : List Rat) : derivedArea A as + as.foldr (· + ·) 0 = A := by
  unfold derivedArea; ring

/-- **the derived area follows its neighbours**: a sibling growing by `δ` takes `δ` from the derived shape -/
theorem derived_follows (A δ a : Rat) (pre post : List Rat) :
    derivedArea A (pre ++ (a + δ) :: post) = derivedArea A (pre ++ a :: post) - δ := by
  unfold derivedArea
  rw [foldr_add_append, foldr_add_append]; simp only [List.foldr_cons]; ring

/-- hence the mass per unit height of a derived (fluid) component is NOT conserved when a neighbour expands: its
number density `n` is untouched by the neighbour's `setTemperature`, its area loses `δ`.  ("Fluids keep their
dimensions" is about a fluid's own stored dimensions and its own temperature — a derived shape stores none.) -/
theorem derived_mass_per_height_changes (A δ a n : Rat) (pre post : List Rat) :
    n * derivedArea A (pre ++ (a + δ) :: post) = n * derivedArea A (pre ++ a :: post) - n * δ := by
  rw [derived_follows]; ring

example : (2 : Rat) * derivedArea 10 ([3] ++ (4 + 1) :: []) ≠ 2 * derivedArea 10 ([3] ++ 4 :: []) := by
  rw [derived_mass_per_height_changes]; norm_num [derivedArea]

/-! ### non-vacuity: the hypotheses of the theorems above are satisfiable -/

example := mass_per_height_conserved .Helix (fun t : Rat => t) 0 10 [20, 5] 3 2 1 (fun _ => 1) 7
  (by intro x hx; simp at hx; rcases hx with rfl | rfl | rfl | rfl <;> norm_num)

example := mass_per_height_conserved_Unshaped (fun t : Rat => t / 2) 0 10 [20, 5] 4 7
  (by intro x hx; simp at hx; rcases hx with rfl | rfl | rfl | rfl <;> norm_num)

private def exSys : List Comp :=
  [⟨.solid, some 2, ["od"], [("od", .val 3), ("mult", .val 7)]⟩,
   ⟨.fluid, some 1, ["od"], [("od", .link 0 "od")]⟩]

example : getDimension exSys 1 0 "od" false = some 6 := by
  have h := (dim_eq_cold_times_factor exSys 0 0 "od" _ 3 2 rfl (by simp [Comp.dim?]) rfl).1
  rw [h]; norm_num

example : getDimension exSys 2 1 "od" false = getDimension exSys 1 0 "od" false :=
  linked_dim_follows exSys 1 1 0 "od" "od" _ false rfl (by simp [Comp.dim?])

example : ∃ sys', setDimensionAt exSys 1 "od" 5 false true = some sys' ∧
    getDimension sys' 2 1 "od" false = some 5 := by
  refine ⟨_, rfl, ?_⟩
  exact setDimension_retainLink_readback exSys _ 0 1 0 "od" "od" _ _ 5 2 (by decide) rfl
    (by simp [Comp.dim?]) rfl rfl (by norm_num) (by simp [Comp.dim?]) rfl

end ArmiVerif.Thermal
