/-
C03 — thermal expansion conserves mass per unit height and scales dimensions, for every material
(any expansion curve `pct : T → ℚ` with `100 + pct T > 0`, i.e. `p T = 1 + pct T / 100 > 0`) and every
two-dimensional shape class.
-/
import ArmiVerif.Model.Thermal
import Mathlib.Tactic.Ring
import Mathlib.Tactic.Linarith
import Mathlib.Tactic.FieldSimp
import Mathlib.Tactic.Positivity
import Mathlib.Algebra.Order.Field.Rat
import Mathlib.Data.Rat.Defs

namespace ArmiVerif.Thermal

/-- end temperature of a history that starts at `t` -/
def endOf {T : Type} (t : T) : List T → T
  | [] => t
  | t' :: rest => endOf t' rest

/-- "the material's curve is positive on these temperatures": `p T = (100 + pct T)/100 > 0` -/
def PosOn {T : Type} (pct : T → Rat) (ts : List T) : Prop := ∀ x ∈ ts, 0 < 100 + pct x

/-! ### expansion factor -/

/-- the code's `(dLLhot - dLLcold)/(100 + dLLcold) + 1` is the ratio `p Tc / p T0` -/
theorem expFactor_eq_ratio {T : Type} (pct : T → Rat) (Tc T0 : T) (h0 : 100 + pct T0 ≠ 0) :
    expFactor pct Tc T0 = (100 + pct Tc) / (100 + pct T0) := by
  unfold expFactor linExpFactor
  field_simp
  ring

example : expFactor (fun t : Rat => t / 100) 200 100 = 102 / 101 := by
  rw [expFactor_eq_ratio _ _ _ (by norm_num)]; norm_num

/-- **telescoping**: expanding `T0 → T1` and then `T1 → T2` is expanding `T0 → T2` -/
theorem expFactor_mul {T : Type} (pct : T → Rat) (T0 T1 T2 : T)
    (h0 : 100 + pct T0 ≠ 0) (h1 : 100 + pct T1 ≠ 0) :
    expFactor pct T2 T1 * expFactor pct T1 T0 = expFactor pct T2 T0 := by
  rw [expFactor_eq_ratio _ _ _ h0, expFactor_eq_ratio _ _ _ h1, expFactor_eq_ratio _ _ _ h0]
  field_simp

example : expFactor (fun t : Rat => t) 3 2 * expFactor (fun t : Rat => t) 2 1 = expFactor (fun t : Rat => t) 3 1 :=
  expFactor_mul _ _ _ _ (by norm_num) (by norm_num)

/-- the number-density factor of one temperature change is the inverse square of the expansion factor
between the two temperatures -/
theorem densReduction_eq {T : Type} (pct : T → Rat) (prev new : T)
    (hp : 100 + pct prev ≠ 0) (hn : 100 + pct new ≠ 0) :
    densReduction pct prev new = ((100 + pct prev) / (100 + pct new)) ^ 2 := by
  unfold densReduction linExpFactor
  have h : 1 + (pct new - pct prev) / (100 + pct prev) = (100 + pct new) / (100 + pct prev) := by
    field_simp; ring
  rw [h]
  field_simp

theorem densReduction_mul_expFactor_sq {T : Type} (pct : T → Rat) (prev new : T)
    (hp : 100 + pct prev ≠ 0) (hn : 100 + pct new ≠ 0) :
    densReduction pct prev new * expFactor pct new prev ^ 2 = 1 := by
  rw [densReduction_eq _ _ _ hp hn, expFactor_eq_ratio _ _ _ hp]
  field_simp

/-! ### path independence -/

/-- **path independence**: after ANY temperature history `t → t₁ → … → tₙ` the number density is
`N₀ · (p t / p tₙ)²` — it depends on the end temperature only. -/
theorem path_independent {T : Type} (pct : T → Rat) (t : T) (path : List T) (n : Rat)
    (hpos : PosOn pct (t :: path)) :
    ndAlong pct t path n = n * ((100 + pct t) / (100 + pct (endOf t path))) ^ 2 := by
  induction path generalizing t n with
  | nil =>
    have h : 100 + pct t ≠ 0 := ne_of_gt (hpos t (by simp))
    simp only [ndAlong, endOf]
    field_simp
  | cons t' rest ih =>
    have ht : 100 + pct t ≠ 0 := ne_of_gt (hpos t (by simp))
    have ht' : 100 + pct t' ≠ 0 := ne_of_gt (hpos t' (by simp))
    have hrest : PosOn pct (t' :: rest) := fun x hx => hpos x (List.mem_cons_of_mem _ hx)
    have he : 100 + pct (endOf t' rest) ≠ 0 := by
      have : ∀ (u : T) (l : List T), PosOn pct (u :: l) → 0 < 100 + pct (endOf u l) := by
        intro u l
        induction l generalizing u with
        | nil => intro h; exact h u (by simp)
        | cons a l ihl => intro h; exact ihl a (fun x hx => h x (List.mem_cons_of_mem _ hx))
      exact ne_of_gt (this t' rest hrest)
    simp only [ndAlong, endOf]
    rw [ih t' _ hrest, densReduction_eq _ _ _ ht ht']
    field_simp

/-- two histories from the same start that end at the same temperature give the same number density -/
theorem path_independent_pair {T : Type} (pct : T → Rat) (t : T) (p1 p2 : List T) (n : Rat)
    (h1 : PosOn pct (t :: p1)) (h2 : PosOn pct (t :: p2)) (hend : endOf t p1 = endOf t p2) :
    ndAlong pct t p1 n = ndAlong pct t p2 n := by
  rw [path_independent _ _ _ _ h1, path_independent _ _ _ _ h2, hend]

example : ndAlong (fun t : Rat => t) 0 [50, 20] 3 = ndAlong (fun t : Rat => t) 0 [7, 90, 20] 3 :=
  path_independent_pair _ _ _ _ _ (by intro x hx; simp at hx; rcases hx with rfl | rfl | rfl <;> norm_num)
    (by intro x hx; simp at hx; rcases hx with rfl | rfl | rfl | rfl <;> norm_num) rfl

/-- `runPath` (the `setTemperature` fold on the component state) applies `ndAlong` to every density and ends
at the end temperature -/
theorem runPath_spec {T : Type} (pct : T → Rat) (s : TState T) (path : List T) :
    (runPath pct s path).temp = endOf s.temp path ∧
    (runPath pct s path).nd = s.nd.map (ndAlong pct s.temp path) := by
  induction path generalizing s with
  | nil => simp [runPath, endOf, ndAlong]
  | cons t' rest ih =>
    have := ih (setTemperature pct s t')
    simp only [runPath, List.foldl_cons] at this ⊢
    constructor
    · simpa [setTemperature, endOf] using this.1
    · rw [this.2]
      simp [setTemperature, stepND, ndAlong, List.map_map, Function.comp_def]

/-! ### area homogeneity: one lemma per shape class, in any field, for any values of π and √3.
Scaling exactly the class's `THERMAL_EXPANSION_DIMS` by `f` scales the area by `f²`. -/

section Homog
variable {K : Type} [Field K]

theorem area_homogeneous_Circle (pi od id mult f : K) :
    areaCircle pi (f * od) (f * id) mult = f ^ 2 * areaCircle pi od id mult := by
  unfold areaCircle; ring

theorem area_homogeneous_Hexagon (sqrt3 op ip mult f : K) :
    areaHexagon sqrt3 (f * op) (f * ip) mult = f ^ 2 * areaHexagon sqrt3 op ip mult := by
  unfold areaHexagon; ring

theorem area_homogeneous_Rectangle (lo wo li wi mult f : K) :
    areaRectangle (f * lo) (f * wo) (f * li) (f * wi) mult = f ^ 2 * areaRectangle lo wo li wi mult := by
  unfold areaRectangle; ring

theorem area_homogeneous_SolidRectangle (lo wo mult f : K) :
    areaSolidRectangle (f * lo) (f * wo) mult = f ^ 2 * areaSolidRectangle lo wo mult := by
  unfold areaSolidRectangle; ring

theorem area_homogeneous_Square (wo wi mult f : K) :
    areaSquare (f * wo) (f * wi) mult = f ^ 2 * areaSquare wo wi mult := by
  unfold areaSquare; ring

theorem area_homogeneous_Triangle (base height mult f : K) :
    areaTriangle (f * base) (f * height) mult = f ^ 2 * areaTriangle base height mult := by
  unfold areaTriangle; ring

theorem area_homogeneous_HoledHexagon (pi sqrt3 op holeOD nHoles mult f : K) :
    areaHoledHexagon pi sqrt3 (f * op) (f * holeOD) nHoles mult
      = f ^ 2 * areaHoledHexagon pi sqrt3 op holeOD nHoles mult := by
  unfold areaHoledHexagon; ring

theorem area_homogeneous_HexHoledCircle (pi sqrt3 od holeOP mult f : K) :
    areaHexHoledCircle pi sqrt3 (f * od) (f * holeOP) mult
      = f ^ 2 * areaHexHoledCircle pi sqrt3 od holeOP mult := by
  unfold areaHexHoledCircle; ring

theorem area_homogeneous_HoledRectangle (pi lo wo holeOD mult f : K) :
    areaHoledRectangle pi (f * lo) (f * wo) (f * holeOD) mult
      = f ^ 2 * areaHoledRectangle pi lo wo holeOD mult := by
  unfold areaHoledRectangle; ring

theorem area_homogeneous_HoledSquare (pi wo holeOD mult f : K) :
    areaHoledSquare pi (f * wo) (f * holeOD) mult = f ^ 2 * areaHoledSquare pi wo holeOD mult := by
  unfold areaHoledSquare; ring

/-- Helix: `od, id, axialPitch, helixDiameter` all scale; the square root scales with them
(`helixRoot_scales` below), so the helix factor `root / c` is unchanged (needs `f ≠ 0`). -/
theorem area_homogeneous_Helix (pi od id ap mult root f : K) (hf : f ≠ 0) :
    areaHelix pi (f * od) (f * id) (f * ap) mult (f * root) = f ^ 2 * areaHelix pi od id ap mult root := by
  unfold areaHelix helixC
  by_cases hpi : pi = 0
  · subst hpi; simp
  by_cases hap : ap = 0
  · subst hap; simp
  field_simp

theorem area_homogeneous_Unshaped (factor coldArea f : K) :
    areaUnshaped (f * factor) coldArea = f ^ 2 * areaUnshaped factor coldArea := by
  unfold areaUnshaped; ring

/-- the radicand of the helix factor is homogeneous of degree 2 in `(axialPitch, helixDiameter)` -/
theorem helixRadicand_scales (pi ap hd f : K) :
    helixRadicand pi (f * ap) (f * hd) = f ^ 2 * helixRadicand pi ap hd := by
  unfold helixRadicand helixC
  by_cases hpi : pi = 0
  · subst hpi; simp; ring
  field_simp

end Homog

/-- the square root in the helix factor scales with the dimensions: if `root` is the non-negative root for
`(ap, hd)` then `f * root` is THE non-negative root for `(f ap, f hd)` (f > 0). -/
theorem helixRoot_scales (pi ap hd f root r' : Rat) (hf : 0 < f) (hr0 : 0 ≤ root)
    (hroot : root * root = helixRadicand pi ap hd)
    (hr'0 : 0 ≤ r') (hr' : r' * r' = helixRadicand pi (f * ap) (f * hd)) : r' = f * root := by
  rw [helixRadicand_scales, ← hroot] at hr'
  have h1 : (r' - f * root) * (r' + f * root) = 0 := by ring_nf; ring_nf at hr'; linarith
  rcases mul_eq_zero.mp h1 with h | h
  · linarith
  · have hfr : 0 ≤ f * root := mul_nonneg hf.le hr0
    have : r' = 0 ∧ f * root = 0 := by constructor <;> linarith
    linarith [this.1, this.2]

/-- **every shape class**: reading the dimensions hot (each of the class's expanding dimensions times `f`,
all other dimensions — `mult`, `nHoles` — unchanged) multiplies the area by `f²`.
This is where a wrong `THERMAL_EXPANSION_DIMS` entry makes the proof fail. -/
theorem area_homogeneous (s : Shape) (pi sqrt3 root f : Rat) (hf : f ≠ 0) (d : String → Rat) :
    s.area pi sqrt3 (f * root) (scaleDims s.expDims f d) = f ^ 2 * s.area pi sqrt3 root d := by
  cases s
  case Helix =>
    simp only [Shape.area, Shape.expDims, scaleDims]
    simpa using area_homogeneous_Helix pi (d "od") (d "id") (d "axialPitch") (d "mult") root f hf
  all_goals
    simp only [Shape.area, Shape.expDims, scaleDims]
    first
      | simpa using area_homogeneous_Circle pi (d "od") (d "id") (d "mult") f
      | simpa using area_homogeneous_Hexagon sqrt3 (d "op") (d "ip") (d "mult") f
      | simpa using area_homogeneous_Rectangle (d "lengthOuter") (d "widthOuter") (d "lengthInner") (d "widthInner") (d "mult") f
      | simpa using area_homogeneous_SolidRectangle (d "lengthOuter") (d "widthOuter") (d "mult") f
      | simpa using area_homogeneous_Square (d "widthOuter") (d "widthInner") (d "mult") f
      | simpa using area_homogeneous_Triangle (d "base") (d "height") (d "mult") f
      | simpa using area_homogeneous_HoledHexagon pi sqrt3 (d "op") (d "holeOD") (d "nHoles") (d "mult") f
      | simpa using area_homogeneous_HexHoledCircle pi sqrt3 (d "od") (d "holeOP") (d "mult") f
      | simpa using area_homogeneous_HoledRectangle pi (d "lengthOuter") (d "widthOuter") (d "holeOD") (d "mult") f
      | simpa using area_homogeneous_HoledSquare pi (d "widthOuter") (d "holeOD") (d "mult") f

example : Shape.Circle.area 3 2 0 (scaleDims Shape.Circle.expDims 2 (fun k => if k = "od" then 2 else if k = "id" then 1 else 5))
    = 2 ^ 2 * Shape.Circle.area 3 2 0 (fun k => if k = "od" then 2 else if k = "id" then 1 else 5) :=
  by simpa using area_homogeneous Shape.Circle 3 2 0 2 (by norm_num) _

/-! ### mass per unit height -/

/-- **mass per unit height is conserved**: for every shape class, every material curve positive on the
temperatures visited, every history `t → … → tₙ` of a component whose dimensions were input at `tin`:
(number density) × (area with hot dimensions) is the same at the end as at the start.
`root` is the cold helix root (irrelevant for the other shapes). -/
theorem mass_per_height_conserved {T : Type} (s : Shape) (pct : T → Rat) (tin t : T) (path : List T)
    (pi sqrt3 root : Rat) (d : String → Rat) (n : Rat)
    (hpos : PosOn pct (tin :: t :: path)) :
    ndAlong pct t path n *
        s.area pi sqrt3 (expFactor pct (endOf t path) tin * root)
          (scaleDims s.expDims (expFactor pct (endOf t path) tin) d)
      = n * s.area pi sqrt3 (expFactor pct t tin * root) (scaleDims s.expDims (expFactor pct t tin) d) := by
  have hin : 0 < 100 + pct tin := hpos tin (by simp)
  have ht : 0 < 100 + pct t := hpos t (by simp)
  have hpath : PosOn pct (t :: path) := fun x hx => hpos x (List.mem_cons_of_mem _ hx)
  have hend : 0 < 100 + pct (endOf t path) := by
    have : ∀ (u : T) (l : List T), PosOn pct (u :: l) → 0 < 100 + pct (endOf u l) := by
      intro u l
      induction l generalizing u with
      | nil => intro h; exact h u (by simp)
      | cons a l ihl => intro h; exact ihl a (fun x hx => h x (List.mem_cons_of_mem _ hx))
    exact this t path hpath
  have hfe : expFactor pct (endOf t path) tin ≠ 0 := by
    rw [expFactor_eq_ratio _ _ _ (ne_of_gt hin)]; exact ne_of_gt (div_pos hend hin)
  have hft : expFactor pct t tin ≠ 0 := by
    rw [expFactor_eq_ratio _ _ _ (ne_of_gt hin)]; exact ne_of_gt (div_pos ht hin)
  rw [area_homogeneous s pi sqrt3 root _ hfe d, area_homogeneous s pi sqrt3 root _ hft d,
    path_independent _ _ _ _ hpath, expFactor_eq_ratio _ _ _ (ne_of_gt hin),
    expFactor_eq_ratio _ _ _ (ne_of_gt hin)]
  have h1 := ne_of_gt hin
  have h2 := ne_of_gt ht
  have h3 := ne_of_gt hend
  field_simp

/-- the same for an unshaped component (`area = factor² · coldArea`) -/
theorem mass_per_height_conserved_Unshaped {T : Type} (pct : T → Rat) (tin t : T) (path : List T)
    (coldArea n : Rat) (hpos : PosOn pct (tin :: t :: path)) :
    ndAlong pct t path n * areaUnshaped (expFactor pct (endOf t path) tin) coldArea
      = n * areaUnshaped (expFactor pct t tin) coldArea := by
  have hin : 0 < 100 + pct tin := hpos tin (by simp)
  have ht : 0 < 100 + pct t := hpos t (by simp)
  have hpath : PosOn pct (t :: path) := fun x hx => hpos x (List.mem_cons_of_mem _ hx)
  have hend : 0 < 100 + pct (endOf t path) := by
    have : ∀ (u : T) (l : List T), PosOn pct (u :: l) → 0 < 100 + pct (endOf u l) := by
      intro u l
      induction l generalizing u with
      | nil => intro h; exact h u (by simp)
      | cons a l ihl => intro h; exact ihl a (fun x hx => h x (List.mem_cons_of_mem _ hx))
    exact this t path hpath
  rw [path_independent _ _ _ _ hpath, expFactor_eq_ratio _ _ _ (ne_of_gt hin),
    expFactor_eq_ratio _ _ _ (ne_of_gt hin)]
  unfold areaUnshaped
  have h1 := ne_of_gt hin
  have h2 := ne_of_gt ht
  have h3 := ne_of_gt hend
  field_simp

/-! ### dimensions -/

/-- **an expanding dimension reads cold value × expansion factor; any other dimension reads its stored value** -/
theorem dim_eq_cold_times_factor (sys : List Comp) (fuel i : Nat) (key : String) (c : Comp) (q f : Rat)
    (hc : sys[i]? = some c) (hd : c.dim? key = some (.val q)) (hf : c.factor = some f) :
    getDimension sys (fuel + 1) i key false =
      some (if c.expDims.contains key then f * q else q) ∧
    getDimension sys (fuel + 1) i key true = some q := by
  constructor
  · simp only [getDimension, hc, hd, hf]
    by_cases hq : q = 0
    · subst hq; simp
    · by_cases he : key ∈ c.expDims <;> simp [hq, he]
  · simp [getDimension, hc, hd]

/-- **setting a hot dimension reads back that value** (factor ≠ 0) -/
theorem setDimension_hot_readback (sys : List Comp) (fuel i : Nat) (key : String) (c c' : Comp) (v f : Rat)
    (hf : c.factor = some f) (hf0 : f ≠ 0) (hk : (c.dim? key).isSome)
    (hset : setDimension c key v false = some c') (hc : sys[i]? = some c') :
    getDimension sys (fuel + 1) i key false = some v := by
  have hstored : c' = { c with dims := c.dims.map (fun p =>
      if p.1 = key then (p.1, Dim.val (if c.expDims.contains key then v / f else v)) else p) } := by
    unfold setDimension at hset
    by_cases he : key ∈ c.expDims
    · simp [he, hf] at hset; rw [← hset]; simp [he, hf]
    · simp [he] at hset; rw [← hset]; simp [he]
  have hdim : c'.dim? key = some (.val (if c.expDims.contains key then v / f else v)) := by
    subst hstored
    unfold Comp.dim? at hk ⊢
    simp only []
    generalize c.dims = l at hk ⊢
    induction l with
    | nil => simp at hk
    | cons p l ih =>
      by_cases hp : p.1 = key
      · simp [hp]
      · have : (List.find? (fun p => decide (p.1 = key)) l).isSome := by
          simpa [List.find?, hp] using hk
        simpa [List.find?, hp] using ih (by simpa using this)
  have hfac : c'.factor = some f := by subst hstored; exact hf
  have hexp : c'.expDims = c.expDims := by subst hstored; rfl
  have h := (dim_eq_cold_times_factor sys fuel i key c' _ f hc hdim hfac).1
  rw [h, hexp]
  by_cases he : key ∈ c.expDims
  · simp [he]; field_simp
  · simp [he]

/-- **a linked dimension always equals the linked component's current dimension** — whatever the state
(temperature, stored values, further links) of either component -/
theorem linked_dim_follows (sys : List Comp) (fuel i j : Nat) (key k : String) (c : Comp) (cold : Bool)
    (hc : sys[i]? = some c) (hd : c.dim? key = some (.link j k)) :
    getDimension sys (fuel + 1) i key cold = getDimension sys fuel j k cold := by
  simp [getDimension, hc, hd]

/-- **a hot value set through a retained link reads back on the linking component**, whatever the two
components' materials and temperatures (the value lands on the link target, divided by the TARGET's factor) -/
theorem setDimension_retainLink_readback (sys sys' : List Comp) (fuel i j : Nat) (key k : String)
    (c t : Comp) (v f : Rat) (hij : i ≠ j)
    (hc : sys[i]? = some c) (hd : c.dim? key = some (.link j k))
    (ht : sys[j]? = some t) (hf : t.factor = some f) (hf0 : f ≠ 0) (hk : (t.dim? k).isSome)
    (hset : setDimensionAt sys i key v false true = some sys') :
    getDimension sys' (fuel + 2) i key false = some v := by
  unfold setDimensionAt at hset
  simp only [hc, hd, ht] at hset
  cases hst : setDimension t k v false with
  | none => simp [hst] at hset
  | some t' =>
    simp only [hst, Option.map_some, Option.some.injEq] at hset
    subst hset
    have hjlt : j < sys.length := by
      rcases List.getElem?_eq_some_iff.mp ht with ⟨h, _⟩; exact h
    have hci : (sys.set j t')[i]? = some c := by
      rw [List.getElem?_set_ne (Ne.symm hij)]; exact hc
    have hcj : (sys.set j t')[j]? = some t' := by
      rw [List.getElem?_set_self hjlt]
    rw [linked_dim_follows (sys.set j t') (fuel + 1) i j key k c false hci hd]
    exact setDimension_hot_readback (sys.set j t') fuel j k t t' v f hf hf0 hk hst hcj

/-- **fluids and custom materials keep their dimensions**: their expansion factor is 1 at every pair of
temperatures, and a dimension read hot equals the cold value -/
theorem fluid_dims_fixed {T : Type} (pct : T → Rat) (Tc T0 : T) (same : Bool)
    (sys : List Comp) (fuel i : Nat) (key : String) (c : Comp) (q : Rat)
    (hc : sys[i]? = some c) (hd : c.dim? key = some (.val q))
    (hfac : c.factor = thermalExpansionFactor .fluid pct Tc T0 same) :
    thermalExpansionFactor .fluid pct Tc T0 same = some 1 ∧
    getDimension sys (fuel + 1) i key false = getDimension sys (fuel + 1) i key true := by
  refine ⟨rfl, ?_⟩
  have hf : c.factor = some 1 := hfac
  obtain ⟨h1, h2⟩ := dim_eq_cold_times_factor sys fuel i key c q 1 hc hd hf
  rw [h1, h2]; simp

/-- for a solid the factor the component reports is the telescoping `expFactor` (when it does not raise) -/
theorem solid_factor_eq {T : Type} (pct : T → Rat) (Tc T0 : T) (same : Bool) (f : Rat)
    (h : thermalExpansionFactor .solid pct Tc T0 same = some f) : f = expFactor pct Tc T0 := by
  unfold thermalExpansionFactor at h
  simp only [] at h
  split at h
  · cases h
  · exact (Option.some.inj h).symm

/-! ### `getDimension(key, Tc=T)` and the derived (left-over) shape -/

private theorem dim_atTemperature (fs : List (Option Rat)) (sys : List Comp) (i : Nat) (c : Comp)
    (h : (atTemperature fs sys)[i]? = some c) : ∃ c0, sys[i]? = some c0 ∧ c.dims = c0.dims := by
  unfold atTemperature at h
  rw [List.getElem?_map] at h
  cases hz : (sys.zip fs)[i]? with
  | none => rw [hz] at h; cases h
  | some p =>
    rw [hz] at h
    simp only [Option.map_some, Option.some.injEq] at h
    rw [List.getElem?_zip_eq_some] at hz
    exact ⟨p.1, hz.1, by rw [← h]⟩

/-- **a linked dimension read at a temperature `T` equals the link target's dimension read at the same `T`**
(`Tc` is handed down the link chain) -/
theorem linked_dim_follows_Tc (sys : List Comp) (fs : List (Option Rat)) (fuel i j : Nat) (key k : String)
    (c : Comp) (hc : (atTemperature fs sys)[i]? = some c) (hd : c.dim? key = some (.link j k)) :
    getDimensionTc sys fs (fuel + 1) i key = getDimensionTc sys fs fuel j k :=
  linked_dim_follows (atTemperature fs sys) fuel i j key k c false hc hd

private theorem foldr_add_append (l1 l2 : List Rat) :
    (l1 ++ l2).foldr (· + ·) 0 = l1.foldr (· + ·) 0 + l2.foldr (· + ·) 0 := by
  induction l1 with
  | nil => simp
  | cons a l ih => simp only [List.cons_append, List.foldr_cons, ih]; ring

/-- **the component areas of a block with a derived shape sum to the block's area** — at every condition -/
theorem derived_closes (A : Rat) (as : List Rat) : derivedArea A as + as.foldr (· + ·) 0 = A := by
  unfold derivedArea; ring

/-- **the derived area follows its neighbours**: a sibling growing by `δ` takes `δ` from the derived shape -/
theorem derived_follows (A δ a : Rat) (pre post : List Rat) :
    derivedArea A (pre ++ (a + δ) :: post) = derivedArea A (pre ++ a :: post) - δ := by
  unfold derivedArea
  rw [foldr_add_append, foldr_add_append]; simp only [List.foldr_cons]; ring

/-- hence the mass per unit height of a derived (fluid) component is NOT conserved when a neighbour expands: its
number density `n` is untouched by the neighbour's `setTemperature`, its area loses `δ`.  ("Fluids keep their
dimensions" is about a fluid's own stored dimensions and its own temperature — a derived shape stores none.) -/
theorem derived_mass_per_height_changes (A δ a n : Rat) (pre post : List Rat) :
    n * derivedArea A (pre ++ (a + δ) :: post) = n * derivedArea A (pre ++ a :: post) - n * δ := by
  rw [derived_follows]; ring

example : (2 : Rat) * derivedArea 10 ([3] ++ (4 + 1) :: []) ≠ 2 * derivedArea 10 ([3] ++ 4 :: []) := by
  rw [derived_mass_per_height_changes]; norm_num [derivedArea]

/-! ### the component as a state machine with its caches (`p.volume`, `derivedMustUpdate`):
any history of queries, temperature changes, material swaps and dimension edits -/

section MachineProps
variable {T : Type}

/-- the volume cache, when filled, holds area × height of the CURRENT state -/
def Coherent (e : Env T) (s : CState T) : Prop :=
  ∀ v, s.vol = some v → ∃ h a, e.height = some h ∧ s.areaAt e s.temp false = some a ∧ v = a * h

theorem coherent_of_empty (e : Env T) (s : CState T) (h : s.vol = none) : Coherent e s := by
  intro v hv; rw [h] at hv; cases hv

theorem coherent_forget (e : Env T) (s : CState T) : Coherent e s.forget :=
  coherent_of_empty e _ rfl

private theorem getVolume_coherent (e : Env T) (s : CState T) (h : Coherent e s) :
    Coherent e (s.getVolume e).1 := by
  unfold CState.getVolume
  cases hv : s.vol with
  | some v => simpa [hv] using h
  | none =>
    cases hh : e.height with
    | none => simpa [hv, hh] using h
    | some ht =>
      cases ha : s.areaAt e s.temp false with
      | none => simpa [hv, hh, ha] using h
      | some a =>
        intro v hv'
        refine ⟨ht, a, hh, ?_, ?_⟩
        · exact ha
        · simp at hv'; exact hv'.symm

/-- **the cache invariant is kept by every public call** -/
theorem step_coherent (e : Env T) (s : CState T) (op : Op T) (h : Coherent e s) :
    Coherent e (step e s op).1 := by
  cases op with
  | setTemp t => exact coherent_of_empty e _ rfl
  | setMat m => exact coherent_of_empty e _ rfl
  | setDim key v cold =>
    unfold step
    simp only []
    split
    · exact h
    · exact coherent_of_empty e _ rfl
  | qVolume => exact getVolume_coherent e s h
  | qMass => exact getVolume_coherent e s h
  | setND nd => exact h
  | qFactor => exact h
  | qDim k c => exact h
  | qDimTc k t => exact h
  | qArea c => exact h
  | qAreaTc t => exact h
  | qND => exact h

/-- hence after ANY history that starts with empty caches -/
theorem run_coherent (e : Env T) (s : CState T) (ops : List (Op T)) (h : Coherent e s) :
    Coherent e (run e s ops).1 := by
  induction ops generalizing s with
  | nil => exact h
  | cons op rest ih => exact ih _ (step_coherent e s op h)

private theorem getVolume_forget (e : Env T) (s : CState T) (h : Coherent e s) :
    (s.getVolume e).2 = (s.forget.getVolume e).2 ∧ (s.getVolume e).1.forget = (s.forget.getVolume e).1.forget := by
  unfold CState.getVolume
  cases hv : s.vol with
  | none =>
    have : s.forget.vol = none := rfl
    have ha : s.forget.areaAt e s.forget.temp false = s.areaAt e s.temp false := rfl
    simp only [this, ha]
    cases e.height <;> cases s.areaAt e s.temp false <;> simp [CState.forget]
  | some v =>
    obtain ⟨ht, a, hh, ha, hva⟩ := h v hv
    have h0 : s.forget.vol = none := rfl
    have ha' : s.forget.areaAt e s.forget.temp false = some a := ha
    simp only [h0, hh, ha', hva]
    simp [CState.forget]

/-- **a call answers the same with warm caches as with all caches dropped**, and leaves the same state behind
(up to caches) -/
theorem step_forget (e : Env T) (s : CState T) (op : Op T) (h : Coherent e s) :
    (step e s op).2 = (step e s.forget op).2 ∧ (step e s op).1.forget = (step e s.forget op).1.forget := by
  cases op with
  | setTemp t => exact ⟨rfl, rfl⟩
  | setMat m => exact ⟨rfl, rfl⟩
  | setDim key v cold =>
    have hf : s.forget.factorAt e s.forget.temp = s.factorAt e s.temp := rfl
    have hs : s.forget.shape = s.shape := rfl
    unfold step
    simp only [hf, hs]
    split <;> exact ⟨rfl, rfl⟩
  | qVolume =>
    obtain ⟨h1, h2⟩ := getVolume_forget e s h
    exact ⟨by simp only [step, h1], by simp only [step, h2]⟩
  | qMass =>
    obtain ⟨h1, h2⟩ := getVolume_forget e s h
    have hn : s.forget.nd = s.nd := rfl
    exact ⟨by simp only [step, h1, hn], by simp only [step, h2]⟩
  | setND nd => exact ⟨rfl, rfl⟩
  | qFactor => exact ⟨rfl, rfl⟩
  | qDim k c => exact ⟨rfl, rfl⟩
  | qDimTc k t => exact ⟨rfl, rfl⟩
  | qArea c => exact ⟨rfl, rfl⟩
  | qAreaTc t => exact ⟨rfl, rfl⟩
  | qND => exact ⟨rfl, rfl⟩

private theorem forget_forget (s : CState T) : s.forget.forget = s.forget := rfl

private theorem runPure_forget (e : Env T) (s : CState T) (ops : List (Op T)) :
    runPure e s.forget ops = runPure e s ops := by
  cases ops with
  | nil => rfl
  | cons op rest => simp only [runPure, forget_forget]

/-- **caches are transparent**: whatever the history (queries, temperature changes, material swaps, dimension
edits, in any order), every call returns what it returns on a machine that keeps no cache at all, and the end
states agree up to caches.  In particular nothing about a previous material or temperature is remembered. -/
theorem run_eq_runPure (e : Env T) (s : CState T) (ops : List (Op T)) (h : Coherent e s) :
    (run e s ops).2 = (runPure e s ops).2 ∧ (run e s ops).1.forget = (runPure e s ops).1 := by
  induction ops generalizing s with
  | nil => exact ⟨rfl, rfl⟩
  | cons op rest ih =>
    obtain ⟨h1, h2⟩ := step_forget e s op h
    obtain ⟨i1, i2⟩ := ih (step e s op).1 (step_coherent e s op h)
    have hp : runPure e (step e s op).1 rest = runPure e (step e s.forget op).1.forget rest := by
      rw [← runPure_forget e (step e s op).1 rest, h2]
    simp only [run, runPure]
    rw [i1, i2, hp, h1]
    exact ⟨rfl, rfl⟩

/-- the component a constructor would build now from the current cold dimensions, temperatures and number
densities with material `m` -/
def fresh (m : Mat T) (s : CState T) : CState T := { s.forget with mat := m }

/-- **a material swap forgets the old material**: after `setProperties(m)` — whatever was queried, cached or set
before — every later history returns what it returns on a component freshly given material `m`. -/
theorem swap_forgets (e : Env T) (s : CState T) (m : Mat T) (post : List (Op T)) (h : Coherent e s) :
    (run e (step e s (.setMat m)).1 post).2 = (run e (fresh m s) post).2 := by
  have hc1 : Coherent e (step e s (.setMat m)).1 := step_coherent e s _ h
  have hc2 : Coherent e (fresh m s) := coherent_of_empty e _ rfl
  rw [(run_eq_runPure e _ post hc1).1, (run_eq_runPure e _ post hc2).1,
    ← runPure_forget e (step e s (.setMat m)).1 post, ← runPure_forget e (fresh m s) post]
  rfl

/-- after a swap the expansion factor is the CURRENT material's: 1 for a fluid/custom material (never raising),
`thermalExpansionFactor .solid` of the new curve for a solid -/
theorem swap_factor (e : Env T) (s : CState T) (m : Mat T) :
    (step e (step e s (.setMat m)).1 .qFactor).2 =
      (thermalExpansionFactor m.kind m.pct s.temp s.tin (e.same s.temp s.tin)).map (fun x => [x]) := rfl

theorem swap_to_fluid_dims_fixed (e : Env T) (s : CState T) (m : Mat T) (hm : m.kind = .fluid) (key : String) :
    (step e (step e s (.setMat m)).1 (.qDim key false)).2 = (step e s (.qDim key true)).2 := by
  simp only [step, CState.dimAt, CState.clearLinkedCache, CState.factorAt, hm, thermalExpansionFactor]
  cases coldOf s.cold key with
  | none => rfl
  | some q => by_cases hq : q = 0 <;> by_cases hk : key ∈ expDimsOf s.shape <;> simp [hq, hk]

/-! #### every read path gives the same mass per unit height -/

/-- **`getVolume()` is area × height of the current state, warm cache or not** -/
theorem volume_eq_area_height (e : Env T) (s : CState T) (h : Coherent e s) (ht a : Rat)
    (hh : e.height = some ht) (ha : s.areaAt e s.temp false = some a) :
    (step e s .qVolume).2 = some [a * ht] := by
  simp only [step, CState.getVolume]
  cases hv : s.vol with
  | none => simp [hh, ha]
  | some v =>
    obtain ⟨ht', a', hh', ha', hva⟩ := h v hv
    rw [hh] at hh'; rw [ha] at ha'
    cases hh'; cases ha'
    simp [hva]

/-- **`getMass()` is (Σ Nᵢ wᵢ) × area × height / symmetry factor of the current state, warm cache or not** -/
theorem mass_eq_density_area_height (e : Env T) (s : CState T) (h : Coherent e s) (ht a : Rat)
    (hh : e.height = some ht) (ha : s.areaAt e s.temp false = some a) :
    (step e s .qMass).2 = some [massDens s.nd e.w * (a * ht / e.sym)] := by
  simp only [step, CState.getVolume]
  cases hv : s.vol with
  | none => simp [hh, ha]
  | some v =>
    obtain ⟨ht', a', hh', ha', hva⟩ := h v hv
    rw [hh] at hh'; rw [ha] at ha'
    cases hh'; cases ha'
    simp [hva]

/-! #### histories of queries and temperature changes: the end state depends on the final temperature only -/

/-- a history of queries and temperature changes only -/
def ThermalOnly : List (Op T) → Prop
  | [] => True
  | .setMat _ :: _ => False
  | .setDim _ _ _ :: _ => False
  | .setND _ :: _ => False
  | _ :: rest => ThermalOnly rest

private theorem getVolume_ess (e : Env T) (s : CState T) :
    (s.getVolume e).1.mat = s.mat ∧ (s.getVolume e).1.tin = s.tin ∧ (s.getVolume e).1.temp = s.temp ∧
    (s.getVolume e).1.nd = s.nd ∧ (s.getVolume e).1.shape = s.shape ∧ (s.getVolume e).1.cold = s.cold := by
  unfold CState.getVolume
  cases s.vol <;> cases e.height <;> cases s.areaAt e s.temp false <;> simp

/-- **whatever is queried in between**, a solid (or custom) material's component ends with its material, input
temperature, shape and cold dimensions untouched, at the last temperature set, with every number density taken
along the temperature path only -/
theorem run_thermal (e : Env T) (s : CState T) (ops : List (Op T)) (hops : ThermalOnly ops)
    (hl : s.mat.liquid = false) :
    (run e s ops).1.mat = s.mat ∧ (run e s ops).1.tin = s.tin ∧ (run e s ops).1.shape = s.shape ∧
    (run e s ops).1.cold = s.cold ∧ (run e s ops).1.temp = endOf s.temp (Op.temps ops) ∧
    (run e s ops).1.nd = s.nd.map (ndAlong s.mat.pct s.temp (Op.temps ops)) := by
  induction ops generalizing s with
  | nil => simp [run, Op.temps, endOf, ndAlong]
  | cons op rest ih =>
    cases op with
    | setMat m => exact absurd hops (by simp [ThermalOnly])
    | setDim k v c => exact absurd hops (by simp [ThermalOnly])
    | setND nd => exact absurd hops (by simp [ThermalOnly])
    | setTemp t =>
      have hr : ThermalOnly rest := by simpa [ThermalOnly] using hops
      have := ih (step e s (.setTemp t)).1 hr (by simpa [step, CState.clearLinkedCache] using hl)
      simp only [run]
      obtain ⟨a, b, c, d, f, g⟩ := this
      refine ⟨by rw [a]; rfl, by rw [b]; rfl, by rw [c]; rfl, by rw [d]; rfl, ?_, ?_⟩
      · rw [f]; rfl
      · rw [g]
        simp [step, CState.clearLinkedCache, hl, Op.temps, ndAlong, List.map_map, Function.comp_def]
    | qVolume =>
      have hr : ThermalOnly rest := by simpa [ThermalOnly] using hops
      obtain ⟨m1, m2, m3, m4, m5, m6⟩ := getVolume_ess e s
      have := ih (step e s .qVolume).1 hr (by simpa [step, m1] using hl)
      simp only [run]
      simpa [step, m1, m2, m3, m4, m5, m6, Op.temps] using this
    | qMass =>
      have hr : ThermalOnly rest := by simpa [ThermalOnly] using hops
      obtain ⟨m1, m2, m3, m4, m5, m6⟩ := getVolume_ess e s
      have := ih (step e s .qMass).1 hr (by simpa [step, m1] using hl)
      simp only [run]
      simpa [step, m1, m2, m3, m4, m5, m6, Op.temps] using this
    | qFactor => simpa [run, step, Op.temps, ThermalOnly] using ih s (by simpa [ThermalOnly] using hops) hl
    | qDim k c => simpa [run, step, Op.temps, ThermalOnly] using ih s (by simpa [ThermalOnly] using hops) hl
    | qDimTc k t => simpa [run, step, Op.temps, ThermalOnly] using ih s (by simpa [ThermalOnly] using hops) hl
    | qArea c => simpa [run, step, Op.temps, ThermalOnly] using ih s (by simpa [ThermalOnly] using hops) hl
    | qAreaTc t => simpa [run, step, Op.temps, ThermalOnly] using ih s (by simpa [ThermalOnly] using hops) hl
    | qND => simpa [run, step, Op.temps, ThermalOnly] using ih s (by simpa [ThermalOnly] using hops) hl

/-- **two histories of queries and temperature changes that end at the same temperature end in the same state**
(material, dimensions, number densities), whatever was queried and cached on the way -/
theorem end_state_final_temperature (e : Env T) (s : CState T) (ops1 ops2 : List (Op T))
    (h1 : ThermalOnly ops1) (h2 : ThermalOnly ops2) (hl : s.mat.liquid = false)
    (p1 : PosOn s.mat.pct (s.temp :: Op.temps ops1)) (p2 : PosOn s.mat.pct (s.temp :: Op.temps ops2))
    (hend : endOf s.temp (Op.temps ops1) = endOf s.temp (Op.temps ops2)) :
    (run e s ops1).1.forget = (run e s ops2).1.forget := by
  obtain ⟨a1, b1, c1, d1, f1, g1⟩ := run_thermal e s ops1 h1 hl
  obtain ⟨a2, b2, c2, d2, f2, g2⟩ := run_thermal e s ops2 h2 hl
  have hnd : (run e s ops1).1.nd = (run e s ops2).1.nd := by
    rw [g1, g2]
    apply List.map_congr_left
    intro n _
    exact path_independent_pair _ _ _ _ _ p1 p2 hend
  have ht : (run e s ops1).1.temp = (run e s ops2).1.temp := by rw [f1, f2, hend]
  cases hx : (run e s ops1).1
  cases hy : (run e s ops2).1
  simp only [hx, hy] at a1 b1 c1 d1 a2 b2 c2 d2 hnd ht
  simp only [CState.forget]
  subst a1 b1 c1 d1 hnd ht
  simp [a2, b2, c2, d2]

/-- **mass per unit height is conserved along any history of queries and temperature changes**, for every shape
class and for area-defined (unshaped) components, through the area read path; `volume_eq_area_height` and
`mass_eq_density_area_height` carry it to `getVolume()` and `getMass()`. -/
theorem history_mass_per_height (e : Env T) (s : CState T) (ops : List (Op T)) (hops : ThermalOnly ops)
    (hl : s.mat.liquid = false) (hk : s.mat.kind = .solid)
    (hpos : PosOn s.mat.pct (s.tin :: s.temp :: Op.temps ops)) (a a' : Rat)
    (ha : s.areaAt e s.temp false = some a)
    (ha' : (run e s ops).1.areaAt e (run e s ops).1.temp false = some a') (n : Rat) :
    ndAlong s.mat.pct s.temp (Op.temps ops) n * a' = n * a := by
  obtain ⟨a1, b1, c1, d1, f1, _⟩ := run_thermal e s ops hops hl
  unfold CState.areaAt at ha ha'
  rw [c1, d1, f1] at ha'
  simp only [CState.factorAt, a1, b1, hk] at ha ha'
  cases hs : s.shape with
  | none =>
    simp only [hs] at ha ha'
    cases hc : coldOf s.cold "area" with
    | none => simp [hc] at ha
    | some ar =>
      simp only [hc, Bool.false_eq_true, if_false, Option.map_eq_some_iff] at ha ha'
      obtain ⟨f, hf, rfl⟩ := ha
      obtain ⟨f', hf', rfl⟩ := ha'
      rw [solid_factor_eq _ _ _ _ _ hf, solid_factor_eq _ _ _ _ _ hf']
      exact mass_per_height_conserved_Unshaped s.mat.pct s.tin s.temp (Op.temps ops) ar n hpos
  | some sh =>
    simp only [hs, Bool.false_eq_true, if_false, Option.map_eq_some_iff] at ha ha'
    obtain ⟨f, hf, rfl⟩ := ha
    obtain ⟨f', hf', rfl⟩ := ha'
    rw [solid_factor_eq _ _ _ _ _ hf, solid_factor_eq _ _ _ _ _ hf']
    exact mass_per_height_conserved sh s.mat.pct s.tin s.temp (Op.temps ops) e.pi e.sqrt3 _ _ n hpos

/-- **a hot value set on an expanding dimension reads back**, with the CURRENT material's factor, in the state
machine (factor ≠ 0; the dimension exists) -/
theorem machine_hot_set_readback (e : Env T) (s : CState T) (key : String) (v f q0 : Rat)
    (hf : s.factorAt e s.temp = some f) (hf0 : f ≠ 0) (hk : coldOf s.cold key = some q0) :
    (step e (step e s (.setDim key v false)).1 (.qDim key false)).2 = some [v] := by
  have hcold : ∀ q, coldOf (s.cold.map (fun p => if p.1 = key then (p.1, q) else p)) key = some q := by
    intro q
    unfold coldOf at hk ⊢
    generalize s.cold = l at hk
    induction l with
    | nil => simp at hk
    | cons p l ih =>
      by_cases hp : p.1 = key
      · simp [hp]
      · have : (List.find? (fun p => decide (p.1 = key)) l).map (·.2) = some q0 := by
          simpa [List.find?, hp] using hk
        simpa [List.find?, hp] using ih this
  have hstep : (step e s (.setDim key v false)).1 =
      ({ s with cold := s.cold.map (fun p =>
          if p.1 = key then (p.1, if key ∈ expDimsOf s.shape then v / f else v) else p) } : CState T).clearLinkedCache e := by
    by_cases he : key ∈ expDimsOf s.shape <;> simp [step, he, hf]
  rw [hstep]
  simp only [CState.factorAt] at hf
  simp only [step, CState.dimAt, CState.clearLinkedCache, hcold, CState.factorAt, hf]
  by_cases he : key ∈ expDimsOf s.shape
  · by_cases hv : v / f = 0
    · have : v = 0 := by
        rcases div_eq_zero_iff.mp hv with h | h
        · exact h
        · exact absurd h hf0
      simp [he, this]
    · simp only [he, if_true, hv, false_or, Bool.false_eq_true, List.contains_iff_mem, not_true_eq_false, if_false,
        Option.map_some]
      congr 2
      field_simp
  · simp [he]

end MachineProps

/-! non-vacuity of the state-machine theorems: a Circle in a block of height 2, `pct t = t`, heated 10 → 20 → 5 with
volume and mass queries in between -/
private def exEnv : Env Rat :=
  { same := fun a b => decide (a = b), pi := 3, sqrt3 := 2, sqrtF := fun _ => 0, height := some 2, sym := 1, w := [5] }
private def exMat : Mat Rat := { kind := .solid, liquid := false, pct := fun t => t, rho := fun _ => 0 }
private def exState : CState Rat :=
  { mat := exMat, tin := 0, temp := 10, nd := [7], shape := some .Circle,
    cold := [("od", 2), ("id", 1), ("mult", 3)], vol := none, stale := false }
private def exOps : List (Op Rat) := [.qVolume, .setTemp 20, .qMass, .qArea false, .setTemp 5, .qVolume]

example : (run exEnv exState exOps).2 = (runPure exEnv exState exOps).2 :=
  (run_eq_runPure exEnv exState exOps (coherent_of_empty _ _ rfl)).1

example : ∀ n : Rat, ndAlong exMat.pct 10 [20, 5] n * (9 / 4 * (21 / 20) ^ 2 * 3) = n * (9 / 4 * (11 / 10) ^ 2 * 3) := by
  intro n
  have h := history_mass_per_height exEnv exState exOps (by simp [exOps, ThermalOnly]) rfl rfl
    (by intro x hx; simp [exOps, Op.temps, exState, exMat] at hx; rcases hx with rfl | rfl | rfl | rfl <;>
        simp [exState, exMat] <;> norm_num)
    (9 / 4 * (11 / 10) ^ 2 * 3) (9 / 4 * (21 / 20) ^ 2 * 3) (by decide +kernel) (by decide +kernel) n
  simpa [exOps, Op.temps, exState] using h

example : (step exEnv (step exEnv exState (.setDim "od" 5 false)).1 (.qDim "od" false)).2 = some [5] :=
  machine_hot_set_readback exEnv exState "od" 5 (11 / 10) 2 (by decide +kernel) (by norm_num) (by decide +kernel)

example : (run exEnv (step exEnv exState (.setMat { exMat with kind := .fluid })).1 [.qFactor]).2 = [some [1]] := by
  rw [swap_forgets exEnv exState _ _ (coherent_of_empty _ _ rfl)]; decide +kernel


/-! ### non-vacuity: the hypotheses of the theorems above are satisfiable -/

example := mass_per_height_conserved .Helix (fun t : Rat => t) 0 10 [20, 5] 3 2 1 (fun _ => 1) 7
  (by intro x hx; simp at hx; rcases hx with rfl | rfl | rfl | rfl <;> norm_num)

example := mass_per_height_conserved_Unshaped (fun t : Rat => t / 2) 0 10 [20, 5] 4 7
  (by intro x hx; simp at hx; rcases hx with rfl | rfl | rfl | rfl <;> norm_num)

private def exSys : List Comp :=
  [⟨.solid, some 2, ["od"], [("od", .val 3), ("mult", .val 7)]⟩,
   ⟨.fluid, some 1, ["od"], [("od", .link 0 "od")]⟩]

example : getDimension exSys 1 0 "od" false = some 6 := by
  have h := (dim_eq_cold_times_factor exSys 0 0 "od" _ 3 2 rfl (by simp [Comp.dim?]) rfl).1
  rw [h]; norm_num

example : getDimension exSys 2 1 "od" false = getDimension exSys 1 0 "od" false :=
  linked_dim_follows exSys 1 1 0 "od" "od" _ false rfl (by simp [Comp.dim?])

example : ∃ sys', setDimensionAt exSys 1 "od" 5 false true = some sys' ∧
    getDimension sys' 2 1 "od" false = some 5 := by
  refine ⟨_, rfl, ?_⟩
  exact setDimension_retainLink_readback exSys _ 0 1 0 "od" "od" _ _ 5 2 (by decide) rfl
    (by simp [Comp.dim?]) rfl rfl (by norm_num) (by simp [Comp.dim?]) rfl

/-! ### a block of linked components with caches: `clearLinkedCache`, `derivedMustUpdate` -/

private theorem dim?_mem (c : Comp) (key : String) (d : Dim) (h : c.dim? key = some d) : ∃ p ∈ c.dims, p.2 = d := by
  unfold Comp.dim? at h
  cases hf : c.dims.find? (fun p => p.1 = key) with
  | none => simp [hf] at h
  | some p =>
    simp [hf] at h
    exact ⟨p, List.mem_of_find?_eq_some hf, h⟩

/-- components that do not reach `i` resolve their dimensions identically in two systems that agree off `i` -/
theorem getDimension_unreached (sys sys' : List Comp) (i : Nat) (hsame : ∀ j, j ≠ i → sys'[j]? = sys[j]?) :
    ∀ F j key cold, reaches sys' F j i = false → getDimension sys' F j key cold = getDimension sys F j key cold := by
  intro F
  induction F with
  | zero => intro j key cold _; rfl
  | succ F ih =>
    intro j key cold hr
    unfold reaches at hr
    simp only [Bool.or_eq_false_iff, beq_eq_false_iff_ne] at hr
    obtain ⟨hji, hm⟩ := hr
    simp only [getDimension]
    rw [hsame j hji] at hm ⊢
    cases hc : sys[j]? with
    | none => rfl
    | some c =>
      simp only [hc] at hm ⊢
      cases hd : c.dim? key with
      | none => rfl
      | some d =>
        cases d with
        | val q => rfl
        | link k k' =>
          simp only []
          obtain ⟨p, hp, hp2⟩ := dim?_mem c key _ hd
          have := (List.any_eq_false.mp hm) p hp
          rw [hp2] at this
          simp only [] at this
          exact ih k k' cold (by simpa using this)


section BlockProps
variable {T : Type}

def CohC (e : BEnv T) (comps : List (BComp T)) : Prop :=
  ∀ j c v, comps[j]? = some c → c.vol = some v →
    ∃ a, areaOf e (sysOf e comps) (comps.map (fun c => c.shape)) j = some a ∧ v = a * e.h

def BCoherent (e : BEnv T) (b : BState T) : Prop := CohC e b.comps

private theorem sysOf_clear (e : BEnv T) (comps : List (BComp T)) (P : Nat → BComp T → Prop) [∀ j c, Decidable (P j c)] :
    sysOf e (comps.mapIdx (fun j c => if P j c then { c with vol := none } else c)) = sysOf e comps := by
  unfold sysOf
  apply List.ext_getElem?
  intro j
  simp only [List.getElem?_map, List.getElem?_mapIdx]
  cases comps[j]? with
  | none => rfl
  | some c => simp only [Option.map_some]; split <;> rfl

private theorem shapes_clear (comps : List (BComp T)) (P : Nat → BComp T → Prop) [∀ j c, Decidable (P j c)] :
    (comps.mapIdx (fun j c => if P j c then { c with vol := none } else c)).map (fun c => c.shape)
      = comps.map (fun c => c.shape) := by
  apply List.ext_getElem?
  intro j
  simp only [List.getElem?_map, List.getElem?_mapIdx]
  cases comps[j]? with
  | none => rfl
  | some c => simp only [Option.map_some]; split <;> rfl

theorem sysOf_set_vol (e : BEnv T) (comps : List (BComp T)) (j : Nat) (c : BComp T) (x : Option Rat)
    (hc : comps[j]? = some c) : sysOf e (comps.set j { c with vol := x }) = sysOf e comps := by
  unfold sysOf
  apply List.ext_getElem?
  intro k
  simp only [List.getElem?_map, List.getElem?_set]
  by_cases hk : j = k
  · subst hk
    obtain ⟨hlt, heq⟩ := List.getElem?_eq_some_iff.mp hc
    subst heq
    simp [hlt, BComp.toComp]
  · simp [hk]

theorem shapes_set_vol (comps : List (BComp T)) (j : Nat) (c : BComp T) (x : Option Rat)
    (hc : comps[j]? = some c) :
    (comps.set j { c with vol := x }).map (fun c => c.shape) = comps.map (fun c => c.shape) := by
  apply List.ext_getElem?
  intro k
  simp only [List.getElem?_map, List.getElem?_set]
  by_cases hk : j = k
  · subst hk
    obtain ⟨hlt, heq⟩ := List.getElem?_eq_some_iff.mp hc
    subst heq
    simp [hlt]
  · simp [hk]

/-- `getVolume()` keeps the caches coherent -/
theorem getVolume_bcoherent (e : BEnv T) (b : BState T) (i : Nat) (h : BCoherent e b) :
    BCoherent e (b.getVolume e i).1 := by
  unfold BState.getVolume
  cases hc : b.comps[i]? with
  | none => exact h
  | some c =>
    simp only []
    cases hv : c.vol with
    | some v => exact h
    | none =>
      simp only []
      cases ha : b.area e i with
      | none => exact h
      | some a =>
        simp only []
        intro j c' v hj hv'
        simp only [sysOf_set_vol e b.comps i c _ hc, shapes_set_vol b.comps i c _ hc]
        simp only [List.getElem?_set] at hj
        by_cases hij : i = j
        · subst hij
          obtain ⟨hlt, _⟩ := List.getElem?_eq_some_iff.mp hc
          simp only [hlt, if_true, Option.some.injEq] at hj
          subst hj
          simp only [Option.some.injEq] at hv'
          exact ⟨a, ha, hv'.symm⟩
        · simp only [hij, if_false] at hj
          exact h j c' v hj hv'

private theorem areaOf_congr (e : BEnv T) (sys sys' : List Comp) (shapes : List (Option Shape)) (j : Nat)
    (hj : sys'[j]? = sys[j]?)
    (hd : ∀ k, getDimension sys' (sys'.length + 1) j k false = getDimension sys (sys.length + 1) j k false) :
    areaOf e sys' shapes j = areaOf e sys shapes j := by
  unfold areaOf
  rw [hj]
  simp only [hd]

/-- clearing any set of volume caches keeps coherence, as long as every cache that SURVIVES is current -/
private theorem clear_coh_of (e : BEnv T) (comps : List (BComp T)) (P : Nat → BComp T → Prop) [∀ j c, Decidable (P j c)]
    (h : ∀ j c v, comps[j]? = some c → c.vol = some v → ¬ P j c →
      ∃ a, areaOf e (sysOf e comps) (comps.map (fun c => c.shape)) j = some a ∧ v = a * e.h) :
    CohC e (comps.mapIdx (fun j c => if P j c then { c with vol := none } else c)) := by
  intro j c' v hj hv
  rw [sysOf_clear, shapes_clear]
  simp only [List.getElem?_mapIdx] at hj
  cases hc : comps[j]? with
  | none => simp [hc] at hj
  | some c =>
    simp only [hc, Option.map_some, Option.some.injEq] at hj
    by_cases hp : P j c
    · simp only [hp, if_true] at hj
      subst hj
      simp at hv
    · simp only [hp, if_false] at hj
      subst hj
      exact h j c v hc hv hp

private theorem reaches_self (sys : List Comp) (F i : Nat) : reaches sys (F + 1) i i = true := by
  simp [reaches]

private theorem sysOf_length (e : BEnv T) (comps : List (BComp T)) : (sysOf e comps).length = comps.length := by
  simp [sysOf]

/-- an edit of component `i` followed by a cache sweep of depth `D` keeps every surviving volume cache current,
provided components the sweep does not reach resolve their dimensions as before -/
private theorem edit_bcoherent_gen (e : BEnv T) (b : BState T) (i : Nat) (f : BComp T → BComp T)
    (hf : ∀ c, (f c).shape = c.shape) (D : Nat)
    (hres : ∀ j, reaches (sysOf e (b.modify i f).comps) (D + 1) j i = false → ∀ k,
      getDimension (sysOf e (b.modify i f).comps) ((b.modify i f).comps.length + 1) j k false
        = getDimension (sysOf e b.comps) (b.comps.length + 1) j k false)
    (h : BCoherent e b) :
    CohC e ((b.modify i f).comps.mapIdx (fun j c =>
      if reaches (sysOf e (b.modify i f).comps) (D + 1) j i = true then { c with vol := none } else c)) := by
  apply clear_coh_of
  intro j c v hj hv hp
  simp only [Bool.not_eq_true] at hp
  have hji : j ≠ i := by
    intro heq
    subst heq
    rw [reaches_self] at hp
    cases hp
  have hcomps : ∀ k, k ≠ i → (b.modify i f).comps[k]? = b.comps[k]? := by
    intro k hk
    unfold BState.modify
    cases b.comps[i]? with
    | none => rfl
    | some ci => simp only [List.getElem?_set]; simp [Ne.symm hk]
  have hshapes : (b.modify i f).comps.map (fun c => c.shape) = b.comps.map (fun c => c.shape) := by
    unfold BState.modify
    cases hci : b.comps[i]? with
    | none => rfl
    | some ci =>
      simp only []
      apply List.ext_getElem?
      intro k
      simp only [List.getElem?_map, List.getElem?_set]
      by_cases hk : i = k
      · subst hk
        obtain ⟨hlt, heq⟩ := List.getElem?_eq_some_iff.mp hci
        subst heq
        simp [hlt, hf]
      · simp [hk]
  have hsys : (sysOf e (b.modify i f).comps)[j]? = (sysOf e b.comps)[j]? := by
    simp only [sysOf, List.getElem?_map, hcomps j hji]
  rw [hcomps j hji] at hj
  obtain ⟨a, ha, hva⟩ := h j c v hj hv
  refine ⟨a, ?_, hva⟩
  rw [hshapes, ← ha]
  apply areaOf_congr e _ _ _ j hsys
  intro k
  rw [sysOf_length, sysOf_length]
  exact hres j hp k

private theorem modify_sys_off (e : BEnv T) (b : BState T) (i : Nat) (f : BComp T → BComp T) :
    ∀ k, k ≠ i → (sysOf e (b.modify i f).comps)[k]? = (sysOf e b.comps)[k]? := by
  intro k hk
  unfold BState.modify
  cases b.comps[i]? with
  | none => rfl
  | some ci => simp only [sysOf, List.getElem?_map, List.getElem?_set]; simp [Ne.symm hk]

private theorem modify_length (b : BState T) (i : Nat) (f : BComp T → BComp T) :
    (b.modify i f).comps.length = b.comps.length := by
  unfold BState.modify
  cases b.comps[i]? with
  | none => rfl
  | some ci => simp

/-- **an edit of component `i` followed by the TRANSITIVE cache sweep keeps every surviving volume cache current**
(`setTemperature`, `setProperties`, `setDimension` of the code since fix b30c1b1), whatever the link structure -/
theorem edit_bcoherent_transitive (e : BEnv T) (b : BState T) (i : Nat) (f : BComp T → BComp T)
    (hf : ∀ c, (f c).shape = c.shape) (htr : e.transitive = true) (h : BCoherent e b) :
    BCoherent e ((b.modify i f).clearLinkedCache e i) := by
  unfold BState.clearLinkedCache BCoherent BState.sys
  simp only [htr, if_true]
  apply edit_bcoherent_gen e b i f hf _ _ h
  intro j hp k
  rw [← modify_length b i f]
  exact getDimension_unreached _ _ i (modify_sys_off e b i f) _ j k false hp

/-- no dimension is a link to a LINKED dimension (links are one level deep) -/
def FlatLinks (sys : List Comp) : Prop :=
  ∀ (j : Nat) (c : Comp) (key : String) (k : Nat) (k' : String) (ck : Comp) (k2 : Nat) (k3 : String),
    sys[j]? = some c → c.dim? key = some (Dim.link k k') → sys[k]? = some ck →
    ck.dim? k' ≠ some (Dim.link k2 k3)

private theorem reaches_one (sys : List Comp) (k i : Nat) : reaches sys 1 k i = (k == i) := by
  unfold reaches
  cases sys[k]? with
  | none => simp
  | some c =>
    simp only []
    have hx : ∀ x : Bool, x = false → ((k == i) || x) = (k == i) := by intro x hx; simp [hx]
    apply hx
    apply List.any_eq_false.mpr
    intro p _
    cases p.2 <;> simp [reaches]

/-- with one-level links, a component that neither is `i` nor links directly to `i` resolves its dimensions as
before — at any fuel -/
theorem getDimension_unreached_flat (sys sys' : List Comp) (i : Nat) (hsame : ∀ j, j ≠ i → sys'[j]? = sys[j]?)
    (hflat : FlatLinks sys') (j : Nat) (hr : reaches sys' 2 j i = false) (F : Nat) (key : String) (cold : Bool) :
    getDimension sys' F j key cold = getDimension sys F j key cold := by
  cases F with
  | zero => rfl
  | succ F =>
    unfold reaches at hr
    simp only [Bool.or_eq_false_iff, beq_eq_false_iff_ne] at hr
    obtain ⟨hji, hm⟩ := hr
    simp only [getDimension]
    have hcj := hsame j hji
    cases hc : sys[j]? with
    | none => rw [hcj, hc]
    | some c =>
      rw [hc] at hcj
      rw [hcj] at hm ⊢
      simp only [] at hm ⊢
      cases hd : c.dim? key with
      | none => rfl
      | some d =>
        cases d with
        | val q => rfl
        | link k k' =>
          simp only []
          obtain ⟨p, hp, hp2⟩ := dim?_mem c key _ hd
          have hk := (List.any_eq_false.mp hm) p hp
          rw [hp2] at hk
          simp only [reaches_one] at hk
          have hk : k ≠ i := by simpa using hk
          cases F with
          | zero => rfl
          | succ F =>
            simp only [getDimension]
            have hck := hsame k hk
            cases hc2 : sys[k]? with
            | none => rw [hck, hc2]
            | some ck =>
              rw [hc2] at hck
              rw [hck]
              simp only []
              cases hd2 : ck.dim? k' with
              | none => rfl
              | some d2 =>
                cases d2 with
                | val q => rfl
                | link k2 k3 => exact absurd hd2 (hflat j c key k k' ck k2 k3 hcj hd hck)

/-- **the code before fix b30c1b1** (`clearLinkedCache` reset the DIRECT dependents only): an edit of component `i`
keeps every surviving volume cache current when links are one level deep.  With a link to a linked dimension it did
not — the repaired defect `volume-stale-behind-link-to-link`, stated as `coded_sweep_misses_chain` below. -/
theorem edit_bcoherent_coded_flat (e : BEnv T) (b : BState T) (i : Nat) (f : BComp T → BComp T)
    (hf : ∀ c, (f c).shape = c.shape) (htr : e.transitive = false)
    (hflat : FlatLinks (sysOf e (b.modify i f).comps)) (h : BCoherent e b) :
    BCoherent e ((b.modify i f).clearLinkedCache e i) := by
  unfold BState.clearLinkedCache BCoherent BState.sys
  simp only [htr, Bool.false_eq_true, if_false]
  apply edit_bcoherent_gen e b i f hf 1 _ h
  intro j hp k
  rw [← modify_length b i f]
  exact getDimension_unreached_flat _ _ i (modify_sys_off e b i f) hflat j hp _ k false

/-! the derived shape's reads fill sibling caches only through `getVolume` -/

private theorem foldl_getVolume_bcoherent (e : BEnv T) (l : List Nat) :
    ∀ acc : BState T × Option Rat, BCoherent e acc.1 →
      BCoherent e (l.foldl (fun (acc : BState T × Option Rat) i =>
        ((acc.1.getVolume e i).1,
         match acc.2, (acc.1.getVolume e i).2 with
         | some s, some v => some (s + v)
         | _, _ => none)) acc).1 := by
  induction l with
  | nil => intro acc h; exact h
  | cons i l ih =>
    intro acc h
    simp only [List.foldl_cons]
    exact ih _ (getVolume_bcoherent e acc.1 i h)

theorem sibVolumes_bcoherent (e : BEnv T) (b : BState T) (h : BCoherent e b) : BCoherent e (b.sibVolumes e).1 :=
  foldl_getVolume_bcoherent e _ (b, some 0) h

theorem deriveVolumeAndArea_bcoherent (e : BEnv T) (b : BState T) (h : BCoherent e b) :
    BCoherent e (b.deriveVolumeAndArea e).1 := by
  unfold BState.deriveVolumeAndArea
  have hs := sibVolumes_bcoherent e b h
  cases (b.sibVolumes e).2 with
  | none => exact hs
  | some sv =>
    simp only []
    split
    · exact hs
    · exact hs

theorem derivedArea_bcoherent (e : BEnv T) (b : BState T) (h : BCoherent e b) :
    BCoherent e (b.derivedArea e).1 := by
  unfold BState.derivedArea
  split
  · exact deriveVolumeAndArea_bcoherent e b h
  · exact h

theorem derivedVolume_bcoherent (e : BEnv T) (b : BState T) (h : BCoherent e b) :
    BCoherent e (b.derivedVolume e).1 := by
  unfold BState.derivedVolume
  have h1 : BCoherent e (if b.stale then { b with dVol := none, stale := false } else b) := by
    split
    · exact h
    · exact h
  generalize (if b.stale then ({ b with dVol := none, stale := false } : BState T) else b) = b1 at h1
  simp only []
  cases b1.dVol with
  | some v => exact h1
  | none =>
    simp only []
    have hd := deriveVolumeAndArea_bcoherent e b1 h1
    cases (b1.deriveVolumeAndArea e).2 with
    | none => exact hd
    | some rem => exact hd

/-- a further cache sweep never hurts -/
theorem clearLinkedCache_bcoherent (e : BEnv T) (b : BState T) (i : Nat) (h : BCoherent e b) :
    BCoherent e (b.clearLinkedCache e i) := by
  unfold BState.clearLinkedCache BCoherent
  apply clear_coh_of
  intro j c v hj hv _
  exact h j c v hj hv

/-- **the code as it is (transitive sweep): every public call keeps every volume cache of the block current** —
whatever the link structure (chains of any length) -/
theorem bstep_bcoherent_transitive (e : BEnv T) (b : BState T) (op : BOp T) (htr : e.transitive = true)
    (hlink : op.isSetLink = false ∨ e.linkClears = true)
    (h : BCoherent e b) : BCoherent e (bstep e b op).1 := by
  cases op with
  | setLink i key j k =>
    have hlc : e.linkClears = true := by
      rcases hlink with h0 | h0
      · cases h0
      · exact h0
    simp only [bstep, hlc, if_true]
    split
    · exact h
    · exact edit_bcoherent_transitive e b i _ (fun _ => rfl) htr h
  | setTemp i t =>
    simp only [bstep]
    split
    · exact h
    · exact edit_bcoherent_transitive e b i _ (fun _ => rfl) htr h
  | setMat i m =>
    simp only [bstep]
    split
    · exact h
    · exact edit_bcoherent_transitive e b i _ (fun _ => rfl) htr h
  | setDim i key v cold =>
    simp only [bstep]
    split
    · exact h
    · split
      · exact h
      · exact edit_bcoherent_transitive e b i _ (fun _ => rfl) htr h
  | setDimRetain i key v cold =>
    simp only [bstep]
    split
    · exact h
    · split
      · split
        · exact h
        · split
          · exact h
          · exact clearLinkedCache_bcoherent e _ i (edit_bcoherent_transitive e b _ _ (fun _ => rfl) htr h)
      · split
        · exact h
        · exact edit_bcoherent_transitive e b i _ (fun _ => rfl) htr h
  | qDim i key cold => exact h
  | qArea i => exact h
  | qVolume i => exact getVolume_bcoherent e b i h
  | qMass i =>
    simp only [bstep]
    split
    · exact h
    · exact getVolume_bcoherent e b i h
  | qDerivedArea => exact derivedArea_bcoherent e b h
  | qDerivedVolume => exact derivedVolume_bcoherent e b h

/-- the code before fix b30c1b1: every public call keeps every volume cache of the block current while links are one
level deep -/
theorem bstep_bcoherent_coded_flat (e : BEnv T) (b : BState T) (op : BOp T) (htr : e.transitive = false)
    (hlink : op.isSetLink = false ∨ e.linkClears = true)
    (hflat : FlatLinks ((bstep e b op).1.sys e)) (h : BCoherent e b) : BCoherent e (bstep e b op).1 := by
  have hsys : ∀ (b1 : BState T) (i : Nat), (b1.clearLinkedCache e i).sys e = sysOf e b1.comps := by
    intro b1 i
    unfold BState.clearLinkedCache BState.sys
    exact sysOf_clear e b1.comps _
  cases op with
  | setLink i key j k =>
    have hlc : e.linkClears = true := by
      rcases hlink with h0 | h0
      · cases h0
      · exact h0
    revert hflat
    simp only [bstep, hlc, if_true]
    split
    · intro _; exact h
    · intro hflat
      rw [hsys] at hflat
      exact edit_bcoherent_coded_flat e b i _ (fun _ => rfl) htr hflat h
  | setTemp i t =>
    revert hflat
    simp only [bstep]
    split
    · intro _; exact h
    · intro hflat
      rw [hsys] at hflat
      exact edit_bcoherent_coded_flat e b i _ (fun _ => rfl) htr hflat h
  | setMat i m =>
    revert hflat
    simp only [bstep]
    split
    · intro _; exact h
    · intro hflat
      rw [hsys] at hflat
      exact edit_bcoherent_coded_flat e b i _ (fun _ => rfl) htr hflat h
  | setDim i key v cold =>
    revert hflat
    simp only [bstep]
    split
    · intro _; exact h
    · split
      · intro _; exact h
      · intro hflat
        rw [hsys] at hflat
        exact edit_bcoherent_coded_flat e b i _ (fun _ => rfl) htr hflat h
  | setDimRetain i key v cold =>
    revert hflat
    simp only [bstep]
    split
    · intro _; exact h
    · split
      · split
        · intro _; exact h
        · split
          · intro _; exact h
          · intro hflat
            rw [hsys, BState.clearLinkedCache] at hflat
            simp only [] at hflat
            rw [sysOf_clear] at hflat
            exact clearLinkedCache_bcoherent e _ i (edit_bcoherent_coded_flat e b _ _ (fun _ => rfl) htr hflat h)
      · split
        · intro _; exact h
        · intro hflat
          rw [hsys] at hflat
          exact edit_bcoherent_coded_flat e b i _ (fun _ => rfl) htr hflat h
  | qDim i key cold => exact h
  | qArea i => exact h
  | qVolume i => exact getVolume_bcoherent e b i h
  | qMass i =>
    simp only [bstep]
    split
    · exact h
    · exact getVolume_bcoherent e b i h
  | qDerivedArea => exact derivedArea_bcoherent e b h
  | qDerivedVolume => exact derivedVolume_bcoherent e b h

/-- links stay one level deep along the history -/
def FlatAlong (e : BEnv T) : BState T → List (BOp T) → Prop
  | _, [] => True
  | b, op :: rest => FlatLinks ((bstep e b op).1.sys e) ∧ FlatAlong e (bstep e b op).1 rest

/-- **any history, the code as it is (transitive sweep)**: all volume caches are current at the end -/
theorem brun_bcoherent_transitive (e : BEnv T) (b : BState T) (ops : List (BOp T)) (htr : e.transitive = true)
    (hlink : e.linkClears = true ∨ ∀ op ∈ ops, op.isSetLink = false)
    (h : BCoherent e b) : BCoherent e (brun e b ops).1 := by
  induction ops generalizing b with
  | nil => exact h
  | cons op rest ih =>
    have h1 : op.isSetLink = false ∨ e.linkClears = true := by
      rcases hlink with h0 | h0
      · exact Or.inr h0
      · exact Or.inl (h0 op (by simp))
    have h2 : e.linkClears = true ∨ ∀ op ∈ rest, op.isSetLink = false := by
      rcases hlink with h0 | h0
      · exact Or.inl h0
      · exact Or.inr (fun o ho => h0 o (List.mem_cons_of_mem _ ho))
    exact ih _ h2 (bstep_bcoherent_transitive e b op htr h1 h)

/-- any history, the code before fix b30c1b1, one-level links: all volume caches are current at the end -/
theorem brun_bcoherent_coded_flat (e : BEnv T) (b : BState T) (ops : List (BOp T)) (htr : e.transitive = false)
    (hlink : e.linkClears = true ∨ ∀ op ∈ ops, op.isSetLink = false)
    (hflat : FlatAlong e b ops) (h : BCoherent e b) : BCoherent e (brun e b ops).1 := by
  induction ops generalizing b with
  | nil => exact h
  | cons op rest ih =>
    have h1 : op.isSetLink = false ∨ e.linkClears = true := by
      rcases hlink with h0 | h0
      · exact Or.inr h0
      · exact Or.inl (h0 op (by simp))
    have h2 : e.linkClears = true ∨ ∀ op ∈ rest, op.isSetLink = false := by
      rcases hlink with h0 | h0
      · exact Or.inl h0
      · exact Or.inr (fun o ho => h0 o (List.mem_cons_of_mem _ ho))
    exact ih _ h2 hflat.2 (bstep_bcoherent_coded_flat e b op htr h1 hflat.1 h)

theorem bcoherent_of_empty (e : BEnv T) (b : BState T)
    (h : ∀ (j : Nat) (c : BComp T), b.comps[j]? = some c → c.vol = none) :
    BCoherent e b := by
  intro j c v hj hv
  rw [h j c hj] at hv
  cases hv

/-- **`getVolume()` of any component of a coherent block is its current area × height** (through links of any
depth, warm cache or not) -/
theorem bvolume_eq_area_height (e : BEnv T) (b : BState T) (i : Nat) (a : Rat) (h : BCoherent e b)
    (ha : b.area e i = some a) : (bstep e b (.qVolume i)).2 = some [a * e.h] := by
  simp only [bstep, BState.getVolume]
  cases hc : b.comps[i]? with
  | none =>
    have : b.area e i = none := by
      unfold BState.area areaOf BState.sys sysOf
      simp [hc]
    rw [this] at ha; cases ha
  | some c =>
    simp only []
    cases hv : c.vol with
    | some v =>
      obtain ⟨a', ha', hva⟩ := h i c v hc hv
      have : b.area e i = some a' := ha'
      rw [this] at ha
      cases ha
      simp [hva]
    | none => simp [ha]

/-- decidable form of `BCoherent` (for concrete blocks) -/
def cohB (e : BEnv T) (b : BState T) : Bool :=
  (List.range b.comps.length).all (fun j =>
    match b.comps[j]? with
    | none => true
    | some c =>
      match c.vol with
      | none => true
      | some v =>
        match b.area e j with
        | none => false
        | some a => decide (v = a * e.h))

theorem cohB_of_bcoherent (e : BEnv T) (b : BState T) (h : BCoherent e b) : cohB e b = true := by
  unfold cohB
  apply List.all_eq_true.mpr
  intro j _
  cases hc : b.comps[j]? with
  | none => rfl
  | some c =>
    simp only []
    cases hv : c.vol with
    | none => rfl
    | some v =>
      obtain ⟨a, ha, hva⟩ := h j c v hc hv
      have : b.area e j = some a := ha
      simp [this, hva]

end BlockProps

/-! the defect `volume-stale-behind-link-to-link` (repaired in /repo by b30c1b1), stated exactly: fuel ← bond (id → fuel.od) ← gas bond
(id → bond.id, od → bond.od).  All three volumes cached; the fuel is heated. -/
private def exBE (tr : Bool) : BEnv Rat :=
  { same := fun a b => decide (a = b), pi := 3, sqrt3 := 2, sqrtF := fun x => x, h := 10, maxArea := 200, sym := 1,
    transitive := tr, linkClears := false }
private def exSolid : Mat Rat := { kind := .solid, liquid := false, pct := fun t => t, rho := fun _ => 0 }
private def exFluid : Mat Rat := { kind := .fluid, liquid := true, pct := fun _ => 0, rho := fun _ => 1 }
private def exB : BState Rat :=
  { comps := [
      { mat := exSolid, tin := 0, temp := 0, nd := [1], w := [1], shape := some .Circle,
        dims := [("od", .val 2), ("id", .val 0), ("mult", .val 1)], vol := none },
      { mat := exFluid, tin := 0, temp := 0, nd := [1], w := [1], shape := some .Circle,
        dims := [("od", .val 4), ("id", .link 0 "od"), ("mult", .val 1)], vol := none },
      { mat := exFluid, tin := 0, temp := 0, nd := [1], w := [1], shape := some .Circle,
        dims := [("od", .link 1 "od"), ("id", .link 1 "id"), ("mult", .val 1)], vol := none }],
    stale := true, dArea := none, dVol := none }
/-- the three volumes read once (caches warm) -/
private def exB0 (tr : Bool) : BState Rat :=
  (brun (exBE tr) exB [.qVolume 0, .qVolume 1, .qVolume 2]).1

/-- **the repaired defect, stated exactly**: with warm caches (coherent), heating the fuel left the gas bond's cached
volume stale under the direct-dependents sweep, and leaves it current under the transitive sweep -/
theorem coded_sweep_misses_chain :
    BCoherent (exBE false) (exB0 false) ∧
    ¬ BCoherent (exBE false) (bstep (exBE false) (exB0 false) (.setTemp 0 100)).1 ∧
    BCoherent (exBE true) (bstep (exBE true) (exB0 true) (.setTemp 0 100)).1 := by
  have h0 : ∀ tr, BCoherent (exBE tr) exB := fun tr => bcoherent_of_empty _ _ (by
    intro j c hj
    match j, hj with
    | 0, hj => simp [exB] at hj; rw [← hj]
    | 1, hj => simp [exB] at hj; rw [← hj]
    | 2, hj => simp [exB] at hj; rw [← hj]
    | n + 3, hj => simp [exB] at hj)
  have hw : ∀ tr, BCoherent (exBE tr) (exB0 tr) := fun tr =>
    getVolume_bcoherent _ _ 2 (getVolume_bcoherent _ _ 1 (getVolume_bcoherent _ _ 0 (h0 tr)))
  refine ⟨hw false, ?_, bstep_bcoherent_transitive _ _ _ rfl (Or.inl rfl) (hw true)⟩
  intro h
  have := cohB_of_bcoherent _ _ h
  revert this
  decide +kernel


/-! ### the derived (left-over) shape's caches and `derivedMustUpdate` -/
section DerivedProps
variable {T : Type}

/-- Σ of the current areas of the listed siblings (`none` when one of them raises) -/
def sumAreasL (e : BEnv T) (b : BState T) : List Nat → Option Rat
  | [] => some 0
  | j :: l =>
    match b.area e j, sumAreasL e b l with
    | some a, some s => some (a + s)
    | _, _ => none

/-- `getVolume()` answers area × height (coherent caches), whatever the link depth -/
theorem getVolume_out (e : BEnv T) (b : BState T) (i : Nat) (h : BCoherent e b) :
    (b.getVolume e i).2 = (b.area e i).map (fun a => a * e.h) := by
  unfold BState.getVolume
  cases hc : b.comps[i]? with
  | none =>
    have : b.area e i = none := by
      unfold BState.area areaOf BState.sys sysOf
      simp [hc]
    simp [this]
  | some c =>
    simp only []
    cases hv : c.vol with
    | some v =>
      obtain ⟨a', ha', hva⟩ := h i c v hc hv
      have : b.area e i = some a' := ha'
      simp [this, hva]
    | none =>
      simp only []
      cases b.area e i <;> rfl

/-- `getVolume()` changes no area, flag or derived cache -/
theorem getVolume_frame (e : BEnv T) (b : BState T) (i : Nat) :
    (∀ j, (b.getVolume e i).1.area e j = b.area e j) ∧ (b.getVolume e i).1.stale = b.stale ∧
    (b.getVolume e i).1.dArea = b.dArea ∧ (b.getVolume e i).1.dVol = b.dVol ∧
    (b.getVolume e i).1.comps.length = b.comps.length := by
  unfold BState.getVolume
  cases hc : b.comps[i]? with
  | none => exact ⟨fun _ => rfl, rfl, rfl, rfl, rfl⟩
  | some c =>
    simp only []
    cases hv : c.vol with
    | some v => exact ⟨fun _ => rfl, rfl, rfl, rfl, rfl⟩
    | none =>
      simp only []
      cases ha : b.area e i with
      | none => exact ⟨fun _ => rfl, rfl, rfl, rfl, rfl⟩
      | some a =>
        refine ⟨fun j => ?_, rfl, rfl, rfl, by simp⟩
        unfold BState.area BState.sys
        simp only [sysOf_set_vol e b.comps i c _ hc, shapes_set_vol b.comps i c _ hc]

theorem sumAreasL_congr (e : BEnv T) (b b' : BState T) (h : ∀ j, b'.area e j = b.area e j) (l : List Nat) :
    sumAreasL e b' l = sumAreasL e b l := by
  induction l with
  | nil => rfl
  | cons j l ih => simp only [sumAreasL, h j, ih]

/-- the step function of `sibVolumes` -/
private def sibStep (e : BEnv T) (acc : BState T × Option Rat) (i : Nat) : BState T × Option Rat :=
  ((acc.1.getVolume e i).1,
   match acc.2, (acc.1.getVolume e i).2 with
   | some s, some v => some (s + v)
   | _, _ => none)

private theorem foldl_sib (e : BEnv T) (l : List Nat) :
    ∀ acc : BState T × Option Rat, BCoherent e acc.1 →
      (l.foldl (sibStep e) acc).2 =
        (match acc.2, sumAreasL e acc.1 l with
         | some s, some S => some (s + S * e.h)
         | _, _ => none) ∧
      (∀ j, (l.foldl (sibStep e) acc).1.area e j = acc.1.area e j) ∧
      (l.foldl (sibStep e) acc).1.stale = acc.1.stale ∧ (l.foldl (sibStep e) acc).1.dArea = acc.1.dArea ∧
      (l.foldl (sibStep e) acc).1.dVol = acc.1.dVol ∧
      (l.foldl (sibStep e) acc).1.comps.length = acc.1.comps.length := by
  induction l with
  | nil =>
    intro ⟨b0, s0⟩ _
    refine ⟨?_, fun _ => rfl, rfl, rfl, rfl, rfl⟩
    cases s0 <;> simp [sumAreasL]
  | cons i l ih =>
    intro ⟨b0, s0⟩ h
    generalize hacc : ((b0, s0) : BState T × Option Rat) = acc at h ⊢
    have hb0 : acc.1 = b0 := by rw [← hacc]
    have hs0 : acc.2 = s0 := by rw [← hacc]
    obtain ⟨f1, f2, f3, f4, f5⟩ := getVolume_frame e acc.1 i
    have hc' : BCoherent e (sibStep e acc i).1 := getVolume_bcoherent e acc.1 i h
    obtain ⟨i1, i2, i3, i4, i5, i6⟩ := ih (sibStep e acc i) hc'
    simp only [List.foldl_cons]
    refine ⟨?_, fun j => by rw [i2 j]; exact f1 j, by rw [i3]; exact f2, by rw [i4]; exact f3,
      by rw [i5]; exact f4, by rw [i6]; exact f5⟩
    rw [i1]
    have hs : sumAreasL e (sibStep e acc i).1 l = sumAreasL e acc.1 l := sumAreasL_congr e _ _ f1 l
    rw [hs]
    simp only [sibStep, getVolume_out e acc.1 i h, sumAreasL]
    rw [hs0]
    cases s0 <;> cases acc.1.area e i <;> cases sumAreasL e acc.1 l <;> simp
    ring

/-- **the sibling volumes the derived shape sums are the siblings' CURRENT areas × height** (coherent caches) -/
theorem sibVolumes_spec (e : BEnv T) (b : BState T) (h : BCoherent e b) :
    (b.sibVolumes e).2 = (sumAreasL e b (List.range b.comps.length)).map (fun S => S * e.h) ∧
    (∀ j, (b.sibVolumes e).1.area e j = b.area e j) ∧ (b.sibVolumes e).1.stale = b.stale ∧
    (b.sibVolumes e).1.dArea = b.dArea ∧ (b.sibVolumes e).1.dVol = b.dVol ∧
    (b.sibVolumes e).1.comps.length = b.comps.length := by
  have := foldl_sib e (List.range b.comps.length) (b, some 0) h
  obtain ⟨a1, a2⟩ := this
  refine ⟨?_, a2⟩
  unfold BState.sibVolumes
  change (List.foldl (sibStep e) (b, some 0) (List.range b.comps.length)).2 = _
  rw [a1]
  cases sumAreasL e b (List.range b.comps.length) <;> simp

/-- while `derivedMustUpdate` is off, the derived shape's cached volume and area are what is left of the block
(`maxArea` minus the siblings' CURRENT areas) -/
def DCoherent (e : BEnv T) (b : BState T) : Prop :=
  b.stale = false →
    (∀ v, b.dVol = some v → ∃ S, sumAreasL e b (List.range b.comps.length) = some S ∧
      v = e.maxArea * e.h - S * e.h) ∧
    (∀ a, b.dArea = some a → ∃ S, sumAreasL e b (List.range b.comps.length) = some S ∧
      a = (e.maxArea * e.h - S * e.h) / e.h)

theorem dcoherent_of_stale (e : BEnv T) (b : BState T) (h : b.stale = true) : DCoherent e b := by
  intro hs; rw [h] at hs; cases hs

/-- anything that leaves areas, flag and derived caches alone keeps `DCoherent` -/
theorem dcoherent_frame (e : BEnv T) (b b' : BState T) (ha : ∀ j, b'.area e j = b.area e j)
    (hs : b'.stale = b.stale) (hA : b'.dArea = b.dArea) (hV : b'.dVol = b.dVol)
    (hl : b'.comps.length = b.comps.length) (h : DCoherent e b) : DCoherent e b' := by
  intro hst
  rw [hs] at hst
  obtain ⟨h1, h2⟩ := h hst
  rw [hl, sumAreasL_congr e b b' ha, hA, hV]
  exact ⟨h1, h2⟩

theorem deriveVolumeAndArea_spec (e : BEnv T) (b : BState T) (h : BCoherent e b) :
    ((b.deriveVolumeAndArea e).1.stale = b.stale ∧ (b.deriveVolumeAndArea e).1.dVol = b.dVol ∧
     (∀ j, (b.deriveVolumeAndArea e).1.area e j = b.area e j) ∧
     (b.deriveVolumeAndArea e).1.comps.length = b.comps.length) ∧
    (∀ rem, (b.deriveVolumeAndArea e).2 = some rem →
      ∃ S, sumAreasL e b (List.range b.comps.length) = some S ∧ rem = e.maxArea * e.h - S * e.h ∧
        (b.deriveVolumeAndArea e).1.dArea = some (rem / e.h)) := by
  obtain ⟨s1, s2, s3, s4, s5, s6⟩ := sibVolumes_spec e b h
  unfold BState.deriveVolumeAndArea
  cases hsv : (b.sibVolumes e).2 with
  | none => exact ⟨⟨s3, s5, s2, s6⟩, fun rem hr => by cases hr⟩
  | some sv =>
    simp only []
    rw [hsv] at s1
    cases hS : sumAreasL e b (List.range b.comps.length) with
    | none => rw [hS] at s1; cases s1
    | some S =>
      rw [hS] at s1
      simp only [Option.map_some, Option.some.injEq] at s1
      split
      · exact ⟨⟨s3, s5, s2, s6⟩, fun rem hr => by cases hr⟩
      · refine ⟨⟨s3, s5, s2, s6⟩, fun rem hr => ?_⟩
        simp only [Option.some.injEq] at hr
        exact ⟨S, rfl, by rw [← hr, s1], by rw [← hr]⟩

/-- **`DerivedShape.getVolume()`**: when it does not raise, it returns `maxArea × height − Σ (current sibling
areas) × height`, whatever was cached, and leaves flag and caches consistent -/
theorem derivedVolume_spec (e : BEnv T) (b : BState T) (h : BCoherent e b) (hd : DCoherent e b) (v : Rat)
    (hv : (b.derivedVolume e).2 = some v) :
    DCoherent e (b.derivedVolume e).1 ∧
    ∃ S, sumAreasL e b (List.range b.comps.length) = some S ∧ v = e.maxArea * e.h - S * e.h := by
  unfold BState.derivedVolume at hv ⊢
  -- the state after the flag handling
  have key : ∀ b1 : BState T, BCoherent e b1 → (∀ j, b1.area e j = b.area e j) → b1.comps.length = b.comps.length →
      b1.stale = false → (∀ v, b1.dVol = some v → ∃ S, sumAreasL e b (List.range b.comps.length) = some S ∧
        v = e.maxArea * e.h - S * e.h) →
      ∀ v, (match b1.dVol with
            | some v => (b1, some v)
            | none =>
              match (b1.deriveVolumeAndArea e).2 with
              | none => ((b1.deriveVolumeAndArea e).1, none)
              | some rem => ({ (b1.deriveVolumeAndArea e).1 with dVol := some rem }, some rem)).2 = some v →
        ((b1.dVol = none ∨ DCoherent e b1) → DCoherent e (match b1.dVol with
            | some v => (b1, some v)
            | none =>
              match (b1.deriveVolumeAndArea e).2 with
              | none => ((b1.deriveVolumeAndArea e).1, none)
              | some rem => ({ (b1.deriveVolumeAndArea e).1 with dVol := some rem }, some rem)).1) ∧
        ∃ S, sumAreasL e b (List.range b.comps.length) = some S ∧ v = e.maxArea * e.h - S * e.h := by
    intro b1 hc1 ha1 hl1 hst1 hvol1 v hv
    cases hdv : b1.dVol with
    | some v1 =>
      simp only [hdv] at hv ⊢
      cases hv
      refine ⟨fun hd1 => ?_, hvol1 v hdv⟩
      rcases hd1 with h0 | h0
      · cases h0
      · exact h0
    | none =>
      simp only [hdv] at hv ⊢
      obtain ⟨⟨d1, d2, d3, d4⟩, dspec⟩ := deriveVolumeAndArea_spec e b1 hc1
      cases hrem : (b1.deriveVolumeAndArea e).2 with
      | none => simp [hrem] at hv
      | some rem =>
        simp only [hrem] at hv ⊢
        cases hv
        obtain ⟨S, hS, hr, hA⟩ := dspec v hrem
        have hS' : sumAreasL e b (List.range b.comps.length) = some S := by
          rw [← hl1, sumAreasL_congr e b1 b (fun j => (ha1 j).symm)]; exact hS
        refine ⟨fun _ => ?_, S, hS', hr⟩
        intro _
        have hareas : ∀ j, BState.area e { (b1.deriveVolumeAndArea e).1 with dVol := some v } j = b1.area e j := d3
        have hlen : (b1.deriveVolumeAndArea e).1.comps.length = b1.comps.length := d4
        refine ⟨fun v' hv' => ?_, fun a ha => ?_⟩
        · simp only [Option.some.injEq] at hv'
          refine ⟨S, ?_, by rw [← hv', hr]⟩
          show sumAreasL e _ (List.range (b1.deriveVolumeAndArea e).1.comps.length) = some S
          rw [hlen, sumAreasL_congr e b1 _ hareas]; exact hS
        · have : (b1.deriveVolumeAndArea e).1.dArea = some a := ha
          rw [hA] at this
          simp only [Option.some.injEq] at this
          refine ⟨S, ?_, by rw [← this, hr]⟩
          show sumAreasL e _ (List.range (b1.deriveVolumeAndArea e).1.comps.length) = some S
          rw [hlen, sumAreasL_congr e b1 _ hareas]; exact hS
  by_cases hst : b.stale = true
  · simp only [hst, if_true] at hv ⊢
    have := key { b with dVol := none, stale := false } h (fun _ => rfl) rfl rfl (fun v hv => by cases hv) v hv
    exact ⟨this.1 (Or.inl rfl), this.2⟩
  · have hst' : b.stale = false := by simpa using hst
    simp only [hst', Bool.false_eq_true, if_false] at hv ⊢
    have := key b h (fun _ => rfl) rfl hst' (hd hst').1 v hv
    exact ⟨this.1 (Or.inr hd), this.2⟩

/-- **`DerivedShape.getComponentArea()`**: when it does not raise it returns (`maxArea × h − Σ current sibling areas
× h) / h`, recomputed while `derivedMustUpdate` is set and cached otherwise -/
theorem derivedArea_spec (e : BEnv T) (b : BState T) (h : BCoherent e b) (hd : DCoherent e b) :
    DCoherent e (b.derivedArea e).1 ∧
    ∀ a, (b.derivedArea e).2 = some a →
      ∃ S, sumAreasL e b (List.range b.comps.length) = some S ∧ a = (e.maxArea * e.h - S * e.h) / e.h := by
  unfold BState.derivedArea
  obtain ⟨⟨d1, _, _, _⟩, dspec⟩ := deriveVolumeAndArea_spec e b h
  by_cases hst : b.stale = true
  · simp only [hst, if_true]
    refine ⟨dcoherent_of_stale e _ (by rw [d1]; exact hst), fun a ha => ?_⟩
    cases hrem : (b.deriveVolumeAndArea e).2 with
    | none => rw [hrem] at ha; cases ha
    | some rem =>
      rw [hrem] at ha
      obtain ⟨S, hS, hr, hA⟩ := dspec rem hrem
      simp only [Option.bind_some] at ha
      rw [hA] at ha
      simp only [Option.some.injEq] at ha
      exact ⟨S, hS, by rw [← ha, hr]⟩
  · have hst' : b.stale = false := by simpa using hst
    simp only [hst', Bool.false_eq_true, if_false]
    exact ⟨hd, fun a ha => (hd hst').2 a ha⟩

/-- **every public call keeps the derived shape's caches consistent with `derivedMustUpdate`** (given coherent
sibling caches; a `DerivedShape.getVolume()` that raises is excluded: it leaves the flag reset over an old `p.area`) -/
theorem bstep_dcoherent (e : BEnv T) (b : BState T) (op : BOp T) (h : BCoherent e b) (hd : DCoherent e b)
    (hlink : op.isSetLink = false ∨ e.linkClears = true)
    (hok : op = .qDerivedVolume → (bstep e b op).2 ≠ none) : DCoherent e (bstep e b op).1 := by
  have hedit : ∀ (b1 : BState T) (i : Nat), DCoherent e (b1.clearLinkedCache e i) :=
    fun b1 i => dcoherent_of_stale e _ rfl
  have hget : ∀ i, DCoherent e (b.getVolume e i).1 := by
    intro i
    obtain ⟨f1, f2, f3, f4, f5⟩ := getVolume_frame e b i
    exact dcoherent_frame e b _ f1 f2 f3 f4 f5 hd
  cases op with
  | setLink i key j k =>
    have hlc : e.linkClears = true := by
      rcases hlink with h0 | h0
      · cases h0
      · exact h0
    simp only [bstep, hlc, if_true]
    split
    · exact hd
    · exact hedit _ i
  | setTemp i t =>
    simp only [bstep]
    split
    · exact hd
    · exact hedit _ i
  | setMat i m =>
    simp only [bstep]
    split
    · exact hd
    · exact hedit _ i
  | setDim i key v cold =>
    simp only [bstep]
    split
    · exact hd
    · split
      · exact hd
      · exact hedit _ i
  | setDimRetain i key v cold =>
    simp only [bstep]
    split
    · exact hd
    · split
      · split
        · exact hd
        · split
          · exact hd
          · exact hedit _ i
      · split
        · exact hd
        · exact hedit _ i
  | qDim i key cold => exact hd
  | qArea i => exact hd
  | qVolume i => exact hget i
  | qMass i =>
    simp only [bstep]
    split
    · exact hd
    · exact hget i
  | qDerivedArea => exact (derivedArea_spec e b h hd).1
  | qDerivedVolume =>
    have hne := hok rfl
    simp only [bstep] at hne ⊢
    cases hv : (b.derivedVolume e).2 with
    | none => rw [hv] at hne; exact absurd rfl hne
    | some v => exact (derivedVolume_spec e b h hd v hv).1

/-- **the derived shape closes the block, through both read paths**: its area is `maxArea − Σ current sibling areas`
and its volume that × height — whatever was queried, cached, heated, swapped or resized before (`h ≠ 0`) -/
theorem derived_closes_block (e : BEnv T) (b : BState T) (h : BCoherent e b) (hd : DCoherent e b) (hh : e.h ≠ 0) :
    (∀ a, (bstep e b .qDerivedArea).2 = some [a] →
      ∃ S, sumAreasL e b (List.range b.comps.length) = some S ∧ a + S = e.maxArea) ∧
    (∀ v, (bstep e b .qDerivedVolume).2 = some [v] →
      ∃ S, sumAreasL e b (List.range b.comps.length) = some S ∧ v + S * e.h = e.maxArea * e.h) := by
  constructor
  · intro a ha
    simp only [bstep] at ha
    cases hv : (b.derivedArea e).2 with
    | none => rw [hv] at ha; cases ha
    | some a' =>
      rw [hv] at ha
      simp only [Option.map_some, Option.some.injEq, List.cons.injEq, and_true] at ha
      obtain ⟨S, hS, hval⟩ := (derivedArea_spec e b h hd).2 a' hv
      refine ⟨S, hS, ?_⟩
      rw [← ha, hval]
      field_simp
      ring
  · intro v hv'
    simp only [bstep] at hv'
    cases hv : (b.derivedVolume e).2 with
    | none => rw [hv] at hv'; cases hv'
    | some v' =>
      rw [hv] at hv'
      simp only [Option.map_some, Option.some.injEq, List.cons.injEq, and_true] at hv'
      obtain ⟨S, hS, hval⟩ := (derivedVolume_spec e b h hd v' hv).2
      exact ⟨S, hS, by rw [← hv', hval]; ring⟩


/-- no `DerivedShape.getVolume()` along the history raises -/
def DerivedOK (e : BEnv T) : BState T → List (BOp T) → Prop
  | _, [] => True
  | b, op :: rest => (op = .qDerivedVolume → (bstep e b op).2 ≠ none) ∧ DerivedOK e (bstep e b op).1 rest

/-- **any history of public calls on a block (the code as it is)**: from a freshly built block, every component's
cached volume is its current area × height and the derived shape's caches agree with `derivedMustUpdate` — hence
(`bvolume_eq_area_height`, `derived_closes_block`) volumes follow areas and the derived shape closes the block
whatever was queried, heated, swapped or resized before -/
theorem brun_invariants_transitive (e : BEnv T) (b : BState T) (ops : List (BOp T)) (htr : e.transitive = true)
    (hlink : e.linkClears = true ∨ ∀ op ∈ ops, op.isSetLink = false)
    (h : BCoherent e b) (hd : DCoherent e b) (hok : DerivedOK e b ops) :
    BCoherent e (brun e b ops).1 ∧ DCoherent e (brun e b ops).1 := by
  induction ops generalizing b with
  | nil => exact ⟨h, hd⟩
  | cons op rest ih =>
    have h1 : op.isSetLink = false ∨ e.linkClears = true := by
      rcases hlink with h0 | h0
      · exact Or.inr h0
      · exact Or.inl (h0 op (by simp))
    have h2 : e.linkClears = true ∨ ∀ op ∈ rest, op.isSetLink = false := by
      rcases hlink with h0 | h0
      · exact Or.inl h0
      · exact Or.inr (fun o ho => h0 o (List.mem_cons_of_mem _ ho))
    exact ih _ h2 (bstep_bcoherent_transitive e b op htr h1 h) (bstep_dcoherent e b op h hd h1 hok.1) hok.2

end DerivedProps

/-- non-vacuity: a freshly built block (flag set, no cache) satisfies both invariants, so `derived_closes_block`
applies to every state any history reaches from it -/
example := derived_closes_block (exBE true) exB
  (bcoherent_of_empty _ _ (by
    intro j c hj
    match j, hj with
    | 0, hj => simp [exB] at hj; rw [← hj]
    | 1, hj => simp [exB] at hj; rw [← hj]
    | 2, hj => simp [exB] at hj; rw [← hj]
    | n + 3, hj => simp [exB] at hj))
  (dcoherent_of_stale _ _ rfl) (by decide +kernel)


/-! ### `setLink` after construction -/
section LinkProps
variable {T : Type}

/-- the stored dimensions of every component -/
def BState.dimsOf (b : BState T) : List (List (String × Dim)) := b.comps.map (fun c => c.dims)

theorem dimsOf_clear (e : BEnv T) (b : BState T) (i : Nat) : (b.clearLinkedCache e i).dimsOf = b.dimsOf := by
  unfold BState.clearLinkedCache BState.dimsOf
  apply List.ext_getElem?
  intro j
  simp only [List.getElem?_map, List.getElem?_mapIdx]
  cases b.comps[j]? with
  | none => rfl
  | some c => simp only [Option.map_some]; split <;> (split <;> rfl)

theorem dimsOf_modify (b : BState T) (i : Nat) (f : BComp T → BComp T) (hf : ∀ c, (f c).dims = c.dims) :
    (b.modify i f).dimsOf = b.dimsOf := by
  unfold BState.modify BState.dimsOf
  cases hc : b.comps[i]? with
  | none => rfl
  | some c =>
    simp only []
    apply List.ext_getElem?
    intro k
    simp only [List.getElem?_map, List.getElem?_set]
    by_cases hk : i = k
    · subst hk
      obtain ⟨hlt, heq⟩ := List.getElem?_eq_some_iff.mp hc
      subst heq
      simp [hlt, hf]
    · simp [hk]

theorem dimsOf_getVolume (e : BEnv T) (b : BState T) (i : Nat) : (b.getVolume e i).1.dimsOf = b.dimsOf := by
  unfold BState.getVolume
  cases hc : b.comps[i]? with
  | none => rfl
  | some c =>
    simp only []
    cases c.vol with
    | some v => rfl
    | none =>
      simp only []
      cases b.area e i with
      | none => rfl
      | some a =>
        have := dimsOf_modify b i (fun c => { c with vol := some (a * e.h) }) (fun _ => rfl)
        unfold BState.modify at this
        simp only [hc] at this
        exact this

private theorem dimsOf_foldl (e : BEnv T) (l : List Nat) : ∀ acc : BState T × Option Rat,
    (l.foldl (fun (acc : BState T × Option Rat) i =>
        ((acc.1.getVolume e i).1,
         match acc.2, (acc.1.getVolume e i).2 with
         | some s, some v => some (s + v)
         | _, _ => none)) acc).1.dimsOf = acc.1.dimsOf := by
  induction l with
  | nil => intro acc; rfl
  | cons i l ih => intro acc; simp only [List.foldl_cons]; rw [ih]; exact dimsOf_getVolume e acc.1 i

theorem dimsOf_derive (e : BEnv T) (b : BState T) : (b.deriveVolumeAndArea e).1.dimsOf = b.dimsOf := by
  have hs : (b.sibVolumes e).1.dimsOf = b.dimsOf := dimsOf_foldl e _ (b, some 0)
  unfold BState.deriveVolumeAndArea
  cases (b.sibVolumes e).2 with
  | none => exact hs
  | some sv => simp only []; split <;> exact hs

/-- a history of temperature changes, material swaps and reads only -/
def BThermal : List (BOp T) → Prop
  | [] => True
  | .setDim _ _ _ _ :: _ => False
  | .setDimRetain _ _ _ _ :: _ => False
  | .setLink _ _ _ _ :: _ => False
  | _ :: rest => BThermal rest

theorem dimsOf_thermal_step (e : BEnv T) (b : BState T) (op : BOp T) (h : BThermal [op]) :
    (bstep e b op).1.dimsOf = b.dimsOf := by
  cases op with
  | setDim i k v c => exact absurd h (by simp [BThermal])
  | setDimRetain i k v c => exact absurd h (by simp [BThermal])
  | setLink i k j k2 => exact absurd h (by simp [BThermal])
  | setTemp i t =>
    simp only [bstep]
    split
    · rfl
    · rw [dimsOf_clear]; exact dimsOf_modify b i _ (fun _ => rfl)
  | setMat i m =>
    simp only [bstep]
    split
    · rfl
    · rw [dimsOf_clear]; exact dimsOf_modify b i _ (fun _ => rfl)
  | qDim i k c => rfl
  | qArea i => rfl
  | qVolume i => exact dimsOf_getVolume e b i
  | qMass i =>
    simp only [bstep]
    split
    · rfl
    · exact dimsOf_getVolume e b i
  | qDerivedArea =>
    simp only [bstep, BState.derivedArea]
    split
    · exact dimsOf_derive e b
    · rfl
  | qDerivedVolume =>
    simp only [bstep, BState.derivedVolume]
    have h1 : (if b.stale then ({ b with dVol := none, stale := false } : BState T) else b).dimsOf = b.dimsOf := by
      split <;> rfl
    generalize (if b.stale then ({ b with dVol := none, stale := false } : BState T) else b) = b1 at h1
    cases b1.dVol with
    | some v => exact h1
    | none =>
      simp only []
      have hd := dimsOf_derive e b1
      cases (b1.deriveVolumeAndArea e).2 with
      | none => simp only []; rw [hd, h1]
      | some rem => simp only []; show (b1.deriveVolumeAndArea e).1.dimsOf = _; rw [hd, h1]

theorem dimsOf_thermal (e : BEnv T) (b : BState T) (ops : List (BOp T)) (h : BThermal ops) :
    (brun e b ops).1.dimsOf = b.dimsOf := by
  induction ops generalizing b with
  | nil => rfl
  | cons op rest ih =>
    have h1 : BThermal [op] := by cases op <;> simp_all [BThermal]
    have h2 : BThermal rest := by cases op <;> simp_all [BThermal]
    simp only [brun]
    rw [ih _ h2, dimsOf_thermal_step e b op h1]

/-- what `getDimension` sees of component `i`'s stored dimensions is `dimsOf` -/
theorem sys_dim?_of_dimsOf (e : BEnv T) (b : BState T) (i : Nat) (key : String) (ds : List (String × Dim))
    (h : b.dimsOf[i]? = some ds) :
    ∃ c, (b.sys e)[i]? = some c ∧ c.dim? key = (ds.find? (fun p => p.1 = key)).map (·.2) := by
  unfold BState.dimsOf at h
  simp only [List.getElem?_map] at h
  cases hc : b.comps[i]? with
  | none => simp [hc] at h
  | some c =>
    simp only [hc, Option.map_some, Option.some.injEq] at h
    refine ⟨c.toComp e, by simp [BState.sys, sysOf, hc], ?_⟩
    simp [Comp.dim?, BComp.toComp, h]

/-- **`setLink` establishes the link whatever the dimension held before** — a number or a link, equal to the new
target's current dimension or not: right after the call the stored dimension IS `link j k` -/
theorem setLink_establishes (e : BEnv T) (b : BState T) (i j : Nat) (key k : String) (c : BComp T)
    (hc : b.comps[i]? = some c) (hkey : (c.dims.find? (fun p => p.1 = key)).isSome) :
    ∃ ds, (bstep e b (.setLink i key j k)).1.dimsOf[i]? = some ds ∧
      (ds.find? (fun p => p.1 = key)).map (·.2) = some (Dim.link j k) := by
  refine ⟨c.dims.map (fun p => if p.1 = key then (p.1, Dim.link j k) else p), ?_, ?_⟩
  · simp only [bstep, hc]
    have hm : (b.modify i (fun c => { c with dims := c.dims.map (fun p => if p.1 = key then (p.1, Dim.link j k) else p) })).dimsOf[i]?
        = some (c.dims.map (fun p => if p.1 = key then (p.1, Dim.link j k) else p)) := by
      obtain ⟨hlt, heq⟩ := List.getElem?_eq_some_iff.mp hc
      subst heq
      simp [BState.modify, BState.dimsOf, hlt]
    split
    · rw [dimsOf_clear]; exact hm
    · exact hm
  · generalize c.dims = l at hkey
    induction l with
    | nil => simp at hkey
    | cons p l ih =>
      by_cases hp : p.1 = key
      · simp [hp]
      · have : (List.find? (fun p => decide (p.1 = key)) l).isSome := by simpa [List.find?, hp] using hkey
        simpa [List.find?, hp] using ih this

/-- **after `setLink`, through any later history of temperature changes, material swaps and reads (of the holder, the
target, or anything else), the dimension equals the target's CURRENT dimension** — hot and cold -/
theorem setLink_follows (e : BEnv T) (b : BState T) (i j : Nat) (key k : String) (c : BComp T)
    (hc : b.comps[i]? = some c) (hkey : (c.dims.find? (fun p => p.1 = key)).isSome)
    (ops : List (BOp T)) (hops : BThermal ops) (cold : Bool) :
    (brun e (bstep e b (.setLink i key j k)).1 ops).1.dim e i key cold =
      getDimension ((brun e (bstep e b (.setLink i key j k)).1 ops).1.sys e)
        (((brun e (bstep e b (.setLink i key j k)).1 ops).1.sys e).length) j k cold := by
  obtain ⟨ds, hds, hlink⟩ := setLink_establishes e b i j key k c hc hkey
  rw [← dimsOf_thermal e _ ops hops] at hds
  obtain ⟨c', hc', hd'⟩ := sys_dim?_of_dimsOf e _ i key ds hds
  rw [hlink] at hd'
  unfold BState.dim
  exact linked_dim_follows _ _ i j key k c' cold hc' hd'

end LinkProps

section LinkProps2
variable {T : Type}

/-- what component `i` stores for dimension `key` -/
def BState.slot (b : BState T) (i : Nat) (key : String) : Option Dim :=
  (b.dimsOf[i]?).bind (fun ds => (ds.find? (fun p => p.1 = key)).map (·.2))

/-- calls that cannot rewrite slot `(i, key)`: everything but `setDimension` / `setLink` on that very slot and
`setDimension(retainLink=True)` (which writes through links) -/
def BOp.leaves (i : Nat) (key : String) : BOp T → Bool
  | .setDim i' key' _ _ => !(i' == i && key' == key)
  | .setLink i' key' _ _ => !(i' == i && key' == key)
  | .setDimRetain _ _ _ _ => false
  | _ => true

private theorem find_map_other (l : List (String × Dim)) (key key' : String) (d : Dim) (h : key' ≠ key) :
    ((l.map (fun p => if p.1 = key' then (p.1, d) else p)).find? (fun p => p.1 = key)).map (·.2)
      = (l.find? (fun p => p.1 = key)).map (·.2) := by
  induction l with
  | nil => rfl
  | cons p l ih =>
    rw [List.map_cons, List.find?_cons, List.find?_cons]
    by_cases hp' : p.1 = key'
    · have hp : ¬ p.1 = key := by rw [hp']; exact h
      rw [if_pos hp']
      have h1 : decide ((p.1, d).1 = key) = false := by simpa using hp
      have h2 : decide (p.1 = key) = false := by simpa using hp
      rw [h1]
      exact ih
    · rw [if_neg hp']
      by_cases hp : p.1 = key
      · have h2 : decide (p.1 = key) = true := by simpa using hp
        rw [h2]
      · have h2 : decide (p.1 = key) = false := by simpa using hp
        rw [h2]
        exact ih

private theorem slot_of_dimsOf (b b' : BState T) (h : b'.dimsOf = b.dimsOf) (i : Nat) (key : String) :
    b'.slot i key = b.slot i key := by unfold BState.slot; rw [h]

private theorem slot_modify (b : BState T) (i' i : Nat) (key : String) (f : BComp T → BComp T)
    (hf : ∀ c, b.comps[i']? = some c → i' = i →
      ((f c).dims.find? (fun p => p.1 = key)).map (·.2) = (c.dims.find? (fun p => p.1 = key)).map (·.2)) :
    (b.modify i' f).slot i key = b.slot i key := by
  unfold BState.slot BState.modify BState.dimsOf
  cases hc : b.comps[i']? with
  | none => rfl
  | some c =>
    simp only [List.getElem?_map, List.getElem?_set]
    by_cases hi : i' = i
    · subst hi
      obtain ⟨hlt, heq⟩ := List.getElem?_eq_some_iff.mp hc
      have := hf c hc rfl
      subst heq
      simp [hlt, this]
    · simp [hi]

private theorem setDimension_dims (c c' : Comp) (key' : String) (v : Rat) (cold : Bool)
    (h : setDimension c key' v cold = some c') :
    ∃ q, c'.dims = c.dims.map (fun p => if p.1 = key' then (p.1, Dim.val q) else p) := by
  unfold setDimension at h
  simp only [] at h
  cases hs : (if cold = true then some v
      else if c.expDims.contains key' = true then Option.map (fun f => v / f) c.factor else some v) with
  | none => rw [hs] at h; cases h
  | some q =>
    rw [hs] at h
    simp only [Option.map_some, Option.some.injEq] at h
    exact ⟨q, by rw [← h]⟩

/-- a call that leaves slot `(i, key)` alone leaves it alone -/
theorem slot_kept (e : BEnv T) (b : BState T) (op : BOp T) (i : Nat) (key : String)
    (h : op.leaves i key = true) : (bstep e b op).1.slot i key = b.slot i key := by
  have hthermal : ∀ op' : BOp T, BThermal [op'] → (bstep e b op').1.slot i key = b.slot i key :=
    fun op' h' => slot_of_dimsOf _ _ (dimsOf_thermal_step e b op' h') i key
  cases op with
  | setDimRetain i' k v c => cases h
  | setDim i' key' v cold =>
    simp only [BOp.leaves, Bool.not_eq_true', Bool.and_eq_false_iff, beq_eq_false_iff_ne] at h
    simp only [bstep]
    split
    · rfl
    · rename_i c hc
      split
      · rfl
      · rename_i c' hset
        rw [slot_of_dimsOf _ _ (dimsOf_clear e _ i')]
        apply slot_modify
        intro c0 hc0 hi
        rw [hc] at hc0
        cases hc0
        obtain ⟨q, hq⟩ := setDimension_dims _ _ _ _ _ hset
        simp only []
        rw [hq]
        have hk : key' ≠ key := by
          rcases h with h | h
          · exact absurd hi h
          · exact h
        exact find_map_other c.dims key key' _ hk
  | setLink i' key' j k =>
    simp only [BOp.leaves, Bool.not_eq_true', Bool.and_eq_false_iff, beq_eq_false_iff_ne] at h
    simp only [bstep]
    split
    · rfl
    · have hm : (b.modify i' (fun c => { c with dims := c.dims.map (fun p => if p.1 = key' then (p.1, Dim.link j k) else p) })).slot i key
          = b.slot i key := by
        apply slot_modify
        intro c0 _ hi
        have hk : key' ≠ key := by
          rcases h with h | h
          · exact absurd hi h
          · exact h
        exact find_map_other c0.dims key key' _ hk
      split
      · rw [slot_of_dimsOf _ _ (dimsOf_clear e _ i')]; exact hm
      · exact hm
  | setTemp i' t => exact hthermal _ (by simp [BThermal])
  | setMat i' m => exact hthermal _ (by simp [BThermal])
  | qDim i' k c => rfl
  | qArea i' => rfl
  | qVolume i' => exact hthermal _ (by simp [BThermal])
  | qMass i' => exact hthermal _ (by simp [BThermal])
  | qDerivedArea => exact hthermal _ (by simp [BThermal])
  | qDerivedVolume => exact hthermal _ (by simp [BThermal])

/-- a history none of whose calls can rewrite slot `(i, key)` -/
def LeavesSlot (i : Nat) (key : String) (ops : List (BOp T)) : Prop := ∀ op ∈ ops, op.leaves i key = true

theorem slot_kept_run (e : BEnv T) (b : BState T) (ops : List (BOp T)) (i : Nat) (key : String)
    (h : LeavesSlot i key ops) : (brun e b ops).1.slot i key = b.slot i key := by
  induction ops generalizing b with
  | nil => rfl
  | cons op rest ih =>
    simp only [brun]
    rw [ih _ (fun o ho => h o (List.mem_cons_of_mem _ ho)), slot_kept e b op i key (h op (by simp))]

/-- **after `setLink`, through ANY later history that does not itself rewrite that dimension** — temperature changes,
material swaps, hot and cold `setDimension` of the target or of anything else, further `setLink`s elsewhere, reads —
**the dimension equals the target's CURRENT dimension**, whatever it held before the call (a number or a link, equal
to the target's value or not) -/
theorem setLink_follows_any (e : BEnv T) (b : BState T) (i j : Nat) (key k : String) (c : BComp T)
    (hc : b.comps[i]? = some c) (hkey : (c.dims.find? (fun p => p.1 = key)).isSome)
    (ops : List (BOp T)) (hops : LeavesSlot i key ops) (cold : Bool) :
    (brun e (bstep e b (.setLink i key j k)).1 ops).1.dim e i key cold =
      getDimension ((brun e (bstep e b (.setLink i key j k)).1 ops).1.sys e)
        (((brun e (bstep e b (.setLink i key j k)).1 ops).1.sys e).length) j k cold := by
  obtain ⟨ds, hds, hlink⟩ := setLink_establishes e b i j key k c hc hkey
  have hslot : (bstep e b (.setLink i key j k)).1.slot i key = some (Dim.link j k) := by
    unfold BState.slot; rw [hds]; exact hlink
  rw [← slot_kept_run e _ ops i key hops] at hslot
  unfold BState.slot at hslot
  cases hd : (brun e (bstep e b (.setLink i key j k)).1 ops).1.dimsOf[i]? with
  | none => rw [hd] at hslot; cases hslot
  | some ds' =>
    rw [hd] at hslot
    simp only [Option.bind_some] at hslot
    obtain ⟨c', hc', hd'⟩ := sys_dim?_of_dimsOf e _ i key ds' hd
    rw [hslot] at hd'
    unfold BState.dim
    exact linked_dim_follows _ _ i j key k c' cold hc' hd'

end LinkProps2

/-! `setLink` without a cache sweep (the code before fix a226651, `linkClears = false`): a holder whose volume is cached
and whose old value differs from the new target's dimension kept the stale volume; with the sweep (the code as it is)
it does not — the repaired defect `volume-stale-after-setlink`, stated exactly -/
private def exLE (lc : Bool) : BEnv Rat :=
  { same := fun a b => decide (a = b), pi := 3, sqrt3 := 2, sqrtF := fun x => x, h := 10, maxArea := 200, sym := 1,
    transitive := true, linkClears := lc }
private def exLB : BState Rat :=
  { comps := [
      { mat := exSolid, tin := 0, temp := 0, nd := [1], w := [1], shape := some .Circle,
        dims := [("od", .val 2), ("id", .val 0), ("mult", .val 1)], vol := none },
      { mat := exFluid, tin := 0, temp := 0, nd := [1], w := [1], shape := some .Circle,
        dims := [("od", .val 4), ("id", .val 1), ("mult", .val 1)], vol := none }],
    stale := true, dArea := none, dVol := none }

theorem setLink_needs_sweep :
    ¬ BCoherent (exLE false) (brun (exLE false) exLB [.qVolume 1, .setLink 1 "id" 0 "od"]).1 ∧
    BCoherent (exLE true) (brun (exLE true) exLB [.qVolume 1, .setLink 1 "id" 0 "od"]).1 := by
  constructor
  · intro h
    have := cohB_of_bcoherent _ _ h
    revert this
    decide +kernel
  · apply brun_bcoherent_transitive _ _ _ rfl (Or.inl rfl)
    apply bcoherent_of_empty
    intro j c hj
    match j, hj with
    | 0, hj => simp [exLB] at hj; rw [← hj]
    | 1, hj => simp [exLB] at hj; rw [← hj]
    | n + 2, hj => simp [exLB] at hj

/-- non-vacuity of `setLink_follows`: value coincidence (`id = 2 = fuel.od`) at link time, then the fuel is heated
(pct 0 -> 100: factor 2): the bond's inner diameter follows to 4 -/
private def exLB2 : BState Rat :=
  { comps := [
      { mat := exSolid, tin := 0, temp := 0, nd := [1], w := [1], shape := some .Circle,
        dims := [("od", .val 2), ("id", .val 0), ("mult", .val 1)], vol := none },
      { mat := exFluid, tin := 0, temp := 0, nd := [1], w := [1], shape := some .Circle,
        dims := [("od", .val 4), ("id", .val 2), ("mult", .val 1)], vol := none }],
    stale := true, dArea := none, dVol := none }

example : (brun (exLE false) (bstep (exLE false) exLB2 (.setLink 1 "id" 0 "od")).1
    [.setTemp 0 100, .qVolume 1]).1.dim (exLE false) 1 "id" false = some 4 := by
  decide +kernel

example := setLink_follows (exLE false) exLB2 1 0 "id" "od" _ rfl (by decide) [.setTemp 0 100, .qVolume 1]
  (by simp [BThermal]) false


end ArmiVerif.Thermal
