/-
C03 — proof obligations over the regenerated table `Gen/Shapes.lean` (what the component classes in /repo
declare as THERMAL_EXPANSION_DIMS on this run).  They tie the homogeneity lemmas of `Props/C03.lean`
(`area_homogeneous`, proved for `Shape.expDims`) to the sets the real classes use.
-/
import ArmiVerif.Model.Thermal
import ArmiVerif.Gen.Shapes

namespace ArmiVerif.Thermal
open ArmiVerif.Gen.Shapes

def genLookup (name : String) : Option (Bool × List String) :=
  (expansionDims.find? (fun r => r.1 == name)).map (·.2)

/-- every modelled shape class is two-dimensional in /repo and declares exactly the expanding dimensions
its homogeneity lemma scales -/
theorem gen_dims_match :
    Shape.all.all (fun s => genLookup s.name == some (false, s.expDims)) = true := by decide +kernel

/-- every class of /repo that declares expanding dimensions is one of the modelled shape classes
(in particular: the 3-D shapes and the unshaped/derived components declare none) -/
theorem gen_only_modelled_expand :
    expansionDims.all (fun r => r.2.2.isEmpty || (Shape.ofName? r.1).isSome) = true := by decide +kernel

/-- no 3-D class declares expanding dimensions -/
theorem gen_3d_no_expansion :
    expansionDims.all (fun r => !r.2.1 || r.2.2.isEmpty) = true := by decide +kernel

end ArmiVerif.Thermal
