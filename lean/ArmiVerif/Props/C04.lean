/-
C04 — a reactor saved to the database loads back observationally equal: the layout / locator / index logic.
Property theorems over Model/Layout.lean (helper lemmas private).

  compose_flatten      `_compose` inverts `_createLayout` for every tree (types, serials, locators, grids, child order)
  flatten_injective    the layout determines the tree
  compose_sound        whatever `_compose` builds re-flattens to the rows it was built from (load twice; save-of-load)
  indexInData_spec, param_lookup_own   every object is paired with its own row of the per-class datasets
  unpack_pack_locations   all sequences of the four locator kinds, all multi-index lengths
  grid_dedup_lookup    de-duplicated grid table gives every object its own grid parameters back
  ancestors_spec       `computeAncestors` (depth 1) = the parent's serial number of every row, for every tree
  load_save_sorted, load_save_id_iff, sort_idem, armiLt_asymm   child order: load(save t) = t with every child list sorted;
                       = t iff already sorted (F12 exactly, with the witness as example)
  save_load_param_own  C04 ∘ C05: same shape, and every object reads back its own parameter value up to `normalise`
                       (param_lookup_own + Pack.write_read_faithful)
  get_write_same, get_write_other, write_occupied, write_free, history_loads, history_keeps, writeSkip_keeps,
  multi_statepoint_roundtrip   one file = map group name → statepoint: writing B never changes what A loads to; every
                       statepoint of any accepted write history loads to the state at ITS write (tree sorted, materials /
                       temperatures, parameters); an occupied address is refused
  rows_cols_roundtrip, cols_roundtrip   the round trip on the COLUMNS of the layout group (type, serialNum, numChildren,
                       indexInData, gridIndex + grid table, locationType + location) for every tree
  gridTable_nodup, gridTable_sub   the de-duplicated grid table: no key twice, only grids of the objects
  compLt_asymm         `Component.__lt__` (outer then inner diameter) is asymmetric: the child-order theorems cover blocks
  assignBlueprints_noop, load_param_saved_not_blueprint   parameter assignment order on load: `_readParams` then
                       `_assignBlueprintsParams` (whose class-object lookup misses the name-keyed dict): saved value wins
Parameter value encoding is C05; h5py, blueprint re-construction of components, grids' `reduce()` and the child
sort key are parameters (correspondence / whole-stack oracle only).
-/
import ArmiVerif.Model.Layout
import ArmiVerif.Props.C05

namespace ArmiVerif.Layout


mutual
/-- recursion depth `parseT` needs on the rows of `t` -/
def needT : Tree → Nat
  | .node _ kids => needF kids + 1
def needF : Forest → Nat
  | .nil => 1
  | .cons t f => max (needT t) (needF f) + 1
end

mutual
private theorem parseT_flatten : ∀ (t : Tree) (fuel : Nat) (rest : List Row), needT t ≤ fuel →
    parseT fuel (flattenT t ++ rest) = some (t, rest)
  | .node lab kids, fuel, rest, h => by
    cases fuel with
    | zero => simp [needT] at h
    | succ fuel =>
      simp only [needT] at h
      have := parseF_flatten kids fuel rest (by omega)
      simp only [flattenT, List.cons_append, parseT, this]
private theorem parseF_flatten : ∀ (f : Forest) (fuel : Nat) (rest : List Row), needF f ≤ fuel →
    parseF fuel f.length (flattenF f ++ rest) = some (f, rest)
  | .nil, fuel, rest, h => by
    cases fuel with
    | zero => simp [needF] at h
    | succ fuel => simp [Forest.length, flattenF, parseF]
  | .cons t f, fuel, rest, h => by
    cases fuel with
    | zero => simp [needF] at h
    | succ fuel =>
      simp only [needF] at h
      have h1 := parseT_flatten t fuel (flattenF f ++ rest) (by omega)
      have h2 := parseF_flatten f fuel rest (by omega)
      simp only [Forest.length, flattenF, List.append_assoc, parseF, h1, h2]
end

mutual
private theorem need_le_T : ∀ (t : Tree), needT t ≤ 2 * (flattenT t).length
  | .node lab kids => by
    have := need_le_F kids
    simp only [needT, flattenT, List.length_cons]; omega
private theorem need_le_F : ∀ (f : Forest), needF f ≤ 2 * (flattenF f).length + 1
  | .nil => by simp [needF, flattenF]
  | .cons t f => by
    have h1 := need_le_T t
    have h2 := need_le_F f
    have h3 : 1 ≤ (flattenT t).length := by cases t; simp [flattenT]
    simp only [needF, flattenF, List.length_append]; omega
end

/-- **`_compose` inverts `_createLayout` for every tree**: composing the flattened rows gives back the same
tree — same labels (class, serial number, locator, grid), same children in the same order, at every depth. -/
theorem compose_flatten (t : Tree) : compose (flattenT t) = some t := by
  unfold compose
  have h := parseT_flatten t (2 * (flattenT t).length + 2) [] (by have := need_le_T t; omega)
  simp only [List.append_nil] at h
  rw [h]

/-- **the layout determines the tree**: two trees with the same rows are the same tree -/
theorem flatten_injective (t u : Tree) (h : flattenT t = flattenT u) : t = u := by
  have h1 := compose_flatten t
  have h2 := compose_flatten u
  rw [h] at h1
  rw [h1] at h2
  exact Option.some.inj h2

private theorem parse_sound : ∀ (fuel : Nat),
    (∀ rows t rest, parseT fuel rows = some (t, rest) → rows = flattenT t ++ rest) ∧
    (∀ n rows f rest, parseF fuel n rows = some (f, rest) → rows = flattenF f ++ rest ∧ f.length = n) := by
  intro fuel
  induction fuel with
  | zero => constructor <;> (intros; simp_all [parseT, parseF])
  | succ fuel ih =>
    obtain ⟨ihT, ihF⟩ := ih
    constructor
    · intro rows t rest h
      cases rows with
      | nil => simp [parseT] at h
      | cons row rows =>
        obtain ⟨lab, n⟩ := row
        simp only [parseT] at h
        cases hp : parseF fuel n rows with
        | none => simp [hp] at h
        | some pr =>
          obtain ⟨kids, rest'⟩ := pr
          simp only [hp, Option.some.injEq, Prod.mk.injEq] at h
          obtain ⟨rfl, rfl⟩ := h
          obtain ⟨h1, h2⟩ := ihF n rows kids rest' hp
          simp [flattenT, h1, h2]
    · intro n rows f rest h
      cases n with
      | zero =>
        simp only [parseF, Option.some.injEq, Prod.mk.injEq] at h
        obtain ⟨rfl, rfl⟩ := h
        simp [flattenF, Forest.length]
      | succ n =>
        simp only [parseF] at h
        cases hp : parseT fuel rows with
        | none => simp [hp] at h
        | some pr =>
          obtain ⟨t, r1⟩ := pr
          simp only [hp] at h
          cases hq : parseF fuel n r1 with
          | none => simp [hq] at h
          | some pr2 =>
            obtain ⟨f', r2⟩ := pr2
            simp only [hq, Option.some.injEq, Prod.mk.injEq] at h
            obtain ⟨rfl, rfl⟩ := h
            have h1 := ihT rows t r1 hp
            obtain ⟨h2, h3⟩ := ihF n r1 f' r2 hq
            simp [flattenF, Forest.length, h1, h2, h3]

/-- **whatever `_compose` builds from a layout flattens back to exactly that layout** (all row lists): hence
loading the same snapshot twice gives the same tree, and saving a loaded reactor writes the rows it was loaded from -/
theorem compose_sound (rows : List Row) (t : Tree) (h : compose rows = some t) : flattenT t = rows := by
  unfold compose at h
  split at h
  · rename_i t' heq
    simp at h; subst h
    have := (parse_sound _).1 rows t' [] heq
    simp at this; exact this.symm
  · simp at h

/-! ### indexInData -/

private theorem indexInDataGo_get (tys : List Nat) : ∀ (seen : List Nat) (k : Nat) (hk : k < tys.length),
    (indexInDataGo seen tys)[k]? = some (seen.count tys[k] + (tys.take k).count tys[k]) := by
  induction tys with
  | nil => intro seen k hk; simp at hk
  | cons t r ih =>
    intro seen k hk
    cases k with
    | zero => simp [indexInDataGo]
    | succ k =>
      have hk' : k < r.length := by simpa using hk
      simp only [indexInDataGo, List.getElem?_cons_succ, List.getElem_cons_succ, List.take_succ_cons]
      rw [ih (t :: seen) k hk']
      simp only [List.count_cons]
      congr 1
      by_cases h : t = r[k] <;> simp [h] <;> omega

/-- **`indexInData` of row k is the number of earlier rows of the same class** -/
theorem indexInData_spec (tys : List Nat) (k : Nat) (hk : k < tys.length) :
    (indexInData tys)[k]? = some ((tys.take k).count tys[k]) := by
  unfold indexInData
  rw [indexInDataGo_get tys [] k hk]
  simp

private theorem filter_get_count {α} (p : α → Bool) : ∀ (l : List α) (k : Nat) (hk : k < l.length), p l[k] = true →
    (l.filter p)[((l.take k).filter p).length]? = some l[k] := by
  intro l
  induction l with
  | nil => intro k hk; simp at hk
  | cons a r ih =>
    intro k hk hp
    cases k with
    | zero => simp at hp; simp [hp]
    | succ k =>
      have hk' : k < r.length := by simpa using hk
      simp only [List.getElem_cons_succ] at hp
      simp only [List.take_succ_cons, List.getElem_cons_succ]
      by_cases ha : p a = true
      · simp only [List.filter_cons, ha, if_true, List.length_cons, List.getElem?_cons_succ]
        exact ih k hk' hp
      · simp only [List.filter_cons, ha]
        exact ih k hk' hp

private theorem count_map_eq {α} (f : α → Nat) (a : Nat) : ∀ (l : List α),
    (l.map f).count a = (l.filter (fun r => decide (f r = a))).length := by
  intro l
  induction l with
  | nil => rfl
  | cons x r ih =>
    simp only [List.map_cons, List.count_cons, ih, List.filter_cons]
    by_cases h : f x = a <;> simp [h]

/-- **every object reads its own parameter values**: the per-class datasets hold the objects of that class in
layout order (`groupedComps`), so position `indexInData[k]` of the dataset of row k's class is row k itself -/
theorem param_lookup_own (rows : List Row) (k : Nat) (hk : k < rows.length) :
    ∃ i, (indexInData (rows.map (·.1.ty)))[k]? = some i ∧
      (rows.filter (fun r => r.1.ty = rows[k].1.ty))[i]? = some rows[k] := by
  have hk' : k < (rows.map (·.1.ty)).length := by simpa using hk
  refine ⟨_, indexInData_spec _ k hk', ?_⟩
  have h := filter_get_count (fun r : Row => decide (r.1.ty = rows[k].1.ty)) rows k hk (by simp)
  rw [List.getElem_map, ← List.map_take, count_map_eq]
  exact h

/-! ### locations -/

private theorem takeExact_append {α : Type} : ∀ (m ds : List α), takeExact m.length (m ++ ds) = some (m, ds)
  | [], ds => rfl
  | x :: m, ds => by simp [takeExact, takeExact_append m ds]

/-- **location packing round trip**: for every sequence of locators of the four kinds (none, free coordinates,
grid indices, multi-index of any length) `_unpackLocationsV2` returns what `_packLocationsV3` was given -/
theorem unpack_pack_locations : ∀ (locs : List Loc), unpackLocs (packLocs locs).1 (packLocs locs).2 = some locs := by
  intro locs
  induction locs with
  | nil => simp [packLocs, unpackLocs]
  | cons l r ih =>
    cases l with
    | none => simp only [packLocs, unpackLocs, ih, Option.map_some]
    | coord x y z => simp only [packLocs, unpackLocs, ih, Option.map_some]
    | index i j k => simp only [packLocs, unpackLocs, ih, Option.map_some]
    | multi m =>
      simp only [packLocs, unpackLocs, takeExact_append, ih, Option.map_some]

/-! ### grid de-duplication -/

private theorem idxOf_get : ∀ (l : List Nat) (g i : Nat), idxOf l g = some i → l[i]? = some g := by
  intro l
  induction l with
  | nil => intro g i h; simp [idxOf] at h
  | cons a t ih =>
    intro g i h
    simp only [idxOf] at h
    split at h
    · rename_i ha; simp at h; subst h; simp [ha]
    · simp only [Option.map_eq_some_iff] at h
      obtain ⟨j, hj, rfl⟩ := h
      simp [ih g j hj]

private theorem idxOf_of_mem : ∀ (l : List Nat) (g : Nat), g ∈ l → ∃ i, idxOf l g = some i := by
  intro l
  induction l with
  | nil => intro g h; simp at h
  | cons a t ih =>
    intro g h
    simp only [idxOf]
    by_cases ha : a = g
    · exact ⟨0, by simp [ha]⟩
    · rcases List.mem_cons.mp h with rfl | h'
      · exact absurd rfl ha
      · obtain ⟨j, hj⟩ := ih g h'
        exact ⟨j + 1, by simp [ha, hj]⟩

private theorem mem_gridTable : ∀ (keys : List (Option Nat)) (acc : List Nat) (g : Nat),
    (g ∈ acc ∨ some g ∈ keys) → g ∈ gridTable keys acc := by
  intro keys
  induction keys with
  | nil => intro acc g h; simpa [gridTable] using h
  | cons k r ih =>
    intro acc g h
    cases k with
    | none =>
      simp only [gridTable]
      apply ih
      rcases h with h | h
      · exact Or.inl h
      · simp at h; exact Or.inr h
    | some g' =>
      simp only [gridTable]
      split
      · rename_i hc
        apply ih
        rcases h with h | h
        · exact Or.inl h
        · simp at h
          rcases h with rfl | h
          · exact Or.inl (by simpa using hc)
          · exact Or.inr h
      · apply ih
        rcases h with h | h
        · exact Or.inl (by simp [h])
        · simp at h
          rcases h with rfl | h
          · exact Or.inl (by simp)
          · exact Or.inr h

/-- **grid de-duplication is lossless**: every object with a grid gets an index, and the table entry at that
index is the object's own grid key (objects without grid get none) -/
theorem grid_dedup_lookup (keys : List (Option Nat)) (k : Nat) (hk : k < keys.length) :
    match keys[k] with
    | none => (gridIndex keys)[k]? = some none
    | some g => ∃ i, (gridIndex keys)[k]? = some (some i) ∧ (gridTable keys [])[i]? = some g := by
  unfold gridIndex
  simp only [List.getElem?_map, List.getElem?_eq_getElem hk, Option.map_some]
  cases hkk : keys[k] with
  | none => simp
  | some g =>
    have hmem : g ∈ gridTable keys [] := mem_gridTable keys [] g (Or.inr (by rw [← hkk]; exact List.getElem_mem hk))
    obtain ⟨i, hi⟩ := idxOf_of_mem _ g hmem
    exact ⟨i, by simp [hi], idxOf_get _ g i hi⟩


/-! ### computeAncestors -/


mutual
/-- the parent's serial number of every row, read off the tree -/
def parentsT (p : Option Nat) : Tree → List (Option Nat)
  | .node lab kids => p :: parentsF (some lab.serial) kids
def parentsF (p : Option Nat) : Forest → List (Option Nat)
  | .nil => []
  | .cons t f => parentsT p t ++ parentsF p f
end

private def snRow (r : Row) : Nat × Nat := (r.1.serial, r.2)

private def dec : List (Nat × Nat) → List (Nat × Nat)
  | [] => []
  | (s, c) :: t => (s, c - 1) :: t

private def popZ (st : List (Nat × Nat)) : List (Nat × Nat) := st.dropWhile (fun p => p.2 = 0)

private theorem popZ_pos (s c : Nat) (st : List (Nat × Nat)) (h : 0 < c) : popZ ((s, c) :: st) = (s, c) :: st := by
  have : ¬ c = 0 := by omega
  simp [popZ, List.dropWhile, this]

private theorem popZ_zero (s : Nat) (st : List (Nat × Nat)) : popZ ((s, 0) :: st) = popZ st := by
  simp [popZ, List.dropWhile]

private theorem go_step (sn nc : Nat) (rest : List (Nat × Nat)) (st : List (Nat × Nat)) :
    ancestorsGo ((sn, nc) :: rest) st =
      (st.head?.map (·.1)) :: ancestorsGo rest (popZ (if nc > 0 then (sn, nc) :: dec st else dec st)) := by
  cases st with
  | nil => simp [ancestorsGo, dec, popZ]
  | cons h t => obtain ⟨s, c⟩ := h; simp [ancestorsGo, dec, popZ]

mutual
private theorem anc_T : ∀ (t : Tree) (rest : List (Nat × Nat)) (st : List (Nat × Nat)),
    ancestorsGo ((flattenT t).map snRow ++ rest) st =
      parentsT (st.head?.map (·.1)) t ++ ancestorsGo rest (popZ (dec st))
  | .node lab kids, rest, st => by
    simp only [flattenT, List.map_cons, List.cons_append, snRow, parentsT]
    rw [go_step]
    cases kids with
    | nil => simp [Forest.length, flattenF, parentsF]
    | cons t f =>
      have hpos : 0 < (Forest.cons t f).length := by simp [Forest.length]
      simp only [hpos, if_true]
      rw [popZ_pos _ _ _ hpos]
      have := anc_F (Forest.cons t f) rest lab.serial (Forest.cons t f).length (dec st) hpos (Nat.le_refl _)
      rw [this, Nat.sub_self, popZ_zero]
private theorem anc_F : ∀ (f : Forest) (rest : List (Nat × Nat)) (s c : Nat) (st : List (Nat × Nat)),
    0 < c → f.length ≤ c →
    ancestorsGo ((flattenF f).map snRow ++ rest) ((s, c) :: st) =
      parentsF (some s) f ++ ancestorsGo rest (popZ ((s, c - f.length) :: st))
  | .nil, rest, s, c, st, hc, _ => by
    simp [flattenF, parentsF, Forest.length, popZ_pos _ _ _ hc]
  | .cons t f, rest, s, c, st, hc, hk => by
    simp only [flattenF, List.map_append, List.append_assoc, parentsF]
    rw [anc_T t ((flattenF f).map snRow ++ rest) ((s, c) :: st)]
    simp only [List.head?_cons, Option.map_some, dec]
    cases f with
    | nil =>
      simp [flattenF, parentsF, Forest.length]
    | cons t' f' =>
      have hl : (Forest.cons t (Forest.cons t' f')).length = (Forest.cons t' f').length + 1 := rfl
      have hl' : (Forest.cons t' f').length = f'.length + 1 := rfl
      have h1 : 0 < c - 1 := by omega
      rw [popZ_pos _ _ _ h1, anc_F (Forest.cons t' f') rest s (c - 1) st h1 (by omega)]
      have e : c - 1 - (Forest.cons t' f').length = c - (Forest.cons t (Forest.cons t' f')).length := by omega
      rw [e]
end

/-- **`computeAncestors` (depth 1) returns, for every row of a layout, the serial number of its parent**
(none for the root), for every tree -/
theorem ancestors_spec (t : Tree) :
    ancestors ((flattenT t).map (fun r => (r.1.serial, r.2))) = parentsT none t := by
  have := anc_T t [] []
  simp only [List.append_nil, List.head?_nil, Option.map_none] at this
  have hf : (fun r : Row => (r.1.serial, r.2)) = snRow := rfl
  unfold ancestors
  rw [hf, this]
  simp [ancestorsGo]


/-! ### non-vacuity -/

private def exTree : Tree :=
  .node ⟨0, 0, .none, none⟩ (.cons (.node ⟨1, 1, .coord 0 0 0, some 7⟩
      (.cons (.node ⟨2, 5, .index 1 0 0, some 9⟩ (.cons (.node ⟨3, 6, .multi [(0, 0, 0), (1, 0, 0)], none⟩ .nil) .nil))
        (.cons (.node ⟨2, 8, .index 0 1 0, some 9⟩ .nil) .nil)))
    (.cons (.node ⟨4, 20, .coord 5 5 6, some 7⟩ .nil) .nil))

example : (flattenT exTree).map (·.2) = [2, 2, 1, 0, 0, 0] := by decide
example : indexInData ((flattenT exTree).map (·.1.ty)) = [0, 0, 0, 0, 1, 0] := by decide
example : gridIndex ((flattenT exTree).map (·.1.grid)) = [none, some 0, some 1, none, some 1, some 0] := by decide
example : (packLocs ((flattenT exTree).map (·.1.loc))).1 = [.N, .C, .I, .M 2, .I, .C] := by decide
example : ancestors ((flattenT exTree).map (fun r => (r.1.serial, r.2))) = [none, some 0, some 1, some 5, some 1, some 0] := by decide
/-- a truncated layout is refused, not silently completed -/
example : compose ((flattenT exTree).take 4) = none := by decide
example : compose (flattenT exTree ++ [(⟨9, 9, .none, none⟩, 0)]) = none := by decide



/-! ### child order: `_createLayout` writes sorted children, `load` sorts again (F12 as a theorem) -/

variable (lt : Label → Label → Bool)

def Tree.lab : Tree → Label
  | .node l _ => l

/-- insert a child before the first sibling that is not smaller (stable, as Python's `sorted` with `__lt__`) -/
def insF (x : Tree) : Forest → Forest
  | .nil => .cons x .nil
  | .cons y r => if lt y.lab x.lab then .cons y (insF x r) else .cons x (.cons y r)

mutual
/-- `Composite.sort()` / the `sorted(list(comp))` of `_createLayout`, applied at every level -/
def sortT : Tree → Tree
  | .node l kids => .node l (sortF kids)
def sortF : Forest → Forest
  | .nil => .nil
  | .cons t f => insF lt (sortT t) (sortF f)
end

/-- head of a forest is not smaller than `x` (vacuous for the empty forest) -/
def headOk (x : Tree) : Forest → Prop
  | .nil => True
  | .cons y _ => lt y.lab x.lab = false

mutual
/-- every child list, at every depth, is in sorted order (adjacent children never out of order) -/
def DeepSortedT : Tree → Prop
  | .node _ kids => DeepSortedF kids
def DeepSortedF : Forest → Prop
  | .nil => True
  | .cons t f => DeepSortedT t ∧ headOk lt t f ∧ DeepSortedF f
end

/-- what `writeToDB` stores: the rows of the tree with children sorted at every level -/
def saveRows (t : Tree) : List Row := flattenT (sortT lt t)

/-- what `load` returns: the composed tree, sorted (`root.sort()`) -/
def loadTree (rows : List Row) : Option Tree := (compose rows).map (sortT lt)

private theorem sortT_lab (t : Tree) : (sortT lt t).lab = t.lab := by
  cases t; simp [sortT, Tree.lab]

private theorem insF_sorted (hasym : ∀ a b, lt a b = true → lt b a = false) (x : Tree) (hx : DeepSortedT lt x) :
    ∀ (f : Forest), DeepSortedF lt f → DeepSortedF lt (insF lt x f) ∧
      (∀ z : Tree, headOk lt z f → lt x.lab z.lab = false → headOk lt z (insF lt x f))
  | .nil => by intro _; simp [insF, DeepSortedF, headOk, hx]
  | .cons y r => by
    intro hf
    simp only [DeepSortedF] at hf
    obtain ⟨hy, hyr, hr⟩ := hf
    simp only [insF]
    by_cases hlt : lt y.lab x.lab = true
    · simp only [hlt, if_true]
      obtain ⟨h1, h2⟩ := insF_sorted hasym x hx r hr
      refine ⟨⟨hy, h2 y hyr (hasym _ _ hlt), h1⟩, ?_⟩
      intro z hz _
      simpa [headOk] using hz
    · have hlt' : lt y.lab x.lab = false := by simpa using hlt
      simp only [hlt', Bool.false_eq_true, if_false]
      refine ⟨⟨hx, by simp [headOk, hlt'], hy, hyr, hr⟩, ?_⟩
      intro z _ hzx
      simpa [headOk] using hzx

mutual
private theorem sortT_sorted (hasym : ∀ a b, lt a b = true → lt b a = false) : ∀ (t : Tree), DeepSortedT lt (sortT lt t)
  | .node l kids => by simp only [sortT, DeepSortedT]; exact sortF_sorted hasym kids
private theorem sortF_sorted (hasym : ∀ a b, lt a b = true → lt b a = false) : ∀ (f : Forest), DeepSortedF lt (sortF lt f)
  | .nil => by simp [sortF, DeepSortedF]
  | .cons t f => by
    simp only [sortF]
    exact (insF_sorted lt hasym _ (sortT_sorted hasym t) _ (sortF_sorted hasym f)).1
end

mutual
private theorem sortT_of_sorted : ∀ (t : Tree), DeepSortedT lt t → sortT lt t = t
  | .node l kids, h => by simp only [sortT, DeepSortedT] at h ⊢; rw [sortF_of_sorted kids h]
private theorem sortF_of_sorted : ∀ (f : Forest), DeepSortedF lt f → sortF lt f = f
  | .nil, _ => by simp [sortF]
  | .cons t f, h => by
    simp only [DeepSortedF] at h
    obtain ⟨ht, hh, hf⟩ := h
    simp only [sortF, sortT_of_sorted t ht, sortF_of_sorted f hf]
    cases f with
    | nil => simp [insF]
    | cons y r => simp only [headOk] at hh; simp [insF, hh]
end

/-- **what comes back from the database is the saved tree with every child list sorted** — for every tree and every
asymmetric child order `lt` (`ArmiObject.__lt__`: reversed complete indices; `Component.__lt__`: bounding circle) -/
theorem load_save_sorted (hasym : ∀ a b, lt a b = true → lt b a = false) (t : Tree) :
    loadTree lt (saveRows lt t) = some (sortT lt t) := by
  unfold loadTree saveRows
  rw [compose_flatten]
  simp only [Option.map_some]
  rw [sortT_of_sorted lt _ (sortT_sorted lt hasym t)]

/-- **F12, exactly**: the loaded tree equals the saved tree iff every child list of the saved tree was already in
sorted order; an edit that leaves children out of locator order (dischargeSwap, swapAssemblies, full-core
conversion appending assemblies) is therefore the only way child order can change across a round trip. -/
theorem load_save_id_iff (hasym : ∀ a b, lt a b = true → lt b a = false) (t : Tree) :
    loadTree lt (saveRows lt t) = some t ↔ DeepSortedT lt t := by
  rw [load_save_sorted lt hasym t]
  constructor
  · intro h
    have := sortT_sorted lt hasym t
    rw [Option.some.inj h] at this
    exact this
  · intro h
    rw [sortT_of_sorted lt t h]

/-- saving twice / loading twice changes nothing more: sorting is idempotent -/
theorem sort_idem (hasym : ∀ a b, lt a b = true → lt b a = false) (t : Tree) : sortT lt (sortT lt t) = sortT lt t :=
  sortT_of_sorted lt _ (sortT_sorted lt hasym t)


/-! ### the concrete order of `ArmiObject.__lt__`, and the F12 witness -/

/-- `ArmiObject.__lt__` (lexicographic on reversed complete indices) is asymmetric, so the theorems above apply to it -/
theorem armiLt_asymm (a b : Label) (h : armiLt a b = true) : armiLt b a = false := by
  unfold armiLt lexLt at *
  generalize locKey a.loc = x at *
  generalize locKey b.loc = y at *
  obtain ⟨x1, x2, x3⟩ := x
  obtain ⟨y1, y2, y3⟩ := y
  simp only [Bool.or_eq_true, Bool.and_eq_true, decide_eq_true_eq, Bool.or_eq_false_iff, Bool.and_eq_false_iff,
    decide_eq_false_iff_not] at *
  omega

/-- F12 witness: a core whose second assembly sits at a smaller location than the first (what `dischargeSwap` /
`swapAssemblies` leave behind) -/
private def f12Tree : Tree :=
  .node ⟨0, 0, .none, none⟩ (.cons (.node ⟨1, 1, .index 1 0 0, none⟩ .nil) (.cons (.node ⟨1, 2, .index 0 0 0, none⟩ .nil) .nil))

example : (saveRows armiLt f12Tree).map (·.1.serial) = [0, 2, 1] := by decide
example : ¬ DeepSortedT armiLt f12Tree := by
  simp [f12Tree, DeepSortedT, DeepSortedF, headOk, Tree.lab, armiLt, lexLt, locKey]
/-- hence the loaded tree differs from the saved one (child order), by `load_save_id_iff` -/
example : loadTree armiLt (saveRows armiLt f12Tree) ≠ some f12Tree := by
  intro h
  have := (load_save_id_iff armiLt armiLt_asymm f12Tree).mp h
  simp [f12Tree, DeepSortedT, DeepSortedF, headOk, Tree.lab, armiLt, lexLt, locKey] at this
/-- and a tree built in locator order does come back identical -/
example : DeepSortedT armiLt exTree := by
  simp [exTree, DeepSortedT, DeepSortedF, headOk, Tree.lab, armiLt, lexLt, locKey]

/-! ## C04 ∘ C05 -/


/-! ### C04 ∘ C05: every object reads back its own parameter value -/

/-- the per-class column of one parameter: the values of the objects of class `τ`, in layout order
(`Layout.groupedComps[τ]` on the write side, `groupedComps[compType]` of `_initComps` on the read side) -/
def column (rows : List Row) (v : Label → Pack.Entry) (τ : Nat) : List Pack.Entry :=
  (rows.filter (fun r => r.1.ty = τ)).map (fun r => v r.1)

/-- `Database.writeToDB` for one parameter: flatten the tree, encode each class's column with `_writeParams` -/
def saveParam (t : Tree) (v : Label → Pack.Entry) (τ : Nat) : Pack.WriteRes :=
  Pack.writeParam (column (flattenT t) v τ)

/-- `Database.load` for one parameter and row `k` of the stored layout: decode the column of the row's class with
`_readParams` and take entry number `indexInData[k]`; `none` = nothing stored / rejected / unreadable -/
def loadParam (rows : List Row) (stored : Nat → Pack.WriteRes) (counts : Nat → Nat) (k : Nat) : Option Pack.ROut :=
  match rows[k]? with
  | none => none
  | some r =>
    match stored r.1.ty with
    | .ok st =>
      match Pack.readParam (counts r.1.ty) st, (indexInData (rows.map (·.1.ty)))[k]? with
      | some outs, some i => outs[i]?
      | _, _ => none
    | _ => none

/-- **A saved tree loads back with the same shape, and every object reads back its own parameter value.**
For every tree `t` and every assignment `v` of per-object values: the stored layout composes back to `t`
(`compose_flatten`), and for every row `k` whose class column is accepted by `_writeParams` (C05's modelled domain:
one dtype `d` per column, well-formed arrays; guard: no value equal to the None sentinel next to a None), what
`load` hands to object `k` is the documented normalisation of the value object `k` had when saved — its own value, not
a neighbour's (`param_lookup_own`) and not a different one (`write_read_faithful`). -/
theorem save_load_param_own (t : Tree) (v : Label → Pack.Entry) (k : Nat) (hk : k < (flattenT t).length)
    (np : Bool) (d : Pack.DT)
    (hwf : ∀ e ∈ column (flattenT t) v ((flattenT t)[k]).1.ty, Pack.EntryWF np d e)
    (hs : Pack.NoSentinel d (column (flattenT t) v ((flattenT t)[k]).1.ty))
    (st : Pack.Stored) (hacc : saveParam t v ((flattenT t)[k]).1.ty = .ok st) :
    compose (flattenT t) = some t ∧
    loadParam (flattenT t) (saveParam t v) (fun τ => (column (flattenT t) v τ).length) k
      = some (Pack.normalise (Pack.jaggedTest (column (flattenT t) v ((flattenT t)[k]).1.ty)) (v ((flattenT t)[k]).1)) := by
  refine ⟨compose_flatten t, ?_⟩
  generalize hrows : flattenT t = rows at *
  have hread := Pack.write_read_faithful _ np d hwf hs st (by simpa [saveParam, hrows] using hacc)
  obtain ⟨i, hi, hown⟩ := param_lookup_own rows k hk
  unfold loadParam
  simp only [List.getElem?_eq_getElem hk]
  have hacc' : saveParam t v rows[k].1.ty = .ok st := hacc
  simp only [hacc', hread, hi]
  unfold column
  rw [List.getElem?_map, List.getElem?_map, hown]
  rfl


/-! ## several statepoints in one file (statepoint independence) -/

section File
variable {P : Type}

private theorem get_append_single (f : File P) (k name : String) (s : Snap P) :
    File.get (f ++ [(k, s)]) name = match File.get f name with
      | some x => some x
      | none => if k = name then some s else none := by
  induction f with
  | nil => simp [File.get]
  | cons h t ih =>
    obtain ⟨k', s'⟩ := h
    simp only [List.cons_append, File.get]
    by_cases hk : k' = name
    · simp [hk]
    · simp only [hk, if_false]; exact ih

/-- **an accepted write is what a load of that address returns** -/
theorem get_write_same (f f' : File P) (k : String) (s : Snap P) (h : f.write k s = some f') : f'.get k = some s := by
  unfold File.write at h
  cases hg : f.get k with
  | some x => simp [hg] at h
  | none =>
    simp only [hg, Option.some.injEq] at h
    subst h
    rw [get_append_single, hg]; simp

/-- **statepoint independence**: writing statepoint `k` never changes what any OTHER address `k'` holds —
layout (locators, grid keys, materials, temperatures) and parameters alike -/
theorem get_write_other (f f' : File P) (k k' : String) (s : Snap P) (h : f.write k s = some f') (hne : k' ≠ k) :
    f'.get k' = f.get k' := by
  unfold File.write at h
  cases hg : f.get k with
  | some x => simp [hg] at h
  | none =>
    simp only [hg, Option.some.injEq] at h
    subst h
    rw [get_append_single]
    cases f.get k' with
    | some x => rfl
    | none => simp only; rw [if_neg (fun e => hne e.symm)]

/-- **a write to an occupied address is refused** (and, being refused, changes nothing: `write` returns no file) -/
theorem write_occupied (f : File P) (k : String) (s s0 : Snap P) (h : f.get k = some s0) : f.write k s = none := by
  simp [File.write, h]

/-- a write to a free address is accepted -/
theorem write_free (f : File P) (k : String) (s : Snap P) (h : f.get k = none) : ∃ f', f.write k s = some f' := by
  simp [File.write, h]

private theorem writeAll_inv : ∀ (h : List (String × Snap P)) (f f' : File P), f.writeAll h = some f' →
    (∀ k s, f.get k = some s → f'.get k = some s) ∧ (∀ p ∈ h, f'.get p.1 = some p.2)
  | [], f, f', hw => by
    simp only [File.writeAll, Option.some.injEq] at hw; subst hw
    exact ⟨fun _ _ h => h, by simp⟩
  | (k, s) :: r, f, f', hw => by
    simp only [File.writeAll] at hw
    cases hw1 : f.write k s with
    | none => simp [hw1] at hw
    | some f1 =>
      simp only [hw1] at hw
      obtain ⟨keep, got⟩ := writeAll_inv r f1 f' hw
      have hfree : f.get k = none := by
        cases hg : f.get k with
        | none => rfl
        | some x => simp [File.write, hg] at hw1
      refine ⟨?_, ?_⟩
      · intro k' s' hk'
        apply keep
        have hne : k' ≠ k := by intro e; subst e; rw [hfree] at hk'; cases hk'
        rw [get_write_other f f1 k k' s hw1 hne]; exact hk'
      · intro p hp
        rcases List.mem_cons.mp hp with rfl | hp'
        · exact keep _ _ (get_write_same f f1 _ _ hw1)
        · exact got p hp'

/-- **every statepoint of a write history loads back as it was written**, however many statepoints follow it and
whatever they contain: for all histories of accepted writes into a new file and every entry `(k, s)` of the history,
the final file holds exactly `s` at `k`. (3+ statepoints, tree changes in between, and a loaded reactor saved as a
further statepoint are all instances.) -/
theorem history_loads (h : List (String × Snap P)) (f : File P) (hw : File.writeAll [] h = some f) :
    ∀ p ∈ h, f.get p.1 = some p.2 :=
  (writeAll_inv h [] f hw).2

/-- what was in the file before a history of writes is still there afterwards, unchanged -/
theorem history_keeps (h : List (String × Snap P)) (f f' : File P) (hw : f.writeAll h = some f') (k : String) (s : Snap P)
    (hk : f.get k = some s) : f'.get k = some s :=
  (writeAll_inv h f f' hw).1 k s hk

/-- with refused writes skipped instead of ending the run: the FIRST write to every address is the one that loads -/
theorem writeSkip_keeps : ∀ (h : List (String × Snap P)) (f : File P) (k : String) (s : Snap P),
    f.get k = some s → (f.writeSkip h).get k = some s
  | [], _, _, _, hk => hk
  | (k1, s1) :: r, f, k, s, hk => by
    simp only [File.writeSkip]
    cases hw : f.write k1 s1 with
    | none => exact writeSkip_keeps r f k s hk
    | some f1 =>
      apply writeSkip_keeps r f1 k s
      have hne : k ≠ k1 := by
        intro e; subst e
        simp [File.write, hk] at hw
      rw [get_write_other f f1 k1 k s1 hw hne]; exact hk

/-! #### writes, deletes and re-writes in any order: the file refines a plain partial map from address to statepoint -/

/-- the intended meaning of one operation on the map address ↦ statepoint -/
def specStep (m : String → Option (Snap P)) : FOp P → String → Option (Snap P)
  | .write k s => fun k' => if k' = k then (match m k with
      | some x => some x
      | none => some s) else m k'
  | .delete k => fun k' => if k' = k then none else m k'

def specRun (m : String → Option (Snap P)) (ops : List (FOp P)) : String → Option (Snap P) := ops.foldl specStep m

private theorem get_filter_ne (k : String) : ∀ (f : File P) (k' : String),
    File.get (f.filter (fun p => p.1 ≠ k)) k' = if k' = k then none else File.get f k'
  | [], k' => by simp [File.get]
  | (a, s) :: r, k' => by
    by_cases ha : a = k
    · subst ha
      simp only [ne_eq, not_true_eq_false, decide_false, Bool.false_eq_true, not_false_eq_true, List.filter_cons_of_neg]
      rw [get_filter_ne a r k']
      by_cases hk : k' = a
      · simp [hk]
      · have : ¬ a = k' := fun e => hk e.symm
        simp [hk, File.get, this]
    · have hd : decide (a ≠ k) = true := by simpa using ha
      simp only [List.filter_cons, hd, if_true, File.get]
      by_cases hak : a = k'
      · subst hak
        simp [ha]
      · simp only [hak, if_false]
        exact get_filter_ne k r k'

private theorem step_get (f : File P) (op : FOp P) (k' : String) : (f.step op).get k' = specStep f.get op k' := by
  cases op with
  | write k s =>
    simp only [File.step, specStep]
    cases hw : f.write k s with
    | none =>
      simp only [Option.getD_none]
      have hocc : ∃ x, f.get k = some x := by
        cases hg : f.get k with
        | none => simp [File.write, hg] at hw
        | some x => exact ⟨x, rfl⟩
      obtain ⟨x, hx⟩ := hocc
      by_cases hk : k' = k
      · subst hk; simp [hx]
      · simp [hk]
    | some f1 =>
      simp only [Option.getD_some]
      have hfree : f.get k = none := by
        cases hg : f.get k with
        | none => rfl
        | some x => simp [File.write, hg] at hw
      by_cases hk : k' = k
      · subst hk; simp [hfree, get_write_same f f1 _ s hw]
      · simp [hk, get_write_other f f1 k k' s hw hk]
  | delete k =>
    simp only [File.step, specStep, File.delete]
    cases hg : f.get k with
    | none =>
      simp only [Option.getD_none]
      by_cases hk : k' = k
      · subst hk; simp [hg]
      · simp [hk]
    | some x =>
      simp only [Option.getD_some]
      exact get_filter_ne k f k'

/-- **C04-c: any interleaving of writes, deletes and re-writes on one file behaves as the plain map does**: what an
address loads to afterwards is the statepoint of the first accepted write to it since its last delete — whatever
was written, deleted or re-written at OTHER addresses, including addresses that share cycle and node and differ only by
their label (`c00n00`, `c00n00-shuffled` are different group names). Nothing in this depends on which `Database`
object does the reading: the file is the only state. -/
theorem run_refines_spec (ops : List (FOp P)) : ∀ (f : File P) (k : String), (f.run ops).get k = specRun f.get ops k := by
  induction ops with
  | nil => intro f k; rfl
  | cons op r ih =>
    intro f k
    have hfun : (f.step op).get = specStep f.get op := funext (step_get f op)
    simp only [File.run, specRun, List.foldl_cons] at ih ⊢
    rw [ih (f.step op) k, hfun]

/-- an address deleted and written again holds the NEW statepoint; its label-neighbour is untouched -/
example (a b c : Snap P) : specRun (fun _ => none) [.write "c00n00" a, .write "c00n00-x" b, .delete "c00n00", .write "c00n00" c] "c00n00"
    = some c := by simp [specRun, specStep]
example (a b c : Snap P) : specRun (fun _ => none) [.write "c00n00" a, .write "c00n00-x" b, .delete "c00n00", .write "c00n00" c] "c00n00-x"
    = some b := by simp [specRun, specStep]

/-- `Database.writeToDB` of tree `t` (children sorted by `_createLayout`) with its layout-borne extras and parameters -/
def saveSP (f : File P) (name : String) (t : Tree) (ex : List Extra) (p : P) : Option (File P) :=
  f.write name ⟨saveRows lt t, ex, p⟩

/-- `Database.load(cycle, node, statePointName)`: the group's layout composed and sorted, its extras and parameters -/
def loadSP (f : File P) (name : String) : Option (Tree × List Extra × P) :=
  match f.get name with
  | none => none
  | some s => (loadTree lt s.rows).map (fun t => (t, s.extras, s.params))

/-- **C04-b: each statepoint of a multi-statepoint file loads to the state at the time it was written.** For every
history of accepted saves (any trees — same tree with moved pins / other grids / other materials / temperatures, or
changed trees —, any extras, any parameters) into one new file, loading any of its addresses gives that save's tree
with children sorted (`load_save_sorted`), that save's materials/temperatures and that save's parameters:
nothing of an earlier or later statepoint shows through. -/
theorem multi_statepoint_roundtrip (hasym : ∀ a b, lt a b = true → lt b a = false)
    (h : List (String × Tree × List Extra × P)) (f : File P)
    (hw : File.writeAll [] (h.map (fun q => (q.1, (⟨saveRows lt q.2.1, q.2.2.1, q.2.2.2⟩ : Snap P)))) = some f) :
    ∀ q ∈ h, loadSP lt f q.1 = some (sortT lt q.2.1, q.2.2.1, q.2.2.2) := by
  intro q hq
  have := history_loads _ f hw (q.1, ⟨saveRows lt q.2.1, q.2.2.1, q.2.2.2⟩) (List.mem_map.mpr ⟨q, hq, rfl⟩)
  simp only at this
  unfold loadSP
  rw [this]
  simp only [load_save_sorted lt hasym, Option.map_some]

end File

/-- non-vacuity: three statepoints of one tree whose pin locations / grid key / material / temperatures differ; each
loads back its own; a second write to an occupied address is refused -/
private def spA : Snap Nat := ⟨flattenT exTree, [(1, 20, 450)], 7⟩
private def spB : Snap Nat :=
  ⟨flattenT (.node ⟨0, 0, .none, none⟩ (.cons (.node ⟨3, 6, .multi [(1, 0, 0), (0, 0, 0)], some 8⟩ .nil) .nil)), [(2, 25, 450)], 9⟩
private def spFile : Option (File Nat) := File.writeAll [] [("c00n00", spA), ("c00n01", spB), ("c00n01EOL", spA)]
example : (spFile.bind (·.get "c00n00")).map (·.params) = some 7 := by decide
example : (spFile.bind (·.get "c00n01")).map (·.extras) = some [(2, 25, 450)] := by decide
example : (spFile.bind (·.get "c00n01")).map (fun s => s.rows.map (·.1.loc)) = some [.none, .multi [(1, 0, 0), (0, 0, 0)]] := by decide
example : (spFile.bind (·.get "c00n01EOL")).map (·.params) = some 7 := by decide
example : (File.writeAll ([] : File Nat) [("c00n00", spA), ("c00n00", spB)]).isNone = true := by decide
example : groupName 0 1 "" = "c00n01" ∧ groupName 3 12 "EOL" = "c03n12EOL" ∧ groupName 100 7 "" = "c100n07" := by decide

/-! ## the layout as the columns of the file -/

private theorem zipRows_maps : ∀ (rows : List Row),
    zipRows (rows.map (·.1.ty)) (rows.map (·.1.serial)) (rows.map (·.2)) (rows.map (·.1.loc)) (rows.map (·.1.grid)) = rows
  | [] => rfl
  | (lab, n) :: r => by
    simp only [List.map_cons, zipRows, zipRows_maps r]

private theorem lookupGrids_own (tab : List Nat) : ∀ (keys : List (Option Nat)), (∀ g, some g ∈ keys → g ∈ tab) →
    lookupGrids tab (keys.map (fun k => k.bind (idxOf tab))) = some keys
  | [], _ => rfl
  | none :: r, h => by
    simp only [List.map_cons, Option.bind_none, lookupGrids]
    rw [lookupGrids_own tab r (fun g hg => h g (by simp [hg]))]; rfl
  | some g :: r, h => by
    obtain ⟨i, hi⟩ := idxOf_of_mem tab g (h g (by simp))
    simp only [List.map_cons, Option.bind_some, hi, lookupGrids, idxOf_get tab g i hi]
    rw [lookupGrids_own tab r (fun g' hg => h g' (by simp [hg]))]; rfl

/-- **the columns of the file give the rows back**: for every list of rows (every forest, every sequence of locators of
the four kinds, every assignment of grids incl. equal grids shared by many objects and objects without grid)
`_readLayout`/`_initComps` on what `_createLayout`/`writeToDB` stored returns exactly the rows: class, serial number,
child count, locator and the object's OWN grid parameters -/
theorem rows_cols_roundtrip (rows : List Row) : rowsOfCols (colsOfRows rows) = some rows := by
  unfold rowsOfCols colsOfRows
  simp only [unpack_pack_locations]
  unfold gridIndex
  simp only
  rw [lookupGrids_own _ _ (fun g hg => mem_gridTable _ [] g (Or.inr hg))]
  simp only [List.map_map]
  exact congrArg some (zipRows_maps rows)

/-- `Database.writeToDB` / `Database.load` at the level of the stored columns -/
def saveCols (t : Tree) : Cols := colsOfRows (saveRows lt t)
def loadCols (c : Cols) : Option Tree := (rowsOfCols c).bind (loadTree lt)

/-- **C04 layout round trip on the file's columns**: for every tree, what `load` builds from the columns `writeToDB`
stored is the saved tree with every child list sorted — types, serial numbers, child order, locators (all four
kinds) and grids (through the de-duplicated grid table) -/
theorem cols_roundtrip (hasym : ∀ a b, lt a b = true → lt b a = false) (t : Tree) :
    loadCols lt (saveCols lt t) = some (sortT lt t) := by
  unfold loadCols saveCols
  rw [rows_cols_roundtrip]
  simp only [Option.bind_some]
  exact load_save_sorted lt hasym t

example : (loadCols armiLt (saveCols armiLt exTree)).map flattenT = some (flattenT exTree) := by decide
/-- a grid index outside the table / exhausted location data are refused, not defaulted -/
example : rowsOfCols { colsOfRows (flattenT exTree) with gridTab := [7] } = none := by decide
example : rowsOfCols { colsOfRows (flattenT exTree) with locData := [(0, 0, 0)] } = none := by decide

/-- the de-duplicated grid table holds no key twice -/
theorem gridTable_nodup : ∀ (keys : List (Option Nat)) (acc : List Nat), acc.Nodup → (gridTable keys acc).Nodup
  | [], acc, h => by simpa [gridTable] using h
  | none :: r, acc, h => by simp only [gridTable]; exact gridTable_nodup r acc h
  | some g :: r, acc, h => by
    simp only [gridTable]
    split
    · exact gridTable_nodup r acc h
    · rename_i hc
      apply gridTable_nodup r
      rw [List.nodup_append]
      refine ⟨h, by simp, ?_⟩
      intro a ha b hb
      simp at hb; subst hb
      intro e; subst e
      exact hc (by simpa using ha)

/-- … and nothing but grids of the objects -/
theorem gridTable_sub : ∀ (keys : List (Option Nat)) (acc : List Nat) (g : Nat),
    g ∈ gridTable keys acc → g ∈ acc ∨ some g ∈ keys
  | [], acc, g, h => by simpa [gridTable] using h
  | none :: r, acc, g, h => by
    simp only [gridTable] at h
    rcases gridTable_sub r acc g h with h | h
    · exact Or.inl h
    · exact Or.inr (by simp [h])
  | some g' :: r, acc, g, h => by
    simp only [gridTable] at h
    split at h
    · rcases gridTable_sub r acc g h with h | h
      · exact Or.inl h
      · exact Or.inr (by simp [h])
    · rcases gridTable_sub r _ g h with h | h
      · simp at h
        rcases h with h | rfl
        · exact Or.inl h
        · exact Or.inr (by simp)
      · exact Or.inr (by simp [h])

/-! ## `Component.__lt__` is asymmetric too -/

/-- `Component.__lt__` (outer diameter, then inner diameter) is asymmetric: the child-order theorems
(`load_save_sorted`, `load_save_id_iff`, `cols_roundtrip`, `multi_statepoint_roundtrip`) hold for blocks' component
lists as they do for the locator order -/
theorem compLt_asymm (a b : Rat × Rat) (h : compLt a b = true) : compLt b a = false := by
  unfold compLt at *
  by_cases e : a.1 = b.1
  · simp only [e, if_true, decide_eq_true_eq] at h
    simp only [e, if_true, decide_eq_false_iff_not]
    exact Rat.not_lt.mpr (Rat.le_of_lt h)
  · have e' : ¬ b.1 = a.1 := fun x => e x.symm
    simp only [e, if_false, decide_eq_true_eq] at h
    simp only [e', if_false, decide_eq_false_iff_not]
    exact Rat.not_lt.mpr (Rat.le_of_lt h)

example : sortIdxComp [(3, 1), (2, 0), (3, 0), (2, 0)] = [1, 3, 2, 0] := by decide

/-! ## blueprint-assigned parameters on load (C04-a) -/

private theorem groupAppend_names (g : List (GKey × List Nat)) (t i : Nat)
    (hg : ∀ p ∈ g, ∃ n, p.1 = GKey.name n) : ∀ p ∈ groupAppend g (.name t) i, ∃ n, p.1 = GKey.name n := by
  induction g with
  | nil => intro p hp; simp [groupAppend] at hp; exact ⟨t, by simp [hp]⟩
  | cons h r ih =>
    obtain ⟨k', l⟩ := h
    intro p hp
    simp only [groupAppend] at hp
    by_cases hk : k' = GKey.name t
    · simp only [hk, if_true, List.mem_cons] at hp
      rcases hp with rfl | hp
      · exact ⟨t, rfl⟩
      · exact hg p (by simp [hp])
    · simp only [hk, if_false, List.mem_cons] at hp
      rcases hp with rfl | hp
      · exact hg _ (by simp)
      · exact ih (fun q hq => hg q (by simp [hq])) p hp

private theorem initGroupsGo_names : ∀ (tys : List Nat) (g : List (GKey × List Nat)) (i : Nat),
    (∀ p ∈ g, ∃ n, p.1 = GKey.name n) → ∀ p ∈ initGroupsGo g i tys, ∃ n, p.1 = GKey.name n
  | [], g, _, hg => by simpa [initGroupsGo] using hg
  | t :: r, g, i, hg => by
    simp only [initGroupsGo]
    exact initGroupsGo_names r _ (i + 1) (groupAppend_names g t i hg)

private theorem lookupD_cls (g : List (GKey × List Nat)) (c : Nat) (hg : ∀ p ∈ g, ∃ n, p.1 = GKey.name n) :
    lookupD g (.cls c) = [] := by
  induction g with
  | nil => rfl
  | cons h r ih =>
    obtain ⟨k', l⟩ := h
    obtain ⟨n, hn⟩ := hg (k', l) (by simp)
    simp only at hn
    subst hn
    simp only [lookupD]
    have : ¬ (GKey.name n = GKey.cls c) := by intro e; cases e
    simp only [this, if_false]
    exact ih (fun q hq => hg q (by simp [hq]))

/-- **`_assignBlueprintsParams` assigns nothing on load**: it asks `groupedComps` for the class objects `Block` /
`Assembly`, while `_initComps` keyed the dictionary by class-name strings; the `defaultdict` answers with empty lists.
Hence for every layout, every blueprint and every parameter column the values `_readParams` assigned stay as they are. -/
theorem assignBlueprints_noop {V : Type} (tys classes : List Nat) (bp : Nat → Option V) (vals : List V) :
    assignBlueprints (initGroups tys) classes bp vals = vals := by
  unfold assignBlueprints
  have hn : ∀ p ∈ initGroups tys, ∃ n, p.1 = GKey.name n := initGroupsGo_names tys [] 0 (by simp)
  induction classes generalizing vals with
  | nil => rfl
  | cons c r ih =>
    simp only [List.foldl_cons]
    rw [lookupD_cls _ c hn]
    simpa using ih vals

/-- **C04-a: the loaded reactor holds the SAVED value, not the blueprint value.** Object `i`'s value of a parameter
after `load` (constructor default → `_readParams` → `_assignBlueprintsParams`) is the stored one whenever the class
group holds a dataset for the parameter — whatever the blueprint design says (`bp`), also when the stored value differs
from both the default and the blueprint value. (No dataset — all-None column, NoDefault in the column — gives the
constructor default: the known findings `assigned-none-on-every-object…` / `parameter-without-default…`.) -/
theorem load_param_saved_not_blueprint {V : Type} (tys classes : List Nat) (bp : Nat → Option V) (dflt : V)
    (stored : List (Option V)) (i : Nat) (s : V) (hs : stored[i]? = some (some s)) :
    (assignBlueprints (initGroups tys) classes bp (stored.map (readParam dflt)))[i]? = some s := by
  rw [assignBlueprints_noop]
  simp [List.getElem?_map, hs, readParam]

/-- the other half, why the key mismatch matters: had the lookup hit (the class's objects filed under the key asked
for) the blueprint value WOULD replace a saved value that differs from it -/
example : assignBlueprints [(GKey.cls 0, [0, 1])] [0] (fun i => if i = 1 then some 5 else none) [7, 8] = [7, 5] := by decide
example : assignBlueprints (initGroups [0, 0]) [0] (fun i => if i = 1 then some 5 else none) [7, 8] = [7, 8] := by decide


end ArmiVerif.Layout
