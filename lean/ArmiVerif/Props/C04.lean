/-
C04 — a reactor saved to the database loads back observationally equal: the layout / locator / index logic.
Property theorems over Model/Layout.lean (helper lemmas private).

  compose_flatten      `_compose` inverts `_createLayout` for every tree (types, serials, locators, grids, child order)
  flatten_injective    the layout determines the tree
  compose_sound        whatever `_compose` builds re-flattens to the rows it was built from (load twice; save-of-load)
  indexInData_spec, param_lookup_own   every object is paired with its own row of the per-class datasets
  unpack_pack_locations   all sequences of the four locator kinds, all multi-index lengths
  grid_dedup_lookup    de-duplicated grid table gives every object its own grid parameters back
  ancestors_spec       `computeAncestors` (depth 1) = the parent's serial number of every row, for every tree
Parameter value encoding is C05; h5py, blueprint re-construction of components, grids' `reduce()` and the child
sort key are parameters (correspondence / whole-stack oracle only).
-/
import ArmiVerif.Model.Layout

namespace ArmiVerif.Layout


mutual
/-- recursion depth `parseT` needs on the rows of `t` -/
def needT : Tree → Nat
  | .node _ kids => needF kids + 1
def needF : Forest → Nat
  | .nil => 1
  | .cons t f => max (needT t) (needF f) + 1
end

mutual
private theorem parseT_flatten : ∀ (t : Tree) (fuel : Nat) (rest : List Row), needT t ≤ fuel →
    parseT fuel (flattenT t ++ rest) = some (t, rest)
  | .node lab kids, fuel, rest, h => by
    cases fuel with
    | zero => simp [needT] at h
    | succ fuel =>
      simp only [needT] at h
      have := parseF_flatten kids fuel rest (by omega)
      simp only [flattenT, List.cons_append, parseT, this]
private theorem parseF_flatten : ∀ (f : Forest) (fuel : Nat) (rest : List Row), needF f ≤ fuel →
    parseF fuel f.length (flattenF f ++ rest) = some (f, rest)
  | .nil, fuel, rest, h => by
    cases fuel with
    | zero => simp [needF] at h
    | succ fuel => simp [Forest.length, flattenF, parseF]
  | .cons t f, fuel, rest, h => by
    cases fuel with
    | zero => simp [needF] at h
    | succ fuel =>
      simp only [needF] at h
      have h1 := parseT_flatten t fuel (flattenF f ++ rest) (by omega)
      have h2 := parseF_flatten f fuel rest (by omega)
      simp only [Forest.length, flattenF, List.append_assoc, parseF, h1, h2]
end

mutual
private theorem need_le_T : ∀ (t : Tree), needT t ≤ 2 * (flattenT t).length
  | .node lab kids => by
    have := need_le_F kids
    simp only [needT, flattenT, List.length_cons]; omega
private theorem need_le_F : ∀ (f : Forest), needF f ≤ 2 * (flattenF f).length + 1
  | .nil => by simp [needF, flattenF]
  | .cons t f => by
    have h1 := need_le_T t
    have h2 := need_le_F f
    have h3 : 1 ≤ (flattenT t).length := by cases t; simp [flattenT]
    simp only [needF, flattenF, List.length_append]; omega
end

/-- **`_compose` inverts `_createLayout` for every tree**: composing the flattened rows gives back the same
tree — same labels (class, serial number, locator, grid), same children in the same order, at every depth. -/
theorem compose_flatten (t : Tree) : compose (flattenT t) = some t := by
  unfold compose
  have h := parseT_flatten t (2 * (flattenT t).length + 2) [] (by have := need_le_T t; omega)
  simp only [List.append_nil] at h
  rw [h]

/-- **the layout determines the tree**: two trees with the same rows are the same tree -/
theorem flatten_injective (t u : Tree) (h : flattenT t = flattenT u) : t = u := by
  have h1 := compose_flatten t
  have h2 := compose_flatten u
  rw [h] at h1
  rw [h1] at h2
  exact Option.some.inj h2

private theorem parse_sound : ∀ (fuel : Nat),
    (∀ rows t rest, parseT fuel rows = some (t, rest) → rows = flattenT t ++ rest) ∧
    (∀ n rows f rest, parseF fuel n rows = some (f, rest) → rows = flattenF f ++ rest ∧ f.length = n) := by
  intro fuel
  induction fuel with
  | zero => constructor <;> (intros; simp_all [parseT, parseF])
  | succ fuel ih =>
    obtain ⟨ihT, ihF⟩ := ih
    constructor
    · intro rows t rest h
      cases rows with
      | nil => simp [parseT] at h
      | cons row rows =>
        obtain ⟨lab, n⟩ := row
        simp only [parseT] at h
        cases hp : parseF fuel n rows with
        | none => simp [hp] at h
        | some pr =>
          obtain ⟨kids, rest'⟩ := pr
          simp only [hp, Option.some.injEq, Prod.mk.injEq] at h
          obtain ⟨rfl, rfl⟩ := h
          obtain ⟨h1, h2⟩ := ihF n rows kids rest' hp
          simp [flattenT, h1, h2]
    · intro n rows f rest h
      cases n with
      | zero =>
        simp only [parseF, Option.some.injEq, Prod.mk.injEq] at h
        obtain ⟨rfl, rfl⟩ := h
        simp [flattenF, Forest.length]
      | succ n =>
        simp only [parseF] at h
        cases hp : parseT fuel rows with
        | none => simp [hp] at h
        | some pr =>
          obtain ⟨t, r1⟩ := pr
          simp only [hp] at h
          cases hq : parseF fuel n r1 with
          | none => simp [hq] at h
          | some pr2 =>
            obtain ⟨f', r2⟩ := pr2
            simp only [hq, Option.some.injEq, Prod.mk.injEq] at h
            obtain ⟨rfl, rfl⟩ := h
            have h1 := ihT rows t r1 hp
            obtain ⟨h2, h3⟩ := ihF n r1 f' r2 hq
            simp [flattenF, Forest.length, h1, h2, h3]

/-- **whatever `_compose` builds from a layout flattens back to exactly that layout** (all row lists): hence
loading the same snapshot twice gives the same tree, and saving a loaded reactor writes the rows it was loaded from -/
theorem compose_sound (rows : List Row) (t : Tree) (h : compose rows = some t) : flattenT t = rows := by
  unfold compose at h
  split at h
  · rename_i t' heq
    simp at h; subst h
    have := (parse_sound _).1 rows t' [] heq
    simp at this; exact this.symm
  · simp at h

/-! ### indexInData -/

private theorem indexInDataGo_get (tys : List Nat) : ∀ (seen : List Nat) (k : Nat) (hk : k < tys.length),
    (indexInDataGo seen tys)[k]? = some (seen.count tys[k] + (tys.take k).count tys[k]) := by
  induction tys with
  | nil => intro seen k hk; simp at hk
  | cons t r ih =>
    intro seen k hk
    cases k with
    | zero => simp [indexInDataGo]
    | succ k =>
      have hk' : k < r.length := by simpa using hk
      simp only [indexInDataGo, List.getElem?_cons_succ, List.getElem_cons_succ, List.take_succ_cons]
      rw [ih (t :: seen) k hk']
      simp only [List.count_cons]
      congr 1
      by_cases h : t = r[k] <;> simp [h] <;> omega

/-- **`indexInData` of row k is the number of earlier rows of the same class** -/
theorem indexInData_spec (tys : List Nat) (k : Nat) (hk : k < tys.length) :
    (indexInData tys)[k]? = some ((tys.take k).count tys[k]) := by
  unfold indexInData
  rw [indexInDataGo_get tys [] k hk]
  simp

private theorem filter_get_count {α} (p : α → Bool) : ∀ (l : List α) (k : Nat) (hk : k < l.length), p l[k] = true →
    (l.filter p)[((l.take k).filter p).length]? = some l[k] := by
  intro l
  induction l with
  | nil => intro k hk; simp at hk
  | cons a r ih =>
    intro k hk hp
    cases k with
    | zero => simp at hp; simp [hp]
    | succ k =>
      have hk' : k < r.length := by simpa using hk
      simp only [List.getElem_cons_succ] at hp
      simp only [List.take_succ_cons, List.getElem_cons_succ]
      by_cases ha : p a = true
      · simp only [List.filter_cons, ha, if_true, List.length_cons, List.getElem?_cons_succ]
        exact ih k hk' hp
      · simp only [List.filter_cons, ha]
        exact ih k hk' hp

private theorem count_map_eq {α} (f : α → Nat) (a : Nat) : ∀ (l : List α),
    (l.map f).count a = (l.filter (fun r => decide (f r = a))).length := by
  intro l
  induction l with
  | nil => rfl
  | cons x r ih =>
    simp only [List.map_cons, List.count_cons, ih, List.filter_cons]
    by_cases h : f x = a <;> simp [h]

/-- **every object reads its own parameter values**: the per-class datasets hold the objects of that class in
layout order (`groupedComps`), so position `indexInData[k]` of the dataset of row k's class is row k itself -/
theorem param_lookup_own (rows : List Row) (k : Nat) (hk : k < rows.length) :
    ∃ i, (indexInData (rows.map (·.1.ty)))[k]? = some i ∧
      (rows.filter (fun r => r.1.ty = rows[k].1.ty))[i]? = some rows[k] := by
  have hk' : k < (rows.map (·.1.ty)).length := by simpa using hk
  refine ⟨_, indexInData_spec _ k hk', ?_⟩
  have h := filter_get_count (fun r : Row => decide (r.1.ty = rows[k].1.ty)) rows k hk (by simp)
  rw [List.getElem_map, ← List.map_take, count_map_eq]
  exact h

/-! ### locations -/

/-- **location packing round trip**: for every sequence of locators of the four kinds (none, free coordinates,
grid indices, multi-index of any length) `_unpackLocationsV2` returns what `_packLocationsV3` was given -/
theorem unpack_pack_locations : ∀ (locs : List Loc), unpackLocs (packLocs locs).1 (packLocs locs).2 = some locs := by
  intro locs
  induction locs with
  | nil => simp [packLocs, unpackLocs]
  | cons l r ih =>
    cases l with
    | none => simp only [packLocs, unpackLocs, ih, Option.map_some]
    | coord x y z => simp only [packLocs, unpackLocs, ih, Option.map_some]
    | index i j k => simp only [packLocs, unpackLocs, ih, Option.map_some]
    | multi m =>
      simp only [packLocs, unpackLocs, List.length_append, Nat.le_add_right, if_true, List.drop_left', List.take_left', ih,
        Option.map_some]

/-! ### grid de-duplication -/

private theorem idxOf_get : ∀ (l : List Nat) (g i : Nat), idxOf l g = some i → l[i]? = some g := by
  intro l
  induction l with
  | nil => intro g i h; simp [idxOf] at h
  | cons a t ih =>
    intro g i h
    simp only [idxOf] at h
    split at h
    · rename_i ha; simp at h; subst h; simp [ha]
    · simp only [Option.map_eq_some_iff] at h
      obtain ⟨j, hj, rfl⟩ := h
      simp [ih g j hj]

private theorem idxOf_of_mem : ∀ (l : List Nat) (g : Nat), g ∈ l → ∃ i, idxOf l g = some i := by
  intro l
  induction l with
  | nil => intro g h; simp at h
  | cons a t ih =>
    intro g h
    simp only [idxOf]
    by_cases ha : a = g
    · exact ⟨0, by simp [ha]⟩
    · rcases List.mem_cons.mp h with rfl | h'
      · exact absurd rfl ha
      · obtain ⟨j, hj⟩ := ih g h'
        exact ⟨j + 1, by simp [ha, hj]⟩

private theorem mem_gridTable : ∀ (keys : List (Option Nat)) (acc : List Nat) (g : Nat),
    (g ∈ acc ∨ some g ∈ keys) → g ∈ gridTable keys acc := by
  intro keys
  induction keys with
  | nil => intro acc g h; simpa [gridTable] using h
  | cons k r ih =>
    intro acc g h
    cases k with
    | none =>
      simp only [gridTable]
      apply ih
      rcases h with h | h
      · exact Or.inl h
      · simp at h; exact Or.inr h
    | some g' =>
      simp only [gridTable]
      split
      · rename_i hc
        apply ih
        rcases h with h | h
        · exact Or.inl h
        · simp at h
          rcases h with rfl | h
          · exact Or.inl (by simpa using hc)
          · exact Or.inr h
      · apply ih
        rcases h with h | h
        · exact Or.inl (by simp [h])
        · simp at h
          rcases h with rfl | h
          · exact Or.inl (by simp)
          · exact Or.inr h

/-- **grid de-duplication is lossless**: every object with a grid gets an index, and the table entry at that
index is the object's own grid key (objects without grid get none) -/
theorem grid_dedup_lookup (keys : List (Option Nat)) (k : Nat) (hk : k < keys.length) :
    match keys[k] with
    | none => (gridIndex keys)[k]? = some none
    | some g => ∃ i, (gridIndex keys)[k]? = some (some i) ∧ (gridTable keys [])[i]? = some g := by
  unfold gridIndex
  simp only [List.getElem?_map, List.getElem?_eq_getElem hk, Option.map_some]
  cases hkk : keys[k] with
  | none => simp
  | some g =>
    have hmem : g ∈ gridTable keys [] := mem_gridTable keys [] g (Or.inr (by rw [← hkk]; exact List.getElem_mem hk))
    obtain ⟨i, hi⟩ := idxOf_of_mem _ g hmem
    exact ⟨i, by simp [hi], idxOf_get _ g i hi⟩


/-! ### computeAncestors -/


mutual
/-- the parent's serial number of every row, read off the tree -/
def parentsT (p : Option Nat) : Tree → List (Option Nat)
  | .node lab kids => p :: parentsF (some lab.serial) kids
def parentsF (p : Option Nat) : Forest → List (Option Nat)
  | .nil => []
  | .cons t f => parentsT p t ++ parentsF p f
end

private def snRow (r : Row) : Nat × Nat := (r.1.serial, r.2)

private def dec : List (Nat × Nat) → List (Nat × Nat)
  | [] => []
  | (s, c) :: t => (s, c - 1) :: t

private def popZ (st : List (Nat × Nat)) : List (Nat × Nat) := st.dropWhile (fun p => p.2 = 0)

private theorem popZ_pos (s c : Nat) (st : List (Nat × Nat)) (h : 0 < c) : popZ ((s, c) :: st) = (s, c) :: st := by
  have : ¬ c = 0 := by omega
  simp [popZ, List.dropWhile, this]

private theorem popZ_zero (s : Nat) (st : List (Nat × Nat)) : popZ ((s, 0) :: st) = popZ st := by
  simp [popZ, List.dropWhile]

private theorem go_step (sn nc : Nat) (rest : List (Nat × Nat)) (st : List (Nat × Nat)) :
    ancestorsGo ((sn, nc) :: rest) st =
      (st.head?.map (·.1)) :: ancestorsGo rest (popZ (if nc > 0 then (sn, nc) :: dec st else dec st)) := by
  cases st with
  | nil => simp [ancestorsGo, dec, popZ]
  | cons h t => obtain ⟨s, c⟩ := h; simp [ancestorsGo, dec, popZ]

mutual
private theorem anc_T : ∀ (t : Tree) (rest : List (Nat × Nat)) (st : List (Nat × Nat)),
    ancestorsGo ((flattenT t).map snRow ++ rest) st =
      parentsT (st.head?.map (·.1)) t ++ ancestorsGo rest (popZ (dec st))
  | .node lab kids, rest, st => by
    simp only [flattenT, List.map_cons, List.cons_append, snRow, parentsT]
    rw [go_step]
    cases kids with
    | nil => simp [Forest.length, flattenF, parentsF]
    | cons t f =>
      have hpos : 0 < (Forest.cons t f).length := by simp [Forest.length]
      simp only [hpos, if_true]
      rw [popZ_pos _ _ _ hpos]
      have := anc_F (Forest.cons t f) rest lab.serial (Forest.cons t f).length (dec st) hpos (Nat.le_refl _)
      rw [this, Nat.sub_self, popZ_zero]
private theorem anc_F : ∀ (f : Forest) (rest : List (Nat × Nat)) (s c : Nat) (st : List (Nat × Nat)),
    0 < c → f.length ≤ c →
    ancestorsGo ((flattenF f).map snRow ++ rest) ((s, c) :: st) =
      parentsF (some s) f ++ ancestorsGo rest (popZ ((s, c - f.length) :: st))
  | .nil, rest, s, c, st, hc, _ => by
    simp [flattenF, parentsF, Forest.length, popZ_pos _ _ _ hc]
  | .cons t f, rest, s, c, st, hc, hk => by
    simp only [flattenF, List.map_append, List.append_assoc, parentsF]
    rw [anc_T t ((flattenF f).map snRow ++ rest) ((s, c) :: st)]
    simp only [List.head?_cons, Option.map_some, dec]
    cases f with
    | nil =>
      simp [flattenF, parentsF, Forest.length]
    | cons t' f' =>
      have hl : (Forest.cons t (Forest.cons t' f')).length = (Forest.cons t' f').length + 1 := rfl
      have hl' : (Forest.cons t' f').length = f'.length + 1 := rfl
      have h1 : 0 < c - 1 := by omega
      rw [popZ_pos _ _ _ h1, anc_F (Forest.cons t' f') rest s (c - 1) st h1 (by omega)]
      have e : c - 1 - (Forest.cons t' f').length = c - (Forest.cons t (Forest.cons t' f')).length := by omega
      rw [e]
end

/-- **`computeAncestors` (depth 1) returns, for every row of a layout, the serial number of its parent**
(none for the root), for every tree -/
theorem ancestors_spec (t : Tree) :
    ancestors ((flattenT t).map (fun r => (r.1.serial, r.2))) = parentsT none t := by
  have := anc_T t [] []
  simp only [List.append_nil, List.head?_nil, Option.map_none] at this
  have hf : (fun r : Row => (r.1.serial, r.2)) = snRow := rfl
  unfold ancestors
  rw [hf, this]
  simp [ancestorsGo]


/-! ### non-vacuity -/

private def exTree : Tree :=
  .node ⟨0, 0, .none, none⟩ (.cons (.node ⟨1, 1, .coord 0 0 0, some 7⟩
      (.cons (.node ⟨2, 5, .index 1 0 0, some 9⟩ (.cons (.node ⟨3, 6, .multi [(0, 0, 0), (1, 0, 0)], none⟩ .nil) .nil))
        (.cons (.node ⟨2, 8, .index 0 1 0, some 9⟩ .nil) .nil)))
    (.cons (.node ⟨4, 20, .coord 5 5 6, some 7⟩ .nil) .nil))

example : (flattenT exTree).map (·.2) = [2, 2, 1, 0, 0, 0] := by decide
example : indexInData ((flattenT exTree).map (·.1.ty)) = [0, 0, 0, 0, 1, 0] := by decide
example : gridIndex ((flattenT exTree).map (·.1.grid)) = [none, some 0, some 1, none, some 1, some 0] := by decide
example : (packLocs ((flattenT exTree).map (·.1.loc))).1 = [.N, .C, .I, .M 2, .I, .C] := by decide
example : ancestors ((flattenT exTree).map (fun r => (r.1.serial, r.2))) = [none, some 0, some 1, some 5, some 1, some 0] := by decide
/-- a truncated layout is refused, not silently completed -/
example : compose ((flattenT exTree).take 4) = none := by decide
example : compose (flattenT exTree ++ [(⟨9, 9, .none, none⟩, 0)]) = none := by decide

end ArmiVerif.Layout
