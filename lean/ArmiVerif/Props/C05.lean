/-
C05 — every parameter value shape survives database encoding and decoding.
Property theorems over Model/Pack.lean (+ the regenerated NONE_MAP in Gen/PackConsts.lean).

  write_read_faithful        the main theorem (strategy_total / strategy_reject_or_faithful) on the modelled domain
  jagged_roundtrip           JaggedArray.__init__ / unpack for all shapes, None positions, empties
  sentinel_write_read_agree  regenerated table obligation: writer and reader sentinels agree per dtype
  sentinel_roundtrip         None sentinels, every dtype, under the explicit "no value equals the sentinel" guard
  array_sentinel_roundtrip   the same for fixed-shape arrays with None between them (direct packSpecialData path)
  dict_roundtrip, dict_read, mem_keyUnion   dict strategy (key union, NaN fill)
  flags_bytes_roundtrip, toBytes_isSome_iff Flag.to_bytes / from_bytes, all widths
  remapBits_spec, remapBits_injective       FlagSerializer._remapBits
  flags_meaning_preserved    _unpackImpl keeps the meaning under any reordering / extension
  flagsOn_canon, extend_auto_keeps_invariant, canon_empty   the "field k has value 2^k" invariant
  flags_pack_unpack_meaning  the flag pieces assembled: pack -> bytes -> unpack -> same names on
  readerAfter_knows, flags_roundtrip_total   the two former hypotheses (unknown names get added; pigeonhole length) proved:
                             total statement over `flagsPack` / `flagsUnpack` for any two classes satisfying the invariant
Helper lemmas are private.
-/
import ArmiVerif.Model.Pack

namespace ArmiVerif.Pack


/-! ### jagged -/
def ndShapes (l : List JShape) : List (List Nat) := l.filterMap JShape.ndOf

@[simp] private theorem ndShapes_nil : ndShapes [] = [] := rfl
@[simp] private theorem ndShapes_nd (s : List Nat) (r : List JShape) : ndShapes (.nd s :: r) = s :: ndShapes r := rfl

def outJ (d : DT) : JItem → ROut
  | .data (.nd sh) _ vals => .arr d sh vals
  | _ => .none

def ItemGood (d : DT) : JItem → Prop
  | .none => True
  | .data (.nd sh) dt vals => dt = d ∧ prod sh = vals.length ∧ sum sh ≠ 0
  | _ => False

private theorem packJGo_nones_ge : ∀ (items : List JItem) (i off : Nat) (p : JPacked),
    packJGo items i off = some p → ∀ j ∈ p.nones, i ≤ j := by
  intro items
  induction items with
  | nil => intro i off p h; simp [packJGo] at h; subst h; simp
  | cons it r ih =>
    intro i off p h j hj
    cases it with
    | none =>
      simp only [packJGo, Option.map_eq_some_iff] at h
      obtain ⟨p', hp', rfl⟩ := h
      simp at hj
      rcases hj with rfl | hj
      · omega
      · have := ih _ _ _ hp' j hj; omega
    | err => simp [packJGo] at h
    | data sh dt vals =>
      simp only [packJGo, Option.map_eq_some_iff] at h
      obtain ⟨p', hp', rfl⟩ := h
      simp at hj
      have := ih _ _ _ hp' j hj; omega

private theorem unpackGo_packJGo (d : DT) : ∀ (items : List JItem) (i off : Nat) (p : JPacked),
    packJGo items i off = some p → (∀ it ∈ items, ItemGood d it) →
    ∀ (pre : List SV) (N : List Nat), pre.length = off →
      (∀ j, i ≤ j → N.contains j = p.nones.contains j) →
      unpackGo d (pre ++ p.flat) N items.length i (p.offsets.zip (ndShapes p.shapes))
        = some (items.map (outJ d)) := by
  intro items
  induction items with
  | nil => intro i off p h _ pre N _ _; simp [unpackGo]
  | cons it r ih =>
    intro i off p h hg pre N hpre hN
    have hgr : ∀ it ∈ r, ItemGood d it := fun x hx => hg x (List.mem_cons_of_mem _ hx)
    have hgit := hg it (List.mem_cons_self ..)
    cases it with
    | none =>
      simp only [packJGo, Option.map_eq_some_iff] at h
      obtain ⟨p', hp', rfl⟩ := h
      have hi : N.contains i = true := by rw [hN i (Nat.le_refl _)]; simp
      have hN' : ∀ j, i + 1 ≤ j → N.contains j = p'.nones.contains j := by
        intro j hj
        rw [hN j (by omega)]
        simp only [List.contains_cons]
        have : (j == i) = false := by simp; omega
        simp [this]
      have := ih (i + 1) off p' hp' hgr pre N hpre hN'
      simp only [List.length_cons, unpackGo, hi, if_true, List.map_cons, outJ]
      rw [this]; rfl
    | err => exact absurd hgit (by simp [ItemGood])
    | data sh dt vals =>
      cases sh with
      | int n => exact absurd hgit (by simp [ItemGood])
      | nd s =>
        simp only [ItemGood] at hgit
        obtain ⟨rfl, hprod, hsum⟩ := hgit
        simp only [packJGo, Option.map_eq_some_iff] at h
        obtain ⟨p', hp', rfl⟩ := h
        have hge := packJGo_nones_ge r (i + 1) (off + vals.length) p' hp'
        have hi : N.contains i = false := by
          rw [hN i (Nat.le_refl _)]
          simp only []
          apply Bool.eq_false_iff.mpr
          intro hc
          have := hge i (by simpa using hc)
          omega
        have hN' : ∀ j, i + 1 ≤ j → N.contains j = p'.nones.contains j := by
          intro j hj; rw [hN j (by omega)]
        have := ih (i + 1) (off + vals.length) p' hp' hgr (pre ++ vals) N (by simp [hpre]) hN'
        simp only [List.length_cons, unpackGo, hi, ndShapes_nd, List.zip_cons_cons, List.map_cons, outJ]
        have hmk : mkArr dt (pre ++ (vals ++ p'.flat)) off s = some (.arr dt s vals) := by
          unfold mkArr
          have h1 : off + prod s ≤ (pre ++ (vals ++ p'.flat)).length := by simp; omega
          rw [if_pos h1]
          congr 2
          rw [← hpre, List.drop_left' rfl, hprod, List.take_left' rfl]
        simp only [Bool.false_eq_true, if_false, hmk]
        rw [List.append_assoc] at this
        rw [this]; rfl

/-- modelled domain + well-formedness for the ragged strategy: the entry is None / empty, or
contributes one rectangular block of dtype `d` whose data length matches its shape
(excludes exactly the entries `JaggedArray.__init__` refuses with an exception: 0-d arrays, since fix 8558ef4
numpy-bool / str scalars and dicts, since fix 49d3d18 ragged nested lists). -/
def JGood (d : DT) (e : Entry) : Prop :=
  match classifyJ e with
  | .none => True
  | .data (.nd sh) dt vals => dt = d ∧ prod sh = vals.length
  | _ => False

private theorem classifyJ_sum (e : Entry) (sh dt vals) (h : classifyJ e = .data (.nd sh) dt vals) :
    sum sh ≠ 0 := by
  cases e with
  | none => simp [classifyJ] at h
  | dict kv => simp [classifyJ] at h
  | scal np dt' v =>
    simp only [classifyJ] at h
    split at h <;> simp at h
    obtain ⟨rfl, _, _⟩ := h; simp [sum]
  | arr dt' shape data =>
    cases shape with
    | nil => simp [classifyJ] at h
    | cons n r =>
      simp only [classifyJ] at h
      split at h <;> simp at h
      obtain ⟨rfl, _, _⟩ := h; simp [sum]; omega
  | list t dt' xs =>
    simp only [classifyJ] at h
    by_cases hn : xs.length = 0
    · simp [hn] at h
    · simp [hn] at h; obtain ⟨rfl, _, _⟩ := h; simpa [sum] using hn
  | list2 t dt' rows =>
    simp only [classifyJ] at h
    by_cases hn : rows.length = 0
    · simp [hn] at h
    · simp only [hn, if_false] at h
      split at h <;> simp at h
      obtain ⟨rfl, _, _⟩ := h
      simp only [sum]; omega

private theorem jgood_item (d : DT) (e : Entry) (h : JGood d e) : ItemGood d (classifyJ e) := by
  unfold JGood at h
  generalize hc : classifyJ e = c at h
  cases c with
  | none => trivial
  | err => exact h
  | data sh dt vals =>
    cases sh with
    | int n => exact h
    | nd s => exact ⟨h.1, h.2, classifyJ_sum e s dt vals hc⟩

private theorem jgood_out (d : DT) (e : Entry) (h : JGood d e) : outJ d (classifyJ e) = normalise true e := by
  cases e with
  | none => rfl
  | dict kv => simp [JGood, classifyJ] at h
  | scal np dt v =>
    simp only [JGood, classifyJ] at h
    simp only [classifyJ]
    split
    · rename_i hc; simp only [hc, if_true] at h; simp [outJ, normalise, h.1]
    · rename_i hc; simp [hc] at h
  | arr dt shape data =>
    cases shape with
    | nil => simp [JGood, classifyJ] at h
    | cons n r =>
      simp only [JGood, classifyJ] at h ⊢
      by_cases hn : n = 0
      · simp [hn, outJ, normalise]
      · simp only [hn, if_false] at h ⊢; simp [outJ, normalise, hn, h.1]
  | list t dt xs =>
    simp only [JGood, classifyJ] at h ⊢
    by_cases hn : xs.length = 0
    · have : xs = [] := List.length_eq_zero_iff.mp hn
      simp [this, outJ, normalise]
    · simp only [hn, if_false] at h ⊢
      have : xs ≠ [] := fun hx => hn (by simp [hx])
      simp [outJ, normalise, h.1, this]
  | list2 t dt rows =>
    simp only [JGood, classifyJ] at h ⊢
    by_cases hn : rows.length = 0
    · have : rows = [] := List.length_eq_zero_iff.mp hn
      simp [this, outJ, normalise]
    · simp only [hn, if_false] at h ⊢
      have hne : rows ≠ [] := fun hx => hn (by simp [hx])
      cases hr : rectangular rows with
      | none => simp [hr] at h
      | some m => simp only [hr] at h ⊢; simp [outJ, normalise, hr, h.1, hne]

private theorem packJGo_facts (d : DT) : ∀ (items : List JItem) (i off : Nat) (p : JPacked),
    packJGo items i off = some p → (∀ it ∈ items, ItemGood d it) →
    (∀ s ∈ p.shapes, ∃ sh, s = .nd sh ∧ sum sh ≠ 0) ∧ p.offsets.length = p.shapes.length ∧
    p.shapes.length + p.nones.length = items.length ∧ (∀ t ∈ p.dts, t = d) ∧ (p.dts = [] → p.flat = []) := by
  intro items
  induction items with
  | nil => intro i off p h _; simp [packJGo] at h; subst h; simp
  | cons it r ih =>
    intro i off p h hg
    have hgr : ∀ it ∈ r, ItemGood d it := fun x hx => hg x (List.mem_cons_of_mem _ hx)
    have hgit := hg it (List.mem_cons_self ..)
    cases it with
    | none =>
      simp only [packJGo, Option.map_eq_some_iff] at h
      obtain ⟨p', hp', rfl⟩ := h
      obtain ⟨a, b', c, e, f⟩ := ih _ _ _ hp' hgr
      refine ⟨a, b', ?_, e, f⟩
      simp; omega
    | err => exact absurd hgit (by simp [ItemGood])
    | data sh dt vals =>
      cases sh with
      | int n => exact absurd hgit (by simp [ItemGood])
      | nd s =>
        simp only [ItemGood] at hgit
        obtain ⟨rfl, hprod, hsum⟩ := hgit
        simp only [packJGo, Option.map_eq_some_iff] at h
        obtain ⟨p', hp', rfl⟩ := h
        obtain ⟨a, b', c, e, f⟩ := ih _ _ _ hp' hgr
        refine ⟨?_, ?_, ?_, ?_, ?_⟩
        · intro x hx
          simp at hx
          rcases hx with rfl | hx
          · exact ⟨s, rfl, hsum⟩
          · exact a x hx
        · simp [b']
        · simp; omega
        · intro t ht
          simp only [] at ht
          split at ht
          · exact e t ht
          · simp at ht; rcases ht with rfl | ht
            · rfl
            · exact e t ht
        · intro hd
          simp only [] at hd
          split at hd
          · rename_i hv
            have : vals = [] := by simpa using hv
            simp [this, f hd]
          · simp at hd

private theorem shapesArray_nd : ∀ (l : List JShape) (S : Shapes), (∀ s ∈ l, ∃ sh, s = .nd sh) →
    shapesArray l = some S → S = .nd (ndShapes l) := by
  intro l S hl h
  cases l with
  | nil => simp [shapesArray] at h; subst h; rfl
  | cons x r =>
    obtain ⟨sh, rfl⟩ := hl _ (List.mem_cons_self ..)
    simp only [shapesArray] at h
    split at h
    · simp at h; subst h; rfl
    · simp at h

private theorem promote_self (a : DT) : promote a a = a := by simp [promote]

private theorem promoteAll_const (d : DT) : ∀ (l : List DT), (∀ t ∈ l, t = d) → l ≠ [] → promoteAll l = d := by
  intro l hl hne
  cases l with
  | nil => exact absurd rfl hne
  | cons a r =>
    have ha : a = d := hl a (List.mem_cons_self ..)
    subst ha
    simp only [promoteAll]
    have : ∀ (r : List DT), (∀ t ∈ r, t = a) → r.foldl promote a = a := by
      intro r
      induction r with
      | nil => intro _; rfl
      | cons c r ih =>
        intro h
        have hb : c = a := h c (List.mem_cons_self ..)
        subst hb
        simp only [List.foldl_cons, promote_self]
        exact ih (fun t ht => h t (List.mem_cons_of_mem _ ht))
    exact this r (fun t ht => hl t (List.mem_cons_of_mem _ ht))

/-- **ragged strategy round trip.** Whatever `JaggedArray` accepts of well-formed one-dtype entries
(None, empty, scalars, arrays and lists of any shapes and positions) is read back by
`JaggedArray.unpack` as the same list up to the documented normalisations: sequences and scalars
come back as arrays, empty entries come back unset. -/
theorem jagged_roundtrip (xs : List Entry) (d : DT) (hg : ∀ e ∈ xs, JGood d e) (st : Stored)
    (h : writeJagged xs = .ok st) :
    readParam xs.length st = some (xs.map (normalise true)) := by
  unfold writeJagged at h
  split at h
  · simp at h
  · rename_i p hp
    split at h
    · simp at h
    · rename_i shapes hs
      split at h
      · simp at h
      · rename_i hflat
        simp only [] at h
        split at h
        · simp at h
        · simp only [WriteRes.ok.injEq] at h
          subst h
          have hgi : ∀ it ∈ xs.map classifyJ, ItemGood d it := by
            intro it hit
            obtain ⟨e, he, rfl⟩ := List.mem_map.mp hit
            exact jgood_item d e (hg e he)
          obtain ⟨hsh, hlen, hcount, hdts, hdn⟩ := packJGo_facts d _ _ _ _ hp hgi
          have hS := shapesArray_nd _ _ (fun s hs' => let ⟨sh, h1, _⟩ := hsh s hs'; ⟨sh, h1⟩) hs
          subst hS
          have hdt : promoteAll p.dts = d := by
            apply promoteAll_const d _ hdts
            intro hnil
            exact hflat (by simp [hdn hnil])
          have hfilter : (p.offsets.zip (ndShapes p.shapes)).filter (fun q => sum q.2 ≠ 0)
              = p.offsets.zip (ndShapes p.shapes) := by
            apply List.filter_eq_self.mpr
            intro q hq
            have hq2 : q.2 ∈ ndShapes p.shapes := (List.of_mem_zip hq).2
            have : ∀ (l : List JShape), (∀ s ∈ l, ∃ sh, s = .nd sh ∧ sum sh ≠ 0) → ∀ t ∈ ndShapes l, sum t ≠ 0 := by
              intro l
              induction l with
              | nil => intro _ t ht; simp at ht
              | cons x r ih =>
                intro hl t ht
                obtain ⟨sh, rfl, hne⟩ := hl x (List.mem_cons_self ..)
                simp at ht
                rcases ht with rfl | ht
                · exact hne
                · exact ih (fun s hs' => hl s (List.mem_cons_of_mem _ hs')) t ht
            simpa using this _ hsh _ hq2
          have hndlen : (ndShapes p.shapes).length = p.shapes.length := by
            have : ∀ (l : List JShape), (∀ s ∈ l, ∃ sh, s = .nd sh) → (ndShapes l).length = l.length := by
              intro l
              induction l with
              | nil => intro _; rfl
              | cons x r ih =>
                intro hl
                obtain ⟨sh, rfl⟩ := hl x (List.mem_cons_self ..)
                simp [ih (fun s hs' => hl s (List.mem_cons_of_mem _ hs'))]
            exact this _ (fun s hs' => let ⟨sh, h1, _⟩ := hsh s hs'; ⟨sh, h1⟩)
          have hmain := unpackGo_packJGo d _ 0 0 p hp hgi [] p.nones rfl (fun _ _ => rfl)
          simp only [List.nil_append, List.length_map] at hmain
          simp only [readParam, unpackJ, hfilter, hdt]
          have hfuel : (p.offsets.zip (ndShapes p.shapes)).length + p.nones.length = xs.length := by
            simp [List.length_zip, hlen, hndlen] at hcount ⊢; omega
          rw [hfuel, hmain]
          simp only [List.length_map, ne_eq, not_true_eq_false, if_false, List.map_map]
          congr 1
          apply List.map_congr_left
          intro e he
          exact jgood_out d e (hg e he)

/-! ### None sentinels -/

def allDT : List DT := [.b, .i8, .i16, .i32, .i64, .u8, .u16, .u32, .u64, .f32, .f64, .str]

/-- table check over the REGENERATED `NONE_MAP`: every sentinel the writer uses is the one the reader tests for -/
def sentinelsAgree : Bool :=
  [true, false].all fun np => allDT.all fun dt =>
    match noneMap np dt with
    | some s => readIsNone dt s
    | none => true

/-- **write- and read-side sentinels agree for every type in `NONE_MAP`** (re-checked against layout.py on every run;
this is the obligation that failed for unsigned integers before fix d5b231c) -/
theorem sentinel_write_read_agree (np : Bool) (dt : DT) (s : SV) (h : noneMap np dt = some s) :
    readIsNone dt s = true := by
  have ht : sentinelsAgree = true := by decide +kernel
  unfold sentinelsAgree at ht
  rw [List.all_eq_true] at ht
  have h1 := ht np (by cases np <;> simp)
  rw [List.all_eq_true] at h1
  have h2 := h1 dt (by cases dt <;> simp [allDT])
  rw [h] at h2
  exact h2

/-- guard of the sentinel strategy: scalars of ONE type or None, and no real value is what the reader
takes for the sentinel (for floats: no NaN — "NaN is the unset marker for reals") -/
def SGood (np : Bool) (dt : DT) : Entry → Prop
  | .none => True
  | .scal np' dt' v => np' = np ∧ dt' = dt ∧ readIsNone dt v = false
  | _ => False

/-- **None-sentinel round trip, every dtype**: under the guard, what `replaceNonesWithNonsense` produces is
mapped back by `replaceNonsenseWithNones` to the original list — same values, None exactly where it was. -/
theorem sentinel_roundtrip (xs : List Entry) (np : Bool) (dt : DT) (hg : ∀ e ∈ xs, SGood np dt e)
    (hsome : ∃ e ∈ xs, isNone e = false) (dt' : DT) (data : List SV)
    (h : replaceNones xs = some (dt', data)) :
    readParam xs.length (.sentinel dt' data) = some (xs.map (normalise false)) := by
  unfold replaceNones at h
  obtain ⟨e0, he0, hne0⟩ := hsome
  cases hf : xs.find? (fun e => !isNone e) with
  | none =>
    rw [List.find?_eq_none] at hf
    have := hf e0 he0
    simp [hne0] at this
  | some e =>
    have hmem := List.mem_of_find?_eq_some hf
    have hp := List.find?_some hf
    have hge := hg e hmem
    rw [hf] at h
    cases e with
    | none => simp [isNone] at hp
    | arr => exact absurd hge (by simp [SGood])
    | list => exact absurd hge (by simp [SGood])
    | list2 => exact absurd hge (by simp [SGood])
    | dict => exact absurd hge (by simp [SGood])
    | scal np1 dt1 v1 =>
      obtain ⟨rfl, rfl, _⟩ := hge
      simp only [] at h
      cases hm : noneMap np1 dt1 with
      | none => simp [hm] at h
      | some sent =>
        simp only [hm, Option.some.injEq, Prod.mk.injEq] at h
        obtain ⟨rfl, rfl⟩ := h
        have hs := sentinel_write_read_agree np1 dt1 sent hm
        simp only [readParam, List.length_map, ne_eq, not_true_eq_false, if_false, List.map_map, Option.some.injEq]
        apply List.map_congr_left
        intro e he
        have := hg e he
        cases e with
        | none => simp [hs, normalise]
        | scal np2 dt2 v2 =>
          obtain ⟨_, rfl, hv⟩ := this
          simp [hv, normalise]
        | arr => exact absurd this (by simp [SGood])
        | list => exact absurd this (by simp [SGood])
        | list2 => exact absurd this (by simp [SGood])
        | dict => exact absurd this (by simp [SGood])

/-! ### None sentinels between fixed-shape arrays (packSpecialData called directly) -/


/-- **None sentinels between fixed-shape arrays, every dtype**: if the element type has a sentinel and no genuine
element is what the reader takes for it, every unset entry reads back unset, every array reads back itself,
and nothing else becomes None (arrays must be non-empty: a zero-size row is indistinguishable from "all sentinel"). -/
theorem array_sentinel_roundtrip (dt : DT) (size : Nat) (hsize : 0 < size) (xs : List (Option (List SV)))
    (hlen : ∀ row, some row ∈ xs → row.length = size)
    (hg : ∀ row, some row ∈ xs → ∀ v ∈ row, readIsNone dt v = false)
    (stored : List (List SV)) (h : replaceNonesArr dt size xs = some stored) :
    stored.map (readRowArr dt) = xs.map (fun x => match x with | none => RowOut.none | some row => RowOut.full row) := by
  unfold replaceNonesArr at h
  cases hm : noneMap true dt with
  | none => simp [hm] at h
  | some sent =>
    simp only [hm, Option.some.injEq] at h
    subst h
    have hs := sentinel_write_read_agree true dt sent hm
    rw [List.map_map]
    apply List.map_congr_left
    intro x hx
    cases x with
    | none =>
      simp only [Function.comp, Option.getD_none, readRowArr]
      have : (List.replicate size sent).all (readIsNone dt) = true := by
        rw [List.all_eq_true]; intro v hv; rw [(List.mem_replicate.mp hv).2]; exact hs
      simp [this]
    | some row =>
      have hl := hlen row hx
      have hv := hg row hx
      simp only [Function.comp, Option.getD_some, readRowArr]
      have hany : row.any (readIsNone dt) = false := by
        apply Bool.eq_false_iff.mpr
        intro h'
        rw [List.any_eq_true] at h'
        obtain ⟨v, hvm, hvt⟩ := h'
        rw [hv v hvm] at hvt; exact absurd hvt (by simp)
      have hall : row.all (readIsNone dt) = false := by
        cases row with
        | nil => simp at hl; omega
        | cons v r =>
          have := hv v (List.mem_cons_self ..)
          simp [this]
      simp [hall, hany]

/-- non-vacuity on uint16, and the excluded point (a genuine 65533 becomes None) -/
example : (replaceNonesArr .u16 2 [some [.i 1, .i 2], none, some [.i 65533, .i 4]]).map (·.map (readRowArr .u16)) =
    some [.full [.i 1, .i 2], .none, .part [none, some (.i 4)]] := by decide +kernel


/-! ### dict strategy -/

private theorem mem_insKey (k x : String) : ∀ (l : List String), x ∈ insKey k l ↔ x = k ∨ x ∈ l := by
  intro l
  induction l with
  | nil => simp [insKey]
  | cons h t ih =>
    simp only [insKey]
    split
    · simp
    · split
      · rename_i hk; subst hk; simp
      · simp [ih]; constructor <;> (intro h'; rcases h' with h' | h' | h' <;> simp [h'])

private theorem mem_fold_ins (d : List (String × Option Int)) : ∀ (acc : List String) (x : String),
    x ∈ d.foldl (fun a kv => insKey kv.1 a) acc ↔ x ∈ acc ∨ ∃ v, (x, v) ∈ d := by
  induction d with
  | nil => intro acc x; simp
  | cons kv r ih =>
    intro acc x
    simp only [List.foldl_cons, ih, mem_insKey]
    constructor
    · rintro ((rfl | h) | ⟨v, hv⟩)
      · exact Or.inr ⟨kv.2, by simp⟩
      · exact Or.inl h
      · exact Or.inr ⟨v, List.mem_cons_of_mem _ hv⟩
    · rintro (h | ⟨v, hv⟩)
      · exact Or.inl (Or.inr h)
      · rcases List.mem_cons.mp hv with h' | h'
        · exact Or.inl (Or.inl (by rw [← h']))
        · exact Or.inr ⟨v, h'⟩

/-- the key attribute is the union of all keys of all objects -/
theorem mem_keyUnion (ds : List (List (String × Option Int))) (x : String) :
    x ∈ keyUnion ds ↔ ∃ d ∈ ds, ∃ v, (x, v) ∈ d := by
  unfold keyUnion
  have : ∀ (ds : List (List (String × Option Int))) (acc : List String),
      x ∈ ds.foldl (fun acc d => d.foldl (fun a kv => insKey kv.1 a) acc) acc ↔ x ∈ acc ∨ ∃ d ∈ ds, ∃ v, (x, v) ∈ d := by
    intro ds
    induction ds with
    | nil => intro acc; simp
    | cons d r ih =>
      intro acc
      simp only [List.foldl_cons, ih, mem_fold_ins]
      constructor
      · rintro ((h | ⟨v, hv⟩) | ⟨d', hd', v, hv⟩)
        · exact Or.inl h
        · exact Or.inr ⟨d, by simp, v, hv⟩
        · exact Or.inr ⟨d', List.mem_cons_of_mem _ hd', v, hv⟩
      · rintro (h | ⟨d', hd', v, hv⟩)
        · exact Or.inl (Or.inl h)
        · rcases List.mem_cons.mp hd' with rfl | h'
          · exact Or.inl (Or.inr ⟨v, hv⟩)
          · exact Or.inr ⟨d', h', v, hv⟩
  simpa using this ds []

private theorem lookup_readDictRow (f : String → Option Int) (k : String) : ∀ (keys : List String),
    (readDictRow keys (keys.map f)).lookup k = if k ∈ keys then f k else none := by
  intro keys
  induction keys with
  | nil => simp [readDictRow]
  | cons h t ih =>
    unfold readDictRow at ih ⊢
    simp only [List.map_cons, List.zip_cons_cons, List.filterMap_cons]
    by_cases hk : k = h
    · subst hk
      cases hf : f k with
      | none =>
        simp only [Option.map_none, List.mem_cons, true_or, if_true]
        rw [ih]; split <;> simp [hf]
      | some v => simp
    · have hne : (k == h) = false := by simpa using hk
      cases hf : f h with
      | none => simp only [Option.map_none]; rw [ih]; simp [hk]
      | some v => simp only [Option.map_some, List.lookup, hne]; rw [ih]; simp [hk]

/-- **dict strategy round trip**: for every object and every key, the dictionary read back holds exactly
the non-NaN value the object had for that key, and nothing for keys it did not have (keys absent from one
object are NaN-filled when written and dropped when read; a stored NaN value is therefore the same as "absent"). -/
theorem dict_roundtrip (ds : List (List (String × Option Int))) (d : List (String × Option Int)) (hd : d ∈ ds)
    (k : String) :
    (readDictRow (keyUnion ds) ((keyUnion ds).map (dictGet d))).lookup k = dictGet d k := by
  rw [lookup_readDictRow]
  split
  · rfl
  · rename_i hk
    unfold dictGet
    cases hl : d.lookup k with
    | none => rfl
    | some v =>
      exfalso; apply hk
      rw [mem_keyUnion]
      refine ⟨d, hd, v, ?_⟩
      have : ∀ (d : List (String × Option Int)), d.lookup k = some v → (k, v) ∈ d := by
        intro d
        induction d with
        | nil => simp
        | cons kv r ih =>
          intro h
          obtain ⟨a, c⟩ := kv
          simp only [List.lookup] at h
          split at h
          · rename_i heq; simp at h; simp at heq; simp [heq, h]
          · exact List.mem_cons_of_mem _ (ih h)
      exact this d hl

/-- what the reader returns for a parameter written with the dict strategy -/
theorem dict_read (ds : List (List (String × Option Int))) :
    readParam ds.length (.dict (keyUnion ds) (dictRows (keyUnion ds) ds))
      = some (ds.map (fun d => ROut.dict (readDictRow (keyUnion ds) ((keyUnion ds).map (dictGet d))))) := by
  simp [readParam, dictRows]

/-! ### plain strategy and the strategy choice -/

/-- modelled domain: every leaf of the parameter has dtype `d` (scalars of flavour `np`), arrays carry
exactly as many elements as their shape says, no dict -/
def EntryWF (np : Bool) (d : DT) : Entry → Prop
  | .none => True
  | .scal np' dt _ => np' = np ∧ dt = d
  | .arr dt sh data => dt = d ∧ data.length = prod sh
  | .list _ dt _ => dt = d
  | .list2 _ dt _ => dt = d
  | .dict _ => False

private theorem rectangular_len : ∀ (rows : List (List SV)) (m : Nat), rectangular rows = some m →
    rows.flatten.length = rows.length * m := by
  intro rows m h
  cases rows with
  | nil => simp
  | cons r rs =>
    simp only [rectangular] at h
    split at h
    · rename_i hall
      simp at h; subst h
      rw [List.all_eq_true] at hall
      have : ∀ (rs : List (List SV)), (∀ q ∈ rs, q.length = r.length) → rs.flatten.length = rs.length * r.length := by
        intro rs
        induction rs with
        | nil => intro _; simp
        | cons q t ih =>
          intro hq
          simp [hq q (List.mem_cons_self ..), ih (fun x hx => hq x (List.mem_cons_of_mem _ hx)), Nat.add_mul, Nat.add_comm]
      simp [this rs (fun q hq => by simpa using hall q hq), Nat.add_mul, Nat.add_comm]
    · simp at h

private theorem chunks_flatMap (k : Nat) : ∀ (xs : List Entry), (∀ e ∈ xs, (entryData e).length = k) →
    chunks k xs.length (xs.flatMap entryData) = xs.map entryData := by
  intro xs
  induction xs with
  | nil => intro _; rfl
  | cons e r ih =>
    intro h
    have he := h e (List.mem_cons_self ..)
    simp only [List.length_cons, List.flatMap_cons, chunks, List.map_cons]
    rw [← he, List.take_left' rfl, List.drop_left' rfl, he, ih (fun x hx => h x (List.mem_cons_of_mem _ hx))]

private theorem dts_const (np : Bool) (d : DT) (xs : List Entry) (hwf : ∀ e ∈ xs, EntryWF np d e) :
    ∀ t ∈ xs.filterMap entryDT, t = d := by
  intro t ht
  obtain ⟨e, he, het⟩ := List.mem_filterMap.mp ht
  have := hwf e he
  cases e <;> simp [entryDT] at het <;> simp [EntryWF] at this <;> subst het
  · exact this.2
  · exact this.1
  · exact this
  · exact this

private theorem exists_of_not_all {α} (p : α → Bool) : ∀ (l : List α), ¬ (l.all p = true) → ∃ e ∈ l, p e = false := by
  intro l
  induction l with
  | nil => intro h; simp at h
  | cons a r ih =>
    intro h
    cases hp : p a with
    | false => exact ⟨a, List.mem_cons_self .., hp⟩
    | true =>
      have : ¬ (r.all p = true) := by intro hr; apply h; simp [hp, hr]
      obtain ⟨e, he, hpe⟩ := ih this
      exact ⟨e, List.mem_cons_of_mem _ he, hpe⟩

private theorem packJGo_no_err : ∀ (items : List JItem) (i off : Nat) (p : JPacked),
    packJGo items i off = some p → ∀ it ∈ items, it ≠ JItem.err := by
  intro items
  induction items with
  | nil => intro i off p _ it hit; simp at hit
  | cons x r ih =>
    intro i off p h it hit
    cases x with
    | err => simp [packJGo] at h
    | none =>
      simp only [packJGo, Option.map_eq_some_iff] at h
      obtain ⟨p', hp', _⟩ := h
      rcases List.mem_cons.mp hit with rfl | hr
      · simp
      · exact ih _ _ _ hp' it hr
    | data sh dt vals =>
      simp only [packJGo, Option.map_eq_some_iff] at h
      obtain ⟨p', hp', _⟩ := h
      rcases List.mem_cons.mp hit with rfl | hr
      · simp
      · exact ih _ _ _ hp' it hr

/-- in the modelled domain, whatever `JaggedArray.__init__` does not refuse is `JGood` -/
private theorem jgood_of_wf (np : Bool) (d : DT) (e : Entry) (hwf : EntryWF np d e)
    (hne : classifyJ e ≠ JItem.err) : JGood d e := by
  cases e with
  | none => simp [JGood, classifyJ]
  | dict kv => exact absurd hwf (by simp [EntryWF])
  | scal np' dt v =>
    simp only [EntryWF] at hwf
    simp only [classifyJ] at hne
    simp only [JGood, classifyJ]
    by_cases hc : (dt.isInt || dt.isFloat || (dt = .b && !np')) = true
    · simp only [hc, if_true]; simp [hwf.2, prod]
    · simp only [hc] at hne; simp at hne
  | arr dt shape data =>
    simp only [EntryWF] at hwf
    cases shape with
    | nil => simp [classifyJ] at hne
    | cons n r =>
      simp only [JGood, classifyJ]
      by_cases hz : n = 0
      · simp [hz]
      · simp [hz, hwf.1, hwf.2]
  | list t dt xs =>
    simp only [EntryWF] at hwf
    simp only [JGood, classifyJ]
    by_cases hz : xs.length = 0
    · simp [hz]
    · simp [hz, hwf, prod]
  | list2 t dt rows =>
    simp only [EntryWF] at hwf
    simp only [classifyJ] at hne
    simp only [JGood, classifyJ]
    by_cases hz : rows.length = 0
    · simp [hz]
    · simp only [hz, if_false] at hne ⊢
      cases hr : rectangular rows with
      | none => simp [hr] at hne
      | some m => simp [hwf, prod, rectangular_len rows m hr]

/-- guard for the sentinel strategy inside the main theorem: when a None is present next to scalars, no
scalar is what the reader takes for the sentinel (integers: `min+2` / `max-2`; floats: NaN) -/
def NoSentinel (d : DT) (xs : List Entry) : Prop :=
  xs.any isNone = true → ∀ np dt v, Entry.scal np dt v ∈ xs → readIsNone d v = false

/-- **The main theorem (`strategy_total` / `strategy_reject_or_faithful`).** For every list of per-object
values in the modelled domain (one dtype `d`, well-formed arrays, no dict — dicts: `dict_roundtrip`), if
`_writeParams` accepts the list (any of its strategies: plain array, None sentinels, ragged) then
`_readParams` returns exactly the documented normalisation of the original list: same values, shapes,
dtype and None positions. Hence an in-domain list is either rejected / skipped at write time or read back
faithfully — never "accepted but different". One exclusion remains after fixes 8558ef4 and 49d3d18 (JaggedArray now
refuses what it used to drop or flatten): `hs` — no value equal to the None sentinel next to a None. -/
theorem write_read_faithful (xs : List Entry) (np : Bool) (d : DT)
    (hwf : ∀ e ∈ xs, EntryWF np d e)
    (hs : NoSentinel d xs)
    (st : Stored) (h : writeParam xs = .ok st) :
    readParam xs.length st = some (xs.map (normalise (jaggedTest xs))) := by
  unfold writeParam at h
  split at h
  · simp at h
  · rename_i hne
    split at h
    · rename_i hjag
      rw [hjag]
      have hgood : ∀ e ∈ xs, JGood d e := by
        intro e he
        apply jgood_of_wf np d e (hwf e he)
        have hw := h
        unfold writeJagged at hw
        split at hw
        · simp at hw
        · rename_i p hp
          exact packJGo_no_err _ 0 0 p hp (classifyJ e) (List.mem_map_of_mem he)
      exact jagged_roundtrip xs d hgood st h
    · rename_i hjag
      have hjag' : jaggedTest xs = false := by simpa using hjag
      rw [hjag']
      have hdts := dts_const np d xs hwf
      split at h
      · -- all scalars: plain 1-D
        rename_i hall
        rw [List.all_eq_true] at hall
        simp only [WriteRes.ok.injEq] at h; subst h
        have hdt : promoteAll (xs.filterMap entryDT) = d := by
          apply promoteAll_const d _ hdts
          cases xs with
          | nil => simp at hne
          | cons e r =>
            have := hall e (List.mem_cons_self ..)
            cases e <;> simp [isScal] at this
            simp [entryDT]
        simp only [readParam, ne_eq, not_true_eq_false, if_false, if_true, hdt, Option.some.injEq]
        have : ∀ (xs : List Entry), (∀ e ∈ xs, isScal e = true) → (∀ e ∈ xs, EntryWF np d e) →
            (xs.flatMap entryData).map (ROut.scal d) = xs.map (normalise false) := by
          intro xs
          induction xs with
          | nil => intro _ _; rfl
          | cons e r ih =>
            intro h1 h2
            have he := h1 e (List.mem_cons_self ..)
            have hw := h2 e (List.mem_cons_self ..)
            cases e <;> simp [isScal] at he
            simp only [EntryWF] at hw
            simp only [List.flatMap_cons, entryData, List.map_append, List.map_cons, List.map_nil, normalise,
              Bool.false_eq_true, if_false, hw.2]
            rw [ih (fun x hx => h1 x (List.mem_cons_of_mem _ hx)) (fun x hx => h2 x (List.mem_cons_of_mem _ hx))]
            rfl
        exact this xs hall hwf
      · split at h
        · -- all array-likes of one full shape: plain n-d
          rename_i hall
          rw [List.all_eq_true] at hall
          cases xs with
          | nil => simp at hne
          | cons x r =>
            simp only [] at h
            cases hfs : fullShape x with
            | none => simp [hfs] at h
            | some sh =>
              simp only [hfs] at h
              split at h
              · rename_i hsame
                rw [List.all_eq_true] at hsame
                simp only [WriteRes.ok.injEq] at h; subst h
                have hfull : ∀ e ∈ x :: r, fullShape e = some sh := by
                  intro e he
                  rcases List.mem_cons.mp he with rfl | he
                  · exact hfs
                  · simpa using hsame e he
                have hdt : promoteAll ((x :: r).filterMap entryDT) = d := by
                  apply promoteAll_const d _ hdts
                  have := hall x (List.mem_cons_self ..)
                  cases x <;> simp [isArrayLike] at this <;> simp [entryDT]
                have hlen : ∀ e ∈ x :: r, (entryData e).length = prod sh := by
                  intro e he
                  have h1 := hfull e he
                  have h2 := hwf e he
                  cases e with
                  | none => simp [fullShape] at h1
                  | scal => simp [fullShape] at h1
                  | dict => simp [fullShape] at h1
                  | arr dt s data => simp [fullShape] at h1; subst h1; simp [entryData, h2.2]
                  | list t dt l => simp [fullShape] at h1; subst h1; simp [entryData, prod]
                  | list2 t dt rows =>
                    simp only [fullShape, Option.map_eq_some_iff] at h1
                    obtain ⟨m, hm, rfl⟩ := h1
                    simp [entryData, prod, rectangular_len rows m hm]
                simp only [readParam, ne_eq, not_true_eq_false, if_false, hdt]
                by_cases hsh : sh = []
                · -- 0-d arrays stack to a 1-D array of scalars
                  subst hsh
                  simp only [if_true, Option.some.injEq]
                  have : ∀ (xs : List Entry), (∀ e ∈ xs, fullShape e = some []) → (∀ e ∈ xs, EntryWF np d e) →
                      (xs.flatMap entryData).map (ROut.scal d) = xs.map (normalise false) := by
                    intro xs
                    induction xs with
                    | nil => intro _ _; rfl
                    | cons e t ih =>
                      intro h1 h2
                      have he := h1 e (List.mem_cons_self ..)
                      have hw := h2 e (List.mem_cons_self ..)
                      cases e with
                      | none => simp [fullShape] at he
                      | scal => simp [fullShape] at he
                      | dict => simp [fullShape] at he
                      | list t' dt l => simp [fullShape] at he
                      | list2 t' dt rows => simp [fullShape] at he
                      | arr dt s data =>
                        simp [fullShape] at he; subst he
                        simp only [EntryWF, prod] at hw
                        obtain ⟨rfl, hl⟩ := hw
                        match data, hl with
                        | [v], _ =>
                          simp only [List.flatMap_cons, entryData, List.map_append, List.map_cons, List.map_nil, normalise,
                            Bool.false_and, Bool.false_eq_true, if_false]
                          rw [ih (fun x hx => h1 x (List.mem_cons_of_mem _ hx)) (fun x hx => h2 x (List.mem_cons_of_mem _ hx))]
                          rfl
                  exact this _ hfull hwf
                · simp only [hsh, if_false, Option.some.injEq]
                  rw [chunks_flatMap (prod sh) (x :: r) hlen, List.map_map]
                  apply List.map_congr_left
                  intro e he
                  have h1 := hfull e he
                  have h2 := hwf e he
                  cases e with
                  | none => simp [fullShape] at h1
                  | scal => simp [fullShape] at h1
                  | dict => simp [fullShape] at h1
                  | arr dt s data =>
                    simp [fullShape] at h1; subst h1
                    cases s with
                    | nil => exact absurd rfl hsh
                    | cons n t => simp [entryData, normalise, h2.1]
                  | list t dt l => simp [fullShape] at h1; subst h1; simp [entryData, normalise, EntryWF] at h2 ⊢; exact h2.symm
                  | list2 t dt rows =>
                    simp only [fullShape, Option.map_eq_some_iff] at h1
                    obtain ⟨m, hm, rfl⟩ := h1
                    simp [entryData, normalise, hm, EntryWF] at h2 ⊢; exact h2.symm
              · simp at h
        · split at h
          · simp at h
          · -- object array: all-None skip, or the None-sentinel strategy
            rename_i hnotscal hnotarr hnoarr
            unfold writeObject at h
            split at h
            · simp at h
            · rename_i hnotallnone
              split at h
              · rename_i hanyd
                exfalso
                rw [List.any_eq_true] at hanyd
                obtain ⟨e, he, hd⟩ := hanyd
                have := hwf e he
                cases e <;> simp [isDict] at hd
                exact this
              · split at h
                · rename_i hns
                  rw [List.all_eq_true] at hns
                  cases hr : replaceNones xs with
                  | none => simp [hr] at h
                  | some pr =>
                    obtain ⟨dt', data⟩ := pr
                    simp only [hr] at h
                    split at h
                    · simp at h
                    · simp only [WriteRes.ok.injEq] at h; subst h
                      have hsome : ∃ e ∈ xs, isNone e = false := by
                        exact exists_of_not_all isNone xs hnotallnone
                      have hnone : xs.any isNone = true := by
                        -- some entry is not a scalar, and everything is scalar-or-None
                        obtain ⟨e, he, hn⟩ := exists_of_not_all isScal xs hnotscal
                        rw [List.any_eq_true]
                        refine ⟨e, he, ?_⟩
                        have := hns e he
                        simp only [Bool.or_eq_true] at this
                        rcases this with h' | h'
                        · exact h'
                        · rw [hn] at h'; exact absurd h' (by simp)
                      refine sentinel_roundtrip xs np d ?_ hsome dt' data hr
                      intro e he
                      have h1 := hns e he
                      have h2 := hwf e he
                      cases e with
                      | none => trivial
                      | scal np' dt v => exact ⟨h2.1, h2.2, hs hnone np' dt v he⟩
                      | arr => simp [isNone, isScal] at h1
                      | list => simp [isNone, isScal] at h1
                      | list2 => simp [isNone, isScal] at h1
                      | dict => simp [isNone, isScal] at h1
                · simp at h



/-! ### entries of differing numeric kind: the stored dtype never narrows (C05-c) -/

/-- numpy promotion of two non-string dtypes is floating as soon as one of them is -/
theorem promote_float (a c : DT) (ha : a ≠ .str) (hc : c ≠ .str) (h : a.isFloat = true ∨ c.isFloat = true) :
    (promote a c).isFloat = true := by
  cases a <;> cases c <;> simp_all [promote, DT.isFloat, DT.isInt, DT.isSigned, DT.isUnsigned, DT.bits]

/-- … and is never narrower (in bits) than either of them -/
theorem promote_bits (a c : DT) (ha : a ≠ .str) (hc : c ≠ .str) :
    a.bits ≤ (promote a c).bits ∧ c.bits ≤ (promote a c).bits := by
  cases a <;> cases c <;> simp_all [promote, DT.isFloat, DT.isInt, DT.isSigned, DT.isUnsigned, DT.bits, signedOfBits]

/-- the promotion is a string dtype exactly when one side is -/
theorem promote_str (a c : DT) : promote a c = .str ↔ a = .str ∨ c = .str := by
  cases a <;> cases c <;> simp [promote, DT.isFloat, DT.isInt, DT.isSigned, DT.isUnsigned, DT.bits, signedOfBits]

private theorem foldl_promote_str (ds : List DT) : ∀ (d : DT), ds.foldl promote d = .str ↔ d = .str ∨ .str ∈ ds := by
  induction ds with
  | nil => intro d; simp
  | cons x r ih =>
    intro d
    simp only [List.foldl_cons, ih, promote_str, List.mem_cons]
    constructor
    · rintro ((h | h) | h)
      · exact Or.inl h
      · exact Or.inr (Or.inl h.symm)
      · exact Or.inr (Or.inr h)
    · rintro (h | h | h)
      · exact Or.inl (Or.inl h)
      · exact Or.inl (Or.inr h.symm)
      · exact Or.inr h

private theorem foldl_promote_float (ds : List DT) : ∀ (d : DT), d ≠ .str → .str ∉ ds →
    (d.isFloat = true ∨ ∃ x ∈ ds, x.isFloat = true) → (ds.foldl promote d).isFloat = true := by
  induction ds with
  | nil => intro d _ _ h; rcases h with h | ⟨x, hx, _⟩; exact h; simp at hx
  | cons x r ih =>
    intro d hd hs h
    have hx : x ≠ .str := fun e => hs (by simp [e])
    have hr : .str ∉ r := fun e => hs (by simp [e])
    simp only [List.foldl_cons]
    apply ih (promote d x) (by rw [Ne, promote_str]; simp [hd, hx]) hr
    rcases h with h | ⟨y, hy, hyf⟩
    · exact Or.inl (promote_float d x hd hx (Or.inl h))
    · rcases List.mem_cons.mp hy with rfl | hy'
      · exact Or.inl (promote_float d y hd hx (Or.inr hyf))
      · exact Or.inr ⟨y, hy', hyf⟩

/-- **`np.array` of entries of differing numeric kinds is floating as soon as one entry is** (no string among them):
`promoteAll` is what `_writeParams` / `JaggedArray` store the flattened data as, so a column whose FIRST entry is
integer-typed and a later one holds reals is stored as reals — 1.5 cannot become 1 through the choice of dtype -/
theorem promoteAll_float (ds : List DT) (hs : .str ∉ ds) (h : ∃ x ∈ ds, x.isFloat = true) : (promoteAll ds).isFloat = true := by
  cases ds with
  | nil => obtain ⟨x, hx, _⟩ := h; simp at hx
  | cons d r =>
    simp only [promoteAll]
    apply foldl_promote_float r d (fun e => hs (by simp [e])) (fun e => hs (by simp [e]))
    obtain ⟨x, hx, hxf⟩ := h
    rcases List.mem_cons.mp hx with rfl | hx'
    · exact Or.inl hxf
    · exact Or.inr ⟨x, hx', hxf⟩

theorem promoteAll_str (ds : List DT) : promoteAll ds = .str ↔ .str ∈ ds := by
  cases ds with
  | nil => simp [promoteAll]
  | cons d r => simp only [promoteAll, foldl_promote_str, List.mem_cons]; constructor <;> (rintro (h | h) <;> simp_all)

private theorem packJGo_dts : ∀ (items : List JItem) (i off : Nat) (p : JPacked), packJGo items i off = some p →
    ∀ sh dt vals, JItem.data sh dt vals ∈ items → vals ≠ [] → dt ∈ p.dts := by
  intro items
  induction items with
  | nil => intro i off p _ sh dt vals hm; simp at hm
  | cons it r ih =>
    intro i off p h sh dt vals hm hne
    cases it with
    | none =>
      simp only [packJGo, Option.map_eq_some_iff] at h
      obtain ⟨p', hp', rfl⟩ := h
      simp only [List.mem_cons, reduceCtorEq, false_or] at hm
      exact ih _ _ _ hp' sh dt vals hm hne
    | err => simp [packJGo] at h
    | data sh' dt' vals' =>
      simp only [packJGo, Option.map_eq_some_iff] at h
      obtain ⟨p', hp', rfl⟩ := h
      rcases List.mem_cons.mp hm with heq | hm'
      · cases heq
        have : vals.isEmpty = false := by cases vals <;> simp_all
        simp [this]
      · have := ih _ _ _ hp' sh dt vals hm' hne
        simp only
        split
        · exact this
        · exact List.mem_cons_of_mem _ this

/-- **C05-c for the ragged strategy**: when `JaggedArray` + `packSpecialData` accept a list of entries of whatever
numeric kinds, in whatever order (narrowest first included), and some non-empty entry is of a floating kind, the dataset
they store is of a floating kind — it is never typed after the first entry. (The values themselves are then numpy's
casts int → real, exact below 2^53; the harness compares them numerically on every generated list.) -/
theorem jagged_keeps_real_kind (xs : List Entry) (d : DT) (flat : List SV) (offs : List Nat) (shs : Shapes) (nones : List Nat)
    (h : writeJagged xs = .ok (.jagged d flat offs shs nones))
    (e : Entry) (he : e ∈ xs) (sh : JShape) (dt : DT) (vals : List SV) (hc : classifyJ e = .data sh dt vals)
    (hne : vals ≠ []) (hf : dt.isFloat = true) : d.isFloat = true := by
  unfold writeJagged at h
  split at h
  · simp at h
  · rename_i p hp
    split at h
    · simp at h
    · split at h
      · simp at h
      · simp only at h
        split at h
        · simp at h
        · rename_i hnstr
          simp only [WriteRes.ok.injEq, Stored.jagged.injEq] at h
          obtain ⟨rfl, _⟩ := h
          have hmem : dt ∈ p.dts := packJGo_dts _ 0 0 p hp sh dt vals (by rw [← hc]; exact List.mem_map_of_mem he) hne
          exact promoteAll_float p.dts (fun hs => hnstr ((promoteAll_str p.dts).mpr hs)) ⟨dt, hmem, hf⟩

/-- non-vacuity: integer-typed first entry, reals later, a None: stored as float64; the reverse order likewise -/
example : (match writeJagged [.list false .i64 [.i 1, .i 2, .i 3], .list false .f64 [.f (some 5), .f (some 6)], .none] with
    | .ok (.jagged d _ _ _ _) => some d | _ => Option.none) = some .f64 := by decide
example : promoteAll [.b, .i8, .f32] = .f32 ∧ promoteAll [.i64, .f32] = .f64 ∧ promoteAll [.u8, .i64, .b] = .i64 := by decide

/-! ### the hypotheses of the main theorem, decided -/

theorem entryWFB_iff (np : Bool) (d : DT) (e : Entry) : entryWFB np d e = true ↔ EntryWF np d e := by
  cases e <;> simp [entryWFB, EntryWF]

theorem domainOf_wf (xs : List Entry) (np : Bool) (d : DT) (h : domainOf xs = some (np, d)) :
    ∀ e ∈ xs, EntryWF np d e := by
  unfold domainOf at h
  split at h
  · rename_i hall
    simp only [Option.some.injEq, Prod.mk.injEq] at h
    obtain ⟨rfl, rfl⟩ := h
    intro e he
    exact (entryWFB_iff _ _ e).mp (List.all_eq_true.mp hall e he)
  · simp at h

theorem noSentinelB_sound (d : DT) (xs : List Entry) (h : noSentinelB d xs = true) : NoSentinel d xs := by
  intro hany np dt v hmem
  unfold noSentinelB at h
  simp only [hany, Bool.not_true, Bool.false_or] at h
  have := List.all_eq_true.mp h _ hmem
  simpa using this

/-- **the main theorem with its hypotheses decided**: the harness evaluates `domainOf` and `noSentinelB` (driver op
`domain`) on every generated value list of the correspondence stream; where both hold and the list is accepted, reading
returns the documented normalisation of every entry -/
theorem write_read_decided (xs : List Entry) (np : Bool) (d : DT) (hd : domainOf xs = some (np, d))
    (hs : noSentinelB d xs = true) (st : Stored) (h : writeParam xs = .ok st) :
    readParam xs.length st = some (xs.map (normalise (jaggedTest xs))) :=
  write_read_faithful xs np d (domainOf_wf xs np d hd) (noSentinelB_sound d xs hs) st h

/-- **totality on the domain**: a non-empty in-domain list is never left undecided by the model of `_writeParams`:
it is refused at write time, skipped (everything unset) or stored — and when stored, `write_read_decided` applies -/
theorem in_domain_decided (xs : List Entry) (np : Bool) (d : DT) (hd : domainOf xs = some (np, d)) (hne : xs ≠ []) :
    writeParam xs ≠ .ood := by
  unfold writeParam
  have he : xs.isEmpty = false := by cases xs <;> simp_all
  simp only [he, Bool.false_eq_true, if_false]
  split
  · unfold writeJagged
    split
    · simp
    · split
      · simp
      · simp only
        split
        · simp
        · split <;> simp
  · split
    · simp
    · split
      · cases xs with
        | nil => exact absurd rfl hne
        | cons x r =>
          simp only
          repeat' split
          all_goals simp
      · split
        · simp
        · rename_i hnarr
          unfold writeObject
          split
          · simp
          · split
            · split <;> simp
            · rename_i hnd
              have hwf := domainOf_wf xs np d hd
              have hall : xs.all (fun e => isNone e || isScal e) = true := by
                rw [List.all_eq_true]
                intro e he'
                have h1 : isArrayLike e = false := by
                  have := hnarr
                  simp only [List.any_eq_true, not_exists, not_and, Bool.not_eq_true] at this
                  exact this e he'
                have h2 : isDict e = false := by
                  have := hnd
                  simp only [List.any_eq_true, not_exists, not_and, Bool.not_eq_true] at this
                  exact this e he'
                cases e <;> simp_all [isArrayLike, isDict, isNone, isScal]
              simp only [hall, if_true]
              repeat' split
              all_goals simp

/-- non-vacuity: an in-domain list with a None that is accepted; one outside the domain (mixed dtypes); the excluded
point of the guard (the sentinel itself next to a None) -/
example : domainOf [.scal false .i64 (.i 3), .none, .scal false .i64 (.i 4)] = some (false, .i64)
    ∧ noSentinelB .i64 [.scal false .i64 (.i 3), .none, .scal false .i64 (.i 4)] = true := by decide
example : domainOf [.scal false .i64 (.i 3), .scal false .f64 (.f (some 1))] = none := by decide
example : noSentinelB .i64 [.scal false .i64 (.i (-9223372036854775806)), .none] = false := by decide

/-! ### flags: bytes -/

/-- **flag bytes round trip, every width**: `to_bytes` succeeds exactly when the value fits, yields `width`
bytes (each < 256), and `from_bytes` returns the value. -/
theorem flags_bytes_roundtrip : ∀ (w v : Nat) (bs : List Nat), toBytes v w = some bs →
    fromBytes bs = v ∧ bs.length = w ∧ ∀ b ∈ bs, b < 256 := by
  intro w
  induction w with
  | zero =>
    intro v bs h
    simp only [toBytes] at h
    split at h
    · simp at h; subst h; simp [fromBytes, *]
    · simp at h
  | succ w ih =>
    intro v bs h
    simp only [toBytes, Option.map_eq_some_iff] at h
    obtain ⟨r, hr, rfl⟩ := h
    obtain ⟨h1, h2, h3⟩ := ih _ _ hr
    refine ⟨?_, by simp [h2], ?_⟩
    · simp only [fromBytes, h1]; exact Nat.mod_add_div v 256
    · intro b hb
      rcases List.mem_cons.mp hb with rfl | hb
      · exact Nat.mod_lt _ (by decide)
      · exact h3 b hb

/-- `to_bytes` accepts exactly the values below `256 ^ width` (larger ones raise OverflowError at write time) -/
theorem toBytes_isSome_iff : ∀ (w v : Nat), (toBytes v w).isSome = true ↔ v < 256 ^ w := by
  intro w
  induction w with
  | zero => intro v; simp only [toBytes]; split <;> simp [*]
  | succ w ih =>
    intro v
    simp only [toBytes, Option.isSome_map, ih, Nat.pow_succ]
    constructor
    · intro h; exact (Nat.div_lt_iff_lt_mul (by decide)).mp h
    · intro h; exact (Nat.div_lt_iff_lt_mul (by decide)).mpr h

/-! ### flags: `_remapBits` -/

private def remapStep (inp : Nat) (m : Nat → Option Nat) (acc : Option Nat) (bit : Nat) : Option Nat :=
  match acc with
  | Option.none => Option.none
  | some f => if inp.testBit bit then (m bit).map (fun t => f ||| (1 <<< t)) else some f

private theorem remap_fold (inp : Nat) (m : Nat → Option Nat)
    (hm : ∀ i, inp.testBit i = true → ∃ t, m i = some t) :
    ∀ (l : List Nat) (f : Nat), ∃ r, l.foldl (remapStep inp m) (some f) = some r ∧
      ∀ j, r.testBit j = true ↔ (f.testBit j = true ∨ ∃ i ∈ l, inp.testBit i = true ∧ m i = some j) := by
  intro l
  induction l with
  | nil => intro f; exact ⟨f, rfl, by simp⟩
  | cons b l ih =>
    intro f
    simp only [List.foldl_cons, remapStep]
    by_cases hb : inp.testBit b = true
    · obtain ⟨t, ht⟩ := hm b hb
      simp only [hb, if_true, ht, Option.map_some]
      obtain ⟨r, hr, hspec⟩ := ih (f ||| (1 <<< t))
      refine ⟨r, hr, ?_⟩
      intro j
      rw [hspec j]
      simp only [Nat.testBit_or, Nat.one_shiftLeft, Nat.testBit_two_pow, Bool.or_eq_true, decide_eq_true_eq,
        List.mem_cons, exists_eq_or_imp]
      constructor
      · rintro ((h | rfl) | h)
        · exact Or.inl h
        · exact Or.inr (Or.inl ⟨hb, ht⟩)
        · exact Or.inr (Or.inr h)
      · rintro (h | ⟨_, h⟩ | h)
        · exact Or.inl (Or.inl h)
        · rw [ht] at h; exact Or.inl (Or.inr (Option.some.inj h))
        · exact Or.inr h
    · simp only [hb, Bool.false_eq_true, if_false]
      obtain ⟨r, hr, hspec⟩ := ih f
      refine ⟨r, hr, ?_⟩
      intro j
      rw [hspec j]
      simp only [List.mem_cons, exists_eq_or_imp]
      constructor
      · rintro (h | h)
        · exact Or.inl h
        · exact Or.inr (Or.inr h)
      · rintro (h | ⟨h, _⟩ | h)
        · exact Or.inl h
        · exact absurd h hb
        · exact Or.inr h

/-- **`_remapBits` specification**: if the mapping is defined on every set bit (otherwise: KeyError), bit `j`
of the result is set exactly when some set bit `i` of the input maps to `j`. -/
theorem remapBits_spec (inp : Nat) (m : Nat → Option Nat)
    (hm : ∀ i, inp.testBit i = true → ∃ t, m i = some t) :
    ∃ r, remapBits inp m = some r ∧ ∀ j, r.testBit j = true ↔ ∃ i, inp.testBit i = true ∧ m i = some j := by
  obtain ⟨r, hr, hspec⟩ := remap_fold inp m hm (List.range (inp.log2 + 1)) 0
  refine ⟨r, ?_, ?_⟩
  · unfold remapBits
    exact hr
  · intro j
    rw [hspec j]
    simp only [Nat.zero_testBit, Bool.false_eq_true, false_or, List.mem_range]
    constructor
    · rintro ⟨i, _, h⟩; exact ⟨i, h⟩
    · rintro ⟨i, hi, hmi⟩
      refine ⟨i, ?_, hi, hmi⟩
      rcases Nat.lt_or_ge i (inp.log2 + 1) with hlt | hge
      · exact hlt
      exfalso
      have h1 : inp < 2 ^ (inp.log2 + 1) := Nat.lt_log2_self
      have h2 : 2 ^ (inp.log2 + 1) ≤ 2 ^ i := Nat.pow_le_pow_right (by decide) (by omega)
      have := Nat.testBit_lt_two_pow (Nat.lt_of_lt_of_le h1 h2)
      rw [this] at hi; exact absurd hi (by simp)

/-- for an injective mapping, bit `m i` of the result is bit `i` of the input -/
theorem remapBits_injective (inp : Nat) (m : Nat → Option Nat)
    (hm : ∀ i, inp.testBit i = true → ∃ t, m i = some t)
    (hinj : ∀ i i' t, m i = some t → m i' = some t → i = i') (r : Nat) (hr : remapBits inp m = some r)
    (i t : Nat) (hi : m i = some t) : r.testBit t = inp.testBit i := by
  obtain ⟨r', hr', hspec⟩ := remapBits_spec inp m hm
  rw [hr] at hr'; cases hr'
  cases hb : inp.testBit i with
  | true => exact (hspec t).mpr ⟨i, hb, hi⟩
  | false =>
    apply Bool.eq_false_iff.mpr
    intro h
    obtain ⟨i', hi', hmi'⟩ := (hspec t).mp h
    have := hinj i i' t hi hmi'
    subst this
    rw [hb] at hi'; exact absurd hi' (by simp)

/-! ### flags: meaning under reordering / extension -/

private theorem indexOf_get : ∀ (l : List String) (s : String) (j : Nat), indexOf l s = some j → l[j]? = some s := by
  intro l
  induction l with
  | nil => intro s j h; simp [indexOf] at h
  | cons a t ih =>
    intro s j h
    simp only [indexOf] at h
    split at h
    · rename_i ha; simp at h; subst h; simp [ha]
    · simp only [Option.map_eq_some_iff] at h
      obtain ⟨j', hj', rfl⟩ := h
      simp [ih s j' hj']

private theorem indexOf_of_mem : ∀ (l : List String) (s : String), s ∈ l → ∃ j, indexOf l s = some j := by
  intro l
  induction l with
  | nil => intro s h; simp at h
  | cons a t ih =>
    intro s h
    simp only [indexOf]
    by_cases ha : a = s
    · exact ⟨0, by simp [ha]⟩
    · rcases List.mem_cons.mp h with rfl | h'
      · exact absurd rfl ha
      · obtain ⟨j, hj⟩ := ih s h'
        exact ⟨j + 1, by simp [ha, hj]⟩

/-- names switched on by value `v` when bit `k` stands for the `k`-th name of `names` -/
def OnOrd (names : List String) (v : Nat) (name : String) : Prop :=
  ∃ k, names[k]? = some name ∧ v.testBit k = true

private theorem zip_all_get (order now : List String) (h : (order.zip now).all (fun p => p.1 = p.2) = true)
    (k : Nat) (hk1 : k < order.length) (hk2 : k < now.length) : order[k]? = now[k]? := by
  rw [List.all_eq_true] at h
  have hk : k < (order.zip now).length := by simp [List.length_zip]; omega
  have := h ((order.zip now)[k]) (List.getElem_mem hk)
  simp only [List.getElem_zip, decide_eq_true_eq] at this
  rw [List.getElem?_eq_getElem hk1, List.getElem?_eq_getElem hk2, this]

/-- **Flag sets keep their meaning when the flag class is reordered or extended between writing and reading.**
`order` = field names of the writer sorted by value (the stored `flag_order`), `now` = the reader's sorted names
after unknown names have been added; every written name exists in `now`; `v` uses only the writer's `n` bits.
Then `_unpackImpl` succeeds and a name is on in the result (bit = ordinal in `now`) exactly when it was on in the
written value (bit = ordinal in `order`) — nothing lost, nothing else switched on. -/
theorem flags_meaning_preserved (order now : List String) (hsub : ∀ s ∈ order, s ∈ now)
    (hlen : order.length ≤ now.length) (v : Nat) (hv : v < 2 ^ order.length) :
    ∃ u, unpackVal order now v = some u ∧ ∀ name, OnOrd now u name ↔ OnOrd order v name := by
  have hbit : ∀ k, v.testBit k = true → k < order.length := by
    intro k hk
    rcases Nat.lt_or_ge k order.length with h | h
    · exact h
    · have := Nat.testBit_lt_two_pow (Nat.lt_of_lt_of_le hv (Nat.pow_le_pow_right (by decide) h))
      rw [this] at hk; exact absurd hk (by simp)
  unfold unpackVal
  split
  · rename_i hall
    refine ⟨v, rfl, ?_⟩
    intro name
    constructor
    · rintro ⟨k, hk, hb⟩
      have h1 := hbit k hb
      exact ⟨k, by rw [zip_all_get order now hall k h1 (by omega)]; exact hk, hb⟩
    · rintro ⟨k, hk, hb⟩
      have h1 := hbit k hb
      exact ⟨k, by rw [← zip_all_get order now hall k h1 (by omega)]; exact hk, hb⟩
  · have hm : ∀ i, v.testBit i = true → ∃ t, (order[i]?).bind (indexOf now) = some t := by
      intro i hi
      have h1 := hbit i hi
      obtain ⟨j, hj⟩ := indexOf_of_mem now order[i] (hsub _ (List.getElem_mem h1))
      exact ⟨j, by simp [List.getElem?_eq_getElem h1, hj]⟩
    obtain ⟨u, hu, hspec⟩ := remapBits_spec v _ hm
    refine ⟨u, hu, ?_⟩
    intro name
    constructor
    · rintro ⟨k, hk, hb⟩
      obtain ⟨i, hi, hmi⟩ := (hspec k).mp hb
      have h1 := hbit i hi
      simp only [List.getElem?_eq_getElem h1, Option.bind_some] at hmi
      have := indexOf_get now _ k hmi
      rw [hk] at this
      exact ⟨i, by rw [List.getElem?_eq_getElem h1]; exact this.symm, hi⟩
    · rintro ⟨k, hk, hb⟩
      have h1 := hbit k hb
      have hmem : name ∈ now := hsub name (List.mem_of_getElem? hk)
      obtain ⟨j, hj⟩ := indexOf_of_mem now name hmem
      refine ⟨j, indexOf_get now name j hj, (hspec j).mpr ⟨k, hb, ?_⟩⟩
      simp [hk, hj]

/-! ### flags: the invariant the serializer relies on, and `extend` with `auto()` -/

/-- field `k` of the list sorted by value has value `2^k`, and the next automatic value is `2^n` -/
def Canon (c : FlagCls) : Prop :=
  (sortByVal c.fields).map (·.2) = (List.range c.fields.length).map (2 ^ ·) ∧ c.autoAt = 2 ^ c.fields.length

private theorem perm_insByVal (x : String × Nat) : ∀ (l : List (String × Nat)), (insByVal x l).Perm (x :: l) := by
  intro l
  induction l with
  | nil => exact List.Perm.refl _
  | cons h t ih =>
    simp only [insByVal]
    split
    · exact List.Perm.refl _
    · exact (List.Perm.cons h ih).trans (List.Perm.swap x h t)

private theorem perm_sortByVal : ∀ (l : List (String × Nat)), (sortByVal l).Perm l := by
  intro l
  induction l with
  | nil => exact List.Perm.refl _
  | cons h t ih => exact (perm_insByVal h _).trans (List.Perm.cons h ih)

private theorem and_two_pow_ne_zero (v k : Nat) : v &&& 2 ^ k ≠ 0 ↔ v.testBit k = true := by
  constructor
  · intro h
    obtain ⟨i, hi⟩ := Nat.exists_testBit_of_ne_zero h
    simp only [Nat.testBit_and, Nat.testBit_two_pow, Bool.and_eq_true, decide_eq_true_eq] at hi
    obtain ⟨h1, rfl⟩ := hi
    exact h1
  · intro h h0
    have : (v &&& 2 ^ k).testBit k = true := by simp [Nat.testBit_and, h]
    rw [h0] at this
    simp at this

/-- **under the invariant, `_flagsOn` is "bit k ↔ k-th sorted field"** — the reading of a value that
`FlagSerializer` (width `⌈n/8⌉`, ordinal-based remap) assumes -/
theorem flagsOn_canon (c : FlagCls) (hc : Canon c) (v : Nat) (name : String) :
    name ∈ flagsOn c v ↔ OnOrd c.sortedFields v name := by
  unfold flagsOn OnOrd FlagCls.sortedFields
  simp only [List.mem_map, List.mem_filter, decide_eq_true_eq, ne_eq]
  have hval : ∀ k p, (sortByVal c.fields)[k]? = some p → p.2 = 2 ^ k := by
    intro k p hk
    have h1 : ((sortByVal c.fields).map (·.2))[k]? = some p.2 := by simp [hk]
    rw [hc.1] at h1
    simp only [List.getElem?_map, Option.map_eq_some_iff] at h1
    obtain ⟨a, ha, hpa⟩ := h1
    have : a = k := by
      have := List.getElem?_range (n := c.fields.length) (i := k)
      by_cases hlt : k < c.fields.length
      · simp [List.getElem?_range hlt] at ha; omega
      · have : (List.range c.fields.length)[k]? = none := by simp; omega
        rw [this] at ha; simp at ha
    subst this; exact hpa.symm
  constructor
  · rintro ⟨p, ⟨hp, hon⟩, rfl⟩
    have hp' : p ∈ sortByVal c.fields := (perm_sortByVal c.fields).symm.subset hp
    obtain ⟨k, hk⟩ := List.getElem?_of_mem hp'
    refine ⟨k, by simp [hk], ?_⟩
    rw [hval k p hk] at hon
    exact (and_two_pow_ne_zero v k).mp hon
  · rintro ⟨k, hk, hb⟩
    simp only [List.getElem?_map, Option.map_eq_some_iff] at hk
    obtain ⟨p, hp, rfl⟩ := hk
    refine ⟨p, ⟨(perm_sortByVal c.fields).subset (List.mem_of_getElem? hp), ?_⟩, rfl⟩
    rw [hval k p hp]
    exact (and_two_pow_ne_zero v k).mpr hb

private theorem insByVal_append (y x : String × Nat) (h : y.2 < x.2) : ∀ (l : List (String × Nat)),
    insByVal y (l ++ [x]) = insByVal y l ++ [x] := by
  intro l
  induction l with
  | nil => simp [insByVal, h]
  | cons a t ih =>
    simp only [List.cons_append, insByVal]
    split
    · rfl
    · rw [ih]; rfl

private theorem sortByVal_append (x : String × Nat) : ∀ (l : List (String × Nat)), (∀ y ∈ l, y.2 < x.2) →
    sortByVal (l ++ [x]) = sortByVal l ++ [x] := by
  intro l
  induction l with
  | nil => intro _; rfl
  | cons a t ih =>
    intro h
    have ha := h a (List.mem_cons_self ..)
    have := ih (fun y hy => h y (List.mem_cons_of_mem _ hy))
    unfold sortByVal at this ⊢
    simp only [List.cons_append, List.foldr_cons]
    rw [this, insByVal_append a x ha]

private theorem canon_vals_lt (c : FlagCls) (hc : Canon c) : ∀ y ∈ c.fields, y.2 < 2 ^ c.fields.length := by
  intro y hy
  have hy' : y ∈ sortByVal c.fields := (perm_sortByVal c.fields).symm.subset hy
  have : y.2 ∈ (sortByVal c.fields).map (·.2) := List.mem_map_of_mem hy'
  rw [hc.1] at this
  simp only [List.mem_map, List.mem_range] at this
  obtain ⟨k, hk, hyk⟩ := this
  rw [← hyk]
  exact Nat.pow_lt_pow_right (by decide) hk

/-- **`Flag.extend` with `auto()` values keeps the invariant** (so classes built from `auto()` fields only —
every flag class armi ships — always satisfy it, whatever is added later by plugins or by the reader) -/
theorem extend_auto_keeps_invariant : ∀ (names : List String) (c : FlagCls), Canon c → Canon (c.extendAuto names) := by
  intro names
  induction names with
  | nil => intro c hc; exact hc
  | cons n r ih =>
    intro c hc
    simp only [FlagCls.extendAuto]
    apply ih
    have hlt := canon_vals_lt c hc
    have hnot : (c.fields.map (·.2)).contains c.autoAt = false := by
      apply Bool.eq_false_iff.mpr
      intro h
      simp only [List.contains_eq_mem, List.mem_map, decide_eq_true_eq] at h
      obtain ⟨y, hy, hya⟩ := h
      have := hlt y hy
      rw [hya, hc.2] at this
      exact Nat.lt_irrefl _ this
    have hnext : nextAuto (c.fields.map (·.2)) (c.fields.length + 1) c.autoAt = c.autoAt := by
      simp only [nextAuto, hnot, Bool.false_eq_true, if_false]
    rw [hnext]
    constructor
    · simp only []
      rw [sortByVal_append _ _ (by intro y hy; rw [hc.2]; exact hlt y hy)]
      simp only [List.map_append, List.map_cons, List.map_nil, List.length_append, List.length_cons, List.length_nil,
        hc.1, hc.2, List.range_succ]
    · simp only [List.length_append, List.length_cons, List.length_nil, hc.2, Nat.pow_succ]

/-- a class made of `auto()` fields only starts canonical -/
theorem canon_empty : Canon ⟨[], 1⟩ := by
  constructor <;> rfl


/-! ### flags: pack -> bytes -> unpack -> meaning, assembled -/


private theorem sortedFields_length (c : FlagCls) : c.sortedFields.length = c.fields.length := by
  unfold FlagCls.sortedFields
  rw [List.length_map]
  have : ∀ (l : List (String × Nat)), (sortByVal l).length = l.length := by
    intro l
    induction l with
    | nil => rfl
    | cons h t ih =>
      have hins : ∀ (x : String × Nat) (l : List (String × Nat)), (insByVal x l).length = l.length + 1 := by
        intro x l
        induction l with
        | nil => rfl
        | cons a r ih' => simp only [insByVal]; split <;> simp [ih']
      show (insByVal h (sortByVal t)).length = _
      rw [hins, ih]; rfl
  exact this _

/-- **Flags end to end** (`_packImpl` → bytes → `_unpackImpl` → `_flagsOn`): for a writer class `w` and a reader
class `r'` (after unknown names were added) that both satisfy the invariant — true of every class made of `auto()`
fields and kept by `extend` (`extend_auto_keeps_invariant`) —, with every written name known to the reader, any
value over the writer's fields is packed into `width` bytes, unpacked, and the reader sees exactly the same
flag names switched on; the classes may order and number their fields differently and the reader may have more. -/
theorem flags_pack_unpack_meaning (w r' : FlagCls) (hw : Canon w) (hr : Canon r')
    (hsub : ∀ s ∈ w.sortedFields, s ∈ r'.sortedFields) (hlen : w.fields.length ≤ r'.fields.length)
    (v : Nat) (hv : v < 2 ^ w.fields.length) :
    ∃ bytes u, toBytes v w.width = some bytes ∧ bytes.length = w.width ∧
      unpackVal w.sortedFields r'.sortedFields (fromBytes bytes) = some u ∧
      ∀ name, name ∈ flagsOn r' u ↔ name ∈ flagsOn w v := by
  have hfit : v < 256 ^ w.width := by
    have h1 : (256 : Nat) ^ w.width = 2 ^ (8 * w.width) := by
      rw [Nat.pow_mul]
    rw [h1]
    apply Nat.lt_of_lt_of_le hv
    apply Nat.pow_le_pow_right (by decide)
    unfold FlagCls.width; omega
  have hsome := (toBytes_isSome_iff w.width v).mpr hfit
  obtain ⟨bytes, hb⟩ := Option.isSome_iff_exists.mp hsome
  obtain ⟨hfrom, hblen, _⟩ := flags_bytes_roundtrip w.width v bytes hb
  obtain ⟨u, hu, hmean⟩ := flags_meaning_preserved w.sortedFields r'.sortedFields hsub
    (by rw [sortedFields_length, sortedFields_length]; exact hlen) v (by rw [sortedFields_length]; exact hv)
  refine ⟨bytes, u, hb, hblen, by rw [hfrom]; exact hu, ?_⟩
  intro name
  rw [flagsOn_canon r' hr u name, flagsOn_canon w hw v name]
  exact hmean name


/-! ### flags: the former hypotheses proved; total end-to-end statement -/


private theorem extendAuto_names : ∀ (l : List String) (c : FlagCls),
    (c.extendAuto l).fields.map (·.1) = c.fields.map (·.1) ++ l := by
  intro l
  induction l with
  | nil => intro c; simp [FlagCls.extendAuto]
  | cons n r ih => intro c; simp only [FlagCls.extendAuto]; rw [ih]; simp

private theorem pigeonhole : ∀ (l m : List String), l.Nodup → (∀ s ∈ l, s ∈ m) → l.length ≤ m.length := by
  intro l
  induction l with
  | nil => intro m _ _; simp
  | cons a r ih =>
    intro m hnd hsub
    have ha : a ∈ m := hsub a (List.mem_cons_self ..)
    have hnd' := List.nodup_cons.mp hnd
    have hsub' : ∀ s ∈ r, s ∈ m.erase a := by
      intro s hs
      have hne : s ≠ a := fun h => hnd'.1 (h ▸ hs)
      exact (List.mem_erase_of_ne hne).mpr (hsub s (List.mem_cons_of_mem _ hs))
    have := ih (m.erase a) hnd'.2 hsub'
    rw [List.length_erase_of_mem ha] at this
    have hpos : 0 < m.length := List.length_pos_of_mem ha
    simp only [List.length_cons]; omega


private theorem mem_sortedFields (c : FlagCls) (s : String) : s ∈ c.sortedFields ↔ s ∈ c.fields.map (·.1) := by
  unfold FlagCls.sortedFields
  exact (List.Perm.map _ (perm_sortByVal c.fields)).mem_iff

/-- the reader class `_unpackImpl` ends up with: unknown names of the stored order are added with `auto()` values -/
def readerAfter (order : List String) (r : FlagCls) : FlagCls :=
  let missing := (order.filter (fun n => !(r.fields.map (·.1)).contains n)).eraseDups
  if missing.isEmpty then r else r.extendAuto missing

/-- (formerly a hypothesis) after `_unpackImpl` has added the unknown names, every stored name is known to the reader -/
theorem readerAfter_knows (order : List String) (r : FlagCls) :
    ∀ s ∈ order, s ∈ (readerAfter order r).sortedFields := by
  intro s hs
  rw [mem_sortedFields]
  unfold readerAfter
  simp only []
  by_cases hin : s ∈ r.fields.map (·.1)
  · split
    · exact hin
    · rw [extendAuto_names]; exact List.mem_append_left _ hin
  · have hmiss : s ∈ (order.filter (fun n => !(r.fields.map (·.1)).contains n)).eraseDups := by
      rw [List.mem_eraseDups, List.mem_filter]
      exact ⟨hs, by simpa using hin⟩
    split
    · rename_i hemp
      rw [List.isEmpty_iff] at hemp
      rw [hemp] at hmiss; simp at hmiss
    · rw [extendAuto_names]; exact List.mem_append_right _ hmiss

/-- **Flags, totally end to end on the model of `_packImpl` / `_unpackImpl`**: for ANY writer class `w` and reader class
`r` that satisfy the invariant (all-`auto()` classes and their `extend`ed versions do) — fields ordered, numbered and
extended independently, the reader possibly lacking some of the writer's flags — and any value over the writer's
fields: packing succeeds, unpacking succeeds and extends the reader by exactly the unknown names, the extended reader
still satisfies the invariant, and the unpacked value has exactly the written flag NAMES on. The only hypotheses left
are the invariant and that the writer's names are pairwise distinct (a Python class cannot have two attributes of one name). -/
theorem flags_roundtrip_total (w r : FlagCls) (hw : Canon w) (hr : Canon r) (hnd : (w.fields.map (·.1)).Nodup)
    (v : Nat) (hv : v < 2 ^ w.fields.length) :
    ∃ rows u, flagsPack w [v] = some rows ∧
      flagsUnpack w.sortedFields r rows = some (readerAfter w.sortedFields r, [u]) ∧
      Canon (readerAfter w.sortedFields r) ∧
      ∀ name, name ∈ flagsOn (readerAfter w.sortedFields r) u ↔ name ∈ flagsOn w v := by
  have hcan : Canon (readerAfter w.sortedFields r) := by
    unfold readerAfter
    simp only []
    split
    · exact hr
    · exact extend_auto_keeps_invariant _ _ hr
  have hsub := readerAfter_knows w.sortedFields r
  have hlen : w.fields.length ≤ (readerAfter w.sortedFields r).fields.length := by
    have h1 := pigeonhole (w.fields.map (·.1)) ((readerAfter w.sortedFields r).fields.map (·.1)) hnd
      (fun s hs => (mem_sortedFields _ s).mp (hsub s ((mem_sortedFields w s).mpr hs)))
    simpa using h1
  obtain ⟨bytes, u, hb, _, hu, hmean⟩ := flags_pack_unpack_meaning w _ hw hcan hsub hlen v hv
  refine ⟨[bytes], u, ?_, ?_, hcan, hmean⟩
  · simp [flagsPack, hb]
  · have : flagsUnpack w.sortedFields r [bytes]
        = (([bytes].mapM (fun row => unpackVal w.sortedFields (readerAfter w.sortedFields r).sortedFields (fromBytes row))).map
            (fun vs => (readerAfter w.sortedFields r, vs))) := rfl
    rw [this]
    simp [hu]

/-! ### non-vacuity: concrete inputs satisfying the hypotheses, and witnesses at the excluded points -/

/-- the ragged strategy is taken and `jagged_roundtrip` applies (scalar, list, None, empty, array) -/
example : (match writeJagged [.scal false .i64 (.i 3), .list false .i64 [.i 1, .i 2], .none, .list false .i64 [],
      .arr .i64 [3] [.i 4, .i 5, .i 6]] with | .ok st => readParam 5 st | _ => Option.none) =
    some [.arr .i64 [1] [.i 3], .arr .i64 [2] [.i 1, .i 2], .none, .none, .arr .i64 [3] [.i 4, .i 5, .i 6]] := by
  decide +kernel

example : ∀ e ∈ [Entry.scal false .i64 (.i 3), .list false .i64 [.i 1, .i 2], .none], JGood .i64 e := by
  intro e he
  simp only [List.mem_cons, List.not_mem_nil, or_false] at he
  rcases he with rfl | rfl | rfl <;> simp [JGood, classifyJ, DT.isInt, DT.isSigned, prod]

/-- sentinel strategy on uint8 (F6a, fixed): accepted and read back intact -/
example : (match writeParam [.scal true .u8 (.i 5), .none, .scal true .u8 (.i 2)] with
    | .ok st => readParam 3 st | _ => Option.none) = some [.scal .u8 (.i 5), .none, .scal .u8 (.i 2)] := by
  decide +kernel

/-- excluded point of `NoSentinel`: a value equal to the sentinel reads back as None (known finding) -/
example : (match writeParam [.scal false .i64 (.i (-9223372036854775806)), .none, .scal false .i64 (.i 4)] with
    | .ok st => readParam 3 st | _ => Option.none) = some [.none, .none, .scal .i64 (.i 4)] := by
  decide +kernel

/-- since fix 49d3d18 two-level ragged nesting is refused at write time (before: written, unreadable) -/
example : writeParam [.list2 false .i64 [[.i 1, .i 2], [.i 3]], .list2 false .i64 [[.i 4], [.i 5, .i 6], [.i 7]]] = .reject := by
  decide +kernel

/-- since fix 8558ef4 a numpy bool scalar, a str scalar or a dict among ragged entries is refused at write time -/
example : writeParam [.scal true .b (.b true), .list false .b [.b true, .b false]] = .reject ∧
    writeParam [.none, .list false .str [], .scal false .str (.s "x y")] = .reject ∧
    writeParam [.dict [("a", some 1)], .list false .f64 [.f (some 1), .f (some 2)]] = .reject := by
  decide +kernel

/-- rejected at write time, as the property allows: bool + None, str + None, dict + None, ragged tuples -/
example : writeParam [.scal false .b (.b true), .none] = .reject ∧
    writeParam [.scal false .str (.s "a"), .none] = .reject ∧
    writeParam [.dict [("a", some 1)], .none] = .reject ∧
    writeParam [.list true .i64 [.i 1, .i 2], .list true .i64 [.i 3]] = .reject := by
  decide +kernel

/-- `flags_meaning_preserved` applies to a reordered + extended reader -/
example : unpackVal ["A", "B", "C"] ["C", "X", "A", "B"] 5 = some 5 ∧ unpackVal ["A", "B", "C"] ["C", "X", "A", "B"] 3 = some 12 := by
  decide +kernel

example : Canon (FlagCls.extendAuto ⟨[], 1⟩ ["A", "B", "C"]) := extend_auto_keeps_invariant _ _ canon_empty

/-- `flags_roundtrip_total` on a reader that lacks flag B and orders the others differently: B is added, meaning kept -/
example : (flagsUnpack ["A", "B", "C"] ⟨[("C", 1), ("A", 2)], 4⟩ [[6]]).map (fun p => (p.1.fields, p.2.map (flagsOn p.1))) =
    some ([("C", 1), ("A", 2), ("B", 4)], [["C", "B"]]) := by decide +kernel

/-- excluded point of `Canon`: explicit values 1 and 4 — the remap has no ordinal for bit 2 (KeyError; known finding) -/
example : unpackVal ["A", "B"] ["B", "A"] 4 = Option.none := by decide +kernel

end ArmiVerif.Pack
