/-
C06 — database snapshots are isolated, complete, queryable and survive aborted runs.
Model: ArmiVerif/Model/SnapStore.lean; the run is `Schedule.run` (C15).
-/
import ArmiVerif.Model.SnapStore
import Mathlib.Tactic.Ring

namespace ArmiVerif.SnapStore
open ArmiVerif.Schedule

/-! ## Isolation and overwrite refusal -/

private theorem find_none_of_not_hasKey (s : Store) (k : Key) (h : hasKey s k = false) :
    s.groups.find? (fun g => name g.1 == name k) = none := by
  unfold hasKey at h
  rw [List.find?_eq_none]
  intro g hg
  have := List.any_eq_false.mp h g hg
  simpa using this

/-- **a second write to the same (cycle, node, label) is refused** -/
theorem write_refuses_overwrite (s s' : Store) (r : Snap) (label : List Nat)
    (h : write s r label = some s') : write s' r label = none := by
  unfold write at h ⊢
  simp only [] at h ⊢
  split at h
  · simp at h
  · simp at h; subst h
    simp [hasKey]

/-- **a fresh snapshot loads back as the state at its write** -/
theorem write_then_load (s s' : Store) (r : Snap) (label : List Nat) (h : write s r label = some s') :
    load s' ⟨r.cycle, r.node, label⟩ = some r := by
  unfold write at h
  simp only [] at h
  split at h
  · simp at h
  · next hc =>
    simp at h; subst h
    have hk : hasKey s ⟨r.cycle, r.node, label⟩ = false := by
      simp at hc; simpa using hc.2
    unfold load
    simp [List.find?_append, find_none_of_not_hasKey s _ hk]

/-- **isolation**: whatever is written later, an existing snapshot loads back unchanged -/
theorem write_isolated (s s' : Store) (k : Key) (v r : Snap) (label : List Nat)
    (hl : load s k = some v) (h : write s r label = some s') : load s' k = some v := by
  unfold write at h
  simp only [] at h
  split at h
  · simp at h
  · simp at h; subst h
    unfold load at hl ⊢
    simp only [Option.map_eq_some_iff] at hl ⊢
    obtain ⟨g, hg, rfl⟩ := hl
    exact ⟨g, by simp [List.find?_append, hg], rfl⟩

/-- isolation over any sequence of later writes (refused ones leave the store as it is) -/
theorem write_isolated_seq (s : Store) (k : Key) (v : Snap) (ws : List (Snap × List Nat))
    (hl : load s k = some v) :
    load (ws.foldl (fun st w => (write st w.1 w.2).getD st) s) k = some v := by
  induction ws generalizing s with
  | nil => exact hl
  | cons w rest ih =>
    simp only [List.foldl_cons]
    apply ih
    cases hw : write s w.1 w.2 with
    | none => simpa using hl
    | some s' => simpa using write_isolated s s' k v w.1 w.2 hl hw

/-- **deleting one snapshot** removes exactly the group of that (cycle, node, label): it is gone, and every snapshot with a
different name — also the other labels of the same (cycle, node) — still loads as it was -/
theorem delete_exact (s s' : Store) (k : Key) (h : delete s k = some s') :
    load s' k = none ∧ ∀ k', name k' ≠ name k → load s' k' = load s k' := by
  unfold delete at h
  split at h
  · simp at h
  · simp only [Option.some.injEq] at h
    subst h
    constructor
    · unfold load
      simp only [Option.map_eq_none_iff, List.find?_eq_none, List.mem_filter]
      intro g hg
      simpa using hg.2
    · intro k' hk'
      unfold load
      congr 1
      induction s.groups with
      | nil => rfl
      | cons g rest ih =>
        by_cases hg : name g.1 = name k
        · have h1 : (name g.1 != name k) = false := by simpa using hg
          have h2 : (name g.1 == name k') = false := by
            simpa using (fun hh : name g.1 = name k' => hk' (hh.symm.trans hg))
          simp only [List.filter_cons, h1, Bool.false_eq_true, if_false, List.find?_cons, h2, ih]
        · have h1 : (name g.1 != name k) = true := by simpa using hg
          simp only [List.filter_cons, h1, if_true, List.find?_cons, ih]

/-- closing does not touch the snapshots -/
theorem close_keeps_snapshots (s : Store) (ok : Bool) : (close s ok).groups = s.groups := by
  unfold close; split <;> rfl

/-! ## Listing -/

private theorem insSorted_perm {α} (le : α → α → Bool) (a : α) (l : List α) :
    (insSorted le a l).Perm (a :: l) := by
  induction l with
  | nil => exact List.Perm.refl _
  | cons b t ih =>
    unfold insSorted
    split
    · exact List.Perm.refl _
    · exact (List.Perm.cons b ih).trans (List.Perm.swap a b t)

private theorem isort_perm {α} (le : α → α → Bool) (l : List α) : (isort le l).Perm l := by
  induction l with
  | nil => exact List.Perm.refl _
  | cons a t ih => exact (insSorted_perm le a _).trans (List.Perm.cons a ih)

private theorem insSorted_sorted {α} (le : α → α → Bool)
    (htrans : ∀ a b c, le a b = true → le b c = true → le a c = true)
    (htotal : ∀ a b, le a b = true ∨ le b a = true) (a : α) (l : List α)
    (hl : l.Pairwise (fun x y => le x y = true)) :
    (insSorted le a l).Pairwise (fun x y => le x y = true) := by
  induction l with
  | nil => simp [insSorted]
  | cons b t ih =>
    unfold insSorted
    rw [List.pairwise_cons] at hl
    split
    · next hab =>
      rw [List.pairwise_cons]
      refine ⟨?_, List.pairwise_cons.mpr hl⟩
      intro x hx
      rcases List.mem_cons.mp hx with rfl | hx
      · exact hab
      · exact htrans _ _ _ hab (hl.1 x hx)
    · next hab =>
      have hba : le b a = true := by
        rcases htotal a b with h | h
        · exact absurd h hab
        · exact h
      rw [List.pairwise_cons]
      refine ⟨?_, ih hl.2⟩
      intro x hx
      have := (insSorted_perm le a t).mem_iff.mp hx
      rcases List.mem_cons.mp this with rfl | hx
      · exact hba
      · exact hl.1 x hx

private theorem isort_sorted {α} (le : α → α → Bool)
    (htrans : ∀ a b c, le a b = true → le b c = true → le a c = true)
    (htotal : ∀ a b, le a b = true ∨ le b a = true) (l : List α) :
    (isort le l).Pairwise (fun x y => le x y = true) := by
  induction l with
  | nil => simp [isort]
  | cons a t ih => exact insSorted_sorted le htrans htotal a _ ih

/-- **every written snapshot and nothing else is listed** (the sorted listing is a permutation of
the groups written) -/
theorem listing_exact (s : Store) : (sortedGroups s).Perm s.groups := isort_perm _ _

/-- **the listing is sorted by group name** (code-point order of the names, as Python's `sorted`) -/
theorem listing_sorted_by_name (s : Store) :
    (sortedGroups s).Pairwise (fun a b => name a.1 ≤ name b.1) := by
  have := isort_sorted nameLe
    (fun a b c h1 h2 => by
      unfold nameLe at *
      simp only [decide_eq_true_eq] at *
      exact List.le_trans h1 h2)
    (fun a b => by
      unfold nameLe
      simp only [decide_eq_true_eq]
      exact List.le_total _ _) s.groups
  unfold sortedGroups
  exact this.imp (fun h => by unfold nameLe at h; simpa using h)

/-! ## Names: chronological order below 100, and the bound -/

def lexLt (a b : Nat × Nat) : Prop := a.1 < b.1 ∨ (a.1 = b.1 ∧ a.2 < b.2)
def lexLe (a b : Nat × Nat) : Prop := a.1 < b.1 ∨ (a.1 = b.1 ∧ a.2 ≤ b.2)

/-- **name_order_iff**: for cycle and node numbers below 100 the code-point order of the group names
is the chronological order of (cycle, node), ties broken by the label -/
theorem name_order_iff (c n c' n' : Nat) (l l' : List Nat)
    (hc : c < 100) (hn : n < 100) (hc' : c' < 100) (hn' : n' < 100) :
    name ⟨c, n, l⟩ < name ⟨c', n', l'⟩ ↔
      lexLt (c, n) (c', n') ∨ (c = c' ∧ n = n' ∧ l < l') := by
  unfold name pad2 lexLt
  simp only [if_pos hc, if_pos hn, if_pos hc', if_pos hn', List.cons_append, List.nil_append,
    List.cons_lt_cons_iff]
  by_cases hP : l < l' <;> simp [hP] <;> omega

/-- the same for `≤` (what a sorted listing gives) -/
theorem name_le_imp (c n c' n' : Nat) (l l' : List Nat)
    (hc : c < 100) (hn : n < 100) (hc' : c' < 100) (hn' : n' < 100)
    (h : name ⟨c, n, l⟩ ≤ name ⟨c', n', l'⟩) : lexLe (c, n) (c', n') := by
  have h' : ¬ name ⟨c', n', l'⟩ < name ⟨c, n, l⟩ := List.not_lt.mpr h
  rw [name_order_iff c' n' c n l' l hc' hn' hc hn] at h'
  unfold lexLt at h'
  unfold lexLe
  simp only [] at h' ⊢
  omega

/-- names of different (cycle, node, label) triples below 100 differ -/
theorem name_injective (c n c' n' : Nat) (l l' : List Nat)
    (hc : c < 100) (hn : n < 100) (hc' : c' < 100) (hn' : n' < 100)
    (h : name ⟨c, n, l⟩ = name ⟨c', n', l'⟩) : c = c' ∧ n = n' ∧ l = l' := by
  unfold name pad2 at h
  simp only [if_pos hc, if_pos hn, if_pos hc', if_pos hn', List.cons_append, List.nil_append,
    List.cons.injEq] at h
  refine ⟨by omega, by omega, h.2.2.2.2.2.2⟩

/-- below 100 the (cycle, node) is read back from the name -/
theorem parse_name (c n : Nat) (l : List Nat) (hc : c < 100) (hn : n < 100) :
    parseName (name ⟨c, n, l⟩) = some (c, n) := by
  unfold name pad2
  simp only [if_pos hc, if_pos hn, List.cons_append, List.nil_append]
  unfold parseName
  have d : ∀ x, x < 10 → digit? (48 + x) = some x := by
    intro x hx; unfold digit?; rw [if_pos (by omega)]; congr 1; omega
  simp only [d (c / 10) (by omega), d (c % 10) (by omega), d (n / 10) (by omega), d (n % 10) (by omega)]
  congr 2 <;> omega

/-- **the bound is real**: cycle 100 sorts before cycle 99 and is not recognised as a time step;
node 100 is read back as node 10 -/
example : name ⟨100, 0, []⟩ < name ⟨99, 0, []⟩ ∧ parseName (name ⟨100, 0, []⟩) = none
    ∧ parseName (name ⟨5, 100, []⟩) = some (5, 10) ∧ parseName (name ⟨99, 7, eolLabel⟩) = some (99, 7) := by
  decide

def smallKeys (s : Store) : Prop := ∀ g ∈ s.groups, g.1.cycle < 100 ∧ g.1.node < 100

private theorem filterMap_eq_map {α β} (f : α → Option β) (h : α → β) (l : List α)
    (hf : ∀ a ∈ l, f a = some (h a)) : l.filterMap f = l.map h := by
  induction l with
  | nil => rfl
  | cons a t ih =>
    simp [hf a (by simp), ih (fun b hb => hf b (by simp [hb]))]

/-- `genTimeSteps` lists the (cycle, node) of every group, in name order -/
theorem steps_exact (s : Store) (hs : smallKeys s) :
    steps s = (sortedGroups s).map (fun g => (g.1.cycle, g.1.node)) := by
  unfold steps
  apply filterMap_eq_map
  intro g hg
  have := hs g ((listing_exact s).mem_iff.mp hg)
  exact parse_name g.1.cycle g.1.node g.1.label this.1 this.2

/-- with cycle and node numbers below 100 the sorted groups are in chronological order -/
theorem sorted_chrono (s : Store) (hs : smallKeys s) :
    (sortedGroups s).Pairwise (fun a b => lexLe (a.1.cycle, a.1.node) (b.1.cycle, b.1.node)) := by
  have hsorted := listing_sorted_by_name s
  have hmem : ∀ g ∈ sortedGroups s, g.1.cycle < 100 ∧ g.1.node < 100 :=
    fun g hg => hs g ((listing_exact s).mem_iff.mp hg)
  revert hmem
  generalize sortedGroups s = L at hsorted ⊢
  induction hsorted with
  | nil => intro _; exact List.Pairwise.nil
  | @cons a0 l0 hx _ ih =>
    intro hmem
    refine List.Pairwise.cons ?_ (ih (fun g hg => hmem g (by simp [hg])))
    intro b hb
    have ha := hmem a0 (by simp)
    have hb' := hmem b (by simp [hb])
    exact name_le_imp _ _ _ _ _ _ ha.1 ha.2 hb'.1 hb'.2 (hx b hb)

/-- **listing_sorted**: with cycle and node numbers below 100, `genTimeSteps` returns exactly the
(cycle, node) of the written snapshots (a permutation of them), in chronological order -/
theorem listing_sorted (s : Store) (hs : smallKeys s) :
    (steps s).Perm (s.groups.map (fun g => (g.1.cycle, g.1.node))) ∧ (steps s).Pairwise lexLe := by
  rw [steps_exact s hs]
  refine ⟨(listing_exact s).map _, ?_⟩
  rw [List.pairwise_map]
  exact sorted_chrono s hs

private theorem decCodes_last (f n : Nat) : (decCodes (f + 1) n).getLast? = some (48 + n % 10) := by
  unfold decCodes
  split
  · next h => simp; omega
  · simp [List.getLast?_append]

private theorem pad2_last (n : Nat) : (pad2 n).getLast? = some (48 + n % 10) := by
  unfold pad2
  split
  · simp [List.getLast?_cons]
  · exact decCodes_last n n

/-- a name with an empty label ends in a digit, so it is never the name of an `error` snapshot
(for all cycle and node numbers, also above 100) -/
theorem name_fresh (c n c' n' : Nat) : name ⟨c, n, []⟩ ≠ name ⟨c', n', errorLabel⟩ := by
  intro h
  have h1 : (name ⟨c, n, []⟩).getLast? = some (48 + n % 10) := by
    unfold name
    simp only [List.append_nil]
    rw [List.getLast?_cons, List.getLast?_append, List.getLast?_cons, pad2_last]
    simp
  have h2 : (name ⟨c', n', errorLabel⟩).getLast? = some 114 := by
    unfold name errorLabel
    rw [List.getLast?_cons, List.getLast?_append, List.getLast?_cons, List.getLast?_append]
    simp
  rw [h, h2] at h1
  simp at h1
  omega

/-! ## Histories -/

private theorem lookup_map_ne {α} (d : List ((Nat × Nat) × α)) (k k' : Nat × Nat) (v : α) (h : k' ≠ k) :
    (d.map (fun e => if e.1 == k then (k, v) else e)).lookup k' = d.lookup k' := by
  induction d with
  | nil => rfl
  | cons e t ih =>
    obtain ⟨ek, ev⟩ := e
    simp only [List.map_cons]
    by_cases he : ek = k
    · subst he
      have hk : (k' == ek) = false := by simpa using h
      simp only [beq_self_eq_true, if_true, List.lookup_cons, hk, ih]
    · have : (ek == k) = false := by simpa using he
      simp only [this, Bool.false_eq_true, if_false, List.lookup_cons, ih]

private theorem lookup_odSet {α} (d : List ((Nat × Nat) × α)) (k k' : Nat × Nat) (v : α) :
    (odSet d k v).lookup k' = if k' = k then some v else d.lookup k' := by
  unfold odSet
  by_cases hk : k' = k
  · subst hk
    rw [if_pos rfl]
    induction d with
    | nil => simp
    | cons e t ih =>
      obtain ⟨ek, ev⟩ := e
      by_cases he : ek = k'
      · subst he; simp
      · have hf : (ek == k') = false := by simpa using he
        have hf' : (k' == ek) = false := by simpa using (fun h => he h.symm)
        simp only [List.any_cons, hf, Bool.false_or]
        split
        · next hany =>
          rw [if_pos hany] at ih
          simp only [List.map_cons, hf, Bool.false_eq_true, if_false, List.lookup_cons, hf', ih]
        · next hany =>
          rw [if_neg hany] at ih
          simp only [List.cons_append, List.lookup_cons, hf', ih]
  · rw [if_neg hk]
    split
    · exact lookup_map_ne d k k' v hk
    · have hk' : (k' == k) = false := by simpa using hk
      rw [List.lookup_append]
      simp [List.lookup_cons, hk']

private theorem lookup_fold {α} (l : List ((Nat × Nat) × α)) (d : List ((Nat × Nat) × α)) (k : Nat × Nat) :
    (l.foldl (fun d e => odSet d e.1 e.2) d).lookup k =
      match (l.filter (fun e => e.1 == k)).getLast? with
      | some e => some e.2
      | none => d.lookup k := by
  induction l generalizing d with
  | nil => simp
  | cons e t ih =>
    simp only [List.foldl_cons]
    rw [ih, lookup_odSet]
    by_cases he : e.1 = k
    · have : (e.1 == k) = true := by simpa using he
      simp only [List.filter_cons, this, if_true, List.getLast?_cons]
      cases (t.filter (fun e => e.1 == k)).getLast? with
      | none => simp [he]
      | some e' => simp
    · have : (e.1 == k) = false := by simpa using he
      simp only [List.filter_cons, this, Bool.false_eq_true, if_false]
      cases (t.filter (fun e => e.1 == k)).getLast? with
      | none => simp; intro h; exact absurd h.symm he
      | some e' => simp

/-- **history_spec**: the value a history reports for step `cn` is the value — or the default if
the parameter was unset — that the object WITH THAT SERIAL NUMBER (wherever it sits in the
snapshot, i.e. also after it moved) has in the last snapshot, in name order, whose step
attributes are `cn` and which contains the object; a step is absent from the history exactly when no
snapshot of that step contains the object.  (`entries` lists, in name order, (step, value-or-default)
of every time-step snapshot that contains the object.) -/
theorem history_spec (s : Store) (serial : Nat) (dflt : Int) (cn : Nat × Nat) :
    (historyDb s serial dflt).lookup cn =
      (((entries s serial dflt).filter (fun e => e.1 == cn)).getLast?).map (·.2) := by
  unfold historyDb
  rw [lookup_fold]
  cases ((entries s serial dflt).filter (fun e => e.1 == cn)).getLast? <;> simp [List.lookup]

/-- the live step is appended only when the stored steps do not already hold it -/
theorem history_live (s : Store) (serial : Nat) (dflt : Int) (cur : Snap) (v : Option Int)
    (hne : (historyDb s serial dflt).isEmpty = false)
    (habs : (historyDb s serial dflt).any (fun e => e.1 == (cur.cycle, cur.node)) = false)
    (hobj : cur.objs.find? (fun o => o.1 == serial) = some (serial, v)) :
    history s serial dflt cur = historyDb s serial dflt ++ [((cur.cycle, cur.node), v.getD dflt)] := by
  unfold history
  simp [hne, habs, hobj]

/-! ## Histories over selected steps × parameters; parameters without a dataset in early snapshots

`Model/SnapStore.lean` (`PState`, `writeP`, `histLoop`, `dbHistory`, `dbiHistory`, `blockHistoryVal`) transcribes
`_writeParams` + `toWriteToDB` (a dataset only for parameters whose class-level `assigned` flag is set) and
`Database.getHistories` / `DatabaseInterface.getHistory` / `HistoryTrackerInterface.getBlockHistoryVal`
with explicit `timeSteps` and `params`. -/

/-- value a history holds for parameter `p` at step `k` -/
def lookupH (h : Hist) (p : Nat) (k : Nat × Nat) : Option Int := ((h.lookup p).getD []).lookup k

private theorem lookup_map_other {β} (t : List (Nat × β)) (p p' : Nat) (f : β → β) (hp : p' ≠ p) :
    (t.map (fun e => if e.1 == p then (p, f e.2) else e)).lookup p' = t.lookup p' := by
  induction t with
  | nil => rfl
  | cons e t ih =>
    obtain ⟨ek, ev⟩ := e
    simp only [List.map_cons]
    by_cases he : ek = p
    · subst he
      have hk : (p' == ek) = false := by simpa using hp
      simp only [beq_self_eq_true, if_true, List.lookup_cons, hk, ih]
    · have : (ek == p) = false := by simpa using he
      simp only [this, Bool.false_eq_true, if_false, List.lookup_cons, ih]

private theorem lookup_map_same {β} (t : List (Nat × β)) (p : Nat) (f : β → β) :
    (t.map (fun e => if e.1 == p then (p, f e.2) else e)).lookup p = (t.lookup p).map f := by
  induction t with
  | nil => rfl
  | cons e t ih =>
    obtain ⟨ek, ev⟩ := e
    simp only [List.map_cons]
    by_cases he : ek = p
    · subst he
      simp only [beq_self_eq_true, if_true, List.lookup_cons, Option.map_some]
    · have h1 : (ek == p) = false := by simpa using he
      have h2 : (p == ek) = false := by simpa using (fun h => he h.symm)
      simp only [h1, Bool.false_eq_true, if_false, List.lookup_cons, h2, ih]

private theorem any_key_lookup {β} (t : List (Nat × β)) (p : Nat) :
    t.any (fun e => e.1 == p) = (t.lookup p).isSome := by
  induction t with
  | nil => rfl
  | cons e t ih =>
    obtain ⟨ek, ev⟩ := e
    by_cases he : ek = p
    · subst he; simp [List.lookup_cons]
    · have h1 : (ek == p) = false := by simpa using he
      have h2 : (p == ek) = false := by simpa using (fun h => he h.symm)
      simp only [List.any_cons, h1, Bool.false_or, ih, List.lookup_cons, h2]

private theorem lookup_setHist (h : Hist) (p p' : Nat) (k : Nat × Nat) (v : Int) :
    (setHist h p k v).lookup p' = if p' = p then some (odSet ((h.lookup p).getD []) k v) else h.lookup p' := by
  unfold setHist
  rw [any_key_lookup]
  by_cases hp : p' = p
  · subst hp
    rw [if_pos rfl]
    cases hl : h.lookup p' with
    | some d =>
      simp only [Option.isSome_some, if_true, Option.getD_some]
      rw [lookup_map_same h p' (fun d => odSet d k v), hl]
      rfl
    | none =>
      simp only [Option.isSome_none, Bool.false_eq_true, if_false, Option.getD_none]
      rw [List.lookup_append, hl]
      simp [List.lookup_cons]
  · rw [if_neg hp]
    cases hl : (h.lookup p).isSome with
    | true =>
      simp only [if_true]
      exact lookup_map_other h p p' (fun d => odSet d k v) hp
    | false =>
      simp only [Bool.false_eq_true, if_false]
      have : (p' == p) = false := by simpa using hp
      rw [List.lookup_append]
      simp [List.lookup_cons, this]

theorem lookupH_setHist (h : Hist) (p p' : Nat) (k k' : Nat × Nat) (v : Int) :
    lookupH (setHist h p k v) p' k' = if p' = p ∧ k' = k then some v else lookupH h p' k' := by
  unfold lookupH
  rw [lookup_setHist]
  by_cases hp : p' = p
  · subst hp
    simp only [if_true, Option.getD_some, true_and, lookup_odSet]
  · simp [hp]

theorem lookupH_fold (params : List Nat) (k : Nat × Nat) (f : Nat → Int) (acc : Hist) (p' : Nat) (k' : Nat × Nat) :
    lookupH (params.foldl (fun a p => setHist a p k (f p)) acc) p' k'
      = if p' ∈ params ∧ k' = k then some (f p') else lookupH acc p' k' := by
  induction params generalizing acc with
  | nil => simp
  | cons q rest ih =>
    simp only [List.foldl_cons]
    rw [ih, lookupH_setHist]
    by_cases h1 : p' ∈ rest <;> by_cases h2 : k' = k <;> by_cases h3 : p' = q <;> simp [h1, h2, h3]

/-- what the snapshot of step `k` holds for the object with serial number `serial` and parameter `p`:
the dataset's entry at the object's row, or the default when the snapshot has no dataset for `p`;
`none` if no snapshot of that step exists or it does not contain the object -/
def valAt (groups : List PSnap) (serial : Nat) (dflt : Nat → Int) (k : Nat × Nat) (p : Nat) : Option Int :=
  match groups.find? (fun g => (g.cycle, g.node) == k) with
  | some g => (g.layout.idxOf? serial).map (fun idx => storedValue g idx p dflt)
  | none => none

theorem histLoop_lookup (groups : List PSnap) (serial : Nat) (params : List Nat) (dflt : Nat → Int)
    (steps : List (Nat × Nat)) (acc h : Hist) (hh : histLoop groups serial params dflt steps acc = some h)
    (p' : Nat) (k' : Nat × Nat) :
    lookupH h p' k' = if p' ∈ params ∧ k' ∈ steps ∧ (valAt groups serial dflt k' p').isSome
      then valAt groups serial dflt k' p' else lookupH acc p' k' := by
  induction steps generalizing acc with
  | nil => simp [histLoop] at hh; subst hh; simp
  | cons step rest ih =>
    unfold histLoop at hh
    cases hf : groups.find? (fun g => (g.cycle, g.node) == step) with
    | none => rw [hf] at hh; simp at hh
    | some g =>
      rw [hf] at hh
      simp only [] at hh
      have hkey : (g.cycle, g.node) = step := by
        have := List.find?_some hf
        simpa using this
      cases hi : g.layout.idxOf? serial with
      | none =>
        rw [hi] at hh
        simp only [] at hh
        rw [ih acc hh]
        have hv : ∀ q, valAt groups serial dflt step q = none := by
          intro q; unfold valAt; rw [hf]; simp [hi]
        by_cases hk : k' = step
        · subst hk
          simp [hv]
        · simp [hk]
      | some idx =>
        rw [hi] at hh
        simp only [] at hh
        rw [ih _ hh, lookupH_fold]
        have hv : ∀ q, valAt groups serial dflt step q = some (storedValue g idx q dflt) := by
          intro q; unfold valAt; rw [hf]; simp [hi]
        by_cases hk : k' = step
        · subst hk
          by_cases hp : p' ∈ params
          · simp [hp, hv, hkey]
          · simp [hp]
        · have : ¬ k' = (g.cycle, g.node) := by rw [hkey]; exact hk
          simp [hk, this]


private theorem lookup_map_val {β} (t : List (Nat × β)) (p : Nat) (f : Nat × β → β) :
    (t.map (fun e => (e.1, f e))).lookup p = (t.lookup p).map (fun d => f (p, d)) := by
  induction t with
  | nil => rfl
  | cons e t ih =>
    obtain ⟨ek, ev⟩ := e
    by_cases he : ek = p
    · subst he; simp [List.lookup_cons]
    · have h2 : (p == ek) = false := by simpa using (fun h => he h.symm)
      simp only [List.map_cons, List.lookup_cons, h2, ih]

/-- the live step is only ever ADDED: every value the stored steps gave stays -/
theorem addLive_keeps (st : PState) (dflt : Nat → Int) (serial : Nat) (h : Hist) (p : Nat) (k : Nat × Nat) (v : Int)
    (hv : lookupH h p k = some v) : lookupH (addLive st dflt serial h) p k = some v := by
  unfold lookupH at hv ⊢
  unfold addLive
  have e : (fun e : Nat × List ((Nat × Nat) × Int) =>
        if e.2.any (fun x => x.1 == (st.cycle, st.node)) then e
        else (e.1, e.2 ++ [((st.cycle, st.node), st.get dflt serial e.1)]))
      = (fun e => (e.1, (fun e : Nat × List ((Nat × Nat) × Int) =>
          if e.2.any (fun x => x.1 == (st.cycle, st.node)) then e.2
          else e.2 ++ [((st.cycle, st.node), st.get dflt serial e.1)]) e)) := by
    funext e; obtain ⟨a, b⟩ := e; simp only []; split <;> simp_all
  rw [e, lookup_map_val]
  cases hl : h.lookup p with
  | none => rw [hl] at hv; simp at hv
  | some d =>
    rw [hl] at hv
    simp only [Option.getD_some] at hv
    simp only [Option.map_some, Option.getD_some]
    split
    · exact hv
    · rw [List.lookup_append, hv]; rfl

/-- **history over selected steps × parameters**: `Database.getHistory(obj, params, timeSteps)` holds, for every
requested parameter and every requested step whose snapshot contains the object (found by serial number), the
snapshot's value for that object — the dataset entry at its row, or THE DEFAULT when the snapshot has no dataset
for the parameter -/
theorem dbHistory_value (groups : List PSnap) (st : PState) (dflt : Nat → Int) (serial : Nat) (params : List Nat)
    (steps : List (Nat × Nat)) (h : Hist) (hh : dbHistory groups st dflt serial params steps = some h)
    (p : Nat) (hp : p ∈ params) (k : Nat × Nat) (hk : k ∈ steps) (v : Int)
    (hv : valAt groups serial dflt k p = some v) :
    lookupH h p k = some v := by
  unfold dbHistory at hh
  cases hl : histLoop groups serial params dflt steps [] with
  | none => rw [hl] at hh; simp at hh
  | some h0 =>
    rw [hl] at hh
    simp only [Option.map_some, Option.some.injEq] at hh
    subst hh
    apply addLive_keeps
    rw [histLoop_lookup groups serial params dflt steps [] h0 hl]
    simp [hp, hk, hv]

/-- **the full history (`timeSteps=None`) holds every written step**: for every snapshot that contains the object and
every requested parameter, the value stored there — or the default when that snapshot has no dataset for it -/
theorem dbHistoryAll_value (groups : List PSnap) (st : PState) (dflt : Nat → Int) (serial : Nat) (params : List Nat)
    (h : Hist) (hh : dbHistoryAll groups st dflt serial params = some h)
    (p : Nat) (hp : p ∈ params) (g : PSnap) (hg : g ∈ groups) (v : Int)
    (hv : valAt groups serial dflt (g.cycle, g.node) p = some v) :
    lookupH h p (g.cycle, g.node) = some v := by
  unfold dbHistoryAll at hh
  refine dbHistory_value groups st dflt serial params _ h hh p hp _ ?_ v hv
  unfold allSteps
  rw [(isort_perm _ _).mem_iff]
  exact List.mem_map.mpr ⟨g, hg, rfl⟩

/-- every value of an object that was assigned belongs to a parameter whose class-level flag is set
(the setter sets the flag first) -/
def liveAssigned (st : PState) : Prop := ∀ e ∈ st.live, e.1.2 ∈ st.assigned

theorem liveAssigned_assign (st : PState) (sn p : Nat) (v : Int) (h : liveAssigned st) : liveAssigned (st.assign sn p v) := by
  intro e he
  unfold PState.assign at he ⊢
  simp only [List.mem_cons] at he
  by_cases hc : st.assigned.contains p = true
  · simp only [hc, if_true]
    rcases he with rfl | he
    · simpa using hc
    · exact h e he
  · simp only [hc, Bool.false_eq_true, if_false, List.mem_append, List.mem_singleton]
    rcases he with rfl | he
    · right; rfl
    · left; exact h e he

private theorem lookup_none_of_not_mem {α β} [BEq α] [LawfulBEq α] (l : List (α × β)) (a : α) (h : ∀ e ∈ l, e.1 ≠ a) :
    l.lookup a = none := by
  induction l with
  | nil => rfl
  | cons e t ih =>
    obtain ⟨ek, ev⟩ := e
    have h1 : (a == ek) = false := by
      have := h (ek, ev) (by simp)
      simpa using (fun hh : a = ek => this hh.symm)
    simp only [List.lookup_cons, h1]
    exact ih (fun e he => h e (by simp [he]))

private theorem lookup_map_key (l : List Nat) (f : Nat → List Int) (q : Nat) :
    (l.map (fun p => (p, f p))).lookup q = if q ∈ l then some (f q) else none := by
  induction l with
  | nil => rfl
  | cons a t ih =>
    by_cases h : q = a
    · subst h; simp [List.lookup_cons]
    · have h1 : (q == a) = false := by simpa using h
      simp only [List.map_cons, List.lookup_cons, h1, ih, List.mem_cons, h, false_or]

/-- **a snapshot records the value or the default whether or not a dataset exists**: for the snapshot `writeP`
makes of state `st`, the value `getHistories` takes for the object in row `idx` and ANY parameter `p` — stored
(class-level flag set) or not stored at all (flag never set) — is `c.p[p]` at the write: the value if the object
had one, else the parameter's default -/
theorem writeP_storedValue (st : PState) (dflt : Nat → Int) (layout : List Nat) (idx serial p : Nat)
    (hinv : liveAssigned st) (hidx : layout[idx]? = some serial) :
    storedValue (writeP st dflt layout) idx p dflt = st.get dflt serial p := by
  unfold storedValue writeP
  simp only []
  rw [lookup_map_key]
  by_cases hp : p ∈ st.assigned
  · simp only [hp, if_true]
    rw [List.getD_eq_getElem?_getD, List.getElem?_map, hidx]
    rfl
  · simp only [hp, if_false]
    unfold PState.get
    rw [lookup_none_of_not_mem]
    · rfl
    · intro e he hc
      apply hp
      have := hinv e he
      rw [hc] at this
      exact this

theorem idxOf?_getElem (l : List Nat) (a i : Nat) (h : l.idxOf? a = some i) : l[i]? = some a := by
  unfold List.idxOf? at h
  have := List.of_findIdx?_eq_some h
  cases hl : l[i]? with
  | none => rw [hl] at this; simp at this
  | some b => rw [hl] at this; simp at this; rw [this]


/-- `DatabaseInterface.getHistory`: the current step, when requested, carries the live value of every requested parameter -/
theorem dbiHistory_now (groups : List PSnap) (st : PState) (dflt : Nat → Int) (serial : Nat) (params : List Nat)
    (steps : List (Nat × Nat)) (h : Hist) (hh : dbiHistory groups st dflt serial params steps = some h)
    (hnow : (st.cycle, st.node) ∈ steps) (p : Nat) (hp : p ∈ params) :
    lookupH h p (st.cycle, st.node) = some (st.get dflt serial p) := by
  unfold dbiHistory at hh
  have hc : steps.contains (st.cycle, st.node) = true := by simpa using hnow
  simp only [hc, if_true] at hh
  cases hd : dbHistory groups st dflt serial params (steps.erase (st.cycle, st.node)) with
  | none => rw [hd] at hh; simp at hh
  | some h0 =>
    rw [hd] at hh
    simp only [Option.map_some, Option.some.injEq] at hh
    subst hh
    rw [lookupH_fold]
    simp [hp]

/-- … and every other requested step carries the snapshot's value or the default, as for `Database.getHistory` -/
theorem dbiHistory_past (groups : List PSnap) (st : PState) (dflt : Nat → Int) (serial : Nat) (params : List Nat)
    (steps : List (Nat × Nat)) (h : Hist) (hh : dbiHistory groups st dflt serial params steps = some h)
    (p : Nat) (hp : p ∈ params) (k : Nat × Nat) (hk : k ∈ steps) (hne : k ≠ (st.cycle, st.node)) (v : Int)
    (hv : valAt groups serial dflt k p = some v) :
    lookupH h p k = some v := by
  unfold dbiHistory at hh
  by_cases hc : steps.contains (st.cycle, st.node) = true
  · simp only [hc, if_true] at hh
    cases hd : dbHistory groups st dflt serial params (steps.erase (st.cycle, st.node)) with
    | none => rw [hd] at hh; simp at hh
    | some h0 =>
      rw [hd] at hh
      simp only [Option.map_some, Option.some.injEq] at hh
      subst hh
      rw [lookupH_fold]
      simp only [hne, and_false, if_false]
      exact dbHistory_value groups st dflt serial params _ h0 hd p hp k ((List.mem_erase_of_ne hne).mpr hk) v hv
  · simp only [hc, Bool.false_eq_true, if_false] at hh
    exact dbHistory_value groups st dflt serial params steps h hh p hp k hk v hv

/-- `getBlockHistoryVal` for a written step: the snapshot's value or the default -/
theorem blockHistoryVal_written (groups : List PSnap) (st : PState) (dflt : Nat → Int) (serial p : Nat) (ts : Nat × Nat)
    (v : Int) (hv : valAt groups serial dflt ts p = some v) :
    blockHistoryVal groups st dflt serial p ts = some v := by
  unfold blockHistoryVal
  have hany : groups.any (fun g => (g.cycle, g.node) == ts) = true := by
    unfold valAt at hv
    cases hf : groups.find? (fun g => (g.cycle, g.node) == ts) with
    | none => rw [hf] at hv; simp at hv
    | some g =>
      rw [List.any_eq_true]
      exact ⟨g, List.mem_of_find?_eq_some hf, by simpa using List.find?_some hf⟩
  simp only [hany, Bool.not_true, Bool.and_false, Bool.false_eq_true, if_false]
  cases hd : dbHistory groups st dflt serial [p] [ts] with
  | none =>
    exfalso
    unfold dbHistory at hd
    unfold valAt at hv
    cases hf : groups.find? (fun g => (g.cycle, g.node) == ts) with
    | none => rw [hf] at hv; simp at hv
    | some g =>
      rw [hf] at hv
      simp only [] at hv
      cases hi : g.layout.idxOf? serial with
      | none => rw [hi] at hv; simp at hv
      | some idx => simp [histLoop, hf, hi] at hd
  | some h =>
    simp only []
    exact dbHistory_value groups st dflt serial [p] [ts] h hd p (by simp) ts (by simp) v hv

/-! ### every reachable history -/

inductive POp
  | assign (sn p : Nat) (v : Int)      -- `obj.p[param] = v`
  | time (c n : Nat)                   -- `r.p.cycle, r.p.timeNode = c, n`
  | write (layout : List Nat)          -- `writeToDB(r)` (refused when the step is already written)

/-- process state, snapshots, and a ghost log of (layout, process state) at every accepted write -/
structure PRun where
  st : PState
  groups : List PSnap
  log : List (List Nat × PState)

def PRun.init : PRun := ⟨⟨[], [], 0, 0⟩, [], []⟩

def PRun.step (dflt : Nat → Int) (r : PRun) : POp → PRun
  | .assign sn p v => { r with st := r.st.assign sn p v }
  | .time c n => { r with st := { r.st with cycle := c, node := n } }
  | .write layout =>
    if r.groups.any (fun g => (g.cycle, g.node) == (r.st.cycle, r.st.node)) then r
    else { r with groups := r.groups ++ [writeP r.st dflt layout], log := r.log ++ [(layout, r.st)] }

def PRun.Inv (dflt : Nat → Int) (r : PRun) : Prop :=
  liveAssigned r.st ∧ r.groups = r.log.map (fun e => writeP e.2 dflt e.1) ∧ (∀ e ∈ r.log, liveAssigned e.2)
    ∧ (r.groups.map (fun g => (g.cycle, g.node))).Nodup

theorem PRun.inv_init (dflt : Nat → Int) : PRun.Inv dflt PRun.init := by
  refine ⟨?_, rfl, ?_, ?_⟩ <;> simp [PRun.init, liveAssigned]

theorem PRun.inv_step (dflt : Nat → Int) (r : PRun) (op : POp) (h : PRun.Inv dflt r) : PRun.Inv dflt (r.step dflt op) := by
  obtain ⟨h1, h2, h3, h4⟩ := h
  cases op with
  | assign sn p v => exact ⟨liveAssigned_assign _ _ _ _ h1, h2, h3, h4⟩
  | time c n => exact ⟨h1, h2, h3, h4⟩
  | write layout =>
    unfold PRun.step
    simp only []
    split
    · exact ⟨h1, h2, h3, h4⟩
    · next hany =>
      refine ⟨h1, ?_, ?_, ?_⟩
      · simp [h2]
      · intro e he
        simp only [List.mem_append, List.mem_singleton] at he
        rcases he with he | rfl
        · exact h3 e he
        · exact h1
      · simp only [List.map_append, List.map_cons, List.map_nil]
        rw [List.nodup_append]
        refine ⟨h4, by simp, ?_⟩
        intro a ha b hb
        simp only [List.mem_singleton] at hb
        subst hb
        simp only [List.mem_map] at ha
        obtain ⟨g, hg, rfl⟩ := ha
        intro hc
        apply hany
        rw [List.any_eq_true]
        refine ⟨g, hg, ?_⟩
        simp only [writeP] at hc
        simpa using hc

theorem PRun.inv_run (dflt : Nat → Int) (ops : List POp) : PRun.Inv dflt (ops.foldl (PRun.step dflt) PRun.init) := by
  suffices ∀ r, PRun.Inv dflt r → PRun.Inv dflt (ops.foldl (PRun.step dflt) r) from this _ (PRun.inv_init dflt)
  induction ops with
  | nil => intro r h; exact h
  | cons op rest ih => intro r h; exact ih _ (PRun.inv_step dflt r op h)

private theorem find?_of_nodup_keys (l : List PSnap) (g : PSnap) (hg : g ∈ l)
    (hn : (l.map (fun g => (g.cycle, g.node))).Nodup) :
    l.find? (fun x => (x.cycle, x.node) == (g.cycle, g.node)) = some g := by
  induction l with
  | nil => simp at hg
  | cons a t ih =>
    simp only [List.map_cons, List.nodup_cons] at hn
    rcases List.mem_cons.mp hg with rfl | hg'
    · simp
    · have hne : ¬ ((a.cycle, a.node) = (g.cycle, g.node)) := by
        intro hc
        apply hn.1
        rw [hc]
        exact List.mem_map.mpr ⟨g, hg', rfl⟩
      have : ((a.cycle, a.node) == (g.cycle, g.node)) = false := by simpa using hne
      rw [List.find?_cons, this]
      exact ih hg' hn.2

/-- **C06 history clause over all histories, parameters becoming assigned at any time**: after ANY sequence of
assignments, clock changes and writes, for every accepted write (process state `st'`, layout `L`), every object
in that layout, every requested parameter — whether or not anybody had assigned it when that snapshot was
written — `Database.getHistory` over any selection of steps that includes that step reports for it exactly
what the object had at the write: its value, or the parameter's default if unset -/
theorem history_value_or_default (dflt : Nat → Int) (ops : List POp) (L : List Nat) (st' : PState)
    (hlog : (L, st') ∈ (ops.foldl (PRun.step dflt) PRun.init).log)
    (serial idx : Nat) (hidx : L.idxOf? serial = some idx)
    (params : List Nat) (p : Nat) (hp : p ∈ params)
    (steps : List (Nat × Nat)) (hk : (st'.cycle, st'.node) ∈ steps) (h : Hist)
    (hh : dbHistory (ops.foldl (PRun.step dflt) PRun.init).groups (ops.foldl (PRun.step dflt) PRun.init).st
            dflt serial params steps = some h) :
    lookupH h p (st'.cycle, st'.node) = some (st'.get dflt serial p) := by
  obtain ⟨_, h2, h3, h4⟩ := PRun.inv_run dflt ops
  apply dbHistory_value _ _ _ _ _ _ _ hh p hp _ hk
  have hg : writeP st' dflt L ∈ (ops.foldl (PRun.step dflt) PRun.init).groups := by
    rw [h2]; exact List.mem_map.mpr ⟨(L, st'), hlog, rfl⟩
  have hf := find?_of_nodup_keys _ _ hg h4
  unfold valAt
  have e : ((writeP st' dflt L).cycle, (writeP st' dflt L).node) = (st'.cycle, st'.node) := rfl
  rw [e] at hf
  rw [hf]
  have e2 : (writeP st' dflt L).layout = L := rfl
  simp only [e2, hidx, Option.map_some]
  rw [writeP_storedValue st' dflt L idx serial p (h3 _ hlog) (idxOf?_getElem L serial idx hidx)]

/-- non-vacuity: parameter 2 (default -1) is first assigned after step (0,0) was written; the history over both steps
still has step (0,0), with the default -/
example :
    let r := [POp.assign 5 1 3, .write [4, 5], .time 0 1, .assign 4 2 9, .write [5, 4]].foldl
      (PRun.step (fun p => if p = 2 then -1 else 7)) PRun.init
    ((r.groups.map (fun g => g.data.map (·.1))) = [[1], [1, 2]]) ∧
    dbHistory r.groups r.st (fun p => if p = 2 then -1 else 7) 4 [2, 1] [(0, 1), (0, 0)]
      = some [(2, [((0, 1), 9), ((0, 0), -1)]), (1, [((0, 1), 7), ((0, 0), 7)])] := by decide

/-! ## Histories by location -/

/-- **history by location, selected steps**: for every requested parameter and every requested step at which the location was
occupied, the value stored in the row OF THAT LOCATION (the default if the snapshot has no dataset for the parameter) -/
theorem dbHistoryByLoc_value (groups : List PSnap) (dflt : Nat → Int) (L : Nat) (params : List Nat)
    (steps : List (Nat × Nat)) (h : Hist) (hh : dbHistoryByLoc groups dflt L params steps = some h)
    (p : Nat) (hp : p ∈ params) (k : Nat × Nat) (hk : k ∈ steps) (v : Int)
    (hv : valAt (groups.map byLoc) L dflt k p = some v) :
    lookupH h p k = some v := by
  unfold dbHistoryByLoc at hh
  rw [histLoop_lookup _ L params dflt steps [] h hh]
  simp [hp, hk, hv]

/-- … and a step at which the location was EMPTY (or was not requested) has no entry -/
theorem dbHistoryByLoc_empty (groups : List PSnap) (dflt : Nat → Int) (L : Nat) (params : List Nat)
    (steps : List (Nat × Nat)) (h : Hist) (hh : dbHistoryByLoc groups dflt L params steps = some h)
    (p : Nat) (k : Nat × Nat) (hv : valAt (groups.map byLoc) L dflt k p = none) :
    lookupH h p k = none := by
  unfold dbHistoryByLoc at hh
  rw [histLoop_lookup _ L params dflt steps [] h hh]
  simp [hv, lookupH]

/-- **the value at a location is the value of whatever object sat there**: in the snapshot `writePL` makes of state `st`, the
row of location `L` holds, for any parameter, what the object whose serial number stands in that row had at the write (its
value, or the default if unset) -/
theorem writePL_location_value (st : PState) (dflt : Nat → Int) (layout locs : List Nat) (idx L serial p : Nat)
    (hinv : liveAssigned st) (hL : locs.idxOf? L = some idx) (hs : layout[idx]? = some serial) :
    valAt [byLoc (writePL st dflt layout locs)] L dflt (st.cycle, st.node) p = some (st.get dflt serial p) := by
  unfold valAt
  have e1 : (byLoc (writePL st dflt layout locs)).layout = locs := rfl
  have e2 : ((byLoc (writePL st dflt layout locs)).cycle, (byLoc (writePL st dflt layout locs)).node) = (st.cycle, st.node) := rfl
  simp only [List.find?_cons, e2, beq_self_eq_true, e1, hL, Option.map_some]
  have e3 : storedValue (byLoc (writePL st dflt layout locs)) idx p dflt = storedValue (writeP st dflt layout) idx p dflt := rfl
  rw [e3, writeP_storedValue st dflt layout idx serial p hinv hs]

/-! ### the batched call (`getHistoriesByLocation` for several objects) -/

/-- value the per-location table holds for location `L`, parameter `p`, step `k` -/
def lookupT (t : List (Nat × Hist)) (L p : Nat) (k : Nat × Nat) : Option Int := lookupH ((t.lookup L).getD []) p k

private theorem lookupK_map_other {β} (t : List (Nat × β)) (p p' : Nat) (f : β → β) (hp : p' ≠ p) :
    (t.map (fun e => if e.1 == p then (p, f e.2) else e)).lookup p' = t.lookup p' := by
  induction t with
  | nil => rfl
  | cons e t ih =>
    obtain ⟨ek, ev⟩ := e
    simp only [List.map_cons]
    by_cases he : ek = p
    · subst he
      have hk : (p' == ek) = false := by simpa using hp
      simp only [beq_self_eq_true, if_true, List.lookup_cons, hk, ih]
    · have : (ek == p) = false := by simpa using he
      simp only [this, Bool.false_eq_true, if_false, List.lookup_cons, ih]

private theorem lookupK_map_same {β} (t : List (Nat × β)) (p : Nat) (f : β → β) :
    (t.map (fun e => if e.1 == p then (p, f e.2) else e)).lookup p = (t.lookup p).map f := by
  induction t with
  | nil => rfl
  | cons e t ih =>
    obtain ⟨ek, ev⟩ := e
    simp only [List.map_cons]
    by_cases he : ek = p
    · subst he
      simp only [beq_self_eq_true, if_true, List.lookup_cons, Option.map_some]
    · have h1 : (ek == p) = false := by simpa using he
      have h2 : (p == ek) = false := by simpa using (fun h => he h.symm)
      simp only [h1, Bool.false_eq_true, if_false, List.lookup_cons, h2, ih]

/-- the table keeps its keys -/
theorem setLoc_isSome (t : List (Nat × Hist)) (L p : Nat) (k : Nat × Nat) (v : Int) (L' : Nat) :
    ((setLoc t L p k v).lookup L').isSome = (t.lookup L').isSome := by
  unfold setLoc
  by_cases h : L' = L
  · subst h; rw [lookupK_map_same t L' (fun h => setHist h p k v)]; cases t.lookup L' <;> rfl
  · rw [lookupK_map_other t L L' (fun h => setHist h p k v) h]

theorem lookupT_setLoc (t : List (Nat × Hist)) (L p : Nat) (k : Nat × Nat) (v : Int) (L' p' : Nat) (k' : Nat × Nat)
    (hL : (t.lookup L').isSome = true) :
    lookupT (setLoc t L p k v) L' p' k' = if L' = L ∧ p' = p ∧ k' = k then some v else lookupT t L' p' k' := by
  unfold lookupT setLoc
  by_cases h : L' = L
  · subst h
    rw [lookupK_map_same t L' (fun h => setHist h p k v)]
    cases hl : t.lookup L' with
    | none => rw [hl] at hL; simp at hL
    | some d =>
      simp only [Option.map_some, Option.getD_some, true_and]
      rw [lookupH_setHist]
  · rw [lookupK_map_other t L L' (fun h => setHist h p k v) h]
    simp [h]

/-- one parameter, the rows of one group: every row's location gets the row's value -/
theorem lookupT_rows (rows : List (Nat × Nat)) (p : Nat) (k : Nat × Nat) (f : Nat → Int) (t : List (Nat × Hist))
    (L' p' : Nat) (k' : Nat × Nat) (hL : (t.lookup L').isSome = true)
    (hfun : ∀ r ∈ rows, ∀ r' ∈ rows, r.2 = r'.2 → r.1 = r'.1) :
    lookupT (rows.foldl (fun a r => setLoc a r.2 p k (f r.1)) t) L' p' k'
      = match rows.find? (fun r => r.2 == L') with
        | some r => if p' = p ∧ k' = k then some (f r.1) else lookupT t L' p' k'
        | none => lookupT t L' p' k' := by
  induction rows generalizing t with
  | nil => simp
  | cons r rest ih =>
    simp only [List.foldl_cons]
    have hL2 : ((setLoc t r.2 p k (f r.1)).lookup L').isSome = true := by rw [setLoc_isSome]; exact hL
    rw [ih _ hL2 (fun a ha b hb => hfun a (by simp [ha]) b (by simp [hb])), lookupT_setLoc _ _ _ _ _ _ _ _ hL]
    by_cases hr : r.2 = L'
    · have : (r.2 == L') = true := by simpa using hr
      simp only [List.find?_cons, this]
      cases hf : rest.find? (fun x => x.2 == L') with
      | none => simp [hr.symm]
      | some r2 =>
        have hm := List.mem_of_find?_eq_some hf
        have h2 : r2.2 = L' := by simpa using List.find?_some hf
        have : r.1 = r2.1 := hfun r (by simp) r2 (by simp [hm]) (hr.trans h2.symm)
        simp only []
        by_cases hpk : p' = p ∧ k' = k
        · simp [hpk, this]
        · simp [hpk]
    · have : (r.2 == L') = false := by simpa using hr
      simp only [List.find?_cons, this]
      have hne : ¬ (L' = r.2) := fun h => hr h.symm
      cases rest.find? (fun x => x.2 == L') <;> simp [hne]


theorem rowsFold_isSome (rows : List (Nat × Nat)) (p : Nat) (k : Nat × Nat) (f : Nat → Int) (t : List (Nat × Hist)) (L' : Nat) :
    ((rows.foldl (fun a r => setLoc a r.2 p k (f r.1)) t).lookup L').isSome = (t.lookup L').isSome := by
  induction rows generalizing t with
  | nil => rfl
  | cons r rest ih => simp only [List.foldl_cons]; rw [ih, setLoc_isSome]

theorem mem_locRows (g : PSnap) (req : List Nat) (i L : Nat) :
    (i, L) ∈ locRows g req ↔ g.locs[i]? = some L ∧ L ∈ req := by
  unfold locRows
  simp only [List.mem_map, List.mem_filter, Prod.mk.injEq]
  constructor
  · rintro ⟨⟨a, b⟩, ⟨hm, hc⟩, h1, h2⟩
    simp only at h1 h2
    subst h1; subst h2
    rw [List.mem_zipIdx_iff_getElem?] at hm
    exact ⟨by simpa using hm, by simpa using hc⟩
  · rintro ⟨h1, h2⟩
    refine ⟨(L, i), ⟨?_, by simpa using h2⟩, rfl, rfl⟩
    rw [List.mem_zipIdx_iff_getElem?]
    simpa using h1

private theorem nodup_getElem?_inj (l : List Nat) (hn : l.Nodup) (i j x : Nat) (hi : l[i]? = some x) (hj : l[j]? = some x) : i = j := by
  rw [List.getElem?_eq_some_iff] at hi hj
  obtain ⟨h1, e1⟩ := hi
  obtain ⟨h2, e2⟩ := hj
  exact (List.getElem_inj hn).mp (e1.trans e2.symm)

/-- **one time-step group of the batched call**: whatever the ORDER in which the locations were requested, each requested
location that is occupied in the snapshot receives, for every requested parameter, the value of ITS OWN row (`i` = the row whose
location it is), and nothing else in the table changes -/
theorem locGroup_lookup (g : PSnap) (req params : List Nat) (dflt : Nat → Int) (t : List (Nat × Hist))
    (hnd : g.locs.Nodup) (L' p' : Nat) (k' : Nat × Nat) (hL : (t.lookup L').isSome = true) :
    lookupT (locGroup g req params dflt t) L' p' k'
      = match (locRows g req).find? (fun r => r.2 == L') with
        | some r => if p' ∈ params ∧ k' = (g.cycle, g.node) then some (storedValue g r.1 p' dflt) else lookupT t L' p' k'
        | none => lookupT t L' p' k' := by
  have hfun : ∀ r ∈ locRows g req, ∀ r' ∈ locRows g req, r.2 = r'.2 → r.1 = r'.1 := by
    intro r hr r' hr' he
    obtain ⟨i, L⟩ := r
    obtain ⟨j, M⟩ := r'
    simp only at he
    subst he
    exact nodup_getElem?_inj g.locs hnd i j L ((mem_locRows g req i L).mp hr).1 ((mem_locRows g req j L).mp hr').1
  unfold locGroup
  induction params generalizing t with
  | nil => cases (locRows g req).find? (fun r => r.2 == L') <;> simp
  | cons p rest ih =>
    simp only [List.foldl_cons]
    have hL2 := (rowsFold_isSome (locRows g req) p (g.cycle, g.node) (fun i => storedValue g i p dflt) t L').trans hL
    rw [ih _ hL2, lookupT_rows (locRows g req) p (g.cycle, g.node) (fun i => storedValue g i p dflt) t L' p' k' hL hfun]
    cases (locRows g req).find? (fun r => r.2 == L') with
    | none => rfl
    | some r =>
      simp only []
      by_cases h1 : p' ∈ rest <;> by_cases h2 : p' = p <;> by_cases h3 : k' = (g.cycle, g.node) <;> simp [h1, h2, h3]

/-- the row found for an occupied, requested location is the row whose location it is -/
theorem locRows_find (g : PSnap) (req : List Nat) (hnd : g.locs.Nodup) (L' i : Nat) (hi : g.locs[i]? = some L') (hreq : L' ∈ req) :
    (locRows g req).find? (fun r => r.2 == L') = some (i, L') := by
  have hm : (i, L') ∈ locRows g req := (mem_locRows g req i L').mpr ⟨hi, hreq⟩
  cases hf : (locRows g req).find? (fun r => r.2 == L') with
  | none =>
    rw [List.find?_eq_none] at hf
    exact absurd (by simp) (hf (i, L') hm)
  | some r =>
    obtain ⟨j, M⟩ := r
    have hM : M = L' := by simpa using List.find?_some hf
    subst hM
    have := nodup_getElem?_inj g.locs hnd j i M ((mem_locRows g req j M).mp (List.mem_of_find?_eq_some hf)).1 hi
    rw [this]

/-- **C06-b in one line**: in the batched location history, a requested location `L` occupied by row `i` of the snapshot gets
that row's value — independent of where `L` stands in the caller's list -/
theorem locGroup_value (g : PSnap) (req params : List Nat) (dflt : Nat → Int) (t : List (Nat × Hist))
    (hnd : g.locs.Nodup) (L p i : Nat) (hL : (t.lookup L).isSome = true) (hreq : L ∈ req) (hi : g.locs[i]? = some L)
    (hp : p ∈ params) :
    lookupT (locGroup g req params dflt t) L p (g.cycle, g.node) = some (storedValue g i p dflt) := by
  rw [locGroup_lookup g req params dflt t hnd L p _ hL, locRows_find g req hnd L i hi hreq]
  simp [hp]

/-- a location that is empty in the snapshot keeps what it had -/
theorem locGroup_empty (g : PSnap) (req params : List Nat) (dflt : Nat → Int) (t : List (Nat × Hist))
    (hnd : g.locs.Nodup) (L p : Nat) (k : Nat × Nat) (hL : (t.lookup L).isSome = true) (hempty : ∀ i : Nat, g.locs[i]? ≠ some L) :
    lookupT (locGroup g req params dflt t) L p k = lookupT t L p k := by
  rw [locGroup_lookup g req params dflt t hnd L p k hL]
  cases hf : (locRows g req).find? (fun r => r.2 == L) with
  | none => rfl
  | some r =>
    obtain ⟨j, M⟩ := r
    have hM : M = L := by simpa using List.find?_some hf
    subst hM
    exact absurd ((mem_locRows g req j M).mp (List.mem_of_find?_eq_some hf)).1 (hempty j)

theorem locGroup_isSome (g : PSnap) (req params : List Nat) (dflt : Nat → Int) (t : List (Nat × Hist)) (L' : Nat) :
    ((locGroup g req params dflt t).lookup L').isSome = (t.lookup L').isSome := by
  unfold locGroup
  induction params generalizing t with
  | nil => rfl
  | cons p rest ih =>
    simp only [List.foldl_cons]; rw [ih]
    exact rowsFold_isSome (locRows g req) p (g.cycle, g.node) (fun i => storedValue g i p dflt) t L'

private theorem valAt_byLoc (groups : List PSnap) (L : Nat) (dflt : Nat → Int) (k : Nat × Nat) (p : Nat) :
    valAt (groups.map byLoc) L dflt k p =
      match groups.find? (fun g => (g.cycle, g.node) == k) with
      | some g => (g.locs.idxOf? L).map (fun idx => storedValue g idx p dflt)
      | none => none := by
  unfold valAt
  rw [List.find?_map]
  have : ((fun g : PSnap => (g.cycle, g.node) == k) ∘ byLoc) = (fun g : PSnap => (g.cycle, g.node) == k) := by
    funext g; rfl
  rw [this]
  cases groups.find? (fun g => (g.cycle, g.node) == k) <;> rfl

private theorem idxOf?_none (l : List Nat) (a : Nat) (h : l.idxOf? a = none) (i : Nat) : l[i]? ≠ some a := by
  intro hi
  unfold List.idxOf? at h
  rw [List.findIdx?_eq_none_iff] at h
  have := h a (List.mem_of_getElem? hi)
  simp at this

/-- **the batched location history equals the per-location one**: `getHistoriesByLocation(comps, …)` gives every requested
location — wherever it stands in the caller's list, whatever the row order of each snapshot — for every requested step and
parameter the value in the row of THAT location (nothing if it was empty at that step), i.e. exactly what `valAt … byLoc` says -/
theorem locHistories_lookup (groups : List PSnap) (hnd : ∀ g ∈ groups, g.locs.Nodup) (req params : List Nat) (dflt : Nat → Int)
    (steps : List (Nat × Nat)) (t t' : List (Nat × Hist)) (h : locHistories groups req params dflt steps t = some t')
    (L : Nat) (hreq : L ∈ req) (hL : (t.lookup L).isSome = true) (p : Nat) (k : Nat × Nat) :
    lookupT t' L p k = if p ∈ params ∧ k ∈ steps ∧ (valAt (groups.map byLoc) L dflt k p).isSome
      then valAt (groups.map byLoc) L dflt k p else lookupT t L p k := by
  induction steps generalizing t with
  | nil => simp [locHistories] at h; subst h; simp
  | cons step rest ih =>
    unfold locHistories at h
    cases hf : groups.find? (fun g => (g.cycle, g.node) == step) with
    | none => rw [hf] at h; simp at h
    | some g =>
      rw [hf] at h
      simp only [] at h
      have hg : g ∈ groups := List.mem_of_find?_eq_some hf
      have hkey : (g.cycle, g.node) = step := by simpa using List.find?_some hf
      have hL2 : ((locGroup g req params dflt t).lookup L).isSome = true := by rw [locGroup_isSome]; exact hL
      rw [ih _ h hL2]
      have hv : valAt (groups.map byLoc) L dflt step p = (g.locs.idxOf? L).map (fun idx => storedValue g idx p dflt) := by
        rw [valAt_byLoc, hf]
      cases hi : g.locs.idxOf? L with
      | none =>
        rw [locGroup_empty g req params dflt t (hnd g hg) L p k hL (idxOf?_none g.locs L hi)]
        by_cases hk : k = step
        · subst hk; simp [hv, hi]
        · simp [hk]
      | some idx =>
        have hi' := idxOf?_getElem g.locs L idx hi
        by_cases hk : k = step
        · subst hk
          by_cases hp : p ∈ params
          · have hval := locGroup_value g req params dflt t (hnd g hg) L p idx hL hreq hi' hp
            rw [hkey] at hval
            simp [hp, hv, hi, hval]
          · rw [locGroup_lookup g req params dflt t (hnd g hg) L p k hL]
            cases (locRows g req).find? (fun r => r.2 == L) <;> simp [hp]
        · rw [locGroup_lookup g req params dflt t (hnd g hg) L p k hL]
          have : ¬ k = (g.cycle, g.node) := by rw [hkey]; exact hk
          cases (locRows g req).find? (fun r => r.2 == L) <;> simp [hk, this]

example : (locHistories [writePL ⟨[1], [((4, 1), 40), ((5, 1), 50), ((6, 1), 60)], 0, 0⟩ (fun _ => 7) [4, 5, 6] [10, 11, 12]]
    [12, 10] [1] (fun _ => 7) [(0, 0)] [(12, []), (10, [])]) = some [(12, [(1, [((0, 0), 60)])]), (10, [(1, [((0, 0), 40)])])] := by rfl

/-! ## Merging and splitting -/

/-- is the group's (cycle, node) before the restart point? -/
def before (sc sn : Nat) (g : Key × Snap) : Bool :=
  decide (g.1.cycle < sc) || (g.1.cycle == sc && decide (g.1.node < sn))

private theorem mergeLoop_eq (sc sn : Nat) (L : List (Key × Snap)) (dst : Store) (ho : dst.isOpen = true)
    (hsmall : ∀ g ∈ L, g.1.cycle < 100 ∧ g.1.node < 100)
    (hn : (L.map (fun g => name g.1)).Nodup)
    (hdis : ∀ x ∈ L, ∀ y ∈ dst.groups, name y.1 ≠ name x.1) :
    mergeLoop sc sn L dst = some { dst with
      groups := (dst.groups ++ L.takeWhile (before sc sn)) } := by
  induction L generalizing dst with
  | nil => simp [mergeLoop]
  | cons g rest ih =>
    have hg := hsmall g (by simp)
    unfold mergeLoop
    rw [parse_name g.1.cycle g.1.node g.1.label hg.1 hg.2]
    simp only []
    by_cases hst : atOrAfter (g.1.cycle, g.1.node) sc sn = true
    · rw [if_pos hst]
      have hb : before sc sn g = false := by
        unfold atOrAfter at hst; unfold before
        simp at hst ⊢; omega
      simp [List.takeWhile_cons, hb]
    · rw [if_neg hst]
      have hb : before sc sn g = true := by
        unfold atOrAfter at hst; unfold before
        simp at hst ⊢; omega
      have hk : hasKey dst g.1 = false := by
        unfold hasKey
        rw [List.any_eq_false]
        intro y hy
        simpa using hdis g (by simp) y hy
      have hcond : (!dst.isOpen || hasKey dst g.1) = false := by simp [ho, hk]
      rw [hcond]
      simp only [Bool.false_eq_true, if_false]
      simp only [List.map_cons, List.nodup_cons] at hn
      rw [ih { dst with groups := dst.groups ++ [g] } ho (fun x hx => hsmall x (by simp [hx])) hn.2]
      · simp [List.takeWhile_cons, hb]
      · intro x hx y hy
        simp only [List.mem_append, List.mem_singleton] at hy
        rcases hy with hy | rfl
        · exact hdis x (by simp [hx]) y hy
        · intro heq
          exact hn.1 (List.mem_map.mpr ⟨x, hx, heq.symm⟩)

private theorem takeWhile_eq_filter (sc sn : Nat) (L : List (Key × Snap))
    (hsorted : L.Pairwise (fun a b => lexLe (a.1.cycle, a.1.node) (b.1.cycle, b.1.node))) :
    L.takeWhile (before sc sn) = L.filter (before sc sn) := by
  induction L with
  | nil => simp
  | cons a t ih =>
    rw [List.pairwise_cons] at hsorted
    by_cases ha : before sc sn a = true
    · rw [List.takeWhile_cons, List.filter_cons, ha, ih hsorted.2]
      simp
    · have ha' : before sc sn a = false := by simpa using ha
      rw [List.takeWhile_cons, ha']
      simp only [Bool.false_eq_true, if_false]
      symm
      rw [List.filter_eq_nil_iff]
      intro b hb
      rcases List.mem_cons.mp hb with rfl | hb
      · exact ha
      · have := hsorted.1 b hb
        unfold lexLe at this
        unfold before at ha' ⊢
        simp only [] at this
        simp at ha' ⊢
        omega

/-- the store invariant "no two groups with one name" -/
def namesNodup (s : Store) : Prop := (s.groups.map (fun g => name g.1)).Nodup

theorem namesNodup_open : namesNodup openW := by simp [namesNodup, openW]

theorem namesNodup_write (s s' : Store) (r : Snap) (label : List Nat) (hs : namesNodup s)
    (h : write s r label = some s') : namesNodup s' := by
  unfold write at h
  simp only [] at h
  split at h
  · simp at h
  · next hc =>
    simp at h; subst h
    simp at hc
    unfold namesNodup at hs ⊢
    simp only [List.map_append, List.map_cons, List.map_nil]
    rw [List.nodup_append]
    refine ⟨hs, by simp, ?_⟩
    intro a ha b hb
    simp at hb; subst hb
    simp only [List.mem_map] at ha
    obtain ⟨g, hg, rfl⟩ := ha
    have := hc.2
    unfold hasKey at this
    rw [List.any_eq_false] at this
    simpa using this g hg

/-- **merge_exact**: merging the history of `src` into a fresh database up to a restart point
copies exactly the snapshots strictly before that point (all labels), unchanged and in order —
whether or not the restart point itself is a step of the source (cycle and node numbers below 100). -/
theorem merge_exact (src : Store) (sc sn : Nat) (hs : smallKeys src) (hn : namesNodup src) :
    mergeHistory openW src sc sn =
      some { openW with groups := (sortedGroups src).filter (before sc sn) } := by
  unfold mergeHistory
  have hperm := listing_exact src
  rw [mergeLoop_eq sc sn (sortedGroups src) openW rfl
    (fun g hg => hs g (hperm.mem_iff.mp hg))
    ((hperm.map _).nodup_iff.mpr hn)
    (fun _ _ y hy => by simp [openW] at hy)]
  rw [takeWhile_eq_filter sc sn _ (sorted_chrono src hs)]
  simp [openW]

/-- a source with steps (0,0), (0,2), (1,0) (the input of the former finding F13) -/
def f13Store : Store :=
  { openW with groups := [(⟨0, 0, []⟩, { cycle := 0, node := 0, objs := [] }),
                          (⟨0, 2, []⟩, { cycle := 0, node := 2, objs := [] }),
                          (⟨1, 0, []⟩, { cycle := 1, node := 0, objs := [] })] }

/-- the restart point (0,1) is not a step of the source: only (0,0) is copied -/
example : (mergeHistory openW f13Store 0 1).map (fun s => s.groups.map (fun g => (g.1.cycle, g.1.node)))
    = some [(0, 0)] := by
  decide

private theorem forall2_splitCopy (s : Store) (m : Nat) (keep : List (Nat × Nat))
    (hall : ∀ cn ∈ keep, (splitCopy s m cn).isSome = true) :
    List.Forall₂ (fun cn g => ∃ snap, load s ⟨cn.1, cn.2, []⟩ = some snap
        ∧ g.1 = ⟨cn.1 - m, cn.2, []⟩ ∧ g.2.objs = snap.objs ∧ g.2.node = snap.node
        ∧ g.2.acycle = cn.1 - m ∧ g.2.anode = snap.anode ∧ g.2.cycle = cn.1 - m)
      keep (keep.filterMap (splitCopy s m)) := by
  induction keep with
  | nil => exact List.Forall₂.nil
  | cons cn t ih =>
    have h1 := hall cn (by simp)
    obtain ⟨g, hg⟩ := Option.isSome_iff_exists.mp h1
    rw [List.filterMap_cons, hg]
    refine List.Forall₂.cons ?_ (ih (fun x hx => hall x (by simp [hx])))
    unfold splitCopy at hg
    simp only [Option.map_eq_some_iff] at hg
    obtain ⟨snap, hl, rfl⟩ := hg
    exact ⟨snap, hl, rfl, rfl, rfl, rfl, rfl, rfl⟩

/-- **split_exact**: a split that succeeds leaves exactly one group per kept step, in the order
requested: the unlabelled snapshot of that step with objects and node unchanged and the cycle
renumbered from the least kept cycle in the name, the state and the step attribute alike (the
documented normalisation) — so that histories after a split are keyed by the listed steps -/
theorem split_exact (s s' : Store) (keep : List (Nat × Nat)) (h : split s keep = some s') :
    ∃ m, (keep.map (·.1)).min? = some m ∧
      List.Forall₂ (fun cn g => ∃ snap, load s ⟨cn.1, cn.2, []⟩ = some snap
          ∧ g.1 = ⟨cn.1 - m, cn.2, []⟩ ∧ g.2.objs = snap.objs ∧ g.2.node = snap.node
          ∧ g.2.acycle = cn.1 - m ∧ g.2.anode = snap.anode ∧ g.2.cycle = cn.1 - m) keep s'.groups := by
  unfold split at h
  split at h
  · simp at h
  split at h
  · simp at h
  split at h
  · simp at h
  next m hm =>
  refine ⟨m, hm, ?_⟩
  split at h
  · simp at h
  next hall =>
  simp only [] at h
  split at h
  · simp at h
  simp at h; subst h
  simp only [Bool.not_eq_true', Bool.not_eq_false] at hall
  exact forall2_splitCopy s m keep (List.all_eq_true.mp hall)

/-- after a split the history is keyed by the renumbered (listed) steps -/
example :
    ((split { openW with groups := [(⟨1, 0, []⟩, { cycle := 1, node := 0, objs := [(7, some 5)] }),
                                    (⟨1, 1, []⟩, { cycle := 1, node := 1, objs := [(7, some 6)] })] }
        [(1, 0), (1, 1)]).map (fun s => (steps s, historyDb s 7 0)))
      = some ([(0, 0), (0, 1)], [((0, 0), 5), ((0, 1), 6)]) := by
  decide

/-- **split_refused_unchanged**: a split request that is refused by the up-front validation (no open
database, empty selection, a selected step without an unlabelled snapshot, a step selected twice)
leaves the store exactly as it was -/
theorem split_refused_unchanged (s : Store) (keep : List (Nat × Nat)) (h : splitValid s keep = false) :
    splitOp s keep = (s, false) := by
  unfold splitOp
  simp [h]

/-- what the validation means -/
theorem splitValid_iff (s : Store) (keep : List (Nat × Nat)) :
    splitValid s keep = true ↔
      s.isOpen = true ∧ keep ≠ [] ∧ (∀ cn ∈ keep, hasKey s ⟨cn.1, cn.2, []⟩ = true) ∧ keep.Nodup := by
  unfold splitValid
  simp [List.isEmpty_iff, and_assoc]

/-- a split that goes through was valid, and an invalid one never changes anything -/
theorem split_some_valid (s s' : Store) (keep : List (Nat × Nat)) (h : split s keep = some s') :
    splitValid s keep = true ∧ splitOp s keep = (s', true) := by
  have hv' : splitValid s keep = true := by
    by_contra hc
    have hf : splitValid s keep = false := by simpa using hc
    unfold split at h
    simp [hf] at h
  refine ⟨hv', ?_⟩
  unfold splitOp
  simp [hv', h]

example : splitOp f13Store [(0, 5)] = (f13Store, false) ∧ splitOp f13Store [] = (f13Store, false)
    ∧ splitOp f13Store [(0, 0), (0, 0)] = (f13Store, false) ∧ (splitOp f13Store [(0, 2), (1, 0)]).2 = true := by
  decide

/-! ## The file an aborted run leaves behind -/

/-- the snapshot a hook call of the database interface writes, if it writes one -/
def nodeWrite (d : DbCfg) (ie : Event × Nat) : Option (Key × Snap) :=
  if isNodeWrite d ie.1 then
    some (⟨ie.1.rc, ie.1.rn, []⟩, { cycle := ie.1.rc, node := ie.1.rn, objs := d.stateAt ie.2 })
  else none

/-- does this hook call create the database object? -/
def opens (d : DbCfg) (e : Event) : Bool :=
  isOpenEvent d e || (e.hook == .BOL && e.iface == d.cfg.dbName)

/-- the hook calls after the one that opened the database -/
def afterOpen (d : DbCfg) (l : List (Event × Nat)) : List (Event × Nat) :=
  (l.dropWhile (fun ie => !opens d ie.1)).tail

private theorem fold_open (d : DbCfg) (l : List (Event × Nat)) (s : Store) (ho : s.isOpen = true)
    (hfin : ∀ ie ∈ l, isFinalEvent d ie.1 = false) :
    l.foldl (dbStep d) (some s) = some { s with groups := s.groups ++ l.filterMap (nodeWrite d) } := by
  induction l generalizing s with
  | nil => simp
  | cons ie rest ih =>
    have hf := hfin ie (by simp)
    have hrest : ∀ x ∈ rest, isFinalEvent d x.1 = false := fun x hx => hfin x (by simp [hx])
    simp only [List.foldl_cons]
    by_cases hw : isNodeWrite d ie.1 = true
    · have : dbStep d (some s) ie = some { s with groups := s.groups ++
          [(⟨ie.1.rc, ie.1.rn, []⟩, { cycle := ie.1.rc, node := ie.1.rn, objs := d.stateAt ie.2 })] } := by
        simp [dbStep, ho, hw]
      rw [this, ih { s with groups := s.groups ++
          [(⟨ie.1.rc, ie.1.rn, []⟩, { cycle := ie.1.rc, node := ie.1.rn, objs := d.stateAt ie.2 })] } ho hrest]
      simp [nodeWrite, hw]
    · have hw' : isNodeWrite d ie.1 = false := by simpa using hw
      have : dbStep d (some s) ie = some s := by
        simp [dbStep, ho, hw', hf]
      rw [this, ih _ ho hrest]
      simp [nodeWrite, hw']

private theorem fold_none (d : DbCfg) (l : List (Event × Nat)) :
    l.foldl (dbStep d) none =
      if l.all (fun ie => !opens d ie.1) then none
      else (afterOpen d l).foldl (dbStep d) (some d.opened) := by
  induction l with
  | nil => simp
  | cons ie rest ih =>
    simp only [List.foldl_cons]
    by_cases ho : opens d ie.1 = true
    · have : dbStep d none ie = some d.opened := by
        unfold opens at ho
        simp only [Bool.or_eq_true] at ho
        unfold dbStep
        rcases ho with h | h
        · simp [h]
        · by_cases h1 : isOpenEvent d ie.1 = true
          · simp [h1]
          · simp at h; simp [h1, h.1, h.2]
      simp [this, ho, afterOpen]
    · have ho' : opens d ie.1 = false := by simpa using ho
      have : dbStep d none ie = none := by
        unfold opens at ho'
        simp only [Bool.or_eq_false_iff] at ho'
        unfold dbStep
        simp only [ho'.1]
        simp at ho'
        simp
        intro h1 h2; exact absurd h2 (ho'.2 h1)
      rw [this, ih]
      unfold afterOpen
      rw [List.all_cons, List.dropWhile_cons]
      simp only [ho', Bool.not_false, Bool.true_and, if_true]

/-- **the database after any number of completed hook calls, between opening and finalisation**:
open, still in the fast path, unsuccessful, holding exactly the node snapshots written so far -/
theorem db_between (d : DbCfg) (n : Nat) (hopen : d.opened.isOpen = true)
    (hopened : (((run d.cfg).take n).zipIdx).all (fun ie => !opens d ie.1) = false)
    (hnotfinal : ∀ ie ∈ ((run d.cfg).take n).zipIdx, isFinalEvent d ie.1 = false) :
    dbAfter d n = some { d.opened with
      groups := d.opened.groups ++ (afterOpen d (((run d.cfg).take n).zipIdx)).filterMap (nodeWrite d) } := by
  unfold dbAfter
  rw [fold_none, hopened]
  simp only [Bool.false_eq_true, if_false]
  have hsub : ∀ ie ∈ afterOpen d (((run d.cfg).take n).zipIdx), isFinalEvent d ie.1 = false := by
    intro ie hie
    apply hnotfinal
    unfold afterOpen at hie
    exact (List.dropWhile_sublist _).subset (List.mem_of_mem_tail hie)
  rw [fold_open d _ d.opened hopen hsub]

private theorem nodeWrites_fresh (d : DbCfg) (l : List (Event × Nat)) (c n : Nat) :
    (l.filterMap (nodeWrite d)).any (fun g => name g.1 == name ⟨c, n, errorLabel⟩) = false := by
  rw [List.any_eq_false]
  intro g hg
  simp only [List.mem_filterMap] at hg
  obtain ⟨ie, _, hw⟩ := hg
  unfold nodeWrite at hw
  split at hw
  · simp at hw; subst hw
    simpa using name_fresh ie.1.rc ie.1.rn c n
  · simp at hw

/-- **crash_file_spec**: for EVERY configuration, EVERY evolution of the state and EVERY hook call
`n` of the run between the opening of the database and its finalisation: if that call raises, the
file is in the working directory, closed, marked unsuccessful, and holds every snapshot completed
before the failure plus the `error` snapshot of the state at the failure, at the current
(cycle, node).  The KIND of abort plays no role: `Operator.__exit__` runs the error hooks for anything
that leaves `with o:` (ordinary exceptions, `SystemExit`, `KeyboardInterrupt`), so the model has a single
crash path; the tie injects all three kinds.  No freshness hypothesis: node snapshots have an empty label, whose names end in a
digit, so the `error` snapshot never collides with one (`name_fresh`, for all numbers). -/
theorem crash_file_spec (d : DbCfg) (n : Nat) (e : Event) (he : (run d.cfg)[n]? = some e)
    (hopen : d.opened.isOpen = true) (hfresh : hasKey d.opened ⟨e.rc, e.rn, errorLabel⟩ = false)
    (hopened : (((run d.cfg).take n).zipIdx).all (fun ie => !opens d ie.1) = false)
    (hnotfinal : ∀ ie ∈ ((run d.cfg).take n).zipIdx, isFinalEvent d ie.1 = false) :
    fileAfterCrash d n = some {
      groups := d.opened.groups ++ (afterOpen d (((run d.cfg).take n).zipIdx)).filterMap (nodeWrite d)
        ++ [(⟨e.rc, e.rn, errorLabel⟩, { cycle := e.rc, node := e.rn, objs := d.stateAt n })],
      success := false, inWork := true, isOpen := false } := by
  unfold fileAfterCrash
  rw [he, db_between d n hopen hopened hnotfinal]
  have hf := nodeWrites_fresh d (afterOpen d (((run d.cfg).take n).zipIdx)) e.rc e.rn
  unfold hasKey at hfresh
  simp [interactError, write, hasKey, hf, hfresh, hopen, close]

/-- the two extra hypotheses of `crash_file_spec` hold for a fresh (not restarted) run -/
theorem opened_fresh (d : DbCfg) (hd : d.opened = openW) (k : Key) : d.opened.isOpen = true ∧ hasKey d.opened k = false := by
  rw [hd]; simp [openW, hasKey]

/-- a failure before anything opened the database leaves no file -/
theorem crash_before_open (d : DbCfg) (n : Nat)
    (hclosed : (((run d.cfg).take n).zipIdx).all (fun ie => !opens d ie.1) = true) :
    fileAfterCrash d n = none := by
  unfold fileAfterCrash dbAfter
  rw [fold_none, hclosed]
  cases (run d.cfg)[n]? <;> simp

/-- a small run used by the examples: main (1), a faulting interface (2), the database (0) -/
def exDb : DbCfg where
  cfg := { nCycles := 1, burnSteps := [1], startCycle := 0, startNode := 0,
           stack := [⟨1, true, false, false, false⟩, ⟨0, true, false, false, false⟩, ⟨2, true, false, false, false⟩],
           deferredNames := [], deferredCycle := 0, couplingOn := false, maxIters := 0, skipCycles := [],
           dbName := 0, halt := fun _ _ => false, conv := fun _ _ _ _ => false }
  opener := 1
  stateAt := fun i => [(0, some (i : Int))]

/-- the hypotheses of `crash_file_spec` are satisfiable: a failure of interface 2 at EveryNode(0,1),
after the database wrote that node -/
example : (run exDb.cfg)[11]? = some ⟨.EveryNode, 2, [0, 1], 0, 1⟩
    ∧ (((run exDb.cfg).take 11).zipIdx).all (fun ie => !opens exDb ie.1) = false
    ∧ (((run exDb.cfg).take 11).zipIdx).all (fun ie => !isFinalEvent exDb ie.1) = true
    ∧ ((fileAfterCrash exDb 11).map (fun s => (s.groups.map (fun g => (g.1.cycle, g.1.node, g.1.label)), s.success, s.inWork)))
        = some ([(0, 0, []), (0, 1, []), (0, 1, errorLabel)], false, true) := by decide

private theorem fold_closed (d : DbCfg) (l : List (Event × Nat)) (s : Store) (hc : s.isOpen = false) :
    l.foldl (dbStep d) (some s) = some s := by
  induction l with
  | nil => rfl
  | cons ie rest ih =>
    simp only [List.foldl_cons]
    have : dbStep d (some s) ie = some s := by simp [dbStep, hc]
    rw [this, ih]

private theorem step_final (d : DbCfg) (s : Store) (fin : Event × Nat) (ho : s.isOpen = true)
    (hfin : isFinalEvent d fin.1 = true) (hnw : isNodeWrite d fin.1 = false) :
    dbStep d (some s) fin = some {
      groups := s.groups ++ [(⟨fin.1.rc, fin.1.rn, eolLabel⟩,
        { cycle := fin.1.rc, node := fin.1.rn, objs := d.stateAt fin.2 })],
      success := true, inWork := true, isOpen := false } := by
  simp [dbStep, ho, hfin, hnw, close]

/-- **complete_run_spec**: if the hook calls of the run are `pre ++ fin :: post` where the database was
opened within `pre`, `fin` is the database interface's end-of-life call and no earlier call is, then
the finished file is in the working directory, closed, marked successful, and holds exactly every node
snapshot written after the opening plus the `EOL` snapshot — whatever runs after it. -/
theorem complete_run_spec (d : DbCfg) (pre post : List (Event × Nat)) (fin : Event × Nat) (hopen : d.opened.isOpen = true)
    (hsplit : (run d.cfg).zipIdx = pre ++ fin :: post)
    (hopened : pre.all (fun ie => !opens d ie.1) = false)
    (hpre : ∀ ie ∈ pre, isFinalEvent d ie.1 = false)
    (hfin : isFinalEvent d fin.1 = true) (hnw : isNodeWrite d fin.1 = false) :
    fileAfterRun d = some {
      groups := d.opened.groups ++ (afterOpen d pre).filterMap (nodeWrite d)
        ++ [(⟨fin.1.rc, fin.1.rn, eolLabel⟩, { cycle := fin.1.rc, node := fin.1.rn, objs := d.stateAt fin.2 })],
      success := true, inWork := true, isOpen := false } := by
  unfold fileAfterRun dbAfter
  rw [List.take_length, hsplit, List.foldl_append, fold_none, hopened]
  simp only [Bool.false_eq_true, if_false, List.foldl_cons]
  have hsub : ∀ ie ∈ afterOpen d pre, isFinalEvent d ie.1 = false := by
    intro ie hie
    apply hpre
    unfold afterOpen at hie
    exact (List.dropWhile_sublist _).subset (List.mem_of_mem_tail hie)
  rw [fold_open d _ d.opened hopen hsub]
  have hs := step_final d { d.opened with groups := d.opened.groups ++ (afterOpen d pre).filterMap (nodeWrite d) } fin
    hopen hfin hnw
  rw [hs, fold_closed _ _ _ rfl]

example : ((fileAfterRun exDb).map (fun s => (s.groups.map (fun g => (g.1.cycle, g.1.node, g.1.label)), s.success, s.inWork, s.isOpen)))
    = some ([(0, 0, []), (0, 1, []), (0, 1, eolLabel)], true, true, false) := by decide

/-- `prepRestartRun` on a fresh database: exactly the steps of the reload database that lie before the restart
point, unchanged, in chronological order; open, not yet successful -/
theorem restartStore_spec (src : Store) (sc sn : Nat) (hs : smallKeys src) (hn : namesNodup src) :
    restartStore src sc sn = { openW with groups := (sortedGroups src).filter (before sc sn) } := by
  unfold restartStore
  rw [merge_exact src sc sn hs hn]
  rfl

/-- **restart_run_spec**: a run restarted at (sc, sn) from the database `src` of an earlier run (main opens the
database and merges the history) that completes leaves a file — in the working directory, closed, marked
successful — that holds exactly the steps of `src` before the restart point, unchanged, then every node snapshot
the new run wrote, then the `EOL` snapshot -/
theorem restart_run_spec (d : DbCfg) (src : Store) (sc sn : Nat) (hs : smallKeys src) (hn : namesNodup src)
    (hd : d.opened = restartStore src sc sn)
    (pre post : List (Event × Nat)) (fin : Event × Nat)
    (hsplit : (run d.cfg).zipIdx = pre ++ fin :: post)
    (hopened : pre.all (fun ie => !opens d ie.1) = false)
    (hpre : ∀ ie ∈ pre, isFinalEvent d ie.1 = false)
    (hfin : isFinalEvent d fin.1 = true) (hnw : isNodeWrite d fin.1 = false) :
    fileAfterRun d = some {
      groups := (sortedGroups src).filter (before sc sn) ++ (afterOpen d pre).filterMap (nodeWrite d)
        ++ [(⟨fin.1.rc, fin.1.rn, eolLabel⟩, { cycle := fin.1.rc, node := fin.1.rn, objs := d.stateAt fin.2 })],
      success := true, inWork := true, isOpen := false } := by
  have ho : d.opened.isOpen = true := by rw [hd, restartStore_spec src sc sn hs hn]; rfl
  rw [complete_run_spec d pre post fin ho hsplit hopened hpre hfin hnw, hd, restartStore_spec src sc sn hs hn]

end ArmiVerif.SnapStore
