/-
C06 — database snapshots are isolated, complete, queryable and survive aborted runs.
Model: ArmiVerif/Model/SnapStore.lean; the run is `Schedule.run` (C15).
-/
import ArmiVerif.Model.SnapStore
import Mathlib.Tactic.Ring

namespace ArmiVerif.SnapStore
open ArmiVerif.Schedule

/-! ## Isolation and overwrite refusal -/

private theorem find_none_of_not_hasKey (s : Store) (k : Key) (h : hasKey s k = false) :
    s.groups.find? (fun g => name g.1 == name k) = none := by
  unfold hasKey at h
  rw [List.find?_eq_none]
  intro g hg
  have := List.any_eq_false.mp h g hg
  simpa using this

/-- **a second write to the same (cycle, node, label) is refused** -/
theorem write_refuses_overwrite (s s' : Store) (r : Snap) (label : List Nat)
    (h : write s r label = some s') : write s' r label = none := by
  unfold write at h ⊢
  simp only [] at h ⊢
  split at h
  · simp at h
  · simp at h; subst h
    simp [hasKey]

/-- **a fresh snapshot loads back as the state at its write** -/
theorem write_then_load (s s' : Store) (r : Snap) (label : List Nat) (h : write s r label = some s') :
    load s' ⟨r.cycle, r.node, label⟩ = some r := by
  unfold write at h
  simp only [] at h
  split at h
  · simp at h
  · next hc =>
    simp at h; subst h
    have hk : hasKey s ⟨r.cycle, r.node, label⟩ = false := by
      simp at hc; simpa using hc.2
    unfold load
    simp [List.find?_append, find_none_of_not_hasKey s _ hk]

/-- **isolation**: whatever is written later, an existing snapshot loads back unchanged -/
theorem write_isolated (s s' : Store) (k : Key) (v r : Snap) (label : List Nat)
    (hl : load s k = some v) (h : write s r label = some s') : load s' k = some v := by
  unfold write at h
  simp only [] at h
  split at h
  · simp at h
  · simp at h; subst h
    unfold load at hl ⊢
    simp only [Option.map_eq_some_iff] at hl ⊢
    obtain ⟨g, hg, rfl⟩ := hl
    exact ⟨g, by simp [List.find?_append, hg], rfl⟩

/-- isolation over any sequence of later writes (refused ones leave the store as it is) -/
theorem write_isolated_seq (s : Store) (k : Key) (v : Snap) (ws : List (Snap × List Nat))
    (hl : load s k = some v) :
    load (ws.foldl (fun st w => (write st w.1 w.2).getD st) s) k = some v := by
  induction ws generalizing s with
  | nil => exact hl
  | cons w rest ih =>
    simp only [List.foldl_cons]
    apply ih
    cases hw : write s w.1 w.2 with
    | none => simpa using hl
    | some s' => simpa using write_isolated s s' k v w.1 w.2 hl hw

/-- closing does not touch the snapshots -/
theorem close_keeps_snapshots (s : Store) (ok : Bool) : (close s ok).groups = s.groups := by
  unfold close; split <;> rfl

/-! ## Listing -/

private theorem insSorted_perm {α} (le : α → α → Bool) (a : α) (l : List α) :
    (insSorted le a l).Perm (a :: l) := by
  induction l with
  | nil => exact List.Perm.refl _
  | cons b t ih =>
    unfold insSorted
    split
    · exact List.Perm.refl _
    · exact (List.Perm.cons b ih).trans (List.Perm.swap a b t)

private theorem isort_perm {α} (le : α → α → Bool) (l : List α) : (isort le l).Perm l := by
  induction l with
  | nil => exact List.Perm.refl _
  | cons a t ih => exact (insSorted_perm le a _).trans (List.Perm.cons a ih)

private theorem insSorted_sorted {α} (le : α → α → Bool)
    (htrans : ∀ a b c, le a b = true → le b c = true → le a c = true)
    (htotal : ∀ a b, le a b = true ∨ le b a = true) (a : α) (l : List α)
    (hl : l.Pairwise (fun x y => le x y = true)) :
    (insSorted le a l).Pairwise (fun x y => le x y = true) := by
  induction l with
  | nil => simp [insSorted]
  | cons b t ih =>
    unfold insSorted
    rw [List.pairwise_cons] at hl
    split
    · next hab =>
      rw [List.pairwise_cons]
      refine ⟨?_, List.pairwise_cons.mpr hl⟩
      intro x hx
      rcases List.mem_cons.mp hx with rfl | hx
      · exact hab
      · exact htrans _ _ _ hab (hl.1 x hx)
    · next hab =>
      have hba : le b a = true := by
        rcases htotal a b with h | h
        · exact absurd h hab
        · exact h
      rw [List.pairwise_cons]
      refine ⟨?_, ih hl.2⟩
      intro x hx
      have := (insSorted_perm le a t).mem_iff.mp hx
      rcases List.mem_cons.mp this with rfl | hx
      · exact hba
      · exact hl.1 x hx

private theorem isort_sorted {α} (le : α → α → Bool)
    (htrans : ∀ a b c, le a b = true → le b c = true → le a c = true)
    (htotal : ∀ a b, le a b = true ∨ le b a = true) (l : List α) :
    (isort le l).Pairwise (fun x y => le x y = true) := by
  induction l with
  | nil => simp [isort]
  | cons a t ih => exact insSorted_sorted le htrans htotal a _ ih

/-- **every written snapshot and nothing else is listed** (the sorted listing is a permutation of
the groups written) -/
theorem listing_exact (s : Store) : (sortedGroups s).Perm s.groups := isort_perm _ _

/-- **the listing is sorted by group name** (code-point order of the names, as Python's `sorted`) -/
theorem listing_sorted_by_name (s : Store) :
    (sortedGroups s).Pairwise (fun a b => name a.1 ≤ name b.1) := by
  have := isort_sorted nameLe
    (fun a b c h1 h2 => by
      unfold nameLe at *
      simp only [decide_eq_true_eq] at *
      exact List.le_trans h1 h2)
    (fun a b => by
      unfold nameLe
      simp only [decide_eq_true_eq]
      exact List.le_total _ _) s.groups
  unfold sortedGroups
  exact this.imp (fun h => by unfold nameLe at h; simpa using h)

/-! ## Names: chronological order below 100, and the bound -/

def lexLt (a b : Nat × Nat) : Prop := a.1 < b.1 ∨ (a.1 = b.1 ∧ a.2 < b.2)
def lexLe (a b : Nat × Nat) : Prop := a.1 < b.1 ∨ (a.1 = b.1 ∧ a.2 ≤ b.2)

/-- **name_order_iff**: for cycle and node numbers below 100 the code-point order of the group names
is the chronological order of (cycle, node), ties broken by the label -/
theorem name_order_iff (c n c' n' : Nat) (l l' : List Nat)
    (hc : c < 100) (hn : n < 100) (hc' : c' < 100) (hn' : n' < 100) :
    name ⟨c, n, l⟩ < name ⟨c', n', l'⟩ ↔
      lexLt (c, n) (c', n') ∨ (c = c' ∧ n = n' ∧ l < l') := by
  unfold name pad2 lexLt
  simp only [if_pos hc, if_pos hn, if_pos hc', if_pos hn', List.cons_append, List.nil_append,
    List.cons_lt_cons_iff]
  by_cases hP : l < l' <;> simp [hP] <;> omega

/-- the same for `≤` (what a sorted listing gives) -/
theorem name_le_imp (c n c' n' : Nat) (l l' : List Nat)
    (hc : c < 100) (hn : n < 100) (hc' : c' < 100) (hn' : n' < 100)
    (h : name ⟨c, n, l⟩ ≤ name ⟨c', n', l'⟩) : lexLe (c, n) (c', n') := by
  have h' : ¬ name ⟨c', n', l'⟩ < name ⟨c, n, l⟩ := List.not_lt.mpr h
  rw [name_order_iff c' n' c n l' l hc' hn' hc hn] at h'
  unfold lexLt at h'
  unfold lexLe
  simp only [] at h' ⊢
  omega

/-- names of different (cycle, node, label) triples below 100 differ -/
theorem name_injective (c n c' n' : Nat) (l l' : List Nat)
    (hc : c < 100) (hn : n < 100) (hc' : c' < 100) (hn' : n' < 100)
    (h : name ⟨c, n, l⟩ = name ⟨c', n', l'⟩) : c = c' ∧ n = n' ∧ l = l' := by
  unfold name pad2 at h
  simp only [if_pos hc, if_pos hn, if_pos hc', if_pos hn', List.cons_append, List.nil_append,
    List.cons.injEq] at h
  refine ⟨by omega, by omega, h.2.2.2.2.2.2⟩

/-- below 100 the (cycle, node) is read back from the name -/
theorem parse_name (c n : Nat) (l : List Nat) (hc : c < 100) (hn : n < 100) :
    parseName (name ⟨c, n, l⟩) = some (c, n) := by
  unfold name pad2
  simp only [if_pos hc, if_pos hn, List.cons_append, List.nil_append]
  unfold parseName
  have d : ∀ x, x < 10 → digit? (48 + x) = some x := by
    intro x hx; unfold digit?; rw [if_pos (by omega)]; congr 1; omega
  simp only [d (c / 10) (by omega), d (c % 10) (by omega), d (n / 10) (by omega), d (n % 10) (by omega)]
  congr 2 <;> omega

/-- **the bound is real**: cycle 100 sorts before cycle 99 and is not recognised as a time step;
node 100 is read back as node 10 -/
example : name ⟨100, 0, []⟩ < name ⟨99, 0, []⟩ ∧ parseName (name ⟨100, 0, []⟩) = none
    ∧ parseName (name ⟨5, 100, []⟩) = some (5, 10) ∧ parseName (name ⟨99, 7, eolLabel⟩) = some (99, 7) := by
  decide

def smallKeys (s : Store) : Prop := ∀ g ∈ s.groups, g.1.cycle < 100 ∧ g.1.node < 100

private theorem filterMap_eq_map {α β} (f : α → Option β) (h : α → β) (l : List α)
    (hf : ∀ a ∈ l, f a = some (h a)) : l.filterMap f = l.map h := by
  induction l with
  | nil => rfl
  | cons a t ih =>
    simp [hf a (by simp), ih (fun b hb => hf b (by simp [hb]))]

/-- `genTimeSteps` lists the (cycle, node) of every group, in name order -/
theorem steps_exact (s : Store) (hs : smallKeys s) :
    steps s = (sortedGroups s).map (fun g => (g.1.cycle, g.1.node)) := by
  unfold steps
  apply filterMap_eq_map
  intro g hg
  have := hs g ((listing_exact s).mem_iff.mp hg)
  exact parse_name g.1.cycle g.1.node g.1.label this.1 this.2

/-- with cycle and node numbers below 100 the sorted groups are in chronological order -/
theorem sorted_chrono (s : Store) (hs : smallKeys s) :
    (sortedGroups s).Pairwise (fun a b => lexLe (a.1.cycle, a.1.node) (b.1.cycle, b.1.node)) := by
  have hsorted := listing_sorted_by_name s
  have hmem : ∀ g ∈ sortedGroups s, g.1.cycle < 100 ∧ g.1.node < 100 :=
    fun g hg => hs g ((listing_exact s).mem_iff.mp hg)
  revert hmem
  generalize sortedGroups s = L at hsorted ⊢
  induction hsorted with
  | nil => intro _; exact List.Pairwise.nil
  | @cons a0 l0 hx _ ih =>
    intro hmem
    refine List.Pairwise.cons ?_ (ih (fun g hg => hmem g (by simp [hg])))
    intro b hb
    have ha := hmem a0 (by simp)
    have hb' := hmem b (by simp [hb])
    exact name_le_imp _ _ _ _ _ _ ha.1 ha.2 hb'.1 hb'.2 (hx b hb)

/-- **listing_sorted**: with cycle and node numbers below 100, `genTimeSteps` returns exactly the
(cycle, node) of the written snapshots (a permutation of them), in chronological order -/
theorem listing_sorted (s : Store) (hs : smallKeys s) :
    (steps s).Perm (s.groups.map (fun g => (g.1.cycle, g.1.node))) ∧ (steps s).Pairwise lexLe := by
  rw [steps_exact s hs]
  refine ⟨(listing_exact s).map _, ?_⟩
  rw [List.pairwise_map]
  exact sorted_chrono s hs

private theorem decCodes_last (f n : Nat) : (decCodes (f + 1) n).getLast? = some (48 + n % 10) := by
  unfold decCodes
  split
  · next h => simp; omega
  · simp [List.getLast?_append]

private theorem pad2_last (n : Nat) : (pad2 n).getLast? = some (48 + n % 10) := by
  unfold pad2
  split
  · simp [List.getLast?_cons]
  · exact decCodes_last n n

/-- a name with an empty label ends in a digit, so it is never the name of an `error` snapshot
(for all cycle and node numbers, also above 100) -/
theorem name_fresh (c n c' n' : Nat) : name ⟨c, n, []⟩ ≠ name ⟨c', n', errorLabel⟩ := by
  intro h
  have h1 : (name ⟨c, n, []⟩).getLast? = some (48 + n % 10) := by
    unfold name
    simp only [List.append_nil]
    rw [List.getLast?_cons, List.getLast?_append, List.getLast?_cons, pad2_last]
    simp
  have h2 : (name ⟨c', n', errorLabel⟩).getLast? = some 114 := by
    unfold name errorLabel
    rw [List.getLast?_cons, List.getLast?_append, List.getLast?_cons, List.getLast?_append]
    simp
  rw [h, h2] at h1
  simp at h1
  omega

/-! ## Histories -/

private theorem lookup_map_ne {α} (d : List ((Nat × Nat) × α)) (k k' : Nat × Nat) (v : α) (h : k' ≠ k) :
    (d.map (fun e => if e.1 == k then (k, v) else e)).lookup k' = d.lookup k' := by
  induction d with
  | nil => rfl
  | cons e t ih =>
    obtain ⟨ek, ev⟩ := e
    simp only [List.map_cons]
    by_cases he : ek = k
    · subst he
      have hk : (k' == ek) = false := by simpa using h
      simp only [beq_self_eq_true, if_true, List.lookup_cons, hk, ih]
    · have : (ek == k) = false := by simpa using he
      simp only [this, Bool.false_eq_true, if_false, List.lookup_cons, ih]

private theorem lookup_odSet {α} (d : List ((Nat × Nat) × α)) (k k' : Nat × Nat) (v : α) :
    (odSet d k v).lookup k' = if k' = k then some v else d.lookup k' := by
  unfold odSet
  by_cases hk : k' = k
  · subst hk
    rw [if_pos rfl]
    induction d with
    | nil => simp
    | cons e t ih =>
      obtain ⟨ek, ev⟩ := e
      by_cases he : ek = k'
      · subst he; simp
      · have hf : (ek == k') = false := by simpa using he
        have hf' : (k' == ek) = false := by simpa using (fun h => he h.symm)
        simp only [List.any_cons, hf, Bool.false_or]
        split
        · next hany =>
          rw [if_pos hany] at ih
          simp only [List.map_cons, hf, Bool.false_eq_true, if_false, List.lookup_cons, hf', ih]
        · next hany =>
          rw [if_neg hany] at ih
          simp only [List.cons_append, List.lookup_cons, hf', ih]
  · rw [if_neg hk]
    split
    · exact lookup_map_ne d k k' v hk
    · have hk' : (k' == k) = false := by simpa using hk
      rw [List.lookup_append]
      simp [List.lookup_cons, hk']

private theorem lookup_fold {α} (l : List ((Nat × Nat) × α)) (d : List ((Nat × Nat) × α)) (k : Nat × Nat) :
    (l.foldl (fun d e => odSet d e.1 e.2) d).lookup k =
      match (l.filter (fun e => e.1 == k)).getLast? with
      | some e => some e.2
      | none => d.lookup k := by
  induction l generalizing d with
  | nil => simp
  | cons e t ih =>
    simp only [List.foldl_cons]
    rw [ih, lookup_odSet]
    by_cases he : e.1 = k
    · have : (e.1 == k) = true := by simpa using he
      simp only [List.filter_cons, this, if_true, List.getLast?_cons]
      cases (t.filter (fun e => e.1 == k)).getLast? with
      | none => simp [he]
      | some e' => simp
    · have : (e.1 == k) = false := by simpa using he
      simp only [List.filter_cons, this, Bool.false_eq_true, if_false]
      cases (t.filter (fun e => e.1 == k)).getLast? with
      | none => simp; intro h; exact absurd h.symm he
      | some e' => simp

/-- **history_spec**: the value a history reports for step `cn` is the value — or the default if
the parameter was unset — that the object WITH THAT SERIAL NUMBER (wherever it sits in the
snapshot, i.e. also after it moved) has in the last snapshot, in name order, whose step
attributes are `cn` and which contains the object; a step is absent from the history exactly when no
snapshot of that step contains the object.  (`entries` lists, in name order, (step, value-or-default)
of every time-step snapshot that contains the object.) -/
theorem history_spec (s : Store) (serial : Nat) (dflt : Int) (cn : Nat × Nat) :
    (historyDb s serial dflt).lookup cn =
      (((entries s serial dflt).filter (fun e => e.1 == cn)).getLast?).map (·.2) := by
  unfold historyDb
  rw [lookup_fold]
  cases ((entries s serial dflt).filter (fun e => e.1 == cn)).getLast? <;> simp [List.lookup]

/-- the live step is appended only when the stored steps do not already hold it -/
theorem history_live (s : Store) (serial : Nat) (dflt : Int) (cur : Snap) (v : Option Int)
    (hne : (historyDb s serial dflt).isEmpty = false)
    (habs : (historyDb s serial dflt).any (fun e => e.1 == (cur.cycle, cur.node)) = false)
    (hobj : cur.objs.find? (fun o => o.1 == serial) = some (serial, v)) :
    history s serial dflt cur = historyDb s serial dflt ++ [((cur.cycle, cur.node), v.getD dflt)] := by
  unfold history
  simp [hne, habs, hobj]

/-! ## Merging and splitting -/

/-- is the group's (cycle, node) before the restart point? -/
def before (sc sn : Nat) (g : Key × Snap) : Bool :=
  decide (g.1.cycle < sc) || (g.1.cycle == sc && decide (g.1.node < sn))

private theorem mergeLoop_eq (sc sn : Nat) (L : List (Key × Snap)) (dst : Store) (ho : dst.isOpen = true)
    (hsmall : ∀ g ∈ L, g.1.cycle < 100 ∧ g.1.node < 100)
    (hn : (L.map (fun g => name g.1)).Nodup)
    (hdis : ∀ x ∈ L, ∀ y ∈ dst.groups, name y.1 ≠ name x.1) :
    mergeLoop sc sn L dst = some { dst with
      groups := (dst.groups ++ L.takeWhile (before sc sn)) } := by
  induction L generalizing dst with
  | nil => simp [mergeLoop]
  | cons g rest ih =>
    have hg := hsmall g (by simp)
    unfold mergeLoop
    rw [parse_name g.1.cycle g.1.node g.1.label hg.1 hg.2]
    simp only []
    by_cases hst : atOrAfter (g.1.cycle, g.1.node) sc sn = true
    · rw [if_pos hst]
      have hb : before sc sn g = false := by
        unfold atOrAfter at hst; unfold before
        simp at hst ⊢; omega
      simp [List.takeWhile_cons, hb]
    · rw [if_neg hst]
      have hb : before sc sn g = true := by
        unfold atOrAfter at hst; unfold before
        simp at hst ⊢; omega
      have hk : hasKey dst g.1 = false := by
        unfold hasKey
        rw [List.any_eq_false]
        intro y hy
        simpa using hdis g (by simp) y hy
      have hcond : (!dst.isOpen || hasKey dst g.1) = false := by simp [ho, hk]
      rw [hcond]
      simp only [Bool.false_eq_true, if_false]
      simp only [List.map_cons, List.nodup_cons] at hn
      rw [ih { dst with groups := dst.groups ++ [g] } ho (fun x hx => hsmall x (by simp [hx])) hn.2]
      · simp [List.takeWhile_cons, hb]
      · intro x hx y hy
        simp only [List.mem_append, List.mem_singleton] at hy
        rcases hy with hy | rfl
        · exact hdis x (by simp [hx]) y hy
        · intro heq
          exact hn.1 (List.mem_map.mpr ⟨x, hx, heq.symm⟩)

private theorem takeWhile_eq_filter (sc sn : Nat) (L : List (Key × Snap))
    (hsorted : L.Pairwise (fun a b => lexLe (a.1.cycle, a.1.node) (b.1.cycle, b.1.node))) :
    L.takeWhile (before sc sn) = L.filter (before sc sn) := by
  induction L with
  | nil => simp
  | cons a t ih =>
    rw [List.pairwise_cons] at hsorted
    by_cases ha : before sc sn a = true
    · rw [List.takeWhile_cons, List.filter_cons, ha, ih hsorted.2]
      simp
    · have ha' : before sc sn a = false := by simpa using ha
      rw [List.takeWhile_cons, ha']
      simp only [Bool.false_eq_true, if_false]
      symm
      rw [List.filter_eq_nil_iff]
      intro b hb
      rcases List.mem_cons.mp hb with rfl | hb
      · exact ha
      · have := hsorted.1 b hb
        unfold lexLe at this
        unfold before at ha' ⊢
        simp only [] at this
        simp at ha' ⊢
        omega

/-- the store invariant "no two groups with one name" -/
def namesNodup (s : Store) : Prop := (s.groups.map (fun g => name g.1)).Nodup

theorem namesNodup_open : namesNodup openW := by simp [namesNodup, openW]

theorem namesNodup_write (s s' : Store) (r : Snap) (label : List Nat) (hs : namesNodup s)
    (h : write s r label = some s') : namesNodup s' := by
  unfold write at h
  simp only [] at h
  split at h
  · simp at h
  · next hc =>
    simp at h; subst h
    simp at hc
    unfold namesNodup at hs ⊢
    simp only [List.map_append, List.map_cons, List.map_nil]
    rw [List.nodup_append]
    refine ⟨hs, by simp, ?_⟩
    intro a ha b hb
    simp at hb; subst hb
    simp only [List.mem_map] at ha
    obtain ⟨g, hg, rfl⟩ := ha
    have := hc.2
    unfold hasKey at this
    rw [List.any_eq_false] at this
    simpa using this g hg

/-- **merge_exact**: merging the history of `src` into a fresh database up to a restart point
copies exactly the snapshots strictly before that point (all labels), unchanged and in order —
whether or not the restart point itself is a step of the source (cycle and node numbers below 100). -/
theorem merge_exact (src : Store) (sc sn : Nat) (hs : smallKeys src) (hn : namesNodup src) :
    mergeHistory openW src sc sn =
      some { openW with groups := (sortedGroups src).filter (before sc sn) } := by
  unfold mergeHistory
  have hperm := listing_exact src
  rw [mergeLoop_eq sc sn (sortedGroups src) openW rfl
    (fun g hg => hs g (hperm.mem_iff.mp hg))
    ((hperm.map _).nodup_iff.mpr hn)
    (fun _ _ y hy => by simp [openW] at hy)]
  rw [takeWhile_eq_filter sc sn _ (sorted_chrono src hs)]
  simp [openW]

/-- a source with steps (0,0), (0,2), (1,0) (the input of the former finding F13) -/
def f13Store : Store :=
  { openW with groups := [(⟨0, 0, []⟩, { cycle := 0, node := 0, objs := [] }),
                          (⟨0, 2, []⟩, { cycle := 0, node := 2, objs := [] }),
                          (⟨1, 0, []⟩, { cycle := 1, node := 0, objs := [] })] }

/-- the restart point (0,1) is not a step of the source: only (0,0) is copied -/
example : (mergeHistory openW f13Store 0 1).map (fun s => s.groups.map (fun g => (g.1.cycle, g.1.node)))
    = some [(0, 0)] := by
  decide

private theorem forall2_splitCopy (s : Store) (m : Nat) (keep : List (Nat × Nat))
    (hall : ∀ cn ∈ keep, (splitCopy s m cn).isSome = true) :
    List.Forall₂ (fun cn g => ∃ snap, load s ⟨cn.1, cn.2, []⟩ = some snap
        ∧ g.1 = ⟨cn.1 - m, cn.2, []⟩ ∧ g.2.objs = snap.objs ∧ g.2.node = snap.node
        ∧ g.2.acycle = cn.1 - m ∧ g.2.anode = snap.anode ∧ g.2.cycle = cn.1 - m)
      keep (keep.filterMap (splitCopy s m)) := by
  induction keep with
  | nil => exact List.Forall₂.nil
  | cons cn t ih =>
    have h1 := hall cn (by simp)
    obtain ⟨g, hg⟩ := Option.isSome_iff_exists.mp h1
    rw [List.filterMap_cons, hg]
    refine List.Forall₂.cons ?_ (ih (fun x hx => hall x (by simp [hx])))
    unfold splitCopy at hg
    simp only [Option.map_eq_some_iff] at hg
    obtain ⟨snap, hl, rfl⟩ := hg
    exact ⟨snap, hl, rfl, rfl, rfl, rfl, rfl, rfl⟩

/-- **split_exact**: a split that succeeds leaves exactly one group per kept step, in the order
requested: the unlabelled snapshot of that step with objects and node unchanged and the cycle
renumbered from the least kept cycle in the name, the state and the step attribute alike (the
documented normalisation) — so that histories after a split are keyed by the listed steps -/
theorem split_exact (s s' : Store) (keep : List (Nat × Nat)) (h : split s keep = some s') :
    ∃ m, (keep.map (·.1)).min? = some m ∧
      List.Forall₂ (fun cn g => ∃ snap, load s ⟨cn.1, cn.2, []⟩ = some snap
          ∧ g.1 = ⟨cn.1 - m, cn.2, []⟩ ∧ g.2.objs = snap.objs ∧ g.2.node = snap.node
          ∧ g.2.acycle = cn.1 - m ∧ g.2.anode = snap.anode ∧ g.2.cycle = cn.1 - m) keep s'.groups := by
  unfold split at h
  split at h
  · simp at h
  split at h
  · simp at h
  split at h
  · simp at h
  next m hm =>
  refine ⟨m, hm, ?_⟩
  split at h
  · simp at h
  next hall =>
  simp only [] at h
  split at h
  · simp at h
  simp at h; subst h
  simp only [Bool.not_eq_true', Bool.not_eq_false] at hall
  exact forall2_splitCopy s m keep (List.all_eq_true.mp hall)

/-- after a split the history is keyed by the renumbered (listed) steps -/
example :
    ((split { openW with groups := [(⟨1, 0, []⟩, { cycle := 1, node := 0, objs := [(7, some 5)] }),
                                    (⟨1, 1, []⟩, { cycle := 1, node := 1, objs := [(7, some 6)] })] }
        [(1, 0), (1, 1)]).map (fun s => (steps s, historyDb s 7 0)))
      = some ([(0, 0), (0, 1)], [((0, 0), 5), ((0, 1), 6)]) := by
  decide

/-- **split_refused_unchanged**: a split request that is refused by the up-front validation (no open
database, empty selection, a selected step without an unlabelled snapshot, a step selected twice)
leaves the store exactly as it was -/
theorem split_refused_unchanged (s : Store) (keep : List (Nat × Nat)) (h : splitValid s keep = false) :
    splitOp s keep = (s, false) := by
  unfold splitOp
  simp [h]

/-- what the validation means -/
theorem splitValid_iff (s : Store) (keep : List (Nat × Nat)) :
    splitValid s keep = true ↔
      s.isOpen = true ∧ keep ≠ [] ∧ (∀ cn ∈ keep, hasKey s ⟨cn.1, cn.2, []⟩ = true) ∧ keep.Nodup := by
  unfold splitValid
  simp [List.isEmpty_iff, and_assoc]

/-- a split that goes through was valid, and an invalid one never changes anything -/
theorem split_some_valid (s s' : Store) (keep : List (Nat × Nat)) (h : split s keep = some s') :
    splitValid s keep = true ∧ splitOp s keep = (s', true) := by
  have hv' : splitValid s keep = true := by
    by_contra hc
    have hf : splitValid s keep = false := by simpa using hc
    unfold split at h
    simp [hf] at h
  refine ⟨hv', ?_⟩
  unfold splitOp
  simp [hv', h]

example : splitOp f13Store [(0, 5)] = (f13Store, false) ∧ splitOp f13Store [] = (f13Store, false)
    ∧ splitOp f13Store [(0, 0), (0, 0)] = (f13Store, false) ∧ (splitOp f13Store [(0, 2), (1, 0)]).2 = true := by
  decide

/-! ## The file an aborted run leaves behind -/

/-- the snapshot a hook call of the database interface writes, if it writes one -/
def nodeWrite (d : DbCfg) (ie : Event × Nat) : Option (Key × Snap) :=
  if isNodeWrite d ie.1 then
    some (⟨ie.1.rc, ie.1.rn, []⟩, { cycle := ie.1.rc, node := ie.1.rn, objs := d.stateAt ie.2 })
  else none

/-- does this hook call create the database object? -/
def opens (d : DbCfg) (e : Event) : Bool :=
  isOpenEvent d e || (e.hook == .BOL && e.iface == d.cfg.dbName)

/-- the hook calls after the one that opened the database -/
def afterOpen (d : DbCfg) (l : List (Event × Nat)) : List (Event × Nat) :=
  (l.dropWhile (fun ie => !opens d ie.1)).tail

private theorem fold_open (d : DbCfg) (l : List (Event × Nat)) (s : Store) (ho : s.isOpen = true)
    (hfin : ∀ ie ∈ l, isFinalEvent d ie.1 = false) :
    l.foldl (dbStep d) (some s) = some { s with groups := s.groups ++ l.filterMap (nodeWrite d) } := by
  induction l generalizing s with
  | nil => simp
  | cons ie rest ih =>
    have hf := hfin ie (by simp)
    have hrest : ∀ x ∈ rest, isFinalEvent d x.1 = false := fun x hx => hfin x (by simp [hx])
    simp only [List.foldl_cons]
    by_cases hw : isNodeWrite d ie.1 = true
    · have : dbStep d (some s) ie = some { s with groups := s.groups ++
          [(⟨ie.1.rc, ie.1.rn, []⟩, { cycle := ie.1.rc, node := ie.1.rn, objs := d.stateAt ie.2 })] } := by
        simp [dbStep, ho, hw]
      rw [this, ih { s with groups := s.groups ++
          [(⟨ie.1.rc, ie.1.rn, []⟩, { cycle := ie.1.rc, node := ie.1.rn, objs := d.stateAt ie.2 })] } ho hrest]
      simp [nodeWrite, hw]
    · have hw' : isNodeWrite d ie.1 = false := by simpa using hw
      have : dbStep d (some s) ie = some s := by
        simp [dbStep, ho, hw', hf]
      rw [this, ih _ ho hrest]
      simp [nodeWrite, hw']

private theorem fold_none (d : DbCfg) (l : List (Event × Nat)) :
    l.foldl (dbStep d) none =
      if l.all (fun ie => !opens d ie.1) then none
      else (afterOpen d l).foldl (dbStep d) (some openW) := by
  induction l with
  | nil => simp
  | cons ie rest ih =>
    simp only [List.foldl_cons]
    by_cases ho : opens d ie.1 = true
    · have : dbStep d none ie = some openW := by
        unfold opens at ho
        simp only [Bool.or_eq_true] at ho
        unfold dbStep
        rcases ho with h | h
        · simp [h]
        · by_cases h1 : isOpenEvent d ie.1 = true
          · simp [h1]
          · simp at h; simp [h1, h.1, h.2]
      simp [this, ho, afterOpen]
    · have ho' : opens d ie.1 = false := by simpa using ho
      have : dbStep d none ie = none := by
        unfold opens at ho'
        simp only [Bool.or_eq_false_iff] at ho'
        unfold dbStep
        simp only [ho'.1]
        simp at ho'
        simp
        intro h1 h2; exact absurd h2 (ho'.2 h1)
      rw [this, ih]
      unfold afterOpen
      rw [List.all_cons, List.dropWhile_cons]
      simp only [ho', Bool.not_false, Bool.true_and, if_true]

/-- **the database after any number of completed hook calls, between opening and finalisation**:
open, still in the fast path, unsuccessful, holding exactly the node snapshots written so far -/
theorem db_between (d : DbCfg) (n : Nat)
    (hopened : (((run d.cfg).take n).zipIdx).all (fun ie => !opens d ie.1) = false)
    (hnotfinal : ∀ ie ∈ ((run d.cfg).take n).zipIdx, isFinalEvent d ie.1 = false) :
    dbAfter d n = some { openW with
      groups := (afterOpen d (((run d.cfg).take n).zipIdx)).filterMap (nodeWrite d) } := by
  unfold dbAfter
  rw [fold_none, hopened]
  simp only [Bool.false_eq_true, if_false]
  have hsub : ∀ ie ∈ afterOpen d (((run d.cfg).take n).zipIdx), isFinalEvent d ie.1 = false := by
    intro ie hie
    apply hnotfinal
    unfold afterOpen at hie
    exact (List.dropWhile_sublist _).subset (List.mem_of_mem_tail hie)
  rw [fold_open d _ openW rfl hsub]
  simp [openW]

private theorem nodeWrites_fresh (d : DbCfg) (l : List (Event × Nat)) (c n : Nat) :
    (l.filterMap (nodeWrite d)).any (fun g => name g.1 == name ⟨c, n, errorLabel⟩) = false := by
  rw [List.any_eq_false]
  intro g hg
  simp only [List.mem_filterMap] at hg
  obtain ⟨ie, _, hw⟩ := hg
  unfold nodeWrite at hw
  split at hw
  · simp at hw; subst hw
    simpa using name_fresh ie.1.rc ie.1.rn c n
  · simp at hw

/-- **crash_file_spec**: for EVERY configuration, EVERY evolution of the state and EVERY hook call
`n` of the run between the opening of the database and its finalisation: if that call raises, the
file is in the working directory, closed, marked unsuccessful, and holds every snapshot completed
before the failure plus the `error` snapshot of the state at the failure, at the current
(cycle, node).  The KIND of abort plays no role: `Operator.__exit__` runs the error hooks for anything
that leaves `with o:` (ordinary exceptions, `SystemExit`, `KeyboardInterrupt`), so the model has a single
crash path; the tie injects all three kinds.  No freshness hypothesis: node snapshots have an empty label, whose names end in a
digit, so the `error` snapshot never collides with one (`name_fresh`, for all numbers). -/
theorem crash_file_spec (d : DbCfg) (n : Nat) (e : Event) (he : (run d.cfg)[n]? = some e)
    (hopened : (((run d.cfg).take n).zipIdx).all (fun ie => !opens d ie.1) = false)
    (hnotfinal : ∀ ie ∈ ((run d.cfg).take n).zipIdx, isFinalEvent d ie.1 = false) :
    fileAfterCrash d n = some {
      groups := (afterOpen d (((run d.cfg).take n).zipIdx)).filterMap (nodeWrite d)
        ++ [(⟨e.rc, e.rn, errorLabel⟩, { cycle := e.rc, node := e.rn, objs := d.stateAt n })],
      success := false, inWork := true, isOpen := false } := by
  unfold fileAfterCrash
  rw [he, db_between d n hopened hnotfinal]
  have hf := nodeWrites_fresh d (afterOpen d (((run d.cfg).take n).zipIdx)) e.rc e.rn
  simp [interactError, write, hasKey, hf, close, openW]

/-- a failure before anything opened the database leaves no file -/
theorem crash_before_open (d : DbCfg) (n : Nat)
    (hclosed : (((run d.cfg).take n).zipIdx).all (fun ie => !opens d ie.1) = true) :
    fileAfterCrash d n = none := by
  unfold fileAfterCrash dbAfter
  rw [fold_none, hclosed]
  cases (run d.cfg)[n]? <;> simp

/-- a small run used by the examples: main (1), a faulting interface (2), the database (0) -/
def exDb : DbCfg where
  cfg := { nCycles := 1, burnSteps := [1], startCycle := 0, startNode := 0,
           stack := [⟨1, true, false, false, false⟩, ⟨0, true, false, false, false⟩, ⟨2, true, false, false, false⟩],
           deferredNames := [], deferredCycle := 0, couplingOn := false, maxIters := 0, skipCycles := [],
           dbName := 0, halt := fun _ _ => false, conv := fun _ _ _ _ => false }
  opener := 1
  stateAt := fun i => [(0, some (i : Int))]

/-- the hypotheses of `crash_file_spec` are satisfiable: a failure of interface 2 at EveryNode(0,1),
after the database wrote that node -/
example : (run exDb.cfg)[11]? = some ⟨.EveryNode, 2, [0, 1], 0, 1⟩
    ∧ (((run exDb.cfg).take 11).zipIdx).all (fun ie => !opens exDb ie.1) = false
    ∧ (((run exDb.cfg).take 11).zipIdx).all (fun ie => !isFinalEvent exDb ie.1) = true
    ∧ ((fileAfterCrash exDb 11).map (fun s => (s.groups.map (fun g => (g.1.cycle, g.1.node, g.1.label)), s.success, s.inWork)))
        = some ([(0, 0, []), (0, 1, []), (0, 1, errorLabel)], false, true) := by decide

private theorem fold_closed (d : DbCfg) (l : List (Event × Nat)) (s : Store) (hc : s.isOpen = false) :
    l.foldl (dbStep d) (some s) = some s := by
  induction l with
  | nil => rfl
  | cons ie rest ih =>
    simp only [List.foldl_cons]
    have : dbStep d (some s) ie = some s := by simp [dbStep, hc]
    rw [this, ih]

private theorem step_final (d : DbCfg) (s : Store) (fin : Event × Nat) (ho : s.isOpen = true)
    (hfin : isFinalEvent d fin.1 = true) (hnw : isNodeWrite d fin.1 = false) :
    dbStep d (some s) fin = some {
      groups := s.groups ++ [(⟨fin.1.rc, fin.1.rn, eolLabel⟩,
        { cycle := fin.1.rc, node := fin.1.rn, objs := d.stateAt fin.2 })],
      success := true, inWork := true, isOpen := false } := by
  simp [dbStep, ho, hfin, hnw, close]

/-- **complete_run_spec**: if the hook calls of the run are `pre ++ fin :: post` where the database was
opened within `pre`, `fin` is the database interface's end-of-life call and no earlier call is, then
the finished file is in the working directory, closed, marked successful, and holds exactly every node
snapshot written after the opening plus the `EOL` snapshot — whatever runs after it. -/
theorem complete_run_spec (d : DbCfg) (pre post : List (Event × Nat)) (fin : Event × Nat)
    (hsplit : (run d.cfg).zipIdx = pre ++ fin :: post)
    (hopened : pre.all (fun ie => !opens d ie.1) = false)
    (hpre : ∀ ie ∈ pre, isFinalEvent d ie.1 = false)
    (hfin : isFinalEvent d fin.1 = true) (hnw : isNodeWrite d fin.1 = false) :
    fileAfterRun d = some {
      groups := (afterOpen d pre).filterMap (nodeWrite d)
        ++ [(⟨fin.1.rc, fin.1.rn, eolLabel⟩, { cycle := fin.1.rc, node := fin.1.rn, objs := d.stateAt fin.2 })],
      success := true, inWork := true, isOpen := false } := by
  unfold fileAfterRun dbAfter
  rw [List.take_length, hsplit, List.foldl_append, fold_none, hopened]
  simp only [Bool.false_eq_true, if_false, List.foldl_cons]
  have hsub : ∀ ie ∈ afterOpen d pre, isFinalEvent d ie.1 = false := by
    intro ie hie
    apply hpre
    unfold afterOpen at hie
    exact (List.dropWhile_sublist _).subset (List.mem_of_mem_tail hie)
  rw [fold_open d _ openW rfl hsub, step_final d _ fin rfl hfin hnw, fold_closed _ _ _ rfl]
  simp [openW]

example : ((fileAfterRun exDb).map (fun s => (s.groups.map (fun g => (g.1.cycle, g.1.node, g.1.label)), s.success, s.inWork, s.isOpen)))
    = some ([(0, 0, []), (0, 1, []), (0, 1, eolLabel)], true, true, false) := by decide

end ArmiVerif.SnapStore
