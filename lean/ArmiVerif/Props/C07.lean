/-
C07 — grid indices, ring/position, labels and coordinates are consistent bijections.
Property theorems only (helper lemmas are local `private` and never restate a property).
-/
import ArmiVerif.Model.Hex
import Mathlib.Data.Nat.Sqrt
import Mathlib.Tactic.Ring
import Mathlib.Tactic.Linarith

namespace ArmiVerif.Hex

private theorem divmod_unique (e r o : Int) (h0 : 0 ≤ o) (h1 : o < r) :
    (e * r + o) / r = e ∧ (e * r + o) % r = o := by
  have hr : r ≠ 0 := by omega
  constructor
  · rw [Int.add_comm, Int.add_mul_ediv_right _ _ hr, Int.ediv_eq_zero_of_lt h0 h1]; omega
  · rw [Int.add_comm, Int.add_mul_emod_self_right, Int.emod_eq_of_lt h0 h1]

/-- characterisation of the (edge, ring, offset) triple of the if-ladder -/
private theorem ero_spec (i j : Int) :
    0 ≤ (ero i j).1 ∧ (ero i j).1 ≤ 5 ∧ 0 ≤ (ero i j).2.1 - 1 ∧ 0 ≤ (ero i j).2.2 ∧
    (((ero i j).2.1 - 1 = 0 ∧ i = 0 ∧ j = 0 ∧ (ero i j).2.2 = 0 ∧ (ero i j).1 = 5) ∨
     ((ero i j).2.1 - 1 ≠ 0 ∧ (ero i j).2.2 < (ero i j).2.1 - 1 ∧
       ijOfEdge (ero i j).1 ((ero i j).2.1 - 1) (ero i j).2.2 = some (i, j))) := by
  unfold ero
  repeat' split
  all_goals simp_all [ijOfEdge]
  all_goals omega

/-- **ring/pos → indices is a left inverse of indices → ring/pos, for every cell.** -/
theorem ringpos_left_inv (i j : Int) :
    fromRingPos (toRingPos i j).1 (toRingPos i j).2 = some (i, j) := by
  obtain ⟨he0, he5, hr0, ho0, h⟩ := ero_spec i j
  unfold fromRingPos toRingPos
  simp only []
  rcases h with ⟨hr, hi, hj, ho, _⟩ | ⟨hr, ho, hij⟩
  · subst hi; subst hj; decide
  · have hrpos : 0 < (ero i j).2.1 - 1 := by omega
    have hd := divmod_unique (ero i j).1 ((ero i j).2.1 - 1) (ero i j).2.2 ho0 ho
    have hsimp : 1 + (ero i j).1 * ((ero i j).2.1 - 1) + (ero i j).2.2 - 1
        = (ero i j).1 * ((ero i j).2.1 - 1) + (ero i j).2.2 := by omega
    rw [if_neg hr, hsimp, Int.fdiv_eq_ediv_of_nonneg _ (by omega),
      Int.fmod_eq_emod_of_nonneg _ (by omega), hd.1, hd.2, hij]

/-- position is within the ring's range -/
theorem pos_range (i j : Int) :
    1 ≤ (toRingPos i j).2 ∧ (toRingPos i j).2 ≤ positionsInRing (toRingPos i j).1 := by
  obtain ⟨he0, he5, hr0, ho0, h⟩ := ero_spec i j
  unfold toRingPos positionsInRing
  simp only []
  rcases h with ⟨hr, _, _, ho, he⟩ | ⟨hr, ho, _⟩
  · have : (ero i j).2.1 = 1 := by omega
    simp [this, ho]
  · have hne : (ero i j).2.1 ≠ 1 := by omega
    rw [if_pos hne]
    generalize (ero i j).1 = e at *
    generalize (ero i j).2.1 - 1 = r at *
    generalize (ero i j).2.2 = o at *
    have h1 : 0 ≤ e * r := Int.mul_nonneg he0 hr0
    have h2 : e * r ≤ 5 * r := Int.mul_le_mul_of_nonneg_right he5 hr0
    omega

/-- **a cell's ring is its hex distance from the centre plus one** -/
theorem ring_eq_hexdist (i j : Int) :
    (toRingPos i j).1 = max (max (i.natAbs : Int) j.natAbs) (i + j).natAbs + 1 := by
  unfold toRingPos ero
  repeat' split
  all_goals simp only []
  all_goals omega

/-- **indices → ring/pos is a left inverse of ring/pos → indices on the whole valid range**
(so the two maps are mutually inverse bijections between ℤ² and
{(r, p) | r ≥ 1, 1 ≤ p ≤ positionsInRing r}; ring r > 1 therefore holds exactly 6(r-1) cells
numbered contiguously 1 … 6(r-1)). -/
theorem ringpos_right_inv (r p : Int) (hr : 1 ≤ r) (hp1 : 1 ≤ p) (hp2 : p ≤ positionsInRing r) :
    ∃ c, fromRingPos r p = some c ∧ toRingPos c.1 c.2 = (r, p) := by
  unfold positionsInRing at hp2
  unfold fromRingPos
  simp only []
  by_cases h1 : r = 1
  · subst h1; simp at hp2
    have : p = 1 := by omega
    subst this
    exact ⟨(0, 0), by simp, by decide⟩
  · rw [if_pos h1] at hp2
    have hr' : r - 1 ≠ 0 := by omega
    rw [if_neg hr']
    have hrp : 0 < r - 1 := by omega
    rw [Int.fdiv_eq_ediv_of_nonneg _ (by omega), Int.fmod_eq_emod_of_nonneg _ (by omega)]
    have hm0 := Int.emod_nonneg (p - 1) hr'
    have hm1 := Int.emod_lt_of_pos (p - 1) hrp
    have hdm := Int.mul_ediv_add_emod (p - 1) (r - 1)
    have he0 : 0 ≤ (p - 1) / (r - 1) := Int.ediv_nonneg (by omega) (by omega)
    have he5 : (p - 1) / (r - 1) < 6 := by
      apply Int.ediv_lt_of_lt_mul hrp; omega
    generalize hq : (p - 1) / (r - 1) = e at *
    generalize hm : (p - 1) % (r - 1) = o at *
    have hcases : e = 0 ∨ e = 1 ∨ e = 2 ∨ e = 3 ∨ e = 4 ∨ e = 5 := by omega
    have key : ∀ (x y : Int), ijOfEdge e (r - 1) o = some (x, y) → toRingPos x y = (r, p) := by
      intro x y hxy
      rcases hcases with h | h | h | h | h | h <;> subst h <;>
        simp [ijOfEdge] at hxy <;> obtain ⟨rfl, rfl⟩ := hxy <;>
        unfold toRingPos ero <;> (repeat' split) <;> simp only [Prod.mk.injEq] <;>
        (try constructor) <;> omega
    rcases hcases with h | h | h | h | h | h <;> subst h <;>
      simp only [ijOfEdge] <;> norm_num <;> exact key _ _ (by simp [ijOfEdge])

/-! ### least number of rings -/

private theorem enough_iff (r m : Nat) (hr : 1 ≤ r) :
    m ≤ 3 * r * (r - 1) ↔ 1 + (4 * m) / 3 ≤ (2 * r - 1) * (2 * r - 1) := by
  obtain ⟨k, rfl⟩ : ∃ k, r = k + 1 := ⟨r - 1, by omega⟩
  have h1 : (2 * (k + 1) - 1) * (2 * (k + 1) - 1) = 4 * (k * (k + 1)) + 1 := by
    have : 2 * (k + 1) - 1 = 2 * k + 1 := by omega
    rw [this]; ring
  have h2 : 3 * (k + 1) * (k + 1 - 1) = 3 * (k * (k + 1)) := by
    have : k + 1 - 1 = k := by omega
    rw [this]; ring
  rw [h1, h2]
  generalize k * (k + 1) = t
  omega

/-- `halfCeil x` is the least `r ≥ 1` with `x ≤ (2r-1)²` (for x ≥ 1) -/
private theorem halfCeil_spec (x : Nat) (hx : 1 ≤ x) :
    1 ≤ halfCeil x ∧ x ≤ (2 * halfCeil x - 1) * (2 * halfCeil x - 1) ∧
    ∀ r, 1 ≤ r → r < halfCeil x → (2 * r - 1) * (2 * r - 1) < x := by
  have hs1 := Nat.sqrt_le x
  have hs2 := Nat.lt_succ_sqrt x
  have hs0 : 1 ≤ Nat.sqrt x := Nat.sqrt_pos.mpr hx
  unfold halfCeil
  simp only []
  generalize Nat.sqrt x = s at *
  split
  · rename_i heq
    -- x = s*s
    rcases Nat.even_or_odd' s with ⟨t, ht | ht⟩
    · -- s = 2t: halfCeil = t+1, (2t+1)^2 ≥ 4t^2
      subst ht
      have e1 : (2 * t + 2) / 2 = t + 1 := by omega
      rw [e1]
      refine ⟨by omega, ?_, ?_⟩
      · have : 2 * (t + 1) - 1 = 2 * t + 1 := by omega
        rw [this, ← heq]; nlinarith
      · intro r hr1 hr2
        have : 2 * r - 1 ≤ 2 * t - 1 := by omega
        have ht1 : 1 ≤ t := by omega
        rw [← heq]
        have h3 : (2 * r - 1) * (2 * r - 1) ≤ (2 * t - 1) * (2 * t - 1) := Nat.mul_le_mul this this
        have h4 : (2 * t - 1) * (2 * t - 1) < 2 * t * (2 * t) := by
          have : 2 * t - 1 < 2 * t := by omega
          exact Nat.mul_lt_mul'' this this
        omega
    · subst ht
      have e1 : (2 * t + 1 + 2) / 2 = t + 1 := by omega
      rw [e1]
      refine ⟨by omega, ?_, ?_⟩
      · have : 2 * (t + 1) - 1 = 2 * t + 1 := by omega
        rw [this, ← heq]
      · intro r hr1 hr2
        have : 2 * r - 1 ≤ 2 * t - 1 := by omega
        rw [← heq]
        have h3 : (2 * r - 1) * (2 * r - 1) ≤ (2 * t - 1) * (2 * t - 1) := Nat.mul_le_mul this this
        have h4 : (2 * t - 1) * (2 * t - 1) < (2 * t + 1) * (2 * t + 1) := by
          have : 2 * t - 1 < 2 * t + 1 := by omega
          exact Nat.mul_lt_mul'' this this
        omega
  · rename_i hne
    have hlt : s * s < x := by omega
    rcases Nat.even_or_odd' s with ⟨t, ht | ht⟩
    · subst ht
      have e1 : (2 * t + 1) / 2 + 1 = t + 1 := by omega
      rw [e1]
      refine ⟨by omega, ?_, ?_⟩
      · have : 2 * (t + 1) - 1 = 2 * t + 1 := by omega
        rw [this]
        have : Nat.succ (2 * t) = 2 * t + 1 := rfl
        rw [this] at hs2; omega
      · intro r hr1 hr2
        have : 2 * r - 1 ≤ 2 * t := by omega
        have h3 : (2 * r - 1) * (2 * r - 1) ≤ 2 * t * (2 * t) := Nat.mul_le_mul this this
        omega
    · subst ht
      have e1 : (2 * t + 1 + 1) / 2 + 1 = t + 2 := by omega
      rw [e1]
      refine ⟨by omega, ?_, ?_⟩
      · have : 2 * (t + 2) - 1 = 2 * t + 3 := by omega
        rw [this]
        have : Nat.succ (2 * t + 1) = 2 * t + 2 := rfl
        rw [this] at hs2
        nlinarith
      · intro r hr1 hr2
        have : 2 * r - 1 ≤ 2 * t + 1 := by omega
        have h3 : (2 * r - 1) * (2 * r - 1) ≤ (2 * t + 1) * (2 * t + 1) := Nat.mul_le_mul this this
        omega

/-- **the least number of rings holding n cells is exact** (n ≥ 1): `numRings n` rings hold
at least n cells and no smaller positive ring count does. The integer floor inside the
square root (`4*(n-1)//3`) is harmless. -/
theorem numRings_least (n : Nat) (hn : 0 < n) :
    1 ≤ numRings n ∧ n ≤ totalUpTo (numRings n) ∧
    ∀ r, 0 < r → r < numRings n → totalUpTo r < n := by
  unfold numRings
  rw [if_neg (by omega)]
  obtain ⟨h1, h2, h3⟩ := halfCeil_spec (1 + 4 * (n - 1) / 3) (by omega)
  generalize halfCeil (1 + 4 * (n - 1) / 3) = R at *
  refine ⟨h1, ?_, ?_⟩
  · have := (enough_iff R (n - 1) h1).mpr h2
    unfold totalUpTo; omega
  · intro r hr hlt
    have hlt' := h3 r hr hlt
    have : ¬ (n - 1 ≤ 3 * r * (r - 1)) := by
      intro hc
      have := (enough_iff r (n - 1) hr).mp hc
      omega
    unfold totalUpTo; omega

theorem numRings_zero : numRings 0 = 0 := rfl

/-- total positions is the sum of ring sizes (contiguous numbering across rings) -/
theorem totalUpTo_succ (r : Nat) (hr : 1 ≤ r) :
    (totalUpTo (r + 1) : Int) = totalUpTo r + positionsInRing ((r : Int) + 1) := by
  unfold totalUpTo positionsInRing
  have : ((r : Int) + 1 ≠ 1) := by omega
  rw [if_pos this]
  obtain ⟨k, rfl⟩ : ∃ k, r = k + 1 := ⟨r - 1, by omega⟩
  have e1 : k + 1 + 1 - 1 = k + 1 := by omega
  have e2 : k + 1 - 1 = k := by omega
  rw [e1, e2]
  push_cast
  ring

/-! ### neighbours: one pitch away, counter-clockwise, 60° apart -/

private def offs : List (Int × Int) := [(1, 0), (0, 1), (-1, 1), (-1, 0), (0, -1), (1, -1)]

theorem neighbours_eq_offsets (i j : Int) :
    neighbours i j = offs.map (fun o => (i + o.1, j + o.2)) := by
  simp [neighbours, offs]; omega

/-- every listed neighbour's centre is exactly one pitch from the cell's centre
(squared distance `p²·sq4/4 = p²`), in both orientations, for every cell. -/
theorem neighbours_unit (cu : Bool) (i j : Int) :
    ∀ n ∈ neighbours i j,
      sq4 cu ((coef cu n.1 n.2).1 - (coef cu i j).1, (coef cu n.1 n.2).2 - (coef cu i j).2) = 4 := by
  intro n hn
  simp only [neighbours, List.mem_cons, List.mem_nil_iff, or_false] at hn
  cases cu <;> rcases hn with h | h | h | h | h | h <;> subst h <;>
    simp [sq4, coef] <;> ring_nf

/-- consecutive neighbours (cyclically) are 60° apart counter-clockwise: the cross product of
the two offset vectors is positive and their dot product is half the squared length. -/
theorem neighbours_ccw (cu : Bool) (k : Fin 6) :
    let o := fun (m : Fin 6) => coef cu (offs[m.val]'(by simp [offs])).1 (offs[m.val]'(by simp [offs])).2
    0 < cross4 cu (o k) (o (k + 1)) ∧ 2 * dot4 cu (o k) (o (k + 1)) = 4 := by
  cases cu <;> revert k <;> decide

/-- coordinates are additive in the indices (affine map with zero offset) -/
theorem coef_add (cu : Bool) (i j i' j' : Int) :
    coef cu (i + i') (j + j') = ((coef cu i j).1 + (coef cu i' j').1, (coef cu i j).2 + (coef cu i' j').2) := by
  cases cu <;> simp [coef] <;> omega

/-- distinct cells have distinct centres (the coefficient map is injective) -/
theorem coef_injective (cu : Bool) (i j i' j' : Int) (h : coef cu i j = coef cu i' j') :
    i = i' ∧ j = j' := by
  cases cu <;> simp [coef] at h <;> omega

/-! ### non-vacuity -/
example : toRingPos 2 (-3) = (4, 15) ∧ fromRingPos 4 15 = some (2, -3) := by decide
example : (1 : Int) ≤ 3 ∧ (1 : Int) ≤ 12 ∧ (12 : Int) ≤ positionsInRing 3 := by decide
example : numRings 20 = 4 ∧ totalUpTo 3 = 19 ∧ totalUpTo 4 = 37 := by decide +kernel

/-- the neighbours of (i, j, k) are the planar neighbours of (i, j), in the same order, all at axial index k -/
theorem neighbours3_spec (i j k : Int) :
    (neighbours3 i j k).map (fun c => (c.1, c.2.1)) = neighbours i j ∧ ∀ c ∈ neighbours3 i j k, c.2.2 = k := by
  constructor
  · rfl
  · intro c hc
    simp only [neighbours3, List.mem_cons, List.not_mem_nil, or_false] at hc
    rcases hc with h | h | h | h | h | h <;> rw [h]

end ArmiVerif.Hex
