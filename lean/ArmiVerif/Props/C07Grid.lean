/-
C07 (generic-grid half) — Cartesian ring/position numbering, step / bounds coordinates, nesting,
`reduce` round trip, `changePitch`.  Model: ArmiVerif/Model/Grid.lean.
Property theorems only; helper lemmas are `private`.
-/
import ArmiVerif.Model.Grid
import ArmiVerif.Props.C07
import Mathlib.Tactic.Ring
import Mathlib.Tactic.Linarith
import Mathlib.Tactic.FieldSimp
import Mathlib.Algebra.Order.Field.Rat

namespace ArmiVerif.Grid

/-! ### Cartesian ring / position -/

/-- distance of a half-integer centre from the origin, rounded down: |i + 1/2| - 1/2 -/
def hdist (i : Int) : Int := if 0 ≤ i then i else -i - 1

private theorem iabs_trunc_odd (i : Int) : iabs (truncHalf (2 * i + 1)) = hdist i := by
  simp only [iabs, truncHalf, hdist]; repeat' split
  all_goals omega

private theorem iabs_trunc_even (i : Int) : iabs (truncHalf (2 * i)) = iabs i := by
  simp only [iabs, truncHalf]; repeat' split
  all_goals omega

/-- unfolded form, centre cell present -/
private theorem crp_true (i j : Int) :
    cartRingPos true i j =
      (max (iabs i) (iabs j) + 1,
       (if j = max (iabs i) (iabs j) then -i + max (iabs i) (iabs j)
        else if i = -max (iabs i) (iabs j) then 3 * max (iabs i) (iabs j) - j
        else if j = -max (iabs i) (iabs j) then 5 * max (iabs i) (iabs j) + i
        else 7 * max (iabs i) (iabs j) + j) + 1) := by
  simp only [cartRingPos, cdbl, if_true, iabs_trunc_even]
  generalize max (iabs i) (iabs j) = m
  have hm : truncHalf (2 * m) = m := by simp only [truncHalf]; split <;> omega
  rw [hm]
  congr 1
  repeat' split
  all_goals (simp only [truncHalf]; split <;> omega)

/-- unfolded form, four central cells -/
private theorem crp_false (i j : Int) :
    cartRingPos false i j =
      (max (hdist i) (hdist j) + 1,
       (if j = max (hdist i) (hdist j) then -i + max (hdist i) (hdist j)
        else if i = -max (hdist i) (hdist j) - 1 then 3 * max (hdist i) (hdist j) + 1 - j
        else if j = -max (hdist i) (hdist j) - 1 then 5 * max (hdist i) (hdist j) + 3 + i
        else 7 * max (hdist i) (hdist j) + 4 + j) + 1) := by
  simp only [cartRingPos, cdbl, Bool.false_eq_true, if_false, iabs_trunc_odd]
  have hm0 : 0 ≤ max (hdist i) (hdist j) := by
    have : 0 ≤ hdist i := by simp only [hdist]; split <;> omega
    omega
  generalize max (hdist i) (hdist j) = m at *
  have hm : truncHalf (2 * m + 1) = m := by simp only [truncHalf]; split <;> omega
  rw [hm]
  congr 1
  repeat' split
  all_goals (simp only [truncHalf]; split <;> omega)

/-- **ring = Chebyshev distance of the cell centre from the grid centre + 1** (`hdist i` = |i + 1/2| − 1/2
for the grid whose four central cells share the origin) -/
theorem cart_ring_eq (t : Bool) (i j : Int) :
    (cartRingPos t i j).1 =
      if t then max (iabs i) (iabs j) + 1 else max (hdist i) (hdist j) + 1 := by
  cases t
  · rw [crp_false]; simp
  · rw [crp_true]; simp

/-- **position lies in 1 … getPositionsInRing(ring)** -/
theorem cart_pos_range (t : Bool) (i j : Int) :
    1 ≤ (cartRingPos t i j).2 ∧ (cartRingPos t i j).2 ≤ cartPositionsInRing t (cartRingPos t i j).1 := by
  cases t
  · rw [crp_false]; simp only [cartPositionsInRing, hdist, Bool.false_eq_true, if_false]
    repeat' split
    all_goals omega
  · rw [crp_true]; simp only [cartPositionsInRing, iabs, if_true]
    repeat' split
    all_goals omega

/-- the inverse numbering (the Python class has none: `getIndicesFromRingAndPos` raises) -/
def cartFromRingPos (t : Bool) (r p : Int) : Int × Int :=
  let ρ := r - 1; let q := p - 1
  if t then
    if q ≤ 2 * ρ then (ρ - q, ρ) else if q ≤ 4 * ρ then (-ρ, 3 * ρ - q)
    else if q ≤ 6 * ρ then (q - 5 * ρ, -ρ) else (ρ, q - 7 * ρ)
  else
    if q ≤ 2 * ρ + 1 then (ρ - q, ρ) else if q ≤ 4 * ρ + 2 then (-ρ - 1, 3 * ρ + 1 - q)
    else if q ≤ 6 * ρ + 3 then (q - 5 * ρ - 3, -ρ - 1) else (ρ, q - 7 * ρ - 4)

/-- **(ring, pos) determines the cell**: an explicit inverse recovers (i, j) from its numbering -/
theorem cart_ringpos_left_inv (t : Bool) (i j : Int) :
    cartFromRingPos t (cartRingPos t i j).1 (cartRingPos t i j).2 = (i, j) := by
  cases t
  · rw [crp_false]; simp only [cartFromRingPos, hdist, Bool.false_eq_true, if_false]
    repeat' split
    all_goals (simp only [Prod.mk.injEq]; omega)
  · rw [crp_true]; simp only [cartFromRingPos, iabs, if_true]
    repeat' split
    all_goals (simp only [Prod.mk.injEq]; omega)

/-- **distinct cells have distinct (ring, pos)** -/
theorem cart_ringpos_injective (t : Bool) (i j i' j' : Int)
    (h : cartRingPos t i j = cartRingPos t i' j') : i = i' ∧ j = j' := by
  have h1 := cart_ringpos_left_inv t i j
  rw [h, cart_ringpos_left_inv] at h1
  exact ⟨(congrArg Prod.fst h1).symm, (congrArg Prod.snd h1).symm⟩

private theorem cart_positions_closed (t : Bool) (r : Int) (_hr : 1 ≤ r) :
    cartPositionsInRing t r = if t then (if r = 1 then 1 else 8 * (r - 1)) else 8 * (r - 1) + 4 := by
  cases t <;> simp only [cartPositionsInRing, Bool.false_eq_true, if_false, if_true] <;> split <;> omega

/-- **every (ring ≥ 1, 1 ≤ pos ≤ getPositionsInRing ring) is the numbering of a cell**: together with
injectivity, ring r holds exactly `getPositionsInRing r` cells numbered contiguously -/
theorem cart_ringpos_right_inv (t : Bool) (r p : Int) (hr : 1 ≤ r) (hp1 : 1 ≤ p)
    (hp2 : p ≤ cartPositionsInRing t r) :
    cartRingPos t (cartFromRingPos t r p).1 (cartFromRingPos t r p).2 = (r, p) := by
  rw [cart_positions_closed t r hr] at hp2
  cases t
  · simp only [Bool.false_eq_true, if_false] at hp2
    simp only [cartFromRingPos, Bool.false_eq_true, if_false]
    repeat' split
    all_goals (rw [crp_false]; simp only [hdist, Prod.mk.injEq])
    all_goals (repeat' split)
    all_goals omega
  · simp only [if_true] at hp2
    simp only [cartFromRingPos, if_true]
    split at hp2
    all_goals (repeat' split)
    all_goals (rw [crp_true]; simp only [iabs, Prod.mk.injEq])
    all_goals (repeat' split)
    all_goals omega

/-! ### least number of rings -/

private def accOf (t : Bool) (ring : Int) : Int := if ring = 1 then 0 else cartTotal t (ring - 1)

private theorem accOf_succ (t : Bool) (ring : Int) (h : 1 ≤ ring) :
    accOf t (ring + 1) = accOf t ring + cartPositionsInRing t ring := by
  have h1 : ring + 1 ≠ 1 := by omega
  cases t <;> simp only [accOf, cartTotal, cartPositionsInRing, h1, if_false, if_true, Bool.false_eq_true] <;>
    split <;> rename_i hr
  · subst hr; norm_num
  · have : ring + 1 - 1 = ring := by omega
    rw [this]; ring
  · subst hr; norm_num
  · have : ring + 1 - 1 = ring := by omega
    rw [this]; ring

private theorem positions_pos (t : Bool) (ring : Int) (h : 1 ≤ ring) : 1 ≤ cartPositionsInRing t ring := by
  cases t <;> simp only [cartPositionsInRing, if_false, if_true, Bool.false_eq_true] <;> split <;> omega

private theorem go_spec (t : Bool) (n : Int) (fuel : Nat) (ring acc : Int) (h1 : 1 ≤ ring)
    (hacc : acc = accOf t ring) (hlt : acc < n) (hfuel : n - acc ≤ fuel) :
    ring ≤ cartMinRingsGo t n fuel ring acc ∧ n ≤ accOf t (cartMinRingsGo t n fuel ring acc + 1) ∧
      accOf t (cartMinRingsGo t n fuel ring acc) < n := by
  induction fuel generalizing ring acc with
  | zero => omega
  | succ fuel ih =>
    simp only [cartMinRingsGo]
    have hs := accOf_succ t ring h1
    have hp := positions_pos t ring h1
    split
    · rename_i hge
      refine ⟨le_refl _, ?_, ?_⟩
      · rw [hs, ← hacc]; exact hge
      · rw [← hacc]; exact hlt
    · rename_i hnge
      have := ih (ring + 1) (acc + cartPositionsInRing t ring) (by omega) (by rw [hs, hacc]) (by omega)
        (by push_cast at hfuel; omega)
      refine ⟨by omega, this.2.1, this.2.2⟩

private theorem cartTotal_mono (t : Bool) (r m : Int) (h1 : 1 ≤ r) (h2 : r ≤ m) :
    cartTotal t r ≤ cartTotal t m := by
  cases t <;> simp only [cartTotal, if_false, if_true, Bool.false_eq_true]
  · exact Int.mul_le_mul (by omega) (by omega) (by omega) (by omega)
  · exact Int.mul_le_mul (by omega) (by omega) (by omega) (by omega)

/-- the number of cells in rings 1..r is the sum of the ring sizes -/
theorem cartTotal_succ (t : Bool) (r : Int) (h : 1 ≤ r) :
    cartTotal t (r + 1) = cartTotal t r + cartPositionsInRing t (r + 1) := by
  have := accOf_succ t (r + 1) (by omega)
  have h1 : r + 1 + 1 ≠ 1 := by omega
  have h2 : r + 1 ≠ 1 := by omega
  have e1 : r + 1 + 1 - 1 = r + 1 := by omega
  have e2 : r + 1 - 1 = r := by omega
  simpa only [accOf, h1, h2, if_false, e1, e2] using this

theorem cartTotal_one (t : Bool) : cartTotal t 1 = cartPositionsInRing t 1 := by
  cases t <;> decide

/-- **`getMinimumRings(n)` is the least number of rings holding n cells** (n ≥ 1) -/
theorem cart_min_rings_least (t : Bool) (n : Int) (hn : 1 ≤ n) :
    1 ≤ cartMinRings t n ∧ n ≤ cartTotal t (cartMinRings t n) ∧
      ∀ r, 1 ≤ r → r < cartMinRings t n → cartTotal t r < n := by
  have hs := go_spec t n (n.toNat + 1) 1 0 (le_refl _) (by simp [accOf]) (by omega) (by push_cast; omega)
  unfold cartMinRings
  generalize cartMinRingsGo t n (n.toNat + 1) 1 0 = m at *
  obtain ⟨h1, h2, h3⟩ := hs
  have hm : m + 1 ≠ 1 := by omega
  simp only [accOf, hm, if_false] at h2
  have e : m + 1 - 1 = m := by omega
  rw [e] at h2
  refine ⟨h1, h2, ?_⟩
  intro r hr1 hr2
  have hm1 : m ≠ 1 := by omega
  simp only [accOf, hm1, if_false] at h3
  exact lt_of_le_of_lt (cartTotal_mono t r (m - 1) hr1 (by omega)) h3

/-! ### step dimensions: the dot product is linear in the indices -/

/-- additivity of the step dot product (equal lengths not needed: both sides truncate alike) -/
theorem dotv_add (r x y : List Rat) (h : x.length = y.length) :
    dotv r (List.zipWith (· + ·) x y) = dotv r x + dotv r y := by
  induction r generalizing x y with
  | nil => simp [dotv]
  | cons a as ih =>
    cases x with
    | nil => cases y with
      | nil => simp [dotv]
      | cons _ _ => simp at h
    | cons b bs => cases y with
      | nil => simp at h
      | cons c cs =>
        simp only [List.zipWith_cons_cons, dotv]
        rw [ih bs cs (by simpa using h)]; ring

theorem dotv_smul (r x : List Rat) (c : Rat) : dotv r (x.map (c * ·)) = c * dotv r x := by
  induction r generalizing x with
  | nil => simp [dotv]
  | cons a as ih =>
    cases x with
    | nil => simp [dotv]
    | cons b bs => simp only [List.map_cons, dotv]; rw [ih]; ring

/-- shifting every index by c shifts the dot product by c·(row sum) -/
theorem dotv_shift (r x : List Rat) (c : Rat) :
    dotv r (x.map (· + c)) = dotv r x + c * dotv r (x.map (fun _ => 1)) := by
  induction r generalizing x with
  | nil => simp [dotv]
  | cons a as ih =>
    cases x with
    | nil => simp [dotv]
    | cons b bs => simp only [List.map_cons, dotv]; rw [ih]; ring

private theorem map_sub_add (x : List Rat) : (x.map (· + 1)).map (· - 1) = x := by
  induction x with
  | nil => rfl
  | cons a as ih => simp only [List.map_cons, ih]; congr 1; ring

private theorem avg_replicate (n : Nat) (p q : Rat) :
    List.zipWith (fun x y => (x + y) / 2) (List.replicate n p) (List.replicate n q) =
      List.replicate n ((p + q) / 2) := by
  induction n with
  | zero => rfl
  | succ n ih => simp [List.replicate_succ, ih]

/-- **step dimensions: the cell centre is the midpoint of cell base and cell top**
(`top(idx) = base(idx + 1)` by definition of `getCellTop`), for 1-D and 2-D unit steps. -/
theorem steps_centre_is_midpoint (s : Steps) (idx c b t : List Rat)
    (hc : centroidBySteps s idx = some c) (hb : meshBaseBySteps s idx = some b)
    (ht : meshBaseBySteps s (idx.map (· + 1)) = some t) :
    c = List.zipWith (fun x y => (x + y) / 2) b t := by
  have hsub : idx.map (· - 1) = idx.map (· + (-1)) := by
    apply List.map_congr_left; intro a _; ring
  cases s with
  | flat v =>
    simp only [meshBaseBySteps, centroidBySteps, dot, map_sub_add, List.length_map] at hc hb ht
    split at hc
    · rename_i hl
      simp only [hl, if_true, Option.map_some, Option.bind_some, Option.some.injEq, List.length_map,
        Option.bind_eq_bind] at hc hb ht
      subst hc; subst hb; subst ht
      rw [avg_replicate, avg_replicate, avg_replicate, hsub, dotv_shift, dotv_shift]
      congr 1; ring
    · simp at hc
  | mat rows =>
    simp only [meshBaseBySteps, centroidBySteps, map_sub_add, List.length_map] at hc hb ht
    split at hc
    · rename_i hl
      simp only [hl, and_self, if_true, Option.bind_some, Option.some.injEq, Option.bind_eq_bind] at hc hb ht
      subst hc; subst hb; subst ht
      rw [hsub]
      clear hl
      induction rows with
      | nil => rfl
      | cons r rs ih =>
        simp only [List.map_cons, List.zipWith_cons_cons]
        rw [← ih, dotv_shift, dotv_shift]
        congr 1; ring
    · simp at hc

/-- **bounds dimensions: centre = midpoint of the two enclosing bounds = (base + top)/2**, and the
centre exists exactly for 0 ≤ k with k + 1 inside the bounds -/
theorem bounds_centre_is_midpoint (k : Int) (bnd : List Rat) (c lo hi : Rat)
    (hc : centroidByBounds k bnd = some c) (hlo : meshBaseByBounds k bnd = some lo)
    (hhi : meshBaseByBounds (k + 1) bnd = some hi) : c = (lo + hi) / 2 := by
  simp only [centroidByBounds, meshBaseByBounds] at hc hlo hhi
  split at hc
  · simp at hc
  · rename_i hk
    have hk1 : ¬ (k + 1 < 0) := by omega
    simp only [hk, hk1, if_false] at hlo hhi
    simp only [hlo, hhi, Option.bind_eq_bind, Option.bind_some, Option.some.injEq] at hc
    rw [← hc]; ring

theorem bounds_centre_defined_iff (k : Int) (bnd : List Rat) :
    (centroidByBounds k bnd).isSome = true ↔ 0 ≤ k ∧ k + 1 < bnd.length := by
  simp only [centroidByBounds]
  split
  · simp; omega
  · rename_i hk
    constructor
    · intro h
      cases h1 : bnd[(k + 1).toNat]? with
      | none => simp [h1] at h
      | some v =>
        have := (List.getElem?_eq_some_iff.mp h1).1
        omega
    · intro ⟨h0, h1⟩
      have a1 : (k + 1).toNat < bnd.length := by omega
      have a0 : k.toNat < bnd.length := by omega
      simp [List.getElem?_eq_getElem a1, List.getElem?_eq_getElem a0]

/-! ### reduce round trip -/

/-- well-formed live grid: three bounds entries and an offset of length 3; unit steps either 1-D with
one entry per step dimension, or a square-consistent 2-D matrix on a grid WITHOUT bounds dimensions -/
def WF (g : G) : Prop :=
  g.bounds.length = 3 ∧ g.offset.length = 3 ∧
  match g.steps with
  | .flat v => v.length = (stepDims g.bounds).length
  | .mat m => (stepDims g.bounds).length = 3 ∧ m.length = 3 ∧ ∀ r ∈ m, r.length = (m.headD []).length

private theorem all_zero_eq (o : List Rat) (h : o.length = 3) (hz : o.all (· = 0) = true) : o = [0, 0, 0] := by
  match o, h with
  | [a, b, c], _ =>
    simp only [List.all_cons, List.all_nil, Bool.and_true, Bool.and_eq_true, decide_eq_true_eq] at hz
    obtain ⟨rfl, rfl, rfl⟩ := hz; rfl

private theorem len_cases {α} (v : List α) (n : Nat) (h : v.length = n) (hn : n ≤ 3) :
    (n = 0 ∧ v = []) ∨ (n = 1 ∧ ∃ x, v = [x]) ∨ (n = 2 ∧ ∃ x y, v = [x, y]) ∨
      (n = 3 ∧ ∃ x y z, v = [x, y, z]) := by
  match v, h with
  | [], h => left; exact ⟨h.symm, rfl⟩
  | [x], h => right; left; exact ⟨h.symm, x, rfl⟩
  | [x, y], h => right; right; left; exact ⟨h.symm, x, y, rfl⟩
  | [x, y, z], h => right; right; right; exact ⟨h.symm, x, y, z, rfl⟩
  | _ :: _ :: _ :: _ :: _, h => simp at h; omega

/-- **a grid rebuilt from its `reduce()` arguments is the same grid** (same live state, hence the same
coordinates, bases, tops and metadata for every index) -/
theorem reduce_roundtrip (g : G) (h : WF g) : ∃ a, reduce g = some a ∧ build a = some g := by
  obtain ⟨hb, ho, hs⟩ := h
  obtain ⟨steps, bounds, limits, offset, geom, sym⟩ := g
  simp only [] at hb ho hs
  have hoff : (if ∀ x ∈ offset, x = 0 then (none : Option (List Rat)) else some offset).getD [0, 0, 0] = offset := by
    split
    · rename_i hz
      have : offset.all (· = 0) = true := by simpa using hz
      simp [all_zero_eq offset ho this]
    · rfl
  match bounds, hb with
  | [b0, b1, b2], _ =>
    cases steps with
    | flat v =>
      cases b0 <;> cases b1 <;> cases b2 <;>
        simp [stepDims, List.range, List.range.loop, -List.length_eq_zero_iff] at hs <;>
        rcases len_cases v _ hs (by decide) with ⟨h0, rfl⟩ | ⟨h0, x, rfl⟩ | ⟨h0, x, y, rfl⟩ | ⟨h0, x, y, z, rfl⟩ <;>
        (first
          | (exfalso; omega)
          | (refine ⟨_, rfl, ?_⟩
             simp [build, npArray, allScalars, allVecs, selectAt, stepDims, List.range, List.range.loop, hoff]))
    | mat m =>
      obtain ⟨h3, hm, hrows⟩ := hs
      cases b0 <;> cases b1 <;> cases b2 <;> simp [stepDims, List.range, List.range.loop] at h3
      rcases len_cases m _ hm (by decide) with ⟨h0, rfl⟩ | ⟨h0, x, rfl⟩ | ⟨h0, x, y, rfl⟩ | ⟨h0, x, y, z, rfl⟩ <;>
        (first
          | (exfalso; omega)
          | (refine ⟨_, rfl, ?_⟩
             simp at hrows
             simp [build, npArray, allScalars, allVecs, selectAt, stepDims, List.range, List.range.loop, hoff, hrows]))

/-- the defect recorded as finding `grid-reduce-mixed-step-bounds`: with a 2-D step matrix and an
axial bounds dimension the reduced arguments cannot be turned back into a grid -/
theorem reduce_mixed_not_rebuildable (r0 r1 : List Rat) (bz : List Rat) (limits : List (Int × Int))
    (offset : List Rat) (geom sym : String) :
    ∃ a, reduce { steps := .mat [r0, r1], bounds := [none, none, some bz], limits := limits,
                  offset := offset, geom := geom, sym := sym } = some a ∧ build a = none := by
  refine ⟨_, rfl, ?_⟩
  simp [build, npArray, allScalars, allVecs]

/-! ### the grid families armi builds: coordinates at grid level, changePitch -/

/-- the pure-step grid built by `CartesianGrid.fromRectangle` -/
def cartGrid (w h : Rat) (off : List Rat) (limits : List (Int × Int)) (geom sym : String) : G :=
  { steps := .mat [[w, 0, 0], [0, h, 0], [0, 0, 0]], bounds := [none, none, none], limits := limits,
    offset := off, geom := geom, sym := sym }

/-- the pure-step grid built by `HexGrid.fromPitch` -/
def hexGrid (s3 pitch : Rat) (cu : Bool) (off : List Rat) (limits : List (Int × Int)) (geom sym : String) : G :=
  { steps := .mat (hexRawUnitSteps s3 pitch cu), bounds := [none, none, none], limits := limits,
    offset := off, geom := geom, sym := sym }

/-- the bounds-only grid built by `AxialGrid` -/
def axialGrid (bz : List Rat) (off : List Rat) (limits : List (Int × Int)) : G :=
  { steps := .flat [0, 0], bounds := [none, none, some bz], limits := limits,
    offset := off, geom := "", sym := "" }

theorem cart_coords (w h ox oy oz : Rat) (limits geom sym) (i j k : Int) :
    getCoordinates (cartGrid w h [ox, oy, oz] limits geom sym) [i, j, k] =
      some [w * i + ox, h * j + oy, oz] := by
  simp [getCoordinates, evaluateMesh, cartGrid, stepDims, boundDims, selectAt, centroidBySteps, dotv,
    scatter, List.range, List.range.loop]

theorem cart_base_top (w h ox oy oz : Rat) (limits geom sym) (i j k : Int) :
    getCellBase (cartGrid w h [ox, oy, oz] limits geom sym) [i, j, k] =
      some [w * i - w / 2 + ox, h * j - h / 2 + oy, oz] ∧
    getCellTop (cartGrid w h [ox, oy, oz] limits geom sym) [i, j, k] =
      some [w * i + w / 2 + ox, h * j + h / 2 + oy, oz] := by
  constructor <;>
  simp [getCellBase, getCellTop, evaluateMesh, cartGrid, stepDims, boundDims, selectAt, meshBaseBySteps,
    centroidBySteps, dotv, scatter, List.range, List.range.loop] <;>
  refine ⟨?_, ?_⟩ <;> ring


/-- **hex grid coordinates are the stated affine function of the indices** (s3 stands for √3):
flats up (x, y) = ((3/2)(p/s3)·i, (p/2)·i + p·j); corners up ((p/2)(i − j), (3/2)(p/s3)(i + j)) -/
theorem hex_coords (s3 p ox oy oz : Rat) (cu : Bool) (limits geom sym) (i j k : Int) :
    getCoordinates (hexGrid s3 p cu [ox, oy, oz] limits geom sym) [i, j, k] =
      some (if cu then [p / 2 * i + -p / 2 * j + ox, 3 / 2 * (p / s3) * i + 3 / 2 * (p / s3) * j + oy, oz]
            else [3 / 2 * (p / s3) * i + ox, p / 2 * i + p * j + oy, oz]) := by
  cases cu <;>
  simp [getCoordinates, evaluateMesh, hexGrid, hexRawUnitSteps, stepDims, boundDims, selectAt,
    centroidBySteps, dotv, scatter, List.range, List.range.loop]

/-- **`HexGrid.changePitch` rescales the coordinates by new/old and changes nothing else**
(zero offset, as built by `fromPitch`) -/
theorem hex_changePitch_scales (s3 p p' : Rat) (cu : Bool) (limits geom sym) (i j k : Int)
    (hp : p ≠ 0) (hs3 : s3 ≠ 0) :
    ∃ g', hexChangePitch s3 p' (hexGrid s3 p cu [0, 0, 0] limits geom sym) = some g' ∧
      g' = hexGrid s3 p' cu [0, 0, 0] limits geom sym ∧
      ∃ x y, getCoordinates (hexGrid s3 p cu [0, 0, 0] limits geom sym) [i, j, k] = some [x, y, 0] ∧
        getCoordinates g' [i, j, k] = some [p' / p * x, p' / p * y, 0] := by
  refine ⟨hexGrid s3 p' cu [0, 0, 0] limits geom sym, ?_, rfl, ?_⟩
  · cases cu <;>
    simp [hexChangePitch, hexCornersUp, hexGrid, hexRawUnitSteps, selectAt, stepDims, List.range,
      List.range.loop, hp]
  · rw [hex_coords, hex_coords]
    cases cu
    · refine ⟨_, _, rfl, ?_⟩
      simp only [Bool.false_eq_true, if_false, Option.some.injEq, List.cons.injEq, and_true]
      constructor <;> field_simp <;> ring
    · refine ⟨_, _, rfl, ?_⟩
      simp only [if_true, Option.some.injEq, List.cons.injEq, and_true]
      constructor <;> field_simp <;> ring

/-- **`CartesianGrid.changePitch` rescales x by xw/xwOld and y by yw/ywOld (offset included) and
changes nothing else** -/
theorem cart_changePitch_scales (w h xw yw ox oy : Rat) (limits geom sym) (i j k : Int)
    (hw : w ≠ 0) (hh : h ≠ 0) :
    ∃ g', cartChangePitch xw yw (cartGrid w h [ox, oy, 0] limits geom sym) = some g' ∧
      g' = cartGrid xw yw [ox * xw / w, oy * yw / h, 0] limits geom sym ∧
      getCoordinates g' [i, j, k] = some [xw / w * (w * i + ox), yw / h * (h * j + oy), 0] := by
  refine ⟨cartGrid xw yw [ox * xw / w, oy * yw / h, 0] limits geom sym, ?_, rfl, ?_⟩
  · simp [cartChangePitch, cartGrid, selectAt, stepDims, List.range, List.range.loop, hw, hh]
  · rw [cart_coords]
    simp only [Option.some.injEq, List.cons.injEq, and_true]
    constructor <;> field_simp

/-- axial grid: x, y are the offset only, z is the midpoint of the enclosing bounds plus offset -/
theorem axial_coords (bz : List Rat) (ox oy oz : Rat) (limits) (i j k : Int) (c : Rat)
    (hc : centroidByBounds k bz = some c) :
    getCoordinates (axialGrid bz [ox, oy, oz] limits) [i, j, k] = some [ox, oy, c + oz] := by
  simp [getCoordinates, evaluateMesh, axialGrid, stepDims, boundDims, selectAt, centroidBySteps, dot, dotv,
    scatter, List.range, List.range.loop, hc]

/-- an `AxialGrid` with at least one cell is axial-only; hex / Cartesian lattices spanning more
than one ring are not -/
theorem axial_isAxialOnly (bz : List Rat) (off) (h : 2 ≤ bz.length) :
    isAxialOnly (axialGrid bz off [(0, 1), (0, 1), (0, 1)]) = true := by
  simp [isAxialOnly, indexBounds, axialGrid]; omega

theorem lattice_not_axialOnly (steps off geom sym) (n : Int) :
    isAxialOnly { steps := steps, bounds := [none, none, none], limits := [(-n, n), (-n, n), (0, 1)],
                  offset := off, geom := geom, sym := sym } = false := by
  simp [isAxialOnly, indexBounds]

/-! ### nesting -/

/-- **global coordinates are the sum of the local coordinates along the whole parent chain** — every
ancestor contributes exactly once, whatever its kind (index locator in any grid, or a free
coordinate locator such as the grid-less origin of a top-level system) -/
theorem nested_coords_add (chain : List Loc) (hne : chain ≠ [])
    (hall : ∀ l ∈ chain, ∃ x y z, l.localCoords = some [x, y, z]) :
    ∃ x y z, globalCoords chain = some [x, y, z] ∧
      x = (chain.map (fun l => ((l.localCoords.getD [])[0]?).getD 0)).sum ∧
      y = (chain.map (fun l => ((l.localCoords.getD [])[1]?).getD 0)).sum ∧
      z = (chain.map (fun l => ((l.localCoords.getD [])[2]?).getD 0)).sum := by
  induction chain with
  | nil => exact absurd rfl hne
  | cons l rest ih =>
    obtain ⟨x, y, z, hl⟩ := hall l (List.mem_cons_self)
    cases rest with
    | nil =>
      refine ⟨x, y, z, ?_, ?_, ?_, ?_⟩ <;> simp [globalCoords, hl]
    | cons l2 rest2 =>
      obtain ⟨x', y', z', hg, hx, hy, hz⟩ := ih (by simp) (fun m hm => hall m (List.mem_cons_of_mem _ hm))
      refine ⟨x + x', y + y', z + z', ?_, ?_, ?_, ?_⟩
      · simp [globalCoords, hl, hg, vadd]
      · rw [hx]; simp [hl]
      · rw [hy]; simp [hl]
      · rw [hz]; simp [hl]

/-- **complete indices add the parent's indices only for an axial-only grid nested in a grid that is
not axial-only** (one level; a free-coordinate locator is the basis (0,0,0)) -/
theorem complete_indices_axial_only (g pg : G) (i j k pi pj pk : Int) :
    completeIndices (.index (some g) i j k) (some (.index (some pg) pi pj pk)) =
      if isAxialOnly g = true ∧ isAxialOnly pg = false
      then [((i + pi : Int) : Rat), ((j + pj : Int) : Rat), ((k + pk : Int) : Rat)]
      else [(i : Rat), (j : Rat), (k : Rat)] := by
  simp only [completeIndices, Loc.grid, addingIsValid, Loc.indices, vadd]
  by_cases h1 : isAxialOnly g = true <;> by_cases h2 : isAxialOnly pg = true <;> simp [h1, h2]

theorem complete_indices_top (g : Option G) (i j k : Int) :
    completeIndices (.index g i j k) none = [(i : Rat), (j : Rat), (k : Rat)] ∧
    (∀ x y z p, completeIndices (.coord g x y z) p = [0, 0, 0]) := by
  constructor
  · cases g <;> rfl
  · intro x y z p; rfl

/-! ### grid level: centre = (base + top)/2 for every mixture of step and bounds dimensions -/

local notation "avg" => (fun (x y : Rat) => (x + y) / 2)

private theorem set_zipWith (f : Rat → Rat → Rat) (a1 a2 : List Rat) (d : Nat) (x y : Rat) :
    (List.zipWith f a1 a2).set d (f x y) = List.zipWith f (a1.set d x) (a2.set d y) := by
  induction a1 generalizing a2 d with
  | nil => simp
  | cons h t ih =>
    cases a2 with
    | nil => simp
    | cons h2 t2 =>
      cases d with
      | zero => simp
      | succ d => simp [ih]

private theorem scatter_avg (ds : List Nat) (a1 a2 v1 v2 : List Rat) (hv : v1.length = v2.length) :
    scatter (List.zipWith avg a1 a2) ds (List.zipWith avg v1 v2) =
      List.zipWith avg (scatter a1 ds v1) (scatter a2 ds v2) := by
  induction ds generalizing a1 a2 v1 v2 with
  | nil => simp [scatter]
  | cons d ds ih =>
    cases v1 with
    | nil => cases v2 with
      | nil => simp [scatter]
      | cons _ _ => simp at hv
    | cons x xs => cases v2 with
      | nil => simp at hv
      | cons y ys =>
        simp only [List.zipWith_cons_cons, scatter]
        rw [set_zipWith, ih _ _ _ _ (by simpa using hv)]

private theorem add_avg (b t off : List Rat) :
    List.zipWith (· + ·) (List.zipWith avg b t) off =
      List.zipWith avg (List.zipWith (· + ·) b off) (List.zipWith (· + ·) t off) := by
  induction b generalizing t off with
  | nil => simp
  | cons x xs ih =>
    cases t with
    | nil => simp
    | cons y ys =>
      cases off with
      | nil => simp
      | cons o os =>
        simp only [List.zipWith_cons_cons, ih]
        congr 1; ring

private theorem scatter_length (acc : List Rat) (ds : List Nat) (vs : List Rat) :
    (scatter acc ds vs).length = acc.length := by
  induction ds generalizing acc vs with
  | nil => simp [scatter]
  | cons d ds ih =>
    cases vs with
    | nil => simp [scatter]
    | cons v vs => simp [scatter, ih]

private theorem mapM_avg (bd : List Nat) (f g h : Nat → Option Rat) (xs ys zs : List Rat)
    (hf : bd.mapM f = some xs) (hg : bd.mapM g = some ys) (hh : bd.mapM h = some zs)
    (hpt : ∀ d x y z, f d = some x → g d = some y → h d = some z → x = avg y z) :
    xs = List.zipWith avg ys zs ∧ ys.length = zs.length := by
  induction bd generalizing xs ys zs with
  | nil =>
    simp at hf hg hh
    subst hf; subst hg; subst hh; simp
  | cons d ds ih =>
    simp only [List.mapM_cons, Option.pure_def, Option.bind_eq_bind] at hf hg hh
    cases hfd : f d with
    | none => simp [hfd] at hf
    | some x =>
      cases hgd : g d with
      | none => simp [hgd] at hg
      | some y =>
        cases hhd : h d with
        | none => simp [hhd] at hh
        | some z =>
          cases hfs : ds.mapM f with
          | none => simp [hfd, hfs] at hf
          | some xs' =>
            cases hgs : ds.mapM g with
            | none => simp [hgd, hgs] at hg
            | some ys' =>
              cases hhs : ds.mapM h with
              | none => simp [hhd, hhs] at hh
              | some zs' =>
                simp [hfd, hfs] at hf; simp [hgd, hgs] at hg; simp [hhd, hhs] at hh
                subst hf; subst hg; subst hh
                obtain ⟨e1, e2⟩ := ih xs' ys' zs' hfs hgs hhs
                simp only [List.zipWith_cons_cons, List.length_cons]
                exact ⟨by rw [hpt d x y z hfd hgd hhd, e1], by omega⟩


private theorem mapM_getElem_map (idx : List Int) (sd : List Nat) (f : Int → Int) :
    List.mapM (fun d => (idx[d]?).map f) sd = (List.mapM (fun d => idx[d]?) sd).map (List.map f) := by
  induction sd with
  | nil => simp
  | cons d ds ih =>
    simp only [List.mapM_cons, Option.pure_def, Option.bind_eq_bind, ih]
    cases idx[d]? <;> simp
    cases List.mapM (fun d => idx[d]?) ds <;> simp

private theorem selectAt_map (idx : List Int) (sd : List Nat) (f : Int → Int) :
    selectAt (idx.map f) sd = (selectAt idx sd).map (List.map f) := by
  simp only [selectAt, List.getElem?_map]
  exact mapM_getElem_map idx sd f

private theorem avg_replicate' (n : Nat) (p q : Rat) :
    List.zipWith avg (List.replicate n p) (List.replicate n q) = List.replicate n ((p + q) / 2) := by
  induction n with
  | zero => rfl
  | succ n ih => simp [List.replicate_succ, ih]

private def stepsLen (s : Steps) (n : Nat) : Nat :=
  match s with
  | .flat _ => n
  | .mat rows => rows.length

private theorem meshBase_length (s : Steps) (x r : List Rat) (h : meshBaseBySteps s x = some r) :
    r.length = stepsLen s x.length := by
  cases s with
  | flat v =>
    simp only [meshBaseBySteps, centroidBySteps, dot, List.length_map] at h
    split at h
    · rename_i hl
      simp only [Option.map_some, Option.bind_eq_bind, Option.bind_some, Option.some.injEq] at h
      subst h; simp [stepsLen]
    · simp at h
  | mat rows =>
    simp only [meshBaseBySteps, centroidBySteps, List.length_map] at h
    split at h
    · simp only [Option.bind_eq_bind, Option.bind_some, Option.some.injEq] at h
      subst h; simp [stepsLen]
    · simp at h

/-- the pieces of a successful `_evaluateMesh` -/
private theorem evaluateMesh_some (g : G) (idx : List Int) stepOp boundOp (r : List Rat)
    (h : evaluateMesh g idx stepOp boundOp = some r) :
    ∃ bc sidx sc,
      (boundDims g.bounds).mapM (fun d => (g.bounds.getD d none).bind (fun b => (idx[d]?).bind (fun i => boundOp i b))) = some bc ∧
      selectAt idx (stepDims g.bounds) = some sidx ∧
      stepOp g.steps (sidx.map (fun (z : Int) => (z : Rat))) = some sc ∧
      r = List.zipWith (· + ·)
        (scatter (scatter (List.replicate idx.length 0) (stepDims g.bounds) sc) (boundDims g.bounds) bc) g.offset := by
  simp only [evaluateMesh, Option.bind_eq_bind, Option.bind_eq_some_iff] at h
  obtain ⟨bc, hbc, sidx, hs, sc, hsc, h⟩ := h
  split at h
  · simp at h
  · split at h
    · simp at h
    · simp only [Option.some.injEq] at h
      exact ⟨bc, sidx, sc, hbc, hs, hsc, h.symm⟩

/-- **a cell's centre is the midpoint of its base and its top, in every dimension of every grid**
(any mixture of step and bounds dimensions, any offset): whenever the three are defined,
`getCoordinates idx = (getCellBase idx + getCellTop idx) / 2` componentwise; `getCellTop idx` is
`getCellBase (idx + 1)` by definition. -/
theorem grid_centre_is_midpoint (g : G) (idx : List Int) (c b t : List Rat)
    (hc : getCoordinates g idx = some c) (hb : getCellBase g idx = some b)
    (ht : getCellTop g idx = some t) :
    c = List.zipWith (fun x y => (x + y) / 2) b t := by
  obtain ⟨bc1, s1, sc1, hb1, hs1, hst1, rfl⟩ := evaluateMesh_some _ _ _ _ _ hc
  obtain ⟨bc2, s2, sc2, hb2, hs2, hst2, rfl⟩ := evaluateMesh_some _ _ _ _ _ hb
  obtain ⟨bc3, s3, sc3, hb3, hs3, hst3, rfl⟩ := evaluateMesh_some _ _ _ _ _ ht
  rw [hs1] at hs2; cases hs2
  rw [selectAt_map, hs1] at hs3
  simp only [Option.map_some, Option.some.injEq] at hs3
  subst hs3
  have hcast : (List.map (fun (z : Int) => (z : Rat)) (List.map (fun x => x + 1) s1)) =
      (List.map (fun (z : Int) => (z : Rat)) s1).map (· + 1) := by
    simp only [List.map_map]; apply List.map_congr_left; intro a _; simp
  rw [hcast] at hst3
  have hsteps := steps_centre_is_midpoint _ _ _ _ _ hst1 hst2 hst3
  have hlen23 : sc2.length = sc3.length := by
    rw [meshBase_length _ _ _ hst2, meshBase_length _ _ _ hst3]
    simp
  have hbnd := mapM_avg _ _ _ _ bc1 bc2 bc3 hb1 hb2 hb3 (by
    intro d x y z h1 h2 h3
    simp only [List.getElem?_map] at h3
    cases hbd : g.bounds.getD d none with
    | none => simp only [hbd, Option.bind_none] at h1; cases h1
    | some bb =>
      cases hi : idx[d]? with
      | none => simp only [hbd, hi, Option.bind_some, Option.bind_none] at h1; cases h1
      | some i =>
        simp only [hbd, hi, Option.bind_some, Option.map_some] at h1 h2 h3
        exact bounds_centre_is_midpoint i bb x y z h1 h2 h3)
  have hz : List.replicate idx.length (0 : Rat) =
      List.zipWith avg (List.replicate idx.length 0) (List.replicate (List.map (fun x => x + 1) idx).length 0) := by
    rw [List.length_map, avg_replicate']; simp
  conv_lhs => rw [hz, hsteps, hbnd.1]
  rw [scatter_avg _ _ _ _ _ hlen23, scatter_avg _ _ _ _ _ hbnd.2, add_avg]

/-- **step dimensions: the centre is an additive (hence, with the offset, affine) function of the
indices** — for any unit-step matrix: centroid(x + y) = centroid(x) + centroid(y) -/
theorem steps_affine (rows : List (List Rat)) (x y cx cy : List Rat) (hxy : x.length = y.length)
    (hx : centroidBySteps (.mat rows) x = some cx) (hy : centroidBySteps (.mat rows) y = some cy) :
    centroidBySteps (.mat rows) (List.zipWith (· + ·) x y) = some (List.zipWith (· + ·) cx cy) := by
  have key : ∀ rs : List (List Rat), List.map (fun r => dotv r (List.zipWith (· + ·) x y)) rs =
      List.zipWith (· + ·) (List.map (fun r => dotv r x) rs) (List.map (fun r => dotv r y) rs) := by
    intro rs
    induction rs with
    | nil => rfl
    | cons r rs ih => simp only [List.map_cons, List.zipWith_cons_cons, ih, dotv_add r x y hxy]
  simp only [centroidBySteps] at hx hy ⊢
  split at hx
  · rename_i h1
    split at hy
    · simp only [Option.some.injEq] at hx hy
      subst hx; subst hy
      have hl : (List.zipWith (· + ·) x y).length = x.length := by simp [hxy]
      rw [hl, if_pos h1, key]
    · simp at hy
  · simp at hx

/-- the all-bounds grid built by `ThetaRZGrid` -/
def boundsGrid (b0 b1 b2 : List Rat) (off : List Rat) (limits : List (Int × Int)) (geom sym : String) : G :=
  { steps := .flat [], bounds := [some b0, some b1, some b2], limits := limits,
    offset := off, geom := geom, sym := sym }

/-- **θ-R-Z (all-bounds) grid: every native coordinate is the midpoint of the two enclosing bounds plus
the offset**, and is defined exactly when all three indices are inside their bounds -/
theorem bounds_grid_coords (b0 b1 b2 : List Rat) (ox oy oz : Rat) (limits geom sym) (i j k : Int)
    (c0 c1 c2 : Rat) (h0 : centroidByBounds i b0 = some c0) (h1 : centroidByBounds j b1 = some c1)
    (h2 : centroidByBounds k b2 = some c2) :
    getCoordinates (boundsGrid b0 b1 b2 [ox, oy, oz] limits geom sym) [i, j, k] =
      some [c0 + ox, c1 + oy, c2 + oz] := by
  simp [getCoordinates, evaluateMesh, boundsGrid, stepDims, boundDims, selectAt, centroidBySteps, dot, dotv,
    scatter, List.range, List.range.loop, h0, h1, h2]

example : WF (boundsGrid [0, 1] [0, 2, 5] [0, 10] [0, 0, 0] [(0, 1), (0, 1), (0, 1)] "thetarz" "full") := by
  refine ⟨rfl, rfl, ?_⟩; simp [boundsGrid, stepDims, List.range, List.range.loop]

/-! ### θ-R-Z grids -/

/-- **polar → Cartesian conversion, over any commutative ring**: for parameters c, s with c² + s² = 1
(cos θ, sin θ) the point (r·c, r·s) lies at distance r from the axis (x² + y² = r²) and on the ray of
direction (c, s) (x·s = y·c). -/
theorem polar_on_circle {K : Type} [CommRing K] (r c s : K) (h : c * c + s * s = 1) :
    (r * c) * (r * c) + (r * s) * (r * s) = r * r ∧ (r * c) * s = (r * s) * c := by
  constructor
  · have : (r * c) * (r * c) + (r * s) * (r * s) = r * r * (c * c + s * s) := by ring
    rw [this, h]; ring
  · ring

/-- **`ThetaRZGrid.getCoordinates`**: it is defined exactly when the mesh coordinates (θ, r, z) exist and
0 ≤ θ ≤ τ; the native form returns (θ, r, z) unchanged, the Cartesian form (r·cos θ, r·sin θ, z). -/
theorem trz_coordinates_spec (tau cs sn : Rat) (g : G) (idx : List Int) (v : List Rat) (native : Bool) :
    trzGetCoordinates tau cs sn native g idx = some v ↔
      ∃ θ r z, getCoordinates g idx = some [θ, r, z] ∧ 0 ≤ θ ∧ θ ≤ tau ∧
        v = if native then [θ, r, z] else [r * cs, r * sn, z] := by
  unfold trzGetCoordinates
  constructor
  · intro h
    split at h
    · rename_i θ r z hm
      split at h
      · rename_i hr
        refine ⟨θ, r, z, hm, hr.1, hr.2, ?_⟩
        cases native <;> simp at h ⊢ <;> exact h.symm
      · simp at h
    · simp at h
  · rintro ⟨θ, r, z, hm, h0, h1, rfl⟩
    rw [hm]
    simp only [h0, h1, and_self, if_true]
    cases native <;> rfl

/-- the Cartesian image keeps z, lies at radius r and on the θ ray (cos² + sin² = 1 assumed of the
parameters) -/
theorem trz_xyz_on_circle (tau cs sn : Rat) (hcs : cs * cs + sn * sn = 1) (g : G) (idx : List Int)
    (θ r z : Rat) (hn : trzGetCoordinates tau cs sn true g idx = some [θ, r, z]) :
    ∃ x y, trzGetCoordinates tau cs sn false g idx = some [x, y, z] ∧ x * x + y * y = r * r ∧ x * sn = y * cs := by
  obtain ⟨θ', r', z', hm, h0, h1, hv⟩ := (trz_coordinates_spec tau cs sn g idx _ true).mp hn
  simp only [if_true, List.cons.injEq, and_true] at hv
  obtain ⟨rfl, rfl, rfl⟩ := hv
  refine ⟨θ * 0 + r * cs, r * sn, ?_, ?_, ?_⟩
  · rw [(trz_coordinates_spec tau cs sn g idx _ false)]
    exact ⟨θ, r, z, hm, h0, h1, by simp⟩
  · have := (polar_on_circle r cs sn hcs).1; simpa using this
  · have := (polar_on_circle r cs sn hcs).2; simpa using this

/-- base and top of an all-bounds grid cell: the lower / upper bound in every dimension plus offset -/
theorem bounds_grid_base_top (b0 b1 b2 : List Rat) (ox oy oz : Rat) (limits geom sym) (i j k : Int)
    (l0 l1 l2 u0 u1 u2 : Rat)
    (hl0 : meshBaseByBounds i b0 = some l0) (hl1 : meshBaseByBounds j b1 = some l1)
    (hl2 : meshBaseByBounds k b2 = some l2) (hu0 : meshBaseByBounds (i + 1) b0 = some u0)
    (hu1 : meshBaseByBounds (j + 1) b1 = some u1) (hu2 : meshBaseByBounds (k + 1) b2 = some u2) :
    getCellBase (boundsGrid b0 b1 b2 [ox, oy, oz] limits geom sym) [i, j, k] = some [l0 + ox, l1 + oy, l2 + oz] ∧
    getCellTop (boundsGrid b0 b1 b2 [ox, oy, oz] limits geom sym) [i, j, k] = some [u0 + ox, u1 + oy, u2 + oz] := by
  constructor <;>
  simp [getCellBase, getCellTop, evaluateMesh, boundsGrid, stepDims, boundDims, selectAt, meshBaseBySteps,
    centroidBySteps, dot, dotv, scatter, List.range, List.range.loop, hl0, hl1, hl2, hu0, hu1, hu2]

/-- **θ-R-Z cell in native coordinates: base ≤ centre ≤ top in every dimension, the centre being the
midpoint**, whenever the bounds around the cell are ordered -/
theorem trz_native_base_centre_top (b0 b1 b2 : List Rat) (ox oy oz : Rat) (limits geom sym) (i j k : Int)
    (l0 l1 l2 u0 u1 u2 : Rat)
    (hl0 : meshBaseByBounds i b0 = some l0) (hl1 : meshBaseByBounds j b1 = some l1)
    (hl2 : meshBaseByBounds k b2 = some l2) (hu0 : meshBaseByBounds (i + 1) b0 = some u0)
    (hu1 : meshBaseByBounds (j + 1) b1 = some u1) (hu2 : meshBaseByBounds (k + 1) b2 = some u2)
    (h0 : l0 ≤ u0) (h1 : l1 ≤ u1) (h2 : l2 ≤ u2) :
    ∃ c0 c1 c2, getCoordinates (boundsGrid b0 b1 b2 [ox, oy, oz] limits geom sym) [i, j, k] = some [c0, c1, c2] ∧
      c0 = (l0 + u0) / 2 + ox ∧ c1 = (l1 + u1) / 2 + oy ∧ c2 = (l2 + u2) / 2 + oz ∧
      l0 + ox ≤ c0 ∧ c0 ≤ u0 + ox ∧ l1 + oy ≤ c1 ∧ c1 ≤ u1 + oy ∧ l2 + oz ≤ c2 ∧ c2 ≤ u2 + oz := by
  have cen : ∀ (n : Int) (b : List Rat) (l u : Rat), meshBaseByBounds n b = some l →
      meshBaseByBounds (n + 1) b = some u → centroidByBounds n b = some ((l + u) / 2) := by
    intro n b l u hl hu
    simp only [meshBaseByBounds, centroidByBounds] at *
    split at hl
    · simp at hl
    · rename_i hn
      have hn1 : ¬ (n + 1 < 0) := by omega
      simp only [hn1, if_false] at hu
      simp only [hn, if_false, hl, hu, Option.bind_eq_bind, Option.bind_some, Option.some.injEq]
      ring
  refine ⟨(l0 + u0) / 2 + ox, (l1 + u1) / 2 + oy, (l2 + u2) / 2 + oz, ?_, rfl, rfl, rfl, ?_⟩
  · exact bounds_grid_coords b0 b1 b2 ox oy oz limits geom sym i j k _ _ _ (cen i b0 l0 u0 hl0 hu0)
      (cen j b1 l1 u1 hl1 hu1) (cen k b2 l2 u2 hl2 hu2)
  · refine ⟨?_, ?_, ?_, ?_, ?_, ?_⟩ <;> linarith

/-- `ThetaRZGrid.getRingPos` / `getIndicesFromRingAndPos` are mutually inverse -/
theorem trz_ringpos_inverse (i j r p : Int) :
    trzFromRingPos (trzRingPos i j).1 (trzRingPos i j).2 = (i, j) ∧
    trzRingPos (trzFromRingPos r p).1 (trzFromRingPos r p).2 = (r, p) := by
  simp only [trzRingPos, trzFromRingPos, Prod.mk.injEq]; omega

example : trzGetCoordinates 7 (3/5) (4/5) false (boundsGrid [0, 1, 2, 3] [0, 2, 5] [0, 10, 20, 45] [0, 0, 0] [] "" "")
    [1, 1, 1] = some [21/10, 14/5, 15] := by decide +kernel
example : ((3 : Rat) / 5) * (3 / 5) + (4 / 5) * (4 / 5) = 1 := by norm_num

/-! ### sequences of pitch changes -/

/-- **a sequence of hex pitch changes ends in exactly the grid built at the last pitch** (no drift,
whatever the intermediate pitches — tiny thermal-expansion increments included) -/
theorem hex_changePitch_seq (s3 : Rat) (cu : Bool) (limits geom sym) (ps : List Rat) (p0 : Rat)
    (h0 : p0 ≠ 0) (hps : ∀ p ∈ ps, p ≠ 0) :
    hexChangePitchSeq s3 ps (hexGrid s3 p0 cu [0, 0, 0] limits geom sym) =
      some (hexGrid s3 ((p0 :: ps).getLast (by simp)) cu [0, 0, 0] limits geom sym) := by
  induction ps generalizing p0 with
  | nil => simp [hexChangePitchSeq]
  | cons p ps ih =>
    have hstep : hexChangePitch s3 p (hexGrid s3 p0 cu [0, 0, 0] limits geom sym) =
        some (hexGrid s3 p cu [0, 0, 0] limits geom sym) := by
      cases cu <;>
      simp [hexChangePitch, hexCornersUp, hexGrid, hexRawUnitSteps, selectAt, stepDims, List.range,
        List.range.loop, h0]
    simp only [hexChangePitchSeq, hstep, Option.bind_some]
    rw [ih p (hps p (by simp)) (fun q hq => hps q (by simp [hq]))]
    simp

/-- **a sequence of Cartesian pitch changes ends in the grid of the last pitch with the offset
rescaled from the ORIGINAL offset by last/original** (the intermediate rescalings telescope) -/
theorem cart_changePitch_seq (w h ox oy : Rat) (limits geom sym) (ps : List (Rat × Rat))
    (hw : w ≠ 0) (hh : h ≠ 0) (hps : ∀ p ∈ ps, p.1 ≠ 0 ∧ p.2 ≠ 0) :
    cartChangePitchSeq ps (cartGrid w h [ox, oy, 0] limits geom sym) =
      some (cartGrid (((w, h) :: ps).getLast (by simp)).1 (((w, h) :: ps).getLast (by simp)).2
        [ox * (((w, h) :: ps).getLast (by simp)).1 / w, oy * (((w, h) :: ps).getLast (by simp)).2 / h, 0]
        limits geom sym) := by
  induction ps generalizing w h ox oy with
  | nil =>
    simp only [cartChangePitchSeq, List.getLast_singleton]
    congr 2
    simp only [cartGrid, G.mk.injEq, and_true, true_and, List.cons.injEq]
    constructor <;> field_simp
  | cons p ps ih =>
    obtain ⟨xw, yw⟩ := p
    have hp := hps (xw, yw) (by simp)
    have hstep : cartChangePitch xw yw (cartGrid w h [ox, oy, 0] limits geom sym) =
        some (cartGrid xw yw [ox * xw / w, oy * yw / h, 0] limits geom sym) := by
      simp [cartChangePitch, cartGrid, selectAt, stepDims, List.range, List.range.loop, hw, hh]
    simp only [cartChangePitchSeq, hstep, Option.bind_some]
    rw [ih xw yw _ _ hp.1 hp.2 (fun q hq => hps q (by simp [hq]))]
    simp only [List.getLast_cons_cons, Option.some.injEq, cartGrid, G.mk.injEq, and_true, true_and,
      List.cons.injEq]
    have := hp.1; have := hp.2
    constructor <;> field_simp

/-! ### nested cells -/


private theorem vadd_avg (b1 t1 b2 t2 : List Rat) :
    vadd (List.zipWith avg b1 t1) (List.zipWith avg b2 t2) =
      List.zipWith avg (vadd b2 b1) (vadd t2 t1) := by
  simp only [vadd]
  induction b1 generalizing t1 b2 t2 with
  | nil => cases b2 <;> simp
  | cons x xs ih =>
    cases t1 with
    | nil => cases b2 <;> cases t2 <;> simp
    | cons y ys =>
      cases b2 with
      | nil => simp
      | cons u us =>
        cases t2 with
        | nil => simp
        | cons v vs =>
          simp only [List.zipWith_cons_cons, ih]
          congr 1; ring

private theorem avg_self (l : List Rat) : List.zipWith avg l l = l := by
  induction l with
  | nil => rfl
  | cons a as ih => simp only [List.zipWith_cons_cons, ih]; congr 1; ring

/-- is an index locator -/
def Loc.isIndex : Loc → Bool
  | .index _ _ _ _ => true
  | .coord _ _ _ _ => false

/-- **nested cells: the global centre is the midpoint of the global base and the global top** for a
chain of index locators of any depth, ending optionally in a free-coordinate locator (the grid-less
origin of a top-level system contributes its coordinates to all three). -/
theorem nested_centre_is_midpoint (chain : List Loc) (c b t : List Rat)
    (hidx : ∀ l ∈ chain.dropLast, l.isIndex = true)
    (hc : globalCoords chain = some c) (hb : globalBase chain = some b) (ht : globalTop chain = some t) :
    c = List.zipWith avg b t := by
  induction chain generalizing c b t with
  | nil => simp [globalCoords] at hc
  | cons l rest ih =>
    cases rest with
    | nil =>
      cases l with
      | coord g x y z =>
        simp only [globalCoords, Loc.localCoords, globalBase, globalTop, Option.some.injEq] at hc hb ht
        subst hc; subst hb; subst ht; exact (avg_self _).symm
      | index g i j k =>
        cases g with
        | none => simp [globalCoords, Loc.localCoords] at hc
        | some g =>
          simp only [globalCoords, Loc.localCoords, globalBase, globalTop, Loc.localBase, Loc.localTop] at hc hb ht
          exact grid_centre_is_midpoint g _ c b t hc hb ht
    | cons l2 rest2 =>
      have hl : l.isIndex = true := hidx l (by simp [List.dropLast])
      cases l with
      | coord g x y z => simp [Loc.isIndex] at hl
      | index g i j k =>
        cases g with
        | none => simp [globalCoords, Loc.localCoords] at hc
        | some g =>
          simp only [globalCoords, globalBase, globalTop, Loc.localCoords, Loc.localBase, Loc.localTop,
            Option.bind_eq_bind, Option.bind_eq_some_iff, Option.some.injEq] at hc hb ht
          obtain ⟨a, ha, c', hc', rfl⟩ := hc
          obtain ⟨b', hb', a2, ha2, rfl⟩ := hb
          obtain ⟨t', ht', a3, ha3, rfl⟩ := ht
          have h1 := grid_centre_is_midpoint g _ a a2 a3 ha ha2 ha3
          have h2 := ih c' b' t' (fun m hm => hidx m (by
            simp only [List.dropLast_cons_cons, List.mem_cons]; right; exact hm)) hc' hb' ht'
          rw [h1, h2, vadd_avg]


/-- **the global cell base is the sum of the local cell bases along the whole parent chain, at any depth**, for a chain
of index locators ending optionally in a free-coordinate locator (which contributes its coordinates) -/
theorem nested_base_add (chain : List Loc) (hne : chain ≠ [])
    (hidx : ∀ l ∈ chain.dropLast, l.isIndex = true)
    (hall : ∀ l ∈ chain, ∃ x y z, l.localBase = some [x, y, z]) :
    ∃ x y z, globalBase chain = some [x, y, z] ∧
      x = (chain.map (fun l => ((l.localBase.getD [])[0]?).getD 0)).sum ∧
      y = (chain.map (fun l => ((l.localBase.getD [])[1]?).getD 0)).sum ∧
      z = (chain.map (fun l => ((l.localBase.getD [])[2]?).getD 0)).sum := by
  induction chain with
  | nil => exact absurd rfl hne
  | cons l rest ih =>
    obtain ⟨x, y, z, hl⟩ := hall l (List.mem_cons_self)
    cases rest with
    | nil =>
      cases l with
      | coord g a b c =>
        simp only [Loc.localBase, Option.some.injEq, List.cons.injEq, and_true] at hl
        obtain ⟨rfl, rfl, rfl⟩ := hl
        exact ⟨a, b, c, rfl, by simp [Loc.localBase], by simp [Loc.localBase], by simp [Loc.localBase]⟩
      | index g i j k =>
        refine ⟨x, y, z, ?_, ?_, ?_, ?_⟩ <;> simp [globalBase, hl]
    | cons l2 rest2 =>
      have hli : l.isIndex = true := hidx l (by simp [List.dropLast])
      cases l with
      | coord g a b c => simp [Loc.isIndex] at hli
      | index g i j k =>
        obtain ⟨x', y', z', hg, hx, hy, hz⟩ := ih (by simp)
          (fun m hm => hidx m (by simp only [List.dropLast_cons_cons, List.mem_cons]; right; exact hm))
          (fun m hm => hall m (List.mem_cons_of_mem _ hm))
        refine ⟨x' + x, y' + y, z' + z, ?_, ?_, ?_, ?_⟩
        · simp [globalBase, hl, hg, vadd]
        · rw [hx]; simp [hl]; ring
        · rw [hy]; simp [hl]; ring
        · rw [hz]; simp [hl]; ring

/-- **the global cell top is the sum of the local cell tops along the whole parent chain, at any depth**, for a chain
of index locators ending optionally in a free-coordinate locator (which contributes its coordinates) -/
theorem nested_top_add (chain : List Loc) (hne : chain ≠ [])
    (hidx : ∀ l ∈ chain.dropLast, l.isIndex = true)
    (hall : ∀ l ∈ chain, ∃ x y z, l.localTop = some [x, y, z]) :
    ∃ x y z, globalTop chain = some [x, y, z] ∧
      x = (chain.map (fun l => ((l.localTop.getD [])[0]?).getD 0)).sum ∧
      y = (chain.map (fun l => ((l.localTop.getD [])[1]?).getD 0)).sum ∧
      z = (chain.map (fun l => ((l.localTop.getD [])[2]?).getD 0)).sum := by
  induction chain with
  | nil => exact absurd rfl hne
  | cons l rest ih =>
    obtain ⟨x, y, z, hl⟩ := hall l (List.mem_cons_self)
    cases rest with
    | nil =>
      cases l with
      | coord g a b c =>
        simp only [Loc.localTop, Option.some.injEq, List.cons.injEq, and_true] at hl
        obtain ⟨rfl, rfl, rfl⟩ := hl
        exact ⟨a, b, c, rfl, by simp [Loc.localTop], by simp [Loc.localTop], by simp [Loc.localTop]⟩
      | index g i j k =>
        refine ⟨x, y, z, ?_, ?_, ?_, ?_⟩ <;> simp [globalTop, hl]
    | cons l2 rest2 =>
      have hli : l.isIndex = true := hidx l (by simp [List.dropLast])
      cases l with
      | coord g a b c => simp [Loc.isIndex] at hli
      | index g i j k =>
        obtain ⟨x', y', z', hg, hx, hy, hz⟩ := ih (by simp)
          (fun m hm => hidx m (by simp only [List.dropLast_cons_cons, List.mem_cons]; right; exact hm))
          (fun m hm => hall m (List.mem_cons_of_mem _ hm))
        refine ⟨x' + x, y' + y, z' + z, ?_, ?_, ?_, ?_⟩
        · simp [globalTop, hl, hg, vadd]
        · rw [hx]; simp [hl]; ring
        · rw [hy]; simp [hl]; ring
        · rw [hz]; simp [hl]; ring

/-! ### reduce after in-place mutation -/

/-- a mutation is admissible on a grid with bounds `bd`: a new offset has three entries; the pitch of a
lattice is changed only on pure-step (hex / Cartesian) grids -/
def Mut.ok (bd : List (Option (List Rat))) : Mut → Prop
  | .setOffset o => o.length = 3
  | .hexPitch _ _ => bd = [none, none, none]
  | .cartPitch _ _ => bd = [none, none, none]
  | .backUp => True
  | .restore => True

/-- well-formed live grid together with its chain of backups, all over the same bounds -/
def WFS (bd : List (Option (List Rat))) (gs : GS) : Prop :=
  (WF gs.g ∧ gs.g.bounds = bd) ∧
  ∀ b ∈ gs.backups, WF { gs.g with steps := b.1, bounds := b.2.1, offset := b.2.2 } ∧ b.2.1 = bd

theorem mut_preserves_WFS (bd) (gs gs' : GS) (m : Mut) (h : WFS bd gs) (hm : m.ok bd)
    (hstep : applyMut gs m = some gs') : WFS bd gs' := by
  obtain ⟨⟨hwf, hbd⟩, hbk⟩ := h
  cases m with
  | setOffset o =>
    simp only [applyMut, Option.some.injEq] at hstep; subst hstep
    refine ⟨⟨?_, hbd⟩, ?_⟩
    · obtain ⟨h1, _, h3⟩ := hwf
      exact ⟨h1, hm, h3⟩
    · intro b hb; exact hbk b hb
  | backUp =>
    simp only [applyMut, Option.some.injEq] at hstep; subst hstep
    refine ⟨⟨hwf, hbd⟩, ?_⟩
    intro b hb
    simp only [List.mem_cons] at hb
    rcases hb with rfl | hb
    · exact ⟨hwf, hbd⟩
    · exact hbk b hb
  | restore =>
    simp only [applyMut] at hstep
    cases hb : gs.backups with
    | nil => simp [hb] at hstep
    | cons b rest =>
      obtain ⟨st, bd', off⟩ := b
      simp only [hb, Option.some.injEq] at hstep; subst hstep
      have hmem := hbk (st, bd', off) (by simp [hb])
      refine ⟨⟨hmem.1, hmem.2⟩, ?_⟩
      intro b' hb'
      have := hbk b' (by simp [hb, hb'])
      exact ⟨this.1, this.2⟩
  | hexPitch s3 p =>
    simp only [Mut.ok] at hm
    simp only [applyMut, Option.map_eq_some_iff] at hstep
    obtain ⟨g', hg', rfl⟩ := hstep
    have hb3 : gs.g.bounds = [none, none, none] := by rw [hbd, hm]
    simp only [hexChangePitch, Option.bind_eq_bind, Option.bind_eq_some_iff, Option.some.injEq] at hg'
    obtain ⟨cu, _, rows, hrows, rfl⟩ := hg'
    refine ⟨⟨?_, hbd⟩, ?_⟩
    · obtain ⟨h1, h2, _⟩ := hwf
      refine ⟨h1, h2, ?_⟩
      simp only [hb3] at hrows ⊢
      cases cu <;>
        simp [hexRawUnitSteps, selectAt, stepDims, List.range, List.range.loop] at hrows <;>
        subst hrows <;> simp [stepDims, List.range, List.range.loop]
    · intro b hb; exact hbk b hb
  | cartPitch xw yw =>
    simp only [Mut.ok] at hm
    simp only [applyMut, Option.map_eq_some_iff] at hstep
    obtain ⟨g', hg', rfl⟩ := hstep
    have hb3 : gs.g.bounds = [none, none, none] := by rw [hbd, hm]
    have hg := hg'
    simp only [cartChangePitch] at hg
    split at hg
    · rename_i r0 r1 rest hst
      simp only [Option.bind_eq_bind, Option.bind_eq_some_iff] at hg
      obtain ⟨xo, _, yo, _, rows, hrows, ox, _, oy, _, hg⟩ := hg
      split at hg
      · simp at hg
      · simp only [Option.some.injEq] at hg; subst hg
        refine ⟨⟨?_, hbd⟩, ?_⟩
        · obtain ⟨h1, _, _⟩ := hwf
          refine ⟨h1, rfl, ?_⟩
          simp only [hb3] at hrows ⊢
          simp [selectAt, stepDims, List.range, List.range.loop] at hrows
          subst hrows; simp [stepDims, List.range, List.range.loop]
        · intro b hb; exact hbk b hb
    · simp at hg

/-- **`reduce()` is a function of the CURRENT state and round-trips after any admissible sequence of in-place
mutations** (changePitch of a lattice, offset setter, backUp / restoreBackup in any order): the grid
rebuilt from the arguments reduced after the sequence equals the grid as it is then. -/
theorem reduce_roundtrip_after_mutations (bd) (gs gs' : GS) (ms : List Mut) (h : WFS bd gs)
    (hok : ∀ m ∈ ms, m.ok bd) (hrun : applyMuts gs ms = some gs') :
    ∃ a, reduce gs'.g = some a ∧ build a = some gs'.g := by
  induction ms generalizing gs with
  | nil =>
    simp only [applyMuts, Option.some.injEq] at hrun; subst hrun
    exact reduce_roundtrip gs.g h.1.1
  | cons m ms ih =>
    simp only [applyMuts, Option.bind_eq_bind, Option.bind_eq_some_iff] at hrun
    obtain ⟨g1, h1, h2⟩ := hrun
    exact ih g1 (mut_preserves_WFS bd gs g1 m h (hok m (by simp)) h1) (fun m' hm' => hok m' (by simp [hm'])) h2

example : WFS [none, none, none] { g := cartGrid 2 3 [1, 3/2, 0] [(-2, 2), (-2, 2), (0, 1)] "" "", backups := [] } := by
  refine ⟨⟨⟨rfl, rfl, ?_⟩, rfl⟩, by simp⟩
  simp [cartGrid, stepDims, List.range, List.range.loop]
example : (Mut.cartPitch 3 4).ok [none, none, none] ∧ (Mut.setOffset [1, 1, 0]).ok [none, none, none] := ⟨rfl, rfl⟩

/-- a pure-step radial lattice (hex or Cartesian) spanning rings −n … n with m layers in k
(m = 1: the usual 2-D core grid; m > 1: a tiered rack) -/
def latticeGrid (steps : Steps) (off : List Rat) (geom sym : String) (n m : Int) : G :=
  { steps := steps, bounds := [none, none, none], limits := [(-n, n), (-n, n), (0, m)],
    offset := off, geom := geom, sym := sym }

theorem latticeGrid_not_axialOnly (steps off geom sym) (n m : Int) (h : n ≠ 1 ∨ m ≤ 1) :
    isAxialOnly (latticeGrid steps off geom sym n m) = false := by
  simp only [isAxialOnly, indexBounds, latticeGrid, List.zipWith_cons_cons, List.zipWith_nil_right,
    decide_eq_false_iff_not]
  omega

/-- **an axial grid nested in a radial lattice adds ALL of the parent's indices, whatever its number of
cells ≥ 1 and whatever layer the parent cell is in**: `addingIsValid(axial, lattice)` holds, and the
complete indices of a block at axial index k under a parent at (pi, pj, pk) are (i + pi, j + pj, k + pk) —
the parent's k included (a tiered rack: parent (i, j, 2), child 3 ↦ (i, j, 5)). -/
theorem axial_in_lattice_adds (bz : List Rat) (off) (h : 2 ≤ bz.length) (steps off' geom sym) (n m : Int)
    (hn : n ≠ 1 ∨ m ≤ 1) (i j k pi pj pk : Int) :
    addingIsValid (axialGrid bz off [(0, 1), (0, 1), (0, 1)]) (latticeGrid steps off' geom sym n m) = true ∧
    completeIndices (.index (some (axialGrid bz off [(0, 1), (0, 1), (0, 1)])) i j k)
      (some (.index (some (latticeGrid steps off' geom sym n m)) pi pj pk)) =
      [((i + pi : Int) : Rat), ((j + pj : Int) : Rat), ((k + pk : Int) : Rat)] := by
  have h1 := axial_isAxialOnly bz off h
  have h2 := latticeGrid_not_axialOnly steps off' geom sym n m hn
  refine ⟨by simp [addingIsValid, h1, h2], ?_⟩
  rw [complete_indices_axial_only]; simp [h1, h2]

example : completeIndices (.index (some (axialGrid [0, 1, 2, 3, 4] [0, 0, 0] [(0, 1), (0, 1), (0, 1)])) 0 0 3)
    (some (.index (some (latticeGrid (.mat [[1, 0, 0], [0, 1, 0], [0, 0, 100]]) [0, 0, 0] "" "" 3 4)) (-2) 1 2)) =
    [-2, 1, 5] := by
  have := (axial_in_lattice_adds [0, 1, 2, 3, 4] [0, 0, 0] (by decide)
    (.mat [[1, 0, 0], [0, 1, 0], [0, 0, 100]]) [0, 0, 0] "" "" 3 4 (by decide) 0 0 3 (-2) 1 2).2
  simpa using this

example : isAxialOnly (axialGrid [0, 175] [0, 0, 0] [(0, 1), (0, 1), (0, 1)]) = true :=
  axial_isAxialOnly _ _ (by decide)                                  -- ONE cell (fromNCells(1) has bounds [0, 1])
example : isAxialOnly (axialGrid [0, 1] [0, 0, 0] [(0, 1), (0, 1), (0, 1)]) = true := axial_isAxialOnly _ _ (by decide)
example : isAxialOnly (axialGrid [0, 1, 2] [0, 0, 0] [(0, 1), (0, 1), (0, 1)]) = true := axial_isAxialOnly _ _ (by decide)
example : isAxialOnly (axialGrid [0, 1, 2, 3] [0, 0, 0] [(0, 1), (0, 1), (0, 1)]) = true := axial_isAxialOnly _ _ (by decide)
example : isAxialOnly (axialGrid [0] [0, 0, 0] [(0, 1), (0, 1), (0, 1)]) = false := by decide  -- no cell at all

/-! ### nestings of every kind and depth: which (child grid, parent grid) pairs add indices -/

/-- the step-defined axial grid (k by unit steps, a single (i, j) column) -/
def stepAxialGrid (steps : Steps) (off : List Rat) (geom sym : String) (n : Int) : G :=
  { steps := steps, bounds := [none, none, none], limits := [(0, 1), (0, 1), (0, n)],
    offset := off, geom := geom, sym := sym }

/-- a step-defined 1 × 1 × n column is axial-only exactly when it has more than one cell -/
theorem stepAxial_isAxialOnly (steps off geom sym) (n : Int) :
    isAxialOnly (stepAxialGrid steps off geom sym n) = decide (1 < n) := by
  simp only [isAxialOnly, indexBounds, stepAxialGrid, List.zipWith_cons_cons, List.zipWith_nil_right]
  by_cases h : 1 < n <;> simp [h]

/-- a grid with bounds in the first two directions (θ-R-Z) is never axial-only: its index bounds in i are
(0, len(bounds)), and an `IndexError`-free cell needs len(bounds) ≥ 2 -/
theorem boundsGrid_not_axialOnly (b0 b1 b2 : List Rat) (off limits geom sym) (h : 2 ≤ b0.length) :
    isAxialOnly (boundsGrid b0 b1 b2 off limits geom sym) = false := by
  unfold isAxialOnly indexBounds boundsGrid
  match limits with
  | [] => rfl
  | [_] => rfl
  | [_, _] => rfl
  | _ :: _ :: _ :: _ => simp; omega

/-- the (exclusive) upper index bound of dimension `d`, read off the public constructor arguments: the number of
mesh edges where the dimension has bounds, the second entry of `unitStepLimits` otherwise -/
def upperBound (g : G) (d : Nat) : Option Int :=
  match g.bounds[d]?, g.limits[d]? with
  | some (some b), some _ => some (b.length : Int)
  | some none, some mm => some mm.2
  | _, _ => none

/-- **what `isAxialOnly` means for EVERY grid** (three dimensions): exactly one (i, j) column and more than one
index in k — in terms of the constructor arguments (this is the `expected_axial_only` of the harness oracle) -/
theorem isAxialOnly_iff (g : G) (hl : g.limits.length = 3) (hb : g.bounds.length = 3) :
    isAxialOnly g = true ↔
      (upperBound g 0 = some 1 ∧ upperBound g 1 = some 1 ∧ ∃ n, upperBound g 2 = some n ∧ 1 < n) := by
  obtain ⟨steps, bounds, limits, off, geom, sym⟩ := g
  simp only at hl hb
  match limits, hl with
  | [l0, l1, l2], _ =>
    match bounds, hb with
    | [b0, b1, b2], _ =>
      cases b0 <;> cases b1 <;> cases b2 <;>
        simp [isAxialOnly, indexBounds, upperBound] <;> omega

example : (axialGrid [0, 1, 2] [0, 0, 0] [(0, 1), (0, 1), (0, 1)]).limits.length = 3 ∧
    (axialGrid [0, 1, 2] [0, 0, 0] [(0, 1), (0, 1), (0, 1)]).bounds.length = 3 ∧
    upperBound (axialGrid [0, 1, 2] [0, 0, 0] [(0, 1), (0, 1), (0, 1)]) 2 = some 3 := ⟨rfl, rfl, rfl⟩

/-- **the contract of `addingIsValid`**: child grid axial-only AND parent grid NOT axial-only -/
theorem adding_is_valid_iff (mine parent : G) :
    addingIsValid mine parent = true ↔ (isAxialOnly mine = true ∧ isAxialOnly parent = false) := by
  simp [addingIsValid]

/-- **`getCompleteIndices` does what `addingIsValid` says, and nothing else**: for an index locator whose
parent is an index locator, the result is own + parent when the addition is valid and the locator's own
indices otherwise; with a parent at indices that are not all zero the two outcomes are different, so
"the parent's indices were added" ⇔ `addingIsValid`. -/
theorem complete_indices_follow_adding (g pg : G) (i j k pi pj pk : Int) :
    (addingIsValid g pg = true →
      completeIndices (.index (some g) i j k) (some (.index (some pg) pi pj pk)) =
        [((i + pi : Int) : Rat), ((j + pj : Int) : Rat), ((k + pk : Int) : Rat)]) ∧
    (addingIsValid g pg = false →
      completeIndices (.index (some g) i j k) (some (.index (some pg) pi pj pk)) =
        [(i : Rat), (j : Rat), (k : Rat)]) ∧
    ((pi, pj, pk) ≠ (0, 0, 0) →
      (completeIndices (.index (some g) i j k) (some (.index (some pg) pi pj pk)) =
        [((i + pi : Int) : Rat), ((j + pj : Int) : Rat), ((k + pk : Int) : Rat)] ↔ addingIsValid g pg = true)) := by
  have h := complete_indices_axial_only g pg i j k pi pj pk
  have hv := adding_is_valid_iff g pg
  refine ⟨fun ha => ?_, fun ha => ?_, fun hp => ⟨fun he => ?_, fun ha => ?_⟩⟩
  · rw [h, if_pos (hv.mp ha)]
  · rw [h, if_neg (fun hc => by rw [hv.mpr hc] at ha; exact Bool.noConfusion ha)]
  · by_contra hn
    have hf : ¬ (isAxialOnly g = true ∧ isAxialOnly pg = false) := fun hc => hn (hv.mpr hc)
    rw [h, if_neg hf] at he
    simp only [List.cons.injEq, and_true] at he
    obtain ⟨h1, h2, h3⟩ := he
    have e1 : i = i + pi := by exact_mod_cast h1
    have e2 : j = j + pj := by exact_mod_cast h2
    have e3 : k = k + pk := by exact_mod_cast h3
    apply hp
    have : pi = 0 := by omega
    have : pj = 0 := by omega
    have : pk = 0 := by omega
    simp [*]
  · rw [h, if_pos (hv.mp ha)]

/-- **an axial mesh inside an axial mesh keeps its own indices** (e.g. an axial sub-mesh inside a block of an
axially meshed assembly): `addingIsValid` is false and the parent's indices — whatever they are — are not added.
Both kinds of axial-only grid (bounds-defined `AxialGrid`, step-defined column) in every combination. -/
theorem axial_in_axial_keeps (g pg : G) (hg : isAxialOnly g = true) (hpg : isAxialOnly pg = true)
    (i j k pi pj pk : Int) :
    addingIsValid g pg = false ∧
    completeIndices (.index (some g) i j k) (some (.index (some pg) pi pj pk)) = [(i : Rat), (j : Rat), (k : Rat)] := by
  have hv : addingIsValid g pg = false := by simp [addingIsValid, hg, hpg]
  exact ⟨hv, (complete_indices_follow_adding g pg i j k pi pj pk).2.1 hv⟩

/-- a locator whose own grid is not axial-only (lattice, θ-R-Z, 3-D mesh, single-cell grid) keeps its own indices
under every parent -/
theorem nonaxial_child_keeps (g : G) (hg : isAxialOnly g = false) (p : Option Loc) (i j k : Int) :
    completeIndices (.index (some g) i j k) p = [(i : Rat), (j : Rat), (k : Rat)] := by
  cases p with
  | none => rfl
  | some p =>
    simp only [completeIndices, addingIsValid]
    cases p.grid with
    | none => rfl
    | some pg => simp [hg, Loc.indices]

/-- **complete indices never look past the parent**: ancestors beyond `parentLocation` contribute nothing, at any
depth (each index axis is added at most once) -/
theorem complete_chain_depth (l p : Loc) (rest rest' : List Loc) :
    completeIndicesChain (l :: p :: rest) = completeIndicesChain (l :: p :: rest') := rfl

/-- **radial / axial / axial, three deep** (lattice ⊃ axial mesh ⊃ axial sub-mesh, owners anywhere): the
innermost locator keeps its own indices, the middle one gets all three of the lattice cell's indices. -/
theorem radial_axial_axial (bz bz' : List Rat) (off off') (h : 2 ≤ bz.length) (h' : 2 ≤ bz'.length)
    (steps offL geom sym) (n m : Int) (hn : n ≠ 1 ∨ m ≤ 1) (k k' pi pj pk : Int) (top : List Loc) :
    let lattice := latticeGrid steps offL geom sym n m
    let mid := axialGrid bz off [(0, 1), (0, 1), (0, 1)]
    let inner := axialGrid bz' off' [(0, 1), (0, 1), (0, 1)]
    completeIndicesChain (.index (some inner) 0 0 k' :: .index (some mid) 0 0 k :: .index (some lattice) pi pj pk :: top)
      = [0, 0, (k' : Rat)] ∧
    completeIndicesChain (.index (some mid) 0 0 k :: .index (some lattice) pi pj pk :: top)
      = [((0 + pi : Int) : Rat), ((0 + pj : Int) : Rat), ((k + pk : Int) : Rat)] := by
  intro lattice mid inner
  constructor
  · have := (axial_in_axial_keeps inner mid (axial_isAxialOnly bz' off' h') (axial_isAxialOnly bz off h) 0 0 k' 0 0 k).2
    simpa [completeIndicesChain] using this
  · exact (axial_in_lattice_adds bz off h steps offL geom sym n m hn 0 0 k pi pj pk).2

example : completeIndicesChain
    [.index (some (axialGrid [0, 1, 2, 3] [0, 0, 0] [(0, 1), (0, 1), (0, 1)])) 0 0 2,
     .index (some (axialGrid [0, 10, 20, 45] [0, 0, 0] [(0, 1), (0, 1), (0, 1)])) 0 0 1,
     .index (some (latticeGrid (.mat [[1, 0, 0], [0, 1, 0], [0, 0, 0]]) [0, 0, 0] "" "" 3 1)) (-2) 1 0,
     .coord none 5 6 7] = [0, 0, 2] := by
  have := (radial_axial_axial [0, 10, 20, 45] [0, 1, 2, 3] [0, 0, 0] [0, 0, 0] (by decide) (by decide)
    (.mat [[1, 0, 0], [0, 1, 0], [0, 0, 0]]) [0, 0, 0] "" "" 3 1 (by decide) 1 2 (-2) 1 0 [.coord none 5 6 7]).1
  simpa using this
example : isAxialOnly (stepAxialGrid (.mat [[0, 0, 0], [0, 0, 0], [0, 0, 5]]) [0, 0, 0] "" "" 4) = true ∧
    isAxialOnly (stepAxialGrid (.mat [[0, 0, 0], [0, 0, 0], [0, 0, 5]]) [0, 0, 0] "" "" 1) = false := by
  constructor <;> (rw [stepAxial_isAxialOnly]; decide)
example : ((-2 : Int), (1 : Int), (2 : Int)) ≠ (0, 0, 0) := by decide

/-- `getCompleteIndices` raises (model: `completeIndicesRaises`) only in the one configuration where a valid
addition meets a free-coordinate parent; for index-locator parents it never does -/
theorem complete_never_raises_on_index_parent (self : Loc) (g : Option G) (pi pj pk : Int) :
    completeIndicesRaises self (some (.index g pi pj pk)) = false ∧ completeIndicesRaises self none = false := by
  constructor
  · cases self with
    | index sg _ _ _ => cases sg <;> rfl
    | coord _ _ _ _ => rfl
  · cases self with
    | index sg _ _ _ => cases sg <;> rfl
    | coord _ _ _ _ => rfl

/-! ### chains through θ-R-Z grids -/

/-- on chains without θ-R-Z element `globalCoordsT` is `globalCoords` (all nesting theorems apply verbatim) -/
theorem globalCoordsT_plain (chain : List Loc) : globalCoordsT (chain.map LocT.plain) = globalCoords chain := by
  induction chain with
  | nil => rfl
  | cons l rest ih =>
    cases rest with
    | nil => rfl
    | cons l2 rest2 =>
      simp only [List.map_cons, globalCoordsT, globalCoords, LocT.localCoords] at ih ⊢
      rw [ih]

/-- **global coordinates are the sum of the local coordinates along the whole parent chain, at ANY depth and
through every kind of grid** — θ-R-Z levels contribute their Cartesian image (r·cos θ, r·sin θ, z) -/
theorem nested_coords_add_T (chain : List LocT) (hne : chain ≠ [])
    (hall : ∀ l ∈ chain, ∃ x y z, l.localCoords = some [x, y, z]) :
    ∃ x y z, globalCoordsT chain = some [x, y, z] ∧
      x = (chain.map (fun l => ((l.localCoords.getD [])[0]?).getD 0)).sum ∧
      y = (chain.map (fun l => ((l.localCoords.getD [])[1]?).getD 0)).sum ∧
      z = (chain.map (fun l => ((l.localCoords.getD [])[2]?).getD 0)).sum := by
  induction chain with
  | nil => exact absurd rfl hne
  | cons l rest ih =>
    obtain ⟨x, y, z, hl⟩ := hall l (List.mem_cons_self)
    cases rest with
    | nil =>
      refine ⟨x, y, z, ?_, ?_, ?_, ?_⟩ <;> simp [globalCoordsT, hl]
    | cons l2 rest2 =>
      obtain ⟨x', y', z', hg, hx, hy, hz⟩ := ih (by simp) (fun m hm => hall m (List.mem_cons_of_mem _ hm))
      refine ⟨x + x', y + y', z + z', ?_, ?_, ?_, ?_⟩
      · simp [globalCoordsT, hl, hg, vadd]
      · rw [hx]; simp [hl]
      · rw [hy]; simp [hl]
      · rw [hz]; simp [hl]

/-! #### native coordinates (`nativeCoords=True`) -/

/-- without the flag `globalCoordsTN` is `globalCoordsT` -/
theorem globalCoordsTN_false (chain : List LocT) : globalCoordsTN false chain = globalCoordsT chain := by
  induction chain with
  | nil => rfl
  | cons l rest ih =>
    cases rest with
    | nil => cases l <;> rfl
    | cons l2 rest2 =>
      have hl : l.localCoordsN false = l.localCoords := by cases l <;> rfl
      simp only [globalCoordsTN, globalCoordsT, hl] at ih ⊢
      rw [ih]

/-- **hex / Cartesian / axial / free-coordinate chains give the same answer with and without the flag** -/
theorem native_flag_irrelevant_without_trz (native : Bool) (chain : List Loc) :
    globalCoordsTN native (chain.map LocT.plain) = globalCoords chain := by
  induction chain with
  | nil => rfl
  | cons l rest ih =>
    cases rest with
    | nil => rfl
    | cons l2 rest2 =>
      simp only [List.map_cons, globalCoordsTN, globalCoords, LocT.localCoordsN] at ih ⊢
      rw [ih]

/-- **global coordinates in EITHER coordinate kind are the sum, along the whole ancestor chain, of the local
coordinates in that SAME kind** (the flag reaches every ancestor): at any depth, a θ-R-Z level at any height of the
chain contributes (θ, r, z) with the flag and (r·cos θ, r·sin θ, z) without -/
theorem nested_coords_add_TN (native : Bool) (chain : List LocT) (hne : chain ≠ [])
    (hall : ∀ l ∈ chain, ∃ x y z, l.localCoordsN native = some [x, y, z]) :
    ∃ x y z, globalCoordsTN native chain = some [x, y, z] ∧
      x = (chain.map (fun l => (((l.localCoordsN native).getD [])[0]?).getD 0)).sum ∧
      y = (chain.map (fun l => (((l.localCoordsN native).getD [])[1]?).getD 0)).sum ∧
      z = (chain.map (fun l => (((l.localCoordsN native).getD [])[2]?).getD 0)).sum := by
  induction chain with
  | nil => exact absurd rfl hne
  | cons l rest ih =>
    obtain ⟨x, y, z, hl⟩ := hall l (List.mem_cons_self)
    cases rest with
    | nil =>
      refine ⟨x, y, z, ?_, ?_, ?_, ?_⟩ <;> simp [globalCoordsTN, hl]
    | cons l2 rest2 =>
      obtain ⟨x', y', z', hg, hx, hy, hz⟩ := ih (by simp) (fun m hm => hall m (List.mem_cons_of_mem _ hm))
      refine ⟨x + x', y + y', z + z', ?_, ?_, ?_, ?_⟩
      · simp [globalCoordsTN, hl, hg, vadd]
      · rw [hx]; simp [hl]
      · rw [hy]; simp [hl]
      · rw [hz]; simp [hl]

/-- the native contribution of a θ-R-Z level is its mesh coordinate (θ, r, z) itself -/
theorem trz_level_local_native (tau cs sn : Rat) (g : G) (i j k : Int) (v : List Rat) :
    (LocT.trz tau cs sn g i j k).localCoordsN true = some v ↔
      ∃ θ r z, getCoordinates g [i, j, k] = some [θ, r, z] ∧ 0 ≤ θ ∧ θ ≤ tau ∧ v = [θ, r, z] := by
  have := trz_coordinates_spec tau cs sn g [i, j, k] v true
  simpa [LocT.localCoordsN] using this

example : globalCoordsTN true [.plain (.index (some (axialGrid [0, 10, 20] [0, 0, 0] [(0, 1), (0, 1), (0, 1)])) 0 0 1),
    .trz 7 (3/5) (4/5) (boundsGrid [0, 1, 2, 3] [0, 2, 5] [0, 10, 20, 45] [0, 0, 0] [] "" "") 1 1 2,
    .plain (.coord none 100 200 300)] = some [100 + 3/2, 200 + 7/2, 300 + 65/2 + 15] := by
  decide +kernel

/-- the contribution of a θ-R-Z level: defined exactly when the mesh coordinates exist with 0 ≤ θ ≤ τ, and then
(r·cos θ, r·sin θ, z) -/
theorem trz_level_local (tau cs sn : Rat) (g : G) (i j k : Int) (v : List Rat) :
    (LocT.trz tau cs sn g i j k).localCoords = some v ↔
      ∃ θ r z, getCoordinates g [i, j, k] = some [θ, r, z] ∧ 0 ≤ θ ∧ θ ≤ tau ∧ v = [r * cs, r * sn, z] := by
  have := trz_coordinates_spec tau cs sn g [i, j, k] v false
  simpa [LocT.localCoords] using this

example : globalCoordsT [.trz 7 (3/5) (4/5) (boundsGrid [0, 1, 2, 3] [0, 2, 5] [0, 10, 20, 45] [0, 0, 0] [] "" "") 1 1 2,
    .plain (.coord none 100 200 300)] = some [100 + 7/2 * (3/5), 200 + 7/2 * (4/5), 300 + 65/2] := by
  decide +kernel

/-! ### location labels: `locatorLabelToIndices ∘ getLabel` -/

private def leVal : List Nat → Nat
  | [] => 0
  | d :: ds => d + 10 * leVal ds

private theorem leVal_natDigitsLE (f n : Nat) (h : n < f) : leVal (natDigitsLE f n) = n := by
  induction f generalizing n with
  | zero => omega
  | succ f ih =>
    unfold natDigitsLE
    split
    · simp [leVal]
    · have : n / 10 < f := by omega
      simp only [leVal, ih _ this]; omega

private theorem parseDigits_append (a : List Nat) (d : Nat) :
    parseDigits (a ++ [d]) = parseDigits a * 10 + d := by
  simp [parseDigits, List.foldl_append]

private theorem parseDigits_reverse (l : List Nat) : parseDigits l.reverse = leVal l := by
  induction l with
  | nil => rfl
  | cons d ds ih => rw [List.reverse_cons, parseDigits_append, ih]; simp only [leVal]; omega

private theorem parseDigits_render (n : Nat) : parseDigits (render n) = n := by
  unfold render; rw [parseDigits_reverse]; exact leVal_natDigitsLE _ _ (by omega)

private theorem parseDigits_zeros (k : Nat) (ds : List Nat) :
    parseDigits (List.replicate k 0 ++ ds) = parseDigits ds := by
  induction k with
  | zero => rfl
  | succ k ih =>
    rw [List.replicate_succ, List.cons_append]
    unfold parseDigits at ih ⊢
    simpa using ih

private theorem render_ne_nil (n : Nat) : render n ≠ [] := by
  unfold render natDigitsLE
  split <;> simp

private theorem pad0_eq (w : Nat) (ds : List Nat) :
    pad0 w ds = (List.replicate (w - ds.length) 0 ++ ds).map Sym.dig := by
  simp [pad0, List.map_append, List.map_replicate]

/-- scanning a run of digits -/
private theorem labelScan_digits (ds : List Nat) (rest : List Sym) (neg : Bool) (v : Nat) :
    labelScan (ds.map Sym.dig ++ rest) (.num neg v) =
      labelScan rest (.num neg (ds.foldl (fun acc d => acc * 10 + d) v)) := by
  induction ds generalizing v with
  | nil => rfl
  | cons d r ih => simp only [List.map_cons, List.cons_append, labelScan, List.foldl_cons]; exact ih _

private theorem foldl_from (d0 : Nat) (ds : List Nat) :
    ds.foldl (fun acc d => acc * 10 + d) d0 = parseDigits (d0 :: ds) := by
  simp [parseDigits]

/-- a zero-padded rendering is a non-empty run of digits with the right value -/
private theorem pad0_digits (w n : Nat) :
    ∃ d0 ds, pad0 w (render n) = (d0 :: ds).map Sym.dig ∧ parseDigits (d0 :: ds) = n := by
  have hne := render_ne_nil n
  rw [pad0_eq]
  cases h : List.replicate (w - (render n).length) 0 ++ render n with
  | nil =>
    have h2 := List.append_eq_nil_iff.mp h
    exact absurd h2.2 hne
  | cons d0 ds =>
    refine ⟨d0, ds, rfl, ?_⟩
    rw [← h, parseDigits_zeros, parseDigits_render]

/-- **one formatted index is scanned back to itself, whatever follows** (sign included) -/
private theorem labelScan_fmt03 (n : Int) (tail : List Sym) :
    labelScan (fmt03 n ++ tail) .start = labelScan tail (.num (decide (n < 0)) n.natAbs) := by
  unfold fmt03
  by_cases h : n < 0
  · obtain ⟨d0, ds, he, hv⟩ := pad0_digits 2 n.natAbs
    simp only [h, if_true, List.cons_append, labelScan, he, List.map_cons, decide_true]
    rw [labelScan_digits, foldl_from, hv]
  · obtain ⟨d0, ds, he, hv⟩ := pad0_digits 3 n.toNat
    have e : n.toNat = n.natAbs := by omega
    simp only [h, if_false, he, List.map_cons, List.cons_append, labelScan, decide_false]
    rw [labelScan_digits, foldl_from, hv, e]

private theorem signedVal_natAbs (n : Int) : signedVal (decide (n < 0)) n.natAbs = n := by
  unfold signedVal
  by_cases h : n < 0
  · rw [decide_eq_true h]; simp only [if_true]; omega
  · rw [decide_eq_false h]; simp only [Bool.false_eq_true, if_false]; omega

/-- **labels decode to the indices they were made from, for ALL integer indices** — any size (ring / position ≥ 100
or ≥ 1000 widen the field), and any sign (Cartesian cells left of / below the centre, negative axial indices: the
decoder repaired by 9ee1acd reads a dash that opens the label or follows a separator as a sign) — with and without
the axial index -/
theorem label_roundtrip (a b c : Int) :
    (getLabel [a, b, c]).bind labelToIndices = some [some a, some b, some c] ∧
    (getLabel [a, b]).bind labelToIndices = some [some a, some b, none] := by
  constructor
  · simp only [getLabel, Option.bind_some, labelToIndices, List.append_assoc, List.cons_append]
    rw [labelScan_fmt03]; simp only [labelScan]
    rw [labelScan_fmt03]; simp only [labelScan]
    have := labelScan_fmt03 c []
    rw [List.append_nil] at this
    rw [this]; simp [labelScan, signedVal_natAbs]
  · simp only [getLabel, Option.bind_some, labelToIndices]
    rw [labelScan_fmt03]; simp only [labelScan]
    have := labelScan_fmt03 b []
    rw [List.append_nil] at this
    rw [this]; simp [labelScan, signedVal_natAbs]

/-- hence labels are injective on index triples -/
theorem label_injective (a b c a' b' c' : Int) (h : getLabel [a, b, c] = getLabel [a', b', c']) :
    a = a' ∧ b = b' ∧ c = c' := by
  have h1 := (label_roundtrip a b c).1
  have h2 := (label_roundtrip a' b' c').1
  rw [h] at h1
  rw [h1] at h2
  simp only [Option.some.injEq, List.cons.injEq, and_true] at h2
  exact ⟨h2.1, h2.2.1, h2.2.2⟩

/-- what is NOT a label is refused: an empty label, a lone or doubled sign, a trailing separator -/
theorem label_malformed_refused (l : List Sym) :
    labelToIndices [] = none ∧ labelToIndices [.dash] = none ∧ labelToIndices (.dash :: .dash :: l) = none ∧
    labelToIndices [.dig 1, .dash] = none ∧ labelToIndices (.other :: l) = none := by
  refine ⟨rfl, rfl, ?_, rfl, ?_⟩ <;> simp [labelToIndices, labelScan]

/-- `HexGrid.getLabel(indices)`: `Grid.getLabel` of (ring, pos) resp. (ring, pos, k) with
(ring, pos) = `getRingPos(indices)` = `Hex.toRingPos i j` -/
def hexLabel (i j : Int) (k : Option Int) : Option (List Sym) :=
  match k with
  | none => getLabel [(Hex.toRingPos i j).1, (Hex.toRingPos i j).2]
  | some k => getLabel [(Hex.toRingPos i j).1, (Hex.toRingPos i j).2, k]

/-- **hex labels, for EVERY cell of ℤ² and every axial index k ≥ 0: label → (ring, pos, k) → cell is the
identity** — decoding the label gives the cell's ring and position (whatever their size), and
`getIndicesFromRingAndPos` of those gives the cell back -/
theorem hex_label_roundtrip (i j : Int) (k : Nat) :
    ∃ r p : Nat, (r : Int) = (Hex.toRingPos i j).1 ∧ (p : Int) = (Hex.toRingPos i j).2 ∧
      (hexLabel i j (some k)).bind labelToIndices = some [some (r : Int), some (p : Int), some (k : Int)] ∧
      (hexLabel i j none).bind labelToIndices = some [some (r : Int), some (p : Int), none] ∧
      Hex.fromRingPos r p = some (i, j) := by
  have hp := (Hex.pos_range i j).1
  have hr : 1 ≤ (Hex.toRingPos i j).1 := by rw [Hex.ring_eq_hexdist]; omega
  refine ⟨(Hex.toRingPos i j).1.toNat, (Hex.toRingPos i j).2.toNat, by omega, by omega, ?_, ?_, ?_⟩
  · have e1 : (Hex.toRingPos i j).1 = (((Hex.toRingPos i j).1.toNat : Nat) : Int) := by omega
    have e2 : (Hex.toRingPos i j).2 = (((Hex.toRingPos i j).2.toNat : Nat) : Int) := by omega
    simp only [hexLabel]
    rw [e1, e2]
    simpa using (label_roundtrip ((Hex.toRingPos i j).1.toNat : Int) ((Hex.toRingPos i j).2.toNat : Int) (k : Int)).1
  · have e1 : (Hex.toRingPos i j).1 = (((Hex.toRingPos i j).1.toNat : Nat) : Int) := by omega
    have e2 : (Hex.toRingPos i j).2 = (((Hex.toRingPos i j).2.toNat : Nat) : Int) := by omega
    simp only [hexLabel]
    rw [e1, e2]
    simpa using (label_roundtrip ((Hex.toRingPos i j).1.toNat : Int) ((Hex.toRingPos i j).2.toNat : Int) 0).2
  · have e1 : (((Hex.toRingPos i j).1.toNat : Nat) : Int) = (Hex.toRingPos i j).1 := by omega
    have e2 : (((Hex.toRingPos i j).2.toNat : Nat) : Int) = (Hex.toRingPos i j).2 := by omega
    rw [e1, e2]; exact Hex.ringpos_left_inv i j

example : (getLabel [100, 1000, 7]).bind labelToIndices = some [some 100, some 1000, some 7] := by
  have := (label_roundtrip 100 1000 7).1; simpa using this
example : (getLabel [-1, 2, 0]).bind labelToIndices = some [some (-1), some 2, some 0] ∧
    (getLabel [1, -2]).bind labelToIndices = some [some 1, some (-2), none] := by
  decide

/-! ### non-vacuity -/
example : cartRingPos true 2 (-1) = (3, 14) ∧ cartFromRingPos true 3 14 = (2, -1) := by decide
example : cartRingPos false (-1) 0 = (1, 2) ∧ cartPositionsInRing false 1 = 4 := by decide
example : cartMinRings true 10 = 3 ∧ cartTotal true 2 = 9 ∧ cartTotal true 3 = 25 := by decide
example : WF (cartGrid 2 3 [1, 3/2, 0] [(-2, 2), (-2, 2), (0, 1)] "" "") := by
  refine ⟨rfl, rfl, ?_⟩; simp [cartGrid, stepDims, List.range, List.range.loop]
example : WF (axialGrid [0, 1, 3] [0, 0, 0] [(0, 1), (0, 1), (0, 1)]) := by
  refine ⟨rfl, rfl, ?_⟩; simp [axialGrid, stepDims, List.range, List.range.loop]
example : centroidByBounds 1 [0, 1, 3] = some 2 ∧ meshBaseByBounds 1 [0, 1, 3] = some 1 ∧
    meshBaseByBounds 2 [0, 1, 3] = some 3 := by
  refine ⟨?_, rfl, rfl⟩
  simp [centroidByBounds]; norm_num
example : getCoordinates (cartGrid 2 3 [1, 0, 0] [] "" "") [1, 1, 0] = some [2 * 1 + 1, 3 * 1 + 0, 0] := by
  have := cart_coords 2 3 1 0 0 [] "" "" 1 1 0; simpa using this
example : ∀ p ∈ [(2 : Rat), 3], p ≠ 0 := by decide
example : ∃ x y z, (Loc.coord none 1 2 3).localCoords = some [x, y, z] := ⟨1, 2, 3, rfl⟩

end ArmiVerif.Grid
