/-
C08 — grid symmetry and rotation operations agree with the physical geometry.
Hex part (index rotation, 120° images, first third, symmetry lines, rotated cell number,
pivot, HexBlock.rotate). The Cartesian quarter-core part is at the end (model: Model/Grid.lean).
Property theorems only; helper lemmas are `private`.
-/
import ArmiVerif.Model.Hex
import ArmiVerif.Model.Grid
import ArmiVerif.Props.C07
import Mathlib.Tactic.Ring
import Mathlib.Tactic.Linarith
import Mathlib.Tactic.FieldSimp
import Mathlib.Tactic.LinearCombination
import Mathlib.Algebra.Field.Basic
import Mathlib.Algebra.Order.Field.Rat

namespace ArmiVerif.Hex

/-! ### `rotateIndex` is the k-fold 60° step, for every integer k -/

private theorem mod6_cases (k : Int) :
    k % 6 = 0 ∨ k % 6 = 1 ∨ k % 6 = 2 ∨ k % 6 = 3 ∨ k % 6 = 4 ∨ k % 6 = 5 := by omega

/-- closes linear integer goals, possibly a pair / conjunction of them -/
local macro "lin" : tactic =>
  `(tactic| (first | omega | (constructor <;> omega) | (refine ⟨?_, ?_, ?_⟩ <;> omega)
                   | (apply Prod.ext <;> simp <;> omega)))

/-- explicit table of `rotateIndex` by `k mod 6` -/
private theorem rotateIndex_table (k : Int) (c : Int × Int) :
    (k % 6 = 0 → rotateIndex k c = c) ∧
    (k % 6 = 1 → rotateIndex k c = (-c.2, c.1 + c.2)) ∧
    (k % 6 = 2 → rotateIndex k c = (-(c.1 + c.2), c.1)) ∧
    (k % 6 = 3 → rotateIndex k c = (-c.1, -c.2)) ∧
    (k % 6 = 4 → rotateIndex k c = (c.2, -(c.1 + c.2))) ∧
    (k % 6 = 5 → rotateIndex k c = (c.1 + c.2, -c.1)) := by
  refine ⟨?_, ?_, ?_, ?_, ?_, ?_⟩ <;> intro h
  all_goals
    have h3 : k % 3 = (k % 6) % 3 := by omega
    have h2 : k % 2 = (k % 6) % 2 := by omega
    rw [h] at h3 h2
    simp [rotateIndex, h3, h2]
  all_goals (try lin)

private theorem iter_rot1_table (c : Int × Int) :
    iter rot1 0 c = c ∧ iter rot1 1 c = (-c.2, c.1 + c.2) ∧ iter rot1 2 c = (-(c.1 + c.2), c.1) ∧
    iter rot1 3 c = (-c.1, -c.2) ∧ iter rot1 4 c = (c.2, -(c.1 + c.2)) ∧
    iter rot1 5 c = (c.1 + c.2, -c.1) ∧ iter rot1 6 c = c := by
  refine ⟨rfl, rfl, ?_, ?_, ?_, ?_, ?_⟩
  all_goals simp only [iter, rot1]
  all_goals (try lin)

/-- **`rotateIndex k` (deque rotate + sign flip) is `rot1` applied `k mod 6` times, for every
integer k, negative included.** -/
theorem rotateIndex_eq_iter (k : Int) (c : Int × Int) :
    rotateIndex k c = iter rot1 (k % 6).toNat c := by
  obtain ⟨t0, t1, t2, t3, t4, t5, _⟩ := iter_rot1_table c
  obtain ⟨r0, r1, r2, r3, r4, r5⟩ := rotateIndex_table k c
  rcases mod6_cases k with h | h | h | h | h | h
  · rw [r0 h, h]; exact t0.symm
  · rw [r1 h, h]; exact t1.symm
  · rw [r2 h, h]; exact t2.symm
  · rw [r3 h, h]; exact t3.symm
  · rw [r4 h, h]; exact t4.symm
  · rw [r5 h, h]; exact t5.symm

private theorem iter_add {α} (f : α → α) (m n : Nat) (a : α) :
    iter f (m + n) a = iter f n (iter f m a) := by
  induction m generalizing a with
  | zero => simp [iter]
  | succ m ih => rw [Nat.succ_add]; simp only [iter]; exact ih (f a)

private theorem iter_rot1_six_mul (q : Nat) (c : Int × Int) : iter rot1 (6 * q) c = c := by
  induction q with
  | zero => rfl
  | succ q ih =>
    have : 6 * (q + 1) = 6 + 6 * q := by omega
    rw [this, iter_add, (iter_rot1_table c).2.2.2.2.2.2, ih]

/-- for natural k, `rotateIndex k` is literally the k-fold iterate of the 60° step -/
theorem rotateIndex_nat_iter (k : Nat) (c : Int × Int) :
    rotateIndex (k : Int) c = iter rot1 k c := by
  rw [rotateIndex_eq_iter]
  have h1 : ((k : Int) % 6).toNat = k % 6 := by omega
  rw [h1]
  conv_rhs => rw [← Nat.div_add_mod k 6, iter_add, iter_rot1_six_mul]

/-- `rotateIndex` as a function of `k mod 6` applied to an explicit pair -/
private theorem rotateIndex_pair (k : Int) (i j : Int) :
    rotateIndex k (i, j) =
      if k % 6 = 0 then (i, j) else if k % 6 = 1 then (-j, i + j)
      else if k % 6 = 2 then (-(i + j), i) else if k % 6 = 3 then (-i, -j)
      else if k % 6 = 4 then (j, -(i + j)) else (i + j, -i) := by
  obtain ⟨r0, r1, r2, r3, r4, r5⟩ := rotateIndex_table k (i, j)
  rcases mod6_cases k with h | h | h | h | h | h
  · rw [r0 h, h]; rfl
  · rw [r1 h, h]; rfl
  · rw [r2 h, h]; rfl
  · rw [r3 h, h]; rfl
  · rw [r4 h, h]; rfl
  · rw [r5 h, h]; rfl

/-- **rotations compose additively**, for all integers -/
theorem rot_add (k l : Int) (c : Int × Int) :
    rotateIndex (k + l) c = rotateIndex k (rotateIndex l c) := by
  obtain ⟨i, j⟩ := c
  rw [rotateIndex_pair l, rotateIndex_pair (k + l)]
  have hkl : (k + l) % 6 = (k % 6 + l % 6) % 6 := by omega
  rcases mod6_cases k with h | h | h | h | h | h <;>
    rcases mod6_cases l with g | g | g | g | g | g <;>
    rw [hkl, h, g] <;> norm_num <;> rw [rotateIndex_pair, h] <;> norm_num <;> (try lin)

/-- **six steps are the identity** (and so is every multiple of six) -/
theorem rot_six_id (c : Int × Int) : rotateIndex 6 c = c :=
  (rotateIndex_table 6 c).1 (by decide)

theorem rot_period (k : Int) (c : Int × Int) : rotateIndex (k + 6) c = rotateIndex k c := by
  rw [rot_add, rot_six_id]

/-- rotating back undoes a rotation -/
theorem rotateIndex_neg (k : Int) (c : Int × Int) : rotateIndex (-k) (rotateIndex k c) = c := by
  rw [← rot_add]
  have : -k + k = 0 := by omega
  rw [this]
  exact (rotateIndex_table 0 c).1 (by decide)

/-- **rotation preserves the ring** (hex distance from the centre) -/
theorem rot_preserves_ring (k : Int) (c : Int × Int) :
    (toRingPos (rotateIndex k c).1 (rotateIndex k c).2).1 = (toRingPos c.1 c.2).1 := by
  rw [ring_eq_hexdist, ring_eq_hexdist]
  obtain ⟨r0, r1, r2, r3, r4, r5⟩ := rotateIndex_table k c
  rcases mod6_cases k with h | h | h | h | h | h
  · rw [r0 h]
  · rw [r1 h]; dsimp only; omega
  · rw [r2 h]; dsimp only; omega
  · rw [r3 h]; dsimp only; omega
  · rw [r4 h]; dsimp only; omega
  · rw [r5 h]; dsimp only; omega

/-! ### the index step is the 60° counter-clockwise rotation of the cell centre -/

/-- `R60x2` is twice a rotation by exactly +60°: for every vector v, with w = R60x2 v,
|w|² = 4|v|², v·w = |v|² (so cos θ = 1/2) and v×w = |v|²·(positive constant) (so sin θ = +√3/2,
counter-clockwise). All three are integer identities in the `coef` basis. -/
theorem R60x2_is_rotation (cu : Bool) (v : Int × Int) :
    sq4 cu (R60x2 cu v) = 4 * sq4 cu v ∧ dot4 cu v (R60x2 cu v) = sq4 cu v ∧
    cross4 cu v (R60x2 cu v) = sq4 cu v := by
  cases cu <;> simp only [sq4, dot4, cross4, R60x2, if_true, if_false, Bool.false_eq_true] <;>
    refine ⟨?_, ?_, ?_⟩ <;> ring

/-- **one index step rotates the cell centre by 60° counter-clockwise**, both orientations:
2·coef(rot1 c) = R60x2(coef c) (exact; the halves are integral because a ≡ b mod 2). -/
theorem rot_geom (cu : Bool) (c : Int × Int) :
    (2 * (coef cu (rot1 c).1 (rot1 c).2).1, 2 * (coef cu (rot1 c).1 (rot1 c).2).2) =
      R60x2 cu (coef cu c.1 c.2) := by
  cases cu <;> simp only [coef, rot1, R60x2, if_true, if_false, Bool.false_eq_true] <;> lin

/-- the k-fold version for every integer k: `2ⁿ·coef (rotateIndex k c) = R60x2ⁿ (coef c)`
with n = k mod 6 -/
theorem rot_geom_iter (cu : Bool) (k : Int) (c : Int × Int) :
    ((2 : Int) ^ (k % 6).toNat * (coef cu (rotateIndex k c).1 (rotateIndex k c).2).1,
     (2 : Int) ^ (k % 6).toNat * (coef cu (rotateIndex k c).1 (rotateIndex k c).2).2) =
      iter (R60x2 cu) (k % 6).toNat (coef cu c.1 c.2) := by
  obtain ⟨r0, r1, r2, r3, r4, r5⟩ := rotateIndex_table k c
  rcases mod6_cases k with h | h | h | h | h | h
  · rw [r0 h, h]; simp [iter]
  · rw [r1 h, h]; cases cu <;> simp [iter, coef, R60x2] <;> (try lin)
  · rw [r2 h, h]; cases cu <;> simp [iter, coef, R60x2] <;> (try lin)
  · rw [r3 h, h]; cases cu <;> simp [iter, coef, R60x2] <;> (try lin)
  · rw [r4 h, h]; cases cu <;> simp [iter, coef, R60x2] <;> (try lin)
  · rw [r5 h, h]; cases cu <;> simp [iter, coef, R60x2] <;> (try lin)

/-- the coefficient parity invariant that makes the halves exact -/
theorem coef_parity (cu : Bool) (i j : Int) : ((coef cu i j).1 - (coef cu i j).2) % 2 = 0 := by
  cases cu <;> simp [coef] <;> omega

/-! ### third-core symmetric equivalents are the 120° and 240° images -/

/-! ### the first third is the sector 0° ≤ θ < 120° -/

/-- **`isInFirstThird` is the angular sector between the 0° and the 120° ray**: writing the
cell as α·(2,−1) + β·(−1,2) (the two boundary directions), 3α = 2i + j and 3β = i + 2j; the
cell is in the first third iff it is the centre, or β ≥ 0 and α > 0 (α ≥ 0 when the top edge is
included). Holds for every cell. -/
theorem inFirstThird_iff_sector (top : Bool) (c : Int × Int) :
    inFirstThird top c = true ↔
      (c.1 = 0 ∧ c.2 = 0) ∨
      (0 ≤ c.1 + 2 * c.2 ∧ (0 < 2 * c.1 + c.2 ∨ (top = true ∧ 2 * c.1 + c.2 = 0))) := by
  obtain ⟨i, j⟩ := c
  unfold inFirstThird toRingPos ero positionsInRing
  simp only []
  cases top <;> repeat' split
  all_goals simp only [decide_eq_true_eq, Bool.false_eq_true, false_and, or_false, true_and,
    true_iff, ne_eq] at *
  all_goals (first | omega | (exfalso; simp_all))

private theorem rot2_eq (c : Int × Int) : rotateIndex 2 c = (-(c.1 + c.2), c.1) :=
  (rotateIndex_table 2 c).2.2.1 (by decide)
private theorem rot4_eq (c : Int × Int) : rotateIndex 4 c = (c.2, -(c.1 + c.2)) :=
  (rotateIndex_table 4 c).2.2.2.2.1 (by decide)

/-- **`_getSymmetricIdenticalsThird` = the images under two and four 60° steps** (120° and 240°) -/
theorem third_equivalents_are_120_images (c : Int × Int) (h : c ≠ (0, 0)) :
    sym3 c = [rotateIndex 2 c, rotateIndex 4 c] := by
  have hc : ¬ (c.1 = 0 ∧ c.2 = 0) := by
    intro hh; apply h; exact Prod.ext hh.1 hh.2
  rw [rot2_eq, rot4_eq]
  simp only [sym3, hc, if_false]
  congr 1
  · apply Prod.ext <;> simp <;> omega
  · congr 1; apply Prod.ext <;> simp <;> omega

/-- the equivalents are distinct from the cell and from each other (a genuine 3-orbit) -/
theorem third_orbit_distinct (c : Int × Int) (h : c ≠ (0, 0)) :
    rotateIndex 2 c ≠ c ∧ rotateIndex 4 c ≠ c ∧ rotateIndex 2 c ≠ rotateIndex 4 c := by
  have hc : ¬ (c.1 = 0 ∧ c.2 = 0) := by
    intro hh; apply h; exact Prod.ext hh.1 hh.2
  rw [rot2_eq, rot4_eq]
  refine ⟨?_, ?_, ?_⟩ <;> intro hh <;> apply hc <;>
    (have h1 := congrArg Prod.fst hh; have h2 := congrArg Prod.snd hh; simp at h1 h2; omega)

private theorem lineOf_lin (i j : Int) :
    (lineOf (i, j) = 1 ↔ (i > 0 ∧ i = -2 * j)) ∧
    (lineOf (i, j) = 2 ↔ (i = j ∧ i > 0)) ∧
    (lineOf (i, j) = 3 ↔ (j = -2 * i ∧ j > 0)) ∧
    (lineOf (i, j) = 4 ↔ (i = 0 ∧ j = 0)) := by
  simp only [lineOf]
  refine ⟨?_, ?_, ?_, ?_⟩
  all_goals repeat' split
  all_goals simp
  all_goals omega

/-- the cell lies on the 0°, 120° or 240° ray, i.e. its 3-orbit meets the two edge lines of the
third-core domain -/
def onEdgeLine (c : Int × Int) : Bool :=
  decide ((c.1 + 2 * c.2 = 0 ∧ 0 < c.1) ∨ (2 * c.1 + c.2 = 0 ∧ 0 < c.2) ∨ (c.1 = c.2 ∧ c.1 < 0))

/-- `onEdgeLine` is exactly: some member of the 3-orbit is classified as lying on the 0° or the
120° symmetry line by `overlapsWhichSymmetryLine` -/
theorem onEdgeLine_iff (c : Int × Int) (h0 : c ≠ (0, 0)) :
    onEdgeLine c = true ↔
      ∃ d ∈ c :: sym3 c, lineOf d = 1 ∨ lineOf d = 3 := by
  have hc : ¬ (c.1 = 0 ∧ c.2 = 0) := by
    intro hh; apply h0; exact Prod.ext hh.1 hh.2
  obtain ⟨i, j⟩ := c
  simp only [] at hc
  simp only [onEdgeLine, sym3, hc, if_false, List.mem_cons, List.not_mem_nil, or_false,
    decide_eq_true_eq, exists_eq_or_imp, exists_eq_left,
    (lineOf_lin i j).1, (lineOf_lin i j).2.2.1,
    (lineOf_lin (-i - j) i).1, (lineOf_lin (-i - j) i).2.2.1,
    (lineOf_lin j (-i - j)).1, (lineOf_lin j (-i - j)).2.2.1]
  omega


/-- **orbit partition**: for every cell off the edge lines exactly one of its three 120° images
(itself included) is in the first third — with or without the top edge. -/
theorem third_orbit_partition (c : Int × Int) (h0 : c ≠ (0, 0)) (hl : onEdgeLine c = false)
    (top : Bool) : ((c :: sym3 c).filter (inFirstThird top)).length = 1 := by
  have hc : ¬ (c.1 = 0 ∧ c.2 = 0) := by
    intro hh; apply h0; exact Prod.ext hh.1 hh.2
  obtain ⟨i, j⟩ := c
  simp only [onEdgeLine, decide_eq_false_iff_not] at hl
  simp only [sym3, hc, if_false, List.filter_cons]
  have e1 := inFirstThird_iff_sector top (i, j)
  have e2 := inFirstThird_iff_sector top (-i - j, i)
  have e3 := inFirstThird_iff_sector top (j, -i - j)
  simp only [] at e1 e2 e3 hc hl
  by_cases a1 : inFirstThird top (i, j) = true <;> by_cases a2 : inFirstThird top (-i - j, i) = true <;>
    by_cases a3 : inFirstThird top (j, -i - j) = true <;>
    simp only [a1, a2, a3, if_true, List.filter_nil, List.length_cons, List.length_nil] <;>
    (try rfl) <;> exfalso <;>
    (first
      | (have b1 := e1.mp a1) | (have b1 := fun h => a1 (e1.mpr h))) <;>
    (first
      | (have b2 := e2.mp a2) | (have b2 := fun h => a2 (e2.mpr h))) <;>
    (first
      | (have b3 := e3.mp a3) | (have b3 := fun h => a3 (e3.mpr h))) <;>
    (cases top <;> simp at b1 b2 b3 <;> omega)

private theorem third_line_cells_aux (c : Int × Int) (h0 : c ≠ (0, 0)) (hl : onEdgeLine c = true)
    (top : Bool) : ((c :: sym3 c).filter (inFirstThird top)).length = if top then 2 else 1 := by
  have hc : ¬ (c.1 = 0 ∧ c.2 = 0) := by
    intro hh; apply h0; exact Prod.ext hh.1 hh.2
  obtain ⟨i, j⟩ := c
  simp only [onEdgeLine, decide_eq_true_eq] at hl
  simp only [sym3, hc, if_false, List.filter_cons]
  have e1 := inFirstThird_iff_sector top (i, j)
  have e2 := inFirstThird_iff_sector top (-i - j, i)
  have e3 := inFirstThird_iff_sector top (j, -i - j)
  simp only [] at e1 e2 e3 hc hl
  by_cases a1 : inFirstThird top (i, j) = true <;> by_cases a2 : inFirstThird top (-i - j, i) = true <;>
    by_cases a3 : inFirstThird top (j, -i - j) = true <;>
    simp only [a1, a2, a3, if_true, List.filter_nil, List.length_cons, List.length_nil] <;>
    (first
      | (have b1 := e1.mp a1) | (have b1 := fun h => a1 (e1.mpr h))) <;>
    (first
      | (have b2 := e2.mp a2) | (have b2 := fun h => a2 (e2.mpr h))) <;>
    (first
      | (have b3 := e3.mp a3) | (have b3 := fun h => a3 (e3.mpr h))) <;>
    (cases top <;> simp at b1 b2 b3 ⊢ <;> omega)

/-- **cells on the domain edge lines**: exactly one representative without the top edge, exactly
the two boundary representatives with it. -/
theorem third_line_cells (c : Int × Int) (h0 : c ≠ (0, 0)) (hl : onEdgeLine c = true) :
    ((c :: sym3 c).filter (inFirstThird false)).length = 1 ∧
    ((c :: sym3 c).filter (inFirstThird true)).length = 2 :=
  ⟨third_line_cells_aux c h0 hl false, third_line_cells_aux c h0 hl true⟩

/-! ### symmetry-line classification ⇔ the centre lies on the ray -/

/-- **flats-up grid**: with (a, b) = `coef false c` (x = a·(√3/2)p, y = b·p/2),
class 1 ⇔ on the 0° ray (y = 0, x > 0); class 2 ⇔ on the 60° ray (y = √3·x, x > 0 ⇔ b = 3a);
class 3 ⇔ on the 120° ray (y = −√3·x, x < 0 ⇔ b = −3a); class 4 ⇔ the centre. -/
theorem line_class_iff_geometry (c : Int × Int) :
    (lineOf c = 1 ↔ (coef false c.1 c.2).2 = 0 ∧ 0 < (coef false c.1 c.2).1) ∧
    (lineOf c = 2 ↔ (coef false c.1 c.2).2 = 3 * (coef false c.1 c.2).1 ∧ 0 < (coef false c.1 c.2).1) ∧
    (lineOf c = 3 ↔ (coef false c.1 c.2).2 = -3 * (coef false c.1 c.2).1 ∧ (coef false c.1 c.2).1 < 0) ∧
    (lineOf c = 4 ↔ c = (0, 0)) ∧
    (lineOf c = 0 ∨ lineOf c = 1 ∨ lineOf c = 2 ∨ lineOf c = 3 ∨ lineOf c = 4) := by
  obtain ⟨i, j⟩ := c
  simp only [lineOf, coef, Bool.false_eq_true, if_false, Prod.mk.injEq]
  refine ⟨?_, ?_, ?_, ?_, ?_⟩
  all_goals repeat' split
  all_goals simp
  all_goals omega

/-- **corners-up grid** (the lattice is turned by 30°): with (a, b) = `coef true c`
(x = a·p/2, y = b·(√3/2)p) the same three classes are the 30°, 90° and 150° rays:
class 1 ⇔ a = 3b, b > 0 (y = x/√3); class 2 ⇔ a = 0, b > 0; class 3 ⇔ a = −3b, b > 0. -/
theorem line_class_iff_geometry_cornersUp (c : Int × Int) :
    (lineOf c = 1 ↔ (coef true c.1 c.2).1 = 3 * (coef true c.1 c.2).2 ∧ 0 < (coef true c.1 c.2).2) ∧
    (lineOf c = 2 ↔ (coef true c.1 c.2).1 = 0 ∧ 0 < (coef true c.1 c.2).2) ∧
    (lineOf c = 3 ↔ (coef true c.1 c.2).1 = -3 * (coef true c.1 c.2).2 ∧ 0 < (coef true c.1 c.2).2) := by
  obtain ⟨i, j⟩ := c
  simp only [lineOf, coef, if_true]
  refine ⟨?_, ?_, ?_⟩
  all_goals repeat' split
  all_goals simp
  all_goals omega

/-- the two edges of the third-core domain are images of each other: the 0° class maps to the
120° class under a 120° rotation, the 60° class is interior -/
theorem line_0_rot_120 (c : Int × Int) : lineOf c = 1 ↔ lineOf (rotateIndex 2 c) = 3 := by
  obtain ⟨i, j⟩ := c
  rw [rot2_eq, (lineOf_lin i j).1, (lineOf_lin _ _).2.2.1]
  simp only []
  omega

/-! ### `getIndexOfRotatedCell` -/

/-- one 60° step keeps the ring and advances the position by one edge length (ring − 1),
wrapping once around the ring -/
private theorem ringpos_rot1 (i j : Int) :
    (toRingPos (-j) (i + j)).1 = (toRingPos i j).1 ∧
    (toRingPos (-j) (i + j)).2 =
      if (toRingPos i j).2 + ((toRingPos i j).1 - 1) > 6 * ((toRingPos i j).1 - 1)
      then (toRingPos i j).2 - 5 * ((toRingPos i j).1 - 1)
      else (toRingPos i j).2 + ((toRingPos i j).1 - 1) := by
  unfold toRingPos ero
  simp only []
  repeat' split
  all_goals (try simp only [] at *)
  all_goals (first | omega | (constructor <;> (first | trivial | omega)))


private theorem totalUpTo_mono (a b : Nat) (h : a ≤ b) : totalUpTo a ≤ totalUpTo b := by
  unfold totalUpTo
  have : 3 * a * (a - 1) ≤ 3 * b * (b - 1) := Nat.mul_le_mul (by omega) (by omega)
  omega

private theorem totalUpTo_step (r : Nat) (hr : 2 ≤ r) : totalUpTo r = totalUpTo (r - 1) + 6 * (r - 1) := by
  obtain ⟨k, rfl⟩ : ∃ k, r = k + 2 := ⟨r - 2, by omega⟩
  unfold totalUpTo
  have e1 : k + 2 - 1 = k + 1 := by omega
  have e2 : k + 1 - 1 = k := by omega
  rw [e1, e2]
  ring_nf

/-- the ring of the n-th cell (running count over rings) -/
private theorem numRings_cell (r p : Nat) (hr : 2 ≤ r) (hp1 : 1 ≤ p) (hp2 : p ≤ 6 * (r - 1)) :
    numRings (totalUpTo (r - 1) + p) = r := by
  obtain ⟨h1, h2, h3⟩ := numRings_least (totalUpTo (r - 1) + p) (by omega)
  have hstep := totalUpTo_step r hr
  generalize numRings (totalUpTo (r - 1) + p) = R at *
  by_contra hne
  rcases Nat.lt_or_gt_of_ne hne with hlt | hgt
  · have := totalUpTo_mono R (r - 1) (by omega)
    omega
  · have := h3 r (by omega) hgt
    omega


/-- ring/pos of a cell as a pair-valued function of the cell -/
private def rp (c : Int × Int) : Int × Int := toRingPos c.1 c.2

private def wrapPos (r p : Int) : Int := if p + (r - 1) > 6 * (r - 1) then p - 5 * (r - 1) else p + (r - 1)

private theorem rp_rot1 (c : Int × Int) : rp (rot1 c) = ((rp c).1, wrapPos (rp c).1 (rp c).2) := by
  obtain ⟨i, j⟩ := c
  have := ringpos_rot1 i j
  simp only [rp, rot1, wrapPos]
  exact Prod.ext this.1 this.2

private theorem cellNumber_big (r p : Int) (hr : 2 ≤ r) :
    cellNumber r p = (totalUpTo (r.toNat - 1) : Int) + p := by
  have h1 : ¬ r ≤ 1 := by omega
  have h2 : (r - 1).toNat = r.toNat - 1 := by omega
  simp only [cellNumber, h1, if_false, h2]

/-- `getIndexOfRotatedCell` on a cell number of ring r ≥ 2, position p, orientation k ∈ 0..5 -/
private theorem rotatedCell_big (r p k : Int) (hr : 2 ≤ r) (hp1 : 1 ≤ p) (hp2 : p ≤ 6 * (r - 1))
    (hk0 : 0 ≤ k) (hk5 : k ≤ 5) :
    rotatedCell (cellNumber r p) k =
      some (cellNumber r (if p + (r - 1) * k > 6 * (r - 1) then p + (r - 1) * k - 6 * (r - 1)
                          else p + (r - 1) * k)) := by
  rw [cellNumber_big r p hr, cellNumber_big r _ hr]
  obtain ⟨R, rfl⟩ : ∃ R : Nat, r = R := ⟨r.toNat, by omega⟩
  obtain ⟨P, rfl⟩ : ∃ P : Nat, p = P := ⟨p.toNat, by omega⟩
  have hR : 2 ≤ R := by omega
  have hnr := numRings_cell R P hR (by omega) (by omega)
  have hstep := totalUpTo_step R hR
  have hT : 1 ≤ totalUpTo (R - 1) := by unfold totalUpTo; omega
  have e1 : ((R : Int)).toNat = R := by omega
  have e2 : (((totalUpTo (R - 1) : Nat) : Int) + (P : Int)).toNat = totalUpTo (R - 1) + P := by omega
  unfold rotatedCell
  simp only [e1, e2, hnr]
  have c1 : ¬ (k < 0 ∨ k > 5) := by omega
  have c2 : ((totalUpTo (R - 1) : Nat) : Int) + (P : Int) > 1 := by omega
  simp only [c1, c2, if_false, if_true]
  by_cases hk : k = 0
  · subst hk; simp; omega
  · simp only [hk, if_false]
    rw [hstep]
    push_cast
    have e3 : ((R - 1 : Nat) : Int) = (R : Int) - 1 := by omega
    rw [e3]
    split <;> split <;> simp only [Option.some.injEq] <;> omega


private theorem rp_iter (c : Int × Int) (n : Nat) (hn : n ≤ 5) (_hr : 2 ≤ (rp c).1) (hp1 : 1 ≤ (rp c).2)
    (hp2 : (rp c).2 ≤ 6 * ((rp c).1 - 1)) :
    rp (iter rot1 n c) =
      ((rp c).1, if (rp c).2 + ((rp c).1 - 1) * n > 6 * ((rp c).1 - 1)
                 then (rp c).2 + ((rp c).1 - 1) * n - 6 * ((rp c).1 - 1)
                 else (rp c).2 + ((rp c).1 - 1) * n) := by
  have h1 := rp_rot1 c
  have h2 := rp_rot1 (rot1 c)
  have h3 := rp_rot1 (rot1 (rot1 c))
  have h4 := rp_rot1 (rot1 (rot1 (rot1 c)))
  have h5 := rp_rot1 (rot1 (rot1 (rot1 (rot1 c))))
  rw [h1] at h2; rw [h2] at h3; rw [h3] at h4; rw [h4] at h5
  simp only [] at h2 h3 h4 h5
  have h0 : rp c = ((rp c).1, (rp c).2) := rfl
  generalize (rp c).1 = r at *
  generalize (rp c).2 = p at *
  have hcases : n = 0 ∨ n = 1 ∨ n = 2 ∨ n = 3 ∨ n = 4 ∨ n = 5 := by omega
  rcases hcases with rfl | rfl | rfl | rfl | rfl | rfl <;> simp only [iter]
  · rw [h0]; simp only [Prod.mk.injEq, true_and, Nat.cast_zero, Int.mul_zero, Int.add_zero]
    split <;> omega
  · rw [h1]; simp only [wrapPos, Prod.mk.injEq, true_and, Nat.cast_one, Nat.cast_ofNat]
    repeat' split
    all_goals omega
  · rw [h2]; simp only [wrapPos, Prod.mk.injEq, true_and, Nat.cast_one, Nat.cast_ofNat]
    repeat' split
    all_goals omega
  · rw [h3]; simp only [wrapPos, Prod.mk.injEq, true_and, Nat.cast_one, Nat.cast_ofNat]
    repeat' split
    all_goals omega
  · rw [h4]; simp only [wrapPos, Prod.mk.injEq, true_and, Nat.cast_one, Nat.cast_ofNat]
    repeat' split
    all_goals omega
  · rw [h5]; simp only [wrapPos, Prod.mk.injEq, true_and, Nat.cast_one, Nat.cast_ofNat]
    repeat' split
    all_goals omega

/-- **`getIndexOfRotatedCell(cell, k)` is the running cell number of the ring/position of the index
rotated by k sixty-degree steps**, for every cell and every orientation k ∈ 0..5 -/
theorem rotatedCell_eq_rotateIndex (i j : Int) (k : Int) (hk0 : 0 ≤ k) (hk5 : k ≤ 5) :
    rotatedCell (cellNumber (toRingPos i j).1 (toRingPos i j).2) k =
      some (cellNumber (toRingPos (rotateIndex k (i, j)).1 (rotateIndex k (i, j)).2).1
                       (toRingPos (rotateIndex k (i, j)).1 (rotateIndex k (i, j)).2).2) := by
  have hring := rot_preserves_ring k (i, j)
  have hpr := pos_range i j
  have hpr' := pos_range (rotateIndex k (i, j)).1 (rotateIndex k (i, j)).2
  have hd := ring_eq_hexdist i j
  by_cases hr : (toRingPos i j).1 = 1
  · -- centre cell
    simp only [] at hring
    rw [hring] at hpr' ⊢
    rw [hr] at hpr hpr' ⊢
    simp only [positionsInRing] at hpr hpr'
    have e1 : (toRingPos i j).2 = 1 := by simpa using (by omega : (toRingPos i j).2 = 1)
    have e2 : (toRingPos (rotateIndex k (i, j)).1 (rotateIndex k (i, j)).2).2 = 1 := by
      have := hpr'; simp at this; omega
    rw [e1, e2]
    have hkc : k = 0 ∨ k = 1 ∨ k = 2 ∨ k = 3 ∨ k = 4 ∨ k = 5 := by omega
    rcases hkc with rfl | rfl | rfl | rfl | rfl | rfl <;> rfl
  · have hr2 : 2 ≤ (toRingPos i j).1 := by omega
    have hne : (toRingPos i j).1 ≠ 1 := hr
    simp only [positionsInRing, hne, ne_eq, not_false_eq_true, if_true] at hpr
    have hit := rp_iter (i, j) k.toNat (by omega) hr2 hpr.1 (by simp only [rp]; omega)
    have hrot : rotateIndex k (i, j) = iter rot1 k.toNat (i, j) := by
      rw [rotateIndex_eq_iter]; congr 1; omega
    rw [hrot]
    simp only [rp] at hit
    rw [hit]
    simp only []
    have hkk : ((k.toNat : Nat) : Int) = k := by omega
    rw [hkk]
    exact rotatedCell_big _ _ k hr2 hpr.1 (by omega) hk0 hk5

/-! ### pivot (Python slice semantics) -/

private theorem lt6 (k : Nat) (h : k < 6) : k = 0 ∨ k = 1 ∨ k = 2 ∨ k = 3 ∨ k = 4 ∨ k = 5 := by omega

/-- **`pivot(l, -k)` on a 6-vector is the cyclic shift by k**: new[m] = old[(m − k) mod 6] -/
theorem pivot_spec {α} (l : List α) (h : l.length = 6) (k m : Nat) (hk : k < 6) (hm : m < 6) :
    (pivot l (-(k : Int)))[m]? = l[(m + 6 - k) % 6]? := by
  match l, h with
  | [a, b, c, d, e, f], _ =>
    rcases lt6 k hk with rfl | rfl | rfl | rfl | rfl | rfl <;>
      rcases lt6 m hm with rfl | rfl | rfl | rfl | rfl | rfl <;> rfl

/-- pivoting keeps the length (any list, any position) -/
theorem pivot_length {α} (l : List α) (p : Int) : (pivot l p).length = l.length := by
  simp only [pivot, pyFrom, pyTo]
  split <;> simp only [List.length_append, List.length_drop, List.length_take] <;> omega

/-- **shifts compose additively** (mod 6) on 6-vectors -/
theorem pivot_add {α} (l : List α) (h : l.length = 6) (k j : Nat) (hk : k < 6) (hj : j < 6) :
    pivot (pivot l (-(k : Int))) (-(j : Int)) = pivot l (-(((k + j) % 6 : Nat) : Int)) := by
  match l, h with
  | [a, b, c, d, e, f], _ =>
    rcases lt6 k hk with rfl | rfl | rfl | rfl | rfl | rfl <;>
      rcases lt6 j hj with rfl | rfl | rfl | rfl | rfl | rfl <;> rfl

/-- `rotNum = 6` (a full turn that the rounding of `rad mod 2π` can produce) is the identity shift -/
theorem pivot_six {α} (l : List α) (h : l.length = 6) : pivot l (-6) = l ∧ pivot l 0 = l := by
  match l, h with
  | [a, b, c, d, e, f], _ => exact ⟨rfl, rfl⟩


/-! ### rotation of free coordinates / displacement in ℚ(√3) -/

/-- |(x, y)|² as an element of ℚ(√3) -/
def normSq (p : Q3 × Q3) : Q3 := Q3.add (Q3.mul p.1 p.1) (Q3.mul p.2 p.2)
def dotQ (p q : Q3 × Q3) : Q3 := Q3.add (Q3.mul p.1 q.1) (Q3.mul p.2 q.2)
def crossQ (p q : Q3 × Q3) : Q3 := Q3.sub (Q3.mul p.1 q.2) (Q3.mul p.2 q.1)

private theorem q3_ext (a b : Q3) (h1 : a.re = b.re) (h2 : a.ir = b.ir) : a = b := by
  cases a; cases b; simp_all

/-- **`rot60xy` is the rotation by exactly +60°**: it preserves |v|², v·Rv = |v|²/2 (cos 60°) and
v×Rv = (√3/2)|v|² (sin 60°, counter-clockwise) — exact identities in ℚ(√3). -/
theorem rot60xy_is_rotation (p : Q3 × Q3) :
    normSq (rot60xy p) = normSq p ∧ dotQ p (rot60xy p) = Q3.half (normSq p) ∧
    crossQ p (rot60xy p) = Q3.halfSqrt3 (normSq p) := by
  obtain ⟨⟨a, b⟩, ⟨c, d⟩⟩ := p
  refine ⟨?_, ?_, ?_⟩ <;> apply q3_ext <;>
    simp only [normSq, dotQ, crossQ, rot60xy, Q3.add, Q3.sub, Q3.mul, Q3.half, Q3.halfSqrt3] <;> ring

/-- six steps of 60° are the identity on coordinates -/
theorem rotXY_six (p : Q3 × Q3) : rotXY 6 p = p := by
  obtain ⟨⟨a, b⟩, ⟨c, d⟩⟩ := p
  simp only [rotXY, iter, rot60xy, Q3.add, Q3.sub, Q3.half, Q3.halfSqrt3]
  apply Prod.ext <;> apply q3_ext <;> simp only [] <;> ring

private theorem iter_add' {α} (f : α → α) (m n : Nat) (a : α) :
    iter f (m + n) a = iter f n (iter f m a) := by
  induction m generalizing a with
  | zero => simp [iter]
  | succ m ih => rw [Nat.succ_add]; simp only [iter]; exact ih (f a)

theorem rotXY_add (m n : Nat) (p : Q3 × Q3) : rotXY (m + n) p = rotXY n (rotXY m p) :=
  iter_add' _ m n p

private theorem rotXY_six_mul (q : Nat) (p : Q3 × Q3) : rotXY (6 * q) p = p := by
  induction q with
  | zero => rfl
  | succ q ih =>
    have : 6 * (q + 1) = 6 + 6 * q := by omega
    rw [this, rotXY_add, rotXY_six, ih]

theorem rotXY_mod (k : Nat) (p : Q3 × Q3) : rotXY k p = rotXY (k % 6) p := by
  conv_lhs => rw [← Nat.div_add_mod k 6, rotXY_add, rotXY_six_mul]

/-! ### HexBlock.rotate -/

private theorem rotCell_add (k l : Int) (c : Int × Int × Int) :
    rotCell l (rotCell k c) = rotCell (k + l) c := by
  simp only [rotCell]
  rw [Int.add_comm k l, rot_add]

private theorem rotCell_mod (k : Int) (c : Int × Int × Int) : rotCell (k % 6) c = rotCell k c := by
  simp only [rotCell]
  have : rotateIndex (k % 6) (c.1, c.2.1) = rotateIndex k (c.1, c.2.1) := by
    rw [rotateIndex_eq_iter, rotateIndex_eq_iter]
    congr 2; omega
  rw [this]

/-- every child locator moves by k·60°: index cells by `rotateIndex k` (axial index kept), free
coordinates by the k-fold 60° rotation (z kept), the locator kind is preserved, children without
locator are left alone -/
theorem block_rotate_children (k : Nat) (b : Block) (hg : b.hasGrid = true) :
    (rotateBlock k b).children.length = b.children.length ∧
    ∀ n (h : n < b.children.length),
      match b.children[n] with
      | .multi cells => (rotateBlock k b).children[n]? =
          some (.multi (cells.map (fun c => ((rotateIndex k (c.1, c.2.1)).1, (rotateIndex k (c.1, c.2.1)).2, c.2.2))))
      | .index i j kk => (rotateBlock k b).children[n]? =
          some (.index (rotateIndex k (i, j)).1 (rotateIndex k (i, j)).2 kk)
      | .coord x y z => (rotateBlock k b).children[n]? = some (.coord (rotXY k (x, y)).1 (rotXY k (x, y)).2 z)
      | .none => (rotateBlock k b).children[n]? = some .none := by
  constructor
  · simp [rotateBlock, hg]
  · intro n h
    simp only [rotateBlock, hg, if_true, List.getElem?_map, List.getElem?_eq_getElem h, Option.map_some]
    cases b.children[n] <;> simp [rotChild, rotCell]

/-- **two rotations compose to the rotation by the sum** (children, corner/edge vectors, displacement
exactly as `rotate((k + l) mod 6)`; the orientation advances by 60k + 60l, i.e. by 60·((k+l) mod 6)
modulo 360) -/
theorem block_rotate_add (k l : Nat) (hk : k < 6) (hl : l < 6) (b : Block) :
    rotateBlock l (rotateBlock k b) =
      { rotateBlock (((k + l) % 6 : Nat) : Int) b with
        orientation := b.orientation + (k : Int) * 60 + (l : Int) * 60 } := by
  have hkl : (((k + l) % 6 : Nat) : Int) = ((k : Int) + l) % 6 := by omega
  have hchild : ∀ c, rotChild l (rotChild k c) = rotChild (((k + l) % 6 : Nat) : Int) c := by
    intro c
    cases c with
    | multi cells =>
      simp only [rotChild, List.map_map, ChildLoc.multi.injEq]
      apply List.map_congr_left; intro x _
      simp only [Function.comp]
      rw [rotCell_add, hkl, rotCell_mod]
    | coord x y z =>
      simp only [rotChild, Int.toNat_natCast]
      rw [← rotXY_add, ← rotXY_mod]
    | index i j kk =>
      simp only [rotChild]
      have := rotCell_add k l (i, j, kk)
      rw [hkl, rotCell_mod, ← this]
    | none => rfl
  have hbd : ∀ v : List Rat, rotBoundary l (rotBoundary k v) = rotBoundary (((k + l) % 6 : Nat) : Int) v := by
    intro v
    simp only [rotBoundary]
    by_cases h6 : v.length = 6
    · simp only [h6, if_true, pivot_length]
      exact pivot_add v h6 k l hk hl
    · simp [h6]
  obtain ⟨hasGrid, children, orientation, boundary, disp⟩ := b
  have e1 : (if hasGrid = true then List.map (rotChild l) (List.map (rotChild k) children) else children) =
      (if hasGrid = true then List.map (rotChild (((k + l) % 6 : Nat) : Int)) children else children) := by
    cases hasGrid
    · rfl
    · simp only [if_true, List.map_map]
      apply List.map_congr_left; intro c _; exact hchild c
  have e2 : List.map (rotBoundary l) (List.map (rotBoundary k) boundary) =
      List.map (rotBoundary (((k + l) % 6 : Nat) : Int)) boundary := by
    simp only [List.map_map]
    apply List.map_congr_left; intro v _; exact hbd v
  have e3 : Option.map (rotXY (l : Int).toNat) (Option.map (rotXY (k : Int).toNat) disp) =
      Option.map (rotXY ((((k + l) % 6 : Nat) : Int)).toNat) disp := by
    cases disp with
    | none => rfl
    | some d =>
      simp only [Option.map_some, Int.toNat_natCast, Option.some.injEq]
      rw [← rotXY_add, ← rotXY_mod]
  show Block.mk _ _ _ _ _ = Block.mk _ _ _ _ _
  congr 1
  · show (if hasGrid = true then List.map (rotChild l)
        (if hasGrid = true then List.map (rotChild k) children else children)
      else (if hasGrid = true then List.map (rotChild k) children else children)) = _
    cases hasGrid
    · rfl
    · exact e1

/-- **a full turn (`rotNum = 6`, which the rounding of `rad mod 2π` can yield) and `rotNum = 0`
leave children, corner/edge vectors and displacement unchanged**; only the orientation advances
(by 360 resp. 0) -/
theorem block_rotate_full_turn (b : Block) :
    rotateBlock 6 b = { b with orientation := b.orientation + 360 } ∧
    rotateBlock 0 b = { b with orientation := b.orientation + 0 } := by
  have hchild6 : ∀ c, rotChild 6 c = c := by
    intro c
    cases c with
    | multi cells =>
      simp only [rotChild, ChildLoc.multi.injEq]
      conv_rhs => rw [← List.map_id cells]
      apply List.map_congr_left; intro x _
      simp only [rotCell, rot_six_id, id]
    | coord x y z =>
      simp only [rotChild]
      have : (6 : Int).toNat = 6 := rfl
      rw [this, rotXY_six]
    | index i j k => simp only [rotChild, rotCell, rot_six_id]
    | none => rfl
  have hchild0 : ∀ c, rotChild 0 c = c := by
    intro c
    have h0 : ∀ p : Int × Int, rotateIndex 0 p = p := fun p => by
      have := rot_add 0 6 p; rw [rot_six_id] at this; simpa using this.symm ▸ rot_six_id p
    cases c with
    | multi cells =>
      simp only [rotChild, ChildLoc.multi.injEq]
      conv_rhs => rw [← List.map_id cells]
      apply List.map_congr_left; intro x _
      simp only [rotCell, h0, id]
    | coord x y z => rfl
    | index i j k => simp only [rotChild, rotCell, h0]
    | none => rfl
  have hb6 : ∀ v : List Rat, rotBoundary 6 v = v := by
    intro v; simp only [rotBoundary]; split
    · rename_i h; exact (pivot_six v h).1
    · rfl
  have hb0 : ∀ v : List Rat, rotBoundary 0 v = v := by
    intro v; simp only [rotBoundary]; split
    · rename_i h; exact (pivot_six v h).2
    · rfl
  obtain ⟨hasGrid, children, orientation, boundary, disp⟩ := b
  constructor
  · simp only [rotateBlock, Block.mk.injEq, true_and]
    refine ⟨?_, by norm_num, ?_, ?_⟩
    · split
      · conv_rhs => rw [← List.map_id children]
        apply List.map_congr_left; intro c _; exact hchild6 c
      · rfl
    · conv_rhs => rw [← List.map_id boundary]
      apply List.map_congr_left; intro v _; exact hb6 v
    · cases disp with
      | none => rfl
      | some d => simp only [Option.map_some, Option.some.injEq]; exact rotXY_six d
  · simp only [rotateBlock, Block.mk.injEq, true_and]
    refine ⟨?_, by norm_num, ?_, ?_⟩
    · split
      · conv_rhs => rw [← List.map_id children]
        apply List.map_congr_left; intro c _; exact hchild0 c
      · rfl
    · conv_rhs => rw [← List.map_id boundary]
      apply List.map_congr_left; intro v _; exact hb0 v
    · cases disp with
      | none => rfl
      | some d => rfl

/-! ### blocks with several multi-location children (several pin types) -/

/-- rotating a site back undoes the rotation (axial index untouched) -/
theorem rotCell_neg (k : Int) (c : Int × Int × Int) : rotCell (-k) (rotCell k c) = c := by
  obtain ⟨i, j, z⟩ := c
  simp only [rotCell, Prod.mk.eta, rotateIndex_neg]

private theorem count_map_inj {α β} [BEq α] [LawfulBEq α] [BEq β] [LawfulBEq β] (f : α → β) (hf : Function.Injective f)
    (l : List α) (a : α) : (l.map f).count (f a) = l.count a := by
  induction l with
  | nil => rfl
  | cons x xs ih =>
    simp only [List.map_cons, List.count_cons, ih]
    by_cases h : x = a
    · simp [h]
    · have : f x ≠ f a := fun e => h (hf e)
      simp [h, this]

theorem rotCell_injective (k : Int) : Function.Injective (rotCell k) := by
  intro a b h
  have := congrArg (rotCell (-k)) h
  rwa [rotCell_neg, rotCell_neg] at this

/-- **the sites of a multi-location child after the rotation are exactly that child's own sites, rotated**:
membership, multiplicity (the multiset of sites is the rotated multiset), order and number of sites -/
theorem multi_sites_rotated (k : Int) (cells : List (Int × Int × Int)) (s : Int × Int × Int) :
    (s ∈ cells.map (rotCell k) ↔ rotCell (-k) s ∈ cells) ∧
    (cells.map (rotCell k)).count (rotCell k s) = cells.count s ∧
    (cells.map (rotCell k)).length = cells.length := by
  refine ⟨⟨fun h => ?_, fun h => ?_⟩, ?_, by simp⟩
  · obtain ⟨c, hc, rfl⟩ := List.mem_map.mp h
    rwa [rotCell_neg]
  · refine List.mem_map.mpr ⟨rotCell (-k) s, h, ?_⟩
    have := rotCell_neg (-k) s
    rwa [Int.neg_neg] at this
  · exact count_map_inj (rotCell k) (rotCell_injective k) cells s

/-- two children at disjoint sites stay at disjoint sites; the same sites stay the same sites -/
theorem multi_disjoint_stay_disjoint (k : Int) (A B : List (Int × Int × Int))
    (h : ∀ s ∈ A, s ∉ B) : ∀ s ∈ A.map (rotCell k), s ∉ B.map (rotCell k) := by
  intro s hs hb
  have ha := ((multi_sites_rotated k A s).1).mp hs
  have hb' := ((multi_sites_rotated k B s).1).mp hb
  exact h _ ha hb'

/-- **every site of a multi-location child keeps its place in the list and its axial index, and its centre is
rotated by k·60° counter-clockwise about the block centre** (integer-coefficient form of `rot_geom_iter`, both
orientations, every integer k) -/
theorem multi_site_geom (cu : Bool) (k : Int) (cells : List (Int × Int × Int)) (n : Nat) (h : n < cells.length) :
    ∃ s, (cells.map (rotCell k))[n]? = some s ∧ s.2.2 = cells[n].2.2 ∧
      ((2 : Int) ^ (k % 6).toNat * (coef cu s.1 s.2.1).1, (2 : Int) ^ (k % 6).toNat * (coef cu s.1 s.2.1).2) =
        iter (R60x2 cu) (k % 6).toNat (coef cu cells[n].1 cells[n].2.1) := by
  refine ⟨rotCell k cells[n], by simp [List.getElem?_map, List.getElem?_eq_getElem h], rfl, ?_⟩
  exact rot_geom_iter cu k (cells[n].1, cells[n].2.1)

/-- `rotChild` at k < 6 has a left inverse, `rotChild` at (6 − k) mod 6 -/
theorem rotChild_left_inv (k : Nat) (hk : k < 6) (c : ChildLoc) :
    rotChild (((6 - k) % 6 : Nat) : Int) (rotChild k c) = c := by
  have hl : (6 - k) % 6 < 6 := Nat.mod_lt _ (by decide)
  have h := block_rotate_add k ((6 - k) % 6) hk hl ⟨true, [c], 0, [], none⟩
  have h0 : (k + (6 - k) % 6) % 6 = 0 := by omega
  rw [h0] at h
  have hz := (block_rotate_full_turn ⟨true, [c], 0, [], none⟩).2
  have hc := congrArg Block.children h
  simp only [rotateBlock, if_true, List.map_cons, List.map_nil] at hc
  have hz' := congrArg Block.children hz
  simp only [rotateBlock, if_true, List.map_cons, List.map_nil] at hz'
  have e : [rotChild (((6 - k) % 6 : Nat) : Int) (rotChild (k : Int) c)] = [c] := by
    rw [hc]; simpa using hz'
  simpa using e

theorem rotChild_injective (k : Nat) (hk : k < 6) : Function.Injective (rotChild (k : Int)) := by
  intro a b h
  have := congrArg (rotChild (((6 - k) % 6 : Nat) : Int)) h
  rwa [rotChild_left_inv k hk, rotChild_left_inv k hk] at this

/-- **every child is rotated on its own, whatever the other children are**: the n-th child after the rotation
is `rotChild` of the n-th child before — it depends on no other child (not on children with the same number of
sites, not on the position in the list) — and **distinct children stay distinct** (two children have the same
locator after the rotation iff they had the same locator before). -/
theorem block_rotate_children_independent (k : Nat) (hk : k < 6) (b : Block) (hg : b.hasGrid = true) :
    (∀ n (h : n < b.children.length), (rotateBlock k b).children[n]? = some (rotChild k b.children[n])) ∧
    (∀ m n (hm : m < b.children.length) (hn : n < b.children.length),
      ((rotateBlock k b).children[m]? = (rotateBlock k b).children[n]? ↔ b.children[m] = b.children[n])) := by
  have h1 : ∀ n (h : n < b.children.length), (rotateBlock k b).children[n]? = some (rotChild k b.children[n]) := by
    intro n h
    simp [rotateBlock, hg, List.getElem?_map, List.getElem?_eq_getElem h]
  refine ⟨h1, fun m n hm hn => ?_⟩
  rw [h1 m hm, h1 n hn]
  constructor
  · intro h; exact rotChild_injective k hk (Option.some.inj h)
  · intro h; rw [h]

/-- the rotated block does not depend on the order in which the children are listed: rotating commutes with every
rearrangement of the child list -/
theorem block_rotate_children_perm (k : Int) (b : Block) (cs : List ChildLoc) (hp : cs.Perm b.children) :
    ((rotateBlock k { b with children := cs }).children).Perm (rotateBlock k b).children := by
  simp only [rotateBlock]
  cases b.hasGrid
  · simpa using hp
  · simpa using hp.map _

example : (rotateBlock 1 (Block.mk true [.multi [(1, 0, 0), (-1, 1, 0), (0, -1, 0)],
    .multi [(0, 1, 0), (-1, 0, 0), (1, -1, 0)]] 0 [] none)).children =
    [.multi [(0, 1, 0), (-1, 0, 0), (1, -1, 0)], .multi [(-1, 1, 0), (0, -1, 0), (1, 0, 0)]] := by decide
example : ∀ s ∈ [((1 : Int), (0 : Int), (0 : Int)), (-1, 1, 0), (0, -1, 0)], s ∉ [((0 : Int), (1 : Int), (0 : Int)), (-1, 0, 0), (1, -1, 0)] := by
  decide

/-! ### three-index arguments (i, j, k) with k ≠ 0 -/

/-- **the axial index takes no part in any symmetry answer**: equivalents, line class, first-third membership and
domain membership of (i, j, k) are those of (i, j) — for every k -/
theorem symmetry_ignores_axial_index (i j k : Int) (sym : Nat) (top third ov : Bool) :
    sym3K (i, j, k) = sym3 (i, j) ∧ hexEquivalentsK sym (i, j, k) = hexEquivalents sym (i, j) ∧
    lineOfK (i, j, k) = lineOf (i, j) ∧ inFirstThirdK top (i, j, k) = inFirstThird top (i, j) ∧
    hexInDomainK third ov (i, j, k) = hexInDomain third ov (i, j) := ⟨rfl, rfl, rfl, rfl, rfl⟩

/-- **the centre cell at ANY axial index is its own orbit**: no equivalents (multiplicity 1), in third-core and in
full-core grids; it is classified as the centre and lies in the first third -/
theorem centre_cell_any_k (k : Int) (top : Bool) :
    sym3K (0, 0, k) = [] ∧ hexEquivalentsK 1 (0, 0, k) = some [] ∧ hexEquivalentsK 0 (0, 0, k) = some [] ∧
    lineOfK (0, 0, k) = 4 ∧ inFirstThirdK top (0, 0, k) = true := by
  refine ⟨rfl, rfl, rfl, rfl, ?_⟩
  show inFirstThird top (0, 0) = true
  cases top <;> decide

/-- off the centre, at any axial index: exactly two equivalents, the 120° and 240° images of (i, j), distinct from
the cell and from each other -/
theorem third_equivalents_any_k (i j k : Int) (h : (i, j) ≠ (0, 0)) :
    sym3K (i, j, k) = [rotateIndex 2 (i, j), rotateIndex 4 (i, j)] ∧
    rotateIndex 2 (i, j) ≠ (i, j) ∧ rotateIndex 4 (i, j) ≠ (i, j) ∧ rotateIndex 2 (i, j) ≠ rotateIndex 4 (i, j) :=
  ⟨third_equivalents_are_120_images (i, j) h, third_orbit_distinct (i, j) h⟩

/-- **`rotateIndex` on a location with any axial index**: the axial index is handed through unchanged, (i, j) rotate
as in the plane; additive, period six, undone by the opposite rotation -/
theorem rotateLoc_spec (n m : Int) (c : Int × Int × Int) :
    (rotateLoc n c).2.2 = c.2.2 ∧
    ((rotateLoc n c).1, (rotateLoc n c).2.1) = rotateIndex n (c.1, c.2.1) ∧
    rotateLoc m (rotateLoc n c) = rotateLoc (n + m) c ∧ rotateLoc 6 c = c ∧ rotateLoc (-n) (rotateLoc n c) = c := by
  refine ⟨rfl, rfl, rotCell_add n m c, ?_, rotCell_neg n c⟩
  obtain ⟨i, j, z⟩ := c
  simp only [rotateLoc, rotCell, rot_six_id]

/-- **in a 3-D hex grid the cell centre rotates about the z axis**: x, y coefficients by the k-fold 60° step, the z
coordinate (k·dz) unchanged — both orientations, every integer number of rotations -/
theorem rotateLoc_geom (cu : Bool) (n : Int) (c : Int × Int × Int) :
    (coef3 cu (rotateLoc n c)).2.2 = (coef3 cu c).2.2 ∧
    ((2 : Int) ^ (n % 6).toNat * (coef3 cu (rotateLoc n c)).1, (2 : Int) ^ (n % 6).toNat * (coef3 cu (rotateLoc n c)).2.1) =
      iter (R60x2 cu) (n % 6).toNat ((coef3 cu c).1, (coef3 cu c).2.1) :=
  ⟨rfl, rot_geom_iter cu n (c.1, c.2.1)⟩

example : rotateLoc 1 (1, 0, 3) = (0, 1, 3) ∧ sym3K (0, 0, 3) = [] ∧ sym3K (2, -1, 5) = [(-1, 2), (-1, -1)] := by decide
example : ((2 : Int), (-1 : Int)) ≠ (0, 0) := by decide

/-! ### HexAssembly.rotate -/

/-- **rotating an assembly rotates every block, each on its own**: same number of blocks, the n-th block of the
result is `rotateBlock` of the n-th block -/
theorem assembly_rotate_blocks (k : Int) (bs : List Block) :
    (rotateAssembly k bs).length = bs.length ∧
    ∀ n (h : n < bs.length), (rotateAssembly k bs)[n]? = some (rotateBlock k bs[n]) := by
  refine ⟨by simp [rotateAssembly], fun n h => ?_⟩
  simp [rotateAssembly, List.getElem?_map, List.getElem?_eq_getElem h]

/-- two assembly rotations compose like block rotations (children, boundary vectors and displacement of every
block as after one rotation by (k + l) mod 6; orientations advance by 60k + 60l) -/
theorem assembly_rotate_add (k l : Nat) (hk : k < 6) (hl : l < 6) (bs : List Block) :
    rotateAssembly l (rotateAssembly k bs) =
      bs.map (fun b => { rotateBlock (((k + l) % 6 : Nat) : Int) b with
        orientation := b.orientation + (k : Int) * 60 + (l : Int) * 60 }) := by
  simp only [rotateAssembly, List.map_map]
  apply List.map_congr_left
  intro b _
  exact block_rotate_add k l hk hl b

/-- a full turn leaves every block's children, boundary vectors and displacement unchanged -/
theorem assembly_rotate_full_turn (bs : List Block) :
    rotateAssembly 6 bs = bs.map (fun b => { b with orientation := b.orientation + 360 }) := by
  simp only [rotateAssembly]
  apply List.map_congr_left
  intro b _
  exact (block_rotate_full_turn b).1

/-- **the guard**: a rotation is carried out exactly when the remainder of the angle modulo 60° is within the
tolerance of 0 or of 60°; a refused rotation returns nothing (and, in the code, touches nothing: the check comes
before the loop) -/
theorem hex_assembly_rotate_guard (third rem tol : Rat) (k : Int) (bs : List Block) :
    (rotateHexAssembly third rem tol k bs = some (rotateAssembly k bs) ↔ (rem ≤ tol ∨ third - rem ≤ tol)) ∧
    (rotateHexAssembly third rem tol k bs = none ↔ (tol < rem ∧ tol < third - rem)) := by
  unfold rotateHexAssembly hexAssemblyAccepts
  by_cases h : min rem (third - rem) ≤ tol
  · have h' : rem ≤ tol ∨ third - rem ≤ tol := by
      rcases min_choice rem (third - rem) with e | e <;> rw [e] at h
      · exact Or.inl h
      · exact Or.inr h
    simp only [h, decide_true, if_true, true_iff, reduceCtorEq, false_iff, not_and, not_lt]
    refine ⟨h', fun h1 => ?_⟩
    rcases h' with a | a
    · exact absurd a (not_le.mpr h1)
    · exact a
  · have h1 : tol < rem := by
      by_contra hc
      exact h (le_trans (min_le_left _ _) (not_lt.mp hc))
    have h2 : tol < third - rem := by
      by_contra hc
      exact h (le_trans (min_le_right _ _) (not_lt.mp hc))
    simp only [h, decide_false, Bool.false_eq_true, if_false, reduceCtorEq, false_iff, not_or, not_le, true_iff]
    exact ⟨⟨h1, h2⟩, h1, h2⟩

example : rotateHexAssembly (21/20) (1/2000000000000) (1/1000000000000) 1
    [Block.mk true [.index 1 0 3] 0 [] none, Block.mk true [.multi [(1, 0, 0)]] 60 [] none] =
    some [Block.mk true [.index 0 1 3] 60 [] none, Block.mk true [.multi [(0, 1, 0)]] 120 [] none] := by decide +kernel
example : rotateHexAssembly (21/20) (1/2) (1/1000000000000) 1 [] = none := by decide +kernel

/-! ### Euclidean form (any field with a square root of 3, e.g. ℝ) -/

/-- the centre of cell c in an arbitrary field K containing a square root `s` of 3 (K = ℝ, s = √3 is
the physical case), for hex pitch p: the coefficient vector of `coef` in the basis stated there -/
def xyK {K : Type} [Field K] (cu : Bool) (p s : K) (c : Int × Int) : K × K :=
  if cu then (((coef cu c.1 c.2).1 : K) * (p / 2), ((coef cu c.1 c.2).2 : K) * (s / 2 * p))
  else (((coef cu c.1 c.2).1 : K) * (s / 2 * p), ((coef cu c.1 c.2).2 : K) * (p / 2))

/-- the rotation by +60° about the origin: cos 60° = 1/2, sin 60° = s/2 -/
def rot60K {K : Type} [Field K] (s : K) (v : K × K) : K × K :=
  (v.1 / 2 - s / 2 * v.2, s / 2 * v.1 + v.2 / 2)

/-- **Euclidean form of `rot_geom`**: in any field with `s² = 3` and `2 ≠ 0` (in particular ℝ with
s = √3) one index step moves the cell centre by the rotation matrix of +60°, for both orientations
and every pitch. -/
theorem rot_geom_field {K : Type} [Field K] (cu : Bool) (p s : K) (hs : s * s = 3) (h2 : (2 : K) ≠ 0)
    (c : Int × Int) : xyK cu p s (rot1 c) = rot60K s (xyK cu p s c) := by
  obtain ⟨i, j⟩ := c
  cases cu
  · simp only [xyK, rot60K, coef, rot1, Bool.false_eq_true, if_false, Prod.mk.injEq]
    push_cast
    constructor
    · field_simp; ring
    · field_simp
      linear_combination (-(i : K) * p) * hs
  · simp only [xyK, rot60K, coef, rot1, if_true, Prod.mk.injEq]
    push_cast
    constructor
    · field_simp
      linear_combination ((i : K) + j) * p * hs
    · field_simp; ring


/-- **`rotateIndex k` rotates the cell centre by k × 60° counter-clockwise, for every integer k**
(the rotation matrix applied `k mod 6` times; six applications are the identity), Euclidean form. -/
theorem rotateIndex_geom_field {K : Type} [Field K] (cu : Bool) (p s : K) (hs : s * s = 3)
    (h2 : (2 : K) ≠ 0) (k : Int) (c : Int × Int) :
    xyK cu p s (rotateIndex k c) = iter (rot60K s) (k % 6).toNat (xyK cu p s c) := by
  rw [rotateIndex_eq_iter]
  generalize (k % 6).toNat = n
  induction n generalizing c with
  | zero => rfl
  | succ n ih => simp only [iter]; rw [ih, rot_geom_field cu p s hs h2]

/-- the rotation matrix has order six: (R₆₀)⁶ = id, so `k mod 6` applications are rotation by 60k° -/
theorem rot60K_six {K : Type} [Field K] (s : K) (hs : s * s = 3) (h2 : (2 : K) ≠ 0) (v : K × K) :
    iter (rot60K s) 6 v = v := by
  obtain ⟨x, y⟩ := v
  simp only [iter, rot60K, Prod.mk.injEq]
  constructor
  · field_simp
    linear_combination (-x * s ^ 4 + 12 * x * s ^ 2 + 21 * x - 6 * s ^ 3 * y + 2 * s * y) * hs
  · field_simp
    linear_combination (6 * s ^ 3 * x - 2 * s * x - y * s ^ 4 + 12 * y * s ^ 2 + 21 * y) * hs

/-- **`pivot(l, -k)` is the cyclic shift by k for a sequence of any length n ≥ k**:
new[m] = old[(m − k) mod n] -/
theorem pivot_getElem {α} (l : List α) (k m : Nat) (hk : k ≤ l.length) (hm : m < l.length) :
    (pivot l (-(k : Int)))[m]? = l[(m + l.length - k) % l.length]? := by
  by_cases hk0 : k = 0
  · subst hk0
    simp [pivot, pyFrom, pyTo, Nat.mod_eq_of_lt hm]
  · have hneg : ¬ (-(k : Int) ≥ 0) := by omega
    have e : ((l.length : Int) + -(k : Int)).toNat = l.length - k := by omega
    simp only [pivot, pyFrom, pyTo, hneg, if_false, e]
    by_cases hmk : m < k
    · have h1 : m < (l.drop (l.length - k)).length := by simp; omega
      rw [List.getElem?_append_left h1, List.getElem?_drop]
      have : (m + l.length - k) % l.length = l.length - k + m := by
        rw [Nat.mod_eq_of_lt (by omega)]; omega
      rw [this]
    · have h1 : (l.drop (l.length - k)).length ≤ m := by simp; omega
      rw [List.getElem?_append_right h1, List.getElem?_take]
      have hlen : (l.drop (l.length - k)).length = k := by simp; omega
      rw [hlen]
      have : (m + l.length - k) % l.length = m - k := by
        have : m + l.length - k = (m - k) + l.length := by omega
        rw [this, Nat.add_mod_right, Nat.mod_eq_of_lt (by omega)]
      rw [this, if_pos (by omega)]

/-! ### non-vacuity -/
example : rotateIndex (-7) (2, -3) = rotateIndex 5 (2, -3) ∧ rotateIndex 5 (2, -3) = (-1, -2) := by decide
example : (2, -1) ≠ ((0 : Int), (0 : Int)) ∧ onEdgeLine (2, -1) = true ∧ onEdgeLine (3, -1) = false ∧
    lineOf (2, -1) = 1 ∧ lineOf (1, 1) = 2 ∧ lineOf (-1, 2) = 3 := by decide
example : inFirstThird false (-1, 2) = false ∧ inFirstThird true (-1, 2) = true ∧
    inFirstThird false (2, -1) = true := by decide +kernel
example : rotatedCell 9 2 = some 13 ∧ cellNumber 3 2 = 9 ∧ toRingPos 1 1 = (3, 2) := by decide +kernel
example : pivot [1, 2, 3, 4, 5, (6 : Int)] (-2) = [5, 6, 1, 2, 3, 4] := by decide
example : ([1, 2, 3, 4, 5, (6 : Int)]).length = 6 := rfl
example : (rotateBlock 2 (Block.mk true [ChildLoc.index 1 0 3] 0 [] none)).children =
    [ChildLoc.index (-1) 1 3] := by decide

end ArmiVerif.Hex

namespace ArmiVerif.Grid

/-! ### C08, Cartesian quarter core: equivalents = orbit of the symmetry group minus the cell -/

/-- **the index maps are the geometric symmetries of the cell centres** (doubled centre coordinates
`cdbl`, in units of half a pitch): `rot90` is the rotation by +90° about the grid centre,
`flipX` / `flipY` the reflections in the y / x axis — with a centre cell and with four central
cells around a corner point alike. -/
theorem cart_symmetry_geom (t : Bool) (c : Int × Int) :
    cdbl t (rot90 t c) = (-(cdbl t c).2, (cdbl t c).1) ∧
    cdbl t (flipX t c) = (-(cdbl t c).1, (cdbl t c).2) ∧
    cdbl t (flipY t c) = ((cdbl t c).1, -(cdbl t c).2) := by
  obtain ⟨i, j⟩ := c
  cases t <;> simp [cdbl, rot90, flipX, flipY] <;> (try omega)

/-- four quarter turns are the identity; the reflections are involutions and commute -/
theorem cart_group_laws (t : Bool) (c : Int × Int) :
    rot90 t (rot90 t (rot90 t (rot90 t c))) = c ∧ flipX t (flipX t c) = c ∧ flipY t (flipY t c) = c ∧
    flipX t (flipY t c) = flipY t (flipX t c) ∧ flipX t (flipY t c) = rot90 t (rot90 t c) := by
  obtain ⟨i, j⟩ := c
  cases t <;> simp [rot90, flipX, flipY] <;> (try omega)

/-- **periodic quarter core: the equivalents are exactly the images under the 90°, 180° and 270°
rotations that differ from the cell itself, each listed once** (all cells, both centre types) -/
theorem cart_equivalents_rotational (t : Bool) (i j : Int) :
    ∃ l, cartEquivalents 1 true t i j = some l ∧ l.Nodup ∧
      ∀ d, d ∈ l ↔ (d ≠ (i, j) ∧ (d = rot90 t (i, j) ∨ d = rot90 t (rot90 t (i, j)) ∨
                                   d = rot90 t (rot90 t (rot90 t (i, j))))) := by
  cases t <;> simp only [cartEquivalents, rot90, if_true, if_false, Bool.false_eq_true, Nat.one_ne_zero,
    OfNat.ofNat_ne_zero]
  · refine ⟨_, rfl, ?_, ?_⟩
    · simp only [List.nodup_cons, List.mem_cons, List.not_mem_nil, or_false, Prod.mk.injEq, List.nodup_nil,
        and_true, not_or, not_and, not_false_eq_true]
      omega
    · intro ⟨a, b⟩
      simp only [List.mem_cons, List.not_mem_nil, or_false, Prod.mk.injEq, ne_eq, not_and]
      omega
  · repeat' split
    all_goals refine ⟨_, rfl, ?_, ?_⟩
    all_goals (try (intro ⟨a, b⟩))
    all_goals simp only [List.nodup_cons, List.mem_cons, List.not_mem_nil, or_false, Prod.mk.injEq,
      List.nodup_nil, and_true, not_or, not_and, ne_eq, not_false_eq_true, false_iff, not_true_eq_false] at *
    all_goals omega

/-- **reflective quarter core: the equivalents are exactly the mirror images in the two axes and
their composition that differ from the cell, each listed once** -/
theorem cart_equivalents_reflective (t : Bool) (i j : Int) :
    ∃ l, cartEquivalents 1 false t i j = some l ∧ l.Nodup ∧
      ∀ d, d ∈ l ↔ (d ≠ (i, j) ∧ (d = flipX t (i, j) ∨ d = flipY t (i, j) ∨
                                   d = flipX t (flipY t (i, j)))) := by
  cases t <;> simp only [cartEquivalents, flipX, flipY, if_true, if_false, Bool.false_eq_true, Nat.one_ne_zero,
    OfNat.ofNat_ne_zero]
  · refine ⟨_, rfl, ?_, ?_⟩
    · simp only [List.nodup_cons, List.mem_cons, List.not_mem_nil, or_false, Prod.mk.injEq, List.nodup_nil,
        and_true, not_or, not_and, not_false_eq_true]
      omega
    · intro ⟨a, b⟩
      simp only [List.mem_cons, List.not_mem_nil, or_false, Prod.mk.injEq, ne_eq, not_and]
      omega
  · repeat' split
    all_goals refine ⟨_, rfl, ?_, ?_⟩
    all_goals (try (intro ⟨a, b⟩))
    all_goals simp only [List.nodup_cons, List.mem_cons, List.not_mem_nil, or_false, Prod.mk.injEq,
      List.nodup_nil, and_true, not_or, not_and, ne_eq, not_false_eq_true, false_iff, not_true_eq_false] at *
    all_goals omega

/-- full core: no equivalents; unsupported domains are refused -/
theorem cart_equivalents_full (r t : Bool) (i j : Int) :
    cartEquivalents 0 r t i j = some [] ∧ cartEquivalents 2 r t i j = none := by
  constructor <;> rfl

/-- **exactly one member of every orbit lies in the quarter-core domain**, for every cell off the
symmetry axes (with four central cells no cell is on an axis) -/
theorem cart_orbit_one_in_domain (r t : Bool) (i j : Int) (hoff : t = true → i ≠ 0 ∧ j ≠ 0) :
    ∃ l, cartEquivalents 1 r t i j = some l ∧
      (((i, j) :: l).filter (fun c => cartInDomain true c.1 c.2)).length = 1 := by
  cases t
  · cases r <;> simp only [cartEquivalents, if_true, if_false, Bool.false_eq_true, Nat.one_ne_zero,
      OfNat.ofNat_ne_zero] <;> refine ⟨_, rfl, ?_⟩ <;>
      simp only [List.filter_cons, cartInDomain, if_true, decide_eq_true_eq] <;>
      repeat' split
    all_goals (first | rfl | (exfalso; omega))
  · obtain ⟨hi, hj⟩ := hoff rfl
    have h0 : ¬ (i = 0 ∧ j = 0) := by omega
    cases r <;> simp only [cartEquivalents, if_true, if_false, Bool.false_eq_true, Nat.one_ne_zero,
      OfNat.ofNat_ne_zero, h0, hi, hj] <;> refine ⟨_, rfl, ?_⟩ <;>
      simp only [List.filter_cons, cartInDomain, if_true, decide_eq_true_eq] <;>
      repeat' split
    all_goals (first | rfl | (exfalso; omega))

/-- **Cartesian grids, three-index arguments**: the axial index takes no part; the centre cell of a through-centre
quarter core at any k has no equivalents; full core never has any -/
theorem cart_equivalents_any_k (d : Nat) (r t : Bool) (i j k : Int) :
    cartEquivalentsK d r t (i, j, k) = cartEquivalents d r t i j ∧
    cartEquivalentsK 1 r true (0, 0, k) = some [] ∧ cartEquivalentsK 0 r t (i, j, k) = some [] :=
  ⟨rfl, by simp [cartEquivalentsK, cartEquivalents], by simp [cartEquivalentsK, cartEquivalents]⟩

example : cartEquivalents 1 true false 2 3 = some [(-4, 2), (-3, -4), (3, -3)] := by decide
example : cartEquivalents 1 false true 0 3 = some [(0, -3)] := by decide
example : (true = true → (2 : Int) ≠ 0 ∧ (3 : Int) ≠ 0) := by decide

end ArmiVerif.Grid
