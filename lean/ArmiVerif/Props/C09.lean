/-
C09 — CCCC nuclear-data files read back exactly what was written; records are framed.
Model: ArmiVerif/Model/Cccc.lean (transcribes armi/nuclearDataIO/cccc/cccc.py and the band/bandwidth
arithmetic of isotxs.py, pwdint.py, rtflux.py, rzflux.py).
-/
import ArmiVerif.Model.Cccc
import Mathlib.Data.List.Forall2
import Mathlib.Data.List.Perm.Basic
import Mathlib.Data.List.Nodup
import Mathlib.Data.List.Range
import Mathlib.Tactic.Ring

namespace ArmiVerif.Cccc

/-! ### helper lemmas (private) -/

private theorem leBytes_length (k n : Nat) : (leBytes k n).length = k := by
  induction k generalizing n with
  | zero => rfl
  | succ k ih => simp [leBytes, ih]

private theorem leVal_leBytes (k n : Nat) : leVal (leBytes k n) = n % 256 ^ k := by
  induction k generalizing n with
  | zero => simp [leBytes, leVal, Nat.mod_one]
  | succ k ih =>
    simp only [leBytes, leVal, ih]
    have h : (UInt8.ofNat (n % 256)).toNat = n % 256 := by simp
    rw [h, Nat.pow_succ, Nat.mul_comm (256 ^ k) 256, Nat.mod_mul]

private theorem leBytes_leVal (bs : Bytes) : leBytes bs.length (leVal bs) = bs := by
  induction bs with
  | nil => rfl
  | cons b bs ih =>
    simp only [List.length_cons, leBytes, leVal]
    have hb := b.toNat_lt_size
    have h1 : (b.toNat + 256 * leVal bs) % 256 = b.toNat := by simp [UInt8.size] at hb; omega
    have h2 : (b.toNat + 256 * leVal bs) / 256 = leVal bs := by simp [UInt8.size] at hb; omega
    rw [h1, h2, ih]; simp

private theorem leVal_lt (bs : Bytes) : leVal bs < 256 ^ bs.length := by
  induction bs with
  | nil => simp [leVal]
  | cons b bs ih =>
    simp only [List.length_cons, leVal, Nat.pow_succ]
    have hb := b.toNat_lt_size
    simp [UInt8.size] at hb; omega

private theorem takeExact_append (k : Nat) (w rest : Bytes) (h : w.length = k) :
    takeExact k (w ++ rest) = some (w, rest) := by
  induction k generalizing w with
  | zero =>
    have : w = [] := List.eq_nil_of_length_eq_zero h
    subst this; simp [takeExact]
  | succ k ih =>
    match w, h with
    | b :: w', h =>
      have h' : w'.length = k := by simpa using h
      simp [takeExact, ih w' h']

private theorem takeExact_some (k : Nat) (bs w rest : Bytes) (h : takeExact k bs = some (w, rest)) :
    w ++ rest = bs ∧ w.length = k := by
  induction k generalizing bs w rest with
  | zero =>
    simp only [takeExact, Option.some.injEq, Prod.mk.injEq] at h
    obtain ⟨h1, h2⟩ := h; subst h1; subst h2; simp
  | succ k ih =>
    match bs, h with
    | [], h => simp [takeExact] at h
    | b :: bs', h =>
      simp only [takeExact] at h
      split at h
      · simp at h
      · rename_i w' r' hw
        simp only [Option.some.injEq, Prod.mk.injEq] at h
        obtain ⟨h1, h2⟩ := h; subst h1; subst h2
        obtain ⟨h3, h4⟩ := ih bs' w' r' hw
        simp [h3, h4]

private theorem dropWhile_replicate_append (p : UInt8 → Bool) (a : UInt8) (m : Nat) (l : Bytes)
    (h : p a = true) : (List.replicate m a ++ l).dropWhile p = l.dropWhile p := by
  induction m with
  | zero => simp
  | succ m ih => simp [List.replicate_succ, h, ih]

private theorem rstrip_append_spaces (s : Bytes) (m : Nat) :
    rstrip (s ++ List.replicate m 32) = rstrip s := by
  unfold rstrip
  rw [List.reverse_append, List.reverse_replicate, dropWhile_replicate_append _ _ _ _ (by decide)]

private theorem padTo_of_le (len : Nat) (s : Bytes) (h : s.length ≤ len) :
    padTo len s = s ++ List.replicate (len - s.length) 32 := by
  unfold padTo
  apply List.take_of_length_le
  simp; omega

private theorem padTo_length (len : Nat) (s : Bytes) : (padTo len s).length = len := by
  unfold padTo
  simp; omega

/-! ### what a `rw*` routine has to satisfy -/

/-- reading what the writer routine appended returns the value written and leaves the rest -/
def Codec.RT {β} (c : Codec β) : Prop :=
  ∀ v rest, c.ok v → c.dec (c.enc v ++ rest) = some (v, rest)

/-- the routine adds to `numBytes` exactly the number of bytes it appends -/
def Codec.LenExact {β} (c : Codec β) : Prop := ∀ v, (c.enc v).length = c.size v

/-- every byte string the reader routine accepts is the writer routine's encoding of the value returned -/
def Codec.DecEnc {β} (c : Codec β) : Prop :=
  ∀ bs v rest, c.dec bs = some (v, rest) → c.enc v ++ rest = bs

/-! ### primitive round trips, with explicit range guards -/

/-- 32-bit integers (`rwInt`): every v with −2³¹ ≤ v < 2³¹ -/
theorem int32_roundtrip : int32.RT := by
  intro v rest h
  simp only [int32, takeExact_append 4 _ rest (leBytes_length 4 _), leVal_leBytes]
  have : toSigned 32 (toUnsigned 32 v % 256 ^ 4) = v := by
    unfold toSigned toUnsigned
    simp only [show (256:Nat)^4 = 4294967296 by decide, show (2:Nat)^(32-1) = 2147483648 by decide]
    obtain ⟨h1, h2⟩ := h
    split <;> omega
  rw [this]
example : int32.ok (-2147483648) ∧ int32.ok 2147483647 := by simp [int32]

/-- 64-bit integers (`rwLong`): every v with −2⁶³ ≤ v < 2⁶³ -/
theorem int64_roundtrip : int64.RT := by
  intro v rest h
  simp only [int64, takeExact_append 8 _ rest (leBytes_length 8 _), leVal_leBytes]
  have : toSigned 64 (toUnsigned 64 v % 256 ^ 8) = v := by
    unfold toSigned toUnsigned
    simp only [show (256:Nat)^8 = 18446744073709551616 by decide,
      show (2:Nat)^(64-1) = 9223372036854775808 by decide]
    obtain ⟨h1, h2⟩ := h
    split <;> omega
  rw [this]
example : int64.ok (-9223372036854775808) ∧ int64.ok 123456789012 := by simp [int64]

/-- single-precision reals as 32-bit patterns (`rwFloat`) -/
theorem bits32_roundtrip : bits32.RT := by
  intro v rest h
  simp only [bits32, takeExact_append 4 _ rest (leBytes_length 4 _), leVal_leBytes]
  have h' : v < 4294967296 := h
  rw [show (256:Nat)^4 = 4294967296 by decide, Nat.mod_eq_of_lt h']
example : bits32.ok 1078530011 := by simp [bits32]

/-- double-precision reals as 64-bit patterns (`rwDouble`) -/
theorem bits64_roundtrip : bits64.RT := by
  intro v rest h
  simp only [bits64, takeExact_append 8 _ rest (leBytes_length 8 _), leVal_leBytes]
  have h' : v < 18446744073709551616 := h
  rw [show (256:Nat)^8 = 18446744073709551616 by decide, Nat.mod_eq_of_lt h']
example : bits64.ok 4609434218613702656 := by simp [bits64]

/-- fixed-length strings (`rwString`): text no longer than the field and without trailing blanks -/
theorem str_roundtrip (len : Nat) : (str len).RT := by
  intro v rest h
  obtain ⟨h1, h2⟩ := h
  simp only [str, takeExact_append len _ rest (padTo_length len v)]
  rw [padTo_of_le len v h1, rstrip_append_spaces, h2]
example : (str 6).ok [65, 66] := by
  show ([65, 66] : Bytes).length ≤ 6 ∧ rstrip [65, 66] = [65, 66]
  decide

/-- a string with trailing blanks is NOT read back as written (why `ok` demands `rstrip s = s`) -/
theorem str_trailing_blank_lost : (str 4).dec ((str 4).enc [65, 32]) = some ([65], []) := by decide

/-- all five binary routines count what they append (`numBytes`), `rwLong` included (F1 fixed) -/
theorem int32_len : int32.LenExact := fun _ => leBytes_length 4 _
theorem int64_len : int64.LenExact := fun _ => leBytes_length 8 _
theorem bits32_len : bits32.LenExact := fun _ => leBytes_length 4 _
theorem bits64_len : bits64.LenExact := fun _ => leBytes_length 8 _
theorem str_len (len : Nat) : (str len).LenExact := fun s => padTo_length len s

private theorem word_decenc (k : Nat) (bs w rest : Bytes) (h : takeExact k bs = some (w, rest)) :
    leBytes k (leVal w) ++ rest = bs := by
  obtain ⟨h1, h2⟩ := takeExact_some k bs w rest h
  subst h2; rw [leBytes_leVal, h1]

/-- every 4-byte string is the encoding of the integer it decodes to -/
theorem int32_decenc : int32.DecEnc := by
  intro bs v rest h
  simp only [int32] at h ⊢
  split at h
  · simp at h
  · rename_i w r hw
    simp only [Option.some.injEq, Prod.mk.injEq] at h
    obtain ⟨hv, hr⟩ := h
    subst hv; subst hr
    have hl := (takeExact_some 4 bs w r hw).2
    have hlt := leVal_lt w
    rw [hl] at hlt
    have : toUnsigned 32 (toSigned 32 (leVal w)) = leVal w := by
      unfold toSigned toUnsigned
      simp only [show (2:Nat)^(32-1) = 2147483648 by decide] at *
      simp only [show (256:Nat)^4 = 4294967296 by decide] at hlt
      split <;> omega
    rw [this]
    exact word_decenc 4 bs w r hw

theorem int64_decenc : int64.DecEnc := by
  intro bs v rest h
  simp only [int64] at h ⊢
  split at h
  · simp at h
  · rename_i w r hw
    simp only [Option.some.injEq, Prod.mk.injEq] at h
    obtain ⟨hv, hr⟩ := h
    subst hv; subst hr
    have hl := (takeExact_some 8 bs w r hw).2
    have hlt := leVal_lt w
    rw [hl] at hlt
    have : toUnsigned 64 (toSigned 64 (leVal w)) = leVal w := by
      unfold toSigned toUnsigned
      simp only [show (2:Nat)^(64-1) = 9223372036854775808 by decide] at *
      simp only [show (256:Nat)^8 = 18446744073709551616 by decide] at hlt
      split <;> omega
    rw [this]
    exact word_decenc 8 bs w r hw

theorem bits32_decenc : bits32.DecEnc := by
  intro bs v rest h
  simp only [bits32] at h ⊢
  split at h
  · simp at h
  · rename_i w r hw
    simp only [Option.some.injEq, Prod.mk.injEq] at h
    obtain ⟨hv, hr⟩ := h
    subst hv; subst hr
    exact word_decenc 4 bs w r hw

theorem bits64_decenc : bits64.DecEnc := by
  intro bs v rest h
  simp only [bits64] at h ⊢
  split at h
  · simp at h
  · rename_i w r hw
    simp only [Option.some.injEq, Prod.mk.injEq] at h
    obtain ⟨hv, hr⟩ := h
    subst hv; subst hr
    exact word_decenc 8 bs w r hw

/-! ### bidirectional programs -/

/-- every routine the program calls (along the path the writer takes) round-trips on its domain -/
def RW.RT {α} : RW α → Prop
  | .done _ => True
  | .prim c v k => c.RT ∧ RW.RT (k v)

/-- every routine the program calls is one of the five BinaryRecordWriter/Reader routines -/
inductive IsBinary : {β : Type} → Codec β → Prop
  | i32 : IsBinary int32
  | i64 : IsBinary int64
  | f32 : IsBinary bits32
  | f64 : IsBinary bits64
  | s (len : Nat) : IsBinary (str len)

def RW.Binary {α} : RW α → Prop
  | .done _ => True
  | .prim c v k => IsBinary c ∧ RW.Binary (k v)

theorem IsBinary.rt {β} {c : Codec β} (h : IsBinary c) : c.RT := by
  cases h
  · exact int32_roundtrip
  · exact int64_roundtrip
  · exact bits32_roundtrip
  · exact bits64_roundtrip
  · exact str_roundtrip _

theorem IsBinary.lenExact {β} {c : Codec β} (h : IsBinary c) : c.LenExact := by
  cases h
  · exact int32_len
  · exact int64_len
  · exact bits32_len
  · exact bits64_len
  · exact str_len _

theorem RW.Binary.rt {α} (p : RW α) (h : p.Binary) : p.RT := by
  induction p with
  | done a => trivial
  | prim c v k ih => exact ⟨h.1.rt, ih v h.2⟩

theorem RW.Binary.exact {α} (p : RW α) (h : p.Binary) : p.Exact := by
  induction p with
  | done a => trivial
  | prim c v k ih => exact ⟨h.1.lenExact, ih v h.2⟩

/-- **Read-back.** For every record program — whatever its field types, and however later fields,
loop bounds or optional parts depend on values returned earlier — reading the bytes the writer
produced returns exactly the writer's result and consumes exactly those bytes. -/
theorem rw_roundtrip {α} (p : RW α) (hl : p.RT) (h : p.WF) (rest : Bytes) :
    p.read (p.write.1 ++ rest) = some (p.write.2.2, rest) := by
  induction p with
  | done a => simp [RW.read, RW.write]
  | prim c v k ih =>
    obtain ⟨hv, hk⟩ := h
    obtain ⟨hc, hlk⟩ := hl
    simp only [RW.write, RW.read, List.append_assoc]
    rw [hc v _ hv]
    exact ih v hlk hk

/-- the binary instance: no hypothesis on the routines is left -/
theorem rw_roundtrip_binary {α} (p : RW α) (hb : p.Binary) (h : p.WF) (rest : Bytes) :
    p.read (p.write.1 ++ rest) = some (p.write.2.2, rest) :=
  rw_roundtrip p (RW.Binary.rt p hb) h rest

/-- a data-dependent program: an int `n`, then `n` doubles when `n > 0` else one string -/
private def demo (n : Int) : RW (Int × List Nat) :=
  .prim int32 n (fun m =>
    if m > 0 then rwList bits64 (List.replicate m.toNat 7) (fun xs => .done (m, xs))
    else .prim (str 4) [65] (fun _ => .done (m, [])))
example : (demo 2).Binary ∧ (demo 0).Binary := by
  simp [demo, RW.Binary, rwList, IsBinary.i32, IsBinary.f64, IsBinary.s, List.replicate]
example : (demo 2).WF ∧ (demo 0).WF := by
  simp [demo, RW.WF, rwList, int32, bits64, str, List.replicate]
  decide

/-- lists (and therefore matrices and implicitly typed maps, which are lists of primitive calls) stay inside
the class of binary programs: the general theorems apply to records that contain them -/
theorem rwList_binary {β α} (c : Codec β) (hc : IsBinary c) (vs : List β) (k : List β → RW α)
    (hk : ∀ xs, (k xs).Binary) : (rwList c vs k).Binary := by
  induction vs generalizing k with
  | nil => exact hk []
  | cons v vs ih => exact ⟨hc, ih _ (fun xs => hk (v :: xs))⟩

theorem rwList_wf {β α} (c : Codec β) (vs : List β) (k : List β → RW α)
    (hv : ∀ v ∈ vs, c.ok v) (hk : (k vs).WF) : (rwList c vs k).WF := by
  induction vs generalizing k with
  | nil => exact hk
  | cons v vs ih =>
    refine ⟨hv v (by simp), ih _ (fun x hx => hv x (by simp [hx])) ?_⟩
    exact hk

/-- a list is written as the concatenation of its elements' encodings and returns the list itself -/
theorem rwList_write {β α} (c : Codec β) (vs : List β) (k : List β → RW α) :
    (rwList c vs k).write.1 = (vs.flatMap c.enc) ++ (k vs).write.1 ∧ (rwList c vs k).write.2.2 = (k vs).write.2.2 := by
  induction vs generalizing k with
  | nil => simp [rwList]
  | cons v vs ih =>
    simp only [rwList, RW.write, List.flatMap_cons, List.append_assoc]
    have := ih (fun xs => k (v :: xs))
    exact ⟨by rw [this.1], this.2⟩

/-- the count the writer accumulates in `numBytes` is the payload length, for every program whose
routines count what they append -/
theorem declared_eq_length {α} (p : RW α) (h : p.Exact) : p.write.2.1 = p.write.1.length := by
  induction p with
  | done a => simp [RW.write]
  | prim c v k ih =>
    simp only [RW.write, List.length_append]
    rw [h.1 v, ih v h.2]

/-- **Record framing.** A record of ANY sequence of int / long / real / double / string fields
(lists and matrices are sequences of these) is written as
`count ++ payload ++ count` with `count` = the payload's byte length, little-endian in 4 bytes,
followed by the rest of the file. -/
theorem record_framed {α β} (body : RW β) (k : β → File α) (hb : body.Binary) :
    ((File.record body k).write binaryFrame).1 =
      leBytes 4 (toUnsigned 32 body.write.1.length) ++ body.write.1 ++
      leBytes 4 (toUnsigned 32 body.write.1.length) ++ ((k body.write.2.2).write binaryFrame).1 := by
  simp only [File.write, binaryFrame, int32, List.append_nil, List.append_assoc]
  rw [declared_eq_length body (RW.Binary.exact body hb)]

/-- what the two counts decode to: the payload length, whenever it is below 2³¹ -/
theorem record_counts_decode (n : Nat) (h : n < 2147483648) (rest : Bytes) :
    int32.dec (leBytes 4 (toUnsigned 32 n) ++ rest) = some ((n : Int), rest) :=
  int32_roundtrip (n : Int) rest ⟨by omega, by omega⟩

/-- every (count, payload) pair of a binary file has count = payload length -/
def File.Binary {α} : File α → Prop
  | .done _ => True
  | .record body k => body.Binary ∧ File.Binary (k body.write.2.2)

theorem frames_counts {α} (f : File α) (hb : f.Binary) : ∀ fr ∈ f.frames, fr.1 = fr.2.length := by
  induction f with
  | done a => simp [File.frames]
  | record body k ih =>
    intro fr hfr
    simp only [File.frames, List.mem_cons] at hfr
    rcases hfr with h | h
    · subst h; exact declared_eq_length body (RW.Binary.exact body hb.1)
    · exact ih _ hb.2 fr h

def File.RT {α} : File α → Prop
  | .done _ => True
  | .record body k => body.RT ∧ File.RT (k body.write.2.2)

theorem File.Binary.rt {α} (f : File α) (h : f.Binary) : f.RT := by
  induction f with
  | done a => trivial
  | record body k ih => exact ⟨RW.Binary.rt body h.1, ih _ h.2⟩

/-- **Whole-file read-back**, any framing whose count field round-trips (binary: int32; ASCII: the
11-column integer field), any sequence of records, record presence depending on earlier data. -/
theorem file_roundtrip {α} (fr : Frame) (hfr : fr.count.RT) (f : File α) (hl : f.RT) (h : f.WF fr)
    (rest : Bytes) : f.read fr ((f.write fr).1 ++ rest) = some ((f.write fr).2, rest) := by
  induction f with
  | done a => simp [File.read, File.write]
  | record body k ih =>
    obtain ⟨hbody, hcnt, hk⟩ := h
    obtain ⟨hlb, hlk⟩ := hl
    simp only [File.write, File.read, List.append_assoc]
    rw [hfr _ _ hcnt]
    simp only []
    rw [rw_roundtrip body hlb hbody]
    simp only []
    rw [hfr _ _ hcnt]
    simp only [↓reduceIte]
    rw [takeExact_append fr.term.length fr.term _ rfl]
    exact ih _ hlk hk

theorem file_roundtrip_binary {α} (f : File α) (hb : f.Binary) (h : f.WF binaryFrame) (rest : Bytes) :
    f.read binaryFrame ((f.write binaryFrame).1 ++ rest) = some ((f.write binaryFrame).2, rest) :=
  file_roundtrip binaryFrame int32_roundtrip f (File.Binary.rt f hb) h rest

/-- a two-record file whose second record exists only when the first one's flag says so -/
private def demoFile (flag : Int) : File Int :=
  .record (.prim int32 flag (fun m => .done m)) (fun m =>
    if m > 0 then .record (.prim int64 5 (fun x => .prim (str 3) [66] (fun _ => .done x))) (fun x => .done x)
    else .done m)
example : (demoFile 1).Binary ∧ (demoFile 0).Binary := by
  simp [demoFile, File.Binary, RW.Binary, RW.write, IsBinary.i32, IsBinary.i64, IsBinary.s]
example : (demoFile 1).WF binaryFrame := by
  simp [demoFile, File.WF, RW.WF, RW.write, int32, int64, str, binaryFrame]
  decide

/-- **Writing what was read reproduces the bytes.** If a record program reads `bs` successfully and
every field read is canonically encoded (automatic for int/long/real/double, see `*_decenc`; for a
string field it means the padding is blanks), then the program re-seeded with the values read
writes exactly the bytes that were consumed. -/
theorem rewrite_identical {α} (p : RW α) (bs rest : Bytes) (a : α)
    (hr : p.read bs = some (a, rest)) (hc : p.Canon bs) :
    (p.reseed bs).write.1 ++ rest = bs ∧ (p.reseed bs).write.2.2 = a := by
  induction p generalizing bs with
  | done a' =>
    simp only [RW.read, Option.some.injEq, Prod.mk.injEq] at hr
    simp [RW.reseed, RW.write, hr.1, hr.2]
  | prim c v k ih =>
    simp only [RW.read] at hr
    simp only [RW.Canon] at hc
    simp only [RW.reseed]
    split at hr
    · simp at hr
    · rename_i x r hx
      rw [hx] at hc
      simp only [hx, RW.write, List.append_assoc]
      obtain ⟨h1, h2⟩ := ih x r hr hc.2
      rw [h1, h2]
      exact ⟨hc.1, rfl⟩

/-- canonicity is automatic for programs made of numeric fields only -/
def RW.Numeric {α} : RW α → Prop
  | .done _ => True
  | .prim c _ k => c.DecEnc ∧ ∀ x, RW.Numeric (k x)

theorem numeric_canon {α} (p : RW α) (h : p.Numeric) (bs : Bytes) : p.Canon bs := by
  induction p generalizing bs with
  | done a => trivial
  | prim c v k ih =>
    simp only [RW.Canon]
    split
    · trivial
    · rename_i x r hx
      exact ⟨h.1 bs x r hx, ih x (h.2 x) r⟩

example : (RW.prim int32 0 (fun _ => RW.prim bits64 0 (fun x => RW.done x))).Numeric :=
  ⟨int32_decenc, fun _ => ⟨bits64_decenc, fun _ => trivial⟩⟩

/-- what the writer produced is canonical, and re-seeding a program from its own output changes nothing -/
theorem written_canon {α} (p : RW α) (hl : p.RT) (h : p.WF) (rest : Bytes) :
    p.Canon (p.write.1 ++ rest) ∧ (p.reseed (p.write.1 ++ rest)).write = p.write := by
  induction p with
  | done a => simp [RW.Canon, RW.reseed]
  | prim c v k ih =>
    obtain ⟨hv, hk⟩ := h
    obtain ⟨hc, hlk⟩ := hl
    have hd := hc v ((k v).write.1 ++ rest) hv
    obtain ⟨i1, i2⟩ := ih v hlk hk
    simp only [RW.Canon, RW.reseed, RW.write, List.append_assoc, hd]
    exact ⟨⟨trivial, i1⟩, by rw [i2]⟩


/-- **Writing what was read reproduces the whole file**: if a file program (any sequence of records, record
presence depending on earlier data) reads `bs` and `bs` is canonically encoded (`File.Canon`: blank-padded text,
canonical count fields, each leading count equal to the bytes its fields declare, the frame's terminator), then the
program re-seeded with the values read writes exactly the bytes consumed and returns the same data. -/
theorem file_rewrite_identical {α} (fr : Frame) (f : File α) (bs rest : Bytes) (a : α)
    (hr : f.read fr bs = some (a, rest)) (hc : f.Canon fr bs) :
    ((f.reseed fr bs).write fr).1 ++ rest = bs ∧ ((f.reseed fr bs).write fr).2 = a := by
  induction f generalizing bs with
  | done a' =>
    simp only [File.read, Option.some.injEq, Prod.mk.injEq] at hr
    simp [File.reseed, File.write, hr.1, hr.2]
  | record body k ih =>
    simp only [File.read] at hr
    simp only [File.Canon] at hc
    simp only [File.reseed]
    split at hr
    · simp at hr
    · rename_i n r1 h1
      rw [h1] at hc
      simp only [] at hc
      try simp only [h1]
      split at hr
      · simp at hr
      · rename_i b r2 h2
        rw [h2] at hc
        simp only [] at hc
        try simp only [h2]
        split at hr
        · simp at hr
        · rename_i n2 r3 h3
          rw [h3] at hc
          simp only [] at hc
          try simp only [h3]
          split at hr
          · rename_i hn
            split at hr
            · simp at hr
            · rename_i w r4 h4
              rw [h4] at hc
              simp only [] at hc
              try simp only [h4]
              obtain ⟨c1, c2, c3, c4, c5, c6⟩ := hc
              obtain ⟨b1, b2⟩ := rewrite_identical body r1 r2 b h2 c3
              simp only [File.write, List.append_assoc]
              rw [b2]
              obtain ⟨i1, i2⟩ := ih b r4 hr c6
              obtain ⟨t1, _⟩ := takeExact_some _ _ _ _ h4
              rw [i1, i2, ← c2, ← c5, t1]
              subst hn
              rw [c4, b1, c1]
              exact ⟨rfl, rfl⟩
          · simp at hr

/-- the same for whole files: a file the writer produced (with a frame whose count field round-trips and whose
declared counts fit it) is canonical -/
theorem written_file_canon {α} (fr : Frame) (hfr : fr.count.RT) (f : File α) (hl : f.RT) (h : f.WF fr)
    (rest : Bytes) : f.Canon fr ((f.write fr).1 ++ rest) := by
  induction f with
  | done a => trivial
  | record body k ih =>
    obtain ⟨hbody, hcnt, hk⟩ := h
    obtain ⟨hlb, hlk⟩ := hl
    simp only [File.write, File.Canon, List.append_assoc]
    rw [hfr _ _ hcnt]
    simp only []
    rw [rw_roundtrip body hlb hbody]
    simp only []
    rw [hfr _ _ hcnt]
    simp only []
    rw [takeExact_append fr.term.length fr.term _ rfl]
    simp only []
    obtain ⟨c1, c2⟩ := written_canon body hlb hbody
      (fr.count.enc ↑body.write.2.1 ++ (fr.term ++ ((File.write fr (k body.write.2.2)).1 ++ rest)))
    exact ⟨trivial, by rw [c2], c1, trivial, trivial, ih _ hlk hk⟩

/-- together: reading a file the writer produced and writing what was read gives the same bytes (binary frame) -/
theorem write_read_write_binary {α} (f : File α) (hb : f.Binary) (h : f.WF binaryFrame) (rest : Bytes) :
    ((f.reseed binaryFrame ((f.write binaryFrame).1 ++ rest)).write binaryFrame).1 ++ rest
      = (f.write binaryFrame).1 ++ rest :=
  (file_rewrite_identical binaryFrame f _ rest _ (file_roundtrip_binary f hb h rest)
    (written_file_canon binaryFrame int32_roundtrip f (File.Binary.rt f hb) h rest)).1

/-- an int and a 4-character text: read from canonical bytes and re-written identically; a text field padded
with a tab is not canonical (it would be re-written with blanks) -/
private def pp : RW Bytes := .prim int32 0 (fun _ => .prim (str 4) [] (fun s => .done s))
example : pp.read [7, 0, 0, 0, 65, 66, 32, 32, 9] = some ([65, 66], [9]) ∧
    (pp.reseed [7, 0, 0, 0, 65, 66, 32, 32, 9]).write.1 = [7, 0, 0, 0, 65, 66, 32, 32] := by decide
example : pp.Canon [7, 0, 0, 0, 65, 66, 32, 32, 9] := by
  have h1 : int32.dec [7, 0, 0, 0, 65, 66, 32, 32, 9] = some (7, [65, 66, 32, 32, 9]) := by decide
  have h2 : (str 4).dec [65, 66, 32, 32, 9] = some ([65, 66], [9]) := by decide
  simp only [pp, RW.Canon, h1, h2]
  decide
example : ¬ (RW.prim (str 4) [] (fun s => RW.done s)).Canon [65, 66, 9, 32] := by
  have h2 : (str 4).dec [65, 66, 9, 32] = some ([65, 66], []) := by decide
  simp only [RW.Canon, h2]
  decide

/-! ### Fortran-order matrices (IORecord._rwMatrix) -/

private theorem product_mem (shape ix : List Nat) : ix ∈ product shape ↔ List.Forall₂ (· < ·) ix shape := by
  induction shape generalizing ix with
  | nil => cases ix <;> simp [product]
  | cons n ns ih =>
    cases ix with
    | nil => simp [product]
    | cons i is =>
      simp only [product, List.mem_flatMap, List.mem_range, List.mem_map, List.forall₂_cons]
      constructor
      · rintro ⟨a, ha, t, ht, heq⟩
        simp only [List.cons.injEq] at heq
        obtain ⟨h1, h2⟩ := heq
        subst h1; subst h2
        exact ⟨ha, (ih t).1 ht⟩
      · rintro ⟨h1, h2⟩
        exact ⟨i, h1, is, (ih is).2 h2, rfl⟩

private theorem product_nodup (shape : List Nat) : (product shape).Nodup := by
  induction shape with
  | nil => simp [product]
  | cons n ns ih =>
    simp only [product]
    rw [List.nodup_flatMap]
    constructor
    · intro i _
      exact ih.map (fun a b h => by simpa using h)
    · have : (List.range n).Nodup := List.nodup_range
      refine List.Pairwise.imp_of_mem ?_ this
      intro a b _ _ hab
      simp only [Function.onFun, List.disjoint_left, List.mem_map]
      rintro x ⟨t, _, rfl⟩ ⟨t', _, h⟩
      simp at h
      exact hab h.1.symm

/-- **`_rwMatrix` visits every element of `contents` exactly once**: the multi-indices it applies `func` to
(`tuple(reversed(index))` for `index` in `itertools.product` over `shape`) are, without repetition, exactly
the index set of an array of shape `reversed(shape)` - for every number of dimensions. -/
theorem matrix_fortran_bijection (shape : List Nat) :
    (matrixOrder shape).Nodup ∧ (∀ ix, ix ∈ matrixOrder shape ↔ ix ∈ product shape.reverse) ∧
    (matrixOrder shape).Perm (product shape.reverse) := by
  have hn : (matrixOrder shape).Nodup :=
    (product_nodup shape).map (fun a b h => List.reverse_injective h)
  have hm : ∀ ix, ix ∈ matrixOrder shape ↔ ix ∈ product shape.reverse := by
    intro ix
    unfold matrixOrder
    rw [product_mem, List.mem_map]
    constructor
    · rintro ⟨a, ha, rfl⟩
      rw [product_mem] at ha
      exact List.forall₂_reverse_iff.2 ha
    · intro h
      refine ⟨ix.reverse, ?_, List.reverse_reverse ix⟩
      rw [product_mem]
      have := List.forall₂_reverse_iff.2 h
      simpa using this
  exact ⟨hn, hm, (List.perm_ext_iff_of_nodup hn (product_nodup _)).2 hm⟩

/-- ... and in column-major order: reversing each visited index gives the row-major enumeration of `shape`
(first shape entry = outermost loop), which is the Fortran storage order of `contents`. -/
theorem matrix_order_is_column_major (shape : List Nat) :
    (matrixOrder shape).map List.reverse = product shape := by
  unfold matrixOrder
  simp [List.map_map, Function.comp_def]


/-- two dimensions spelled out: `rwMatrix(c, nj, ni)` streams `c[i, j]` with `i` fastest, i.e. `((C(I,J),I=1,NI),J=1,NJ)` -/
theorem matrix2_order (nj ni : Nat) :
    matrixOrder [nj, ni] = (List.range nj).flatMap (fun j => (List.range ni).map (fun i => [i, j])) := by
  simp [matrixOrder, product, List.map_flatMap]
  congr 1; funext j
  induction (List.range ni) with
  | nil => rfl
  | cons a l ih => simp [List.flatMap_cons, ih]

private theorem band_prefix (n x k : Nat) :
    (List.range k).flatMap (fun m => List.range' (m * x) (min n ((m + 1) * x) - m * x)) = List.range (min n (k * x)) := by
  induction k with
  | zero => simp
  | succ k ih =>
    rw [List.range_succ, List.flatMap_append, ih]
    simp only [List.flatMap_cons, List.flatMap_nil, List.append_nil]
    rw [List.range_eq_range', List.range_eq_range']
    by_cases h : k * x ≤ n
    · rw [Nat.min_eq_right h]
      have h2 : k * x ≤ min n ((k + 1) * x) := by
        have : k * x ≤ (k + 1) * x := Nat.mul_le_mul_right x (Nat.le_succ k)
        omega
      have := List.range'_append_1 (s := 0) (m := k * x) (n := min n ((k + 1) * x) - k * x)
      simp only [Nat.zero_add] at this
      rw [this]
      congr 1; omega
    · have h1 : min n (k * x) = n := by omega
      have h3 : k * x ≤ (k + 1) * x := Nat.mul_le_mul_right x (Nat.le_succ k)
      have h2 : min n ((k + 1) * x) = n := by omega
      rw [h1, h2]
      have : n - k * x = 0 := by omega
      simp [this]

/-! ### getBlockBandwidth -/

/-- **Block bandwidths tile the column range**: for every `nintj` and every `nblok ≥ 1` the blocks
m = 1..nblok (0-based below) cover 0..nintj-1 contiguously, in order, without overlap; a block that starts
beyond the last column has width 0. -/
theorem bandwidth_partition (nintj nblok : Nat) (hb : 0 < nblok) :
    (List.range nblok).flatMap (fun m => List.range' (bandLow nintj nblok m) (bandWidth nintj nblok m))
      = List.range nintj := by
  simp only [bandLow, bandWidth]
  rw [band_prefix nintj (bandX nintj nblok) nblok]
  congr 1
  unfold bandX
  have := Nat.lt_mul_div_succ (nintj - 1) hb
  omega

/-- the Python function (integers, floor division) in terms of the natural-number reading -/
theorem getBlockBandwidth_nat (nintj nblok m : Nat) (hb : 0 < nblok) (hn : 0 < nintj) :
    getBlockBandwidth ((m : Int) + 1) nintj nblok =
      some ((bandLow nintj nblok m : Int), ((min nintj ((m + 1) * bandX nintj nblok) : Nat) : Int) - 1) := by
  unfold getBlockBandwidth bandLow bandX
  have h0 : (nblok : Int) ≠ 0 := by omega
  simp only [h0, ↓reduceIte]
  have hf : Int.fdiv ((nintj : Int) - 1) nblok = (((nintj - 1) / nblok : Nat) : Int) := by
    rw [Int.fdiv_eq_ediv_of_nonneg _ (by omega)]
    have : ((nintj : Int) - 1) = ((nintj - 1 : Nat) : Int) := by omega
    rw [this]; norm_cast
  rw [hf]
  simp only [Option.some.injEq, Prod.mk.injEq]
  constructor
  · push_cast; ring
  · have hA : ((m : Int) + 1) * ((((nintj - 1) / nblok : Nat) : Int) + 1)
        = (((m + 1) * ((nintj - 1) / nblok + 1) : Nat) : Int) := by push_cast; ring
    rw [hA]; omega

/-! ### ISOTXS banded, reversed scatter storage (_rw7DRecord), general JJ / JBAND (up-scatter included) -/

/-- the columns read for row g (jup = g + JJ) are exactly jdown .. jup-1, each once, in descending order -/
theorem band_index_bijection (jup jband : Nat) (h : jband ≤ jup) :
    (bandCols jup jband).Nodup ∧ (bandCols jup jband).length = jband ∧
    (∀ c, c ∈ bandCols jup jband ↔ jup - jband ≤ c ∧ c < jup) ∧
    (∀ p, p < jband → (bandCols jup jband)[p]? = some (jup - 1 - p)) := by
  unfold bandCols
  refine ⟨?_, by simp, ?_, ?_⟩
  · refine List.Nodup.map_on ?_ List.nodup_range
    intro a ha b hb hab
    simp only [List.mem_range] at ha hb
    omega
  · intro c
    simp only [List.mem_map, List.mem_range]
    constructor
    · rintro ⟨p, hp, rfl⟩; omega
    · rintro ⟨h1, h2⟩; exact ⟨jup - 1 - c, by omega, by omega⟩
  · intro p hp
    simp [hp]

/-- what the writer emits for row g is the row's band read at exactly the columns the reader assigns -/
theorem band_write_matches_read {β} (row : List β) (jup jband : Nat) (h : jband ≤ jup)
    (hr : jup ≤ row.length) :
    (bandWrite row jup jband).map some = (bandCols jup jband).map (fun c => row[c]?) := by
  unfold bandWrite bandCols
  apply List.ext_getElem?
  intro p
  simp only [List.getElem?_map, List.getElem?_reverse', List.length_take, List.length_drop]
  by_cases hp : p < jband
  · have hl : min jband (row.length - (jup - jband)) = jband := by omega
    simp only [List.getElem?_range hp, Option.map_some]
    rw [List.getElem?_reverse (by simp; omega)]
    simp only [List.length_take, List.length_drop, hl]
    rw [List.getElem?_take_of_lt (by omega), List.getElem?_drop]
    have : jup - jband + (jband - 1 - p) = jup - 1 - p := by omega
    rw [this]
    have hlt : jup - 1 - p < row.length := by omega
    simp [List.getElem?_eq_getElem hlt]
  · have h1 : ((List.range jband)[p]?) = none := by simp; omega
    have h2 : (((List.drop (jup - jband) row).take jband).reverse)[p]? = none := by simp; omega
    simp [h1, h2]

private theorem find_in_map {β} (l : List Nat) (f : Nat → Nat) (v : Nat → β) (p : Nat)
    (hinj : ∀ a ∈ l, ∀ b ∈ l, f a = f b → a = b) (hp : p ∈ l) :
    (l.map (fun q => (f q, v q))).find? (fun cv => cv.1 == f p) = some (f p, v p) := by
  induction l with
  | nil => simp at hp
  | cons a l ih =>
    simp only [List.map_cons, List.find?_cons]
    by_cases hfa : f a = f p
    · have : a = p := hinj a (by simp) p hp hfa
      subst this; simp
    · have hne : (f a == f p) = false := by simpa using hfa
      simp only [hne]
      have hp' : p ∈ l := by
        rcases List.mem_cons.1 hp with h | h
        · subst h; exact absurd rfl hfa
        · exact h
      exact ih (fun a ha b hb => hinj a (List.mem_cons_of_mem _ ha) b (List.mem_cons_of_mem _ hb)) hp'

private theorem find_not_in_map {β} (l : List Nat) (f : Nat → Nat) (v : Nat → β) (c : Nat)
    (h : ∀ q ∈ l, f q ≠ c) : (l.map (fun q => (f q, v q))).find? (fun cv => cv.1 == c) = none := by
  rw [List.find?_eq_none]
  intro x hx
  simp only [List.mem_map] at hx
  obtain ⟨q, hq, rfl⟩ := hx
  simpa using h q hq

private theorem bandWrite_eq_map {β} (row : List β) (d : β) (jup jband : Nat) (h : jband ≤ jup)
    (hr : jup ≤ row.length) :
    bandWrite row jup jband = (List.range jband).map (fun p => row.getD (jup - 1 - p) d) := by
  unfold bandWrite
  apply List.ext_getElem?
  intro p
  by_cases hp : p < jband
  · have hl : min jband (row.length - (jup - jband)) = jband := by omega
    rw [List.getElem?_reverse (by simp; omega)]
    simp only [List.length_take, List.length_drop, hl, List.getElem?_map, List.getElem?_range hp, Option.map_some]
    rw [List.getElem?_take_of_lt (by omega), List.getElem?_drop]
    have : jup - jband + (jband - 1 - p) = jup - 1 - p := by omega
    rw [this]
    have hlt : jup - 1 - p < row.length := by omega
    simp [List.getElem?_eq_getElem hlt, List.getD_eq_getElem?_getD]
  · have h1 : ((List.range jband).map (fun p => row.getD (jup - 1 - p) d))[p]? = none := by simp; omega
    have h2 : (((List.drop (jup - jband) row).take jband).reverse)[p]? = none := by simp; omega
    rw [h1, h2]

/-- **A scatter-matrix row survives the banded, reversed storage**: writing the band of row `g`
(`reversed(scatter[g, jdown:jup])`) and placing the values read at the columns the reader generates
(`range(jup-1, jdown-1, -1)`) rebuilds the row, for every band position (any JJ ≥ 0: up-scatter included)
and width, provided the band lies inside the matrix and the row is zero (`dflt`) outside its band. -/
theorem band_row_roundtrip {β} (row : List β) (dflt : β) (jup jband : Nat) (h : jband ≤ jup)
    (hr : jup ≤ row.length)
    (hout : ∀ c (hc : c < row.length), (c < jup - jband ∨ jup ≤ c) → row[c] = dflt) :
    bandPlace dflt row.length (bandCols jup jband) (bandWrite row jup jband) = row := by
  unfold bandPlace bandCols
  rw [bandWrite_eq_map row dflt jup jband h hr, List.zip_map']
  apply List.ext_getElem?
  intro c
  by_cases hc : c < row.length
  · simp only [List.getElem?_map, List.getElem?_range hc, Option.map_some, List.getElem?_eq_getElem hc]
    congr 1
    by_cases hb : jup - jband ≤ c ∧ c < jup
    · have hp : jup - 1 - c ∈ List.range jband := by simp; omega
      have hfc : jup - 1 - (jup - 1 - c) = c := by omega
      have := find_in_map (List.range jband) (fun p => jup - 1 - p) (fun p => row.getD (jup - 1 - p) dflt)
        (jup - 1 - c) (by intro a ha b hb hab; simp at ha hb; omega) hp
      simp only [hfc] at this
      rw [this]
      simp [List.getD_eq_getElem?_getD, List.getElem?_eq_getElem hc]
    · have := find_not_in_map (List.range jband) (fun p => jup - 1 - p)
        (fun p => row.getD (jup - 1 - p) dflt) c (by intro q hq; simp at hq; omega)
      rw [this]
      exact (hout c hc (by omega)).symm
  · have h1 : row[c]? = none := by simp; omega
    rw [h1]; simp; omega

example : bandPlace 0 8 (bandCols 7 3) (bandWrite [0, 0, 0, 0, 14, 15, 16, 0] 7 3) = [0, 0, 0, 0, 14, 15, 16, 0] := by decide
example : matrixOrder [2, 3] = [[0, 0], [1, 0], [2, 0], [0, 1], [1, 1], [2, 1]] := by decide
example : getBlockBandwidth 2 5 2 = some (3, 4) ∧ bandLow 5 2 1 = 3 ∧ bandWidth 5 2 1 = 2 := by decide
/-- a block count that leaves the last block empty: nintj = 5, nblok = 4 gives widths 2, 2, 1, 0 -/
example : (List.range 4).map (bandWidth 5 4) = [2, 2, 1, 0] ∧ getBlockBandwidth 4 5 4 = some (6, 4) := by decide
example : bandCols 7 3 = [6, 5, 4] ∧ bandWrite [10, 11, 12, 13, 14, 15, 16, 17] 7 3 = [16, 15, 14] := by decide

/-! ### ASCII-mode fixed-width fields -/

private def pstep (acc : Option Nat) (b : UInt8) : Option Nat :=
  match acc with
  | none => none
  | some a => if 48 ≤ b ∧ b ≤ 57 then some (a * 10 + (b.toNat - 48)) else none

private theorem parseNat_eq (s : Bytes) : parseNat s = if s.isEmpty then none else s.foldl pstep (some 0) := rfl

private theorem pstep_digit (a d : Nat) (hd : d < 10) : pstep (some a) (digitChar d) = some (a * 10 + d) := by
  match d, hd with
  | 0, _ => rfl | 1, _ => rfl | 2, _ => rfl | 3, _ => rfl | 4, _ => rfl
  | 5, _ => rfl | 6, _ => rfl | 7, _ => rfl | 8, _ => rfl | 9, _ => rfl

private theorem isWs_digit (d : Nat) (hd : d < 10) : isWs (digitChar d) = false := by
  match d, hd with
  | 0, _ => rfl | 1, _ => rfl | 2, _ => rfl | 3, _ => rfl | 4, _ => rfl
  | 5, _ => rfl | 6, _ => rfl | 7, _ => rfl | 8, _ => rfl | 9, _ => rfl

private theorem natDigits_fold (n : Nat) : (natDigits n).foldl pstep (some 0) = some n := by
  induction n using natDigits.induct with
  | case1 n h => rw [natDigits]; simp only [h, ↓reduceDIte, List.foldl_cons, List.foldl_nil]; rw [pstep_digit 0 n h]; simp
  | case2 n h ih =>
    rw [natDigits]; simp only [h, ↓reduceDIte, List.foldl_append, List.foldl_cons, List.foldl_nil, ih]
    rw [pstep_digit _ _ (Nat.mod_lt n (by decide))]
    congr 1; omega

private theorem natDigits_ne_nil (n : Nat) : natDigits n ≠ [] := by
  rw [natDigits]; split <;> simp

private theorem natDigits_length (n k : Nat) (h : n < 10 ^ (k + 1)) : (natDigits n).length ≤ k + 1 := by
  induction k generalizing n with
  | zero => rw [natDigits]; simp at h; simp [h]
  | succ k ih =>
    rw [natDigits]; split
    · simp
    · have : n / 10 < 10 ^ (k + 1) := by
        rw [Nat.div_lt_iff_lt_mul (by decide)]; rw [Nat.pow_succ] at h; exact h
      have := ih (n / 10) this
      simp; omega

private theorem natDigits_last_not_ws (n : Nat) : ∃ init d, natDigits n = init ++ [d] ∧ isWs d = false := by
  rw [natDigits]; split
  · rename_i h; exact ⟨[], _, rfl, isWs_digit n h⟩
  · exact ⟨_, _, rfl, isWs_digit _ (Nat.mod_lt n (by decide))⟩

private theorem parseNat_natDigits (n : Nat) : parseNat (natDigits n) = some n := by
  rw [parseNat_eq, natDigits_fold]
  have := natDigits_ne_nil n
  cases h : natDigits n with
  | nil => exact absurd h this
  | cons a l => simp

private theorem rstrip_of_last (init : Bytes) (d : UInt8) (h : isWs d = false) :
    rstrip (init ++ [d]) = init ++ [d] := by
  unfold rstrip
  simp [List.reverse_append, List.dropWhile_cons, h]

/-- the text of an integer field parses back to the integer, for every v (field width aside) -/
theorem parseInt_asciiIntField (v : Int) : parseInt (asciiIntField v) = some v := by
  obtain ⟨init, d, hd, hw⟩ := natDigits_last_not_ws v.natAbs
  unfold parseInt asciiIntField padLeft
  simp only []
  have hr : ∀ (sign : UInt8) (k : Nat),
      rstrip (32 :: (List.replicate k 32 ++ sign :: natDigits v.natAbs)) =
        32 :: (List.replicate k 32 ++ sign :: natDigits v.natAbs) := by
    intro sign k
    rw [hd]
    have : (32 : UInt8) :: (List.replicate k 32 ++ sign :: (init ++ [d])) =
        ((32 : UInt8) :: (List.replicate k 32 ++ sign :: init)) ++ [d] := by simp
    rw [this, rstrip_of_last _ _ hw]
  rw [hr]
  have hdw : ∀ (sign : UInt8) (k : Nat), isWs sign = false →
      ((32 : UInt8) :: (List.replicate k 32 ++ sign :: natDigits v.natAbs)).dropWhile isWs =
        sign :: natDigits v.natAbs := by
    intro sign k hs
    have : (32 : UInt8) :: (List.replicate k 32 ++ sign :: natDigits v.natAbs) =
        List.replicate (k + 1) 32 ++ sign :: natDigits v.natAbs := by simp [List.replicate_succ]
    rw [this, dropWhile_replicate_append _ _ _ _ (by decide)]
    simp [List.dropWhile_cons, hs]
  by_cases hv : v < 0
  · simp only [hv, ↓reduceIte]
    rw [hdw 45 _ (by decide)]
    simp only [parseNat_natDigits]
    simp
    omega
  · simp only [hv, ↓reduceIte]
    rw [hdw 43 _ (by decide)]
    simp only [parseNat_natDigits]
    simp
    omega

private theorem asciiIntField_length (v : Int) (h : -999999999 ≤ v ∧ v ≤ 999999999) : (asciiIntField v).length = 11 := by
  unfold asciiIntField padLeft
  have := natDigits_length v.natAbs 8 (by omega)
  simp only [List.length_cons, List.length_append, List.length_replicate]
  omega

/-- **ASCII integer fields round-trip** for every |v| ≤ 999 999 999 (nine digits and a sign fill the
ten columns; one more digit overflows the field: F24) -/
theorem asciiInt_roundtrip : asciiInt.RT := by
  intro v rest h
  have hl := asciiIntField_length v h
  simp only [asciiInt]
  rw [List.take_left' hl, List.drop_left' hl, parseInt_asciiIntField]

/-- the overflow itself: ten digits make the field 12 wide, so the reader's 11-character window is wrong -/
theorem asciiInt_overflow : (asciiIntField 1000000000).length = 12 ∧
    asciiInt.dec (asciiInt.enc 1000000000 ++ asciiInt.enc 7) = some (100000000, 48 :: asciiInt.enc 7) := by
  have nd : natDigits 1000000000 = [49,48,48,48,48,48,48,48,48,48] := by simp [natDigits, digitChar]
  have nd7 : natDigits 7 = [55] := by simp [natDigits, digitChar]
  have e1 : asciiIntField 1000000000 = [32,43,49,48,48,48,48,48,48,48,48,48] := by
    simp [asciiIntField, padLeft, nd]
  have e2 : asciiIntField 7 = [32,32,32,32,32,32,32,32,32,43,55] := by
    simp [asciiIntField, padLeft, nd7]
  simp only [asciiInt, e1, e2]
  decide

/-- ASCII text fields: a blank, the text, blank padding to the field length -/
theorem asciiStr_roundtrip (len : Nat) : (asciiStr len).RT := by
  intro v rest h
  obtain ⟨h1, h2⟩ := h
  simp only [asciiStr]
  have hl : ((32 : UInt8) :: (v ++ List.replicate (len - v.length) 32)).length = len + 1 := by
    simp; omega
  rw [takeExact_append (len + 1) _ rest hl]
  simp only [List.drop_succ_cons, List.drop_zero]
  rw [rstrip_append_spaces, h2]

/-- **The hypothesis about the host's formatting/parsing pair**: `float(" {:+.16E}".format(x)) == x`
(same bit pattern) for every finite double x. -/
def FloatParseSpec (parse : Bytes → Option Nat) : Prop :=
  ∀ n, (doubleParts n).isSome → parse (asciiRealField n) = some n

theorem asciiReal_roundtrip (parse : Bytes → Option Nat) (h : FloatParseSpec parse) (declared : Nat) :
    (asciiReal parse declared).RT := by
  intro v rest hv
  obtain ⟨h1, h2⟩ := hv
  simp only [asciiReal]
  rw [List.take_left' h2, List.drop_left' h2, h v h1]

inductive IsAscii (parse : Bytes → Option Nat) : {β : Type} → Codec β → Prop
  | int : IsAscii parse asciiInt
  | str (len : Nat) : IsAscii parse (asciiStr len)
  | real (declared : Nat) : IsAscii parse (asciiReal parse declared)

def RW.Ascii {α} (parse : Bytes → Option Nat) : RW α → Prop
  | .done _ => True
  | .prim c v k => IsAscii parse c ∧ RW.Ascii parse (k v)

def File.Ascii {α} (parse : Bytes → Option Nat) : File α → Prop
  | .done _ => True
  | .record body k => body.Ascii parse ∧ File.Ascii parse (k body.write.2.2)

theorem IsAscii.rt {parse} (h : FloatParseSpec parse) {β} {c : Codec β} (hc : IsAscii parse c) : c.RT := by
  cases hc
  · exact asciiInt_roundtrip
  · exact asciiStr_roundtrip _
  · exact asciiReal_roundtrip parse h _

theorem RW.Ascii.rt {parse} (h : FloatParseSpec parse) {α} (p : RW α) (hp : p.Ascii parse) : p.RT := by
  induction p with
  | done a => trivial
  | prim c v k ih => exact ⟨hp.1.rt h, ih v hp.2⟩

theorem File.Ascii.rt {parse} (h : FloatParseSpec parse) {α} (f : File α) (hf : f.Ascii parse) : f.RT := by
  induction f with
  | done a => trivial
  | record body k ih => exact ⟨RW.Ascii.rt h body hf.1, ih _ hf.2⟩

/-- **ASCII files read back** — _partial: everything is proved except the text ↔ double conversion of the host
Python, which enters as the single hypothesis `FloatParseSpec parse`. -/
theorem file_roundtrip_ascii_partial {α} (parse : Bytes → Option Nat) (hparse : FloatParseSpec parse)
    (f : File α) (hf : f.Ascii parse) (h : f.WF asciiFrame) (rest : Bytes) :
    f.read asciiFrame ((f.write asciiFrame).1 ++ rest) = some ((f.write asciiFrame).2, rest) :=
  file_roundtrip asciiFrame asciiInt_roundtrip f (File.Ascii.rt hparse f hf) h rest


private def demoAscii : File Int :=
  .record (.prim asciiInt 7 (fun m => .prim (asciiStr 6) [65, 66] (fun _ => .done m))) (fun m => .done m)
example : demoAscii.Ascii (fun _ => none) ∧ demoAscii.WF asciiFrame := by
  refine ⟨⟨⟨.int, .str 6, trivial⟩, trivial⟩, ?_⟩
  simp [demoAscii, File.WF, RW.WF, RW.write, asciiInt, asciiStr, asciiFrame]
  decide

/-- 1.5 as a double is finite -/
example : (doubleParts 4609434218613702656).isSome := by decide

/-! ### record schemas: the theorems hold for EVERY schema built from the field combinators

`Rec` / `FileS` (Model/Cccc.lean) are first-order syntax for a format's `readWrite()`: int / long / real / double /
string fields, counted repetition (`rwList`, `rwMatrix`), conditional fields and records, counted loops, with every
count and condition an integer expression over the header values read so far. The theorems below are proved by
induction over that syntax, so they hold for each of the per-format schemas at the end of the model file and for any
other schema one could write down. -/

/-- a class of record programs closed under the five routines of `cs` -/
structure Codecs.Closed (cs : Codecs) {α : Type} (Q : RW α → Prop) : Prop where
  ci : ∀ v k, (∀ x, Q (k x)) → Q (.prim cs.ci v k)
  cl : ∀ v k, (∀ x, Q (k x)) → Q (.prim cs.cl v k)
  cf : ∀ v k, (∀ x, Q (k x)) → Q (.prim cs.cf v k)
  cd : ∀ v k, (∀ x, Q (k x)) → Q (.prim cs.cd v k)
  cs : ∀ len v k, (∀ x, Q (k x)) → Q (.prim (cs.cs len) v k)

private theorem fldRW_closed {α} {cs : Codecs} {Q : RW α → Prop} (h : cs.Closed Q) (t : Ty) (key : Option String)
    (env : Env) (inp acc : List Val) (k : Kont α) (hk : ∀ e i a, Q (k e i a)) : Q (fldRW cs t key env inp acc k) := by
  unfold fldRW
  cases t with
  | i => exact h.ci _ _ (fun _ => hk _ _ _)
  | l => exact h.cl _ _ (fun _ => hk _ _ _)
  | f => exact h.cf _ _ (fun _ => hk _ _ _)
  | d => exact h.cd _ _ (fun _ => hk _ _ _)
  | s len => exact h.cs len _ _ (fun _ => hk _ _ _)

private theorem repRW_closed {α} {cs : Codecs} {Q : RW α → Prop} (h : cs.Closed Q) (t : Ty) (key : Option String)
    (n : Nat) : ∀ (i : Nat) (env : Env) (inp acc : List Val) (k : Kont α), (∀ e i a, Q (k e i a)) →
      Q (repRW cs t key n i env inp acc k) := by
  induction n with
  | zero => intro i env inp acc k hk; exact hk _ _ _
  | succ n ih =>
    intro i env inp acc k hk
    exact fldRW_closed h t _ env inp acc _ (fun e i' a => ih (i + 1) e i' a k hk)

private theorem loopRW_closed {α} {Q : RW α → Prop} (body : Env → List Val → List Val → Kont α → RW α)
    (hb : ∀ e i a (k : Kont α), (∀ e' i' a', Q (k e' i' a')) → Q (body e i a k)) (v : String)
    (n : Nat) : ∀ (i : Nat) (env : Env) (inp acc : List Val) (k : Kont α), (∀ e i a, Q (k e i a)) →
      Q (loopRW body v n i env inp acc k) := by
  induction n with
  | zero => intro i env inp acc k hk; exact hk _ _ _
  | succ n ih =>
    intro i env inp acc k hk
    exact hb _ _ _ _ (fun e i' a => ih (i + 1) e i' a k hk)

/-- every record schema denotes a program of the class, whatever the header values, the data and the continuation -/
theorem Rec.toRW_closed {α} {cs : Codecs} {Q : RW α → Prop} (h : cs.Closed Q) (r : Rec) :
    ∀ (env : Env) (inp acc : List Val) (k : Kont α), (∀ e i a, Q (k e i a)) → Q (r.toRW cs env inp acc k) := by
  induction r with
  | nil => intro env inp acc k hk; exact hk _ _ _
  | fld t b rest ih =>
    intro env inp acc k hk
    exact fldRW_closed h t _ env inp acc _ (fun e i a => ih e i a k hk)
  | rep n t b rest ih =>
    intro env inp acc k hk
    exact repRW_closed h t b _ 0 env inp acc _ (fun e i a => ih e i a k hk)
  | strv len rest ih =>
    intro env inp acc k hk
    exact fldRW_closed h _ _ env inp acc _ (fun e i a => ih e i a k hk)
  | opt c body rest ihb ihr =>
    intro env inp acc k hk
    simp only [Rec.toRW]
    split
    · exact ihb env inp acc _ (fun e i a => ihr e i a k hk)
    · exact ihr env inp acc k hk
  | loop n v body rest ihb ihr =>
    intro env inp acc k hk
    exact loopRW_closed (body.toRW cs) (fun e i a k' hk' => ihb e i a k' hk') v _ 0 env inp acc _
      (fun e i a => ihr e i a k hk)

private theorem loopF_closed {α} {Qf : File α → Prop} (body : St → (St → File α) → File α)
    (hb : ∀ st (k : St → File α), (∀ st', Qf (k st')) → Qf (body st k)) (v : String)
    (n : Nat) : ∀ (i : Nat) (st : St) (k : St → File α), (∀ st', Qf (k st')) → Qf (loopF body v n i st k) := by
  induction n with
  | zero => intro i st k hk; exact hk _
  | succ n ih =>
    intro i st k hk
    exact hb _ _ (fun st' => ih (i + 1) _ k hk)

/-- every file schema denotes a file program all of whose records are of the class -/
theorem FileS.toFile_closed {α} {cs : Codecs} {Qr : RW St → Prop} (hQr : cs.Closed Qr) (hdone : ∀ st, Qr (.done st))
    {Qf : File α → Prop} (hrec : ∀ (body : RW St) (k : St → File α), Qr body → (∀ b, Qf (k b)) → Qf (.record body k))
    (s : FileS) : ∀ (st : St) (k : St → File α), (∀ st', Qf (k st')) → Qf (s.toFile cs st k) := by
  induction s with
  | nil => intro st k hk; exact hk _
  | one r rest ih =>
    intro st k hk
    exact hrec _ _ (Rec.toRW_closed hQr r _ _ _ _ (fun e i a => hdone _)) (fun b => ih b k hk)
  | opt c body rest ihb ihr =>
    intro st k hk
    simp only [FileS.toFile]
    split
    · exact ihb st _ (fun st' => ihr st' k hk)
    · exact ihr st k hk
  | loop n v body rest ihb ihr =>
    intro st k hk
    exact loopF_closed (body.toFile cs) (fun st' k' hk' => ihb st' k' hk') v _ 0 st _ (fun st' => ihr st' k hk)

theorem binaryCodecs_closed {α} : binaryCodecs.Closed (RW.Binary (α := α)) where
  ci := fun v _ h => ⟨IsBinary.i32, h v⟩
  cl := fun v _ h => ⟨IsBinary.i64, h v⟩
  cf := fun v _ h => ⟨IsBinary.f32, h v⟩
  cd := fun v _ h => ⟨IsBinary.f64, h v⟩
  cs := fun len v _ h => ⟨IsBinary.s len, h v⟩

/-- **Every schema is a binary file program**: whatever the format's schema, the header values and the data, all
records written through the Binary record classes consist of the five binary routines only. -/
theorem schema_binary (s : FileS) (env0 : Env) (inp : List Val) : (schemaFile binaryCodecs s env0 inp).Binary :=
  FileS.toFile_closed (Qr := RW.Binary) (Qf := File.Binary) binaryCodecs_closed (fun _ => trivial)
    (fun _ _ hb hk => ⟨hb, hk _⟩) s _ _ (fun _ => trivial)

/-- **Read-back for every schema (binary).** For every file schema built from the field combinators - int, long,
real, double, string fields, counted lists/matrices, conditional fields, optional records, counted loops of fields and
of records, all counts and conditions computed from the header values READ so far - every assignment of the values
that are not in the file and every container whose values are in the routines' ranges: reading the bytes the writer
produced returns exactly the header values and the data the writer saw, and consumes exactly those bytes. -/
theorem schema_roundtrip_binary (s : FileS) (env0 : Env) (inp : List Val)
    (h : (schemaFile binaryCodecs s env0 inp).WF binaryFrame) (rest : Bytes) :
    (schemaFile binaryCodecs s env0 inp).read binaryFrame
        (((schemaFile binaryCodecs s env0 inp).write binaryFrame).1 ++ rest)
      = some (((schemaFile binaryCodecs s env0 inp).write binaryFrame).2, rest) :=
  file_roundtrip_binary _ (schema_binary s env0 inp) h rest

/-- **Framing for every schema**: each record of the file any schema writes carries a count equal to its payload's
byte length (the leading and the trailing count are the same field, see `record_framed`). -/
theorem schema_frames (s : FileS) (env0 : Env) (inp : List Val) :
    ∀ fr ∈ (schemaFile binaryCodecs s env0 inp).frames, fr.1 = fr.2.length :=
  frames_counts _ (schema_binary s env0 inp)

/-- **Re-writing what was read, for every schema**: reading the written file and writing what was read gives the
same bytes. -/
theorem schema_write_read_write_binary (s : FileS) (env0 : Env) (inp : List Val)
    (h : (schemaFile binaryCodecs s env0 inp).WF binaryFrame) (rest : Bytes) :
    (((schemaFile binaryCodecs s env0 inp).reseed binaryFrame
        (((schemaFile binaryCodecs s env0 inp).write binaryFrame).1 ++ rest)).write binaryFrame).1 ++ rest
      = ((schemaFile binaryCodecs s env0 inp).write binaryFrame).1 ++ rest :=
  write_read_write_binary _ (schema_binary s env0 inp) h rest

theorem asciiCodecs_closed {α} (parse : Bytes → Option Nat) : (asciiCodecs parse).Closed (RW.Ascii (α := α) parse) where
  ci := fun v _ h => ⟨IsAscii.int, h v⟩
  cl := fun v _ h => ⟨IsAscii.int, h v⟩
  cf := fun v _ h => ⟨IsAscii.real 4, h v⟩
  cd := fun v _ h => ⟨IsAscii.real 8, h v⟩
  cs := fun len v _ h => ⟨IsAscii.str len, h v⟩

theorem schema_ascii (parse : Bytes → Option Nat) (s : FileS) (env0 : Env) (inp : List Val) :
    (schemaFile (asciiCodecs parse) s env0 inp).Ascii parse :=
  FileS.toFile_closed (Qr := RW.Ascii parse) (Qf := File.Ascii parse) (asciiCodecs_closed parse) (fun _ => trivial)
    (fun _ _ hb hk => ⟨hb, hk _⟩) s _ _ (fun _ => trivial)

/-- **Read-back for every schema (ASCII)** - _partial: as `file_roundtrip_ascii_partial`, the host's text <-> double
conversion enters as `FloatParseSpec parse`; the statement is restricted to schemas without `rwLong` (the Ascii record
classes have none). `WF` holds exactly when every integer (and every record's declared count) has at most nine
digits, every real has a two-digit exponent, and text fits its field without trailing blanks. -/
theorem schema_roundtrip_ascii_partial (parse : Bytes → Option Nat) (hparse : FloatParseSpec parse)
    (s : FileS) (_hl : s.usesLong = false) (env0 : Env) (inp : List Val)
    (h : (schemaFile (asciiCodecs parse) s env0 inp).WF asciiFrame) (rest : Bytes) :
    (schemaFile (asciiCodecs parse) s env0 inp).read asciiFrame
        (((schemaFile (asciiCodecs parse) s env0 inp).write asciiFrame).1 ++ rest)
      = some (((schemaFile (asciiCodecs parse) s env0 inp).write asciiFrame).2, rest) :=
  file_roundtrip_ascii_partial parse hparse _ (schema_ascii parse s env0 inp) h rest

/-- a two-record schema: a header (flag, count), then - only when the flag is set - one record per count holding
`count` doubles and a 4-character label -/
private def demoSchema : FileS :=
  .one (.fld .i (some { name := "FLAG" }) (.fld .i (some { name := "N" }) .nil))
    (.opt (.lt (.lit 0) (.var "FLAG"))
      (.loop (.var "N") "k" (.one (.rep (.var "N") .d none (.fld (.s 4) none .nil)) .nil) .nil) .nil)
private def demoData : List Val := [.i 1, .i 2, .n 7, .n 8, .s [65], .n 9, .n 10, .s [66, 67]]
example : ((schemaFile binaryCodecs demoSchema [] demoData).write binaryFrame).2.2 = (demoData, 0) := by decide
example : ((schemaFile binaryCodecs demoSchema [] demoData).frames.map (·.1)) = [8, 20, 20] := by decide
example : ((schemaFile binaryCodecs demoSchema [] [.i 0, .i 2]).frames.map (·.1)) = [8] := by decide
example : (schemaFile binaryCodecs demoSchema [] demoData).WF binaryFrame := by
  simp [schemaFile, demoSchema, demoData, FileS.toFile, Rec.toRW, fldRW, repRW, loopRW, loopF, File.WF, RW.WF, RW.write,
    binaryCodecs, int32, bits64, str, binaryFrame, E.eval, Env.get, bindInt, bindLoop, List.eraseP, Bind.key, b2i, Val.int,
    Val.nat, Val.str]
  decide

private theorem E.add_def (a b : E) : a + b = E.add a b := rfl
private theorem E.sub_def (a b : E) : a - b = E.sub a b := rfl
private theorem E.mul_def (a b : E) : a * b = E.mul a b := rfl
private theorem E.one_def : (1 : E) = E.lit 1 := rfl

/-- the block-width expression the PWDINT / RTFLUX / ATFLUX / RZFLUX schemas use IS `jU - jL + 1` of
`getBlockBandwidth(b + 1, nintj, nblok)`, for all integers (so `bandwidth_partition` speaks about those schemas) -/
theorem blockWidth_eval (b nintj nblok : E) (env : Env) (jL jU : Int)
    (hbw : getBlockBandwidth (b.eval env + 1) (nintj.eval env) (nblok.eval env) = some (jL, jU)) :
    (Schema.blockWidth b nintj nblok).eval env = jU - jL + 1 := by
  unfold getBlockBandwidth at hbw
  split at hbw
  · simp at hbw
  · simp only [Option.some.injEq, Prod.mk.injEq] at hbw
    obtain ⟨h1, h2⟩ := hbw
    subst h1; subst h2
    simp only [Schema.blockWidth, E.add_def, E.sub_def, E.mul_def, E.one_def, E.eval]
    generalize Int.fdiv _ _ = q
    have e : (b.eval env + 1 - 1) = b.eval env := by omega
    rw [e]
    generalize (b.eval env + 1) * (q + 1) = p
    generalize b.eval env * (q + 1) = r
    omega

example : (Schema.blockWidth (.lit 1) (.lit 5) (.lit 2)).eval [] = 2 ∧ getBlockBandwidth 2 5 2 = some (3, 4) := by decide

/-! ### the accepted domain of the ASCII fields, as decidable predicates -/

instance : DecidablePred asciiInt.ok := fun v => by unfold asciiInt; exact inferInstance
instance (parse : Bytes → Option Nat) (declared : Nat) : DecidablePred (asciiReal parse declared).ok :=
  fun n => by unfold asciiReal; exact inferInstance

private theorem natDigits_length_ge (k n : Nat) (h : 10 ^ k ≤ n) : k + 1 ≤ (natDigits n).length := by
  induction k generalizing n with
  | zero => rw [natDigits]; split <;> simp
  | succ k ih =>
    rw [natDigits]
    split
    · rename_i hlt
      have : 10 ^ (k + 1) ≥ 10 := by
        have := Nat.pow_le_pow_right (n := 10) (by decide) (Nat.succ_le_succ (Nat.zero_le k))
        simpa using this
      omega
    · have : 10 ^ k ≤ n / 10 := by
        rw [Nat.le_div_iff_mul_le (by decide)]; rw [Nat.pow_succ] at h; exact h
      have := ih (n / 10) this
      simp; omega

/-- **the integer field's domain is exactly "the text is 11 columns wide"**: |v| ≤ 999 999 999; any other integer
makes the field wider than the reader's window (F24) -/
theorem asciiInt_ok_iff_width (v : Int) : asciiInt.ok v ↔ (asciiIntField v).length = 11 := by
  constructor
  · exact asciiIntField_length v
  · intro h
    show -999999999 ≤ v ∧ v ≤ 999999999
    by_cases hv : v.natAbs < 1000000000
    · omega
    · have := natDigits_length_ge 9 v.natAbs (by omega)
      unfold asciiIntField padLeft at h
      simp only [List.length_cons, List.length_append, List.length_replicate] at h
      omega

example : decide (asciiInt.ok 999999999) = true ∧ decide (asciiInt.ok (-1000000000)) = false := by decide

/-! ### bookkeeping around the records -/

theorem revGroup_involutive (ng g : Int) : revGroup ng (revGroup ng g) = g := by unfold revGroup; omega

theorem revGroup_range (ng g : Int) (h : 0 ≤ g ∧ g < ng) : 0 ≤ revGroup ng g ∧ revGroup ng g < ng := by
  unfold revGroup; omega

/-- **the adjoint files' group reversal visits every group exactly once**: the container slots `gEff` taken for
file positions g = 0..ng-1 are ng-1, …, 0 (ATFLUX, NAFLUX) -/
theorem revGroup_enumerates (ng : Nat) :
    (List.range ng).map (fun (g : Nat) => (revGroup (ng : Int) (g : Int)).toNat) = (List.range ng).reverse := by
  apply List.ext_getElem?
  intro i
  by_cases h : i < ng
  · rw [List.getElem?_reverse (by simpa using h)]
    rw [List.getElem?_map, List.getElem?_range h, List.length_range, List.getElem?_range (by omega)]
    simp only [Option.map_some, revGroup]
    congr 1; omega
  · have h1 : ((List.range ng).map (fun (g : Nat) => (revGroup (ng : Int) (g : Int)).toNat))[i]? = none := by
      simp; omega
    have h2 : ((List.range ng).reverse)[i]? = none := by simp; omega
    rw [h1, h2]

private theorem runningOffsets_eq (acc : Nat) (cs : List Nat) :
    runningOffsets acc cs = (List.range cs.length).map (fun ii => acc + (cs.take ii).sum) := by
  induction cs generalizing acc with
  | nil => rfl
  | cons c cs ih =>
    simp only [runningOffsets, List.length_cons, List.range_succ_eq_map, List.map_cons, List.map_map]
    rw [ih]
    simp [Function.comp_def, Nat.add_assoc]

/-- the ISOTXS record offsets (`LOCA`) are the running totals of the per-nuclide record counts: offset 0 for the
first nuclide, each next one larger by the previous nuclide's number of records -/
theorem recordOffsets_eq_running (counts : List Nat) : recordOffsets counts = runningOffsets 0 counts := by
  rw [runningOffsets_eq]; simp [recordOffsets]

/-- every nuclide has at least its 4D and 5D records -/
theorem isotxsNumRecords_ge_two (chiFlag : Int) (ords : List Int) : 2 ≤ isotxsNumRecords chiFlag ords := by
  unfold isotxsNumRecords; omega

example : recordOffsets [3, 2, 5] = [0, 3, 5] ∧ isotxsNumRecords 1 [1, 0, 2, -1] = 4 ∧ revGroup 33 2 = 30 := by decide

/-! ### the Ascii record classes with `format` AND `float` modelled: no hypothesis about the host is left

`asciiRealM` reads a real field with `parseFloatText` (exact decimal reading of the E-format text, then correct
rounding to the nearest double, ties to even - compared with Python's `float` on every run). Its domain `ok` is a
decidable predicate of the value: finite, text exactly 24 columns, and the text converts back to the value. The Ascii
classes have no `rwLong`: `asciiLong` has the empty domain, so a program that writes a long is simply not `WF`. -/

theorem asciiRealM_roundtrip (declared : Nat) : (asciiRealM declared).RT := by
  intro v rest hv
  obtain ⟨_, h2, h3⟩ := hv
  simp only [asciiRealM]
  rw [List.take_left' h2, List.drop_left' h2, h3]

theorem asciiLong_roundtrip : asciiLong.RT := fun _ _ h => False.elim h

inductive IsAsciiM : {β : Type} → Codec β → Prop
  | int : IsAsciiM asciiInt
  | long : IsAsciiM asciiLong
  | str (len : Nat) : IsAsciiM (asciiStr len)
  | real (declared : Nat) : IsAsciiM (asciiRealM declared)

def RW.AsciiM {α} : RW α → Prop
  | .done _ => True
  | .prim c v k => IsAsciiM c ∧ RW.AsciiM (k v)

def File.AsciiM {α} : File α → Prop
  | .done _ => True
  | .record body k => body.AsciiM ∧ File.AsciiM (k body.write.2.2)

theorem IsAsciiM.rt {β} {c : Codec β} (hc : IsAsciiM c) : c.RT := by
  cases hc
  · exact asciiInt_roundtrip
  · exact asciiLong_roundtrip
  · exact asciiStr_roundtrip _
  · exact asciiRealM_roundtrip _

theorem RW.AsciiM.rt {α} (p : RW α) (hp : p.AsciiM) : p.RT := by
  induction p with
  | done a => trivial
  | prim c v k ih => exact ⟨hp.1.rt, ih v hp.2⟩

theorem File.AsciiM.rt {α} (f : File α) (hf : f.AsciiM) : f.RT := by
  induction f with
  | done a => trivial
  | record body k ih => exact ⟨RW.AsciiM.rt body hf.1, ih _ hf.2⟩

/-- **ASCII files read back** - full: no hypothesis about the host's formatting or parsing. `WF` asks of every value
written only decidable things: integers (and declared counts) of at most nine digits, reals inside `asciiRealM.ok`,
text within its field without trailing blanks, no `rwLong`. -/
theorem file_roundtrip_ascii {α} (f : File α) (hf : f.AsciiM) (h : f.WF asciiFrame) (rest : Bytes) :
    f.read asciiFrame ((f.write asciiFrame).1 ++ rest) = some ((f.write asciiFrame).2, rest) :=
  file_roundtrip asciiFrame asciiInt_roundtrip f (File.AsciiM.rt f hf) h rest

theorem asciiCodecsM_closed {α} : asciiCodecsM.Closed (RW.AsciiM (α := α)) where
  ci := fun v _ h => ⟨IsAsciiM.int, h v⟩
  cl := fun v _ h => ⟨IsAsciiM.long, h v⟩
  cf := fun v _ h => ⟨IsAsciiM.real 4, h v⟩
  cd := fun v _ h => ⟨IsAsciiM.real 8, h v⟩
  cs := fun len v _ h => ⟨IsAsciiM.str len, h v⟩

theorem schema_asciiM (s : FileS) (env0 : Env) (inp : List Val) : (schemaFile asciiCodecsM s env0 inp).AsciiM :=
  FileS.toFile_closed (Qr := RW.AsciiM) (Qf := File.AsciiM) asciiCodecsM_closed (fun _ => trivial)
    (fun _ _ hb hk => ⟨hb, hk _⟩) s _ _ (fun _ => trivial)

/-- **Read-back for every schema (ASCII)** - full: for every file schema, every assignment of the values that are not
in the file and every container whose values are in the Ascii routines' (decidable) domains, reading the text the
writer produced returns exactly the header values and the data the writer saw. Neither `FloatParseSpec` nor a
restriction on `rwLong` is assumed: a schema that writes a long is not `WF` in ASCII (the classes have no such
routine). -/
theorem schema_roundtrip_ascii (s : FileS) (env0 : Env) (inp : List Val)
    (h : (schemaFile asciiCodecsM s env0 inp).WF asciiFrame) (rest : Bytes) :
    (schemaFile asciiCodecsM s env0 inp).read asciiFrame
        (((schemaFile asciiCodecsM s env0 inp).write asciiFrame).1 ++ rest)
      = some (((schemaFile asciiCodecsM s env0 inp).write asciiFrame).2, rest) :=
  file_roundtrip_ascii _ (schema_asciiM s env0 inp) h rest

/-- +0.0 and 1.5 are inside the real field's domain; 1e-100 (three exponent digits) and +inf are not -/
example : (asciiRealM 8).ok 0 := by decide
example : (asciiRealM 8).ok 4609434218613702656 := by decide +kernel
example : ¬ (asciiRealM 4).ok 3110860544497550640 := by decide +kernel
example : ¬ (asciiRealM 4).ok 9218868437227405312 := by decide
/-- a long has no ASCII form: the one-field program is not well-formed -/
example : ¬ (RW.prim asciiLong 5 (fun x => RW.done x)).WF := fun h => h.1

/-! ### container attribute ↔ value sequence maps -/

private theorem bandWrite_length {β} (row : List β) (jup jband : Nat) (h : jband ≤ jup) (hr : jup ≤ row.length) :
    (bandWrite row jup jband).length = jband := by
  unfold bandWrite
  simp only [List.length_reverse, List.length_take, List.length_drop]
  omega

/-- **A whole scatter block survives the record**: flattening all rows of a block into one 7D record (each row's band,
reversed) and rebuilding the matrix from the record with the same (JJ, JBAND) table gives back every row - for any
number of rows, any band positions (up-scatter included) and widths inside the matrix, rows zero outside their
bands. -/
theorem scat_roundtrip {β} (dflt : β) (ng : Nat) (rows : List (List β × Nat × Nat))
    (h : ∀ r ∈ rows, r.1.length = ng ∧ r.2.2 ≤ r.2.1 ∧ r.2.1 ≤ ng ∧
      ∀ c (hc : c < r.1.length), (c < r.2.1 - r.2.2 ∨ r.2.1 ≤ c) → r.1[c] = dflt) :
    scatUnflatten dflt ng (rows.map (fun r => r.2)) (scatFlatten rows) = rows.map (fun r => r.1) := by
  induction rows with
  | nil => rfl
  | cons r rs ih =>
    obtain ⟨row, jup, jb⟩ := r
    obtain ⟨h1, h2, h3, h4⟩ := h (row, jup, jb) (by simp)
    simp only at h1 h2 h3 h4
    have hl := bandWrite_length row jup jb h2 (by omega)
    simp only [List.map_cons, scatFlatten, scatUnflatten]
    rw [List.take_left' hl, List.drop_left' hl, ih (fun r hr => h r (by simp [hr]))]
    congr 1
    have := band_row_roundtrip row dflt jup jb h2 (by omega) h4
    rw [h1] at this
    exact this

/-- the COMPXS reader's index list is `reversed(range(group - ndn, group + nup + 1))` -/
theorem compxsIndices_eq (group nup ndn : Nat) (h : ndn ≤ group) :
    compxsIndices group nup ndn = (List.range' (group - ndn) (nup + 1 + ndn)).reverse := by
  unfold compxsIndices bandCols
  apply List.ext_getElem?
  intro p
  by_cases hp : p < nup + 1 + ndn
  · rw [List.getElem?_reverse (by simpa using hp)]
    simp only [List.getElem?_map, List.getElem?_range hp, Option.map_some, List.length_range']
    rw [List.getElem?_range' (by omega)]
    congr 1; omega
  · have h1 : ((List.range (nup + 1 + ndn)).map (fun p => group + nup + 1 - 1 - p))[p]? = none := by simp; omega
    have h2 : ((List.range' (group - ndn) (nup + 1 + ndn)).reverse)[p]? = none := by simp; omega
    rw [h1, h2]

/-- **A COMPXS scatter column survives the record**: `_flattenScatteringVector` followed by placing the values at
the reader's indices rebuilds the column, for every group, up-scatter and down-scatter count inside the matrix and a
column that is zero outside its band. -/
theorem compxs_column_roundtrip {β} (col : List β) (dflt : β) (group nup ndn : Nat) (h : ndn ≤ group)
    (hr : group + nup + 1 ≤ col.length)
    (hout : ∀ c (hc : c < col.length), (c < group - ndn ∨ group + nup + 1 ≤ c) → col[c] = dflt) :
    bandPlace dflt col.length (compxsIndices group nup ndn) (compxsFlatten col group nup ndn) = col := by
  unfold compxsIndices compxsFlatten
  exact band_row_roundtrip col dflt (group + nup + 1) (nup + 1 + ndn) (by omega) hr
    (fun c hc hcc => hout c hc (by omega))

/-- **Adjoint files store the groups in reverse**: the file order of an ATFLUX / NAFLUX container's groups is the
reversed list, so writing and reading with the same index map is the identity on the container. -/
theorem adjointOrder_eq_reverse {β} (c : List β) (d : β) : adjointOrder c d = c.reverse := by
  unfold adjointOrder
  have := revGroup_enumerates c.length
  have h2 : (List.range c.length).map (fun (g : Nat) => c.getD (revGroup (c.length : Int) (g : Int)).toNat d)
      = ((List.range c.length).map (fun (g : Nat) => (revGroup (c.length : Int) (g : Int)).toNat)).map
          (fun i => c.getD i d) := by simp [List.map_map, Function.comp_def]
  rw [h2, this]
  apply List.ext_getElem?
  intro i
  by_cases hi : i < c.length
  · rw [List.getElem?_reverse hi, List.getElem?_map, List.getElem?_reverse (by simpa using hi)]
    simp only [List.length_range]
    rw [List.getElem?_range (by omega)]
    simp [List.getD_eq_getElem?_getD, List.getElem?_eq_getElem (show c.length - 1 - i < c.length by omega)]
  · have h1 : (((List.range c.length).reverse).map (fun i => c.getD i d))[i]? = none := by simp; omega
    have h3 : (c.reverse)[i]? = none := by simp; omega
    rw [h1, h3]

theorem adjointOrder_involutive {β} (c : List β) (d : β) : adjointOrder (adjointOrder c d) d = c := by
  rw [adjointOrder_eq_reverse, adjointOrder_eq_reverse, List.reverse_reverse]

example : scatFlatten [([1, 0, 0], 1, 1), ([2, 3, 0], 2, 2), ([0, 4, 5], 3, 2)] = [1, 3, 2, 5, 4] ∧
    scatUnflatten 0 3 [(1, 1), (2, 2), (3, 2)] [1, 3, 2, 5, 4] = [[1, 0, 0], [2, 3, 0], [0, 4, 5]] := by decide
example : compxsFlatten [0, 7, 8, 9, 0] 2 1 1 = [9, 8, 7] ∧ compxsIndices 2 1 1 = [3, 2, 1] := by decide
example : adjointOrder [10, 20, 30] 0 = [30, 20, 10] := by decide

/-! ### the E-format text denotes exactly the 17 digits printed -/

private theorem isDigit_digitChar (d : Nat) (hd : d < 10) : isDigit (digitChar d) = true := by
  match d, hd with
  | 0, _ => rfl | 1, _ => rfl | 2, _ => rfl | 3, _ => rfl | 4, _ => rfl
  | 5, _ => rfl | 6, _ => rfl | 7, _ => rfl | 8, _ => rfl | 9, _ => rfl

private theorem natDigits_all_digits (n : Nat) : ∀ b ∈ natDigits n, isDigit b = true := by
  induction n using natDigits.induct with
  | case1 n h => rw [natDigits]; simp only [h, ↓reduceDIte, List.mem_singleton]; rintro b rfl; exact isDigit_digitChar n h
  | case2 n h ih =>
    rw [natDigits]; simp only [h, ↓reduceDIte, List.mem_append, List.mem_singleton]
    rintro b (hb | rfl)
    · exact ih b hb
    · exact isDigit_digitChar _ (Nat.mod_lt n (by decide))

private theorem takeWhile_digits (l r : Bytes) (c : UInt8) (hl : ∀ b ∈ l, isDigit b = true) (hc : isDigit c = false) :
    (l ++ c :: r).takeWhile isDigit = l ∧ (l ++ c :: r).dropWhile isDigit = c :: r := by
  induction l with
  | nil => simp [List.takeWhile, List.dropWhile, hc]
  | cons a l ih =>
    have ha := hl a (by simp)
    have := ih (fun b hb => hl b (by simp [hb]))
    simp [List.takeWhile, List.dropWhile, ha, this.1, this.2]

private theorem takeWhile_digits_end (l : Bytes) (hl : ∀ b ∈ l, isDigit b = true) :
    l.takeWhile isDigit = l ∧ l.dropWhile isDigit = [] := by
  induction l with
  | nil => simp
  | cons a l ih =>
    have ha := hl a (by simp)
    have := ih (fun b hb => hl b (by simp [hb]))
    simp [List.takeWhile, List.dropWhile, ha, this.1, this.2]

private theorem parseNat_zero_natDigits (n : Nat) : parseNat (48 :: natDigits n) = some n := by
  rw [parseNat_eq]
  simp only [List.isEmpty_cons, Bool.false_eq_true, ↓reduceIte, List.foldl_cons]
  have : pstep (some 0) 48 = some 0 := rfl
  rw [this, natDigits_fold]

/-- **The text the writer produces for a real denotes exactly its 17 printed digits**: reading it back as a decimal
number gives sign, the 17-digit integer and the exponent of its last digit - no digit is lost or moved by the
fixed-width layout (sign column, one digit before the point, two-or-more-digit exponent). -/
theorem parseEText_eText (neg : Bool) (D : Nat) (k : Int) (hD : 10 ^ 16 ≤ D ∧ D < 10 ^ 17) :
    parseEText (eText neg D k) = some (neg, D, k - 16) := by
  have hlen : (natDigits D).length = 17 := by
    have h1 := natDigits_length D 16 hD.2
    have h2 := natDigits_length_ge 16 D hD.1
    omega
  obtain ⟨d0, tl, hds⟩ : ∃ d0 tl, natDigits D = d0 :: tl := by
    cases h : natDigits D with
    | nil => simp [h] at hlen
    | cons a l => exact ⟨a, l, rfl⟩
  have htl : tl.length = 16 := by rw [hds] at hlen; simpa using hlen
  have hall := natDigits_all_digits D
  rw [hds] at hall
  -- the exponent digits
  obtain ⟨einit, ed, hed, hedw⟩ := natDigits_last_not_ws k.natAbs
  -- eds: the exponent digits (at least two)
  obtain ⟨eds, heds, hedsall, hedslast, hedsparse⟩ : ∃ eds : Bytes,
      (if (natDigits k.natAbs).length < 2 then 48 :: natDigits k.natAbs else natDigits k.natAbs) = eds ∧
      (∀ b ∈ eds, isDigit b = true) ∧ (∃ i, eds = i ++ [ed]) ∧ parseNat eds = some k.natAbs := by
    refine ⟨_, rfl, ?_, ?_, ?_⟩
    · split
      · intro b hb
        rcases List.mem_cons.1 hb with rfl | hb
        · rfl
        · exact natDigits_all_digits _ b hb
      · exact natDigits_all_digits _
    · split
      · exact ⟨48 :: einit, by rw [hed]; rfl⟩
      · exact ⟨einit, hed⟩
    · split
      · exact parseNat_zero_natDigits _
      · exact parseNat_natDigits _
  obtain ⟨ei, hei⟩ := hedslast
  have htext : eText neg D k =
      32 :: (if neg then 45 else 43) :: d0 :: 46 :: (tl ++ 69 :: (if k < 0 then 45 else 43) :: eds) := by
    unfold eText
    simp only [hds, heds]
    simp
  have hd0 : isDigit d0 = true := hall d0 (by simp)
  have htl : ∀ b ∈ tl, isDigit b = true := fun b hb => hall b (by simp [hb])
  -- rstrip: the text ends in a digit
  have hrs : rstrip (eText neg D k) = eText neg D k := by
    rw [htext, hei]
    have : (32 : UInt8) :: (if neg then 45 else 43) :: d0 :: 46 :: (tl ++ 69 :: (if k < 0 then 45 else 43) :: (ei ++ [ed]))
        = ((32 : UInt8) :: (if neg then 45 else 43) :: d0 :: 46 :: (tl ++ 69 :: (if k < 0 then 45 else 43) :: ei)) ++ [ed] := by
      simp
    rw [this, rstrip_of_last _ _ hedw]
  unfold parseEText
  rw [hrs, htext]
  have t1a : ∀ X : Bytes, (d0 :: 46 :: X).takeWhile isDigit = [d0] := fun X => by
    have := (takeWhile_digits [d0] X 46 (by simpa using hd0) rfl).1; simpa using this
  have t1b : ∀ X : Bytes, (d0 :: 46 :: X).dropWhile isDigit = 46 :: X := fun X => by
    have := (takeWhile_digits [d0] X 46 (by simpa using hd0) rfl).2; simpa using this
  have t2a : ∀ X : Bytes, (tl ++ 69 :: X).takeWhile isDigit = tl := fun X => (takeWhile_digits tl X 69 htl rfl).1
  have t2b : ∀ X : Bytes, (tl ++ 69 :: X).dropWhile isDigit = 69 :: X := fun X => (takeWhile_digits tl X 69 htl rfl).2
  have hpn : parseNat ([d0] ++ tl) = some D := by
    have := parseNat_natDigits D
    rw [hds] at this
    simpa using this
  have hws : ∀ (sg : UInt8) (X : Bytes), isWs sg = false → List.dropWhile isWs (32 :: sg :: X) = sg :: X := by
    intro sg X h
    have h32 : isWs 32 = true := by decide
    simp [List.dropWhile_cons, h, h32]
  have hfl : (tl.length : Int) = 16 := by omega
  cases neg <;> by_cases hk : k < 0
  all_goals
    simp only [Bool.false_eq_true, ↓reduceIte, hk]
    first
    | rw [hws 43 _ (by decide)]
    | rw [hws 45 _ (by decide)]
    simp only [t1a, t1b, t2a, t2b, parseSignedNat, hedsparse, hpn, Option.map_some, hfl]
    simp
    omega

/-- **What `float()` sees in a real field**: for a non-zero finite value whose 17 printed digits are in range, the
field's text denotes exactly ±D·10^(k-16) with (D, k) = `floatDigits` - so "the value reads back"
(the last conjunct of `asciiRealM.ok`) is the purely arithmetical statement `roundToDouble neg D (k-16) = some n`. -/
theorem parseFloatText_asciiFloatField (neg : Bool) (mant : Nat) (e2 : Int) (hm : mant ≠ 0)
    (hD : 10 ^ 16 ≤ (floatDigits mant e2).1 ∧ (floatDigits mant e2).1 < 10 ^ 17) :
    parseFloatText (asciiFloatField neg mant e2) =
      roundToDouble neg (floatDigits mant e2).1 ((floatDigits mant e2).2 - 16) := by
  unfold parseFloatText asciiFloatField
  simp only [hm, ↓reduceIte]
  rw [parseEText_eText neg _ _ hD]

example : floatDigits 3 (-1) = (15000000000000000, 0) ∧ eText false 15000000000000000 0 = asciiFloatField false 3 (-1) := by
  decide +kernel

/-- **Re-writing what was read, ASCII**: reading an ASCII file the writer produced and writing what was read gives
the same text - for every file program over the Ascii routines, hence (next theorem) for every schema. -/
theorem write_read_write_ascii {α} (f : File α) (hf : f.AsciiM) (h : f.WF asciiFrame) (rest : Bytes) :
    ((f.reseed asciiFrame ((f.write asciiFrame).1 ++ rest)).write asciiFrame).1 ++ rest
      = (f.write asciiFrame).1 ++ rest :=
  (file_rewrite_identical asciiFrame f _ rest _ (file_roundtrip_ascii f hf h rest)
    (written_file_canon asciiFrame asciiInt_roundtrip f (File.AsciiM.rt f hf) h rest)).1

theorem schema_write_read_write_ascii (s : FileS) (env0 : Env) (inp : List Val)
    (h : (schemaFile asciiCodecsM s env0 inp).WF asciiFrame) (rest : Bytes) :
    (((schemaFile asciiCodecsM s env0 inp).reseed asciiFrame
        (((schemaFile asciiCodecsM s env0 inp).write asciiFrame).1 ++ rest)).write asciiFrame).1 ++ rest
      = ((schemaFile asciiCodecsM s env0 inp).write asciiFrame).1 ++ rest :=
  write_read_write_ascii _ (schema_asciiM s env0 inp) h rest

end ArmiVerif.Cccc
